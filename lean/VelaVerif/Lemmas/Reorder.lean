import VelaVerif.Model.Reorder
/-!
Lemmas about the brick traversal (`Model/Reorder.lean`): loop ranges, counting in nested loops,
and the bijection of the depth-first traversal.
-/
namespace VelaVerif.Reorder
open List

/-! ### `for (x = 0; x < n; x += s)` -/

theorem mem_stepRange {n s a : Nat} (hs : 0 < s) : a ∈ stepRange n s ↔ a < n ∧ s ∣ a := by
  unfold stepRange
  simp only [mem_map, mem_range]
  constructor
  · rintro ⟨j, hj, rfl⟩
    have h1 : j + 1 ≤ (n + s - 1) / s := hj
    rw [Nat.le_div_iff_mul_le hs] at h1
    have : (j + 1) * s = j * s + s := by rw [Nat.add_mul, Nat.one_mul]
    exact ⟨by omega, Nat.dvd_mul_left s j⟩
  · rintro ⟨ha, k, rfl⟩
    refine ⟨k, ?_, Nat.mul_comm k s⟩
    show k + 1 ≤ (n + s - 1) / s
    rw [Nat.le_div_iff_mul_le hs]
    have : (k + 1) * s = s * k + s := by rw [Nat.add_mul, Nat.one_mul, Nat.mul_comm]
    omega

theorem nodup_stepRange {n s : Nat} (hs : 0 < s) : (stepRange n s).Nodup := by
  unfold stepRange
  rw [List.Nodup, pairwise_map]
  refine Pairwise.imp ?_ (nodup_range (n := (n + s - 1) / s))
  intro a b hab h
  exact hab (Nat.eq_of_mul_eq_mul_right hs h)

theorem length_stepRange (n s : Nat) : (stepRange n s).length = (n + s - 1) / s := by
  simp [stepRange]

/-- a value lies in exactly one block of width `s` -/
theorem block_unique {s a a' v : Nat} (ha : s ∣ a) (ha' : s ∣ a') (h1 : a ≤ v) (h2 : v < a + s)
    (h1' : a' ≤ v) (h2' : v < a' + s) : a = a' := by
  obtain ⟨k, rfl⟩ := ha
  obtain ⟨k', rfl⟩ := ha'
  have hlt : ∀ x y : Nat, s * x ≤ v → v < s * y + s → x < y + 1 := by
    intro x y hx hy
    have : s * x < s * (y + 1) := by rw [Nat.mul_add, Nat.mul_one]; omega
    exact Nat.lt_of_mul_lt_mul_left this
  have := hlt k k' h1 h2'
  have := hlt k' k h1' h2
  have : k = k' := by omega
  rw [this]

/-- the block of `v` -/
theorem block_of {s v : Nat} (hs : 0 < s) : s ∣ v / s * s ∧ v / s * s ≤ v ∧ v < v / s * s + s := by
  refine ⟨Nat.dvd_mul_left s _, Nat.div_mul_le_self v s, ?_⟩
  have h1 := Nat.div_add_mod v s
  have h2 := Nat.mod_lt v hs
  rw [Nat.mul_comm] at h1
  omega

/-- two multiples of `s`, one below the other, are at least `s` apart -/
theorem dvd_lt_add_le {s a b : Nat} (ha : s ∣ a) (hb : s ∣ b) (h : a < b) : a + s ≤ b := by
  obtain ⟨k, rfl⟩ := ha
  obtain ⟨k', rfl⟩ := hb
  have : k < k' := Nat.lt_of_mul_lt_mul_left h
  calc s * k + s = s * (k + 1) := by rw [Nat.mul_add, Nat.mul_one]
    _ ≤ s * k' := Nat.mul_le_mul_left s this

/-! ### counting in nested loops -/

theorem count_flatMap_zero {α β : Type} [BEq β] [LawfulBEq β] (l : List α) (f : α → List β) (y : β)
    (h : ∀ a ∈ l, y ∉ f a) : count y (l.flatMap f) = 0 := by
  rw [count_eq_zero, mem_flatMap]
  rintro ⟨a, ha, hy⟩
  exact h a ha hy

/-- if exactly one iteration `a` of a loop can produce `y`, count only that iteration -/
theorem count_flatMap_unique {α β : Type} [BEq β] [LawfulBEq β] (l : List α) (f : α → List β) (y : β) (a : α)
    (hn : l.Nodup) (ha : a ∈ l) (h : ∀ a' ∈ l, a' ≠ a → y ∉ f a') :
    count y (l.flatMap f) = count y (f a) := by
  induction l with
  | nil => cases ha
  | cons x xs ih =>
    rw [flatMap_cons, count_append]
    rw [nodup_cons] at hn
    by_cases hx : x = a
    · subst hx
      rw [count_flatMap_zero xs f y]
      · omega
      · intro a' ha' hy
        exact h a' (mem_cons_of_mem _ ha') (fun e => hn.1 (e ▸ ha')) hy
    · have hax : a ∈ xs := by
        rcases mem_cons.mp ha with e | e
        · exact absurd e.symm hx
        · exact e
      have h0 : count y (f x) = 0 := count_eq_zero.mpr (h x (mem_cons_self) hx)
      rw [h0, ih hn.2 hax (fun a' ha' => h a' (mem_cons_of_mem _ ha'))]
      omega

theorem count_map_unique {α β : Type} [BEq β] [LawfulBEq β] (l : List α) (g : α → β) (y : β) (a : α)
    (hn : l.Nodup) (ha : a ∈ l) (hg : g a = y) (h : ∀ a' ∈ l, a' ≠ a → g a' ≠ y) :
    count y (l.map g) = 1 := by
  have : ∀ l : List α, l.map g = l.flatMap (fun a => [g a]) := by
    intro l
    induction l with
    | nil => rfl
    | cons x xs ih => simp [flatMap_cons, ih]
  rw [this l, count_flatMap_unique l _ y a hn ha]
  · simp [hg]
  · intro a' ha' hne hy
    simp at hy
    exact h a' ha' hne hy.symm

/-! ### the depth-first traversal is a bijection plus padding -/

theorem cell_eq_some {p : Params} {B Bi sy sx subH subW io ub e ii uz iz : Nat} {c : Coord} :
    cell p B Bi sy sx subH subW io ub e ii uz iz = some c ↔
      (Bi + (ii + io) + iz < p.ifmDepth ∧ B + ub + uz < p.ofmDepth ∧ e / subW < subH) ∧
      c = ⟨B + ub + uz, sy + e / subW, sx + e % subW, Bi + (ii + io) + iz⟩ := by
  unfold cell
  simp only []
  split
  · rename_i h
    simp only [Bool.and_eq_true, decide_eq_true_eq] at h
    simp only [Option.some.injEq]
    constructor
    · intro e; exact ⟨⟨h.1.1, h.1.2, h.2⟩, e.symm⟩
    · intro e; exact e.2.symm
  · rename_i h
    simp only [Bool.and_eq_true, decide_eq_true_eq] at h
    constructor
    · intro e; cases e
    · intro e; exact absurd ⟨⟨e.1.1, e.1.2.1⟩, e.1.2.2⟩ h

/-- levels 5–10 (depth-first, not depthwise): inside one sub-kernel of one brick -/
theorem count_subkernel_df {p : Params} (hdw : p.isDepthwise = false) (hpk : p.isPartkernel = false)
    (hiu : 0 < p.ifmUblockDepth) (hou : 0 < p.ofmUblockDepth)
    {B cl Bi ibd sy sx subH subW : Nat} {c : Coord}
    (hsw : 0 < subW)
    (ho1 : B ≤ c.o) (ho2 : c.o < B + cl) (ho3 : c.o < p.ofmDepth)
    (hi1 : Bi ≤ c.i) (hi2 : c.i < Bi + ibd) (hi3 : c.i < p.ifmDepth)
    (hy1 : sy ≤ c.y) (hy2 : c.y < sy + subH) (hx1 : sx ≤ c.x) (hx2 : c.x < sx + subW) :
    count (some c) (subkernel p B cl Bi ibd sy sx subH subW) = 1 := by
  obtain ⟨co, cy, cx, ci⟩ := c
  simp only at ho1 ho2 ho3 hi1 hi2 hi3 hy1 hy2 hx1 hx2
  unfold subkernel
  simp only [hpk, hdw, Bool.false_eq_true, if_false, Params.subkernelElements]
  -- level 5: outer IFM micro-block loop has the single iteration 0
  have h5 : (0 : Nat) ∈ stepRange 1 p.ifmUblockDepth := (mem_stepRange hiu).mpr ⟨by omega, Nat.dvd_zero _⟩
  refine (count_flatMap_unique _ _ _ 0 (nodup_stepRange hiu) h5 ?_).trans ?_
  · intro a' ha' hne
    rw [mem_stepRange hiu] at ha'
    obtain ⟨k, rfl⟩ := ha'.2
    have : k = 0 := by
      rcases Nat.eq_zero_or_pos k with h | h
      · exact h
      · have := Nat.le_mul_of_pos_right p.ifmUblockDepth h
        omega
    subst this; simp at hne
  -- level 6: OFM micro-block
  obtain ⟨hub1, hub2, hub3⟩ := block_of (v := co - B) hou
  refine (count_flatMap_unique _ _ _ ((co - B) / p.ofmUblockDepth * p.ofmUblockDepth) (nodup_stepRange hou)
    ((mem_stepRange hou).mpr ⟨by omega, hub1⟩) ?_).trans ?_
  · intro ub' hub' hne hmem
    rw [mem_stepRange hou] at hub'
    simp only [mem_flatMap, mem_map, mem_range, cell_eq_some, Coord.mk.injEq] at hmem
    obtain ⟨e, he, ii, hii, uz, huz, iz, hiz, hg, h1, h2, h3, h4⟩ := hmem
    exact hne (block_unique (v := co - B) hub'.2 hub1 (by omega) (by omega) hub2 hub3)
  generalize hub : (co - B) / p.ofmUblockDepth * p.ofmUblockDepth = ub at hub1 hub2 hub3
  -- level 7: kernel element
  have hdm := Nat.div_add_mod ((cy - sy) * subW + (cx - sx)) subW
  have he_div : ((cy - sy) * subW + (cx - sx)) / subW = cy - sy := by
    rw [Nat.add_comm, Nat.add_mul_div_right _ _ hsw, Nat.div_eq_of_lt (by omega)]; omega
  have he_mod : ((cy - sy) * subW + (cx - sx)) % subW = cx - sx := by
    rw [Nat.add_comm, Nat.add_mul_mod_self_right, Nat.mod_eq_of_lt (by omega)]
  have he_lt : (cy - sy) * subW + (cx - sx) < subW * subH := by
    calc (cy - sy) * subW + (cx - sx) < (cy - sy) * subW + subW := by omega
      _ = (cy - sy + 1) * subW := by rw [Nat.add_mul, Nat.one_mul]
      _ ≤ subH * subW := Nat.mul_le_mul_right _ (by omega)
      _ = subW * subH := Nat.mul_comm _ _
  refine (count_flatMap_unique _ _ _ ((cy - sy) * subW + (cx - sx)) nodup_range (mem_range.mpr he_lt) ?_).trans ?_
  · intro e' he' hne hmem
    simp only [mem_flatMap, mem_map, mem_range, cell_eq_some, Coord.mk.injEq] at hmem
    obtain ⟨ii, hii, uz, huz, iz, hiz, hg, h1, h2, h3, h4⟩ := hmem
    apply hne
    have := Nat.div_add_mod e' subW
    have h2' : e' / subW = cy - sy := by omega
    have h3' : e' % subW = cx - sx := by omega
    rw [← this, h2', h3', Nat.mul_comm]
  -- level 8: inner IFM micro-block
  obtain ⟨hib1, hib2, hib3⟩ := block_of (v := ci - Bi) hiu
  refine (count_flatMap_unique _ _ _ ((ci - Bi) / p.ifmUblockDepth * p.ifmUblockDepth) (nodup_stepRange hiu)
    ((mem_stepRange hiu).mpr ⟨by omega, hib1⟩) ?_).trans ?_
  · intro ii' hii' hne hmem
    rw [mem_stepRange hiu] at hii'
    simp only [mem_flatMap, mem_map, mem_range, cell_eq_some, Coord.mk.injEq] at hmem
    obtain ⟨uz, huz, iz, hiz, hg, h1, h2, h3, h4⟩ := hmem
    exact hne (block_unique (v := ci - Bi) hii'.2 hib1 (by omega) (by omega) hib2 hib3)
  generalize hib : (ci - Bi) / p.ifmUblockDepth * p.ifmUblockDepth = ib at hib1 hib2 hib3
  -- level 9: element of the OFM micro-block
  refine (count_flatMap_unique _ _ _ (co - B - ub) nodup_range (mem_range.mpr (by omega)) ?_).trans ?_
  · intro uz' huz' hne hmem
    simp only [mem_map, mem_range, cell_eq_some, Coord.mk.injEq] at hmem
    obtain ⟨iz, hiz, hg, h1, h2, h3, h4⟩ := hmem
    omega
  -- level 10: element of the IFM micro-block
  refine count_map_unique _ _ _ (ci - Bi - ib) nodup_range (mem_range.mpr (by omega)) ?_ ?_
  · rw [cell_eq_some, he_div, he_mod]
    refine ⟨⟨by omega, by omega, by omega⟩, ?_⟩
    simp only [Coord.mk.injEq]
    omega
  · intro iz' hiz' hne hmem
    simp only [cell_eq_some, Coord.mk.injEq] at hmem
    omega
/-- what a coordinate emitted inside one sub-kernel looks like (depth-first, not depthwise) -/
theorem mem_subkernel_df {p : Params} (hdw : p.isDepthwise = false) (hpk : p.isPartkernel = false)
    (hiu : 0 < p.ifmUblockDepth) (hou : 0 < p.ofmUblockDepth)
    {B cl Bi ibd sy sx subH subW : Nat} {c : Coord} (hsw : 0 < subW)
    (h : some c ∈ subkernel p B cl Bi ibd sy sx subH subW) :
    ∃ ub uz ii iz, (ub < cl ∧ p.ofmUblockDepth ∣ ub) ∧ uz < p.ofmUblockDepth ∧
      (ii < ibd ∧ p.ifmUblockDepth ∣ ii) ∧ iz < p.ifmUblockDepth ∧
      c.o = B + ub + uz ∧ c.i = Bi + ii + iz ∧ c.o < p.ofmDepth ∧ c.i < p.ifmDepth ∧
      sy ≤ c.y ∧ c.y < sy + subH ∧ sx ≤ c.x ∧ c.x < sx + subW := by
  unfold subkernel at h
  simp only [hpk, hdw, Bool.false_eq_true, if_false, mem_flatMap, mem_map, mem_range, cell_eq_some,
    mem_stepRange hiu, mem_stepRange hou] at h
  obtain ⟨io, ⟨hio1, hio2⟩, ub, hub, e, he, ii, hii, uz, huz, iz, hiz, ⟨g1, g2, g3⟩, rfl⟩ := h
  have hio : io = 0 := by
    obtain ⟨k, rfl⟩ := hio2
    rcases Nat.eq_zero_or_pos k with h | h
    · subst h; rfl
    · have := Nat.le_mul_of_pos_right p.ifmUblockDepth h
      omega
  subst hio
  have := Nat.mod_lt e hsw
  exact ⟨ub, uz, ii, iz, hub, huz, hii, hiz, rfl, by simp, g2, by simpa using g1, by simp, by simp; omega, by simp, by simp; omega⟩


theorem ifmBlockDepth_pos (p : Params) : 0 < p.ifmBlockDepth := by
  unfold Params.ifmBlockDepth; split <;> decide

/-- what a coordinate emitted inside one brick looks like -/
theorem mem_brick_df {p : Params} (v : ValidDepthFirst p) {B cl Bi : Nat} {c : Coord}
    (h : some c ∈ brick p B cl Bi) :
    ∃ ub uz ii iz, (ub < cl ∧ p.ofmUblockDepth ∣ ub) ∧ uz < p.ofmUblockDepth ∧
      (ii < p.ifmBlockDepth ∧ p.ifmUblockDepth ∣ ii) ∧ iz < p.ifmUblockDepth ∧
      c.o = B + ub + uz ∧ c.i = Bi + ii + iz ∧ p.inRange c = true := by
  unfold brick at h
  simp only [v.notDepthwise, v.notPartkernel, Bool.false_eq_true, if_false, mem_flatMap,
    mem_stepRange v.dhPos, mem_stepRange v.dwPos] at h
  obtain ⟨sy, ⟨hsy, _⟩, sx, ⟨hsx, _⟩, h⟩ := h
  obtain ⟨ub, uz, ii, iz, h1, h2, h3, h4, h5, h6, h7, h8, h9, h10, h11, h12⟩ :=
    mem_subkernel_df v.notDepthwise v.notPartkernel v.iuPos v.ouPos (by have := v.dwPos; omega) h
  refine ⟨ub, uz, ii, iz, h1, h2, h3, h4, h5, h6, ?_⟩
  simp only [Params.inRange, Bool.and_eq_true, decide_eq_true_eq]
  omega

/-- levels 3–4: the sub-kernel decomposition inside one brick -/
theorem count_brick_df {p : Params} (v : ValidDepthFirst p) {B cl Bi : Nat} {c : Coord}
    (ho1 : B ≤ c.o) (ho2 : c.o < B + cl) (hi1 : Bi ≤ c.i) (hi2 : c.i < Bi + p.ifmBlockDepth)
    (hr : p.inRange c = true) : count (some c) (brick p B cl Bi) = 1 := by
  simp only [Params.inRange, Bool.and_eq_true, decide_eq_true_eq] at hr
  obtain ⟨⟨⟨hr1, hr2⟩, hr3⟩, hr4⟩ := hr
  unfold brick
  simp only [v.notDepthwise, v.notPartkernel, Bool.false_eq_true, if_false]
  obtain ⟨hy1, hy2, hy3⟩ := block_of (v := c.y) v.dhPos
  obtain ⟨hx1, hx2, hx3⟩ := block_of (v := c.x) v.dwPos
  refine (count_flatMap_unique _ _ _ (c.y / p.decompH * p.decompH) (nodup_stepRange v.dhPos)
    ((mem_stepRange v.dhPos).mpr ⟨by omega, hy1⟩) ?_).trans ?_
  · intro sy' hsy' hne hmem
    rw [mem_stepRange v.dhPos] at hsy'
    simp only [mem_flatMap, mem_stepRange v.dwPos] at hmem
    obtain ⟨sx, ⟨hsx, _⟩, hmem⟩ := hmem
    obtain ⟨_, _, _, _, _, _, _, _, _, _, _, _, h9, h10, _, _⟩ :=
      mem_subkernel_df v.notDepthwise v.notPartkernel v.iuPos v.ouPos (by have := v.dwPos; omega) hmem
    exact hne (block_unique (v := c.y) hsy'.2 hy1 h9 (by omega) hy2 hy3)
  refine (count_flatMap_unique _ _ _ (c.x / p.decompW * p.decompW) (nodup_stepRange v.dwPos)
    ((mem_stepRange v.dwPos).mpr ⟨by omega, hx1⟩) ?_).trans ?_
  · intro sx' hsx' hne hmem
    rw [mem_stepRange v.dwPos] at hsx'
    obtain ⟨_, _, _, _, _, _, _, _, _, _, _, _, _, _, h11, h12⟩ :=
      mem_subkernel_df v.notDepthwise v.notPartkernel v.iuPos v.ouPos (by have := v.dwPos; omega) hmem
    exact hne (block_unique (v := c.x) hsx'.2 hx1 h11 (by omega) hx2 hx3)
  exact count_subkernel_df v.notDepthwise v.notPartkernel v.iuPos v.ouPos (by have := v.dwPos; omega)
    ho1 ho2 hr1 hi1 hi2 hr4 hy2 (by omega) hx2 (by omega)

/-- every emitted coordinate lies inside the volume -/
theorem traverse_sound_df {p : Params} (v : ValidDepthFirst p) {c : Coord} (h : some c ∈ traverse p) :
    p.inRange c = true := by
  unfold traverse at h
  simp only [mem_flatMap] at h
  obtain ⟨B, _, Bi, _, h⟩ := h
  obtain ⟨_, _, _, _, _, _, _, _, _, _, hr⟩ := mem_brick_df v h
  exact hr

/-- levels 1–2: every in-range coordinate is emitted exactly once -/
theorem count_traverse_df {p : Params} (v : ValidDepthFirst p) {c : Coord} (hr : p.inRange c = true) :
    count (some c) (traverse p) = 1 := by
  have hr' := hr
  simp only [Params.inRange, Bool.and_eq_true, decide_eq_true_eq] at hr'
  obtain ⟨⟨⟨hr1, hr2⟩, hr3⟩, hr4⟩ := hr'
  have hibd := ifmBlockDepth_pos p
  unfold traverse
  simp only [v.notDepthwise, Bool.false_eq_true, if_false]
  obtain ⟨ho1, ho2, ho3⟩ := block_of (v := c.o) v.obdPos
  obtain ⟨hi1, hi2, hi3⟩ := block_of (v := c.i) hibd
  refine (count_flatMap_unique _ _ _ (c.o / p.ofmBlockDepth * p.ofmBlockDepth) (nodup_stepRange v.obdPos)
    ((mem_stepRange v.obdPos).mpr ⟨by omega, ho1⟩) ?_).trans ?_
  · intro B' hB' hne hmem
    rw [mem_stepRange v.obdPos] at hB'
    simp only [mem_flatMap] at hmem
    obtain ⟨Bi, _, hmem⟩ := hmem
    obtain ⟨ub, uz, ii, iz, ⟨h1, h1'⟩, h2, _, _, h5, _, _⟩ := mem_brick_df v hmem
    have : ub + p.ofmUblockDepth ≤ p.ofmBlockDepth := dvd_lt_add_le h1' v.ouDvd (by omega)
    exact hne (block_unique (v := c.o) hB'.2 ho1 (by omega) (by omega) ho2 ho3)
  refine (count_flatMap_unique _ _ _ (c.i / p.ifmBlockDepth * p.ifmBlockDepth) (nodup_stepRange hibd)
    ((mem_stepRange hibd).mpr ⟨by omega, hi1⟩) ?_).trans ?_
  · intro Bi' hBi' hne hmem
    rw [mem_stepRange hibd] at hBi'
    obtain ⟨ub, uz, ii, iz, _, _, ⟨h3, h3'⟩, h4, _, h6, _⟩ := mem_brick_df v hmem
    have : ii + p.ifmUblockDepth ≤ p.ifmBlockDepth := dvd_lt_add_le h3' v.iuDvd h3
    exact hne (block_unique (v := c.i) hBi'.2 hi1 (by omega) (by omega) hi2 hi3)
  exact count_brick_df v ho2 (by omega) hi2 hi3 hr


end VelaVerif.Reorder
