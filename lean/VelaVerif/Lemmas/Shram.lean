import VelaVerif.Model.Shram
import VelaVerif.Spec.Shram
/-! Helper lemmas for C15 (model: `Model/Shram.lean`, spec: `Spec/Shram.lean`). -/
namespace VelaVerif.Shram
open VelaVerif.Gen VelaVerif.Gen.Shram VelaVerif.Spec.Shram
theorem le_roundUp (a b : Nat) (hb : 0 < b) : a ≤ roundUp a b := by
  unfold roundUp
  have h := Nat.div_add_mod (a + b - 1) b
  have h2 := Nat.mod_lt (a + b - 1) hb
  have : (a + b - 1) / b * b = b * ((a + b - 1) / b) := Nat.mul_comm _ _
  omega

theorem roundUp_mod (a b : Nat) : roundUp a b % b = 0 := by
  unfold roundUp; exact Nat.mul_mod_left _ _

theorem roundUpDivide_le (a b n : Nat) (hb : 0 < b) (h : a ≤ n * b) : roundUpDivide a b ≤ n := by
  unfold roundUpDivide
  have : (a + b - 1) / b < n + 1 := by
    rw [Nat.div_lt_iff_lt_mul hb]
    have : (n + 1) * b = n * b + b := Nat.succ_mul n b
    omega
  omega

theorem le_roundUpDivide_mul (a b : Nat) (hb : 0 < b) : a ≤ roundUpDivide a b * b := le_roundUp a b hb

theorem roundUp_le_of_mod (a b m : Nat) (hb : 0 < b) (hm : m % b = 0) (ham : a ≤ m) : roundUp a b ≤ m := by
  have hk : m = m / b * b := by
    have := Nat.div_add_mod m b
    have : m / b * b = b * (m / b) := Nat.mul_comm _ _
    omega
  have h2 : roundUpDivide a b ≤ m / b := roundUpDivide_le a b (m / b) hb (by omega)
  have : roundUp a b = roundUpDivide a b * b := rfl
  rw [this, hk]
  exact Nat.mul_le_mul_right b h2

theorem ceilDiv_eq (a b : Nat) : ceilDiv a b = roundUpDivide a b := rfl
theorem ceilTo_eq (a b : Nat) : ceilTo a b = roundUp a b := rfl

theorem banksNeeded_eq (bytes bank g : Nat) : banksNeeded bytes bank g = bankNeed bytes bank g := by
  unfold banksNeeded bankNeed
  rw [ceilTo_eq, ceilDiv_eq, Nat.mul_comm]

/-- the executable test is exactly the `Prop` -/
theorem fitsB_iff (banks : Int) (bytes bank g : Nat) (hb : 0 < bank) (hg : 0 < g) :
    fitsB banks bytes bank g = true ↔ Fits banks bytes bank g := by
  unfold fitsB Fits
  rw [decide_eq_true_iff, banksNeeded_eq]
  constructor
  · intro h
    refine ⟨roundUpDivide bytes bank, bankNeed bytes bank g, le_roundUpDivide_mul _ _ hb, ?_, roundUp_mod _ _, h⟩
    unfold bankNeed
    have := le_roundUp (roundUpDivide bytes bank * 2) g hg
    omega
  · rintro ⟨n, m, h1, h2, h3, h4⟩
    have a1 : roundUpDivide bytes bank ≤ n := roundUpDivide_le _ _ _ hb h1
    have a2 : bankNeed bytes bank g ≤ m := roundUp_le_of_mod _ _ _ hg h3 (by omega)
    omega

theorem fits_bankNeed (bytes bank g : Nat) (hb : 0 < bank) (hg : 0 < g) (p : Int) (hp : (bankNeed bytes bank g : Int) ≤ p) :
    Fits p bytes bank g := by
  rw [← fitsB_iff _ _ _ _ hb hg]; unfold fitsB; rw [banksNeeded_eq]; simpa using hp

theorem Fits.mono {p q : Int} {bytes bank g : Nat} (h : Fits p bytes bank g) (hpq : p ≤ q) : Fits q bytes bank g := by
  obtain ⟨n, m, h1, h2, h3, h4⟩ := h
  exact ⟨n, m, h1, h2, h3, by omega⟩

/-! ### `_try_block_config` -/

theorem tryCore_ordered {reserved bank total : Nat} {ew : EwUsage} {ofmB ifmB : Blk}
    {ifmBits ig ab ag : Nat} {lut : Int} {L : Layout}
    (h : tryCore reserved bank total ew ofmB ifmB ifmBits ig ab ag lut = .ok (some L)) (hl : 0 ≤ lut) :
    (reserved : Int) = L.ibStart ∧ L.ibStart ≤ L.ibStart2 ∧ L.ibStart2 ≤ L.ibEnd ∧ L.ibEnd ≤ L.abStart ∧
      L.abStart ≤ L.lutStart ∧ L.lutStart ≤ total := by
  unfold tryCore at h
  split at h; · cases h
  split at h; · cases h
  split at h; · cases h
  cases ew <;> dsimp only at h <;> split at h <;> simp only [Except.ok.injEq, Option.some.injEq, reduceCtorEq] at h
  all_goals (rename_i hc; subst h; dsimp only; omega)

theorem tryCore_sufficient {reserved bank total : Nat} {ew : EwUsage} {ofmB ifmB : Blk}
    {ifmBits ig ab ag : Nat} {lut : Int} {L : Layout}
    (h : tryCore reserved bank total ew ofmB ifmB ifmBits ig ab ag lut = .ok (some L)) :
    (0 < bank ∧ 0 < ig ∧ 0 < ag ∧ 0 < ab ∧ ifmBits % 8 = 0) ∧
    (ew = .no → Fits (L.ibEnd - L.ibStart) (ifmBytes ifmB ifmBits) bank ig ∧
             Fits (L.lutStart - L.abStart) (accBytes ofmB ab) bank ag) ∧
    (ew = .full → Fits (L.ibStart2 - L.ibStart) (ifmBytes ifmB ifmBits) bank ig ∧
               Fits (L.ibEnd - L.ibStart2) (ifmBytes ifmB ifmBits) bank ig) ∧
    (ew = .scalar → Fits (L.ibEnd - L.ibStart) (ifmBytes ifmB ifmBits) bank ig) := by
  unfold tryCore at h
  split at h; · cases h
  split at h; · cases h
  split at h; · cases h
  rename_i h1 h2 h3
  have hb : 0 < bank := by omega
  have hig : 0 < ig := by omega
  have hag : 0 < ag := by omega
  refine ⟨⟨hb, hig, hag, by omega, by omega⟩, ?_⟩
  cases ew <;> dsimp only at h <;> split at h <;> simp only [Except.ok.injEq, Option.some.injEq, reduceCtorEq] at h
  all_goals (rename_i hc; subst h; dsimp only)
  · exact ⟨fun _ => ⟨fits_bankNeed _ _ _ hb hig _ (by omega), fits_bankNeed _ _ _ hb hag _ (by omega)⟩,
      fun h => (by cases h), fun h => (by cases h)⟩
  · exact ⟨fun h => (by cases h),
      fun _ => ⟨fits_bankNeed _ _ _ hb hig _ (by omega), fits_bankNeed _ _ _ hb hig _ (by omega)⟩, fun h => (by cases h)⟩
  · exact ⟨fun h => (by cases h), fun h => (by cases h), fun _ => fits_bankNeed _ _ _ hb hig _ (by omega)⟩

theorem tryCore_lutStart {reserved bank total : Nat} {ew : EwUsage} {ofmB ifmB : Blk}
    {ifmBits ig ab ag : Nat} {lut : Int} {L : Layout}
    (h : tryCore reserved bank total ew ofmB ifmB ifmBits ig ab ag lut = .ok (some L)) :
    L.lutStart = (total : Int) - lut := by
  unfold tryCore at h
  split at h; · cases h
  split at h; · cases h
  split at h; · cases h
  cases ew <;> dsimp only at h <;> split at h <;> simp only [Except.ok.injEq, Option.some.injEq, reduceCtorEq] at h
  all_goals (subst h; rfl)


/-! ### facts about a row of the regenerated tables (all checked by `decide` in `Props/C15.lean`) -/

/-- `tail` is `arch.shram_reserved_unused_banks` of the same accelerator (Core table). -/
def RowOk (row : Row) (tail : Nat) : Prop :=
  (0 < row.ofmUblock.width ∧ 0 < row.ofmUblock.height ∧ 0 < row.ofmUblock.depth ∧ 0 < row.ifmUblock.depth) ∧
  (row.ofmBlockMax.width % row.ofmUblock.width = 0 ∧ row.ofmBlockMax.height % row.ofmUblock.height = 0 ∧
    row.ofmBlockMax.depth % row.ofmUblock.depth = 0 ∧ splitDepth % row.ofmUblock.depth = 0 ∧ 0 < splitDepth) ∧
  (0 < row.bankSizeBytes ∧ row.totalBanks = row.cfgShramBanks ∧ tail ≤ row.reservedEndBanks ∧
    row.reservedEndBanks ≤ row.totalBanks) ∧
  ((row.totalBanks - max 2 row.reservedEndBanks) * row.bankSizeBytes ≤ row.lutAddress ∧
    row.lutAddress + row.lutSize ≤ row.cfgShramBanks * row.bankSizeBytes) ∧
  (granuleOf row .ifm8 = some row.ifmGranule8 ∧ granuleOf row .ifm16 = some row.ifmGranule16 ∧
    granuleOf row .ifm32 = some row.ifmGranule32 ∧ granuleOf row .ifm8Ew = some row.ifmEwGranule8 ∧
    granuleOf row .ifm16Ew = some row.ifmEwGranule16 ∧ row.ifmEwGranule32 = row.ifmGranule32 ∧
    granuleOf row .acc16 = some row.accGranule16 ∧ granuleOf row .acc32 = some row.accGranule32 ∧
    granuleOf row .acc40 = some row.accGranule40) ∧
  (0 < row.accGranule16 ∧ 0 < row.accGranule32 ∧ 0 < row.accGranule40)

instance (row : Row) (tail : Nat) : Decidable (RowOk row tail) := by unfold RowOk; infer_instance

theorem accBits_values : accBits16 = 16 ∧ accBits32 = 32 ∧ accBits40 = 40 := by decide

def usageOf : EwUsage → Usage
  | .no => .mac
  | .full => .ewBinary
  | .scalar => .ewUnary

/-- the Spec's view of the operation behind a `try_block_config` call -/
def TryArgs.view (a : TryArgs) : OpView :=
  { usage := usageOf (ewUsage a.bt a.usesScalar),
    equalDepth := isEqualDepthOp a.bt (ewUsage a.bt a.usesScalar),
    ifmBits := a.ifmBits,
    ifmDepth := effIfmDepth (blkElements a.ifm) a.ifm.depth (a.ifm2.map fun b => (blkElements b, b.depth)),
    partKernel := a.isPartKernel,
    kernelW := a.kernel.width, kernelH := a.kernel.height, strideX := a.kernel.strideX, strideY := a.kernel.strideY,
    dilX := a.kernel.dilX, dilY := a.kernel.dilY,
    upscale := toUpscale a.resampling, nearest := isNearest a.resampling,
    ofmHeight := a.ofm.height,
    usesLut := decide (2 ≤ a.lutBanks) }

def Layout.regions (l : Layout) : Regions := ⟨l.ibStart, l.ibStart2, l.ibEnd, l.abStart, l.lutStart⟩

theorem mkCtx_ok {row bt ofmH d us bits pk k lut sc r c}
    (h : mkCtx row bt ofmH d us bits pk k lut sc r = .ok c) :
    ∃ g, ifmGranule row (ewUsage bt us) bits = some g ∧
      c = { row := row, ew := ewUsage bt us, equalDepth := isEqualDepthOp bt (ewUsage bt us), ifmBits := bits,
            ifmGranule := g, acc := accType bt bits sc, lutBanks := max lut (row.reservedEndBanks : Int),
            upscale := toUpscale r, nearest := isNearest r, ifmBlockDepth := ifmBlockDepth row d bits pk,
            kernel := k, ofmHeight := ofmH } := by
  unfold mkCtx at h
  dsimp only at h
  split at h
  · cases h
  · rename_i g hg
    refine ⟨g, hg, ?_⟩
    simp only [Except.ok.injEq] at h
    exact h.symm

/-- the context `try_block_config` builds, given the granule lookup succeeded with `g` -/
def tryCtx (row : Row) (a : TryArgs) (g : Nat) : Ctx :=
  { row := row, ew := ewUsage a.bt a.usesScalar, equalDepth := isEqualDepthOp a.bt (ewUsage a.bt a.usesScalar),
    ifmBits := a.ifmBits, ifmGranule := g, acc := accType a.bt a.ifmBits a.scaled,
    lutBanks := max a.lutBanks (row.reservedEndBanks : Int),
    upscale := toUpscale a.resampling, nearest := isNearest a.resampling,
    ifmBlockDepth := ifmBlockDepth row a.view.ifmDepth a.ifmBits a.isPartKernel,
    kernel := a.kernel, ofmHeight := a.ofm.height }

/-- the IFM block the model feeds to `_try_block_config` is the one the Spec derives -/
theorem ifmBlockFor_eq_needed (row : Row) (a : TryArgs) (g : Nat) (blk : Blk) :
    (tryCtx row a g).ifmBlockFor blk = ifmBlockNeeded row a.view blk := by
  unfold Ctx.ifmBlockFor getIfmBlocksize ifmBlockNeeded
  simp only [tryCtx, TryArgs.view, requiredSize, ifmExtent, ceilTo_eq, ceilDiv_eq, roundUpDivide, Kernel.areaWidth, Kernel.areaHeight, VelaVerif.Shram.ifmBlockDepth]
  by_cases h : isEqualDepthOp a.bt (ewUsage a.bt a.usesScalar) = true <;> simp only [h, if_true, if_false, Bool.false_eq_true] <;> rfl


theorem tryBlockConfig_some {row : Row} {blk : Blk} {a : TryArgs} {cfg : Config}
    (h : tryBlockConfig row blk a = .ok (some cfg)) :
    blockValid row blk = true ∧ ∃ g L, ifmGranule row (ewUsage a.bt a.usesScalar) a.ifmBits = some g ∧
      (tryCtx row a g).layoutFor blk = .ok (some L) ∧
      cfg = { layout := L, ifmBlock := (tryCtx row a g).ifmBlockFor blk, ofmBlock := blk,
              accType := accType a.bt a.ifmBits a.scaled, isPartKernel := a.isPartKernel,
              bankSize := row.configBankSize } := by
  unfold tryBlockConfig at h
  split at h; · cases h
  split at h; · cases h
  rename_i hv
  split at h; · cases h
  split at h; · cases h
  rename_i c hc
  obtain ⟨g, hg, rfl⟩ := mkCtx_ok hc
  refine ⟨by simpa using hv, g, ?_⟩
  split at h
  · cases h
  · cases h
  · rename_i L hL
    simp only [Except.ok.injEq, Option.some.injEq] at h
    exact ⟨L, hg, hL, h.symm⟩

theorem blockOk_of_valid {row : Row} {blk : Blk} (h : blockValid row blk = true) : BlockOk row blk := by
  unfold blockValid at h
  simp only [Bool.and_eq_true, decide_eq_true_iff, beq_iff_eq] at h
  unfold BlockOk
  omega

theorem fit_eq_accBlock (row : Row) (a : TryArgs) (blk : Blk) :
    fitBlockForOfm row a.ofm.height a.kernel blk = accBlock row a.view blk := by
  unfold fitBlockForOfm accBlock
  show (if a.ofm.height = 1 ∧ a.kernel.height = 1 ∧ row.ofmUblock.height = 2 then _ else _) =
    (if a.ofm.height = 1 ∧ a.kernel.height = 1 ∧ row.ofmUblock.height = 2 then _ else _)
  by_cases h : a.ofm.height = 1 ∧ a.kernel.height = 1 ∧ row.ofmUblock.height = 2
  · rw [if_pos h, if_pos h, h.1]
  · rw [if_neg h, if_neg h]

theorem ifmBytes_eq_spec (b : Blk) (bits : Nat) (h : bits % 8 = 0) :
    ifmBytes b bits = ifmBlockBytes b.width b.height b.depth bits := by
  unfold ifmBytes ifmBlockBytes blkElementsWh
  rw [ceilTo_eq]
  have : b.depth * bits / 8 = b.depth * (bits / 8) := by
    have hb : bits = 8 * (bits / 8) := by omega
    generalize bits / 8 = q at hb
    subst hb
    rw [← Nat.mul_assoc, Nat.mul_comm b.depth 8, Nat.mul_assoc, Nat.mul_div_cancel_left _ (by omega : 0 < 8)]
  rw [this]

theorem accBytes_eq_spec (b : Blk) (ab : Nat) : accBytes b ab = accBlockBytes b.width b.height b.depth ab := rfl

theorem granule_ifm_spec {row : Row} {tail : Nat} (hr : RowOk row tail) {ew : EwUsage} {bits g : Nat}
    (h : ifmGranule row ew bits = some g) :
    (ifmElem bits (usageOf ew ≠ .mac)).bind (granuleOf row) = some g := by
  obtain ⟨_, _, _, _, ⟨g1, g2, g3, g4, g5, g6, _, _, _⟩, _⟩ := hr
  unfold ifmGranule at h
  unfold ifmElem
  cases ew <;> simp only [usageOf, ne_eq, not_true_eq_false, reduceCtorEq, not_false_eq_true, if_true, if_false, decide_true, decide_false] at h ⊢
  all_goals
    by_cases h8 : bits = 8
    · subst h8; simp_all
    · by_cases h16 : bits = 16
      · subst h16; simp_all
      · by_cases h32 : bits = 32
        · subst h32; simp_all
        · simp_all



theorem granule_acc_spec {row : Row} {tail : Nat} (hr : RowOk row tail) (t : AccType) :
    (accElem (accBitsOf t)).bind (granuleOf row) = some (accGranule row t) := by
  obtain ⟨_, _, _, _, ⟨_, _, _, _, _, _, g7, g8, g9⟩, _⟩ := hr
  obtain ⟨b1, b2, b3⟩ := accBits_values
  cases t <;> simp [accBitsOf, accGranule, accElem, b1, b2, b3, g7, g8, g9]

/-- **Model meets Spec**: whatever `try_block_config` accepts on a row satisfying the table facts is a
    valid configuration in the sense of `Spec/Shram.lean`. -/
theorem try_meets_spec {row : Row} {tail : Nat} {blk : Blk} {a : TryArgs} {cfg : Config}
    (hr : RowOk row tail) (h : tryBlockConfig row blk a = .ok (some cfg)) (hl : 0 ≤ a.lutBanks) :
    ConfigValid row tail a.view blk (accBitsOf cfg.accType) cfg.layout.regions := by
  obtain ⟨hv, g, L, hg, hL, rfl⟩ := tryBlockConfig_some h
  have hr' := hr
  obtain ⟨_, _, ⟨hbank, htot, htail, hre⟩, ⟨hlut1, hlut2⟩, _, _⟩ := hr'
  unfold Ctx.layoutFor at hL
  have hord := tryCore_ordered hL (by simp only [tryCtx]; omega)
  have hsuf := tryCore_sufficient hL
  have hls := tryCore_lutStart hL
  simp only [tryCtx] at hord hsuf hls
  refine ⟨blockOk_of_valid hv, ?_, ?_, g, accGranule row (accType a.bt a.ifmBits a.scaled),
    granule_ifm_spec hr hg, granule_acc_spec hr _, ?_⟩
  · -- ordered
    unfold Ordered Layout.regions
    simp only
    omega
  · -- tail / LUT
    unfold TailReserved Layout.regions
    simp only
    refine ⟨by omega, ?_⟩
    intro hu
    simp only [TryArgs.view, decide_eq_true_eq] at hu
    refine ⟨?_, hlut2⟩
    have h1 : L.lutStart ≤ ((row.totalBanks - max 2 row.reservedEndBanks : Nat) : Int) := by omega
    have h2 : L.lutStart * (row.bankSizeBytes : Int) ≤
        ((row.totalBanks - max 2 row.reservedEndBanks : Nat) : Int) * (row.bankSizeBytes : Int) :=
      Int.mul_le_mul_of_nonneg_right h1 (by omega)
    have h3 : (((row.totalBanks - max 2 row.reservedEndBanks) * row.bankSizeBytes : Nat) : Int) ≤ (row.lutAddress : Int) := by
      exact_mod_cast hlut1
    rw [Int.natCast_mul] at h3
    omega
  · -- sufficient
    have hbits := hsuf.1.2.2.2.2
    have e1 : ifmBytes ((tryCtx row a g).ifmBlockFor blk) a.ifmBits =
        ifmBlockBytes (ifmBlockNeeded row a.view blk).width (ifmBlockNeeded row a.view blk).height
          (ifmBlockNeeded row a.view blk).depth a.ifmBits := by
      rw [ifmBlockFor_eq_needed, ifmBytes_eq_spec _ _ hbits]
    have e2 : accBytes (fitBlockForOfm row a.ofm.height a.kernel blk) (accBitsOf (accType a.bt a.ifmBits a.scaled)) =
        accBlockBytes (accBlock row a.view blk).width (accBlock row a.view blk).height (accBlock row a.view blk).depth
          (accBitsOf (accType a.bt a.ifmBits a.scaled)) := by
      rw [fit_eq_accBlock, accBytes_eq_spec]
    have hs := hsuf.2
    simp only [tryCtx] at e1
    rw [e1, e2] at hs
    unfold Sufficient Layout.regions
    have hview : a.view.usage = usageOf (ewUsage a.bt a.usesScalar) := rfl
    rw [hview]
    cases hew : ewUsage a.bt a.usesScalar
    · exact hs.1 hew
    · exact hs.2.1 hew
    · exact hs.2.2 hew



/-! ### the WHC search -/

theorem foldE_inv {σ β ε : Type} (f : σ → β → Except ε σ) (I : σ → Prop) (P : β → Prop)
    (hstep : ∀ s b s', I s → P b → f s b = .ok s' → I s') :
    ∀ (l : List β) (s s' : σ), (∀ b ∈ l, P b) → I s → foldE f s l = .ok s' → I s' := by
  intro l
  induction l with
  | nil => intro s s' _ hi h; simp only [foldE, Except.ok.injEq] at h; exact h ▸ hi
  | cons b bs ih =>
    intro s s' hP hi h
    unfold foldE at h
    split at h
    · rename_i s1 hs1
      exact ih s1 s' (fun x hx => hP x (List.mem_cons_of_mem _ hx)) (hstep s b s1 hi (hP b List.mem_cons_self) hs1) h
    · cases h

theorem mem_multiplesUpTo {step stop x : Nat} (hs : 0 < step) (h : x ∈ multiplesUpTo step stop) :
    0 < x ∧ x % step = 0 ∧ x ≤ stop := by
  unfold multiplesUpTo at h
  simp only [List.mem_map, List.mem_range] at h
  obtain ⟨i, hi, rfl⟩ := h
  refine ⟨Nat.mul_pos (by omega) hs, Nat.mul_mod_left _ _, ?_⟩
  have h1 : (i + 1) * step ≤ stop / step * step := Nat.mul_le_mul_right step (by omega)
  have h2 : stop / step * step ≤ stop := Nat.div_mul_le_self stop step
  omega

theorem mem_hwPairs {ub : Blk} {sh sw : Nat} {p : Nat × Nat} (h : p ∈ hwPairs ub sh sw) :
    p.1 ∈ multiplesUpTo ub.height sh ∧ p.2 ∈ multiplesUpTo ub.width sw := by
  unfold hwPairs at h
  simp only [List.mem_flatMap, List.mem_map] at h
  obtain ⟨hh, hhm, w, hwm, rfl⟩ := h
  exact ⟨hhm, hwm⟩

/-- what is known about a remembered candidate -/
def GoodFound (c : Ctx) (sh sw sd : Nat) (f : Found) : Prop :=
  (0 < f.ofmBlock.width ∧ f.ofmBlock.width % c.row.ofmUblock.width = 0 ∧ f.ofmBlock.width ≤ sw) ∧
  (0 < f.ofmBlock.height ∧ f.ofmBlock.height % c.row.ofmUblock.height = 0 ∧ f.ofmBlock.height ≤ sh) ∧
  (0 < f.ofmBlock.depth ∧ f.ofmBlock.depth % c.row.ofmUblock.depth = 0 ∧ f.ofmBlock.depth ≤ sd) ∧
  c.layoutFor f.ofmBlock = .ok (some f.layout) ∧ f.ifmBlock = c.ifmBlockFor f.ofmBlock

def StateGood {α : Type} (c : Ctx) (sh sw sd : Nat) (s : SearchState α) : Prop :=
  ∀ cost f, s.best = some (cost, f) → GoodFound c sh sw sd f

theorem searchStep_good {α : Type} (ops : CostOps α) (c : Ctx) (e : SearchEnv) (sh sw sd d : Nat)
    (hd : 0 < d ∧ d % c.row.ofmUblock.depth = 0 ∧ d ≤ sd)
    (s : SearchState α) (hw : Nat × Nat) (s' : SearchState α)
    (hs : StateGood c sh sw sd s)
    (hhw : (0 < hw.1 ∧ hw.1 % c.row.ofmUblock.height = 0 ∧ hw.1 ≤ sh) ∧
           (0 < hw.2 ∧ hw.2 % c.row.ofmUblock.width = 0 ∧ hw.2 ≤ sw))
    (h : searchStep ops c e d s hw = .ok s') : StateGood c sh sw sd s' := by
  unfold searchStep at h
  dsimp only at h
  split at h
  · simp only [Except.ok.injEq] at h; exact h ▸ hs
  · split at h
    · cases h
    · simp only [Except.ok.injEq] at h; subst h
      intro cost f hf; exact hs cost f hf
    · rename_i layout hlay
      have good : GoodFound c sh sw sd ⟨⟨hw.2, hw.1, d⟩, c.ifmBlockFor ⟨hw.2, hw.1, d⟩, layout⟩ :=
        ⟨hhw.2, hhw.1, hd, hlay, rfl⟩
      repeat' split at h
      all_goals first
        | (simp only [Except.ok.injEq] at h; exact h ▸ hs)
        | (simp only [Except.ok.injEq] at h; subst h; intro cost f hf
           simp only [Option.some.injEq, Prod.mk.injEq] at hf
           exact hf.2 ▸ good)

theorem roundUp_mod_of_mod (a b u : Nat) (h : b % u = 0) : roundUp a b % u = 0 := by
  unfold roundUp
  have : b = u * (b / u) := by have := Nat.div_add_mod b u; omega
  rw [this, ← Nat.mul_assoc, Nat.mul_comm _ u, Nat.mul_assoc]
  exact Nat.mul_mod_right _ _

theorem depthLoop_good {α : Type} (ops : CostOps α) (c : Ctx) (e : SearchEnv) (sh sw sd : Nat)
    (hub : 0 < c.row.ofmUblock.width ∧ 0 < c.row.ofmUblock.height ∧ 0 < c.row.ofmUblock.depth)
    (hsplit : splitDepth % c.row.ofmUblock.depth = 0) :
    ∀ (fuel depth : Nat) (s s' : SearchState α), StateGood c sh sw sd s →
      (0 < depth ∧ depth % c.row.ofmUblock.depth = 0) →
      depthLoop ops c e sh sw sd fuel depth s = .ok s' → StateGood c sh sw sd s' := by
  intro fuel
  induction fuel with
  | zero =>
    intro depth s s' hs _ h
    unfold depthLoop at h
    split at h
    · cases h
    · simp only [Except.ok.injEq] at h; exact h ▸ hs
  | succ n ih =>
    intro depth s s' hs hd h
    unfold depthLoop at h
    split at h
    · rename_i hle
      dsimp only at h
      split at h
      · cases h
      · rename_i s1 hs1
        have hs0 : StateGood c sh sw sd ({ s with wontFit := Array.replicate (s.wfDim * s.wfDim) false } : SearchState α) := by
          intro cost f hf; exact hs cost f hf
        have h1 : StateGood c sh sw sd s1 := by
          refine foldE_inv (searchStep ops c e depth) (StateGood c sh sw sd)
            (fun hw => (0 < hw.1 ∧ hw.1 % c.row.ofmUblock.height = 0 ∧ hw.1 ≤ sh) ∧
                       (0 < hw.2 ∧ hw.2 % c.row.ofmUblock.width = 0 ∧ hw.2 ≤ sw)) ?_ _ _ _ ?_ hs0 hs1
          · intro s b s2 hI hP hstep
            exact searchStep_good ops c e sh sw sd depth ⟨hd.1, hd.2, hle⟩ s b s2 hI hP hstep
          · intro b hb
            have := mem_hwPairs hb
            exact ⟨mem_multiplesUpTo hub.2.1 this.1, mem_multiplesUpTo hub.1 this.2⟩
        refine ih _ s1 s' h1 ?_ h
        split
        · exact ⟨Nat.lt_of_lt_of_le (by omega) (le_roundUp _ _ (by
            have : splitDepth = 16 := by decide
            omega)), roundUp_mod_of_mod _ _ _ hsplit⟩
        · refine ⟨by omega, ?_⟩
          rw [Nat.add_mod, hd.2, Nat.mod_self]; simp
    · simp only [Except.ok.injEq] at h; exact h ▸ hs



theorem splitDepth_pos : 0 < splitDepth := by decide

theorem startDepth_good (row : Row) (ofmD sd : Nat) (hub : 0 < row.ofmUblock.depth)
    (hsplit : splitDepth % row.ofmUblock.depth = 0) (hsd : sd % row.ofmUblock.depth = 0) :
    0 < startDepth row ofmD sd ∧ startDepth row ofmD sd % row.ofmUblock.depth = 0 := by
  unfold startDepth
  have hd : 0 < max row.ofmUblock.depth (min sd splitDepth) ∧
      max row.ofmUblock.depth (min sd splitDepth) % row.ofmUblock.depth = 0 := by
    refine ⟨by omega, ?_⟩
    rw [Nat.max_def, Nat.min_def]
    repeat' split
    all_goals first | exact hsd | exact hsplit | exact Nat.mod_self _
  dsimp only
  split
  · exact ⟨Nat.lt_of_lt_of_le hd.1 (le_roundUp _ _ splitDepth_pos), roundUp_mod_of_mod _ _ _ hsplit⟩
  · exact hd

theorem findBlockConfig_some {α : Type} {ops : CostOps α} {row : Row} {a : FindArgs} {cfg : Config}
    (hsplit : splitDepth % row.ofmUblock.depth = 0)
    (h : findBlockConfig ops row a = .ok (some cfg)) :
    (0 < row.ofmUblock.width ∧ 0 < row.ofmUblock.height ∧ 0 < row.ofmUblock.depth) ∧
    a.kernel.inDomain = true ∧
    ∃ c, a.ctx ops row = .ok c ∧ c.row = row ∧
      GoodFound c (searchSpace row a.ofm).1 (searchSpace row a.ofm).2.1 (searchSpace row a.ofm).2.2
        ⟨cfg.ofmBlock, cfg.ifmBlock, cfg.layout⟩ ∧
      cfg.accType = c.acc ∧ cfg.isPartKernel = a.isPartKernel ops ∧ cfg.bankSize = row.configBankSize := by
  unfold findBlockConfig at h
  split at h; · cases h
  rename_i hub
  split at h; · cases h
  rename_i hdom
  split at h; · cases h
  rename_i c hc
  have hub' : 0 < row.ofmUblock.width ∧ 0 < row.ofmUblock.height ∧ 0 < row.ofmUblock.depth := by omega
  have hrow : c.row = row := by
    unfold FindArgs.ctx at hc
    obtain ⟨g, _, rfl⟩ := mkCtx_ok hc
    rfl
  dsimp only at h
  split at h; · cases h
  rename_i s hs
  split at h; · cases h
  rename_i cost f hbest
  simp only [Except.ok.injEq, Option.some.injEq] at h
  subst h
  refine ⟨hub', by simp only [Decidable.not_not] at hdom; exact hdom.1, c, hc, hrow, ?_, rfl, rfl, rfl⟩
  have hsd : (searchSpace row a.ofm).2.2 % row.ofmUblock.depth = 0 := roundUp_mod _ _
  have hgood := depthLoop_good ops c _ (searchSpace row a.ofm).1 (searchSpace row a.ofm).2.1 (searchSpace row a.ofm).2.2
    (hrow ▸ hub') (hrow ▸ hsplit) _ _ _ s (fun _ _ hf => by cases hf)
    (hrow ▸ startDepth_good row a.ofm.depth _ hub'.2.2 hsplit hsd) hs
  exact hgood cost f hbest



def Shape.toBlk (s : Shape) : Blk := ⟨s.width, s.height, s.depth⟩

/-- the `try_block_config` call that re-derives a configuration found by `find_block_config`
    (shapes as Blocks, as `get_arch_block_config` passes them) -/
def FindArgs.toTry (a : FindArgs) (pk : Bool) : TryArgs :=
  { bt := a.bt, ofm := a.ofm.toBlk, ifm := a.ifm.toBlk, ifm2 := a.ifm2.map Shape.toBlk, usesScalar := a.usesScalar,
    ifmBits := a.ifmBits, isPartKernel := pk, kernel := a.kernel, lutBanks := a.lutBanks, scaled := a.scaled,
    resampling := a.resampling }

theorem toTry_ctx {α : Type} (ops : CostOps α) (row : Row) (a : FindArgs)
    (hb : a.ifm.batch = 1 ∧ ∀ s, a.ifm2 = some s → s.batch = 1) :
    (a.toTry (a.isPartKernel ops)).ctx row = a.ctx ops row := by
  unfold TryArgs.ctx FindArgs.ctx FindArgs.toTry
  have e : effIfmDepth (blkElements a.ifm.toBlk) a.ifm.toBlk.depth
      ((a.ifm2.map Shape.toBlk).map fun b => (blkElements b, b.depth)) = a.ifmEff.depth := by
    unfold effIfmDepth FindArgs.ifmEff
    have e1 : ∀ s : Shape, s.batch = 1 → blkElements s.toBlk = s.elements := by
      intro s hs; unfold blkElements Shape.toBlk Shape.elements; rw [hs, Nat.one_mul]
    cases h2 : a.ifm2 with
    | none => rfl
    | some s2 =>
      simp only [Option.map_some]
      rw [e1 _ hb.1, e1 _ (hb.2 s2 h2)]
      split <;> rfl
  simp only [e]
  rfl

theorem searchSpace_le {row : Row} {tail : Nat} (hr : RowOk row tail) (ofm : Shape) :
    (searchSpace row ofm).1 ≤ row.ofmBlockMax.height ∧ (searchSpace row ofm).2.1 ≤ row.ofmBlockMax.width ∧
      (searchSpace row ofm).2.2 ≤ row.ofmBlockMax.depth := by
  obtain ⟨⟨u1, u2, u3, _⟩, ⟨m1, m2, m3, _, _⟩, _⟩ := hr
  unfold searchSpace
  exact ⟨roundUp_le_of_mod _ _ _ u2 m2 (Nat.min_le_right _ _), roundUp_le_of_mod _ _ _ u1 m1 (Nat.min_le_right _ _),
    roundUp_le_of_mod _ _ _ u3 m3 (Nat.min_le_right _ _)⟩

theorem blockValid_of_ok {row : Row} {blk : Blk} (h : BlockOk row blk) : blockValid row blk = true := by
  unfold BlockOk at h
  unfold blockValid
  simp only [Bool.and_eq_true, decide_eq_true_iff, beq_iff_eq]
  omega

/-- whatever the search returns is valid and `try_block_config` re-derives exactly the same configuration -/
theorem find_valid_core {α : Type} {ops : CostOps α} {row : Row} {tail : Nat} {a : FindArgs} {cfg : Config}
    (hr : RowOk row tail) (h : findBlockConfig ops row a = .ok (some cfg))
    (hb : a.ifm.batch = 1 ∧ ∀ s, a.ifm2 = some s → s.batch = 1) :
    BlockOk row cfg.ofmBlock ∧ tryBlockConfig row cfg.ofmBlock (a.toTry cfg.isPartKernel) = .ok (some cfg) := by
  have hsplit : splitDepth % row.ofmUblock.depth = 0 := hr.2.1.2.2.2.1
  obtain ⟨hub, hk, c, hc, hrow, hgood, hacc, hpk, hbank⟩ := findBlockConfig_some hsplit h
  obtain ⟨sh1, sh2, sh3⟩ := searchSpace_le hr a.ofm
  obtain ⟨gw, gh, gd, glay, gifm⟩ := hgood
  dsimp only at gw gh gd glay gifm
  rw [hrow] at gw gh gd
  have hok : BlockOk row cfg.ofmBlock := by
    unfold BlockOk; omega
  refine ⟨hok, ?_⟩
  unfold tryBlockConfig
  rw [if_neg (by omega), if_neg (by simp [blockValid_of_ok hok])]
  have hk' : (a.toTry cfg.isPartKernel).kernel.inDomain = true := hk
  rw [if_neg (by simp [hk'])]
  rw [hpk, toTry_ctx ops row a hb, hc]
  dsimp only
  rw [glay]
  dsimp only
  cases cfg
  simp_all [FindArgs.toTry]



/-! ### the public callers -/

theorem filterAccepted_mem {row : Row} {a : TryArgs} :
    ∀ (l r : List Blk), filterAccepted row a l = .ok r →
      ∀ b ∈ r, b ∈ l ∧ ∃ cfg, tryBlockConfig row b a = .ok (some cfg) := by
  intro l
  induction l with
  | nil =>
    intro r h b hb
    simp only [filterAccepted, Except.ok.injEq] at h
    subst h; cases hb
  | cons x xs ih =>
    intro r h b hb
    unfold filterAccepted at h
    split at h; · cases h
    rename_i res hres
    split at h; · cases h
    rename_i rest hrest
    simp only [Except.ok.injEq] at h
    subst h
    cases hres' : res with
    | none =>
      simp only [hres', Option.isSome_none, Bool.false_eq_true, if_false] at hb
      obtain ⟨h1, h2⟩ := ih rest hrest b hb
      exact ⟨List.mem_cons_of_mem _ h1, h2⟩
    | some cfg =>
      simp only [hres', Option.isSome_some, if_true, List.mem_cons] at hb
      rcases hb with rfl | hb
      · exact ⟨List.mem_cons_self, cfg, hres' ▸ hres⟩
      · obtain ⟨h1, h2⟩ := ih rest hrest b hb
        exact ⟨List.mem_cons_of_mem _ h1, h2⟩

theorem npuFind_mem {crit : ScaledCrit} {row : Row} {op : ApiOp} {l : List Blk} {b : Blk}
    (h : npuFindBlockConfigs crit row op = .ok l) (hb : b ∈ l) :
    (toKernel op.kernel).assertOk = true ∧ b ∈ apiCandidates row op.ofm.shape ∧
      ∃ cfg, tryBlockConfig row b (apiArgs crit op) = .ok (some cfg) := by
  unfold npuFindBlockConfigs at h
  split at h; · cases h
  rename_i hk
  split at h
  · cases h
  · cases h
  · rename_i l' hne hl'
    simp only [Except.ok.injEq] at h
    subst h
    obtain ⟨h1, h2⟩ := filterAccepted_mem _ _ hl' b hb
    exact ⟨by simpa using hk, h1, h2⟩

theorem getArch_of_try {row : Row} {op : ApiOp} {blk : Blk} {cfg : Config}
    (hk : (toKernel op.kernel).assertOk = true) (h : tryBlockConfig row blk (genArgs op) = .ok (some cfg)) :
    getArchBlockConfig row op blk = .ok cfg := by
  unfold getArchBlockConfig
  rw [if_neg (by simp [hk]), h]

theorem apiArgs_eq_genArgs (crit : ScaledCrit) (op : ApiOp) (h1 : apiScaled crit op = genScaled op)
    (h2 : apiIfm2 op = genIfm2 op) : apiArgs crit op = genArgs op := by
  unfold apiArgs genArgs
  rw [h1, h2]

/-- with the generator's criterion in api.py the two `scaled` flags always agree -/
theorem apiScaled_quantAndScale (op : ApiOp) : apiScaled .quantAndScale op = genScaled op := by
  unfold apiScaled genScaled
  cases op.ifm2 <;> simp [Bool.or_comm, Bool.or_left_comm]

/-- `_try_block_config` ignores the accumulator parameters of an elementwise operation -/
theorem tryCore_ew_indep (reserved bank total : Nat) (ew : EwUsage) (ofmB ifmB : Blk) (bits ig ab ag ab' ag' : Nat)
    (lut : Int) (hew : ew ≠ .no) (h1 : 0 < ab ∧ 0 < ag) (h2 : 0 < ab' ∧ 0 < ag') :
    tryCore reserved bank total ew ofmB ifmB bits ig ab ag lut =
      tryCore reserved bank total ew ofmB ifmB bits ig ab' ag' lut := by
  unfold tryCore
  rw [if_neg (show ¬¬(ab > 0 ∧ ag > 0) by omega), if_neg (show ¬¬(ab' > 0 ∧ ag' > 0) by omega)]
  cases ew
  · exact absurd rfl hew
  · rfl
  · rfl

theorem tryBlockConfig_intro {row : Row} {blk : Blk} {a : TryArgs} {g : Nat} {L : Layout}
    (hub : 0 < row.ofmUblock.width ∧ 0 < row.ofmUblock.height ∧ 0 < row.ofmUblock.depth)
    (hv : blockValid row blk = true) (hk : a.kernel.inDomain = true)
    (hg : ifmGranule row (ewUsage a.bt a.usesScalar) a.ifmBits = some g)
    (hL : (tryCtx row a g).layoutFor blk = .ok (some L)) :
    ∃ cfg, tryBlockConfig row blk a = .ok (some cfg) := by
  unfold tryBlockConfig
  rw [if_neg (by omega), if_neg (by simp [hv]), if_neg (by simp [hk])]
  have hc : a.ctx row = .ok (tryCtx row a g) := by
    unfold TryArgs.ctx mkCtx
    dsimp only
    rw [hg]
    rfl
  rw [hc]
  dsimp only
  rw [hL]
  exact ⟨_, rfl⟩

theorem tryBlockConfig_domain {row : Row} {blk : Blk} {a : TryArgs} {cfg : Config}
    (h : tryBlockConfig row blk a = .ok (some cfg)) :
    (0 < row.ofmUblock.width ∧ 0 < row.ofmUblock.height ∧ 0 < row.ofmUblock.depth) ∧ a.kernel.inDomain = true := by
  unfold tryBlockConfig at h
  split at h; · cases h
  rename_i hub
  split at h; · cases h
  split at h; · cases h
  rename_i hk
  exact ⟨by omega, by simpa using hk⟩

/-- Acceptance by `try_block_config` depends on `scaled` only through the accumulator type, and on `ifm2`
    only through the IFM depth of an operation whose IFM block depth is not the OFM block depth.
    `hacc`: whatever `_try_block_config` accepts with the first accumulator type it accepts with the second. -/
theorem try_accept_congr {row : Row} {blk : Blk} {a1 a2 : TryArgs} {cfg : Config}
    (h : tryBlockConfig row blk a1 = .ok (some cfg))
    (hsame : a2 = { a1 with scaled := a2.scaled, ifm2 := a2.ifm2 })
    (hacc : ∀ (ofmB ifmB : Blk) (g : Nat) (lut : Int) (L : Layout),
      tryCore row.reservedOutputBanks row.bankSizeBytes row.totalBanks (ewUsage a1.bt a1.usesScalar) ofmB ifmB a1.ifmBits g
        (accBitsOf (accType a1.bt a1.ifmBits a1.scaled)) (accGranule row (accType a1.bt a1.ifmBits a1.scaled)) lut = .ok (some L) →
      ∃ L', tryCore row.reservedOutputBanks row.bankSizeBytes row.totalBanks (ewUsage a1.bt a1.usesScalar) ofmB ifmB a1.ifmBits g
        (accBitsOf (accType a1.bt a1.ifmBits a2.scaled)) (accGranule row (accType a1.bt a1.ifmBits a2.scaled)) lut = .ok (some L'))
    (hdepth : isEqualDepthOp a1.bt (ewUsage a1.bt a1.usesScalar) = true ∨ a1.view.ifmDepth = a2.view.ifmDepth) :
    ∃ cfg', tryBlockConfig row blk a2 = .ok (some cfg') := by
  obtain ⟨hv, g, L, hg, hL, _⟩ := tryBlockConfig_some h
  obtain ⟨hub, hk⟩ := tryBlockConfig_domain h
  have e_bt : a2.bt = a1.bt := by rw [hsame]
  have e_us : a2.usesScalar = a1.usesScalar := by rw [hsame]
  have e_bits : a2.ifmBits = a1.ifmBits := by rw [hsame]
  have e_k : a2.kernel = a1.kernel := by rw [hsame]
  have e_ofm : a2.ofm = a1.ofm := by rw [hsame]
  have e_lut : a2.lutBanks = a1.lutBanks := by rw [hsame]
  have e_rs : a2.resampling = a1.resampling := by rw [hsame]
  have e_pk : a2.isPartKernel = a1.isPartKernel := by rw [hsame]
  have hifm : (tryCtx row a2 g).ifmBlockFor blk = (tryCtx row a1 g).ifmBlockFor blk := by
    unfold Ctx.ifmBlockFor tryCtx
    simp only [e_bt, e_us, e_bits, e_k, e_rs, e_pk]
    rcases hdepth with hd | hd
    · rw [if_pos hd, if_pos hd]
    · rw [hd]
  unfold Ctx.layoutFor at hL
  simp only [tryCtx] at hL
  obtain ⟨L', hL'⟩ := hacc _ _ _ _ _ hL
  refine tryBlockConfig_intro (g := g) (L := L') hub hv (e_k ▸ hk) (by rw [e_bt, e_us, e_bits]; exact hg) ?_
  unfold Ctx.layoutFor
  rw [hifm]
  simp only [tryCtx, e_bt, e_us, e_bits, e_k, e_ofm, e_lut]
  exact hL'

/-- the accumulator hypothesis of `try_accept_congr` when the operation is elementwise or the two
    accumulator types coincide -/
theorem acc_hyp_trivial {row : Row} {tail : Nat} (hr : RowOk row tail) (ew : EwUsage) (bits : Nat) (t1 t2 : AccType)
    (h : ew ≠ .no ∨ t1 = t2) :
    ∀ (ofmB ifmB : Blk) (g : Nat) (lut : Int) (L : Layout),
      tryCore row.reservedOutputBanks row.bankSizeBytes row.totalBanks ew ofmB ifmB bits g
        (accBitsOf t1) (accGranule row t1) lut = .ok (some L) →
      ∃ L', tryCore row.reservedOutputBanks row.bankSizeBytes row.totalBanks ew ofmB ifmB bits g
        (accBitsOf t2) (accGranule row t2) lut = .ok (some L') := by
  intro ofmB ifmB g lut L hL
  obtain ⟨_, _, _, _, _, ⟨p16, p32, p40⟩⟩ := hr
  obtain ⟨b16, b32, b40⟩ := accBits_values
  have hpos : ∀ t : AccType, 0 < accBitsOf t ∧ 0 < accGranule row t := by
    intro t; cases t <;> simp [accBitsOf, accGranule, b16, b32, b40, p16, p32, p40]
  rcases h with hew | rfl
  · exact ⟨L, by rw [tryCore_ew_indep _ _ _ _ _ _ _ _ _ _ _ _ _ hew (hpos t2) (hpos t1)]; exact hL⟩
  · exact ⟨L, hL⟩

/-- bank need of the 32-bit accumulators never exceeds that of the 40-bit ones when the granules are in the
    ratio of the widths (or the 32-bit granule divides the 40-bit one) -/
theorem bankNeed_acc32_le_acc40 (x g32 g40 : Nat)
    (hg : (g32, g40) = (4, 4) ∨ (g32, g40) = (4, 8) ∨ (g32, g40) = (16, 20)) :
    bankNeed (x * 32 / 8) 1024 g32 ≤ bankNeed (x * 40 / 8) 1024 g40 := by
  unfold bankNeed roundUp roundUpDivide
  rcases hg with h | h | h <;> simp only [Prod.mk.injEq] at h <;> obtain ⟨rfl, rfl⟩ := h
  · omega
  · omega
  · -- both needs are (16 resp. 20) · ⌈x / 2048⌉
    have t1 : ((x * 32 / 8 + 1024 - 1) / 1024 * 2 + 16 - 1) / 16 = (x + 2047) / 2048 := by omega
    have t2 : ((x * 40 / 8 + 1024 - 1) / 1024 * 2 + 20 - 1) / 20 = (x + 2047) / 2048 := by omega
    rw [t1, t2]; omega

/-- **what fits with 40-bit accumulators fits with 32-bit ones on every row whose granule pair is benign**
    (all rows except Ethos-U55-128, see `Props/C15.lean`) -/
theorem acc32_fits_of_acc40_fits (reserved total : Nat) (g32 g40 : Nat)
    (hg : (g32, g40) = (4, 4) ∨ (g32, g40) = (4, 8) ∨ (g32, g40) = (16, 20))
    (ofmB ifmB : Blk) (bits ig : Nat) (lut : Int) (L : Layout)
    (h : tryCore reserved 1024 total .no ofmB ifmB bits ig 40 g40 lut = .ok (some L)) :
    ∃ L', tryCore reserved 1024 total .no ofmB ifmB bits ig 32 g32 lut = .ok (some L') := by
  have hle := bankNeed_acc32_le_acc40 (blkElementsWh ofmB * roundUp ofmB.depth 8) g32 g40 hg
  have hg32 : 0 < g32 := by rcases hg with h | h | h <;> simp only [Prod.mk.injEq] at h <;> omega
  unfold tryCore at h ⊢
  split at h; · cases h
  split at h; · cases h
  rename_i h1 h2
  rw [if_neg (show ¬¬((32:Nat) > 0 ∧ g32 > 0) by omega), if_neg h2]
  simp only [show ((1024 : Nat) = 0) = False by simp, if_false] at h ⊢
  split at h
  · cases h
  · rename_i hc
    unfold accBytes at hc ⊢
    rw [if_neg (by omega)]
    exact ⟨_, rfl⟩

/-! ### helpers used by the statements of `Props/C15.lean` -/

theorem kind_cases (op : ApiOp) : op.kind = .conv2d ∨ op.kind = .depthwise ∨ op.kind = .pooling ∨
    op.kind = .reduceSum ∨ op.kind = .elementwise := by
  cases op.kind <;> simp

/-- the IFM-depth hypothesis of `try_accept_congr` for the two argument derivations -/
theorem depth_hyp {crit : ScaledCrit} (op : ApiOp)
    (hifm2 : (op.kind = .conv2d ∨ op.kind = .reduceSum) → apiIfm2 op = genIfm2 op) :
    isEqualDepthOp (apiArgs crit op).bt (ewUsage (apiArgs crit op).bt (apiArgs crit op).usesScalar) = true ∨
      (apiArgs crit op).view.ifmDepth = (genArgs op).view.ifmDepth := by
  show isEqualDepthOp op.kind.blockType (ewUsage op.kind.blockType op.ifm2Scalar) = true ∨
    effIfmDepth (blkElements op.ifm.shape) op.ifm.shape.depth ((apiIfm2 op).map fun b => (blkElements b, b.depth)) =
    effIfmDepth (blkElements op.ifm.shape) op.ifm.shape.depth ((genIfm2 op).map fun b => (blkElements b, b.depth))
  rcases kind_cases op with hk | hk | hk | hk | hk
  · right; rw [hifm2 (Or.inl hk)]
  · left; rw [hk]; simp [isEqualDepthOp, ApiKind.blockType]
  · left; rw [hk]; simp [isEqualDepthOp, ApiKind.blockType]
  · right; rw [hifm2 (Or.inr hk)]
  · left; rw [hk]; simp only [isEqualDepthOp, ewUsage, ApiKind.blockType, if_true]; cases op.ifm2Scalar <;> simp


def offers (r : Except Err (List Blk)) (b : Blk) : Bool :=
  match r with
  | .ok l => l.contains b
  | .error _ => false

def isAssert {α : Type} : Except Err α → Bool
  | .error .assert => true
  | _ => false

def isOkNone {α : Type} : Except Err (Option α) → Bool
  | .ok none => true
  | _ => false

def isOkSome {α : Type} : Except Err (Option α) → Bool
  | .ok (some _) => true
  | _ => false

theorem of_isAssert {α : Type} {r : Except Err α} (h : isAssert r = true) : r = .error .assert := by
  unfold isAssert at h; split at h <;> simp_all

theorem of_isOkNone {α : Type} {r : Except Err (Option α)} (h : isOkNone r = true) : r = .ok none := by
  unfold isOkNone at h; split at h <;> simp_all

theorem of_isOkSome {α : Type} {r : Except Err (Option α)} (h : isOkSome r = true) : ∃ x, r = .ok (some x) := by
  unfold isOkSome at h; split at h <;> simp_all

theorem of_offers {r : Except Err (List Blk)} {b : Blk} (h : offers r b = true) : ∃ l, r = .ok l ∧ b ∈ l := by
  unfold offers at h
  split at h
  · rename_i l; exact ⟨l, rfl, by simpa using h⟩
  · cases h


theorem genScaled_imp_apiScaled (crit : ScaledCrit) (op : ApiOp) (h : genScaled op = true) : apiScaled crit op = true := by
  unfold genScaled at h
  unfold apiScaled
  cases crit <;> cases hi : op.ifm2 <;> simp_all


/-- a cost arithmetic in which all costs are equal (the theorems hold for any) -/
def unitOps : CostOps Unit :=
  { ofNat := fun _ => (), add := fun _ _ => (), mul := fun _ _ => (), div := fun _ _ => (),
    le := fun _ _ => true, eq := fun _ _ => true }


end VelaVerif.Shram
