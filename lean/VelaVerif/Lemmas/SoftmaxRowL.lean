import Mathlib.Tactic.IntervalCases
import VelaVerif.Lemmas.SoftmaxExecL
import VelaVerif.Lemmas.SoftmaxTable
import VelaVerif.Props.C01Wide
/-!
# The whole-row composition of the 8-bit SOFTMAX decomposition (helper lemmas of `Props/C01Softmax.lean`)

Part A: the reference `SoftmaxKernel.softmaxRow8` rewritten over unbounded integers (`refRow`): the exponentials
`expZ … x = (expOfDiff … (x − max)).getD 0`, their sum without wrap (`≤ 511` elements), `GetReciprocal` through the headroom
`clz`, the output expression.  Part B: `evalStep` on the step shapes of passes 0, 1, 3, 4 and 30.  Part C: passes 0 – 9 and
29 – 30 through the interpreter, glued with `recip_chain`.
-/
namespace VelaVerif.Lemmas.SoftmaxRowL
open VelaVerif VelaVerif.Requant VelaVerif.SoftmaxGraph VelaVerif.SoftmaxExec VelaVerif.Lemmas.SoftmaxArith
  VelaVerif.Lemmas.SoftmaxExecL

/-! ## Part A — arithmetic of the reference row -/

/-- the exponential of one element as both sides see it: `exp_on_negative_values` of the rescaled difference, 0 below `diff_min` -/
def expZ (mult : Int) (ls : Nat) (diffMin mx x : Int) : Int := (SoftmaxKernel.expOfDiff mult ls diffMin (x - mx)).getD 0

theorem expOfDiff_range (mult : Int) (ls : Nat) (diffMin d e : Int) (h : SoftmaxKernel.expOfDiff mult ls diffMin d = some e) :
    0 ≤ e ∧ e ≤ 2147483647 := by
  unfold SoftmaxKernel.expOfDiff at h
  split at h
  · cases h
    exact SoftmaxTable.expOnNegativeValues_range _ (FpMath.srdhm32_range _ _)
  · cases h

theorem expZ_range (mult : Int) (ls : Nat) (diffMin mx x : Int) :
    0 ≤ expZ mult ls diffMin mx x ∧ expZ mult ls diffMin mx x ≤ 2147483647 := by
  unfold expZ
  cases h : SoftmaxKernel.expOfDiff mult ls diffMin (x - mx) with
  | none => exact ⟨by decide, by decide⟩
  | some e => exact expOfDiff_range mult ls diffMin _ e h

theorem srdhm32_zero (m : Int) : Gemmlowp.srdhm32 0 m = 0 := by
  unfold Gemmlowp.srdhm32
  have hov : ((0 : Int) == m && (0 : Int) == Gemmlowp.int32Min) = false := by
    have : ((0 : Int) == Gemmlowp.int32Min) = false := by decide
    rw [this, Bool.and_false]
  simp only [hov, Bool.false_eq_true, if_false, Int.zero_mul]
  decide

/-- the maximum of the row has exponential `exp(0) = 2^31 − 1` -/
theorem expZ_max (mult : Int) (ls : Nat) (diffMin mx : Int) (hd : diffMin ≤ 0) :
    SoftmaxKernel.expOfDiff mult ls diffMin (mx - mx) = some 2147483647 := by
  unfold SoftmaxKernel.expOfDiff SoftmaxKernel.mbqmGreaterThanOne
  have h0 : mx - mx = 0 := by omega
  rw [h0]
  simp only [show (0 : Int) ≥ diffMin from hd, if_true, Int.zero_mul]
  have : Gemmlowp.cast32 0 = 0 := by decide
  rw [this, srdhm32_zero]
  rfl

theorem rdivpot12_range (e : Int) (h0 : 0 ≤ e) (h1 : e ≤ 2147483647) : 0 ≤ rdivpot e 12 ∧ rdivpot e 12 ≤ 524288 := by
  unfold rdivpot
  have e12 : (2 : Int) ^ 12 = 4096 := by decide
  simp only [e12]
  constructor <;> (split <;> omega)

theorem rdivpot12_max : rdivpot 2147483647 12 = 524288 := by decide

theorem rescale_0_12 (e : Int) : Gemmlowp.rescale 0 12 e = rdivpot e 12 := by
  unfold Gemmlowp.rescale Gemmlowp.saturatingRoundingMultiplyByPOT
  simp only [show ¬ ((0 : Int) - 12 > 0) by decide, if_false, show ((0 : Int) - 12 < 0) by decide, if_true,
    show (-((0 : Int) - 12)).toNat = 12 by decide]
  exact rdbp_eq_rdivpot e 12 (by decide)

/-- one accumulation of the reference (`sum = sum + Rescale<12>(exp)`, wrapping int32 `+`) -/
def refAcc (acc : Int) (o : Option Int) : Int :=
  match o with
  | some e => Gemmlowp.add32 acc (Gemmlowp.rescale 0 12 e)
  | none => acc

/-- the reference's sum does not wrap while `acc + 2^19 · length ≤ INT32_MAX`: it is the integer sum of the
    `RoundingDivideByPOT(exp, 12)`, each in `[0, 2^19]` -/
theorem ref_sum (eo : Int → Option Int) (heo : ∀ x e, eo x = some e → 0 ≤ e ∧ e ≤ 2147483647) (xs : List Int) :
    ∀ acc : Int, 0 ≤ acc → acc + 524288 * xs.length ≤ 2147483647 →
      xs.foldl (fun a x => refAcc a (eo x)) acc = xs.foldl (fun a x => a + rdivpot ((eo x).getD 0) 12) acc ∧
      acc ≤ xs.foldl (fun a x => a + rdivpot ((eo x).getD 0) 12) acc ∧
      xs.foldl (fun a x => a + rdivpot ((eo x).getD 0) 12) acc ≤ acc + 524288 * xs.length := by
  induction xs with
  | nil => intro acc _ _; exact ⟨rfl, Int.le_refl _, by simp⟩
  | cons x r ih =>
    intro acc h0 h1
    simp only [List.foldl_cons, List.length_cons] at h1 ⊢
    have hstep : refAcc acc (eo x) = acc + rdivpot ((eo x).getD 0) 12 ∧ 0 ≤ rdivpot ((eo x).getD 0) 12 ∧
        rdivpot ((eo x).getD 0) 12 ≤ 524288 := by
      cases h : eo x with
      | none =>
        simp only [refAcc, Option.getD_none]
        have : rdivpot 0 12 = 0 := by decide
        rw [this]; omega
      | some e =>
        obtain ⟨e0, e1⟩ := heo x e h
        obtain ⟨r0, r1⟩ := rdivpot12_range e e0 e1
        simp only [refAcc, Option.getD_some, rescale_0_12]
        refine ⟨?_, r0, r1⟩
        unfold Gemmlowp.add32
        exact FpMath.cast32_id _ (by omega) (by omega)
    obtain ⟨s1, s2, s3⟩ := hstep
    rw [s1]
    obtain ⟨i1, i2, i3⟩ := ih (acc + rdivpot ((eo x).getD 0) 12) (by omega) (by push_cast at h1 ⊢; omega)
    refine ⟨i1, by omega, by push_cast at i3 ⊢; omega⟩

/-- a fold that adds a non-negative term per element is at least the accumulator plus the term of any member -/
theorem foldl_add_ge_mem (f : Int → Int) (hf : ∀ x, 0 ≤ f x) (xs : List Int) :
    ∀ acc : Int, ∀ m ∈ xs, acc + f m ≤ xs.foldl (fun a x => a + f x) acc := by
  induction xs with
  | nil => intro acc m hm; cases hm
  | cons x r ih =>
    intro acc m hm
    simp only [List.foldl_cons]
    have hmono : ∀ (l : List Int) (a : Int), a ≤ l.foldl (fun a x => a + f x) a := by
      intro l
      induction l with
      | nil => intro a; simp only [List.foldl_nil]; omega
      | cons y t iht => intro a; simp only [List.foldl_cons]; have := iht (a + f y); have := hf y; omega
    rcases List.mem_cons.1 hm with h | h
    · subst h; exact hmono r _
    · have := ih (acc + f x) m h; have := hf x; omega

/-- maximum of a non-empty list as the reference and the max pool compute it -/
theorem foldl_max_facts (rest : List Int) : ∀ x0 : Int,
    (rest.foldl max x0 = x0 ∨ rest.foldl max x0 ∈ rest) ∧ x0 ≤ rest.foldl max x0 ∧ ∀ y ∈ rest, y ≤ rest.foldl max x0 := by
  induction rest with
  | nil => intro x0; exact ⟨Or.inl rfl, Int.le_refl _, fun y hy => by cases hy⟩
  | cons a r ih =>
    intro x0
    simp only [List.foldl_cons]
    obtain ⟨i1, i2, i3⟩ := ih (max x0 a)
    refine ⟨?_, by omega, ?_⟩
    · rcases i1 with h | h
      · rw [h]
        by_cases c : x0 ≤ a
        · right; rw [Int.max_eq_right c]; exact List.mem_cons_self
        · left; exact Int.max_eq_left (by omega)
      · right; exact List.mem_cons_of_mem _ h
    · intro y hy
      rcases List.mem_cons.1 hy with h | h
      · subst h; omega
      · exact i3 y h

/-! ### headroom -/

/-- count-leading-zeros of a sum of exponentials `2^19 ≤ S < 2^28`: the NPU's CLZ and the reference's `CountLeadingZeros`
    agree, the headroom is 4 … 12 and `S << headroom` lies in `[2^31, 2^32)` -/
theorem clz_facts (S : Int) (h1 : 524288 ≤ S) (h2 : S < 268435456) :
    ∃ h : Nat, 4 ≤ h ∧ h ≤ 12 ∧ NpuWide.clz32 S = (h : Int) ∧ SoftmaxKernel.clz32 S = h ∧ Gemmlowp.toU32 S = S.toNat ∧
      2147483648 ≤ S * 2 ^ h ∧ S * 2 ^ h < 4294967296 := by
  have e32 : (2 : Int) ^ 32 = 4294967296 := by decide
  have hu : (S % (2 : Int) ^ 32).toNat = S.toNat := by rw [e32]; congr 1; omega
  obtain ⟨n, hn⟩ : ∃ n : Nat, S = (n : Int) := ⟨S.toNat, by omega⟩
  subst hn
  have hn0 : n ≠ 0 := by omega
  have l1 : 2 ^ n.log2 ≤ n := Nat.log2_self_le hn0
  have l2 : n < 2 ^ (n.log2 + 1) := Nat.lt_log2_self
  have k1 : 19 ≤ n.log2 := by
    apply Decidable.byContradiction; intro hc
    have : 2 ^ (n.log2 + 1) ≤ 2 ^ 19 := Nat.pow_le_pow_right (by decide) (by omega)
    omega
  have k2 : n.log2 ≤ 27 := by
    apply Decidable.byContradiction; intro hc
    have : 2 ^ 28 ≤ 2 ^ n.log2 := Nat.pow_le_pow_right (by decide) (by omega)
    omega
  refine ⟨31 - n.log2, by omega, by omega, ?_, ?_, ?_, ?_⟩
  · unfold NpuWide.clz32
    simp only [hu, Int.toNat_natCast, hn0, if_false]
  · unfold SoftmaxKernel.clz32 Gemmlowp.toU32
    simp only [hu, Int.toNat_natCast, hn0, if_false]
  · unfold Gemmlowp.toU32; exact hu
  · generalize n.log2 = k at *
    interval_cases k <;> omega

/-! ### `GetReciprocal` and the output expression -/

/-- the normalised sum minus one (`shifted_sum_minus_one`) -/
def normZ (S : Int) (h : Nat) : Int := S * 2 ^ h - 2147483648

theorem getReciprocal_eq (S : Int) (h : Nat) (hc : SoftmaxKernel.clz32 S = h) (hu : Gemmlowp.toU32 S = S.toNat) (h0 : 0 ≤ S)
    (b1 : 2147483648 ≤ S * 2 ^ h) (b2 : S * 2 ^ h < 4294967296) :
    SoftmaxKernel.getReciprocal S 12 = (SoftmaxKernel.oneOverOnePlusX (normZ S h), 12 - (h : Int)) := by
  unfold SoftmaxKernel.getReciprocal
  simp only [hc, hu]
  have e32 : (2 : Nat) ^ 32 = 4294967296 := by decide
  have e31 : (2 : Int) ^ 31 = 2147483648 := by decide
  have hcast : ((S.toNat * 2 ^ h % 2 ^ 32 : Nat) : Int) = S * 2 ^ h := by
    have hS : ((S.toNat : Nat) : Int) = S := Int.toNat_of_nonneg h0
    have hlt : S.toNat * 2 ^ h < 4294967296 := by
      have : ((S.toNat * 2 ^ h : Nat) : Int) = S * 2 ^ h := by push_cast; rw [hS]
      omega
    rw [e32, Nat.mod_eq_of_lt hlt]
    push_cast; rw [hS]
  rw [hcast, e31]
  unfold normZ
  rw [FpMath.cast32_id _ (by omega) (by omega)]

/-- the output of one element over unbounded integers: `clamp(RoundingDivideByPOT(SRDHM(exp, scale), n) + min)` -/
def outZ (scale : Int) (n : Nat) (qmin qmax e : Int) : Int := clamp (rdivpot (srdhm e scale) n + qmin) qmin qmax

theorem rdivpot_zero (n : Nat) : rdivpot 0 n = 0 := by
  unfold rdivpot
  have hp := FpMath.two_pow_pos n
  simp only [Int.zero_ediv, Int.zero_emod, show ¬ ((0 : Int) < 0) by decide, if_false]
  generalize (2 : Int) ^ n = p at hp
  split <;> omega

theorem srdhm_comm_nonneg (a b : Int) (ha : 0 ≤ a) : srdhm a b = srdhm b a := by
  rw [srdhm_eq_fl a b (by omega), srdhm_eq_fl b a (by omega), Int.mul_comm]

/-- the reference's output expression for one element (`none` = below `diff_min`) -/
def refOutO (scale nbits qmin qmax : Int) (o : Option Int) : Int :=
  match o with
  | some e => clamp (Gemmlowp.roundingDivideByPOT (Gemmlowp.srdhm32 scale e) (nbits + 31 - 8).toNat + qmin) qmin qmax
  | none => qmin

/-- `softmaxRow8` with its let-bindings named -/
theorem softmaxRow8_unfold (mult : Int) (ls : Nat) (diffMin qmin qmax x0 : Int) (rest : List Int) :
    SoftmaxKernel.softmaxRow8 (x0 :: rest) mult ls diffMin qmin qmax =
      ((x0 :: rest).map fun x => SoftmaxKernel.expOfDiff mult ls diffMin (x - rest.foldl max x0)).map
        (refOutO (SoftmaxKernel.getReciprocal
            (((x0 :: rest).map fun x => SoftmaxKernel.expOfDiff mult ls diffMin (x - rest.foldl max x0)).foldl refAcc 0) 12).1
          (SoftmaxKernel.getReciprocal
            (((x0 :: rest).map fun x => SoftmaxKernel.expOfDiff mult ls diffMin (x - rest.foldl max x0)).foldl refAcc 0) 12).2
          qmin qmax) := by
  unfold SoftmaxKernel.softmaxRow8
  simp only []
  congr 1

/-- the reference's output expression for one element, over unbounded integers -/
theorem ref_out (scale : Int) (h : Nat) (h4 : 4 ≤ h) (hh : h ≤ 12) (qmin qmax : Int) (hq : qmin ≤ qmax) (s0 : 0 ≤ scale)
    (s1 : scale ≤ 2147483647) (o : Option Int) (ho : ∀ e, o = some e → 0 ≤ e ∧ e ≤ 2147483647) :
    refOutO scale (12 - (h : Int)) qmin qmax o = outZ scale (35 - h) qmin qmax (o.getD 0) := by
  have hn : ((12 - (h : Int)) + 31 - 8).toNat = 35 - h := by omega
  cases o with
  | none =>
    simp only [refOutO, Option.getD_none, outZ]
    have : srdhm 0 scale = 0 := by rw [srdhm_eq_fl 0 scale (by omega), Int.zero_mul]; decide
    rw [this, rdivpot_zero]
    unfold clamp; split
    · omega
    · split <;> omega
  | some e =>
    obtain ⟨e0, e1⟩ := ho e rfl
    simp only [refOutO, Option.getD_some, outZ, hn]
    rw [srdhm32_eq_srdhm scale e (by omega) (by omega) (by omega) (by omega), rdbp_eq_rdivpot _ _ (by omega),
      srdhm_comm_nonneg scale e s0]

/-- the reference row over unbounded integers -/
def refRow (mult : Int) (ls : Nat) (diffMin qmin qmax mx : Int) (xs : List Int) (h : Nat) : List Int :=
  let S := xs.foldl (fun a x => a + rdivpot (expZ mult ls diffMin mx x) 12) 0
  xs.map fun x => outZ (SoftmaxKernel.oneOverOnePlusX (normZ S h)) (35 - h) qmin qmax (expZ mult ls diffMin mx x)

/-- facts about the sum of exponentials of a row of at most 511 elements that contains its maximum -/
theorem sum_facts (mult : Int) (ls : Nat) (diffMin mx : Int) (hd : diffMin ≤ 0) (xs : List Int) (hmx : mx ∈ xs) (hlen : xs.length ≤ 511) :
    524288 ≤ xs.foldl (fun a x => a + rdivpot (expZ mult ls diffMin mx x) 12) 0 ∧
    xs.foldl (fun a x => a + rdivpot (expZ mult ls diffMin mx x) 12) 0 < 268435456 := by
  have hr := ref_sum (fun x => SoftmaxKernel.expOfDiff mult ls diffMin (x - mx))
    (fun x e he => expOfDiff_range mult ls diffMin _ e he) xs 0 (by omega) (by omega)
  have hge := foldl_add_ge_mem (fun x => rdivpot (expZ mult ls diffMin mx x) 12)
    (fun x => (rdivpot12_range _ (expZ_range mult ls diffMin mx x).1 (expZ_range mult ls diffMin mx x).2).1) xs 0 mx hmx
  have hm : rdivpot (expZ mult ls diffMin mx mx) 12 = 524288 := by
    unfold expZ; rw [expZ_max mult ls diffMin mx hd]; exact rdivpot12_max
  simp only [hm] at hge
  have h3 := hr.2.2
  unfold expZ at *
  constructor <;> omega

/-- **the reference row is the unbounded-integer row** for 1 … 511 elements -/
theorem ref_row (mult : Int) (ls : Nat) (diffMin qmin qmax : Int) (hd : diffMin ≤ 0) (hq : qmin ≤ qmax) (x0 : Int) (rest : List Int)
    (hlen : (x0 :: rest).length ≤ 511) :
    ∃ h : Nat, 4 ≤ h ∧ h ≤ 12 ∧
      NpuWide.clz32 ((x0 :: rest).foldl (fun a x => a + rdivpot (expZ mult ls diffMin (rest.foldl max x0) x) 12) 0) = (h : Int) ∧
      0 ≤ normZ ((x0 :: rest).foldl (fun a x => a + rdivpot (expZ mult ls diffMin (rest.foldl max x0) x) 12) 0) h ∧
      normZ ((x0 :: rest).foldl (fun a x => a + rdivpot (expZ mult ls diffMin (rest.foldl max x0) x) 12) 0) h ≤ 2147483647 ∧
      SoftmaxKernel.softmaxRow8 (x0 :: rest) mult ls diffMin qmin qmax =
        refRow mult ls diffMin qmin qmax (rest.foldl max x0) (x0 :: rest) h := by
  obtain ⟨m1, m2, m3⟩ := foldl_max_facts rest x0
  have hmx : rest.foldl max x0 ∈ x0 :: rest := by
    rcases m1 with h | h
    · rw [h]; exact List.mem_cons_self
    · exact List.mem_cons_of_mem _ h
  generalize hmxe : rest.foldl max x0 = mx at *
  obtain ⟨S1, S2⟩ := sum_facts mult ls diffMin mx hd (x0 :: rest) hmx hlen
  have hr := ref_sum (fun x => SoftmaxKernel.expOfDiff mult ls diffMin (x - mx))
    (fun x e he => expOfDiff_range mult ls diffMin _ e he) (x0 :: rest) 0 (by omega) (by omega)
  obtain ⟨h, h4, h12, c1, c2, c3, b1, b2⟩ := clz_facts _ S1 S2
  refine ⟨h, h4, h12, c1, by unfold normZ; omega, by unfold normZ; omega, ?_⟩
  have hrec := getReciprocal_eq _ h c2 c3 (by omega) b1 b2
  have hsc := (npu_recip_eq (normZ ((x0 :: rest).foldl (fun a x => a + rdivpot (expZ mult ls diffMin mx x) 12) 0) h)
    (by unfold normZ; omega) (by unfold normZ; omega))
  rw [softmaxRow8_unfold, hmxe, List.foldl_map]
  have hsum : (x0 :: rest).foldl (fun a x => refAcc a (SoftmaxKernel.expOfDiff mult ls diffMin (x - mx))) 0 =
      (x0 :: rest).foldl (fun a x => a + rdivpot (expZ mult ls diffMin mx x) 12) 0 := hr.1
  rw [hsum, hrec]
  simp only [List.map_map, refRow]
  apply List.map_congr_left
  intro x _
  simp only [Function.comp]
  rw [← hsc.1]
  exact ref_out _ h h4 h12 qmin qmax hq hsc.2.1 hsc.2.2 _ (fun e he => expOfDiff_range mult ls diffMin _ e he)

/-! ## Part B — `evalStep` on the remaining step shapes -/

theorem runSteps_append (table xs : List Int) (p q : List NStep) : ∀ env env' : List Val,
    runSteps table xs p env = .ok env' → runSteps table xs (p ++ q) env = runSteps table xs q env' := by
  induction p with
  | nil => intro env env' h; simp only [runSteps] at h; cases h; rfl
  | cons s r ih =>
    intro env env' h
    simp only [List.cons_append, runSteps] at h ⊢
    cases hs : evalStep table xs env s with
    | error e => rw [hs] at h; cases h
    | ok v => rw [hs] at h; simp only [] at h ⊢; exact ih _ _ h

/-- pass 0: the depthwise max pool over the row -/
theorem eval_maxpool (table : List Int) (x0 : Int) (rest : List Int) (env : List Val) (s : NStep)
    (hk : s.kind = .maxpool) (ha : s.a = .input) :
    evalStep table (x0 :: rest) env s = .ok (.scal (clamp (rest.foldl max x0 - s.aZp + s.ozp) s.actMin s.actMax)) := by
  unfold evalStep
  simp only [hk, ha, operandVal]
  rfl

/-- 8-bit SUB (operands with zero points, OFM_SCALE 1 / shift 0): the difference of the raw operands -/
theorem ew_sub8 (r : Rounding) (a b : Int) :
    NpuWide.ewWideValue 2 false true false r 0 1 1 (1 + 0 * 4294967296) a b = .ok (npuScale r (a * 1 - b * 1) 1 0) := by
  have h1 : NpuSem.lo32 (1 + 0 * 4294967296) = 1 := by decide +kernel
  have h2 : NpuSem.hi6 (1 + 0 * 4294967296) = 0 := by decide +kernel
  unfold NpuWide.ewWideValue
  simp only [Bool.not_true, Bool.false_eq_true, if_false, h1, h2, NpuSem.addOperands, if_true]
  rfl

/-- entry of the table of exponentials for the difference `d ∈ [−255, 0]` -/
theorem expTable8_get (mult : Int) (ls : Nat) (diffMin d : Int) (h0 : -255 ≤ d) (h1 : d ≤ 0) :
    (SoftmaxKernel.expTable8 mult ls diffMin)[(d + 255).toNat]? = some ((SoftmaxKernel.expOfDiff mult ls diffMin d).getD 0) := by
  unfold SoftmaxKernel.expTable8
  rw [List.getElem?_map, List.getElem?_range (by omega)]
  simp only [Option.map_some]
  have : (((d + 255).toNat : Nat) : Int) - 255 = d := by omega
  rw [this]

/-- the SUB + table lookup step (pass 1) of the lowered program -/
def lutStep (P : Params) : NStep :=
  { kind := .sub, a := .input, b := some (.pass 0), rounding := .tfl, mult := 1, shift := 0, aZp := P.zpIn, bZp := P.zpIn,
    in32 := false, ofm32 := true, ozp := 127, lut := some (-128, 8), actMin := -128, actMax := 127 }

/-- one element of pass 1: the exponential of the difference to the maximum, read from the reference table -/
theorem lutStep_elem (P : Params) (mult : Int) (ls : Nat) (diffMin x mx : Int) (h0 : -255 ≤ x - mx) (h1 : x - mx ≤ 0) :
    ewElem (lutStep P) (SoftmaxKernel.expTable8 mult ls diffMin) 2 x mx = .ok (expZ mult ls diffMin mx x) := by
  unfold ewElem
  show (match NpuWide.ewWideValue 2 false true false .tfl 0 1 1 (1 + 0 * 4294967296) (x - P.zpIn) (mx - P.zpIn) with
    | .error e => throw e | .ok v => outStage (lutStep P) (SoftmaxKernel.expTable8 mult ls diffMin) v) = _
  rw [ew_sub8, npu_shift0]
  have hd : (x - P.zpIn) * 1 - (mx - P.zpIn) * 1 = x - mx := by omega
  rw [hd]
  have hc : clamp (x - mx + 127) (-128) 127 = x - mx + 127 := by
    unfold clamp; split
    · omega
    · split <;> omega
  have e8 : (2 : Int) ^ 8 = 256 := by decide
  have hno : ¬ (x - mx + 255 < 0 ∨ x - mx + 255 ≥ 256) := by omega
  have hi : (x - mx + 127 - -128) = (x - mx) + 255 := by omega
  simp only [outStage, lutStep, NpuWide.lutOffset, hc, e8, hi, hno, if_false]
  simp only [pure, Except.pure, expTable8_get mult ls diffMin (x - mx) h0 h1]
  rfl

theorem eval_lutStep (P : Params) (mult : Int) (ls : Nat) (diffMin mx : Int) (xs : List Int) (env : List Val)
    (henv : env[0]? = some (.scal mx)) (hx : ∀ x ∈ xs, -255 ≤ x - mx ∧ x - mx ≤ 0) :
    evalStep (SoftmaxKernel.expTable8 mult ls diffMin) xs env (lutStep P) = .ok (.vec (xs.map (expZ mult ls diffMin mx))) := by
  rw [eval_bin _ xs env (lutStep P) 2 (.pass 0) (.vec xs) (.scal mx) rfl (by intro h; cases h) rfl rfl
    (by simp only [operandVal, henv]; rfl)]
  simp only [binop]
  rw [mapE_ok _ (expZ mult ls diffMin mx)]
  · rfl
  · intro x hx'
    exact lutStep_elem P mult ls diffMin x mx (hx x hx').1 (hx x hx').2

/-- REDUCE_SUM of a vector with 32-bit operands, scale 1 / shift 0 (pass 3): the integer sum, saturated -/
theorem eval_reduceSum (table xs : List Int) (env : List Val) (s : NStep) (l : List Int)
    (hk : s.kind = .reduceSum) (hl : s.lut = none) (ho : s.ofm32 = true) (hr : s.rounding = .tfl) (hm : s.mult = 1)
    (hs : s.shift = 0) (hz : s.aZp = 0) (ha : operandVal xs env s.a = .ok (.vec l)) :
    evalStep table xs env s = .ok (.scal (clamp (l.foldl (fun acc x => acc + x) 0) NpuWide.INT32_LO NpuWide.INT32_HI)) := by
  unfold evalStep
  simp only [hk, ha, outStage, hl, NpuWide.outPlain, ho, if_true, NpuWide.reduceSumValue, hr, hm, hs, hz, rounding, Int.sub_zero]
  push_cast
  rw [npu_shift0]
  rfl

/-- CLZ of a per-position value (pass 4) -/
theorem eval_clz_s (table xs : List Int) (env : List Val) (s : NStep) (v : Int)
    (hk : s.kind = .clz) (hw : IsW32 s) (ha : operandVal xs env s.a = .ok (.scal v)) :
    evalStep table xs env s = .ok (.scal (clamp (NpuWide.clz32 v) NpuWide.INT32_LO NpuWide.INT32_HI)) := by
  unfold evalStep
  simp only [hk, ha]
  rw [ewElem_w32 table s 7 v 0 _ hw (ew_clz _ _ _ _)]
  rfl

/-- SHR of a vector by a per-position amount into an OFM of any width (pass 30) -/
theorem eval_shr_vs_plain (table xs : List Int) (env : List Val) (s : NStep) (b : Operand) (l : List Int) (vb : Int)
    (hk : s.kind = .shr) (hsb : s.b = some b) (hin : s.in32 = true) (hza : s.aZp = 0) (hzb : s.bZp = 0) (hl : s.lut = none)
    (hr : s.rounding = .natural)
    (ha : operandVal xs env s.a = .ok (.vec l)) (hb : operandVal xs env b = .ok (.scal vb)) (h0 : 0 ≤ vb) (h1 : vb ≤ 63) :
    evalStep table xs env s =
      .ok (.vec (l.map fun e => NpuWide.outPlain s.ofm32 s.ozp s.actMin s.actMax (npuScale .natural e 1 vb.toNat))) := by
  rw [eval_bin table xs env s 8 b (.vec l) (.scal vb) (by rw [hk]; rfl) (by rw [hk]; decide) hsb ha hb]
  simp only [binop]
  rw [mapE_ok _ (fun e => NpuWide.outPlain s.ofm32 s.ozp s.actMin s.actMax (npuScale .natural e 1 vb.toNat))]
  · rfl
  · intro x _
    rw [ewElem_plain table s 8 x vb _ hin hza hzb hl (ew_shr _ _ _ _ h0 h1), hr]
    rfl

theorem nSub0 (a b : Int) (h1 : -2147483648 ≤ a - b) (h2 : a - b ≤ 2147483647) : nSub 0 a b = a - b := by
  unfold nSub; rw [npu_shift0, clamp_id _ h1 h2]

/-! ## Part C — the segments through the interpreter -/

def hs0 (P : Params) : NStep :=
  { kind := .maxpool, a := .input, b := none, rounding := .tfl, mult := 1, shift := 0, aZp := P.zpIn, bZp := 0, in32 := false,
    ofm32 := false, ozp := P.zpIn, lut := none, actMin := max P.qmin (-32768), actMax := min P.qmax 32767 }
def hs3 (P : Params) : NStep :=
  { kind := .reduceSum, a := .pass 2, b := none, rounding := .tfl, mult := 1, shift := 0, aZp := 0, bZp := 0, in32 := true,
    ofm32 := true, ozp := P.zpIn, lut := none, actMin := -32768, actMax := 32767 }
def hs4 (P : Params) : NStep :=
  { kind := .clz, a := .pass 3, b := none, rounding := .tfl, mult := 1, shift := 0, aZp := 0, bZp := 0, in32 := true,
    ofm32 := true, ozp := P.zpIn, lut := none, actMin := -32768, actMax := 32767 }

theorem headProg_eq (P : Params) : headProg P =
    [ hs0 P, lutStep P, w32 .shr (.pass 1) (.const 12 ⟨.none, P.zpIn⟩) .natural 1 0 P.zpIn, hs3 P, hs4 P,
      w32 .sub (.const (12 + 31 - 8) ⟨.none, P.zpIn⟩) (.pass 4) .tfl 1 0 P.zpIn,
      w32 .sub (.pass 4) (.const 1 ⟨.none, P.zpIn⟩) .tfl 1 0 P.zpIn,
      w32 .shl (.pass 3) (.pass 6) .tfl 1 0 P.zpIn,
      w32 .sub (.pass 7) (.const (2 ^ 30) ⟨.none, P.zpIn⟩) .tfl 1 0 P.zpIn,
      w32 .shl (.pass 8) (.const 1 ⟨.none, P.zpIn⟩) .tfl 1 0 P.zpIn ] := rfl

/-- **passes 0 – 9 through the interpreter**: maximum, exponentials from the reference table, their `>> 12`, the sum, its
    headroom, the two shift amounts and the normalised sum minus one -/
theorem head_chain (P : Params) (mult : Int) (ls : Nat) (diffMin : Int) (x0 : Int) (rest : List Int) (S : Int) (h : Nat)
    (hq1 : -32768 ≤ P.qmin) (hq2 : P.qmax ≤ 32767) (hq : P.qmax = P.qmin + 255)
    (hx : ∀ x ∈ x0 :: rest, P.qmin ≤ x ∧ x ≤ P.qmax)
    (hS : S = (x0 :: rest).foldl (fun a x => a + rdivpot (expZ mult ls diffMin (rest.foldl max x0) x) 12) 0)
    (hS0 : 0 ≤ S) (hS1 : S ≤ 2147483647) (h4 : 4 ≤ h) (h12 : h ≤ 12) (hc : NpuWide.clz32 S = (h : Int))
    (hn0 : 0 ≤ normZ S h) (hn1 : normZ S h ≤ 2147483647) :
    ∃ v7 v8 : Int, runSteps (SoftmaxKernel.expTable8 mult ls diffMin) (x0 :: rest) (headProg P) [] =
      .ok [.scal (rest.foldl max x0), .vec ((x0 :: rest).map (expZ mult ls diffMin (rest.foldl max x0))),
        .vec ((x0 :: rest).map fun x => rdivpot (expZ mult ls diffMin (rest.foldl max x0) x) 12), .scal S, .scal (h : Int),
        .scal (35 - (h : Int)), .scal ((h : Int) - 1), .scal v7, .scal v8, .scal (normZ S h)] := by
  obtain ⟨m1, m2, m3⟩ := foldl_max_facts rest x0
  have hmxmem : rest.foldl max x0 ∈ x0 :: rest := by
    rcases m1 with e | e
    · rw [e]; exact List.mem_cons_self
    · exact List.mem_cons_of_mem _ e
  generalize hmxe : rest.foldl max x0 = mx at *
  obtain ⟨mxlo, mxhi⟩ := hx mx hmxmem
  have hle : ∀ x ∈ x0 :: rest, x ≤ mx := by
    intro x hx'
    rcases List.mem_cons.1 hx' with e | e
    · rw [e]; exact m2
    · exact m3 x e
  generalize htab : SoftmaxKernel.expTable8 mult ls diffMin = table at *
  generalize hxs : x0 :: rest = xs at *
  obtain ⟨h', rfl⟩ : ∃ h', h = h' + 1 := ⟨h - 1, by omega⟩
  have hpow : S * (2 : Int) ^ (h' + 1) = S * 2 ^ h' * 2 := by rw [Int.pow_succ, Int.mul_assoc]
  unfold normZ at hn0 hn1 ⊢
  rw [hpow] at hn0 hn1 ⊢
  -- pass 0
  have e0 : evalStep table xs [] (hs0 P) = .ok (.scal mx) := by
    rw [← hxs, eval_maxpool table x0 rest [] (hs0 P) rfl rfl, hmxe]
    show Except.ok (Val.scal (clamp (mx - P.zpIn + P.zpIn) (max P.qmin (-32768)) (min P.qmax 32767))) = _
    have : clamp (mx - P.zpIn + P.zpIn) (max P.qmin (-32768)) (min P.qmax 32767) = mx := by
      unfold clamp; split
      · omega
      · split <;> omega
    rw [this]
  -- pass 1
  have e1 : evalStep table xs [.scal mx] (lutStep P) = .ok (.vec (xs.map (expZ mult ls diffMin mx))) := by
    rw [← htab]
    exact eval_lutStep P mult ls diffMin mx xs _ rfl (fun x hx' => by have := hx x hx'; have := hle x hx'; omega)
  -- pass 2
  have e2 : evalStep table xs [.scal mx, .vec (xs.map (expZ mult ls diffMin mx))]
      (w32 .shr (.pass 1) (.const 12 ⟨.none, P.zpIn⟩) .natural 1 0 P.zpIn) =
      .ok (.vec (xs.map fun x => rdivpot (expZ mult ls diffMin mx x) 12)) := by
    rw [eval_shr_vs table xs _ _ (.const 12 ⟨.none, P.zpIn⟩) (xs.map (expZ mult ls diffMin mx)) 12 rfl rfl
      ⟨rfl, rfl, rfl, rfl, rfl⟩ rfl rfl rfl (by decide) (by decide), List.map_map]
    congr 2
    apply List.map_congr_left
    intro x _
    obtain ⟨r0, r1⟩ := expZ_range mult ls diffMin mx x
    obtain ⟨d0, d1⟩ := rdivpot12_range _ r0 r1
    simp only [Function.comp, show (12 : Int).toNat = 12 from rfl]
    rw [Props.C01Wide.shr_natural_eq_rdivpot _ 12 r0, clamp_id _ (by omega) (by omega)]
  -- pass 3
  have e3 : evalStep table xs [.scal mx, .vec (xs.map (expZ mult ls diffMin mx)),
      .vec (xs.map fun x => rdivpot (expZ mult ls diffMin mx x) 12)] (hs3 P) = .ok (.scal S) := by
    rw [eval_reduceSum table xs _ (hs3 P) (xs.map fun x => rdivpot (expZ mult ls diffMin mx x) 12) rfl rfl rfl rfl rfl rfl rfl rfl,
      List.foldl_map, ← hS, clamp_id _ (by omega) (by omega)]
  -- pass 4
  have e4 : evalStep table xs [.scal mx, .vec (xs.map (expZ mult ls diffMin mx)),
      .vec (xs.map fun x => rdivpot (expZ mult ls diffMin mx x) 12), .scal S] (hs4 P) = .ok (.scal ((h' + 1 : Nat) : Int)) := by
    rw [eval_clz_s table xs _ (hs4 P) S rfl ⟨rfl, rfl, rfl, rfl, rfl⟩ rfl, hc, clamp_id _ (by omega) (by omega)]
  -- pass 5
  have e5 : evalStep table xs [.scal mx, .vec (xs.map (expZ mult ls diffMin mx)),
      .vec (xs.map fun x => rdivpot (expZ mult ls diffMin mx x) 12), .scal S, .scal ((h' + 1 : Nat) : Int)]
      (w32 .sub (.const (12 + 31 - 8) ⟨.none, P.zpIn⟩) (.pass 4) .tfl 1 0 P.zpIn) = .ok (.scal (35 - ((h' + 1 : Nat) : Int))) := by
    rw [eval_sub_ss table xs _ _ (.pass 4) 0 (12 + 31 - 8) ((h' + 1 : Nat) : Int) rfl rfl ⟨rfl, rfl, rfl, rfl, rfl⟩ rfl
      (ofs_1_0 _ _ _ _ _).1 (ofs_1_0 _ _ _ _ _).2 rfl rfl, nSub0 _ _ (by omega) (by omega)]
    congr 2
  -- pass 6
  have e6 : evalStep table xs [.scal mx, .vec (xs.map (expZ mult ls diffMin mx)),
      .vec (xs.map fun x => rdivpot (expZ mult ls diffMin mx x) 12), .scal S, .scal ((h' + 1 : Nat) : Int),
      .scal (35 - ((h' + 1 : Nat) : Int))]
      (w32 .sub (.pass 4) (.const 1 ⟨.none, P.zpIn⟩) .tfl 1 0 P.zpIn) = .ok (.scal (((h' + 1 : Nat) : Int) - 1)) := by
    rw [eval_sub_ss table xs _ _ (.const 1 ⟨.none, P.zpIn⟩) 0 ((h' + 1 : Nat) : Int) 1 rfl rfl ⟨rfl, rfl, rfl, rfl, rfl⟩ rfl
      (ofs_1_0 _ _ _ _ _).1 (ofs_1_0 _ _ _ _ _).2 rfl rfl, nSub0 _ _ (by omega) (by omega)]
  have ht : ((((h' + 1 : Nat) : Int)) - 1).toNat = h' := by omega
  have hQ0 : 1073741824 ≤ S * 2 ^ h' := by omega
  have hQ1 : S * 2 ^ h' ≤ 2147483647 := by omega
  -- pass 7
  have e7 : evalStep table xs [.scal mx, .vec (xs.map (expZ mult ls diffMin mx)),
      .vec (xs.map fun x => rdivpot (expZ mult ls diffMin mx x) 12), .scal S, .scal ((h' + 1 : Nat) : Int),
      .scal (35 - ((h' + 1 : Nat) : Int)), .scal (((h' + 1 : Nat) : Int) - 1)]
      (w32 .shl (.pass 3) (.pass 6) .tfl 1 0 P.zpIn) = .ok (.scal (S * 2 ^ h')) := by
    rw [eval_shl_ss table xs _ _ (.pass 6) S (((h' + 1 : Nat) : Int) - 1) rfl rfl ⟨rfl, rfl, rfl, rfl, rfl⟩ rfl rfl
      (by omega) (by omega) (by rw [ht]; omega) (by rw [ht]; omega), ht]
  -- pass 8
  have e8 : evalStep table xs [.scal mx, .vec (xs.map (expZ mult ls diffMin mx)),
      .vec (xs.map fun x => rdivpot (expZ mult ls diffMin mx x) 12), .scal S, .scal ((h' + 1 : Nat) : Int),
      .scal (35 - ((h' + 1 : Nat) : Int)), .scal (((h' + 1 : Nat) : Int) - 1), .scal (S * 2 ^ h')]
      (w32 .sub (.pass 7) (.const (2 ^ 30) ⟨.none, P.zpIn⟩) .tfl 1 0 P.zpIn) = .ok (.scal (S * 2 ^ h' - 1073741824)) := by
    rw [eval_sub_ss table xs _ _ (.const (2 ^ 30) ⟨.none, P.zpIn⟩) 0 (S * 2 ^ h') (2 ^ 30) rfl rfl ⟨rfl, rfl, rfl, rfl, rfl⟩ rfl
      (ofs_1_0 _ _ _ _ _).1 (ofs_1_0 _ _ _ _ _).2 rfl rfl]
    have e30 : (2 : Int) ^ 30 = 1073741824 := by decide
    rw [e30, nSub0 _ _ (by omega) (by omega)]
  -- pass 9
  have e9 : evalStep table xs [.scal mx, .vec (xs.map (expZ mult ls diffMin mx)),
      .vec (xs.map fun x => rdivpot (expZ mult ls diffMin mx x) 12), .scal S, .scal ((h' + 1 : Nat) : Int),
      .scal (35 - ((h' + 1 : Nat) : Int)), .scal (((h' + 1 : Nat) : Int) - 1), .scal (S * 2 ^ h'),
      .scal (S * 2 ^ h' - 1073741824)]
      (w32 .shl (.pass 8) (.const 1 ⟨.none, P.zpIn⟩) .tfl 1 0 P.zpIn) = .ok (.scal (S * 2 ^ h' * 2 - 2147483648)) := by
    have e21 : (2 : Int) ^ (1 : Int).toNat = 2 := by decide
    rw [eval_shl_ss table xs _ _ (.const 1 ⟨.none, P.zpIn⟩) (S * 2 ^ h' - 1073741824) 1 rfl rfl ⟨rfl, rfl, rfl, rfl, rfl⟩ rfl rfl
      (by decide) (by decide) (by rw [e21]; omega) (by rw [e21]; omega), e21]
    have : (S * 2 ^ h' - 1073741824) * 2 = S * 2 ^ h' * 2 - 2147483648 := by omega
    rw [this]
  refine ⟨S * 2 ^ h', S * 2 ^ h' - 1073741824, ?_⟩
  rw [headProg_eq]
  rw [runSteps_cons_ok _ _ _ _ _ _ e0]; simp only [List.cons_append, List.nil_append]
  rw [runSteps_cons_ok _ _ _ _ _ _ e1]; simp only [List.cons_append, List.nil_append]
  rw [runSteps_cons_ok _ _ _ _ _ _ e2]; simp only [List.cons_append, List.nil_append]
  rw [runSteps_cons_ok _ _ _ _ _ _ e3]; simp only [List.cons_append, List.nil_append]
  rw [runSteps_cons_ok _ _ _ _ _ _ e4]; simp only [List.cons_append, List.nil_append]
  rw [runSteps_cons_ok _ _ _ _ _ _ e5]; simp only [List.cons_append, List.nil_append]
  rw [runSteps_cons_ok _ _ _ _ _ _ e6]; simp only [List.cons_append, List.nil_append]
  rw [runSteps_cons_ok _ _ _ _ _ _ e7]; simp only [List.cons_append, List.nil_append]
  rw [runSteps_cons_ok _ _ _ _ _ _ e8]; simp only [List.cons_append, List.nil_append]
  rw [runSteps_cons_ok _ _ _ _ _ _ e9]; simp only [List.cons_append, List.nil_append]
  rfl

/-- **passes 29 – 30 through the interpreter** on an environment of 29 entries whose entries 1, 5, 28 are the exponentials,
    the final shift amount and the reciprocal -/
theorem tail_chain (P : Params) (table xs : List Int) (env : List Val) (ev : List Int) (r n : Int)
    (hlen : env.length = 29) (h1 : env[1]? = some (.vec ev)) (h5 : env[5]? = some (.scal n)) (h28 : env[28]? = some (.scal r))
    (hn0 : 0 ≤ n) (hn1 : n ≤ 63) :
    runSteps table xs (tailProg P) env =
      .ok (env ++ [.vec (ev.map fun e => nMul 31 e r)] ++
        [.vec (ev.map fun e => NpuWide.outPlain false P.zpOut (max P.qmin (-32768)) (min P.qmax 32767)
          (npuScale .natural (nMul 31 e r) 1 n.toNat))]) := by
  have e29 : evalStep table xs env (w32 .mul (.pass 1) (.pass 28) .tfl 1073741824 31 0) =
      .ok (.vec (ev.map fun e => nMul 31 e r)) :=
    eval_mul_vs table xs env _ (.pass 28) 31 ev r rfl rfl ⟨rfl, rfl, rfl, rfl, rfl⟩ rfl (ofs_31 _ _ _ _ _)
      (by simp only [w32, operandVal, h1]; rfl) (by simp only [operandVal, h28]; rfl)
  have g29 : (env ++ [Val.vec (ev.map fun e => nMul 31 e r)])[29]? = some (.vec (ev.map fun e => nMul 31 e r)) := by
    rw [List.getElem?_append_right (by omega), hlen]; rfl
  have g5 : (env ++ [Val.vec (ev.map fun e => nMul 31 e r)])[5]? = some (.scal n) := by
    rw [List.getElem?_append_left (by omega), h5]
  have e30 := eval_shr_vs_plain table xs (env ++ [Val.vec (ev.map fun e => nMul 31 e r)])
    { kind := .shr, a := .pass 29, b := some (.pass 5), rounding := .natural, mult := 1, shift := 0, aZp := 0, bZp := 0,
      in32 := true, ofm32 := false, ozp := P.zpOut, lut := none, actMin := max P.qmin (-32768), actMax := min P.qmax 32767 }
    (.pass 5) (ev.map fun e => nMul 31 e r) n rfl rfl rfl rfl rfl rfl rfl
    (by simp only [operandVal, g29]; rfl) (by simp only [operandVal, g5]; rfl) hn0 hn1
  unfold tailProg
  rw [runSteps_cons_ok _ _ _ _ _ _ e29, runSteps_cons_ok _ _ _ _ _ _ e30, List.map_map]
  rfl

/-- value of passes 29 + 30 for one element = the reference's output expression over unbounded integers -/
theorem tail_value (P : Params) (hq1 : -32768 ≤ P.qmin) (hq2 : P.qmax ≤ 32767) (hz : P.zpOut = P.qmin)
    (e r : Int) (n : Nat) (e0 : 0 ≤ e) (e1 : e ≤ 2147483647) (r0 : 0 ≤ r) (r1 : r ≤ 2147483647) :
    NpuWide.outPlain false P.zpOut (max P.qmin (-32768)) (min P.qmax 32767) (npuScale .natural (nMul 31 e r) 1 n) =
      outZ r n P.qmin P.qmax e := by
  have hm : nMul 31 e r = srdhm e r := npu_mul31 e r (by omega) (by omega) (by omega) (by omega)
  have hnn : 0 ≤ srdhm e r := by
    rw [srdhm_eq_fl e r (by omega)]; exact fl_nonneg _ (Int.mul_nonneg e0 r0)
  rw [hm, Props.C01Wide.shr_natural_eq_rdivpot _ n hnn]
  unfold NpuWide.outPlain outZ
  simp only [Bool.false_eq_true, if_false, hz, Int.max_eq_left hq1, Int.min_eq_left hq2]

theorem getLast_concat2 (l : List Val) (a b : Val) : (l ++ [a] ++ [b]).getLast? = some b := by
  simp

/-- **the whole lowered program on a row of 1 … 511 codes = the reference row** -/
theorem run_prog8 (P : Params) (mult : Int) (ls : Nat) (diffMin : Int) (x0 : Int) (rest : List Int)
    (hlen : (x0 :: rest).length ≤ 511) (hx : ∀ x ∈ x0 :: rest, P.qmin ≤ x ∧ x ≤ P.qmax)
    (hq1 : -32768 ≤ P.qmin) (hq2 : P.qmax ≤ 32767) (hq : P.qmax = P.qmin + 255) (hz : P.zpOut = P.qmin) (hd : diffMin ≤ 0) :
    runRow (prog8 P) (SoftmaxKernel.expTable8 mult ls diffMin) (x0 :: rest) =
      .ok (SoftmaxKernel.softmaxRow8 (x0 :: rest) mult ls diffMin P.qmin P.qmax) := by
  obtain ⟨h, h4, h12, hc, hn0, hn1, href⟩ := ref_row mult ls diffMin P.qmin P.qmax hd (by omega) x0 rest hlen
  obtain ⟨m1, m2, m3⟩ := foldl_max_facts rest x0
  have hmxmem : rest.foldl max x0 ∈ x0 :: rest := by
    rcases m1 with e | e
    · rw [e]; exact List.mem_cons_self
    · exact List.mem_cons_of_mem _ e
  obtain ⟨S1, S2⟩ := sum_facts mult ls diffMin (rest.foldl max x0) hd (x0 :: rest) hmxmem hlen
  generalize hS : (x0 :: rest).foldl (fun a x => a + rdivpot (expZ mult ls diffMin (rest.foldl max x0) x) 12) 0 = S at *
  obtain ⟨v7, v8, hhead⟩ := head_chain P mult ls diffMin x0 rest S h hq1 hq2 hq hx hS.symm (by omega) (by omega) h4 h12 hc hn0 hn1
  obtain ⟨vs, hrecip, hvs⟩ := recip_chain P (SoftmaxKernel.expTable8 mult ls diffMin) (x0 :: rest)
    (.scal (rest.foldl max x0)) (.vec ((x0 :: rest).map (expZ mult ls diffMin (rest.foldl max x0))))
    (.vec ((x0 :: rest).map fun x => rdivpot (expZ mult ls diffMin (rest.foldl max x0) x) 12)) (.scal S) (.scal (h : Int))
    (.scal (35 - (h : Int))) (.scal ((h : Int) - 1)) (.scal v7) (.scal v8) (normZ S h)
  obtain ⟨hr1, hr2, hr3⟩ := npu_recip_eq (normZ S h) hn0 hn1
  have hl : ([Val.scal (rest.foldl max x0), .vec ((x0 :: rest).map (expZ mult ls diffMin (rest.foldl max x0))),
      .vec ((x0 :: rest).map fun x => rdivpot (expZ mult ls diffMin (rest.foldl max x0) x) 12), .scal S, .scal (h : Int),
      .scal (35 - (h : Int)), .scal ((h : Int) - 1), .scal v7, .scal v8, .scal (normZ S h)] ++ vs).length = 28 := by
    simp only [List.length_append, List.length_cons, List.length_nil, hvs]
  have htail := tail_chain P (SoftmaxKernel.expTable8 mult ls diffMin) (x0 :: rest)
    ([Val.scal (rest.foldl max x0), .vec ((x0 :: rest).map (expZ mult ls diffMin (rest.foldl max x0))),
      .vec ((x0 :: rest).map fun x => rdivpot (expZ mult ls diffMin (rest.foldl max x0) x) 12), .scal S, .scal (h : Int),
      .scal (35 - (h : Int)), .scal ((h : Int) - 1), .scal v7, .scal v8, .scal (normZ S h)] ++ vs ++
      [.scal (npuRecip (normZ S h))])
    ((x0 :: rest).map (expZ mult ls diffMin (rest.foldl max x0))) (npuRecip (normZ S h)) (35 - (h : Int))
    (by rw [List.length_append, hl]; rfl) rfl rfl
    (by rw [List.getElem?_append_right (by omega), hl]; rfl)
    (by omega) (by omega)
  unfold runRow prog8
  rw [List.append_assoc, runSteps_append _ _ _ _ _ _ hhead, runSteps_append _ _ _ _ _ _ hrecip, htail]
  simp only [getLast_concat2]
  rw [href]
  unfold refRow
  rw [hS, List.map_map]
  show Except.ok _ = Except.ok _
  simp only []
  apply congrArg Except.ok
  apply List.map_congr_left
  intro x _
  obtain ⟨ez0, ez1⟩ := expZ_range mult ls diffMin (rest.foldl max x0) x
  simp only [Function.comp]
  have hnat : (35 - (h : Int)).toNat = 35 - h := by omega
  rw [hnat, tail_value P hq1 hq2 hz _ _ _ ez0 ez1 hr2 hr3, hr1]

/-- the table C19 proves `generate_exp_table` to produce (`SoftmaxRef.expTable`) is the table of the reference kernel's
    exponentials with `diff_min = −CalculateInputRadius(5, left_shift)` -/
theorem expTable_tie (mult : Int) (ls : Nat) :
    SoftmaxRef.expTable mult ls = SoftmaxKernel.expTable8 mult ls (-(SoftmaxRef.calculateInputRadius 5 ls)) := by
  unfold SoftmaxRef.expTable SoftmaxKernel.expTable8
  simp only []
  apply List.map_congr_left
  intro x _
  unfold SoftmaxRef.expEntry SoftmaxKernel.expOfDiff SoftmaxKernel.mbqmGreaterThanOne
  split <;> rfl

theorem inputRadius_nonneg (ls : Nat) : 0 ≤ SoftmaxRef.calculateInputRadius 5 ls := by
  unfold SoftmaxRef.calculateInputRadius
  exact Int.ediv_nonneg (by decide) (by have := FpMath.two_pow_pos ls; omega)

end VelaVerif.Lemmas.SoftmaxRowL
