import VelaVerif.Lemmas.PassPackingOrder
/-!
# The traversal of `pack_into_passes`: running it, and that it reaches every operator
-/
namespace VelaVerif.Lemmas.PassPackingDfs
open VelaVerif.PassPacking VelaVerif.Gen.PassPacking VelaVerif.PassPackingSpec VelaVerif.Lemmas.PassPackingWalk

variable {G : Graph} {rk : Nat → Nat}

/-! ## running the traversal -/

theorem stepCase_err {d d' : Dfs} (hc : StepCase G d d') : d'.err = d.err := by
  cases hc <;> rfl

theorem dfsStep_err (d : Dfs) (herr : (dfsStep Rules.current G d).err = none) : d.err = none := by
  rw [← stepCase_err (dfsStep_cases d herr)]; exact herr

theorem dfsRun_err (n : Nat) (d : Dfs) (herr : (dfsRun Rules.current G n d).err = none) : d.err = none := by
  induction n generalizing d with
  | zero =>
    simp only [dfsRun] at herr; split at herr
    · exact herr
    · simp [Dfs.fail] at herr
  | succ n ih =>
    simp only [dfsRun] at herr; split at herr
    · exact herr
    · exact dfsStep_err d (ih _ herr)

theorem dfsRun_inv (hW : WFU G rk) (n : Nat) (d : Dfs) (hA : DInvA G d) (hB : DInvB G d)
    (herr : (dfsRun Rules.current G n d).err = none) :
    DInvA G (dfsRun Rules.current G n d) ∧ DInvB G (dfsRun Rules.current G n d) ∧ (dfsRun Rules.current G n d).stack = [] := by
  induction n generalizing d with
  | zero =>
    simp only [dfsRun] at herr ⊢; split
    · rename_i h; exact ⟨hA, hB, by simpa using h⟩
    · rename_i h; simp [h, Dfs.fail] at herr
  | succ n ih =>
    simp only [dfsRun] at herr ⊢; split
    · rename_i h; exact ⟨hA, hB, by simpa using h⟩
    · rename_i h
      simp only [h] at herr
      have hstep := dfsStep_err _ (dfsRun_err n _ herr) |> fun _ => dfsRun_err n _ herr
      obtain ⟨hA', hB'⟩ := dfsStep_inv hW d hA hB hstep
      exact ih _ hA' hB' herr

theorem count_map_vt (l : List Nat) (t : Nat) : (l.map Task.vt).count (Task.vt t) = l.count t := by
  induction l with
  | nil => rfl
  | cons x rest ih =>
    simp only [List.map_cons, List.count_cons, ih]
    by_cases h : x = t
    · subst h; simp
    · have : (Task.vt x == Task.vt t) = false := by
        simp only [beq_eq_false_iff_ne, ne_eq, Task.vt.injEq]; exact h
      simp [h, this]

theorem init_inv : DInvA G { stack := G.outputs.map Task.vt } ∧ DInvB G { stack := G.outputs.map Task.vt } := by
  refine ⟨⟨by simp, by simp, by simp, ?_, ?_, ?_, by simp, by simp⟩, ⟨by simp [placed], ?_, by simp [placed], ?_⟩⟩
  · intro t; simp [count_map_vt, emitted]
  · intro o
    have : ((G.op o).outputs.filter (full G { stack := G.outputs.map Task.vt })) = [] := by
      rw [List.filter_eq_nil_iff]
      intro t _
      simp only [full, List.count_nil, Bool.and_eq_true, beq_iff_eq, bne_iff_ne, ne_eq, not_and, Decidable.not_not]
      intro h; exact h.symm
    rw [this]
    simp only [List.count_nil, List.length_nil, Nat.zero_add]
    apply List.count_eq_zero.mpr
    intro h
    obtain ⟨x, _, hx⟩ := List.mem_map.mp h
    cases hx
  · intro o; simp [startsOf]
  · intro pre p post h; simp at h
  · intro o ho
    obtain ⟨x, _, hx⟩ := List.mem_map.mp ho
    cases hx


theorem le_sum_of_mem (l : List Nat) (f : Nat → Nat) (x : Nat) (h : x ∈ l) : f x ≤ (l.map f).sum := by
  induction l with
  | nil => simp at h
  | cons a rest ih =>
    simp only [List.map_cons, List.sum_cons]
    rcases List.mem_cons.mp h with rfl | h
    · omega
    · have := ih h; omega

theorem sum_eq_zero_of_all (l : List Nat) (h : ∀ n ∈ l, n = 0) : l.sum = 0 := by
  induction l with
  | nil => rfl
  | cons a rest ih =>
    simp only [List.sum_cons]
    rw [h a List.mem_cons_self, ih (fun n hn => h n (List.mem_cons_of_mem _ hn))]

theorem needed_has_used_output (hW : WFU G rk) {o : Nat} (h : Needed G o) :
    ∃ u ∈ (G.op o).outputs, (G.tensor u).consumers ≠ [] := by
  cases h with
  | out _ t ht hn => exact ⟨t, ht, by intro h0; rw [h0] at hn; simp at hn⟩
  | step _ t c ht hc _ => exact ⟨t, ht, by intro h0; rw [h0] at hc; simp at hc⟩

theorem start_in_flat {d : Dfs} (hA : DInvA G d) {x : Nat} (hx : x ∈ startsOf d.passes) : x ∈ d.passes.flatMap (·.ops) := by
  obtain ⟨p, hp, hl⟩ := List.mem_filterMap.mp hx
  exact List.mem_flatMap.mpr ⟨p, hp, List.mem_of_getLast? hl⟩

/-- **at the end of the traversal every operator of the graph is in a pass or on the start-up list** -/
theorem coverage (hW : WFU G rk) (d : Dfs) (hA : DInvA G d) (hB : DInvB G d) (hstack : d.stack = []) :
    ∀ o, o < G.ops.length → o ∈ placed d := by
  let B := ((List.range G.ops.length).map rk).sum + 1
  have hBound : ∀ o, o < G.ops.length → rk o < B := by
    intro o ho
    have := le_sum_of_mem (List.range G.ops.length) rk o (List.mem_range.mpr ho)
    show rk o < ((List.range G.ops.length).map rk).sum + 1
    omega
  have key : ∀ m, ∀ o, o < G.ops.length → B - rk o ≤ m → o ∈ placed d := by
    intro m
    induction m with
    | zero => intro o ho hm; have := hBound o ho; omega
    | succ m ih =>
      intro o ho hm
      by_cases hpl : o ∈ placed d
      · exact hpl
      · exfalso
        have hflatnd : (d.passes.flatMap (·.ops)).Nodup := (List.nodup_append.mp hB.nodup).1
        -- every consumer of an output of o is in a pass
        have hconsumers : ∀ u ∈ (G.op o).outputs, ∀ c, some c ∈ (G.tensor u).consumers → c ∈ d.passes.flatMap (·.ops) := by
          intro u hu c hc
          have hcr : c < G.ops.length := hW.consRange u c hc
          have hin : some u ∈ (G.op c).inputs := by
            have h1 : (G.tensor u).consumers.count (some c) ≥ 1 := List.count_pos_iff.mpr hc
            rw [hW.consCount u c] at h1
            exact List.count_pos_iff.mp h1
          have hrk : rk o < rk c := hW.rank c o (mem_producersOf.mpr ⟨u, hin, (hW.prodOut o u).mpr hu⟩)
          have hcp := ih c hcr (by have := hBound c hcr; omega)
          rcases List.mem_append.mp hcp with h | h
          · exact h
          · have := hW.startupNoInputs c (hA.startupT c h)
            rw [this] at hin; simp at hin
        -- hence every used output of o is full
        have hfull : ∀ u ∈ (G.op o).outputs, (G.tensor u).consumers ≠ [] → full G d u = true := by
          intro u hu hne
          have hvt := hA.vt u
          rw [hstack] at hvt
          simp only [List.count_nil, Nat.add_zero] at hvt
          have hem : emitted d.passes u = ((d.passes.flatMap (·.ops)).map fun c => (G.tensor u).consumers.count (some c)).sum := by
            unfold emitted
            rw [sum_flatMap]
            congr 1
            apply List.map_congr_left
            intro p hp
            obtain ⟨s, S, hF, _⟩ := hA.facts p hp
            rw [hF.count u]
            have hocc : occ G p.ops u = (p.ops.map fun c => (G.tensor u).consumers.count (some c)).sum := by
              unfold occ cnt
              congr 1
              apply List.map_congr_left
              intro c _
              exact (hW.consCount u c).symm
            split
            · exact hocc
            · rename_i hS
              rw [← hocc]
              -- no operator of the pass reads u: otherwise u would be fused and o in the pass
              symm
              unfold occ
              apply sum_eq_zero_of_all
              intro n hn
              obtain ⟨c, hc, rfl⟩ := List.mem_map.mp hn
              by_cases hcnt : cnt G c u = 0
              · exact hcnt
              · exfalso
                have hin : some u ∈ (G.op c).inputs := List.count_pos_iff.mp (Nat.pos_of_ne_zero hcnt)
                rcases hF.cover c hc u hin with h | ⟨_, pr, hops, hpr⟩
                · exact hS h
                · have : o = pr := by
                    have := (hW.prodOut o u).mpr hu
                    rw [hops] at this; simpa using this
                  subst this
                  exact hpl (mem_placed_of_pass hp hpr)
          have hsum := sum_count_eq (d.passes.flatMap (·.ops)) hflatnd (G.tensor u).consumers (hconsumers u hu)
          rw [hW.noneCount u] at hsum
          unfold full
          simp only [Bool.and_eq_true, beq_iff_eq, bne_iff_ne, ne_eq, List.length_eq_zero_iff]
          exact ⟨by omega, hne⟩
        -- so o has been visited as often as it has used outputs: it was started
        obtain ⟨u0, hu0, hne0⟩ := needed_has_used_output hW (hW.needed o ho)
        have hvo := hA.vo o
        rw [hstack] at hvo
        simp only [List.count_nil, Nat.add_zero] at hvo
        have huse := unusedOutputs_eq (G := G) o
        have hfilter : (G.op o).outputs.filter (full G d) = (G.op o).outputs.filter fun t => (G.tensor t).consumers.length != 0 := by
          apply List.filter_congr
          intro u hu
          by_cases hne : (G.tensor u).consumers = []
          · simp [full, hne]
          · rw [hfull u hu hne]; simp [hne]
        have hpos : ((G.op o).outputs.filter fun t => (G.tensor t).consumers.length != 0).length ≥ 1 := by
          apply List.length_pos_of_mem (a := u0)
          exact List.mem_filter.mpr ⟨hu0, by simpa using hne0⟩
        rw [hfilter] at hvo
        have hst := (hA.started o).mpr ⟨by omega, by omega⟩
        rcases hst with h | h
        · exact hpl (List.mem_append_left _ (start_in_flat hA h))
        · exact hpl (List.mem_append_right _ h)
  intro o ho
  exact key B o ho (by omega)

end VelaVerif.Lemmas.PassPackingDfs
