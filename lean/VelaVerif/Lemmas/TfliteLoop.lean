import VelaVerif.Lemmas.TfliteConforms
import VelaVerif.Lemmas.TfliteConformsMeta
import VelaVerif.Spec.TfliteRoundtrip
/-! Lemmas for `Props/C11Writer.read_write_roundtrip`: `Reader.read` of the written file, step by step, is `Spec.normalise`. -/
set_option linter.unusedSimpArgs false
set_option linter.unusedVariables false
namespace VelaVerif.Tflite.Spec
open VelaVerif.Tflite VelaVerif.Tflite.Writer VelaVerif.OpIndices VelaVerif.Gen

/-! ## generic -/

theorem mapM_congr_idx {α β γ : Type} (f : α → Except String γ) (g : β → Except String γ) : ∀ (l₁ : List α) (l₂ : List β),
    l₁.length = l₂.length → (∀ (i : Nat) a b, l₁[i]? = some a → l₂[i]? = some b → f a = g b) → l₁.mapM f = l₂.mapM g
  | [], [], _, _ => rfl
  | [], _ :: _, h, _ => by simp at h
  | _ :: _, [], h, _ => by simp at h
  | a :: l₁, b :: l₂, h, hf => by
    rw [List.mapM_cons, List.mapM_cons, hf 0 a b rfl rfl,
      mapM_congr_idx f g l₁ l₂ (by simpa using h) (fun i a b ha hb => hf (i + 1) a b (by simpa using ha) (by simpa using hb))]

theorem mapM_map_ok {α β γ : Type} (f : β → Except String γ) (g : α → β) (h : α → γ) : ∀ (l : List α),
    (∀ a ∈ l, f (g a) = .ok (h a)) → (l.map g).mapM f = .ok (l.map h)
  | [], _ => rfl
  | a :: l, hf => by
    rw [List.map_cons, List.mapM_cons, hf a (List.mem_cons_self ..), mapM_map_ok f g h l (fun x hx => hf x (List.mem_cons_of_mem _ hx))]
    rfl

/-! ## tensors -/

theorem parseTensor_norm (bufs : List (Option Data)) (td : TensorD) (tt : TensorT) (b : Nat) (h : tensorT td b = .ok tt)
    (hb : bufs[tt.buffer]? = some (Reader.parseBuffer { data := td.values })) : Reader.parseTensor bufs tt = normTensor td := by
  obtain ⟨b1, b2, b3, b4, b5, _, _⟩ := tensorT_ok td b tt h
  have hs : tt.shape = some (writtenShapeN td) := b2
  unfold Reader.parseTensor normTensor Reader.bufferOf
  simp only [b1, hs, b3, b4, b5, hb, Option.getD_some]
  rfl

theorem tensors_norm (d : Desc) (m : ModelT) (codes : List Code) (ps : PSub) (f : SubGraphT) (hf : SgFacts d m codes ps f) :
    f.tensors.mapM (Reader.parseTensor (m.buffers.map Reader.parseBuffer)) = (sgTds d.tensors ps).mapM normTensor := by
  have hrefs : ∀ g ∈ sgAll d.tensors ps, g < d.tensors.length := by
    intro g hg
    obtain ⟨i, hi⟩ := List.getElem?_of_mem hg
    obtain ⟨td, _, t1, _⟩ := hf.tens i g hi
    exact (List.getElem?_eq_some_iff.mp t1).1
  obtain ⟨r1, r2⟩ := filterMap_refs d.tensors (sgAll d.tensors ps) hrefs
  apply mapM_congr_idx
  · rw [hf.tlen]; unfold sgTds; rw [r1]
  · intro i tt td' h1 h2
    have hil : i < (sgAll d.tensors ps).length := by rw [← hf.tlen]; exact (List.getElem?_eq_some_iff.mp h1).1
    obtain ⟨td, tt', t1, t2, t3, t4⟩ := hf.tens i _ (List.getElem?_eq_getElem hil)
    rw [h1] at t2
    obtain rfl := Option.some.inj t2
    have : (sgTds d.tensors ps)[i]? = some td := by
      unfold sgTds; rw [r2 i _ (List.getElem?_eq_getElem hil)]; exact t1
    rw [h2] at this
    obtain rfl := Option.some.inj this
    exact parseTensor_norm _ _ _ _ t3 (by simp [List.getElem?_map, t4])


/-! ## operator codes -/

theorem serialiseOpCode_lookup (c : Code) (oc : OpCodeT) (h : serialiseOpCode c = .ok oc) : ∃ info, lookupOpId c.opId = some info := by
  cases hl : lookupOpId c.opId with
  | some info => exact ⟨info, rfl⟩
  | none =>
    unfold serialiseOpCode at h
    simp [hl, bind, Except.bind, throw, throwThe, MonadExceptOf.throw] at h

/-- table fact: the Ethos-U operator is read back as `Custom`, whose graph-side operand order is the order it was written in -/
theorem npu_reads_as_custom : opTable.all (fun info => info.name != "CustomNpuOp" ||
    match info.inv, lookupOp "Custom" with
    | some (_, _, wt), some ci => ci.nng.flat == wt.flat
    | _, _ => true) = true := by decide +kernel

/-- the written operator code of `p`, read back, is `rcodeOf p`, and the reader's operand alignment for it is the identity -/
theorem rcode_of_written (p : POp) (c : Code) (oc : OpCodeT) (hok : p.info.tableOk = true) (hmem : p.info ∈ opTable)
    (c2 : c.opId = p.info.id) (c3 : c.version = p.version) (c4 : p.info.name = "Custom" → c = p.code)
    (hser : serialiseOpCode c = .ok oc) :
    ∃ rc, Reader.parseOpCode oc = .ok rc ∧ rcodeOf p = some rc ∧ rc.op.nng.flat = rc.indices.flat := by
  have hid : lookupOpId c.opId = some p.info := by
    unfold OpInfo.tableOk at hok
    simp only [Bool.and_eq_true, beq_iff_eq] at hok
    rw [c2]; exact hok.1.2
  obtain ⟨rc, tf, ser, wt, r1, r2, r3, r4, r5, r6, r7, r8⟩ := opcode_roundtrip c oc p.info hid hser
  have hflat : wt.flat = p.info.nng.flat := by
    unfold OpInfo.tableOk at hok
    simp only [r2, Bool.and_eq_true, beq_iff_eq] at hok
    exact hok.2.1
  -- the operator the reader found is in the table under its own name
  have hrop : lookupOp rc.op.name = some rc.op := by
    unfold Reader.parseOpCode at r1
    obtain ⟨row, _, r1⟩ := bind_ok r1
    obtain ⟨info, hi, r1⟩ := bind_ok r1
    simp only [pure, Except.pure, Except.ok.injEq] at r1
    subst r1
    unfold lookupOpE at hi
    cases hx : lookupOp row.2.1 with
    | none => simp [hx, throw, throwThe, MonadExceptOf.throw] at hi
    | some i =>
      simp [hx, pure, Except.pure] at hi
      subst hi
      have := (lookupOp_tableOk _ _ hx).1
      unfold OpInfo.tableOk at this
      simp only [Bool.and_eq_true, beq_iff_eq] at this
      exact this.1.1
  refine ⟨rc, r1, ?_, ?_⟩
  · unfold rcodeOf
    simp only [r2]
    by_cases hn : p.info.name = "CustomNpuOp"
    · have hc : ¬ p.info.name = "Custom" := by rw [hn]; decide
      rw [if_pos hn] at r4
      rw [r4] at hrop
      simp only [hn, hc, beq_self_eq_true, if_true, hrop, Option.map_some]
      cases rc
      simp only [hn, hc, if_true, if_false] at r3 r6 r7 r8
      simp_all
    · have hop := r5 hn
      simp only [hn, beq_iff_eq, if_false, Option.map_some]
      cases rc
      simp only at hop r3 r6 r7 r8
      subst hop
      by_cases hc : p.info.name = "Custom"
      · have := c4 hc
        simp_all [POp.code]
      · simp_all
  · rw [r8]
    by_cases hn : p.info.name = "CustomNpuOp"
    · rw [if_pos hn] at r4
      rw [r4] at hrop
      have := List.all_eq_true.mp npu_reads_as_custom p.info hmem
      simp only [hn, r2, hrop, bne_self_eq_false, Bool.false_or, beq_iff_eq] at this
      exact this
    · rw [r5 hn]; exact hflat.symm


/-! ## one operator -/

theorem mem_of_tableOk (info : OpInfo) (h : info.tableOk = true) : info ∈ opTable := by
  unfold OpInfo.tableOk at h
  simp only [Bool.and_eq_true, beq_iff_eq] at h
  exact List.mem_of_find?_eq_some h.1.1

theorem indexIn_lt (all : List Nat) (g i : Nat) (h : indexIn all g = some i) : i < all.length :=
  (List.getElem?_eq_some_iff.mp (indexIn_some all g i h)).1

theorem mapIdx_lt (all : List Nat) (t : Option Nat) (i : Nat) (h : mapIdx all t = some i) : i < all.length := by
  cases t with
  | none => simp [mapIdx] at h
  | some g => exact indexIn_lt all g i h

theorem resolve_inputs (base : Nat) (all : List Nat) (l : List (Option Nat)) :
    Reader.resolveAll base all.length (some (l.map fun t => match mapIdx all t with | some i => (i : Int) | none => -1)) =
      .ok (l.map fun t => (mapIdx all t).map (base + ·)) := by
  unfold Reader.resolveAll
  simp only
  apply mapM_map_ok
  intro t _
  cases h : mapIdx all t with
  | none => simp [resolve_minus1]
  | some i => simp [resolve_nat base _ i (mapIdx_lt all t i h)]

theorem filterMap_ofNat (all : List Nat) (l : List (Option Nat)) :
    (l.filterMap fun t => (mapIdx all t).map Int.ofNat) = (l.filterMap (mapIdx all ·)).map Int.ofNat := by
  rw [List.map_filterMap]

theorem mem_filterMap_lt (all : List Nat) (l : List (Option Nat)) : ∀ i ∈ l.filterMap (mapIdx all ·), i < all.length := by
  intro i hi
  obtain ⟨t, _, ht⟩ := List.mem_filterMap.mp hi
  exact mapIdx_lt all t i ht

theorem resolve_results (base : Nat) (all : List Nat) (l : List (Option Nat)) :
    (l.filterMap fun t => (mapIdx all t).map Int.ofNat).mapM (Reader.resolve base all.length) =
      .ok ((l.filterMap (mapIdx all ·)).map fun i => some (base + i)) := by
  rw [filterMap_ofNat]
  apply mapM_map_ok
  intro i hi
  exact resolve_nat base _ i (mem_filterMap_lt all l i hi)

theorem fileOutputs_some : ∀ (l : List Nat), Reader.fileOutputs (l.map some) = .ok l
  | [] => rfl
  | a :: l => by
    have ih := fileOutputs_some l
    unfold Reader.fileOutputs at ih ⊢
    rw [List.map_cons, List.mapM_cons, ih]
    rfl

/-- what is known about a written operator and its record -/
structure OpFacts (m : ModelT) (rcs : List Reader.RCode) (all : List Nat) (p : POp) (o : OperatorT) : Prop where
  ins : o.inputs = some (p.inputs.map fun t => match mapIdx all t with | some i => (i : Int) | none => -1)
  outs : o.outputs = some (p.outputs.filterMap fun t => (mapIdx all t).map Int.ofNat)
  inter : o.intermediates = some (p.intermediates.filterMap fun t => (mapIdx all t).map Int.ofNat)
  code : ∃ rc, rcs[o.opcodeIndex]? = some rc ∧ rcodeOf p = some rc ∧ rc.op.nng.flat = rc.indices.flat
  payload : ∀ rc, rcodeOf p = some rc → o.payload = payloadN p rc.hasSer

theorem parseOperator_norm (m : ModelT) (rcs : List Reader.RCode) (base : Nat) (all : List Nat) (p : POp) (o : OperatorT)
    (hf : OpFacts m rcs all p o) (ts : List TensorD) (k : Nat) :
    Reader.parseOperator rcs base all.length ts k o = opN base all k ts p := by
  obtain ⟨rc, c1, c2, c3⟩ := hf.code
  have hcode : Reader.codeAt rcs o.opcodeIndex = .ok rc := by unfold Reader.codeAt; rw [c1]; rfl
  have hins := resolve_inputs base all p.inputs
  have houts : Reader.resolveAll base all.length o.outputs = .ok (((p.outputs.filterMap (mapIdx all ·)).map (base + ·)).map some) := by
    rw [hf.outs]; unfold Reader.resolveAll; simp only; rw [resolve_results, List.map_map]; rfl
  have hinter : Reader.resolveIntermediates base all.length o.intermediates =
      .ok ((p.intermediates.filterMap (mapIdx all ·)).map fun i => some (base + i)) := by
    rw [hf.inter]; unfold Reader.resolveIntermediates; simp only; rw [resolve_results]
  have hal := alignInputs_id rc.indices rc.op.nng (p.inputs.map fun t => (mapIdx all t).map (base + ·)) c3
  unfold Reader.parseOperator opN
  rw [hf.ins]
  simp only [hcode, hins, houts, hinter, fileOutputs_some, hal, c2, hf.payload rc c2, bind, Except.bind, pure, Except.pure]
  cases Reader.cloneStep rc.op (Reader.virtualStep rc k ts (((p.outputs.filterMap (mapIdx all ·)).map (base + ·)).map some)).1
      (p.inputs.map fun t => (mapIdx all t).map (base + ·)) with
  | error e => rfl
  | ok c =>
    simp only [payloadN]
    cases rc.hasSer <;> rfl

theorem parseOperators_norm (m : ModelT) (rcs : List Reader.RCode) (base : Nat) (all : List Nat) : ∀ (ps : List POp) (os : List OperatorT),
    List.Forall₂ (OpFacts m rcs all) ps os → ∀ (k : Nat) (ts : List TensorD),
    Reader.parseOperators rcs base all.length os k ts = opsN base all ps k ts
  | [], [], _, _, _ => rfl
  | p :: ps, o :: os, h, k, ts => by
    cases h with
    | cons h1 h2 =>
      unfold Reader.parseOperators opsN
      rw [parseOperator_norm m rcs base all p o h1 ts k]
      cases opN base all k ts p with
      | error e => rfl
      | ok r =>
        simp only [bind, Except.bind]
        rw [parseOperators_norm m rcs base all ps os h2 (k + 1) r.2.1]
        rfl


theorem opFacts_of (m : ModelT) (codes : List Code) (rcs : List Reader.RCode) (all : List Nat) (p : POp) (o : OperatorT)
    (hser : serialiseOperator codes all p = .ok o) (hok : p.info.tableOk = true) (hinv : p.info.inv.isSome = true)
    (hcodes : ∀ (i : Nat) c, codes[i]? = some c → ∃ oc, m.opcodes[i]? = some oc ∧ serialiseOpCode c = .ok oc)
    (hrcs : ∀ (i : Nat) oc, m.opcodes[i]? = some oc → ∃ rc, rcs[i]? = some rc ∧ Reader.parseOpCode oc = .ok rc) :
    OpFacts m rcs all p o := by
  obtain ⟨s1, s2, s3, s4, _, _⟩ := serialiseOperator_ok _ _ _ _ hser
  obtain ⟨c, c1, c2, c3, c4⟩ := opcodeIndex_ok _ _ _ s4
  obtain ⟨oc, oc1, oc2⟩ := hcodes _ c c1
  obtain ⟨rc, r1, r2, r3⟩ := rcode_of_written p c oc hok (mem_of_tableOk _ hok) c2 c3 c4 oc2
  obtain ⟨rc', q1, q2⟩ := hrcs _ oc oc1
  rw [r1] at q2
  obtain rfl := Except.ok.inj q2
  refine ⟨s1, s2, s3, ⟨rc, q1, r2, r3⟩, ?_⟩
  intro rc2 hrc2
  rw [r2] at hrc2
  obtain rfl := Option.some.inj hrc2
  obtain ⟨x, hx⟩ := Option.isSome_iff_exists.mp hinv
  obtain ⟨tf, ser, wt⟩ := x
  have hs : rc.hasSer = ser := by
    unfold rcodeOf at r2
    simp only [hx] at r2
    obtain ⟨op, _, rfl⟩ := Option.map_eq_some_iff.mp r2
    rfl
  unfold serialiseOperator at hser
  dsimp only at hser
  obtain ⟨idx, hidx, hser⟩ := bind_ok hser
  simp only [pure, Except.pure, Except.ok.injEq] at hser
  subst hser
  simp only [hx, hs, payloadN, Reader.noPayload]

theorem write_rcodes (d : Desc) (enum : List Code) (m : ModelT) (h : writeWith d enum = .ok m) :
    ∃ rcs, m.opcodes.mapM Reader.parseOpCode = .ok rcs ∧
      ∀ (i : Nat) oc, m.opcodes[i]? = some oc → ∃ rc, rcs[i]? = some rc ∧ Reader.parseOpCode oc = .ok rc := by
  obtain ⟨subs, opcodes, sgs, st, metas, _, h2, _, _, hm⟩ := writeWith_ok d enum m h
  have ho : m.opcodes = opcodes := by rw [hm]; rfl
  obtain ⟨hl, hf⟩ := mapM_ok _ _ _ h2
  have hp : ∀ oc ∈ m.opcodes, ∃ rc, Reader.parseOpCode oc = .ok rc := by
    intro oc hoc
    rw [ho] at hoc
    obtain ⟨i, hi⟩ := List.getElem?_of_mem hoc
    have hil : i < (sortCodes enum).length := by rw [← hl]; exact (List.getElem?_eq_some_iff.mp hi).1
    obtain ⟨oc', e1, e2⟩ := hf i _ (List.getElem?_eq_getElem hil)
    rw [hi] at e1
    obtain rfl := Option.some.inj e1
    obtain ⟨info, hinfo⟩ := serialiseOpCode_lookup _ _ e2
    obtain ⟨rc, _, _, _, r1, _⟩ := opcode_roundtrip _ _ info hinfo e2
    exact ⟨rc, r1⟩
  obtain ⟨rcs, hrcs⟩ := mapM_of_pointwise _ _ hp
  exact ⟨rcs, hrcs, (mapM_ok _ _ _ hrcs).2⟩


/-! ## one subgraph -/

theorem ioIndices_idxList (base : Nat) (all : List Nat) (l : List Nat) :
    Reader.ioIndices base all.length (some (idxList all l)) = .ok ((l.filterMap (indexIn all ·)).map (base + ·)) := by
  unfold Reader.ioIndices idxList
  simp only
  rw [← List.map_filterMap]
  apply mapM_map_ok
  intro i hi
  obtain ⟨g, _, hg⟩ := List.mem_filterMap.mp hi
  have hil := indexIn_lt all g i hg
  have : Reader.pyIndex (List.range all.length) (Int.ofNat i) = some i := by
    unfold Reader.pyIndex
    simp [hil]
  simp only [this]
  rfl

theorem readSubgraph_norm (d : Desc) (m : ModelT) (codes : List Code) (rcs : List Reader.RCode) (ps : PSub) (f : SubGraphT)
    (hf : SgFacts d m codes ps f)
    (hrcs : ∀ (i : Nat) oc, m.opcodes[i]? = some oc → ∃ rc, rcs[i]? = some rc ∧ Reader.parseOpCode oc = .ok rc)
    (ts : List TensorD) :
    Reader.readSubgraph rcs (m.buffers.map Reader.parseBuffer) ts f = subN d.tensors ts ps := by
  obtain ⟨outs2, operators, l1, l2, l3, l4, l5, l6, l7⟩ := hf.loc
  obtain ⟨ol, of⟩ := mapM_ok _ _ _ l2
  have hF : List.Forall₂ (OpFacts m rcs (sgAll d.tensors ps)) ((sgOps ps).filter (!·.ignored)) f.operators := by
    rw [l3]
    apply forall₂_of_getElem?
    · exact ol.symm
    · intro j p o hp ho
      obtain ⟨o', ho', hser⟩ := of j p hp
      rw [ho] at ho'
      obtain rfl := Option.some.inj ho'
      obtain ⟨hps, hig⟩ := List.mem_filter.mp (List.mem_of_getElem? hp)
      obtain ⟨p', hp', e1, e2, _⟩ := clearVirtual_mem _ _ p hps
      obtain ⟨t1, t2⟩ := hf.info p' hp'
      have hig' : p.ignored = false := by simpa using hig
      exact opFacts_of m codes rcs _ p o hser (by rw [e1]; exact t1) (by rw [e1]; exact t2 (by rw [← e2]; exact hig')) hf.codes hrcs
  unfold Reader.readSubgraph subN
  rw [tensors_norm d m codes ps f hf, hf.tlen, l4, l5, l6, l1, ioIndices_idxList, ioIndices_idxList]
  simp only [Option.getD_some]
  cases (sgTds d.tensors ps).mapM normTensor with
  | error e => rfl
  | ok own =>
    simp only [bind, Except.bind]
    rw [parseOperators_norm m rcs ts.length (sgAll d.tensors ps) _ _ hF 0 (ts ++ own)]

theorem readSubgraphs_norm (d : Desc) (m : ModelT) (codes : List Code) (rcs : List Reader.RCode)
    (hrcs : ∀ (i : Nat) oc, m.opcodes[i]? = some oc → ∃ rc, rcs[i]? = some rc ∧ Reader.parseOpCode oc = .ok rc) :
    ∀ (subs : List PSub) (sgs : List SubGraphT), List.Forall₂ (SgFacts d m codes) subs sgs → ∀ ts : List TensorD,
    Reader.readSubgraphs rcs (m.buffers.map Reader.parseBuffer) sgs ts = subsN d.tensors subs ts
  | [], [], _, _ => rfl
  | ps :: subs, f :: sgs, h, ts => by
    cases h with
    | cons h1 h2 =>
      unfold Reader.readSubgraphs subsN
      rw [readSubgraph_norm d m codes rcs ps f h1 hrcs ts]
      cases subN d.tensors ts ps with
      | error e => rfl
      | ok r =>
        simp only [bind, Except.bind]
        rw [readSubgraphs_norm d m codes rcs hrcs subs sgs h2 r.2]


/-! ## metadata, the whole file -/

theorem mapM_pure {α β : Type} (h : α → β) : ∀ (l : List α), l.mapM (fun a => (Except.ok (h a) : Except String β)) = .ok (l.map h)
  | [] => rfl
  | a :: l => by rw [List.mapM_cons, mapM_pure h l]; rfl

theorem readMetadata_norm (d : Desc) (opcodes : List OpCodeT) (sgs : List SubGraphT) (st : St) (metas : List MetaW) :
    Reader.readMetadata ((assemble d opcodes sgs st metas).buffers.map Reader.parseBuffer) (assemble d opcodes sgs st metas).metadata =
      .ok (metas.map fun mw => { nameIsBytes := true, name := mw.name, data := Reader.parseBuffer { data := mw.data } }) := by
  unfold Reader.readMetadata
  refine Eq.trans (congrArg (· >>= fun r => pure (r.filterMap id)) (mapM_congr_idx _
    (fun mw : MetaW => (Except.ok (some { nameIsBytes := true, name := mw.name, data := Reader.parseBuffer { data := mw.data } }) :
        Except String (Option MetaD))) _ metas ?_ ?_)) ?_
  · simp [assemble]
  · intro i f mw hf hmw
    obtain ⟨mw', e1, e2, e3⟩ := assemble_metadata_get d opcodes sgs st metas i f hf
    rw [hmw] at e1
    obtain rfl := Option.some.inj e1
    simp only [e2, List.getElem?_map, e3, Option.map_some]
    rfl
  · rw [mapM_pure]
    simp only [bind, Except.bind, pure, Except.pure, List.filterMap_map]
    congr 1
    induction metas with
    | nil => rfl
    | cons a l ih => simp

/-- **the assembled round trip**: reading the file the writer produced is `normalise` (as `Except` values: the reader fails on
the written file exactly where `normalise` fails, with the same error kind) -/
theorem read_writeWith (d : Desc) (subs : List PSub) (hs : (subgraphsToWrite d).mapM (prepSub d.tensors) = .ok subs)
    (enum : List Code) (m : ModelT) (h : writeWith d enum = .ok m) :
    Reader.read d.version m = normalise d := by
  obtain ⟨subs', h1, hl, hfacts⟩ := write_sgFacts d enum m h
  rw [hs] at h1
  obtain rfl := Except.ok.inj h1
  obtain ⟨subs2, opcodes, st, metas, h1', _, _, h4, hm, acc, _⟩ := write_facts d enum m h
  rw [hs] at h1'
  obtain rfl := Except.ok.inj h1'
  obtain ⟨rcs, hr1, hr2⟩ := write_rcodes d enum m h
  have hF : List.Forall₂ (SgFacts d m (sortCodes enum)) subs m.subgraphs :=
    forall₂_of_getElem? _ _ _ hl.symm (fun i ps sg hp hsg => hfacts i ps sg hp hsg)
  have hsub := readSubgraphs_norm d m (sortCodes enum) rcs hr2 subs m.subgraphs hF []
  have hmeta : Reader.readMetadata (m.buffers.map Reader.parseBuffer) m.metadata =
      .ok (metas.map fun mw => { nameIsBytes := true, name := mw.name, data := Reader.parseBuffer { data := mw.data } }) := by
    rw [hm]; exact readMetadata_norm d opcodes m.subgraphs st metas
  rw [acc.maps_eq] at h4
  unfold Reader.read normalise
  simp only [hr1, hsub, hmeta, hs, h4, bind, Except.bind, pure, Except.pure]

end VelaVerif.Tflite.Spec
