import VelaVerif.Lemmas.PassPackingWalk
import VelaVerif.Spec.PassPacking
/-!
# Lemmas for the shape of a pass (`Props/C01Packing.pass_shape`)

* bit-mask lemmas and the consequences of the `Trace` invariant: the flags hold what the accepted rows set, an accepted row
  never meets the incompatible flags of a row accepted later (`trace_no_block`);
* facts about the regenerated `test_sequence` (`cur_*`, by `decide`);
* `can_pack` implies the Spec's `SafeFuse` (`canPack_safeFuse`);
* what a successful `finishPass` / `buildPass` says.
-/
namespace VelaVerif.Lemmas.PassPackingWalk
open VelaVerif.PassPacking VelaVerif.Gen.PassPacking VelaVerif.PassPackingSpec

section
variable (R : Rules) (G : Graph)

/-! ## bit masks -/

/-- `s` is a subset of `f` -/
def Sub (s f : Nat) : Prop := s &&& f = s

theorem sub_or_right (s f : Nat) : Sub s (f ||| s) := by
  unfold Sub; apply Nat.eq_of_testBit_eq; intro i
  simp only [Nat.testBit_and, Nat.testBit_or]; cases Nat.testBit s i <;> cases Nat.testBit f i <;> rfl

theorem sub_or_left {s f : Nat} (g : Nat) (h : Sub s f) : Sub s (f ||| g) := by
  unfold Sub at *; apply Nat.eq_of_testBit_eq; intro i
  have := congrArg (fun x => Nat.testBit x i) h
  simp only [Nat.testBit_and, Nat.testBit_or] at *
  cases hs : Nat.testBit s i <;> cases hf : Nat.testBit f i <;> cases Nat.testBit g i <;> simp_all

theorem sub_disjoint {s f inc : Nat} (h : Sub s f) (hd : f &&& inc = 0) : s &&& inc = 0 := by
  unfold Sub at h; apply Nat.eq_of_testBit_eq; intro i
  have h1 := congrArg (fun x => Nat.testBit x i) h
  have h2 := congrArg (fun x => Nat.testBit x i) hd
  simp only [Nat.testBit_and, Nat.zero_testBit] at *
  cases hs : Nat.testBit s i <;> cases hf : Nat.testBit f i <;> cases hi : Nat.testBit inc i <;> simp_all

theorem clearBits_zero (f : Nat) : clearBits f 0 = f := by simp [clearBits]

theorem rowAccepts_disjoint {r : Row} {ty : Nat} {npu : Bool} {f : Nat} (h : rowAccepts r ty npu f = true) :
    f &&& r.incompat = 0 := by
  unfold rowAccepts at h
  simp only [Bool.and_eq_true, beq_iff_eq] at h
  exact h.1.2

/-- no row of the rule set clears a flag -/
def NoClear : Prop := ∀ r ∈ R.rows, r.toClear = 0

/-- the flags hold everything the accepted rows set -/
theorem trace_sub (hc : NoClear R) {l : List Acc} {f : Nat} (h : Trace R G l f) :
    ∀ a ∈ l, ∀ r, R.rows[a.row]? = some r → Sub r.toSet f := by
  induction h with
  | nil => simp
  | cons a rest f r ht hr hacc ih =>
    have hcl : r.toClear = 0 := hc r (List.mem_of_getElem? hr)
    intro a' ha' r' hr'
    simp only [flagStep, hcl, clearBits_zero]
    rcases List.mem_cons.mp ha' with rfl | ha'
    · have : r' = r := by rw [hr] at hr'; exact (Option.some.inj hr').symm
      subst this; exact sub_or_right _ _
    · exact sub_or_left _ (ih a' ha' r' hr')

/-- **an accepted row never meets the incompatible flags of a row accepted later** -/
theorem trace_no_block (hc : NoClear R) {a : Acc} {rest : List Acc} {f : Nat} (h : Trace R G (a :: rest) f) :
    ∀ b ∈ rest, ∀ r rb, R.rows[a.row]? = some r → R.rows[b.row]? = some rb → rb.toSet &&& r.incompat = 0 := by
  cases h with
  | cons _ _ f0 r0 ht hr hacc =>
    intro b hb r rb hr' hrb
    have : r = r0 := by rw [hr] at hr'; exact (Option.some.inj hr').symm
    subst this
    exact sub_disjoint (trace_sub R G hc ht b hb rb hrb) (rowAccepts_disjoint hacc)

theorem trace_tail {a : Acc} {rest : List Acc} {f : Nat} (h : Trace R G (a :: rest) f) : ∃ f0, Trace R G rest f0 := by
  cases h with
  | cons _ _ f0 r0 ht hr hacc => exact ⟨f0, ht⟩

theorem trace_row {l : List Acc} {f : Nat} (h : Trace R G l f) : ∀ a ∈ l, ∃ r, R.rows[a.row]? = some r ∧
    (match r.set with | none => True | some s => (G.op a.op).type ∈ s) ∧ (hasFlag r.toSet flagNpu = true → (G.op a.op).runOnNpu = true) := by
  induction h with
  | nil => simp
  | cons a rest f r ht hr hacc ih =>
    intro a' ha'
    rcases List.mem_cons.mp ha' with rfl | ha'
    · refine ⟨r, hr, ?_, ?_⟩
      · unfold rowAccepts at hacc
        simp only [Bool.and_eq_true] at hacc
        have := hacc.1.1
        split at this <;> simp_all
      · unfold rowAccepts at hacc
        simp only [Bool.and_eq_true, Bool.not_eq_true', Bool.and_eq_false_imp] at hacc
        intro hn
        have := hacc.2 hn
        simpa using this
    · exact ih a' ha'

/-- the flags are the union of what the accepted rows set: a flag that is there was set by one of them -/
theorem trace_flag_source (hc : NoClear R) {l : List Acc} {f : Nat} (h : Trace R G l f) (b : Nat) (hb : f &&& b ≠ 0) :
    ∃ a ∈ l, ∃ r, R.rows[a.row]? = some r ∧ r.toSet &&& b ≠ 0 := by
  induction h with
  | nil => simp at hb
  | cons a rest f r ht hr hacc ih =>
    have hcl : r.toClear = 0 := hc r (List.mem_of_getElem? hr)
    simp only [flagStep, hcl, clearBits_zero] at hb
    by_cases h1 : r.toSet &&& b = 0
    · have : f &&& b ≠ 0 := by
        intro h0; apply hb
        rw [Nat.and_or_distrib_right, h0, h1]; rfl
      obtain ⟨a', ha', r', hr', hne⟩ := ih this
      exact ⟨a', List.mem_cons_of_mem _ ha', r', hr', hne⟩
    · exact ⟨a, List.mem_cons_self, r, hr, h1⟩

end

/-! ## facts about the current table -/

def isNpuRow (r : Row) : Bool := hasFlag r.toSet flagNpu
def setsMain (r : Row) : Bool := hasFlag r.toSet flagMain

theorem cur_noClear : ∀ r ∈ rows, r.toClear = 0 := by decide

/-- an NPU row and a non-NPU row exclude each other, in either order -/
theorem cur_npu_excl : ∀ r ∈ rows, ∀ r' ∈ rows, isNpuRow r = true → isNpuRow r' = false →
    r.toSet &&& r'.incompat ≠ 0 ∧ r'.toSet &&& r.incompat ≠ 0 := by decide

/-- after an NPU row that sets Main no NPU row is accepted -/
theorem cur_main_last : ∀ r ∈ rows, ∀ r' ∈ rows, isNpuRow r = true → setsMain r = true → isNpuRow r' = true →
    r.toSet &&& r'.incompat ≠ 0 := by decide

/-- NPU rows: the set of a row that sets Main holds main operator types, the others activation-like types -/
theorem cur_row_types : ∀ r ∈ rows, isNpuRow r = true → ∀ s, r.set = some s →
    (setsMain r = true → ∀ t ∈ s, isPostType t = false) ∧ (setsMain r = false → ∀ t ∈ s, isPostType t = true) := by decide

theorem cur_npu_has_set : ∀ r ∈ rows, isNpuRow r = true → r.set.isSome = true := by decide

/-- the row of the limited post operations excludes itself; it is the only NPU row whose set holds limited types -/
theorem cur_limited : ∀ r ∈ rows, isNpuRow r = true → ∀ s, r.set = some s → (∃ t ∈ s, isLimitedType t = true) →
    r.toSet &&& r.incompat ≠ 0 ∧ r.set = some npuPostFuseLimitedOps := by decide

/-- the Memcpy row is refused after any NPU row -/
theorem cur_memcpy : ∀ r ∈ rows, isNpuRow r = true → ∀ s, r.set = some s → opMemcpy ∈ s →
    setsMain r = true ∧ ∀ r' ∈ rows, isNpuRow r' = true → r'.toSet &&& r.incompat ≠ 0 := by decide

/-- the CPU rows exclude every row before and after -/
theorem cur_cpu : ∀ r ∈ rows, hasFlag r.toSet flagCpu = true → ∀ r' ∈ rows,
    r.toSet &&& r'.incompat ≠ 0 ∧ r'.toSet &&& r.incompat ≠ 0 := by decide

/-- which rows set which placement -/
theorem cur_placement_rows : ∀ r ∈ rows,
    (hasFlag r.toSet flagMemoryOnly = true → r.set = some memoryOnlyOps) ∧
    (hasFlag r.toSet flagStartupInit = true → r.set = some startupInitOps) ∧
    (hasFlag r.toSet flagCpu = true → r.set = some cpuOps ∨ r.set = none) := by decide

/-- memory-only row against the others: everything but the start-up row before it excludes it and is excluded by it -/
theorem cur_memonly : ∀ r ∈ rows, hasFlag r.toSet flagMemoryOnly = true → ∀ r' ∈ rows,
    hasFlag r'.toSet flagMemoryOnly = false → hasFlag r'.toSet flagStartupInit = false →
    r.toSet &&& r'.incompat ≠ 0 ∧ r'.toSet &&& r.incompat ≠ 0 := by decide

theorem cur_startup : ∀ r ∈ rows, hasFlag r.toSet flagStartupInit = true → ∀ r' ∈ rows,
    hasFlag r'.toSet flagMemoryOnly = false → hasFlag r'.toSet flagStartupInit = false →
    r.toSet &&& r'.incompat ≠ 0 ∧ r'.toSet &&& r.incompat ≠ 0 := by decide

/-- every row sets exactly one placement flag -/
theorem cur_one_placement : ∀ r ∈ rows,
    ((isNpuRow r).toNat + (hasFlag r.toSet flagCpu).toNat + (hasFlag r.toSet flagMemoryOnly).toNat + (hasFlag r.toSet flagStartupInit).toNat = 1) := by
  decide

theorem cur_types_not_postlike :
    (∀ t ∈ memoryOnlyOps ++ startupInitOps ++ cpuOps, npuPostOps.contains t = false ∧ npuPostFuseLimitedOps.contains t = false) := by decide


theorem otherConsumer_false {cs : List (Option Nat)} {c : Nat} (h : otherConsumer cs c = false) : onlyConsumer cs c = true := by
  unfold otherConsumer at h
  unfold onlyConsumer
  split at h
  · simp
  · rename_i x; simp at h; simp [h]
  · simp at h

theorem activationOps_eq_reluOps : activationOps = reluOps := by decide

theorem shape_read_ifm {t : Nat} {c n : POp} (h4 : cpShape t c n = some true) (h5 : cpReadOk Rules.current t c = true) :
    (!(some t == c.ifm) || (!c.ro0 && (c.ifmShapes.length == 0 || n.ofmShapes.length == 0 || n.ofmShapes[0]? == c.ifmShapes[0]?))) = true := by
  unfold cpShape at h4
  unfold cpReadOk at h5
  simp only [Rules.current, Bool.true_and] at h5
  cases hA : (some t == c.ifm) with
  | false => simp
  | true =>
    simp only [hA, Bool.true_and, Bool.not_true, Bool.false_or] at h4 h5 ⊢
    cases hB : c.ro0 with
    | true => simp [hB] at h5
    | false =>
      simp only [Bool.not_false, Bool.true_and]
      cases hL1 : (c.ifmShapes.length == 0) with
      | true => simp
      | false =>
        cases hL2 : (n.ofmShapes.length == 0) with
        | true => simp
        | false =>
          have e1 : (c.ifmShapes.length != 0) = true := by simp [bne, hL1]
          have e2 : (n.ofmShapes.length != 0) = true := by simp [bne, hL2]
          simp only [e1, e2, Bool.and_self, if_true] at h4
          cases hE : (n.ofmShapes[0]? == c.ifmShapes[0]?) with
          | true => simp
          | false => simp [bne, hE] at h4

theorem shape_read_ifm2 {t : Nat} {c n : POp} (h4 : cpShape t c n = some true) (h5 : cpReadOk Rules.current t c = true) :
    (!(c.ifm2.isSome && some t == c.ifm2) || (!c.ro1 &&
      (some t == c.ifm || c.ifmShapes.length == 0 || n.ofmShapes.length == 0 || n.ofmShapes[0]? == c.ifmShapes[1]?))) = true := by
  unfold cpShape at h4
  unfold cpReadOk at h5
  simp only [Rules.current, Bool.true_and] at h5
  cases hA2 : (c.ifm2.isSome && some t == c.ifm2) with
  | false => simp
  | true =>
    simp only [hA2, Bool.true_and, Bool.not_true, Bool.false_or] at h4 h5 ⊢
    cases hB : c.ro1 with
    | true => simp [hB] at h5
    | false =>
      simp only [Bool.not_false, Bool.true_and]
      cases hA : (some t == c.ifm) with
      | true => simp
      | false =>
        cases hL1 : (c.ifmShapes.length == 0) with
        | true => simp
        | false =>
          cases hL2 : (n.ofmShapes.length == 0) with
          | true => simp
          | false =>
            have e1 : (c.ifmShapes.length != 0) = true := by simp [bne, hL1]
            have e2 : (n.ofmShapes.length != 0) = true := by simp [bne, hL2]
            simp only [e1, e2, Bool.and_self, if_true, hA, Bool.false_and] at h4
            cases hs : c.ifmShapes[1]? with
            | none => simp [hs] at h4
            | some s1 => simp only [hs] at h4; simpa using h4

/-- **`can_pack` implies the Spec's fusing condition** -/
theorem canPack_safeFuse (G : Graph) {t o c : Nat} (h : canPack Rules.current G t c = some true) (ho : (G.tensor t).ops = [o])
    (hin : some t ∈ (G.op c).inputs) : safeFuseB G t o c = true := by
  obtain ⟨nx, hnx, h1, h2, h3, h4, h5⟩ := (canPack_true_iff _ _ _ _).mp h
  have : nx = o := by rw [ho] at hnx; simpa using hnx.symm
  subst this
  unfold safeFuseB
  simp only [ho, beq_self_eq_true, Bool.true_and, Bool.and_eq_true]
  refine ⟨⟨⟨⟨⟨List.contains_iff_mem.mpr hin, ?_⟩, ?_⟩, ?_⟩, shape_read_ifm h4 h5⟩, shape_read_ifm2 h4 h5⟩
  · rw [List.all_eq_true]; intro u hu
    apply otherConsumer_false
    cases hx : otherConsumer (G.tensor u).consumers c with
    | false => rfl
    | true =>
      unfold cpConsumersOk at h3
      have : (G.op nx).outputs.any (fun o => otherConsumer (G.tensor o).consumers c) = true := List.any_eq_true.mpr ⟨u, hu, hx⟩
      simp [this] at h3
  · unfold cpTransposeOk at h2
    simpa [Rules.current, bne] using h2
  · unfold cpActOk at h1
    rw [Bool.and_eq_true] at h1
    replace h1 := h1.1
    simp only [Rules.current, Bool.true_and, activationOps_eq_reluOps] at h1
    cases hr : reluOps.contains (G.op c).type with
    | false => simp
    | true =>
      simp only [hr, Bool.true_and] at h1
      unfold isReluAct
      cases ha : (G.op nx).act with
      | none => simp
      | some a => simp only [ha] at h1; simpa using h1


section
variable (R : Rules) (G : Graph)

/-! ## what a successful `finishPass` / `buildPass` says -/

theorem finishPass_ok {w : Walk} {ofm : Option Nat} {ofs : Option Shape} {p : Pass} (h : finishPass G w ofm ofs = .ok p) :
    finishErr G w ofm = none ∧ p = finishPure G w ofm ofs := by
  unfold finishPass at h
  split at h
  · simp at h
  · rename_i he; simp at h; exact ⟨he, h.symm⟩

theorem finishErr_none {w : Walk} {ofm : Option Nat} (h : finishErr G w ofm = none) :
    w.err = none ∧ (∃ pl, placementOf (finFlags w) = .ok pl ∧ (pl = .npu → ofm.isSome = true)) ∧ w.ops ≠ [] ∧
    (needCreate G w = true → ∃ t, createdInp G w = some t) := by
  unfold finishErr at h
  split at h
  · simp at h
  · rename_i he
    split at h
    · simp at h
    · rename_i pl hpl
      split at h
      · simp at h
      · rename_i hne
        split at h
        · simp at h
        · rename_i h1
          split at h
          · simp at h
          · rename_i h2
            split at h
            · simp at h
            · split at h
              · simp at h
              · rename_i h3
                refine ⟨he, ⟨pl, hpl, ?_⟩, ?_, ?_⟩
                · intro hnpu; subst hnpu
                  cases hofm : ofm.isSome
                  · simp [Option.isSome_eq_false_iff] at hofm; simp [hofm] at h3
                  · rfl
                · intro hc; simp [hc] at hne
                · intro hc
                  cases hci : createdInp G w with
                  | none => simp [hc, hci] at h2
                  | some t => exact ⟨t, rfl⟩

theorem buildPass_ok {s : Nat} {p : Pass} (h : buildPass R G s = .ok p) :
    ∃ ofm ofs, finishPass G (walkRun R G (walkFuel G 1) (walkStart [s])) (some ofm) ofs = .ok p ∧
      (G.op s).outputs.head? = some ofm := by
  unfold buildPass at h
  simp only [] at h
  split at h
  · simp at h
  · rename_i ofm hofm
    split at h
    · simp at h
    · exact ⟨ofm, _, h, hofm⟩

end

section
variable (R : Rules) (G : Graph)

theorem scanInputs_err (cur : Nat) (l : List (Option Nat)) (w : Walk) (h : (scanInputs R G cur l w).err = none) : w.err = none := by
  induction l generalizing w with
  | nil => simpa [scanInputs] using h
  | cons i rest ih =>
    cases i with
    | none => exact ih w (by simpa [scanInputs] using h)
    | some inp =>
      simp only [scanInputs] at h
      split at h
      · simp at h
      · have := ih _ h; simpa using this
      · have := ih _ h; simpa using this

theorem setIfm_err (w : Walk) (o : POp) (r : Row) (h : (setIfm G w o r).err = none) : w.err = none := by
  unfold setIfm at h
  split at h
  · split at h
    · simp at h
    · split at h
      · simp at h
      · split at h
        · simp at h
        · exact h
  · exact h

/-- what `acceptOp` does to `acc`, `flags`, `primary` and `err` -/
theorem acceptOp_cases (w : Walk) (q : QItem) (ri : Nat) (r : Row) :
    ((acceptOp R G w q ri r).acc = w.acc ∧ (acceptOp R G w q ri r).flags = w.flags ∧ (acceptOp R G w q ri r).primary = w.primary ∧
      (acceptOp R G w q ri r).err.isSome = true) ∨
    ((acceptOp R G w q ri r).acc = newAcc q ri :: w.acc ∧ (acceptOp R G w q ri r).flags = flagStep w.flags r ∧
      (acceptOp R G w q ri r).primary = (if blockTypeOf (G.op q.op).type != 0 then some q.op else w.primary) ∧
      ((acceptOp R G w q ri r).err = none → w.err = none ∧ ¬ (r.set.isNone = true ∧ (G.op q.op).runOnNpu = true))) := by
  unfold acceptOp
  simp only []
  have hf := setIfm_frame G (acceptCore G w q ri r) (G.op q.op) r
  have he := setIfm_err G (acceptCore G w q ri r) (G.op q.op) r
  split
  · left; simp
  · right
    split
    · rename_i hsome
      refine ⟨hf.1, hf.2.1, hf.2.2.2.1, ?_⟩
      intro hn; rw [hn] at hsome; simp at hsome
    · split
      · simp only [fail_acc, fail_flags, fail_primary, fail_err]
        exact ⟨hf.1, hf.2.1, hf.2.2.2.1, by simp⟩
      · rename_i hfb
        have hs := scanInputs_frame R G q.op (G.op q.op).inputs.reverse (setIfm G (acceptCore G w q ri r) (G.op q.op) r)
        refine ⟨hs.1.trans hf.1, hs.2.1.trans hf.2.1, hs.2.2.2.1.trans hf.2.2.2.1, ?_⟩
        intro hn
        have h1 := scanInputs_err R G _ _ _ hn
        have h2 := he h1
        refine ⟨h2, ?_⟩
        simpa using hfb

/-- `err` is never reset -/
theorem walkStep_err (w : Walk) (h : (walkStep R G w).err = none) : w.err = none := by
  unfold walkStep at h
  split at h
  · exact h
  · simp only [] at h
    split at h
    · exact h
    · split at h
      · rename_i ri r _
        rcases acceptOp_cases R G { w with queue := _ } _ ri r with ⟨_, _, _, he⟩ | ⟨_, _, _, he⟩
        · rw [h] at he; simp at he
        · exact (he h).1
      · split at h
        · simp at h
        · exact h

structure WInv2 (w : Walk) : Prop where
  prim : w.primary = none → ∀ a ∈ w.acc, blockTypeOf (G.op a.op).type = 0
  fallback : w.err = none → ∀ a ∈ w.acc, ∀ r, R.rows[a.row]? = some r → r.set = none → (G.op a.op).runOnNpu = false
  primSome : ∀ o, w.primary = some o → o ∈ w.ops ∧ blockTypeOf (G.op o).type ≠ 0

theorem walkStep_inv2 (w : Walk) (h : WInv2 R G w) : WInv2 R G (walkStep R G w) := by
  have herr := walkStep_err R G w
  revert herr
  unfold walkStep
  split
  · intro _; exact h
  · rename_i q rest hqr
    simp only []
    split
    · intro _; exact ⟨h.prim, h.fallback, h.primSome⟩
    · split
      · rename_i ri r hfr
        have hrow := findRow_spec R _ _ _ _ _ hfr
        intro herr
        rcases acceptOp_cases R G { w with queue := rest } q ri r with ⟨ha, _, hp, he⟩ | ⟨ha, _, hp, he⟩
        · refine ⟨?_, ?_, ?_⟩
          · rw [ha, hp]; exact h.prim
          · intro hn; rw [hn] at he; simp at he
          · intro o ho; rw [hp] at ho
            have := h.primSome o ho
            simpa [Walk.ops, ha] using this
        · refine ⟨?_, ?_, ?_⟩
          · rw [ha, hp]
            intro hnone a ha'
            split at hnone
            · simp at hnone
            · rename_i hbt
              rcases List.mem_cons.mp ha' with rfl | ha''
              · simpa [newAcc] using hbt
              · exact h.prim hnone a ha''
          · intro hn a ha' r' hr' hset
            rw [ha] at ha'
            rcases List.mem_cons.mp ha' with rfl | ha''
            · have hr2 : r' = r := by
                have := hrow.1; simp only [newAcc] at hr'; rw [this] at hr'; exact (Option.some.inj hr').symm
              subst hr2
              have := (he hn).2
              cases hnpu : (G.op q.op).runOnNpu with
              | false => simp [newAcc, hnpu]
              | true => exact absurd ⟨by simp [hset], hnpu⟩ this
            · exact h.fallback (herr hn) a ha'' r' hr' hset
          · intro o ho
            rw [hp] at ho
            simp only [Walk.ops, ha, List.map_cons, List.mem_cons]
            split at ho
            · rename_i hbt
              have : o = q.op := (Option.some.inj ho).symm
              subst this
              exact ⟨Or.inl rfl, by simpa using hbt⟩
            · have := h.primSome o ho
              exact ⟨Or.inr this.1, this.2⟩
      · split
        · intro _; exact ⟨h.prim, by simp, h.primSome⟩
        · intro _; exact ⟨h.prim, h.fallback, h.primSome⟩

theorem walkRun_err (n : Nat) (w : Walk) (h : (walkRun R G n w).err = none) : w.err = none := by
  induction n generalizing w with
  | zero =>
    simp only [walkRun] at h; split at h
    · exact h
    · simp at h
  | succ n ih =>
    simp only [walkRun] at h; split at h
    · exact h
    · exact walkStep_err R G w (ih _ h)

theorem walkRun_inv2 (n : Nat) (w : Walk) (h : WInv2 R G w) : WInv2 R G (walkRun R G n w) := by
  induction n generalizing w with
  | zero =>
    simp only [walkRun]; split
    · exact h
    · exact ⟨h.prim, by simp, h.primSome⟩
  | succ n ih =>
    simp only [walkRun]; split
    · exact h
    · exact ih _ (walkStep_inv2 R G w h)

theorem walkStart_inv2 (start : List Nat) : WInv2 R G (walkStart start) :=
  ⟨by simp [walkStart], by simp [walkStart], by simp [walkStart]⟩

/-- the walk ends with an empty queue -/
theorem walkRun_queue (n : Nat) (w : Walk) : (walkRun R G n w).queue = [] := by
  induction n generalizing w with
  | zero =>
    simp only [walkRun]; split
    · rename_i h; simpa using h
    · simp
  | succ n ih =>
    simp only [walkRun]; split
    · rename_i h; simpa using h
    · exact ih _

end

section
variable (R : Rules) (G : Graph)

/-- the relation `trace_no_block` gives between an entry and a later (older) one -/
def NoBlock (x y : Acc) : Prop :=
  ∀ rx ry, R.rows[x.row]? = some rx → R.rows[y.row]? = some ry → ry.toSet &&& rx.incompat = 0

theorem trace_pairwise (hc : NoClear R) {l : List Acc} {f : Nat} (h : Trace R G l f) : l.Pairwise (NoBlock R) := by
  induction l generalizing f with
  | nil => exact List.Pairwise.nil
  | cons a rest ih =>
    obtain ⟨f0, ht⟩ := trace_tail R G h
    refine List.Pairwise.cons ?_ (ih ht)
    intro b hb rx ry hrx hry
    exact trace_no_block R G hc h b hb rx ry hrx hry

theorem pairwise_either {α : Type} {S : α → α → Prop} {l : List α} (h : l.Pairwise S) :
    ∀ a ∈ l, ∀ b ∈ l, a ≠ b → S a b ∨ S b a := by
  induction l with
  | nil => simp
  | cons x rest ih =>
    obtain ⟨hx, hrest⟩ := List.pairwise_cons.mp h
    intro a ha b hb hne
    rcases List.mem_cons.mp ha with hax | har <;> rcases List.mem_cons.mp hb with hbx | hbr
    · exact absurd (hax.trans hbx.symm) hne
    · exact Or.inl (hax ▸ hx b hbr)
    · exact Or.inr (hbx ▸ hx a har)
    · exact ih hrest a har b hbr hne

/-- in a pairwise list an entry that relates to nothing before it is the head -/
theorem pairwise_head {α : Type} {S : α → α → Prop} {l : List α} (h : l.Pairwise S) (a : α) (ha : a ∈ l)
    (hno : ∀ b ∈ l, b ≠ a → ¬ S b a) : l.head? = some a := by
  cases l with
  | nil => simp at ha
  | cons x rest =>
    obtain ⟨hx, _⟩ := List.pairwise_cons.mp h
    rcases List.mem_cons.mp ha with rfl | ha'
    · rfl
    · by_cases hxa : x = a
      · subst hxa; rfl
      · exact absurd (hx a ha') (hno x List.mem_cons_self hxa)

theorem nodup_all_eq_length {l : List Nat} (hn : l.Nodup) (x : Nat) (h : ∀ y ∈ l, y = x) : l.length ≤ 1 := by
  match l, hn with
  | [], _ => simp
  | [_], _ => simp
  | a :: b :: rest, hn =>
    have ha := h a (by simp)
    have hb := h b (by simp)
    rw [List.nodup_cons] at hn
    exact absurd (by simp [ha, hb]) hn.1

end

/-! ## placement -/

theorem placementOf_ok {f : Nat} {pl : Placement} (h : placementOf f = .ok pl) :
    hasFlag f flagNpu = (pl == .npu) ∧ hasFlag f flagCpu = (pl == .cpu) ∧ hasFlag f flagMemoryOnly = (pl == .memoryOnly) ∧
    hasFlag f flagStartupInit = (pl == .startupInit) := by
  unfold placementOf at h
  cases h1 : hasFlag f flagNpu <;> cases h2 : hasFlag f flagCpu <;> cases h3 : hasFlag f flagMemoryOnly <;>
    cases h4 : hasFlag f flagStartupInit <;> simp [h1, h2, h3, h4] at h <;> subst h <;> decide

theorem hasFlag_or_elementwise (f b : Nat) (hb : flagElementWise &&& b = 0) : hasFlag (f ||| flagElementWise) b = hasFlag f b := by
  unfold hasFlag
  rw [Nat.and_or_distrib_right, hb, Nat.or_zero]

theorem finFlags_placement (w : Walk) (b : Nat) (hb : flagElementWise &&& b = 0) : hasFlag (finFlags w) b = hasFlag w.flags b := by
  unfold finFlags
  split
  · exact hasFlag_or_elementwise _ _ hb
  · rfl


end VelaVerif.Lemmas.PassPackingWalk
