import VelaVerif.Spec.StridedSliceRef
/-! Helper lemmas about `Spec/StridedSliceRef.lean` (the walk over the slice specification). -/
namespace VelaVerif.StridedSliceRef


theorem filter_map_full (l : List Nat) :
    ((l.map Axis.full).filter (fun a => !a.isNew)).map (·.dim) = l := by
  induction l with
  | nil => rfl
  | cons x xs ih => simp [Axis.full, ih]

theorem map_ok {α β : Type} {f : α → β} {x : Except String α} {y : β} (h : f <$> x = .ok y) :
    ∃ a, x = .ok a ∧ y = f a := by
  cases x with
  | error e => cases h
  | ok a => exact ⟨a, rfl, by cases h; rfl⟩

/-- every input dimension is addressed by exactly one effective dimension, in order; the inserted ones (new-axis positions)
    consume none -/
theorem build_dims (s : Spec) (r fuel i pos : Nat) (dims : List Nat) (ell : Nat) (ax : List Axis)
    (h : build s r fuel i pos dims ell = .ok ax) :
    (ax.filter (fun a => !a.isNew)).map (·.dim) = dims := by
  fun_induction build s r fuel i pos dims ell generalizing ax <;> simp_all
  all_goals first
    | (obtain ⟨rest, hr, rfl⟩ := map_ok h
       rename_i ih
       simpa [Axis.inserted, Axis.full] using ih rest hr)
    | (cases h; simp)

theorem clamp_bounds (v lo hi : Int) (h : lo ≤ hi) : lo ≤ clamp v lo hi ∧ clamp v lo hi ≤ hi := by
  unfold clamp
  split
  · omega
  · split <;> omega

theorem zip_map_same {α β γ : Type} (f : α → β) (g : α → γ) : ∀ (l : List α), (l.map f).zip (l.map g) = l.map (fun a => (f a, g a))
  | [] => rfl
  | x :: xs => by simp [zip_map_same f g xs]

end VelaVerif.StridedSliceRef
