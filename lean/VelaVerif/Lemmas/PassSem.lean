import VelaVerif.Spec.PassSem
import VelaVerif.Lemmas.Rewrites
/-!
# Lemmas for `Props/C01Packing.packed_pass_semantics`

* on clamps the command generator's rule is `Model.Rewrites.passActivation`, sequential application is `clampSeq`;
* `shape_one_activation`: a pass list entry that satisfies the Spec's shape clause (c) and does not mix RELU-type with TANH /
  SIGMOID operators needs one activation function only (`oneAct`).
-/
namespace VelaVerif.Lemmas.PassSem
open VelaVerif.PassSem VelaVerif.Rewrites VelaVerif.RewriteSem VelaVerif.Lemmas.Rewrites VelaVerif.PassPacking VelaVerif.PassPackingSpec VelaVerif.Gen.PassPacking

/-- on clamps the generator's rule is `passActivation` -/
theorem hwActivation_clamps (fused : Option (ActRange Int)) (rs : List (ActRange Int)) :
    hwActivation (fused.map Act.clamp) (rs.map Act.clamp) = (passActivation fused rs).map Act.clamp := by
  induction rs generalizing fused with
  | nil => simp [hwActivation, passActivation]
  | cons r rest ih =>
    simp only [hwActivation, passActivation, List.map_cons, List.foldl_cons] at ih ⊢
    have : some (hwStep (Option.map Act.clamp fused) (Act.clamp r)) = Option.map Act.clamp (some (isectStep fused r)) := by
      cases fused with
      | none => simp [hwStep, isectStep]
      | some p => simp [hwStep]
    rw [this]
    exact ih (some (isectStep fused r))

theorem seqApply_clamps (F : Nat → Int → Int) (fused : Option (ActRange Int)) (rs : List (ActRange Int)) (x : Int) :
    seqApply F (fused.map Act.clamp) (rs.map Act.clamp) x = clampSeq rs (clampOpt fused x) := by
  unfold seqApply clampSeq
  have h0 : applyOpt F (fused.map Act.clamp) x = clampOpt fused x := by
    cases fused <;> simp [applyOpt, clampOpt, Act.apply]
  rw [h0]
  generalize clampOpt fused x = v
  induction rs generalizing v with
  | nil => rfl
  | cons r rest ih => simp only [List.map_cons, List.foldl_cons, Act.apply]; exact ih _

theorem clampOnly_ranges {fused : Option Act} {posts : List Act} (h : clampOnly fused posts = true) :
    ∃ (fr : Option (ActRange Int)) (rs : List (ActRange Int)), fused = fr.map Act.clamp ∧ posts = rs.map Act.clamp := by
  unfold clampOnly at h
  simp only [Bool.and_eq_true] at h
  obtain ⟨hf, hp⟩ := h
  have hposts : ∃ rs : List (ActRange Int), posts = rs.map Act.clamp := by
    clear hf
    induction posts with
    | nil => exact ⟨[], rfl⟩
    | cons a rest ih =>
      simp only [List.all_cons, Bool.and_eq_true] at hp
      obtain ⟨rs, hrs⟩ := ih hp.2
      cases a with
      | clamp r => exact ⟨r :: rs, by simp [hrs]⟩
      | fn k => simp [Act.isClamp] at hp
  obtain ⟨rs, hrs⟩ := hposts
  cases fused with
  | none => exact ⟨none, rs, rfl, hrs⟩
  | some a =>
    cases a with
    | clamp r => exact ⟨some r, rs, rfl, hrs⟩
    | fn k => simp [Act.isClamp, optIsClamp] at hf


/-- one activation is enough (`oneAct`) and the final range is non-empty: the single hardware activation equals the
    operators one after the other -/
theorem oneAct_sem (F : Nat → Int → Int) (fused : Option Act) (posts : List Act) (x : Int)
    (hc : oneAct fused posts = true) (hne : finalNonempty ((hwActivation fused posts).bind Act.range?)) :
    hwApply F fused posts x = seqApply F fused posts x := by
  unfold oneAct at hc
  simp only [Bool.or_eq_true, Bool.and_eq_true, beq_iff_eq] at hc
  rcases hc with (hc | hc) | hc
  · have : posts = [] := List.isEmpty_iff.mp hc
    subst this; rfl
  · obtain ⟨fr, rs, rfl, rfl⟩ := clampOnly_ranges hc
    rw [seqApply_clamps]
    unfold hwApply
    rw [hwActivation_clamps] at hne ⊢
    have hne' : finalNonempty (passActivation fr rs) := by
      cases hp : passActivation fr rs with
      | none => simp [finalNonempty]
      | some r => rw [hp] at hne; simpa [Act.range?] using hne
    rw [pass_activation_seq rs fr x hne']
    cases passActivation fr rs <;> simp [applyOpt, clampOpt, Act.apply]
  · obtain ⟨hf, hl⟩ := hc
    have hf' : fused = none := by cases fused <;> simp_all
    subst hf'
    match posts, hl with
    | [a], _ => cases a <;> rfl

theorem post_types_no_block : ∀ t ∈ reluOps ++ [opSigmoid, opTanh, opQuantize], blockTypeOf t = 0 := by decide

theorem isPostType_block {t : Nat} (h : isPostType t = true) : blockTypeOf t = 0 := by
  apply post_types_no_block
  unfold isPostType isLimitedType at h
  simp only [Bool.or_eq_true, beq_iff_eq, List.contains_iff_mem] at h
  simp only [List.mem_append, List.mem_cons, List.not_mem_nil, or_false]
  rcases h with h | (h | h) | h
  · exact Or.inl h
  · exact Or.inr (Or.inl h)
  · exact Or.inr (Or.inr (Or.inl h))
  · exact Or.inr (Or.inr (Or.inr h))

variable (G : Graph) (rng frng : Nat → ActRange Int)

theorem opAct_cases (o : Nat) :
    (reluOps.contains (G.op o).type = true ∧ opAct G rng o = some (.clamp (rng o))) ∨
    (reluOps.contains (G.op o).type = false ∧ ((G.op o).type = opTanh ∨ (G.op o).type = opSigmoid) ∧ opAct G rng o = some (.fn o)) ∨
    (reluOps.contains (G.op o).type = false ∧ (G.op o).type ≠ opTanh ∧ (G.op o).type ≠ opSigmoid ∧ opAct G rng o = none) := by
  unfold opAct
  cases h1 : reluOps.contains (G.op o).type with
  | true => left; simp
  | false =>
    right
    by_cases h2 : (G.op o).type = opTanh
    · left; simp [h2]
    · by_cases h3 : (G.op o).type = opSigmoid
      · left; simp [h3]
      · right; simp [h2, h3]


theorem filterMap_length_le {α β : Type} (f : α → Option β) (P : α → Bool) :
    ∀ l : List α, (∀ x ∈ l, (f x).isSome = true → P x = true) → (l.filterMap f).length ≤ (l.filter P).length
  | [], _ => by simp
  | x :: rest, h => by
    have ih := filterMap_length_le f P rest (fun y hy => h y (List.mem_cons_of_mem _ hy))
    cases hf : f x with
    | none =>
      simp only [List.filterMap_cons, hf]
      cases hp : P x <;> simp [List.filter_cons, hp] <;> omega
    | some y =>
      have hp : P x = true := h x List.mem_cons_self (by simp [hf])
      simp [List.filterMap_cons, hf, List.filter_cons, hp, ih]

variable (G : Graph) (rng frng : Nat → ActRange Int)

theorem fusedAct_clamp_of_relu (m : Nat) (h : isReluAct (G.op m).act = true) :
    optIsClamp (fusedAct G frng m) = true := by
  unfold fusedAct
  unfold isReluAct at h
  cases ha : (G.op m).act with
  | none => simp [optIsClamp]
  | some a =>
    rw [ha] at h
    have hm : a ∈ reluOps := List.contains_iff_mem.mp h
    simp [hm, Act.isClamp, optIsClamp]

/-- **a well-shaped NPU pass that does not mix RELU-type with TANH / SIGMOID operators needs one activation function only** -/
theorem shape_one_activation (sp : SPass) (prim : Option Nat)
    (hshape : passShapeB G sp = true) (hnpu : sp.placement = Placement.npu.code) (hone : oneActivationB G sp = true)
    (hnd : sp.ops.Nodup)
    (hprim : ∀ m, prim = some m → m ∈ sp.ops ∧ isMainType (G.op m).type = true) :
    oneAct (passActs G rng frng prim sp.ops).1 (passActs G rng frng prim sp.ops).2 = true := by
  unfold passShapeB at hshape
  simp only [hnpu, beq_self_eq_true, if_true, Bool.and_eq_true] at hshape
  obtain ⟨_, hint, hnpuS⟩ := hshape
  unfold npuShapeB at hnpuS
  simp only [Bool.and_eq_true, decide_eq_true_eq] at hnpuS
  obtain ⟨⟨⟨⟨⟨⟨⟨_, c2⟩, _⟩, _⟩, c5⟩, c5b⟩, _⟩, _⟩ := hnpuS
  unfold oneActivationB at hone
  have hpl : (sp.placement != Placement.npu.code) = false := by simp [hnpu]
  simp only [hpl, Bool.or_false, Bool.not_eq_true', Bool.and_eq_false_iff] at hone
  -- main operators are the head
  have hmainhead : ∀ o ∈ sp.ops, isMainType (G.op o).type = true → sp.ops.head? = some o := by
    intro o ho hm
    have := List.all_eq_true.mp c2 o (List.mem_filter.mpr ⟨ho, hm⟩)
    simpa using this
  -- a main operator excludes limited ones
  have hnolim : ∀ m ∈ sp.ops, isMainType (G.op m).type = true → ∀ o ∈ sp.ops, isLimitedType (G.op o).type = false := by
    intro m hm hmt o ho
    have hne : (sp.ops.filter fun o => isMainType (G.op o).type).isEmpty = false := by
      cases hx : (sp.ops.filter fun o => isMainType (G.op o).type).isEmpty with
      | false => rfl
      | true =>
        have := List.isEmpty_iff.mp hx
        have hmem : m ∈ sp.ops.filter fun o => isMainType (G.op o).type := List.mem_filter.mpr ⟨hm, hmt⟩
        rw [this] at hmem; simp at hmem
    rw [hne, Bool.false_or, List.isEmpty_iff, List.filter_eq_nil_iff] at c5b
    cases hl : isLimitedType (G.op o).type with
    | false => rfl
    | true => exact absurd hl (c5b o ho)
  unfold passActs oneAct
  simp only []
  by_cases hT : ∃ o ∈ sp.ops, (G.op o).type = opTanh ∨ (G.op o).type = opSigmoid
  · -- a TANH / SIGMOID operator: no RELU-type operator, hence exactly one activation, and no fused one
    obtain ⟨o0, ho0, hty0⟩ := hT
    have hanyT : (sp.ops.any fun o => (G.op o).type == opSigmoid || (G.op o).type == opTanh) = true := by
      rw [List.any_eq_true]; exact ⟨o0, ho0, by rcases hty0 with h | h <;> simp [h]⟩
    have hnoR : ∀ o ∈ sp.ops, reluOps.contains (G.op o).type = false := by
      rcases hone with h | h
      · intro o ho
        cases hr : reluOps.contains (G.op o).type with
        | false => rfl
        | true =>
          have : (sp.ops.any fun o => reluOps.contains (G.op o).type) = true := List.any_eq_true.mpr ⟨o, ho, hr⟩
          rw [this] at h; exact Bool.noConfusion h
      · rw [hanyT] at h; exact Bool.noConfusion h
    have hlim0 : isLimitedType (G.op o0).type = true := by
      unfold isLimitedType; rcases hty0 with h | h <;> simp [h]
    have hlen : (sp.ops.filterMap (opAct G rng)).length ≤ 1 := by
      refine Nat.le_trans (filterMap_length_le _ (fun o => isLimitedType (G.op o).type) sp.ops ?_) c5
      intro o ho hsome
      rcases opAct_cases G rng o with ⟨hr, _⟩ | ⟨_, hty, _⟩ | ⟨_, _, _, h⟩
      · rw [hnoR o ho] at hr; exact Bool.noConfusion hr
      · unfold isLimitedType; rcases hty with h | h <;> simp [h]
      · rw [h] at hsome; simp at hsome
    have hpos : (sp.ops.filterMap (opAct G rng)).length ≥ 1 := by
      have : opAct G rng o0 = some (.fn o0) := by
        rcases opAct_cases G rng o0 with ⟨hr, _⟩ | ⟨_, _, h⟩ | ⟨_, h1, h2, _⟩
        · rw [hnoR o0 ho0] at hr; exact Bool.noConfusion hr
        · exact h
        · rcases hty0 with h | h
          · exact absurd h h1
          · exact absurd h h2
      have hmem : Act.fn o0 ∈ sp.ops.filterMap (opAct G rng) := List.mem_filterMap.mpr ⟨o0, ho0, this⟩
      exact List.length_pos_of_mem hmem
    have hfused : primFused G frng prim = none := by
      cases hp : prim with
      | none => rfl
      | some m =>
        exfalso
        obtain ⟨hm, hmt⟩ := hprim m hp
        have := hnolim m hm hmt o0 ho0
        rw [hlim0] at this; exact Bool.noConfusion this
    rw [hfused]
    have : (sp.ops.filterMap (opAct G rng)).length = 1 := by omega
    simp [this]
  · -- RELU-type operators only: clamps; a fused activation in front of them is RELU-type
    have hclamps : (sp.ops.filterMap (opAct G rng)).all Act.isClamp = true := by
      rw [List.all_eq_true]
      intro a ha
      obtain ⟨o, ho, hoa⟩ := List.mem_filterMap.mp ha
      rcases opAct_cases G rng o with ⟨_, h⟩ | ⟨_, hty, _⟩ | ⟨_, _, _, h⟩
      · rw [h] at hoa; cases hoa; rfl
      · exact absurd ⟨o, ho, hty⟩ hT
      · rw [h] at hoa; cases hoa
    by_cases hempty : sp.ops.filterMap (opAct G rng) = []
    · simp [hempty]
    · have hfused : optIsClamp (primFused G frng prim) = true := by
        cases hp : prim with
        | none => rfl
        | some m =>
          simp only [primFused]
          apply fusedAct_clamp_of_relu
          obtain ⟨hm, hmt⟩ := hprim m hp
          -- a RELU-type operator r0 of the pass, different from m
          obtain ⟨a0, ha0⟩ := List.exists_mem_of_ne_nil _ hempty
          obtain ⟨r0, hr0, hr0a⟩ := List.mem_filterMap.mp ha0
          have hr0R : reluOps.contains (G.op r0).type = true := by
            rcases opAct_cases G rng r0 with ⟨h, _⟩ | ⟨_, hty, _⟩ | ⟨_, _, _, h⟩
            · exact h
            · exact absurd ⟨r0, hr0, hty⟩ hT
            · rw [h] at hr0a; cases hr0a
          have hr0ne : r0 ≠ m := by
            intro he; subst he
            simp [isMainType, isPostType, hr0R] at hmt
            exact hmt.1 (List.contains_iff_mem.mp hr0R)
          have hhead := hmainhead m hm hmt
          -- ops = m :: rest, rest non-empty
          obtain ⟨rest, hops⟩ : ∃ rest, sp.ops = m :: rest := by
            cases hl : sp.ops with
            | nil => rw [hl] at hm; simp at hm
            | cons x rest => rw [hl] at hhead; simp at hhead; exact ⟨rest, by rw [hhead]⟩
          have hr0rest : r0 ∈ rest := by
            rw [hops] at hr0
            rcases List.mem_cons.mp hr0 with h | h
            · exact absurd h hr0ne
            · exact h
          -- the fused edge out of m
          unfold internalB at hint
          rw [List.all_eq_true] at hint
          have h0 := hint 0 (by rw [hops]; simp; exact List.length_pos_of_mem hr0rest)
          simp only [hops, List.getD_cons_zero, Nat.zero_add, List.drop_succ_cons, List.drop_zero] at h0
          obtain ⟨c, hc, hc2⟩ := List.any_eq_true.mp h0
          obtain ⟨inp, _, hsf⟩ := List.any_eq_true.mp hc2
          cases inp with
          | none => simp at hsf
          | some t =>
            simp only [] at hsf
            have hcm : c ≠ m := by
              intro he; subst he
              rw [hops] at hnd
              exact (List.nodup_cons.mp hnd).1 hc
            have hcops : c ∈ sp.ops := by rw [hops]; exact List.mem_cons_of_mem _ hc
            have hcpost : isPostType (G.op c).type = true := by
              cases hx : isPostType (G.op c).type with
              | true => rfl
              | false =>
                exfalso
                have := hmainhead c hcops (by simp [isMainType, hx])
                rw [hhead] at this
                exact hcm (Option.some.inj this).symm
            have hclim := hnolim m hm hmt c hcops
            have hcR : reluOps.contains (G.op c).type = true := by
              unfold isPostType at hcpost
              rw [hclim, Bool.or_false] at hcpost; exact hcpost
            unfold safeFuseB at hsf
            simp only [Bool.and_eq_true] at hsf
            have := hsf.1.1.2
            rw [hcR] at this
            simpa using this
      unfold clampOnly
      rw [hfused, hclamps]
      simp

end VelaVerif.Lemmas.PassSem
