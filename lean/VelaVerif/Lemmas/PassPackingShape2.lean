import VelaVerif.Lemmas.PassPackingShape
/-!
# The shape of the pass `build_pass` makes (lemmas for `Props/C01Packing.pass_shape`)
-/
namespace VelaVerif.Lemmas.PassPackingWalk
open VelaVerif.PassPacking VelaVerif.Gen.PassPacking VelaVerif.PassPackingSpec

variable (G : Graph)

/-! ## fused edges -/

/-- with one start operator, every accepted operator but the oldest was reached over a fusable tensor from one accepted before -/
theorem accOk_internal {s : Nat} : ∀ (l : List Acc), AccOk Rules.current G [s] l → internalB G (l.map (·.op)) = true := by
  intro l
  induction l with
  | nil => intro _; simp [internalB]
  | cons a rest ih =>
    intro h
    obtain ⟨hrest, hnot, hvia⟩ := h
    have ihr := ih hrest
    unfold internalB at ihr ⊢
    rw [List.all_eq_true] at ihr ⊢
    intro i hi
    simp only [List.mem_range, List.length_cons, List.length_map, Nat.add_sub_cancel] at hi
    cases i with
    | zero =>
      -- the newest entry: not the oldest, hence reached over a tensor
      simp only [List.map_cons, List.getD_cons_zero, Nat.zero_add, List.drop_succ_cons, List.drop_zero]
      cases hv : a.via with
      | none =>
        -- a start operator: then the oldest entry (also the start operator) would repeat it
        rw [hv] at hvia
        have has : a.op = s := by simpa using hvia
        exfalso
        -- the oldest entry of `rest` has no `via` (nothing older to come from) so it is `s` too
        have : ∀ (l : List Acc), l ≠ [] → AccOk Rules.current G [s] l → s ∈ l.map (·.op) := by
          intro l
          induction l with
          | nil => intro h; exact absurd rfl h
          | cons b r ihl =>
            intro _ hb
            obtain ⟨hr, _, hbv⟩ := hb
            by_cases hr0 : r = []
            · subst hr0
              cases hbvia : b.via with
              | none => rw [hbvia] at hbv; simp at hbv; simp [hbv]
              | some tc => rw [hbvia] at hbv; simp at hbv
            · exact List.mem_cons_of_mem _ (ihl hr0 hr)
        have hne : rest ≠ [] := by intro h0; subst h0; simp at hi
        exact hnot (has ▸ this rest hne hrest)
      | some tc =>
        obtain ⟨t, c⟩ := tc
        rw [hv] at hvia
        obtain ⟨hc, hcp, hops, hin⟩ := hvia
        rw [List.any_eq_true]
        refine ⟨c, hc, ?_⟩
        rw [List.any_eq_true]
        exact ⟨some t, hin, canPack_safeFuse G hcp hops hin⟩
    | succ j =>
      have := ihr j (by simp only [List.mem_range, List.length_map]; omega)
      simpa using this

end VelaVerif.Lemmas.PassPackingWalk

namespace VelaVerif.Lemmas.PassPackingWalk
open VelaVerif.PassPacking VelaVerif.Gen.PassPacking VelaVerif.PassPackingSpec
variable (G : Graph)

theorem cur_rows : Rules.current.rows = rows := rfl
theorem cur_noClear' : NoClear Rules.current := fun r hr => cur_noClear r hr

/-- every accepted entry has its row, which is a row of the table -/
theorem trace_row_mem {l : List Acc} {f : Nat} (h : Trace Rules.current G l f) (a : Acc) (ha : a ∈ l) :
    ∃ r, rows[a.row]? = some r ∧ r ∈ rows ∧
      (match r.set with | none => True | some s => (G.op a.op).type ∈ s) ∧ (isNpuRow r = true → (G.op a.op).runOnNpu = true) := by
  obtain ⟨r, hr, h1, h2⟩ := trace_row Rules.current G h a ha
  exact ⟨r, hr, List.mem_of_getElem? hr, h1, h2⟩

/-- two different entries: one of them does not block the other -/
theorem trace_two {l : List Acc} {f : Nat} (h : Trace Rules.current G l f) (a b : Acc) (ha : a ∈ l) (hb : b ∈ l) (hne : a ≠ b)
    (ra rb : Row) (hra : rows[a.row]? = some ra) (hrb : rows[b.row]? = some rb) :
    rb.toSet &&& ra.incompat = 0 ∨ ra.toSet &&& rb.incompat = 0 := by
  rcases pairwise_either (trace_pairwise Rules.current G cur_noClear' h) a ha b hb hne with h1 | h1
  · exact Or.inl (h1 ra rb hra hrb)
  · exact Or.inr (h1 rb ra hrb hra)

/-- **NPU pass: every entry was accepted by an NPU row** -/
theorem npu_all_npu {l : List Acc} {f : Nat} (h : Trace Rules.current G l f) (hn : hasFlag f flagNpu = true) :
    ∀ a ∈ l, ∀ r, rows[a.row]? = some r → isNpuRow r = true := by
  have hne : f &&& flagNpu ≠ 0 := by simpa [hasFlag] using hn
  obtain ⟨a0, ha0, r0, hr0, hs0⟩ := trace_flag_source Rules.current G cur_noClear' h flagNpu hne
  have hr0n : isNpuRow r0 = true := by simpa [isNpuRow, hasFlag] using hs0
  have hr0m : r0 ∈ rows := List.mem_of_getElem? hr0
  intro a ha r hr
  cases hnr : isNpuRow r with
  | true => rfl
  | false =>
    exfalso
    have hrm : r ∈ rows := List.mem_of_getElem? hr
    have hex := cur_npu_excl r0 hr0m r hrm hr0n hnr
    have hne' : a0 ≠ a := by
      intro he; subst he
      have : r0 = r := by rw [cur_rows] at hr0; rw [hr0] at hr; exact Option.some.inj hr
      subst this; rw [hr0n] at hnr; exact Bool.noConfusion hnr
    rcases trace_two G h a0 a ha0 ha hne' r0 r (by rw [cur_rows] at hr0; exact hr0) hr with h1 | h1
    · exact hex.2 h1
    · exact hex.1 h1

/-- **NPU pass: an entry whose row sets Main is the newest** -/
theorem npu_main_head {l : List Acc} {f : Nat} (h : Trace Rules.current G l f) (hn : hasFlag f flagNpu = true)
    (a : Acc) (ha : a ∈ l) (r : Row) (hr : rows[a.row]? = some r) (hm : setsMain r = true) : l.head? = some a := by
  apply pairwise_head (trace_pairwise Rules.current G cur_noClear' h) a ha
  intro b hb hne hblock
  obtain ⟨rb, hrb, hrbm, _, _⟩ := trace_row_mem G h b hb
  have hbn := npu_all_npu G h hn b hb rb hrb
  have han := npu_all_npu G h hn a ha r hr
  have := hblock rb r hrb hr
  exact cur_main_last r (List.mem_of_getElem? hr) rb hrbm han hm hbn this

end VelaVerif.Lemmas.PassPackingWalk

namespace VelaVerif.Lemmas.PassPackingWalk
open VelaVerif.PassPacking VelaVerif.Gen.PassPacking VelaVerif.PassPackingSpec
variable (G : Graph)

theorem accOk_nodup (R : Rules) (start : List Nat) : ∀ l : List Acc, AccOk R G start l → (l.map (·.op)).Nodup
  | [], _ => List.nodup_nil
  | a :: rest, h => List.nodup_cons.mpr ⟨h.2.1, accOk_nodup R start rest h.1⟩

theorem filter_length_le_one {l : List Nat} (hn : l.Nodup) (P : Nat → Bool) (h : ∀ x ∈ l, ∀ y ∈ l, P x = true → P y = true → x = y) :
    (l.filter P).length ≤ 1 := by
  match hl : l.filter P with
  | [] => simp
  | [_] => simp
  | a :: b :: rest =>
    exfalso
    have ha : a ∈ l.filter P := by rw [hl]; simp
    have hb : b ∈ l.filter P := by rw [hl]; simp
    have hab := h a (List.mem_filter.mp ha).1 b (List.mem_filter.mp hb).1 (List.mem_filter.mp ha).2 (List.mem_filter.mp hb).2
    have hnd : (l.filter P).Nodup := hn.filter _
    rw [hl, List.nodup_cons] at hnd
    exact hnd.1 (by simp [hab])

/-- the rows whose set is the main-operator sets -/
theorem cur_main_sets : ∀ r ∈ rows, isNpuRow r = true → setsMain r = true → ∀ s, r.set = some s →
    ∀ t ∈ s, t ∈ macMainOps ++ elemWiseMainOps ++ memcpyOps := by decide

theorem cur_limited_unique : ∀ r ∈ rows, ∀ r' ∈ rows, r.set = some npuPostFuseLimitedOps → r'.set = some npuPostFuseLimitedOps → r = r' := by
  decide

/-- a main row and the row of the limited post operations exclude each other -/
theorem cur_main_limited : ∀ r ∈ rows, ∀ r' ∈ rows, isNpuRow r = true → setsMain r = true → r'.set = some npuPostFuseLimitedOps →
    r.toSet &&& r'.incompat ≠ 0 ∧ r'.toSet &&& r.incompat ≠ 0 := by decide

/-- the graph has no operator of a main type without a block type (`MatMul`, see `Props.C01Packing.block_types`) -/
def MainHasBlock (G : Graph) : Prop :=
  ∀ o, (G.op o).type ∈ macMainOps ++ elemWiseMainOps ++ memcpyOps → blockTypeOf (G.op o).type ≠ 0

theorem npu_shape {l : List Acc} {f : Nat} {s : Nat} (h : Trace Rules.current G l f) (hacc : AccOk Rules.current G [s] l)
    (hn : hasFlag f flagNpu = true) (created : Bool) (hcr : created = true → ∀ a ∈ l, blockTypeOf (G.op a.op).type = 0)
    (hbt : MainHasBlock G) (pl : Nat) (ins outs : List Nat) :
    npuShapeB G ⟨l.map (·.op), created, pl, ins, outs⟩ = true := by
  have hnd := accOk_nodup G Rules.current [s] l hacc
  -- per entry: row, class of its type
  have hent : ∀ a ∈ l, ∃ r, rows[a.row]? = some r ∧ r ∈ rows ∧ isNpuRow r = true ∧ (G.op a.op).runOnNpu = true ∧
      ∃ st, r.set = some st ∧ (G.op a.op).type ∈ st := by
    intro a ha
    obtain ⟨r, hr, hrm, hty, hnpu⟩ := trace_row_mem G h a ha
    have hrn := npu_all_npu G h hn a ha r hr
    have hss := cur_npu_has_set r hrm hrn
    cases hset : r.set with
    | none => rw [hset] at hss; simp at hss
    | some st => rw [hset] at hty; exact ⟨r, hr, hrm, hrn, hnpu hrn, st, hset, hty⟩
  -- a main-type entry is the head
  have hmain : ∀ a ∈ l, isMainType (G.op a.op).type = true → l.head? = some a ∧
      (G.op a.op).type ∈ macMainOps ++ elemWiseMainOps ++ memcpyOps := by
    intro a ha hmt
    obtain ⟨r, hr, hrm, hrn, _, st, hst, hty⟩ := hent a ha
    have hsm : setsMain r = true := by
      cases hsm : setsMain r with
      | true => rfl
      | false =>
        have := (cur_row_types r hrm hrn st hst).2 hsm _ hty
        simp [isMainType, this] at hmt
    exact ⟨npu_main_head G h hn a ha r hr hsm, cur_main_sets r hrm hrn hsm st hst _ hty⟩
  unfold npuShapeB
  simp only [Bool.and_eq_true, decide_eq_true_eq]
  refine ⟨⟨⟨⟨⟨⟨⟨?_, ?_⟩, ?_⟩, ?_⟩, ?_⟩, ?_⟩, ?_⟩, ?_⟩
  · -- at most one main operator
    apply filter_length_le_one hnd
    intro x hx y hy hpx hpy
    obtain ⟨a, ha, rfl⟩ := List.mem_map.mp hx
    obtain ⟨b, hb, rfl⟩ := List.mem_map.mp hy
    have h1 := (hmain a ha hpx).1
    have h2 := (hmain b hb hpy).1
    rw [h1] at h2; rw [Option.some.inj h2]
  · -- it is the first
    rw [List.all_eq_true]; intro x hx
    obtain ⟨hx1, hx2⟩ := List.mem_filter.mp hx
    obtain ⟨a, ha, rfl⟩ := List.mem_map.mp hx1
    have h1 := (hmain a ha hx2).1
    simp [List.head?_map, h1]
  · -- a created primary operator: no main operator
    cases hc : created with
    | false => simp
    | true =>
      simp only [Bool.not_true, Bool.false_or, List.isEmpty_iff]
      rw [List.filter_eq_nil_iff]
      intro x hx hmt
      obtain ⟨a, ha, rfl⟩ := List.mem_map.mp hx
      exact hbt a.op (hmain a ha hmt).2 (hcr hc a ha)
  · rw [List.all_eq_true]; intro x _; simp [isMainType]
  · -- at most one limited operator
    apply filter_length_le_one hnd
    intro x hx y hy hpx hpy
    obtain ⟨a, ha, rfl⟩ := List.mem_map.mp hx
    obtain ⟨b, hb, rfl⟩ := List.mem_map.mp hy
    by_cases hab : a = b
    · rw [hab]
    · exfalso
      obtain ⟨ra, hra, hram, hran, _, sa, hsa, htya⟩ := hent a ha
      obtain ⟨rb, hrb, hrbm, hrbn, _, sb, hsb, htyb⟩ := hent b hb
      obtain ⟨hxa, hla⟩ := cur_limited ra hram hran sa hsa ⟨_, htya, hpx⟩
      obtain ⟨hxb, hlb⟩ := cur_limited rb hrbm hrbn sb hsb ⟨_, htyb, hpy⟩
      have hrr := cur_limited_unique ra hram rb hrbm hla hlb
      subst hrr
      rcases trace_two G h a b ha hb hab ra ra hra hrb with h1 | h1 <;> exact hxa h1
  · -- no limited operator behind a main operator
    cases hm : ((l.map (·.op)).filter fun o => isMainType (G.op o).type).isEmpty with
    | true => simp
    | false =>
      simp only [Bool.false_or, List.isEmpty_iff]
      rw [List.filter_eq_nil_iff]
      intro y hy hly
      obtain ⟨b, hb, rfl⟩ := List.mem_map.mp hy
      have hmne : ((l.map (·.op)).filter fun o => isMainType (G.op o).type) ≠ [] := by
        intro h0; rw [h0] at hm; exact Bool.noConfusion hm
      obtain ⟨x, hx⟩ := List.exists_mem_of_ne_nil _ hmne
      obtain ⟨hx1, hx2⟩ := List.mem_filter.mp hx
      obtain ⟨a, ha, rfl⟩ := List.mem_map.mp hx1
      obtain ⟨ra, hra, hram, hran, _, sa, hsa, htya⟩ := hent a ha
      obtain ⟨rb, hrb, hrbm, hrbn, _, sb, hsb, htyb⟩ := hent b hb
      have hsm : setsMain ra = true := by
        cases hsm : setsMain ra with
        | true => rfl
        | false =>
          have := (cur_row_types ra hram hran sa hsa).2 hsm _ htya
          simp [isMainType, this] at hx2
      obtain ⟨_, hlb⟩ := cur_limited rb hrbm hrbn sb hsb ⟨_, htyb, hly⟩
      have hex := cur_main_limited ra hram rb hrbm hran hsm hlb
      have hab : a ≠ b := by
        intro he; subst he
        have : ra = rb := by rw [hra] at hrb; exact Option.some.inj hrb
        subst this
        have hpost := (cur_row_types ra hram hran sa hsa).1 hsm _ htya
        have : isPostType (G.op a.op).type = true := by simp [isPostType, hly]
        rw [hpost] at this; exact Bool.noConfusion this
      rcases trace_two G h a b ha hb hab ra rb hra hrb with h1 | h1
      · exact hex.2 h1
      · exact hex.1 h1
  · rw [List.all_eq_true]; intro x hx
    obtain ⟨a, ha, rfl⟩ := List.mem_map.mp hx
    obtain ⟨_, _, _, _, hnpu, _⟩ := hent a ha
    exact hnpu
  · -- a Memcpy is alone
    cases hany : (l.map (·.op)).any (fun o => (G.op o).type == opMemcpy) with
    | false => simp
    | true =>
      simp only [Bool.not_true, Bool.false_or, beq_iff_eq, List.length_map]
      obtain ⟨x, hx, hxt⟩ := List.any_eq_true.mp hany
      obtain ⟨a, ha, rfl⟩ := List.mem_map.mp hx
      have hty : (G.op a.op).type = opMemcpy := by simpa using hxt
      obtain ⟨ra, hra, hram, hran, _, sa, hsa, htya⟩ := hent a ha
      rw [hty] at htya
      obtain ⟨hsm, hblock⟩ := cur_memcpy ra hram hran sa hsa htya
      -- no other entry
      have hall : ∀ b ∈ l, b = a := by
        intro b hb
        by_cases hab : b = a
        · exact hab
        · exfalso
          obtain ⟨rb, hrb, hrbm, hrbn, _⟩ := hent b hb
          rcases trace_two G h a b ha hb (Ne.symm hab) ra rb hra hrb with h1 | h1
          · exact hblock rb hrbm hrbn h1
          · exact cur_main_last ra hram rb hrbm hran hsm hrbn h1
      match l, hall, ha with
      | [_], _, _ => rfl
      | x :: y :: rest, hall, _ =>
        exfalso
        have hx := hall x (by simp)
        have hy := hall y (by simp)
        have := List.nodup_cons.mp hnd
        apply this.1
        simp [hx, hy]

end VelaVerif.Lemmas.PassPackingWalk

namespace VelaVerif.Lemmas.PassPackingWalk
open VelaVerif.PassPacking VelaVerif.Gen.PassPacking VelaVerif.PassPackingSpec
variable (G : Graph)

/-- **CPU pass: one entry, accepted by a CPU row** -/
theorem cpu_single {l : List Acc} {f : Nat} (h : Trace Rules.current G l f) (hn : hasFlag f flagCpu = true) :
    ∃ a r, l = [a] ∧ rows[a.row]? = some r ∧ r ∈ rows ∧ hasFlag r.toSet flagCpu = true := by
  have hne : f &&& flagCpu ≠ 0 := by simpa [hasFlag] using hn
  obtain ⟨a0, ha0, r0, hr0, hs0⟩ := trace_flag_source Rules.current G cur_noClear' h flagCpu hne
  rw [cur_rows] at hr0
  have hr0c : hasFlag r0.toSet flagCpu = true := by simpa [hasFlag] using hs0
  have hr0m : r0 ∈ rows := List.mem_of_getElem? hr0
  have hall : ∀ b ∈ l, b = a0 := by
    intro b hb
    by_cases hab : b = a0
    · exact hab
    · exfalso
      obtain ⟨rb, hrb, hrbm, _⟩ := trace_row_mem G h b hb
      have hex := cur_cpu r0 hr0m hr0c rb hrbm
      rcases trace_two G h a0 b ha0 hb (Ne.symm hab) r0 rb hr0 hrb with h1 | h1
      · exact hex.2 h1
      · exact hex.1 h1
  refine ⟨a0, r0, ?_, hr0, hr0m, hr0c⟩
  match l, hall, ha0 with
  | [x], hall, _ => rw [hall x (by simp)]
  | x :: y :: rest, hall, _ =>
    exfalso
    have hx := hall x (by simp)
    have hy := hall y (by simp)
    have hp := trace_pairwise Rules.current G cur_noClear' h
    have := (List.pairwise_cons.mp hp).1 y (by simp) r0 r0 (by rw [hx]; exact hr0) (by rw [hy]; exact hr0)
    exact (cur_cpu r0 hr0m hr0c r0 hr0m).1 this

/-- memory-only / start-up pass: every entry was accepted by the row of that placement -/
theorem mem_all {l : List Acc} {f : Nat} (h : Trace Rules.current G l f) (hn : hasFlag f flagMemoryOnly = true)
    (hs : hasFlag f flagStartupInit = false) : ∀ a ∈ l, (G.op a.op).type ∈ memoryOnlyOps := by
  have hne : f &&& flagMemoryOnly ≠ 0 := by simpa [hasFlag] using hn
  obtain ⟨a0, ha0, r0, hr0, hs0⟩ := trace_flag_source Rules.current G cur_noClear' h flagMemoryOnly hne
  rw [cur_rows] at hr0
  have hr0c : hasFlag r0.toSet flagMemoryOnly = true := by simpa [hasFlag] using hs0
  have hr0m : r0 ∈ rows := List.mem_of_getElem? hr0
  intro a ha
  obtain ⟨r, hr, hrm, hty, _⟩ := trace_row_mem G h a ha
  have hnost : hasFlag r.toSet flagStartupInit = false := by
    cases hx : hasFlag r.toSet flagStartupInit with
    | false => rfl
    | true =>
      exfalso
      have hsub := trace_sub Rules.current G cur_noClear' h a ha r (by rw [cur_rows]; exact hr)
      have : hasFlag f flagStartupInit = true := by
        unfold hasFlag at hx ⊢
        simp only [bne_iff_ne, ne_eq] at hx ⊢
        intro h0
        exact hx (sub_disjoint hsub h0)
      rw [this] at hs; exact Bool.noConfusion hs
  cases hmo : hasFlag r.toSet flagMemoryOnly with
  | true =>
    have := (cur_placement_rows r hrm).1 hmo
    rw [this] at hty; exact hty
  | false =>
    exfalso
    have hne' : a0 ≠ a := by
      intro he; subst he
      have : r0 = r := by rw [hr0] at hr; exact Option.some.inj hr
      subst this; rw [hr0c] at hmo; exact Bool.noConfusion hmo
    have hex := cur_memonly r0 hr0m hr0c r hrm hmo hnost
    rcases trace_two G h a0 a ha0 ha hne' r0 r hr0 hr with h1 | h1
    · exact hex.2 h1
    · exact hex.1 h1

theorem startup_all {l : List Acc} {f : Nat} (h : Trace Rules.current G l f) (hn : hasFlag f flagStartupInit = true)
    (hs : hasFlag f flagMemoryOnly = false) : ∀ a ∈ l, (G.op a.op).type ∈ startupInitOps := by
  have hne : f &&& flagStartupInit ≠ 0 := by simpa [hasFlag] using hn
  obtain ⟨a0, ha0, r0, hr0, hs0⟩ := trace_flag_source Rules.current G cur_noClear' h flagStartupInit hne
  rw [cur_rows] at hr0
  have hr0c : hasFlag r0.toSet flagStartupInit = true := by simpa [hasFlag] using hs0
  have hr0m : r0 ∈ rows := List.mem_of_getElem? hr0
  intro a ha
  obtain ⟨r, hr, hrm, hty, _⟩ := trace_row_mem G h a ha
  have hnomo : hasFlag r.toSet flagMemoryOnly = false := by
    cases hx : hasFlag r.toSet flagMemoryOnly with
    | false => rfl
    | true =>
      exfalso
      have hsub := trace_sub Rules.current G cur_noClear' h a ha r (by rw [cur_rows]; exact hr)
      have : hasFlag f flagMemoryOnly = true := by
        unfold hasFlag at hx ⊢
        simp only [bne_iff_ne, ne_eq] at hx ⊢
        intro h0
        exact hx (sub_disjoint hsub h0)
      rw [this] at hs; exact Bool.noConfusion hs
  cases hst : hasFlag r.toSet flagStartupInit with
  | true =>
    have := (cur_placement_rows r hrm).2.1 hst
    rw [this] at hty; exact hty
  | false =>
    exfalso
    have hne' : a0 ≠ a := by
      intro he; subst he
      have : r0 = r := by rw [hr0] at hr; exact Option.some.inj hr
      subst this; rw [hr0c] at hst; exact Bool.noConfusion hst
    have hex := cur_startup r0 hr0m hr0c r hrm hnomo hst
    rcases trace_two G h a0 a ha0 ha hne' r0 r hr0 hr with h1 | h1
    · exact hex.2 h1
    · exact hex.1 h1

end VelaVerif.Lemmas.PassPackingWalk

namespace VelaVerif.Lemmas.PassPackingWalk
open VelaVerif.PassPacking VelaVerif.Gen.PassPacking VelaVerif.PassPackingSpec
variable (G : Graph)

theorem created_imp (w : Walk) (h : (finPrimary G w == Primary.created) = true) : w.primary = none ∧ needCreate G w = true := by
  unfold finPrimary at h
  split at h
  · simp at h
  · rename_i hp
    split at h
    · rename_i hn; exact ⟨hp, hn⟩
    · simp at h

theorem not_created_of_no_postlike (w : Walk) (h : ∀ o ∈ w.ops, isPostLike G o = false) : (finPrimary G w == Primary.created) = false := by
  cases hc : (finPrimary G w == Primary.created) with
  | false => rfl
  | true =>
    exfalso
    have := (created_imp G w hc).2
    unfold needCreate at this
    simp only [Bool.and_eq_true] at this
    obtain ⟨o, ho, hpl⟩ := List.any_eq_true.mp this.2
    rw [h o ho] at hpl; exact Bool.noConfusion hpl

theorem postlike_false_of_type {o : Nat} (h : npuPostOps.contains (G.op o).type = false ∧ npuPostFuseLimitedOps.contains (G.op o).type = false) :
    isPostLike G o = false := by
  unfold isPostLike; rw [h.1, h.2]; rfl

/-- **(c) the pass `build_pass` makes has the shape the Spec asks for** -/
theorem buildPass_shape {s : Nat} {p : Pass} (h : buildPass Rules.current G s = .ok p) (hbt : MainHasBlock G) :
    passShapeB G (toSpec p) = true := by
  obtain ⟨ofm, ofs, hfin, _⟩ := buildPass_ok Rules.current G h
  obtain ⟨herrNone, hp⟩ := finishPass_ok G hfin
  obtain ⟨herr, ⟨pl, hpl, _⟩, hne, _⟩ := finishErr_none G herrNone
  have inv := walkRun_inv Rules.current G [s] (walkFuel G 1) _ (walkStart_inv Rules.current G [s])
  have inv2 := walkRun_inv2 Rules.current G (walkFuel G 1) _ (walkStart_inv2 Rules.current G [s])
  generalize walkRun Rules.current G (walkFuel G 1) (walkStart [s]) = w at *
  subst hp
  have hpf := placementOf_ok hpl
  have hN : hasFlag w.flags flagNpu = (pl == .npu) := by rw [← finFlags_placement w flagNpu (by decide)]; exact hpf.1
  have hC : hasFlag w.flags flagCpu = (pl == .cpu) := by rw [← finFlags_placement w flagCpu (by decide)]; exact hpf.2.1
  have hM : hasFlag w.flags flagMemoryOnly = (pl == .memoryOnly) := by
    rw [← finFlags_placement w flagMemoryOnly (by decide)]; exact hpf.2.2.1
  have hS : hasFlag w.flags flagStartupInit = (pl == .startupInit) := by
    rw [← finFlags_placement w flagStartupInit (by decide)]; exact hpf.2.2.2
  have hops : (finishPure G w (some ofm) ofs).ops = w.acc.map (·.op) := rfl
  have hplc : (finishPure G w (some ofm) ofs).placement = pl := by simp [finishPure, hpl, Except.toOption]
  have hcre : (finishPure G w (some ofm) ofs).created = (finPrimary G w == Primary.created) := rfl
  have hnonempty : (w.acc.map (·.op)).isEmpty = false := by
    cases hx : (w.acc.map (·.op)).isEmpty with
    | false => rfl
    | true => exact absurd (List.isEmpty_iff.mp hx) hne
  have hint := accOk_internal G w.acc inv.acc
  unfold passShapeB toSpec
  simp only [hops, hplc, hcre, hnonempty, Bool.not_false, Bool.true_and]
  cases pl with
  | npu =>
    simp only [beq_self_eq_true, if_true, hint, Bool.true_and]
    exact npu_shape G inv.trace inv.acc (by simpa using hN) _
      (fun hc a ha => inv2.prim (created_imp G w hc).1 a ha) hbt _ _ _
  | cpu =>
    have hne12 : (Placement.cpu.code == Placement.npu.code) = false := by decide
    simp only [hne12, Bool.false_eq_true, if_false, beq_self_eq_true, if_true, Bool.and_eq_true, beq_iff_eq, Bool.not_eq_true']
    obtain ⟨a, r, hl, hr, hrm, hrc⟩ := cpu_single G inv.trace (by simpa using hC)
    refine ⟨by simp [hl], ?_⟩
    apply not_created_of_no_postlike
    intro o ho
    have hoa : o = a.op := by simpa [Walk.ops, hl] using ho
    subst hoa
    obtain ⟨r', hr', _, hty, _⟩ := trace_row_mem G inv.trace a (by simp [hl])
    have : r' = r := by rw [hr] at hr'; exact (Option.some.inj hr').symm
    subst this
    rcases (cur_placement_rows r' hrm).2.2 hrc with hset | hset
    · rw [hset] at hty
      exact postlike_false_of_type G (cur_types_not_postlike _ (by simp [hty]))
    · have := inv2.fallback herr a (by simp [hl]) r' (by rw [cur_rows]; exact hr) hset
      simp [isPostLike, this]
  | memoryOnly =>
    have hne1 : (Placement.memoryOnly.code == Placement.npu.code) = false := by decide
    have hne2 : (Placement.memoryOnly.code == Placement.cpu.code) = false := by decide
    simp only [hne1, hne2, Bool.false_eq_true, if_false, beq_self_eq_true, if_true, hint, Bool.true_and, Bool.and_eq_true,
      Bool.not_eq_true']
    have hall := mem_all G inv.trace (by simpa using hM) (by rw [hS]; decide)
    refine ⟨?_, ?_⟩
    · apply not_created_of_no_postlike
      intro o ho
      obtain ⟨a, ha, rfl⟩ := List.mem_map.mp ho
      exact postlike_false_of_type G (cur_types_not_postlike _ (by simp [hall a ha]))
    · rw [List.all_eq_true]; intro o ho
      obtain ⟨a, ha, rfl⟩ := List.mem_map.mp ho
      exact List.contains_iff_mem.mpr (hall a ha)
  | startupInit =>
    have hne1 : (Placement.startupInit.code == Placement.npu.code) = false := by decide
    have hne2 : (Placement.startupInit.code == Placement.cpu.code) = false := by decide
    have hne3 : (Placement.startupInit.code == Placement.memoryOnly.code) = false := by decide
    simp only [hne1, hne2, hne3, Bool.false_eq_true, if_false, beq_self_eq_true, if_true, Bool.and_eq_true, Bool.not_eq_true']
    have hall := startup_all G inv.trace (by simpa using hS) (by rw [hM]; decide)
    refine ⟨?_, ?_⟩
    · apply not_created_of_no_postlike
      intro o ho
      obtain ⟨a, ha, rfl⟩ := List.mem_map.mp ho
      exact postlike_false_of_type G (cur_types_not_postlike _ (by simp [hall a ha]))
    · rw [List.all_eq_true]; intro o ho
      obtain ⟨a, ha, rfl⟩ := List.mem_map.mp ho
      exact List.contains_iff_mem.mpr (hall a ha)

end VelaVerif.Lemmas.PassPackingWalk
