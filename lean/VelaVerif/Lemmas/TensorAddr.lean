import VelaVerif.Model.TensorAddr
import VelaVerif.Spec.TensorBounds
import VelaVerif.Lemmas.Cascade
import VelaVerif.Lemmas.Footprint
import Mathlib.Tactic.Ring
/-!
Helper lemmas for the address-generation link of C02 (`Props/C02Addr.lean`): mixed-radix arithmetic of the
NHWC / NHCWB16 element index, the closed form of `address_for_coordinate`, wrap-around at the rolling-buffer
crossing, and the register-level feature map `toFM` built from the model's tiles and strides.
-/
namespace VelaVerif.TensorAddr
open VelaVerif.Cascade (roundUp)
open VelaVerif.Decode VelaVerif.Footprint

theorem mix_lt {a b A B : Nat} (ha : a < A) (hb : b < B) : a * B + b < A * B := by
  have h1 : (a + 1) * B ≤ A * B := Nat.mul_le_mul_right B ha
  have h2 : (a + 1) * B = a * B + B := by ring
  omega

theorem mix_inj {a b a' b' B : Nat} (hb : b < B) (hb' : b' < B) (h : a * B + b = a' * B + b') : a = a' ∧ b = b' := by
  have hB : 0 < B := by omega
  have h1 : (a * B + b) / B = a := by
    rw [Nat.mul_comm, Nat.mul_add_div hB, Nat.div_eq_of_lt hb]; simp
  have h2 : (a' * B + b') / B = a' := by
    rw [Nat.mul_comm, Nat.mul_add_div hB, Nat.div_eq_of_lt hb']; simp
  have h3 : (a * B + b) % B = b := by
    rw [Nat.mul_comm, Nat.mul_add_mod, Nat.mod_eq_of_lt hb]
  have h4 : (a' * B + b') % B = b' := by
    rw [Nat.mul_comm, Nat.mul_add_mod, Nat.mod_eq_of_lt hb']
  rw [h] at h1 h3
  exact ⟨by omega, by omega⟩

/-- element index of (n, y, x, c) in an NHWC tensor of storage shape `v` -/
def idxNhwc (v : S4) (n y x c : Nat) : Nat := ((n * v.h + y) * v.w + x) * v.c + c

/-- element index in an NHCWB16 tensor of storage shape `v` (depth a multiple of 16): bricks of 16 channels -/
def idxB16 (v : S4) (n y x c : Nat) : Nat := ((((n * v.h + y) * (v.c / 16) + c / 16) * v.w + x) * 16) + c % 16

theorem idxNhwc_lt (v : S4) (n y x c : Nat) (hn : n < v.n) (hy : y < v.h) (hx : x < v.w) (hc : c < v.c) :
    idxNhwc v n y x c < v.elems := by
  unfold idxNhwc S4.elems
  exact mix_lt (mix_lt (mix_lt hn hy) hx) hc

theorem idxNhwc_inj (v : S4) (n y x c n' y' x' c' : Nat) (hy : y < v.h) (hx : x < v.w) (hc : c < v.c)
    (hy' : y' < v.h) (hx' : x' < v.w) (hc' : c' < v.c) (h : idxNhwc v n y x c = idxNhwc v n' y' x' c') :
    n = n' ∧ y = y' ∧ x = x' ∧ c = c' := by
  unfold idxNhwc at h
  obtain ⟨h1, h2⟩ := mix_inj hc hc' h
  obtain ⟨h3, h4⟩ := mix_inj hx hx' h1
  obtain ⟨h5, h6⟩ := mix_inj hy hy' h3
  exact ⟨h5, h6, h4, h2⟩

theorem idxB16_lt (v : S4) (n y x c : Nat) (h16 : v.c % 16 = 0) (hn : n < v.n) (hy : y < v.h) (hx : x < v.w) (hc : c < v.c) :
    idxB16 v n y x c < v.elems := by
  unfold idxB16 S4.elems
  have hk : c / 16 < v.c / 16 := by omega
  have hm : c % 16 < 16 := by omega
  have := mix_lt (mix_lt (mix_lt (mix_lt hn hy) hk) hx) hm
  have e : v.n * v.h * (v.c / 16) * v.w * 16 = v.n * v.h * v.w * (16 * (v.c / 16)) := by ring
  have e2 : 16 * (v.c / 16) = v.c := by omega
  rw [e, e2] at this
  exact this

theorem idxB16_inj (v : S4) (n y x c n' y' x' c' : Nat) (h16 : v.c % 16 = 0) (hy : y < v.h) (hx : x < v.w) (hc : c < v.c)
    (hy' : y' < v.h) (hx' : x' < v.w) (hc' : c' < v.c) (h : idxB16 v n y x c = idxB16 v n' y' x' c') :
    n = n' ∧ y = y' ∧ x = x' ∧ c = c' := by
  unfold idxB16 at h
  obtain ⟨h1, h2⟩ := mix_inj (by omega : c % 16 < 16) (by omega : c' % 16 < 16) h
  obtain ⟨h3, h4⟩ := mix_inj hx hx' h1
  obtain ⟨h5, h6⟩ := mix_inj (by omega : c / 16 < v.c / 16) (by omega : c' / 16 < v.c / 16) h3
  obtain ⟨h7, h8⟩ := mix_inj hy hy' h5
  exact ⟨h7, h8, h4, by omega⟩

theorem linOffset_nhwc (e : Nat) (v : S4) (st : Strides) (h : stridesOfView .nhwc e v = .ok st) (n y x c : Nat) :
    linOffset .nhwc st n y x c = e * idxNhwc v n y x c := by
  simp only [stridesOfView, Except.ok.injEq] at h
  subst h
  simp only [linOffset, idxNhwc]
  ring

theorem linOffset_b16 (e : Nat) (v : S4) (st : Strides) (h : stridesOfView .nhcwb16 e v = .ok st) (h16 : v.c % 16 = 0)
    (hh : v.h ≠ 0) (n y x c : Nat) :
    linOffset .nhcwb16 st n y x c = e * idxB16 v n y x c := by
  simp only [stridesOfView, hh, if_false, Except.ok.injEq] at h
  subst h
  simp only [linOffset, idxB16]
  have e2 : v.c = 16 * (v.c / 16) := by omega
  generalize v.c / 16 = k at *
  rw [e2]
  ring
theorem wrap_cast (y H : Nat) : ((y : Int) % (H : Int)).toNat = y % H := by
  rw [← Int.natCast_mod]; exact Int.toNat_natCast _

theorem wrapCoord4 (n y x c : Nat) (v : S4) (hn : v.n ≠ 0) (hh : v.h ≠ 0) (hw : v.w ≠ 0) (hc : v.c ≠ 0) :
    wrapCoord (coordOf n y x c) v.toList = .ok [n % v.n, y % v.h, x % v.w, c % v.c] := by
  simp [wrapCoord, coordOf, S4.toList, hn, hh, hw, hc, wrap_cast]

theorem inShape4 (n y x c : Nat) (s : S4) :
    inShape (coordOf n y x c) s.toList = true ↔ n < s.n ∧ y < s.h ∧ x < s.w ∧ c < s.c := by
  simp [inShape, coordOf, S4.toList]

/-- the own-storage path at rank 4 -/
theorem lastK4 (n y x c : Nat) : lastK (coordOf n y x c) 4 = coordOf n y x c := by
  simp [lastK, coordOf]

/-- closed form of `address_for_coordinate` for a 4-D coordinate: the asserts pass, the coordinate is wrapped into the
    storage shape `v`, and the offset is the dot product with the strides -/
theorem offsetForCoordinate_eq (t : Tens) (op : Option S4) (sto : Option Strides) (st : Strides) (v : S4) (size n y x c : Nat)
    (hp : t.purpose ≠ .weights) (hfmt : t.fmt ≠ .other)
    (hst : stridesOrDefault t sto op = .ok st)
    (hv : viewShape t op = .ok v)
    (hrank : (op.isSome && isStandardFm t) = false → t.storageShape = v.toList)
    (hassert : t.standard = true → inShape (coordOf n y x c) (assertShape t op) = true)
    (hpos : v.n ≠ 0 ∧ v.h ≠ 0 ∧ v.w ≠ 0 ∧ v.c ≠ 0)
    (hsize : sizeForView t (op.isSome && isStandardFm t) v = .ok size)
    (hle : linOffset t.fmt st (n % v.n) (y % v.h) (x % v.w) (c % v.c) ≤ size) :
    offsetForCoordinate t (coordOf n y x c) sto op false = .ok (linOffset t.fmt st (n % v.n) (y % v.h) (x % v.w) (c % v.c)) := by
  unfold offsetForCoordinate
  have hp' : (t.purpose == Purpose.weights) = false := by
    cases h : t.purpose <;> simp_all
  rw [hp', hst]
  simp only [Bool.false_eq_true, if_false]
  have ha : (t.standard && !inShape (coordOf n y x c) (assertShape t op)) = false := by
    cases hs : t.standard
    · simp
    · simp [hassert hs]
  rw [ha, hv]
  simp only [Bool.false_eq_true, if_false]
  rw [hsize]
  simp only []
  have hw : wrapCoord (if (op.isSome && isStandardFm t) = true then coordOf n y x c
      else lastK (coordOf n y x c) t.storageShape.length)
      (if (op.isSome && isStandardFm t) = true then v.toList else t.storageShape) =
      .ok [n % v.n, y % v.h, x % v.w, c % v.c] := by
    cases hvia : (op.isSome && isStandardFm t)
    · have := hrank hvia
      simp only [Bool.false_eq_true, if_false, this]
      have hl : v.toList.length = 4 := rfl
      rw [hl, lastK4]
      exact wrapCoord4 n y x c v hpos.1 hpos.2.1 hpos.2.2.1 hpos.2.2.2
    · simp only [if_true]
      exact wrapCoord4 n y x c v hpos.1 hpos.2.1 hpos.2.2.1 hpos.2.2.2
  rw [hw]
  simp only []
  have hd : dotAug t.fmt st [n % v.n, y % v.h, x % v.w, c % v.c] =
      .ok (linOffset t.fmt st (n % v.n) (y % v.h) (x % v.w) (c % v.c)) := by
    unfold dotAug
    have : (t.fmt == Fmt.other) = false := by cases h : t.fmt <;> simp_all
    rw [this]; simp
  rw [hd]
  simp only [Nat.zero_add]
  rw [if_pos hle]
theorem roundUp_ge (a b : Nat) (hb : 0 < b) : a ≤ roundUp a b := by
  unfold roundUp
  have h1 := Nat.div_add_mod (a + b - 1) b
  have h2 := Nat.mod_lt (a + b - 1) hb
  have e : (a + b - 1) / b * b = b * ((a + b - 1) / b) := Nat.mul_comm _ _
  omega

theorem roundUp_mod (a b : Nat) : roundUp a b % b = 0 := by
  unfold roundUp; exact Nat.mul_mod_left _ _

theorem roundUp_one (a : Nat) : roundUp a 1 = a := by
  unfold roundUp; simp

theorem prod_toList (v : S4) : prod v.toList = v.elems := by
  simp [prod, S4.toList, S4.elems, Nat.mul_assoc]

theorem sizeOfElems_ge (k e a s : Nat) (h : sizeOfElems k e a = .ok s) : k * e ≤ s := by
  unfold sizeOfElems at h
  split at h
  · cases h
  · rename_i ha
    simp only [Except.ok.injEq] at h
    subst h
    by_cases hz : k * e = 0
    · omega
    · rw [if_neg hz]
      exact roundUp_ge (k * e) a (by omega)

/-- below the crossing `round_up(s + 1, H)` the wrapped coordinate advances linearly -/
theorem wrap_lo (s H y : Nat) (hH : 0 < H) (h : s + y < roundUp (s + 1) H) : (s + y) % H = s % H + y := by
  rw [Cascade.roundUp_succ s H hH] at h
  have hdm := Nat.div_add_mod s H
  have hm := Nat.mod_lt s hH
  have e : (s / H + 1) * H = H * (s / H) + H := by ring
  have hlt : s % H + y < H := by omega
  have hr : s + y = H * (s / H) + s % H + y := by omega
  rw [hr]
  exact Cascade.mod_of_offset H (s / H) (s % H) y hlt

/-- from the crossing on (for less than one buffer height) the wrapped coordinate restarts at 0 -/
theorem wrap_hi (s H r : Nat) (hH : 0 < H) (h1 : roundUp (s + 1) H ≤ r) (h2 : r < roundUp (s + 1) H + H) :
    r % H = r - roundUp (s + 1) H := by
  rw [Cascade.roundUp_succ s H hH] at *
  have e : (s / H + 1) * H = H * (s / H + 1) := Nat.mul_comm _ _
  have hr : r = H * (s / H + 1) + 0 + (r - (s / H + 1) * H) := by omega
  have hlt : 0 + (r - (s / H + 1) * H) < H := by omega
  conv => lhs; rw [hr]
  rw [Cascade.mod_of_offset H (s / H + 1) 0 _ hlt]
  omega

theorem roundUp_succ_gt (s H : Nat) (hH : 0 < H) : s < roundUp (s + 1) H := by
  have := roundUp_ge (s + 1) H hH; omega

/-- the feature map the registers describe: the model's tile box and strides, extents of the box -/
def toFM (t : Tens) (tb : TileBox) (st : Strides) (s e : S4) : FM :=
  { region := 0, base := tb.addrs, height0 := tb.height0, height1 := tb.height1, width0 := tb.width0,
    strideX := st.sW, strideY := st.sH, strideC := st.sC, height := e.h - s.h, width := e.w - s.w, depth := e.c - s.c,
    elemBytes := t.elemSize, signed := false, nhcwb16 := t.fmt == .nhcwb16, zeroPoint := 0 }

/-- `linOffset` is additive in y, x and (brick-aligned) c when the strides have the element-level shape the
    registers assume: NHWC depth stride = element size; NHCWB16 width stride = one brick, inner stride = element -/
theorem linOffset_add_nhwc (st : Strides) (n y x c dy dx dc : Nat) :
    linOffset .nhwc st n (y + dy) (x + dx) (c + dc) = linOffset .nhwc st n y x c + dy * st.sH + dx * st.sW + dc * st.sC := by
  simp only [linOffset]; ring

theorem linOffset_add_b16 (st : Strides) (n y x c dy dx dc : Nat) (hc : c % 16 = 0) :
    linOffset .nhcwb16 st n (y + dy) (x + dx) (c + dc) =
      linOffset .nhcwb16 st n y x c + dy * st.sH + dx * st.sW + (dc / 16) * st.sC + (dc % 16) * st.sE := by
  simp only [linOffset]
  have h1 : (c + dc) / 16 = c / 16 + dc / 16 := by omega
  have h2 : (c + dc) % 16 = dc % 16 := by omega
  have h3 : c % 16 = 0 := hc
  rw [h1, h2, h3]; ring

/-- what the registers assume about the strides: NHWC depth stride = one element; NHCWB16 width stride = one
    brick of 16 elements and the stride inside a brick = one element -/
def stridesRegOk (t : Tens) (st : Strides) : Prop :=
  (t.fmt = .nhwc ∧ st.sC = t.elemSize) ∨ (t.fmt = .nhcwb16 ∧ st.sW = 16 * t.elemSize ∧ st.sE = t.elemSize)

theorem addressForCoordinate_eq (t : Tens) (op v : S4) (st : Strides) (size n y x c : Nat)
    (hp : t.purpose ≠ .weights) (hfmt : t.fmt ≠ .other)
    (hv : viewShape t (some op) = .ok v)
    (hrank : isStandardFm t = false → t.storageShape = v.toList)
    (hassert : t.standard = true → n < op.n ∧ y < op.h ∧ x < op.w ∧ c < op.c)
    (hpos : v.n ≠ 0 ∧ v.h ≠ 0 ∧ v.w ≠ 0 ∧ v.c ≠ 0)
    (hsize : sizeForView t (isStandardFm t) v = .ok size)
    (hle : linOffset t.fmt st (n % v.n) (y % v.h) (x % v.w) (c % v.c) ≤ size) :
    addressForCoordinate t (coordOf n y x c) (some st) (some op) false =
      .ok (t.address + linOffset t.fmt st (n % v.n) (y % v.h) (x % v.w) (c % v.c)) := by
  unfold addressForCoordinate
  rw [offsetForCoordinate_eq t (some op) (some st) st v size n y x c hp hfmt rfl hv (by simpa using hrank)
    (by intro hs; simp only [assertShape]; exact (inShape4 n y x c op).mpr (hassert hs)) hpos (by simpa using hsize) hle]

/-- offset of box element (y, x, c) relative to the offset of an anchor row `ya` of the same box -/
theorem linOffset_rel (t : Tens) (st : Strides) (hreg : stridesRegOk t st) (n ya x0 c0 dy x c : Nat)
    (hb16 : t.fmt = .nhcwb16 → c0 % 16 = 0) :
    linOffset t.fmt st n (ya + dy) (x0 + x) (c0 + c) =
      linOffset t.fmt st n ya x0 c0 +
        (if t.fmt == .nhcwb16 then dy * st.sH + x * (16 * t.elemSize) + (c / 16) * st.sC + (c % 16) * t.elemSize
         else dy * st.sH + x * st.sW + c * t.elemSize) := by
  rcases hreg with ⟨hf, h1⟩ | ⟨hf, h1, h2⟩
  · rw [hf, linOffset_add_nhwc, h1]; simp; omega
  · rw [hf, linOffset_add_b16 _ _ _ _ _ _ _ _ (hb16 hf), h1, h2]; simp; omega

theorem tiles_cover_box_gen (t : Tens) (op v s e : S4) (st : Strides) (size : Nat)
    (hp : t.purpose ≠ .weights) (hreg : stridesRegOk t st)
    (hb16 : t.fmt = .nhcwb16 → s.c % 16 = 0)
    (hne : t.storageShape ≠ [])
    (hv : viewShape t (some op) = .ok v)
    (hrank : isStandardFm t = false → t.storageShape = v.toList)
    (hsize : sizeForView t (isStandardFm t) v = .ok size)
    (hbox : s.h < e.h ∧ s.w < e.w ∧ s.c < e.c)
    (hassert : t.standard = true → s.n < op.n ∧ e.h ≤ op.h ∧ e.w ≤ op.w ∧ e.c ≤ op.c)
    (hN : v.n ≠ 0) (hH : e.h - s.h ≤ v.h) (hW : e.w ≤ roundUp (s.w + 1) v.w) (hC : e.c ≤ v.c)
    (hfit : ∀ y x c, y < e.h - s.h → x < e.w - s.w → c < e.c - s.c →
        linOffset t.fmt st (s.n % v.n) ((s.h + y) % v.h) ((s.w + x) % v.w) ((s.c + c) % v.c) ≤ size) :
    ∃ tb, addressesForRollingBuffer t s e st op = .ok tb ∧
      ∀ y x c, y < e.h - s.h → x < e.w - s.w → c < e.c - s.c →
        addressForCoordinate t (coordOf s.n (s.h + y) (s.w + x) (s.c + c)) (some st) (some op) false =
          .ok (fmAddr (toFM t tb st s e) y x c) := by
  have hfmt : t.fmt ≠ .other := by
    rcases hreg with ⟨hf, _⟩ | ⟨hf, _⟩ <;> rw [hf] <;> decide
  have hHpos : v.h ≠ 0 := by omega
  have hWpos : v.w ≠ 0 := by
    intro h0; rw [h0] at hW; simp [roundUp] at hW; omega
  have hCpos : v.c ≠ 0 := by omega
  have hpos : v.n ≠ 0 ∧ v.h ≠ 0 ∧ v.w ≠ 0 ∧ v.c ≠ 0 := ⟨hN, hHpos, hWpos, hCpos⟩
  -- every box element has the closed-form address
  have hafc : ∀ y x c, y < e.h - s.h → x < e.w - s.w → c < e.c - s.c →
      addressForCoordinate t (coordOf s.n (s.h + y) (s.w + x) (s.c + c)) (some st) (some op) false =
        .ok (t.address + linOffset t.fmt st (s.n % v.n) ((s.h + y) % v.h) ((s.w + x) % v.w) ((s.c + c) % v.c)) := by
    intro y x c hy hx hc
    exact addressForCoordinate_eq t op v st size _ _ _ _ hp hfmt hv hrank
      (fun hs => by have := hassert hs; omega) hpos hsize (hfit y x c hy hx hc)
  have hR := roundUp_succ_gt s.h v.h (by omega)
  have hRw := roundUp_succ_gt s.w v.w (by omega)
  -- wrapped coordinates of a box element
  have hxw : ∀ x, x < e.w - s.w → (s.w + x) % v.w = s.w % v.w + x := fun x hx => wrap_lo s.w v.w x (by omega) (by omega)
  have hcw : ∀ c, c < e.c - s.c → (s.c + c) % v.c = s.c + c := fun c hc => Nat.mod_eq_of_lt (by omega)
  have a0 := hafc 0 0 0 (by omega) (by omega) (by omega)
  simp only [Nat.add_zero] at a0
  unfold addressesForRollingBuffer
  rw [if_neg (by omega), if_neg hne, hv]
  simp only []
  rw [if_neg (by omega), a0]
  simp only []
  have hcx : min (roundUp (s.w + 1) v.w) e.w = e.w := by omega
  rw [hcx, if_neg (by omega)]
  by_cases hcross : e.h > min (roundUp (s.h + 1) v.h) e.h
  · -- two tiles
    have hcy : min (roundUp (s.h + 1) v.h) e.h = roundUp (s.h + 1) v.h := by omega
    rw [hcy] at hcross ⊢
    have a2 := hafc (roundUp (s.h + 1) v.h - s.h) 0 0 (by omega) (by omega) (by omega)
    have e2 : s.h + (roundUp (s.h + 1) v.h - s.h) = roundUp (s.h + 1) v.h := by omega
    rw [e2] at a2
    simp only [Nat.add_zero] at a2
    rw [if_pos hcross, a2]
    refine ⟨_, rfl, ?_⟩
    intro y x c hy hx hc
    rw [hafc y x c hy hx hc]
    congr 1
    have hxn : ¬ (x ≥ e.w - s.w) := by omega
    simp only [fmAddr, toFM, TileBox.addrs, hxn, ↓reduceIte]
    rw [hxw x hx, hcw c hc, roundUp_mod]
    by_cases hlow : y ≥ roundUp (s.h + 1) v.h - s.h
    · simp only [hlow, ↓reduceIte]
      have hyw : (s.h + y) % v.h = 0 + (y - (roundUp (s.h + 1) v.h - s.h)) := by
        rw [wrap_hi s.h v.h (s.h + y) (by omega) (by omega) (by omega)]; omega
      rw [hyw]
      have hc0 : s.c % v.c = s.c := Nat.mod_eq_of_lt (by omega)
      rw [hc0]
      rw [linOffset_rel t st hreg _ 0 _ s.c _ x c hb16]
      simp only [List.getD_cons_succ, List.getD_cons_zero, Nat.zero_add]
      split <;> omega
    · simp only [hlow, ↓reduceIte]
      have hyw : (s.h + y) % v.h = s.h % v.h + y := wrap_lo s.h v.h y (by omega) (by omega)
      rw [hyw]
      have hc0 : s.c % v.c = s.c := Nat.mod_eq_of_lt (by omega)
      rw [hc0]
      rw [linOffset_rel t st hreg _ _ _ s.c y x c hb16]
      simp only [List.getD_cons_zero, Nat.zero_add]
      split <;> omega
  · -- one tile
    have hcy : min (roundUp (s.h + 1) v.h) e.h = e.h := by omega
    rw [hcy]
    rw [if_neg (by omega)]
    refine ⟨_, rfl, ?_⟩
    intro y x c hy hx hc
    rw [hafc y x c hy hx hc]
    congr 1
    have hxn : ¬ (x ≥ e.w - s.w) := by omega
    have hyn : ¬ (y ≥ e.h - s.h) := by omega
    simp only [fmAddr, toFM, TileBox.addrs, hxn, hyn, ↓reduceIte]
    rw [hxw x hx, hcw c hc]
    have hyw : (s.h + y) % v.h = s.h % v.h + y := wrap_lo s.h v.h y (by omega) (by omega)
    rw [hyw]
    have hc0 : s.c % v.c = s.c := Nat.mod_eq_of_lt (by omega)
    rw [hc0]
    rw [linOffset_rel t st hreg _ _ _ s.c y x c hb16]
    simp only [List.getD_cons_zero, Nat.zero_add]
    split <;> omega

theorem getStrides_eq (t : Tens) (op : Option S4) (v : S4) (hfmt : t.fmt ≠ .other) (hv : viewShape t op = .ok v) :
    getStrides t op = stridesOfView t.fmt t.elemSize v := by
  unfold getStrides
  rw [hv]
  cases h : t.fmt <;> simp_all

/-- the size the final assert compares with covers all elements of the view -/
theorem sizeForView_ge (t : Tens) (via : Bool) (v : S4) (size : Nat) (hrank : via = false → t.storageShape = v.toList)
    (h : sizeForView t via v = .ok size) : v.elems * t.elemSize ≤ size := by
  unfold sizeForView at h
  cases via
  · simp only [Bool.false_eq_true, if_false] at h
    unfold storageSize at h
    rw [hrank rfl, prod_toList] at h
    exact sizeOfElems_ge _ _ _ _ h
  · simp only [if_true] at h
    exact sizeOfElems_ge _ _ _ _ h

/-- with the strides of `get_strides`, the offset of an in-view coordinate is `element size × element index`,
    hence at least one element below the end of the view -/
theorem linOffset_bound (t : Tens) (v : S4) (st : Strides) (n y x c : Nat)
    (hfmt : t.fmt = .nhwc ∨ (t.fmt = .nhcwb16 ∧ v.c % 16 = 0))
    (hst : stridesOfView t.fmt t.elemSize v = .ok st)
    (hn : n < v.n) (hy : y < v.h) (hx : x < v.w) (hc : c < v.c) :
    linOffset t.fmt st n y x c + t.elemSize ≤ v.elems * t.elemSize := by
  rcases hfmt with hf | ⟨hf, h16⟩
  · rw [hf] at hst ⊢
    rw [linOffset_nhwc _ _ _ hst]
    have := idxNhwc_lt v n y x c hn hy hx hc
    have h2 : t.elemSize * (idxNhwc v n y x c + 1) ≤ t.elemSize * v.elems := Nat.mul_le_mul_left _ this
    have e1 : t.elemSize * (idxNhwc v n y x c + 1) = t.elemSize * idxNhwc v n y x c + t.elemSize := by ring
    have e2 : t.elemSize * v.elems = v.elems * t.elemSize := Nat.mul_comm _ _
    omega
  · rw [hf] at hst ⊢
    rw [linOffset_b16 _ _ _ hst h16 (by omega)]
    have := idxB16_lt v n y x c h16 hn hy hx hc
    have h2 : t.elemSize * (idxB16 v n y x c + 1) ≤ t.elemSize * v.elems := Nat.mul_le_mul_left _ this
    have e1 : t.elemSize * (idxB16 v n y x c + 1) = t.elemSize * idxB16 v n y x c + t.elemSize := by ring
    have e2 : t.elemSize * v.elems = v.elems * t.elemSize := Nat.mul_comm _ _
    omega

/-- strides of `get_strides` have the shape the registers assume -/
theorem stridesRegOk_of_view (t : Tens) (v : S4) (st : Strides) (hfmt : t.fmt ≠ .other)
    (hst : stridesOfView t.fmt t.elemSize v = .ok st) : stridesRegOk t st := by
  unfold stridesRegOk
  cases h : t.fmt
  · left; rw [h] at hst; simp only [stridesOfView, Except.ok.injEq] at hst; subst hst; simp
  · right; rw [h] at hst; simp only [stridesOfView, Except.ok.injEq] at hst; subst hst; simp
  · exact absurd h hfmt

/-- closed form for a coordinate inside the view, strides of `get_strides` -/
theorem offset_inview (t : Tens) (op : Option S4) (v : S4) (st : Strides) (size n y x c : Nat)
    (hfmt : t.fmt = .nhwc ∨ (t.fmt = .nhcwb16 ∧ v.c % 16 = 0)) (hp : t.purpose ≠ .weights)
    (hv : viewShape t op = .ok v)
    (hrank : (op.isSome && isStandardFm t) = false → t.storageShape = v.toList)
    (hassert : t.standard = true → inShape (coordOf n y x c) (assertShape t op) = true)
    (hin : n < v.n ∧ y < v.h ∧ x < v.w ∧ c < v.c)
    (hsize : sizeForView t (op.isSome && isStandardFm t) v = .ok size)
    (hs : stridesOfView t.fmt t.elemSize v = .ok st) :
    offsetForCoordinate t (coordOf n y x c) none op false = .ok (linOffset t.fmt st n y x c) := by
  have hfo : t.fmt ≠ .other := by rcases hfmt with h | ⟨h, _⟩ <;> rw [h] <;> decide
  have hst := getStrides_eq t op v hfo hv
  have hb := linOffset_bound t v st n y x c hfmt hs hin.1 hin.2.1 hin.2.2.1 hin.2.2.2
  have hge := sizeForView_ge t _ v size hrank hsize
  have hmod : linOffset t.fmt st (n % v.n) (y % v.h) (x % v.w) (c % v.c) = linOffset t.fmt st n y x c := by
    rw [Nat.mod_eq_of_lt hin.1, Nat.mod_eq_of_lt hin.2.1, Nat.mod_eq_of_lt hin.2.2.1, Nat.mod_eq_of_lt hin.2.2.2]
  rw [← hmod]
  exact offsetForCoordinate_eq t op none st v size n y x c hp hfo (by simp [stridesOrDefault, hst, hs]) hv hrank hassert
    ⟨by omega, by omega, by omega, by omega⟩ hsize (by rw [hmod]; omega)

theorem stridesOfView_ok (t : Tens) (v : S4) (hfmt : t.fmt = .nhwc ∨ (t.fmt = .nhcwb16 ∧ v.c % 16 = 0)) :
    ∃ st, stridesOfView t.fmt t.elemSize v = .ok st := by
  rcases hfmt with h | ⟨h, _⟩ <;> rw [h] <;> simp [stridesOfView]

/-- shared body of `offset_lt_size_nhwc` / `offset_lt_size_nhcwb16` -/
theorem offset_lt_size_both (t : Tens) (op : Option S4) (v : S4) (size n y x c : Nat)
    (hfmt : t.fmt = .nhwc ∨ (t.fmt = .nhcwb16 ∧ v.c % 16 = 0)) (hp : t.purpose ≠ .weights)
    (hv : viewShape t op = .ok v)
    (hrank : (op.isSome && isStandardFm t) = false → t.storageShape = v.toList)
    (hassert : t.standard = true → inShape (coordOf n y x c) (assertShape t op) = true)
    (hin : n < v.n ∧ y < v.h ∧ x < v.w ∧ c < v.c)
    (hsize : sizeForView t (op.isSome && isStandardFm t) v = .ok size) :
    ∃ off, offsetForCoordinate t (coordOf n y x c) none op false = .ok off ∧
      off + t.elemSize ≤ v.elems * t.elemSize ∧ v.elems * t.elemSize ≤ size := by
  obtain ⟨st, hs⟩ := stridesOfView_ok t v hfmt
  exact ⟨_, offset_inview t op v st size n y x c hfmt hp hv hrank hassert hin hsize hs,
    linOffset_bound t v st n y x c hfmt hs hin.1 hin.2.1 hin.2.2.1 hin.2.2.2, sizeForView_ge t _ v size hrank hsize⟩

/-- distinct in-view coordinates get disjoint element byte ranges (strides of `get_strides`) -/
theorem linOffset_disjoint (t : Tens) (v : S4) (st : Strides)
    (hfmt : t.fmt = .nhwc ∨ (t.fmt = .nhcwb16 ∧ v.c % 16 = 0))
    (hst : stridesOfView t.fmt t.elemSize v = .ok st)
    (n y x c n' y' x' c' : Nat)
    (hy : y < v.h) (hx : x < v.w) (hc : c < v.c) (hy' : y' < v.h) (hx' : x' < v.w) (hc' : c' < v.c)
    (hne : ¬ (n = n' ∧ y = y' ∧ x = x' ∧ c = c')) :
    linOffset t.fmt st n y x c + t.elemSize ≤ linOffset t.fmt st n' y' x' c' ∨
    linOffset t.fmt st n' y' x' c' + t.elemSize ≤ linOffset t.fmt st n y x c := by
  have key : ∀ i j : Nat, i ≠ j → t.elemSize * i + t.elemSize ≤ t.elemSize * j ∨ t.elemSize * j + t.elemSize ≤ t.elemSize * i := by
    intro i j hij
    rcases Nat.lt_or_gt_of_ne hij with h | h
    · left
      have : t.elemSize * (i + 1) ≤ t.elemSize * j := Nat.mul_le_mul_left _ h
      have e1 : t.elemSize * (i + 1) = t.elemSize * i + t.elemSize := by ring
      omega
    · right
      have : t.elemSize * (j + 1) ≤ t.elemSize * i := Nat.mul_le_mul_left _ h
      have e1 : t.elemSize * (j + 1) = t.elemSize * j + t.elemSize := by ring
      omega
  rcases hfmt with hf | ⟨hf, h16⟩
  · rw [hf] at hst ⊢
    rw [linOffset_nhwc _ _ _ hst, linOffset_nhwc _ _ _ hst]
    exact key _ _ (fun h => hne (idxNhwc_inj v n y x c n' y' x' c' hy hx hc hy' hx' hc' h))
  · rw [hf] at hst ⊢
    rw [linOffset_b16 _ _ _ hst h16 (by omega), linOffset_b16 _ _ _ hst h16 (by omega)]
    exact key _ _ (fun h => hne (idxB16_inj v n y x c n' y' x' c' h16 hy hx hc hy' hx' hc' h))

/-- the address of box element (y, x, c) computed from the registers is the tensor's address plus the offset of
    the wrapped coordinate (consequence of `tiles_cover_box_gen` and the closed form) -/
theorem fmAddr_eq_gen (t : Tens) (op v s e : S4) (st : Strides) (size : Nat)
    (hp : t.purpose ≠ .weights) (hreg : stridesRegOk t st)
    (hb16 : t.fmt = .nhcwb16 → s.c % 16 = 0)
    (hne : t.storageShape ≠ [])
    (hv : viewShape t (some op) = .ok v)
    (hrank : isStandardFm t = false → t.storageShape = v.toList)
    (hsize : sizeForView t (isStandardFm t) v = .ok size)
    (hbox : s.h < e.h ∧ s.w < e.w ∧ s.c < e.c)
    (hassert : t.standard = true → s.n < op.n ∧ e.h ≤ op.h ∧ e.w ≤ op.w ∧ e.c ≤ op.c)
    (hN : v.n ≠ 0) (hH : e.h - s.h ≤ v.h) (hW : e.w ≤ roundUp (s.w + 1) v.w) (hC : e.c ≤ v.c)
    (hfit : ∀ y x c, y < e.h - s.h → x < e.w - s.w → c < e.c - s.c →
        linOffset t.fmt st (s.n % v.n) ((s.h + y) % v.h) ((s.w + x) % v.w) ((s.c + c) % v.c) ≤ size)
    (tb : TileBox) (htb : addressesForRollingBuffer t s e st op = .ok tb)
    (y x c : Nat) (hy : y < e.h - s.h) (hx : x < e.w - s.w) (hc : c < e.c - s.c) :
    fmAddr (toFM t tb st s e) y x c =
      t.address + linOffset t.fmt st (s.n % v.n) ((s.h + y) % v.h) ((s.w + x) % v.w) ((s.c + c) % v.c) := by
  obtain ⟨tb', h1, h2⟩ := tiles_cover_box_gen t op v s e st size hp hreg hb16 hne hv hrank hsize hbox hassert hN hH hW hC hfit
  rw [htb] at h1
  injection h1 with h1
  subst h1
  have hfmt : t.fmt ≠ .other := by
    rcases hreg with ⟨hf, _⟩ | ⟨hf, _⟩ <;> rw [hf] <;> decide
  have hWpos : v.w ≠ 0 := by
    intro h0; rw [h0] at hW; simp [roundUp] at hW; omega
  have := addressForCoordinate_eq t op v st size s.n (s.h + y) (s.w + x) (s.c + c) hp hfmt hv hrank
    (fun hs => by have := hassert hs; omega) ⟨hN, by omega, hWpos, by omega⟩ hsize (hfit y x c hy hx hc)
  rw [h2 y x c hy hx hc] at this
  injection this

/-- `is_top_box`: the coordinate is decremented in every dimension and one element is added -/
theorem offsetForCoordinate_top (t : Tens) (op : Option S4) (sto : Option Strides) (st : Strides) (v : S4) (size n y x c : Nat)
    (hp : t.purpose ≠ .weights) (hfmt : t.fmt ≠ .other)
    (hst : stridesOrDefault t sto op = .ok st)
    (hv : viewShape t op = .ok v)
    (hrank : (op.isSome && isStandardFm t) = false → t.storageShape = v.toList)
    (hassert : t.standard = true → inShape (coordOf n y x c) (assertShape t op) = true)
    (hpos : v.n ≠ 0 ∧ v.h ≠ 0 ∧ v.w ≠ 0 ∧ v.c ≠ 0)
    (hsize : sizeForView t (op.isSome && isStandardFm t) v = .ok size)
    (hle : st.sE + linOffset t.fmt st (n % v.n) (y % v.h) (x % v.w) (c % v.c) ≤ size) :
    offsetForCoordinate t (coordOf (n + 1) (y + 1) (x + 1) (c + 1)) sto op true =
      .ok (st.sE + linOffset t.fmt st (n % v.n) (y % v.h) (x % v.w) (c % v.c)) := by
  unfold offsetForCoordinate
  have hp' : (t.purpose == Purpose.weights) = false := by
    cases h : t.purpose <;> simp_all
  rw [hp', hst]
  simp only [Bool.false_eq_true, if_false, if_true]
  have hm : List.map (fun x => x - 1) (coordOf (n + 1) (y + 1) (x + 1) (c + 1)) = coordOf n y x c := by
    simp [coordOf]
  rw [hm]
  have ha : (t.standard && !inShape (coordOf n y x c) (assertShape t op)) = false := by
    cases hs : t.standard
    · simp
    · simp [hassert hs]
  rw [ha, hv]
  simp only [Bool.false_eq_true, if_false]
  rw [hsize]
  simp only []
  have hw : wrapCoord (if (op.isSome && isStandardFm t) = true then coordOf n y x c
      else lastK (coordOf n y x c) t.storageShape.length)
      (if (op.isSome && isStandardFm t) = true then v.toList else t.storageShape) =
      .ok [n % v.n, y % v.h, x % v.w, c % v.c] := by
    cases hvia : (op.isSome && isStandardFm t)
    · have := hrank hvia
      simp only [Bool.false_eq_true, if_false, this]
      have hl : v.toList.length = 4 := rfl
      rw [hl, lastK4]
      exact wrapCoord4 n y x c v hpos.1 hpos.2.1 hpos.2.2.1 hpos.2.2.2
    · simp only [if_true]
      exact wrapCoord4 n y x c v hpos.1 hpos.2.1 hpos.2.2.1 hpos.2.2.2
  rw [hw]
  simp only []
  have hd : dotAug t.fmt st [n % v.n, y % v.h, x % v.w, c % v.c] =
      .ok (linOffset t.fmt st (n % v.n) (y % v.h) (x % v.w) (c % v.c)) := by
    unfold dotAug
    have : (t.fmt == Fmt.other) = false := by cases h : t.fmt <;> simp_all
    rw [this]; simp
  rw [hd]
  simp only []
  rw [if_pos hle]

end VelaVerif.TensorAddr
