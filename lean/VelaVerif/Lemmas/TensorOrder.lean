import Mathlib.Data.List.Sort
import VelaVerif.Model.OpIndices
/-! The writer's tensor order (Model/OpIndices.emitOrder): a permutation of the enumeration, sorted by name, hence
independent of the enumeration when names are pairwise distinct. -/
namespace VelaVerif.OpIndices

theorem insertBy_eq (le2 : β → β → Bool) (x : β) (l : List β) :
    insertBy le2 x l = List.orderedInsert (fun a b => le2 a b = true) x l := by
  induction l with
  | nil => rfl
  | cons y ys ih => simp only [insertBy, List.orderedInsert_cons, ih]

theorem isort_eq (le2 : β → β → Bool) (l : List β) :
    isort le2 l = List.insertionSort (fun a b => le2 a b = true) l := by
  induction l with
  | nil => rfl
  | cons y ys ih => simp only [isort, List.insertionSort_cons, ih, insertBy_eq]

theorem pairLe_total (le : α → α → Bool) (total : ∀ a b, le a b = true ∨ le b a = true) (x y : α × Nat) :
    pairLe le x y = true ∨ pairLe le y x = true := by
  unfold pairLe
  have := total x.1 y.1
  cases h1 : le x.1 y.1 <;> cases h2 : le y.1 x.1 <;> simp_all <;> omega

theorem pairLe_trans (le : α → α → Bool) (trans : ∀ a b c, le a b = true → le b c = true → le a c = true)
    (x y z : α × Nat) : pairLe le x y = true → pairLe le y z = true → pairLe le x z = true := by
  unfold pairLe
  have t1 := trans x.1 y.1 z.1; have t2 := trans z.1 y.1 x.1; have t3 := trans x.1 z.1 y.1
  have t4 := trans z.1 x.1 y.1; have t5 := trans y.1 z.1 x.1; have t6 := trans y.1 x.1 z.1
  cases h1 : le x.1 y.1 <;> cases h2 : le y.1 x.1 <;> cases h3 : le y.1 z.1 <;> cases h4 : le z.1 y.1 <;>
    cases h5 : le x.1 z.1 <;> cases h6 : le z.1 x.1 <;> simp_all <;> omega

theorem pairLe_fst (le : α → α → Bool) (x y : α × Nat) (h : pairLe le x y = true) : le x.1 y.1 = true := by
  unfold pairLe at h
  split at h
  · rename_i hc; simp only [Bool.and_eq_true] at hc; exact hc.1
  · exact h

theorem nodup_map_inj' {β : Type _} (f : α → β) : ∀ (l : List α), (l.map f).Nodup → ∀ x y, x ∈ l → y ∈ l → f x = f y → x = y
  | [], _, _, _, hx, _, _ => by simp at hx
  | a :: as, h, x, y, hx, hy, he => by
    simp only [List.map_cons, List.nodup_cons, List.mem_map, not_exists, not_and] at h
    rcases List.mem_cons.mp hx with rfl | hx' <;> rcases List.mem_cons.mp hy with rfl | hy'
    · rfl
    · exact absurd he.symm (h.1 y hy')
    · exact absurd he (h.1 x hx')
    · exact nodup_map_inj' f as h.2 x y hx' hy' he

theorem emitOrder_perm (le : α → α → Bool) (key : β → α) (l : List β) : (emitOrder le key l).Perm l := by
  unfold emitOrder
  rw [isort_eq]
  have h1 := (List.perm_insertionSort (fun (a b : β × Nat) => pairLe le (key a.1, a.2) (key b.1, b.2) = true) l.zipIdx).map (·.1)
  refine h1.trans ?_
  rw [List.zipIdx_map_fst]

theorem emitOrder_sorted (le : α → α → Bool) (key : β → α)
    (total : ∀ a b, le a b = true ∨ le b a = true) (trans : ∀ a b c, le a b = true → le b c = true → le a c = true)
    (l : List β) : (emitOrder le key l).Pairwise (fun a b => le (key a) (key b) = true) := by
  unfold emitOrder
  rw [isort_eq, List.pairwise_map]
  let R : β × Nat → β × Nat → Prop := fun a b => pairLe le (key a.1, a.2) (key b.1, b.2) = true
  have : Std.Total R := ⟨fun a b => pairLe_total le total _ _⟩
  have : IsTrans _ R := ⟨fun a b c => pairLe_trans le trans _ _ _⟩
  have := List.pairwise_insertionSort R l.zipIdx
  exact this.imp (fun {a b} h => pairLe_fst le _ _ h)

/-- with pairwise distinct names the emitted tensor order does not depend on the enumeration order of the set -/
theorem emitOrder_deterministic (le : α → α → Bool) (key : β → α)
    (total : ∀ a b, le a b = true ∨ le b a = true) (trans : ∀ a b c, le a b = true → le b c = true → le a c = true)
    (antisymm : ∀ a b, le a b = true → le b a = true → a = b)
    (l₁ l₂ : List β) (hp : l₁.Perm l₂) (hnd : (l₁.map key).Nodup) : emitOrder le key l₁ = emitOrder le key l₂ := by
  have p1 := emitOrder_perm le key l₁
  have p2 := emitOrder_perm le key l₂
  apply List.Perm.eq_of_pairwise (le := fun a b => le (key a) (key b) = true) _ (emitOrder_sorted le key total trans l₁)
    (emitOrder_sorted le key total trans l₂) (p1.trans (hp.trans p2.symm))
  intro a b ha hb h1 h2
  have ha' : a ∈ l₁ := p1.subset ha
  have hb' : b ∈ l₁ := hp.symm.subset (p2.subset hb)
  exact nodup_map_inj' key l₁ hnd a b ha' hb' (antisymm _ _ h1 h2)

end VelaVerif.OpIndices
