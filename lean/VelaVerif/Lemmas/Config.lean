import VelaVerif.Model.Config
import VelaVerif.Spec.Config
/-!
Helper lemmas for C18 (configuration resolution): inheritance chains, fuel, equivalence of the code's
lookup with the documented nearest-definition rule, inversion of the `Except` pipeline.
-/
namespace VelaVerif.Config
open VelaVerif.Spec.Config (chain nearest)

/-- the declarative inheritance chain of a section: `s` inherits from the head of `rest`, …, the last
    entry has no `inherit`; no section references itself.  A chain that *ends* is acyclic. -/
inductive IsChain (ini : Ini) : String → List (String × Section) → Prop
  | last {s o} : ini.lookup s = some o → o.lookup "inherit" = none → IsChain ini s [(s, o)]
  | step {s o p rest} : ini.lookup s = some o → o.lookup "inherit" = some p → p ≠ s →
      IsChain ini p rest → IsChain ini s ((s, o) :: rest)

theorem lookup_mem_keys {α : Type} {l : List (String × α)} {s : String} {o : α} (h : l.lookup s = some o) :
    s ∈ l.map Prod.fst := by
  induction l with
  | nil => simp [List.lookup] at h
  | cons x xs ih =>
    obtain ⟨k, v⟩ := x
    simp only [List.lookup] at h
    split at h
    · rename_i heq
      have : s = k := by simpa using heq
      simp [this]
    · simp [ih h]

theorem IsChain.det {ini : Ini} {s : String} {c1 c2 : List (String × Section)}
    (h1 : IsChain ini s c1) (h2 : IsChain ini s c2) : c1 = c2 := by
  induction h1 generalizing c2 with
  | @last s o hl hi =>
    cases h2 with
    | last hl2 hi2 => rw [hl] at hl2; cases hl2; rfl
    | step hl2 hi2 _ _ => rw [hl] at hl2; cases hl2; rw [hi] at hi2; cases hi2
  | @step s o p rest hl hi hne hr ih =>
    cases h2 with
    | last hl2 hi2 => rw [hl] at hl2; cases hl2; rw [hi] at hi2; cases hi2
    | step hl2 hi2 _ hr2 =>
      rw [hl] at hl2; cases hl2; rw [hi] at hi2; cases hi2
      rw [ih hr2]

theorem IsChain.head_eq {ini : Ini} {s : String} {ch : List (String × Section)} (h : IsChain ini s ch) :
    ∃ o rest, ch = (s, o) :: rest := by
  cases h with
  | last => exact ⟨_, _, rfl⟩
  | step => exact ⟨_, _, rfl⟩

/-- every entry of a chain starts a (shorter or equal) chain of its own -/
theorem IsChain.sub {ini : Ini} {s : String} {ch : List (String × Section)} (h : IsChain ini s ch) :
    ∀ t o, (t, o) ∈ ch → ∃ ch', IsChain ini t ch' ∧ ch'.length ≤ ch.length := by
  induction h with
  | @last s o hl hi =>
    intro t o' hm
    simp at hm
    obtain ⟨rfl, rfl⟩ := hm
    exact ⟨_, IsChain.last hl hi, Nat.le_refl _⟩
  | @step s o p rest hl hi hne hr ih =>
    intro t o' hm
    simp only [List.mem_cons] at hm
    rcases hm with hm | hm
    · cases hm
      exact ⟨_, IsChain.step hl hi hne hr, Nat.le_refl _⟩
    · obtain ⟨ch', hc, hlen⟩ := ih t o' hm
      exact ⟨ch', hc, by simp; omega⟩

theorem IsChain.names_nodup {ini : Ini} {s : String} {ch : List (String × Section)} (h : IsChain ini s ch) :
    (ch.map Prod.fst).Nodup := by
  induction h with
  | @last s o hl hi => simp
  | @step s o p rest hl hi hne hr ih =>
    simp only [List.map_cons, List.nodup_cons]
    refine ⟨?_, ih⟩
    intro hmem
    obtain ⟨⟨t, o'⟩, hm, ht⟩ := List.mem_map.mp hmem
    simp at ht
    subst ht
    obtain ⟨ch', hc, hlen⟩ := hr.sub _ _ hm
    have := (IsChain.step hl hi hne hr).det hc
    rw [← this] at hlen
    simp at hlen
    omega

theorem IsChain.names_mem {ini : Ini} {s : String} {ch : List (String × Section)} (h : IsChain ini s ch) :
    ∀ t ∈ ch.map Prod.fst, t ∈ ini.map Prod.fst := by
  induction h with
  | @last s o hl hi =>
    intro t ht
    simp at ht
    subst ht
    exact lookup_mem_keys hl
  | @step s o p rest hl hi hne hr ih =>
    intro t ht
    simp only [List.map_cons, List.mem_cons] at ht
    rcases ht with rfl | ht
    · exact lookup_mem_keys hl
    · exact ih t ht

/-- an inheritance chain that ends cannot be longer than the number of sections of the file -/
theorem IsChain.length_le {ini : Ini} {s : String} {ch : List (String × Section)} (h : IsChain ini s ch) :
    ch.length ≤ ini.length := by
  have h1 := List.Nodup.length_le_of_subset h.names_nodup (fun t ht => h.names_mem t ht)
  simpa using h1

def nearestIn (key : String) (ch : List (String × Section)) : Option String :=
  ch.findSome? (fun so => so.2.lookup key)

theorem readConfig_of_chain {ini : Ini} {s : String} {ch : List (String × Section)} (key : String)
    (h : IsChain ini s ch) : ∀ fuel, ch.length ≤ fuel → readConfig ini fuel s key = .ok (nearestIn key ch) := by
  induction h with
  | @last s o hl hi =>
    intro fuel hf
    cases fuel with
    | zero => simp at hf
    | succ f =>
      simp only [readConfig, hl, hi, nearestIn, List.findSome?]
      cases o.lookup key <;> rfl
  | @step s o p rest hl hi hne _ ih =>
    intro fuel hf
    cases fuel with
    | zero => simp at hf
    | succ f =>
      have hf' : rest.length ≤ f := by simpa using hf
      have hne' : (p == s) = false := by simpa using hne
      simp only [readConfig, hl, hi, hne', ih f hf', nearestIn, List.findSome?]
      cases o.lookup key <;> rfl

/-- The code's lookup (parent first, then the child's own option replaces it) equals the documented
    "nearest definition wins" over the chain, for every fuel — including when either rejects. -/
theorem readConfig_eq_chain (ini : Ini) (key : String) :
    ∀ fuel s, (readConfig ini fuel s key).toOption = (chain ini fuel s).map (nearest key) := by
  intro fuel
  induction fuel with
  | zero => intro s; simp [readConfig, chain, Except.toOption]
  | succ f ih =>
    intro s
    simp only [readConfig, chain]
    cases hl : ini.lookup s with
    | none => simp [Except.toOption]
    | some o =>
      simp only
      cases hi : o.lookup "inherit" with
      | none =>
        simp only [Option.map, nearest, List.findSome?]
        cases o.lookup key <;> simp [Except.toOption]
      | some p =>
        simp only
        by_cases hps : (p == s) = true
        · simp [hps, Except.toOption]
        · simp only [hps, if_false, Bool.false_eq_true]
          have := ih p
          cases hr : readConfig ini f p key with
          | error e =>
            rw [hr] at this
            simp only [Except.toOption] at this
            have hc : chain ini f p = none := by
              cases hcc : chain ini f p with
              | none => rfl
              | some c => rw [hcc] at this; simp at this
            simp [hc, Except.toOption]
          | ok r =>
            rw [hr] at this
            simp only [Except.toOption] at this
            cases hcc : chain ini f p with
            | none => rw [hcc] at this; simp at this
            | some c =>
              rw [hcc] at this
              simp only [Option.map, Option.some.injEq] at this
              simp only [Option.map, nearest, List.findSome?]
              cases o.lookup key with
              | some v => simp [Except.toOption]
              | none => simp [Except.toOption, this, nearest]

/-- A set of sections closed under `inherit` (every member has a parent in the set, other than itself)
    contains a cycle: the lookup runs out of every amount of fuel — Python's `RecursionError`. -/
theorem readConfig_closed_set (ini : Ini) (key : String) (S : String → Prop)
    (hS : ∀ s, S s → ∃ o p, ini.lookup s = some o ∧ o.lookup "inherit" = some p ∧ p ≠ s ∧ S p) :
    ∀ fuel s, S s → readConfig ini fuel s key = .error .recursion := by
  intro fuel
  induction fuel with
  | zero => intro s _; rfl
  | succ f ih =>
    intro s hs
    obtain ⟨o, p, hl, hi, hne, hp⟩ := hS s hs
    have hne' : (p == s) = false := by simpa using hne
    simp [readConfig, hl, hi, hne', ih p hp]

theorem readConfig_unknown_section (ini : Ini) (f : Nat) (s key : String) (h : ini.lookup s = none) :
    readConfig ini (f + 1) s key = .error .sectionNotFound := by
  simp [readConfig, h]

theorem readConfig_self_inherit (ini : Ini) (f : Nat) (s key : String) (o : Section)
    (h : ini.lookup s = some o) (hi : o.lookup "inherit" = some s) :
    readConfig ini (f + 1) s key = .error .selfInherit := by
  simp [readConfig, h, hi]

/-- an error anywhere up the chain is the result of the lookup, even if the child defines the key itself -/
theorem readConfig_parent_error (ini : Ini) (f : Nat) (s p key : String) (o : Section) (e : Err)
    (h : ini.lookup s = some o) (hi : o.lookup "inherit" = some p) (hne : p ≠ s)
    (hp : readConfig ini f p key = .error e) :
    readConfig ini (f + 1) s key = .error e := by
  have hne' : (p == s) = false := by simpa using hne
  simp [readConfig, h, hi, hne', hp]

theorem bind_eq_ok {ε α β : Type} {x : Except ε α} {f : α → Except ε β} {b : β} :
    (x >>= f) = .ok b ↔ ∃ a, x = .ok a ∧ f a = .ok b := by
  cases x with
  | error e => simp [bind, Except.bind]
  | ok a => simp [bind, Except.bind]

theorem fieldOr_none {α : Type} (d : α) (p : String → Option α) (e : Err) : fieldOr none d p e = .ok d := rfl

theorem fieldOr_ok {α : Type} {r : Option String} {d : α} {p : String → Option α} {e : Err} {x : α}
    (h : fieldOr r d p e = .ok x) : (r = none ∧ x = d) ∨ (∃ v, r = some v ∧ p v = some x) := by
  cases r with
  | none => left; simp [fieldOr] at h; exact ⟨rfl, h.symm⟩
  | some v =>
    right
    simp only [fieldOr] at h
    cases hp : p v with
    | none => rw [hp] at h; cases h
    | some y => rw [hp] at h; cases h; exact ⟨v, rfl, hp⟩

theorem sysFromFile_ok {rd : Reader} {s : SysCfg} (h : sysFromFile rd = .ok s) :
    ∃ rcc ra0 ra1 t0,
      rd "core_clock" = .ok rcc ∧ fieldOr rcc Dy.one parseFloat .valueError = .ok s.coreClock ∧
      rd "axi0_port" = .ok ra0 ∧ fieldOr ra0 MemArea.sram MemArea.ofName? .keyError = .ok s.axi0 ∧
      rd "axi1_port" = .ok ra1 ∧ fieldOr ra1 MemArea.sram MemArea.ofName? .keyError = .ok s.axi1 ∧
      readArea rd Tab.init s.axi0 = .ok t0 ∧ readArea rd t0 s.axi1 = .ok s.tab := by
  simp only [sysFromFile, bind_eq_ok, pure, Except.pure] at h
  obtain ⟨cc, ⟨rcc, h1, h2⟩, a0, ⟨ra0, h3, h4⟩, a1, ⟨ra1, h5, h6⟩, t0, h7, t1, h8, h9⟩ := h
  cases h9
  exact ⟨rcc, ra0, ra1, t0, h1, h2, h3, h4, h5, h6, h7, h8⟩

theorem sramOverride_keeps (s : SysCfg) (m : MemCfg) :
    (sramOverride s m).1.coreClock = s.coreClock ∧ (sramOverride s m).2.size = m.size ∧
    (sramOverride s m).2.arenaPort = m.arenaPort ∧ (sramOverride s m).2.cachePort = m.cachePort := by
  unfold sramOverride
  split
  · cases m.constPort <;> simp
  · simp

theorem checkArch_ok {maxAddr : Nat} {s : SysCfg} {m : MemCfg} {size : Int} {a : Arch}
    (h : checkArch maxAddr s m size = .ok a) :
    legalConstArea a.permanent = true ∧ legalArenaArea a.featureMap = true ∧ legalCacheArea a.fast = true ∧
    0 ≤ size ∧ size ≤ (maxAddr : Int) ∧
    a = { coreClock := s.coreClock, axi0 := s.axi0, axi1 := s.axi1, tab := s.tab,
          constPort := m.constPort, arenaPort := m.arenaPort, cachePort := m.cachePort,
          arenaCacheSize := size, permanent := portArea s.axi0 s.axi1 m.constPort,
          featureMap := portArea s.axi0 s.axi1 m.arenaPort, fast := portArea s.axi0 s.axi1 m.cachePort } := by
  simp only [checkArch] at h
  split at h
  · split at h
    · split at h
      · split at h
        · cases h
        · split at h
          · cases h
          · cases h
            rename_i h1 h2 h3 h4 h5
            exact ⟨h1, h2, h3, by omega, by omega, rfl⟩
      · cases h
    · cases h
  · cases h

theorem readArea_ok {rd : Reader} {t t' : Tab} {a : MemArea} (h : readArea rd t a = .ok t') :
    ∃ row r1 r2 r3 r4 sc bl rl wl, t.get? a = some row ∧
      rd (a.key ++ "_clock_scale") = .ok r1 ∧ fieldOr r1 row.scale parseFloat .valueError = .ok sc ∧
      rd (a.key ++ "_burst_length") = .ok r2 ∧ intField r2 row.burst = .ok bl ∧
      rd (a.key ++ "_read_latency") = .ok r3 ∧ intField r3 row.rlat = .ok rl ∧
      rd (a.key ++ "_write_latency") = .ok r4 ∧ intField r4 row.wlat = .ok wl ∧
      t' = t.set a ⟨sc, bl, rl, wl⟩ := by
  unfold readArea at h
  cases hg : t.get? a with
  | none => rw [hg] at h; cases h
  | some row =>
    rw [hg] at h
    simp only [bind_eq_ok, pure, Except.pure] at h
    obtain ⟨sc, ⟨r1, h1, h2⟩, bl, ⟨r2, h3, h4⟩, rl, ⟨r3, h5, h6⟩, wl, ⟨r4, h7, h8⟩, h9⟩ := h
    cases h9
    exact ⟨row, r1, r2, r3, r4, sc, bl, rl, wl, rfl, h1, h2, h3, h4, h5, h6, h7, h8, rfl⟩

theorem intField_none (d : Int) (hd : -(2 ^ 63 : Int) ≤ d ∧ d < (2 ^ 63 : Int)) : intField none d = .ok d := by
  obtain ⟨h1, h2⟩ := hd
  simp only [intField, fieldOr]
  split
  · rename_i h
    simp only [Bool.or_eq_true, decide_eq_true_eq] at h
    omega
  · rfl

theorem memFromFile_ok {rd : Reader} {maxAddr : Nat} {m : MemCfg} (h : memFromFile rd maxAddr = .ok m) :
    ∃ rc ra rk rs,
      rd "const_mem_area" = .ok rc ∧ fieldOr rc MemPort.axi0 MemPort.ofName? .keyError = .ok m.constPort ∧
      rd "arena_mem_area" = .ok ra ∧ fieldOr ra MemPort.axi0 MemPort.ofName? .keyError = .ok m.arenaPort ∧
      rd "cache_mem_area" = .ok rk ∧ fieldOr rk MemPort.axi0 MemPort.ofName? .keyError = .ok m.cachePort ∧
      rd "arena_cache_size" = .ok rs ∧ fieldOr rs (maxAddr : Int) parseInt .valueError = .ok m.size := by
  simp only [memFromFile, bind_eq_ok, pure, Except.pure] at h
  obtain ⟨c, ⟨rc, h1, h2⟩, a, ⟨ra, h3, h4⟩, k, ⟨rk, h5, h6⟩, sz, ⟨rs, h7, h8⟩, h9⟩ := h
  cases h9
  exact ⟨rc, ra, rk, rs, h1, h2, h3, h4, h5, h6, h7, h8⟩

theorem getVelaConfig_ok {inp : Input} {a : Arch} (h : getVelaConfig inp = .ok a) :
    ∃ s m, sysStage inp = .ok s ∧ memStage inp = .ok m ∧ finalize inp.maxAddr inp.cli s m = .ok a := by
  simp only [getVelaConfig, bind_eq_ok] at h
  obtain ⟨s, hs, m, hm, hf⟩ := h
  exact ⟨s, m, hs, hm, hf⟩

theorem getVelaConfig_sys_error {inp : Input} {e : Err} (h : sysStage inp = .error e) :
    getVelaConfig inp = .error e := by
  simp [getVelaConfig, h, bind, Except.bind]

theorem getVelaConfig_mem_error {inp : Input} {s : SysCfg} {e : Err} (hs : sysStage inp = .ok s)
    (h : memStage inp = .error e) : getVelaConfig inp = .error e := by
  simp [getVelaConfig, hs, h, bind, Except.bind]

theorem finalize_ok {maxAddr : Nat} {cli : Option Int} {s0 : SysCfg} {m0 : MemCfg} {a : Arch}
    (h : finalize maxAddr cli s0 m0 = .ok a) :
    legalConstArea a.permanent = true ∧ legalArenaArea a.featureMap = true ∧ legalCacheArea a.fast = true ∧
    0 ≤ a.arenaCacheSize ∧ a.arenaCacheSize ≤ (maxAddr : Int) ∧
    a.arenaCacheSize = chosenSize cli m0.size ∧
    a.permanent = portArea a.axi0 a.axi1 a.constPort ∧ a.featureMap = portArea a.axi0 a.axi1 a.arenaPort ∧
    a.fast = portArea a.axi0 a.axi1 a.cachePort ∧
    a.coreClock = s0.coreClock ∧ a.arenaPort = m0.arenaPort ∧ a.cachePort = m0.cachePort := by
  have hk := sramOverride_keeps s0 m0
  simp only [finalize] at h
  obtain ⟨h1, h2, h3, h4, h5, h6⟩ := checkArch_ok h
  subst h6
  refine ⟨h1, h2, h3, h4, h5, ?_, rfl, rfl, rfl, ?_, ?_, ?_⟩
  · simp only [hk.2.1]
  · exact hk.1
  · exact hk.2.2.1
  · exact hk.2.2.2

theorem getVelaConfig_of_stages (inp : Input) (s : SysCfg) (m : MemCfg) (h1 : sysStage inp = .ok s)
    (h2 : memStage inp = .ok m) : getVelaConfig inp = finalize inp.maxAddr inp.cli s m := by
  simp only [getVelaConfig, h1, h2, bind, Except.bind]

theorem sysStage_no_file (inp : Input) (h : inp.ini = none) (hn : inp.systemConfig = defaultName) :
    sysStage inp = .ok (if inp.imx93 then imx93Sys else defaultSys inp.isU65) := by
  simp [sysStage, h, hn]

theorem memStage_no_file (inp : Input) (h : inp.ini = none) (hn : inp.memoryMode = defaultName) :
    memStage inp = .ok (defaultMem inp.isU65 inp.maxAddr) := by
  simp [memStage, h, hn]

theorem finalize_default_u65 (maxAddr : Nat) (h : 393216 ≤ maxAddr) :
    finalize maxAddr none (defaultSys true) (defaultMem true maxAddr) =
      .ok { coreClock := ⟨false, 1953125, 9⟩, axi0 := .sram, axi1 := .dram,
            tab := { Tab.init with sram := ⟨Dy.one, 32, 32, 32⟩, dram := ⟨⟨false, 3, -2⟩, 128, 500, 250⟩ },
            constPort := .axi1, arenaPort := .axi1, cachePort := .axi0, arenaCacheSize := 393216,
            permanent := .dram, featureMap := .dram, fast := .sram } := by
  have e : defaultMem true maxAddr = ⟨.axi1, .axi1, .axi0, 393216⟩ := by
    simp only [defaultMem, if_true]; rfl
  have e2 : sramOverride (defaultSys true) ⟨.axi1, .axi1, .axi0, 393216⟩ =
      (defaultSys true, ⟨.axi1, .axi1, .axi0, 393216⟩) := rfl
  rw [e]
  simp only [finalize, e2, chosenSize, checkArch]
  have h1 : ¬ ((393216 : Int) < 0) := by omega
  have h2 : ¬ ((393216 : Int) > (maxAddr : Int)) := by omega
  simp only [h1, h2, if_false]
  rfl

theorem finalize_default_u55 (maxAddr : Nat) :
    finalize maxAddr none (defaultSys false) (defaultMem false maxAddr) =
      .ok { coreClock := ⟨false, 1953125, 8⟩, axi0 := .sram, axi1 := .offChipFlash,
            tab := { Tab.init with sram := ⟨Dy.one, 32, 32, 32⟩, offChipFlash := ⟨⟨false, 1, -3⟩, 128, 64, 64⟩ },
            constPort := .axi1, arenaPort := .axi0, cachePort := .axi0, arenaCacheSize := maxAddr,
            permanent := .offChipFlash, featureMap := .sram, fast := .sram } := by
  have e : defaultMem false maxAddr = ⟨.axi1, .axi0, .axi0, maxAddr⟩ := by
    simp only [defaultMem]; rfl
  have e2 : sramOverride (defaultSys false) ⟨.axi1, .axi0, .axi0, maxAddr⟩ =
      (defaultSys false, ⟨.axi1, .axi0, .axi0, maxAddr⟩) := rfl
  rw [e]
  simp only [finalize, e2, chosenSize, checkArch]
  have h1 : ¬ ((maxAddr : Int) < 0) := by omega
  have h2 : ¬ ((maxAddr : Int) > (maxAddr : Int)) := by omega
  simp only [h1, h2, if_false]
  rfl

end VelaVerif.Config
