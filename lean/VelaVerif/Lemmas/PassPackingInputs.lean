import VelaVerif.Lemmas.PassPackingShape2
/-!
# The input set of the walk (`Model/PassPacking.lean`): why a tensor is in it, and that every input of an accepted operator is accounted for
-/
namespace VelaVerif.Lemmas.PassPackingWalk
open VelaVerif.PassPacking VelaVerif.Gen.PassPacking VelaVerif.PassPackingSpec

section
variable (R : Rules) (G : Graph)

/-- why a tensor is in the input set: some accepted operator reads it and `can_pack` refused, or its producer was tried and no
    row accepted it (and none ever will: the flags only grow) -/
def InWhy (w : Walk) (t : Nat) : Prop :=
  (∃ c ∈ w.ops, some t ∈ (G.op c).inputs ∧ canPack R G t c ≠ some true) ∨
  (∃ pr c, (G.tensor t).ops = [pr] ∧ c ∈ w.ops ∧ some t ∈ (G.op c).inputs ∧ pr ∉ w.ops ∧
    ∀ r ∈ R.rows, rowAccepts r (G.op pr).type (G.op pr).runOnNpu w.flags = false)

/-- every input of an accepted operator is accounted for -/
def Covered (w : Walk) (c t : Nat) : Prop :=
  t ∈ w.inputSet ∨ (canPack R G t c = some true ∧ ∃ pr, (G.tensor t).ops = [pr] ∧ (pr ∈ w.ops ∨ ∃ q ∈ w.queue, q.op = pr ∧ q.tens = some t))

structure WInvB (w : Walk) : Prop where
  why : w.err = none → ∀ t ∈ w.inputSet, InWhy R G w t
  cover : w.err = none → ∀ c ∈ w.ops, ∀ t, some t ∈ (G.op c).inputs → Covered R G w c t

theorem mem_setInsert {l : List Nat} {x y : Nat} : y ∈ setInsert l x ↔ y ∈ l ∨ y = x := by
  unfold setInsert
  split
  · rename_i h
    constructor
    · exact Or.inl
    · rintro (h1 | rfl)
      · exact h1
      · exact List.contains_iff_mem.mp h
  · simp

/-- a row that refuses at some flags refuses at more flags -/
theorem rowAccepts_mono {r r0 : Row} {ty : Nat} {npu : Bool} {f : Nat} (h0 : r0.toClear = 0)
    (h : rowAccepts r ty npu f = false) : rowAccepts r ty npu (flagStep f r0) = false := by
  cases hx : rowAccepts r ty npu (flagStep f r0) with
  | false => rfl
  | true =>
    exfalso
    unfold rowAccepts at h hx
    simp only [Bool.and_eq_true, beq_iff_eq] at hx
    obtain ⟨⟨h1, h2⟩, h3⟩ := hx
    have hsub : Sub f (flagStep f r0) := by
      unfold Sub flagStep; rw [h0, clearBits_zero]
      apply Nat.eq_of_testBit_eq; intro i
      simp only [Nat.testBit_and, Nat.testBit_or]
      cases Nat.testBit f i <;> cases Nat.testBit r0.toSet i <;> rfl
    have := sub_disjoint hsub h2
    have hB : (f &&& r.incompat == 0) = true := by simp [this]
    rw [h1, hB, h3] at h
    exact Bool.noConfusion h


theorem findRowFrom_none (ty : Nat) (npu : Bool) (f : Nat) (k : Nat) (rs : List Row)
    (h : findRowFrom ty npu f k rs = none) : ∀ r ∈ rs, rowAccepts r ty npu f = false := by
  induction rs generalizing k with
  | nil => simp
  | cons r0 rest ih =>
    simp only [findRowFrom] at h
    split at h
    · simp at h
    · rename_i hacc
      intro r hr
      rcases List.mem_cons.mp hr with rfl | hr
      · simpa using hacc
      · exact ih (k + 1) h r hr

theorem findRow_none (ty : Nat) (npu : Bool) (f : Nat) (h : findRow R ty npu f = none) :
    ∀ r ∈ R.rows, rowAccepts r ty npu f = false := findRowFrom_none ty npu f 0 R.rows h

/-- `scanInputs` in detail -/
theorem scanInputs_detail (cur : Nat) (l : List (Option Nat)) (w : Walk) (herr : (scanInputs R G cur l w).err = none) :
    (∀ q ∈ w.queue, q ∈ (scanInputs R G cur l w).queue) ∧
    (∀ t ∈ w.inputSet, t ∈ (scanInputs R G cur l w).inputSet) ∧
    (∀ t ∈ (scanInputs R G cur l w).inputSet, t ∈ w.inputSet ∨ (some t ∈ l ∧ canPack R G t cur ≠ some true)) ∧
    (∀ t, some t ∈ l → t ∈ (scanInputs R G cur l w).inputSet ∨
      (canPack R G t cur = some true ∧ ∃ pr, (G.tensor t).ops = [pr] ∧ ∃ q ∈ (scanInputs R G cur l w).queue, q.op = pr ∧ q.tens = some t)) := by
  induction l generalizing w with
  | nil => simp [scanInputs]
  | cons i rest ih =>
    cases i with
    | none =>
      simp only [scanInputs] at herr ⊢
      obtain ⟨h1, h2, h3, h4⟩ := ih w herr
      refine ⟨h1, h2, ?_, ?_⟩
      · intro t ht
        rcases h3 t ht with h | ⟨h, h'⟩
        · exact Or.inl h
        · exact Or.inr ⟨List.mem_cons_of_mem _ h, h'⟩
      · intro t ht
        simp only [List.mem_cons, reduceCtorEq, false_or] at ht
        exact h4 t ht
    | some inp =>
      cases hcp : canPack R G inp cur with
      | none => simp [scanInputs, hcp] at herr
      | some b =>
        cases b with
        | true =>
          simp only [scanInputs, hcp] at herr ⊢
          obtain ⟨h1, h2, h3, h4⟩ := ih _ herr
          refine ⟨fun q hq => h1 q (List.mem_append_left _ hq), h2, ?_, ?_⟩
          · intro t ht
            rcases h3 t ht with h | ⟨h, h'⟩
            · exact Or.inl h
            · exact Or.inr ⟨List.mem_cons_of_mem _ h, h'⟩
          · intro t ht
            rcases List.mem_cons.mp ht with heq | ht
            · have : t = inp := (Option.some.inj heq)
              subst this
              right
              refine ⟨hcp, (G.tensor t).ops.headD 0, canPack_true_ops R G hcp, ?_⟩
              exact ⟨⟨(G.tensor t).ops.headD 0, some t, some cur⟩, h1 _ (List.mem_append_right _ (List.mem_singleton.mpr rfl)), rfl, rfl⟩
            · exact h4 t ht
        | false =>
          simp only [scanInputs, hcp] at herr ⊢
          obtain ⟨h1, h2, h3, h4⟩ := ih _ herr
          refine ⟨h1, fun t ht => h2 t (mem_setInsert.mpr (Or.inl ht)), ?_, ?_⟩
          · intro t ht
            rcases h3 t ht with h | ⟨h, h'⟩
            · rcases mem_setInsert.mp h with h | rfl
              · exact Or.inl h
              · exact Or.inr ⟨List.mem_cons_self, by rw [hcp]; simp⟩
            · exact Or.inr ⟨List.mem_cons_of_mem _ h, h'⟩
          · intro t ht
            rcases List.mem_cons.mp ht with heq | ht
            · have : t = inp := (Option.some.inj heq)
              subst this
              exact Or.inl (h2 t (mem_setInsert.mpr (Or.inr rfl)))
            · exact h4 t ht

theorem setIfm_ok (w : Walk) (o : POp) (r : Row) (h : (setIfm G w o r).err = none) :
    (setIfm G w o r).queue = w.queue := by
  unfold setIfm at h ⊢
  by_cases h0 : (hasFlag r.toSet flagNpu && hasFlag r.toSet ifmRowMask) = true
  · simp only [h0, if_true] at h ⊢
    by_cases h1 : o.inputs.length < 1
    · simp [h1] at h
    · simp only [h1, if_false] at h ⊢
      cases h2 : o.ifm with
      | none => simp [h2] at h
      | some t =>
        simp only [h2] at h ⊢
        by_cases h3 : ((G.tensor t).purpose != purposeFeatureMap) = true
        · simp [h3] at h
        · simp [h3]
  · simp [h0]

/-- a successful `acceptOp` is `scanInputs` on the state with the new entry -/
theorem acceptOp_ok (w : Walk) (q : QItem) (ri : Nat) (r : Row) (h : (acceptOp R G w q ri r).err = none) :
    ∃ w1, acceptOp R G w q ri r = scanInputs R G q.op (G.op q.op).inputs.reverse w1 ∧ w1.acc = newAcc q ri :: w.acc ∧
      w1.flags = flagStep w.flags r ∧ w1.queue = w.queue ∧ w1.inputSet = w.inputSet := by
  have hf := setIfm_frame G (acceptCore G w q ri r) (G.op q.op) r
  by_cases hb : (blockTypeOf (G.op q.op).type != 0 && (w.blockType != 0 || w.primary.isSome)) = true
  · have : acceptOp R G w q ri r = w.fail "assert: one major block type per pass" := by
      unfold acceptOp; simp only [hb, if_true]
    rw [this] at h; simp at h
  · by_cases hs : (setIfm G (acceptCore G w q ri r) (G.op q.op) r).err.isSome = true
    · have : acceptOp R G w q ri r = setIfm G (acceptCore G w q ri r) (G.op q.op) r := by
        unfold acceptOp; simp only [hb, hs, if_true]; rfl
      rw [this] at h; rw [h] at hs; simp at hs
    · by_cases hfb : (r.set.isNone && (G.op q.op).runOnNpu) = true
      · have : acceptOp R G w q ri r =
            (setIfm G (acceptCore G w q ri r) (G.op q.op) r).fail "assert not curr_op.run_on_npu (fall-back row)" := by
          unfold acceptOp; simp only [hb, hs, hfb, if_true]; rfl
        rw [this] at h; simp at h
      · have : acceptOp R G w q ri r =
            scanInputs R G q.op (G.op q.op).inputs.reverse (setIfm G (acceptCore G w q ri r) (G.op q.op) r) := by
          unfold acceptOp; simp only [hb, hs, hfb]; rfl
        refine ⟨_, this, hf.1, hf.2.1, ?_, hf.2.2.2.2.1⟩
        have he : (setIfm G (acceptCore G w q ri r) (G.op q.op) r).err = none := by
          cases he : (setIfm G (acceptCore G w q ri r) (G.op q.op) r).err with
          | none => rfl
          | some e => simp [he] at hs
        exact setIfm_ok G _ _ _ he


theorem walkStep_invB (hc : NoClear R) (start : List Nat) (w : Walk) (hA : WInv R G start w) (h : WInvB R G w) :
    WInvB R G (walkStep R G w) := by
  have herr := walkStep_err R G w
  revert herr
  unfold walkStep
  split
  · intro _; exact h
  · rename_i q rest hqr
    have hq : QOk R G w.ops start q := hA.queue q (by simp [hqr])
    simp only []
    split
    · -- already in the pass
      rename_i hcont
      have hqin : q.op ∈ w.ops := List.contains_iff_mem.mp hcont
      intro _
      refine ⟨h.why, ?_⟩
      intro he c hc' t ht
      rcases h.cover he c hc' t ht with h1 | ⟨hcp, pr, hpr, h2⟩
      · exact Or.inl h1
      · refine Or.inr ⟨hcp, pr, hpr, ?_⟩
        rcases h2 with h2 | ⟨q', hq', hqo, hqt⟩
        · exact Or.inl h2
        · rw [hqr] at hq'
          rcases List.mem_cons.mp hq' with rfl | hq'
          · exact Or.inl (hqo ▸ hqin)
          · exact Or.inr ⟨q', hq', hqo, hqt⟩
    · rename_i hncont
      have hqnot : q.op ∉ w.ops := fun hm => hncont (List.contains_iff_mem.mpr hm)
      split
      · -- accepted
        rename_i ri r hfr
        have hrow := findRow_spec R _ _ _ _ _ hfr
        intro herr
        by_cases he : (acceptOp R G { w with queue := rest } q ri r).err = none
        · have hwerr : w.err = none := herr he
          obtain ⟨w1, heq, hacc1, hfl1, hq1, hin1⟩ := acceptOp_ok R G { w with queue := rest } q ri r he
          have hsf := scanInputs_frame R G q.op (G.op q.op).inputs.reverse w1
          rw [heq] at he ⊢
          obtain ⟨d1, d2, d3, d4⟩ := scanInputs_detail R G q.op (G.op q.op).inputs.reverse w1 he
          have hops' : (scanInputs R G q.op (G.op q.op).inputs.reverse w1).ops = q.op :: w.ops := by
            simp [Walk.ops, hsf.1, hacc1, newAcc]
          have hflags' : (scanInputs R G q.op (G.op q.op).inputs.reverse w1).flags = flagStep w.flags r := hsf.2.1.trans hfl1
          have hr0 : r.toClear = 0 := hc r (List.mem_of_getElem? hrow.1)
          refine ⟨?_, ?_⟩
          · intro _ t ht
            rcases d3 t ht with hold | ⟨hl, hcp⟩
            · rw [hin1] at hold
              rcases h.why hwerr t hold with ⟨c, hc', hin, hcp⟩ | ⟨pr, c, hpr, hc', hin, hprn, hrej⟩
              · exact Or.inl ⟨c, by rw [hops']; exact List.mem_cons_of_mem _ hc', hin, hcp⟩
              · refine Or.inr ⟨pr, c, hpr, by rw [hops']; exact List.mem_cons_of_mem _ hc', hin, ?_, ?_⟩
                · rw [hops']
                  intro hm
                  rcases List.mem_cons.mp hm with heq' | hm
                  · have := hrej r (List.mem_of_getElem? hrow.1)
                    rw [heq'] at this
                    rw [hrow.2] at this; exact Bool.noConfusion this
                  · exact hprn hm
                · intro r' hr'
                  rw [hflags']
                  exact rowAccepts_mono hr0 (hrej r' hr')
            · exact Or.inl ⟨q.op, by rw [hops']; exact List.mem_cons_self, by simpa using hl, hcp⟩
          · intro he' c hc' t ht
            rw [hops'] at hc'
            rcases List.mem_cons.mp hc' with rfl | hc'
            · rcases d4 t (by simpa using ht) with h1 | ⟨hcp, pr, hpr, q', hq', hqo, hqt⟩
              · exact Or.inl h1
              · exact Or.inr ⟨hcp, pr, hpr, Or.inr ⟨q', hq', hqo, hqt⟩⟩
            · rcases h.cover hwerr c hc' t ht with h1 | ⟨hcp, pr, hpr, h2⟩
              · exact Or.inl (d2 t (by rw [hin1]; exact h1))
              · refine Or.inr ⟨hcp, pr, hpr, ?_⟩
                rcases h2 with h2 | ⟨q', hq', hqo, hqt⟩
                · exact Or.inl (by rw [hops']; exact List.mem_cons_of_mem _ h2)
                · rw [hqr] at hq'
                  rcases List.mem_cons.mp hq' with rfl | hq'
                  · exact Or.inl (by rw [hops', hqo]; exact List.mem_cons_self)
                  · exact Or.inr ⟨q', d1 q' (by rw [hq1]; exact hq'), hqo, hqt⟩
        · exact ⟨fun he' => absurd he' he, fun he' => absurd he' he⟩
      · -- no row accepts
        have hrej := findRow_none R _ _ _ (by assumption)
        split
        · intro _; exact ⟨by simp, by simp⟩
        · rename_i t0 ht0
          intro _
          unfold QOk at hq
          rw [ht0] at hq
          cases hqc : q.cons with
          | none => rw [hqc] at hq; exact hq.elim
          | some c0 =>
            rw [hqc] at hq
            obtain ⟨hc0, hcp0, hops0, hin0⟩ := hq
            refine ⟨?_, ?_⟩
            · intro he t ht
              rcases mem_setInsert.mp ht with ht | rfl
              · exact h.why he t ht
              · exact Or.inr ⟨q.op, c0, hops0, hc0, hin0, hqnot, hrej⟩
            · intro he c hc' t ht
              rcases h.cover he c hc' t ht with h1 | ⟨hcp, pr, hpr, h2⟩
              · exact Or.inl (mem_setInsert.mpr (Or.inl h1))
              · rcases h2 with h2 | ⟨q', hq', hqo, hqt⟩
                · exact Or.inr ⟨hcp, pr, hpr, Or.inl h2⟩
                · rw [hqr] at hq'
                  rcases List.mem_cons.mp hq' with rfl | hq'
                  · left
                    have : t = t0 := by rw [ht0] at hqt; exact (Option.some.inj hqt).symm
                    exact mem_setInsert.mpr (Or.inr this)
                  · exact Or.inr ⟨hcp, pr, hpr, Or.inr ⟨q', hq', hqo, hqt⟩⟩

theorem walkRun_invB (hc : NoClear R) (start : List Nat) (n : Nat) (w : Walk) (hA : WInv R G start w) (h : WInvB R G w) :
    WInvB R G (walkRun R G n w) := by
  induction n generalizing w with
  | zero =>
    simp only [walkRun]; split
    · exact h
    · exact ⟨by simp, by simp⟩
  | succ n ih =>
    simp only [walkRun]; split
    · exact h
    · exact ih _ (walkStep_inv R G start w hA) (walkStep_invB R G hc start w hA h)

theorem walkStart_invB (start : List Nat) : WInvB R G (walkStart start) :=
  ⟨by simp [walkStart], by simp [walkStart, Walk.ops]⟩

end
end VelaVerif.Lemmas.PassPackingWalk
