import VelaVerif.Model.Emit
import VelaVerif.Spec.OpCheck
/-!
A concrete operation list (Ethos-U55-128: a 3x3 convolution NHWC → NHCWB16 with a two-tile OFM and a RELU6 clamp,
a DMA, and an elementwise ADD that reads the convolution's OFM, with a broadcast IFM2 the DMA has just written) and the
words the **real** `npu_generate_register_command_stream` returned for it (printed by the harness, pasted here).
Used by `Props.C06.example_stream_encodes` as the non-vacuity instance: the model generates exactly these words, 25
register writes are elided, and the specification comparator accepts the stream.
-/
namespace VelaVerif.EmitExample
open VelaVerif VelaVerif.Emit VelaVerif.NpuOp

def exArch : Arch := ⟨false, 1, 16⟩

def exOps : List Op :=
  [ .block { kind := .conv, subOp := 0, ifm := { dtype := ⟨8, true⟩, region := 1, shape := ⟨8, 8, 16⟩, height0 := 8, height1 := 8, width0 := 8, addresses := [0, 0, 0, 0], hasQuant := true, zeroPoint := (-3), nhcwb16 := false, strides := none, scaled := true }, ifm2 := none, ifm2Scalar := none, ofm := { dtype := ⟨8, true⟩, region := 1, shape := ⟨6, 6, 32⟩, height0 := 4, height1 := 4, width0 := 6, addresses := [4096, 0, 8192, 0], hasQuant := true, zeroPoint := 5, nhcwb16 := true, strides := none, scaled := true }, kernel := some ⟨3, 3, 1, 1, 1, 1⟩, padding := some ⟨0, 0, 0, 0⟩, weights := [⟨0, 1024, 4624⟩], biases := [⟨0, 64, 320⟩], activation := some ⟨0, some 5, some 29, 0⟩, blockConfig := ⟨2, 2, 128⟩, rounding := 0, upscale := 0, partKernelFirst := false, reversedOperands := false, rescaleKind := 0, fusedQuantize := false, oracle := { ibEnd := 6, abStart := 14, ibStart2 := 6, accFormat := 0, blockdep := 0, kernelWait := (-1), dmaWait := (-1), opToScale := 0, ofmScale := none, opaScale := none, opbScale := none } },
    .dma { src := ⟨0, 16384, 256⟩, dst := ⟨1, 32768, 256⟩, channel := 0, mode := 0, kernelWait := (-1), dmaWait := (-1) },
    .block { kind := .elementwise, subOp := 0, ifm := { dtype := ⟨8, true⟩, region := 1, shape := ⟨6, 6, 32⟩, height0 := 4, height1 := 4, width0 := 6, addresses := [4096, 0, 8192, 0], hasQuant := true, zeroPoint := 5, nhcwb16 := true, strides := none, scaled := true }, ifm2 := some { dtype := ⟨8, true⟩, region := 1, shape := ⟨1, 1, 32⟩, height0 := 1, height1 := 1, width0 := 1, addresses := [32768, 0, 0, 0], hasQuant := true, zeroPoint := 0, nhcwb16 := false, strides := none, scaled := true }, ifm2Scalar := none, ofm := { dtype := ⟨8, true⟩, region := 1, shape := ⟨6, 6, 32⟩, height0 := 6, height1 := 6, width0 := 6, addresses := [12288, 0, 0, 0], hasQuant := true, zeroPoint := (-128), nhcwb16 := true, strides := none, scaled := true }, kernel := none, padding := none, weights := [], biases := [], activation := none, blockConfig := ⟨4, 4, 8⟩, rounding := 2, upscale := 0, partKernelFirst := false, reversedOperands := false, rescaleKind := 0, fusedQuantize := false, oracle := { ibEnd := 22, abStart := 22, ibStart2 := 6, accFormat := 0, blockdep := 3, kernelWait := (-1), dmaWait := 0, opToScale := 2, ofmScale := some (1073741824, 50), opaScale := some (1073741824, 12), opbScale := some (0, 0) } } ]

def exWords : List Nat :=
  [65807, 16384, 0, 16385, 0, 16386, 0, 16387, 0, 459019,
   459020, 459018, 983300, 16390, 1, 16389, 128, 16388, 16, 4294770953,
   65797, 263, 256, 257, 259, 258, 65823, 16400, 4096, 16401,
   0, 16402, 8192, 16403, 0, 196891, 196892, 327962, 327954, 327953,
   2031891, 16406, 96, 16405, 192, 16404, 16, 327960, 4260116, 131361,
   131360, 290, 296, 16416, 1024, 16417, 4624, 297, 16418, 64,
   16419, 320, 293, 327974, 1900839, 65814, 65813, 8323351, 393485, 917805,
   292, 303, 2, 304, 16432, 16384, 65841, 16433, 32768, 16434,
   256, 16, 802853, 1073741824, 16422, 0, 3293220, 1073741824, 16384, 4096,
   16386, 8192, 196875, 196876, 327946, 2031876, 16390, 96, 16389, 192,
   327945, 37814533, 16400, 12288, 16402, 0, 327963, 327964, 4286578968, 2168520980,
   4286578982, 8323367, 196886, 196885, 459031, 1442061, 1442093, 393613, 65935, 16512,
   32768, 16513, 0, 16514, 0, 16515, 0, 395, 396, 394,
   16518, 1, 16517, 32, 16516, 32, 393, 65925, 196992, 196911,
   17, 65542, 4294901760]

def exRow : Gen.AccRow := Gen.accelerators.getD 2 default

def okVerdict (v : OpCheck.Verdict) : Bool :=
  v.decode == "ok" && v.nops == 3 && v.stopOk && v.cmp.isEmpty && v.fits.isEmpty && v.align.isEmpty && v.scaleBase.isEmpty

def genIs (r : Except Err (List Nat)) (ws : List Nat) : Bool :=
  match r with
  | .ok w => w == ws
  | .error _ => false

def elidedCount : Nat :=
  match program exArch exOps with
  | .ok items => (fullWords items).length - exWords.length
  | .error _ => 0

end VelaVerif.EmitExample
