import VelaVerif.Model.InPlace
import VelaVerif.Spec.InPlace
import VelaVerif.Spec.Arena
/-!
# Lemmas about the in-place decision chain (`Model/InPlace.lean`), used by `Props/C12InPlace.lean`

The rewriting of `extract_npu_subgraphs` is a sequence of two elementary steps (`St.toNpu`, `St.toCpu`).  `Inv` collects
what every step preserves (consumer lists are truthful, reads of a pass stem from its original reads, a consumer of a
CPU-produced tensor that was not moved yet is still in its list, an unprotected clone has one possible reader …);
`extract_inv` carries it through the loops; the theorems of `Props/C12InPlace.lean` read the result off the final state.
-/
namespace VelaVerif.InPlace

/-! ## Lists -/

theorem two_le_length_of_mem_ne {α : Type} {l : List α} {a b : α} (h : a ≠ b) (ha : a ∈ l) (hb : b ∈ l) :
    2 ≤ l.length := by
  induction l with
  | nil => simp at ha
  | cons x xs ih =>
    simp only [List.mem_cons] at ha hb
    simp only [List.length_cons]
    rcases ha with rfl | ha <;> rcases hb with rfl | hb
    · exact absurd rfl h
    · have := List.length_pos_of_mem hb; omega
    · have := List.length_pos_of_mem ha; omega
    · have := ih ha hb; omega

theorem sub_of_ne {o n x : Nat} (h : x ≠ o) : sub o n x = x := by simp [sub, h]
theorem sub_self {o n : Nat} : sub o n o = n := by simp [sub]

/-- membership after `new if tens == orig else tens` when `new` is not in the list -/
theorem mem_map_sub {l : List Nat} {t x y : Nat} (hx : x ∉ l) :
    y ∈ l.map (sub t x) ↔ (y = x ∧ t ∈ l) ∨ (y ∈ l ∧ y ≠ t) := by
  simp only [List.mem_map]
  constructor
  · rintro ⟨z, hz, rfl⟩
    by_cases hzt : z = t
    · subst hzt; exact Or.inl ⟨sub_self, hz⟩
    · rw [sub_of_ne hzt]; exact Or.inr ⟨hz, hzt⟩
  · rintro (⟨rfl, ht⟩ | ⟨hy, hyt⟩)
    · exact ⟨t, ht, sub_self⟩
    · exact ⟨y, hy, sub_of_ne hyt⟩

theorem map_sub_of_not_mem {l : List Nat} {t x : Nat} (ht : t ∉ l) : l.map (sub t x) = l := by
  induction l with
  | nil => rfl
  | cons a as ih =>
    simp only [List.mem_cons, not_or] at ht
    simp only [List.map_cons, ih ht.2, sub_of_ne (Ne.symm ht.1)]

/-! ## Effect of the two rewriting steps, field by field -/

section effects
variable (s : St) (sg : Nat → Nat) (k t : Nat)

@[simp] theorem toNpu_n : (s.toNpu sg k t).n = s.n + 1 := rfl
@[simp] theorem toNpu_cpuOut : (s.toNpu sg k t).cpuOut = s.cpuOut := rfl
@[simp] theorem toNpu_usedMultiple : (s.toNpu sg k t).usedMultiple = s.usedMultiple := rfl
theorem toNpu_ops (y : Nat) : (s.toNpu sg k t).ops y = if y = s.n then [OpRef.startup k] else s.ops y := rfl
theorem toNpu_src (y : Nat) : (s.toNpu sg k t).src y = if y = s.n then some t else s.src y := rfl
theorem toNpu_wp (y : Nat) : (s.toNpu sg k t).wp y =
    if y = s.n then (s.wp t || decide ((s.cons t).length > 1) || s.cpuOut.contains t) else s.wp y := rfl
theorem toNpu_cons (y : Nat) : (s.toNpu sg k t).cons y =
    if y = s.n then (s.cons t).filter (inSg sg k)
    else if y = t then (s.cons t).filter (fun c => !inSg sg k c) else s.cons y := rfl
theorem toNpu_pass (q : Nat) : (s.toNpu sg k t).pass q =
    if sg q == k && (s.cons t).contains (some q) then (s.pass q).subst t s.n else s.pass q := rfl
theorem toNpu_island (j : Nat) : (s.toNpu sg k t).island j =
    if j = k then
      { s.island k with startupOutputs := (s.island k).startupOutputs ++ [s.n],
                        callInputs := if s.isConst t then (s.island k).callInputs else (s.island k).callInputs ++ [t],
                        outputs := (s.island k).outputs.map (sub t s.n) }
    else s.island j := rfl

/-- the result of `toCpu` without `multiple_npu_sg_have_same_cpu_out_tens` -/
def St.toCpuPlain (s : St) (sg : Nat → Nat) (k t : Nat) : St :=
  let x := s.n
  let old := s.cons t
  { s with
    n := s.n + 1,
    eq := upd s.eq x (s.eq t),
    src := upd s.src x (some t),
    isConst := upd s.isConst x false,
    ops := upd s.ops x [OpRef.call k],
    wp := upd s.wp x true,
    cons := upd (upd s.cons t (old.filter fun c => !outSg sg k c)) x (old.filter (outSg sg k)),
    pass := fun q => if sg q != k && old.contains (some q) then (s.pass q).subst t x else s.pass q,
    cpuOut := s.cpuOut.map (sub t x),
    island := upd s.island k { s.island k with outputs := (s.island k).outputs ++ [t],
                                                callOutputs := (s.island k).callOutputs ++ [x] },
    usedMultiple := s.usedMultiple }

end effects

theorem toCpu_false {s s' : St} {sg : Nat → Nat} {k t : Nat} (h : s.toCpu sg k t false = .ok s') (ht : t < s.n) :
    s' = s.toCpuPlain sg k t := by
  have htn : t ≠ s.n := by omega
  unfold St.toCpu at h
  simp only [Bool.false_eq_true, if_false] at h
  cases h
  unfold St.toCpuPlain
  simp only [upd, htn, if_false, Bool.or_false]
  congr 1
  all_goals (funext y; by_cases hy : y = s.n <;> by_cases hyt : y = t <;> simp [upd, hy, hyt, htn])

theorem toCpu_usedMultiple {s s' : St} {sg : Nat → Nat} {k t : Nat} {mult : Bool} (h : s.toCpu sg k t mult = .ok s') :
    s'.usedMultiple = (s.usedMultiple || mult) := by
  unfold St.toCpu at h
  cases mult
  · simp only [Bool.false_eq_true, if_false] at h
    cases h; rfl
  · simp only [if_true] at h
    cases hs : s.src t with
    | none => simp [hs] at h
    | some o => simp only [hs] at h; cases h; rfl

section effectsCpu
variable (s : St) (sg : Nat → Nat) (k t : Nat)

@[simp] theorem toCpuPlain_n : (s.toCpuPlain sg k t).n = s.n + 1 := rfl
@[simp] theorem toCpuPlain_usedMultiple : (s.toCpuPlain sg k t).usedMultiple = s.usedMultiple := rfl
theorem toCpuPlain_cpuOut : (s.toCpuPlain sg k t).cpuOut = s.cpuOut.map (sub t s.n) := rfl
theorem toCpuPlain_ops (y : Nat) : (s.toCpuPlain sg k t).ops y = if y = s.n then [OpRef.call k] else s.ops y := rfl
theorem toCpuPlain_src (y : Nat) : (s.toCpuPlain sg k t).src y = if y = s.n then some t else s.src y := rfl
theorem toCpuPlain_wp (y : Nat) : (s.toCpuPlain sg k t).wp y = if y = s.n then true else s.wp y := rfl
theorem toCpuPlain_cons (y : Nat) : (s.toCpuPlain sg k t).cons y =
    if y = s.n then (s.cons t).filter (outSg sg k)
    else if y = t then (s.cons t).filter (fun c => !outSg sg k c) else s.cons y := rfl
theorem toCpuPlain_pass (q : Nat) : (s.toCpuPlain sg k t).pass q =
    if sg q != k && (s.cons t).contains (some q) then (s.pass q).subst t s.n else s.pass q := rfl
theorem toCpuPlain_island (j : Nat) : (s.toCpuPlain sg k t).island j =
    if j = k then { s.island k with outputs := (s.island k).outputs ++ [t],
                                    callOutputs := (s.island k).callOutputs ++ [s.n] }
    else s.island j := rfl

end effectsCpu

/-! ## Facts about the graph description -/

/-- original reads / outputs of pass `q` -/
abbrev Graph.R0 (g : Graph) (q : Nat) : List Nat := (g.passAt q).reads
abbrev Graph.O0 (g : Graph) (q : Nat) : List Nat := (g.passAt q).outputs

/-- every producer of tensor `a` of the description is an operator of a CPU pass -/
def Graph.cpuProduced (g : Graph) (a : Nat) : Prop := ∀ r ∈ g.init.ops a, sgOfRef g.sg r = 0

theorem Graph.passAt_of_ge (g : Graph) {q : Nat} (h : g.passes.length ≤ q) : g.passAt q = Pass.empty := by
  unfold Graph.passAt
  rw [List.getElem?_eq_none h]

theorem Graph.lt_of_mem_R0 (g : Graph) {q t : Nat} (h : t ∈ g.R0 q) : q < g.passes.length := by
  by_cases hq : q < g.passes.length
  · exact hq
  · rw [Graph.R0, g.passAt_of_ge (by omega)] at h
    simp [Pass.empty] at h

theorem Graph.lt_of_mem_O0 (g : Graph) {q t : Nat} (h : t ∈ g.O0 q) : q < g.passes.length := by
  by_cases hq : q < g.passes.length
  · exact hq
  · rw [Graph.O0, g.passAt_of_ge (by omega)] at h
    simp [Pass.empty] at h

/-- what `Graph.wf` says, as propositions -/
structure Graph.WF (g : Graph) : Prop where
  reads_inputs : ∀ q t, t ∈ g.R0 q → t ∈ (g.passAt q).inputs
  reads_lt : ∀ q t, t ∈ g.R0 q → t < g.tens.length
  reads_prod : ∀ q t, t ∈ g.R0 q → g.init.ops t ≠ [] ∧
    ∀ r ∈ g.init.ops t, ∃ i, r = OpRef.pass i ∧ i < q ∧ t ∈ g.O0 i
  outputs_prod : ∀ q t, t ∈ g.O0 q → t < g.tens.length ∧ OpRef.pass q ∈ g.init.ops t
  ifm_reads : ∀ q x, ((g.passAt q).ifm = some x ∨ (g.passAt q).ifm2 = some x) → x ∈ g.R0 q
  outs_lt : ∀ t ∈ g.outputs, t < g.tens.length

theorem Graph.init_ops (g : Graph) (t : Nat) :
    g.init.ops t = match g.tens[t]? with | some d => d.ops.map OpRef.pass | none => [] := rfl

theorem Graph.wf_WF (g : Graph) (h : g.wf = true) : g.WF := by
  unfold Graph.wf at h
  simp only [Bool.and_eq_true, List.all_eq_true, List.mem_range, decide_eq_true_eq, Graph.wfPass] at h
  obtain ⟨hp, hout⟩ := h
  have hq : ∀ q t, t ∈ g.R0 q → q < g.passes.length := fun q t ht => g.lt_of_mem_R0 ht
  refine ⟨?_, ?_, ?_, ?_, ?_, ?_⟩
  · intro q t ht
    have := (hp q (hq q t ht)).1.1.1.1 t ht
    exact List.contains_iff_mem.mp this
  · intro q t ht
    have := (hp q (hq q t ht)).1.1.1.2 t ht
    cases hd : g.tens[t]? with
    | none => simp [hd] at this
    | some d => 
      have := List.getElem?_eq_some_iff.mp hd
      exact this.1
  · intro q t ht
    have := (hp q (hq q t ht)).1.1.1.2 t ht
    rw [Graph.init_ops]
    cases hd : g.tens[t]? with
    | none => simp [hd] at this
    | some d =>
      simp only [hd, Bool.and_eq_true, Bool.not_eq_true', List.all_eq_true, decide_eq_true_eq] at this
      refine ⟨?_, ?_⟩
      · intro hnil
        have : d.ops = [] := by simpa using hnil
        simp [this] at *
      · intro r hr
        simp only [List.mem_map] at hr
        obtain ⟨i, hi, rfl⟩ := hr
        exact ⟨i, rfl, (this.2 i hi).1, List.contains_iff_mem.mp (this.2 i hi).2⟩
  · intro q t ht
    have hql := g.lt_of_mem_O0 ht
    have := (hp q hql).1.1.2 t ht
    rw [Graph.init_ops]
    cases hd : g.tens[t]? with
    | none => simp [hd] at this
    | some d =>
      simp only [hd] at this
      exact ⟨(List.getElem?_eq_some_iff.mp hd).1, List.mem_map.mpr ⟨q, List.contains_iff_mem.mp this, rfl⟩⟩
  · intro q x hx
    by_cases hql : q < g.passes.length
    · rcases hx with hx | hx
      · have := (hp q hql).1.2
        simp only [hx] at this
        exact List.contains_iff_mem.mp this
      · have := (hp q hql).2
        simp only [hx] at this
        exact List.contains_iff_mem.mp this
    · rw [g.passAt_of_ge (by omega)] at hx
      simp [Pass.empty] at hx
  · intro t ht
    exact hout t ht

/-! ## The invariant of the rewriting -/

/-- `K`: consumers in NPU subgraphs with a number above `K` have not been moved yet; `m`: the passes below `m` have
    been walked. -/
structure Inv (g : Graph) (K m : Nat) (s : St) : Prop where
  n_ge : g.tens.length ≤ s.n
  ops_orig : ∀ x, x < g.tens.length → s.ops x = g.init.ops x
  ops_fresh : ∀ y, s.n ≤ y → s.ops y = []
  /-- a clone is the NPU-side copy of a CPU tensor, or the (always write protected) CPU-side copy of an NPU tensor -/
  clone_kind : ∀ x, g.tens.length ≤ x → x < s.n →
    (∃ k, k ≠ 0 ∧ s.ops x = [OpRef.startup k]) ∨ (∃ k, s.ops x = [OpRef.call k] ∧ s.wp x = true)
  reads_lt : ∀ q y, y ∈ (s.pass q).reads → y < s.n
  cpuOut_lt : ∀ y, y ∈ s.cpuOut → y < s.n
  /-- the consumer lists are truthful, in both directions -/
  truthful : ∀ q x, x ∈ (s.pass q).reads → some q ∈ s.cons x
  truthful' : ∀ q x, some q ∈ s.cons x → x ∈ (s.pass q).reads
  reads_inputs : ∀ q x, x ∈ (s.pass q).reads → x ∈ (s.pass q).inputs
  /-- what a pass reads stems from what it read in the description -/
  prov : ∀ q x, x ∈ (s.pass q).reads →
    (x < g.tens.length ∧ x ∈ g.R0 q) ∨
    (g.tens.length ≤ x ∧ (s.wp x = true ∨
      ∃ a, a < g.tens.length ∧ s.src x = some a ∧ a ∈ g.R0 q ∧ s.ops x = [OpRef.startup (g.sg q)]))
  ifm_reads : ∀ q x, ((s.pass q).ifm = some x ∨ (s.pass q).ifm2 = some x) → x ∈ (s.pass q).reads
  outputs_eq : ∀ q, (s.pass q).outputs = g.O0 q
  /-- a reader of a CPU-produced tensor on the CPU or in an NPU subgraph not reached yet is still in its consumer list -/
  lower : ∀ a, a < g.tens.length → g.cpuProduced a → ∀ q, a ∈ g.R0 q → (g.sg q = 0 ∨ K < g.sg q) → some q ∈ s.cons a
  /-- the readers of a CPU-produced tensor inside one subgraph are switched to the clone together -/
  allOrNothing : ∀ a, a < g.tens.length → g.cpuProduced a → ∀ q q', a ∈ g.R0 q → g.sg q = g.sg q' →
    a ∈ (s.pass q').reads → a ∈ (s.pass q).reads
  outs_kept : ∀ a, a ∈ g.outputs → a ∈ s.cpuOut ∨ ∃ k, a ∈ (s.island k).outputs
  island_out : ∀ k x, x ∈ (s.island k).outputs → k ≠ 0 ∧ x < g.tens.length ∧ ∃ p, g.sg p = k ∧ x ∈ g.O0 p
  /-- a clone that is not write protected: its source is no subgraph output and whoever reads the clone is the only
      reader of the source outside the NPU subgraphs in front -/
  unprot : ∀ x, g.tens.length ≤ x → x < s.n → s.wp x = false → ∀ a k, s.src x = some a → s.ops x = [OpRef.startup k] →
    a < g.tens.length ∧ a ∉ g.outputs ∧
    ∀ q q', x ∈ (s.pass q').reads → a ∈ g.R0 q → (g.sg q = 0 ∨ k ≤ g.sg q) → q = q'
  /-- an NPU-produced tensor that was not handed to the CPU keeps all its readers -/
  keepReaders : ∀ x, x < g.tens.length → ¬ g.cpuProduced x → (∀ k, x ∉ (s.island k).outputs) →
    ∀ q, x ∈ g.R0 q → x ∈ (s.pass q).reads
  /-- a walked NPU pass reads no CPU-produced tensor of the description any more -/
  visited : ∀ p, p < m → g.sg p ≠ 0 → ∀ x, x ∈ (s.pass p).reads → x < g.tens.length → ¬ g.cpuProduced x
  /-- tensors of the description are no clones -/
  src_orig : ∀ x, x < g.tens.length → s.src x = none

theorem Inv.mono {g : Graph} {K K' m : Nat} {s : St} (h : Inv g K m s) (hk : K ≤ K') : Inv g K' m s :=
  { h with lower := fun a ha hc q hq hs => h.lower a ha hc q hq (by omega) }

theorem Graph.mem_initCons (g : Graph) (q t : Nat) : some q ∈ g.initCons t ↔ t ∈ g.R0 q := by
  unfold Graph.initCons
  simp only [List.mem_append, List.mem_flatMap, List.mem_range, List.mem_map, List.mem_filter, beq_iff_eq,
    Option.some.injEq, reduceCtorEq, and_false, exists_false, or_false]
  constructor
  · rintro ⟨q', _, ⟨a, ⟨ha, rfl⟩, rfl⟩⟩
    exact ha
  · intro h
    exact ⟨q, g.lt_of_mem_R0 h, t, ⟨h, rfl⟩, rfl⟩

theorem Inv.init (g : Graph) (hwf : g.WF) : Inv g 0 0 g.init where
  n_ge := Nat.le_refl _
  ops_orig := fun _ _ => rfl
  ops_fresh := by
    intro y hy
    rw [Graph.init_ops, List.getElem?_eq_none hy]
  clone_kind := by
    intro x h1 h2
    exact absurd h2 (by simp only [Graph.init]; omega)
  reads_lt := fun q y hy => hwf.reads_lt q y hy
  cpuOut_lt := fun y hy => hwf.outs_lt y hy
  truthful := fun q x hx => (g.mem_initCons q x).mpr hx
  truthful' := fun q x hx => (g.mem_initCons q x).mp hx
  reads_inputs := fun q x hx => hwf.reads_inputs q x hx
  prov := fun q x hx => Or.inl ⟨hwf.reads_lt q x hx, hx⟩
  ifm_reads := fun q x hx => hwf.ifm_reads q x hx
  outputs_eq := fun _ => rfl
  lower := fun a _ _ q hq _ => (g.mem_initCons q a).mpr hq
  allOrNothing := fun a _ _ q q' hq _ _ => hq
  outs_kept := fun a ha => Or.inl ha
  island_out := by
    intro k x hx
    simp [Graph.init] at hx
  unprot := by
    intro x h1 h2
    exact absurd h2 (by simp only [Graph.init]; omega)
  keepReaders := fun x _ _ _ q hq => hq
  visited := by
    intro p hp
    omega
  src_orig := fun _ _ => rfl

/-! ## `toNpu` preserves the invariant -/

theorem inSg_some (sg : Nat → Nat) (k q : Nat) : inSg sg k (some q) = true ↔ sg q = k := by simp [inSg]
theorem outSg_some (sg : Nat → Nat) (k q : Nat) : outSg sg k (some q) = true ↔ sg q ≠ k := by simp [outSg]

/-- reads of a pass after `toNpu`, given truthful consumer lists and a fresh clone number -/
theorem toNpu_mem_reads {g : Graph} {K m : Nat} {s : St} (h : Inv g K m s) (k t q y : Nat) :
    y ∈ ((s.toNpu g.sg k t).pass q).reads ↔
      (y = s.n ∧ g.sg q = k ∧ t ∈ (s.pass q).reads) ∨ (y ∈ (s.pass q).reads ∧ ¬ (y = t ∧ g.sg q = k)) := by
  have hx : s.n ∉ (s.pass q).reads := fun hm => Nat.lt_irrefl _ (h.reads_lt q _ hm)
  rw [toNpu_pass]
  by_cases hc : (g.sg q == k && (s.cons t).contains (some q)) = true
  · simp only [hc, if_true, Pass.subst, mem_map_sub hx]
    simp only [Bool.and_eq_true, beq_iff_eq, List.contains_iff_mem] at hc
    have htr := h.truthful' q t hc.2
    constructor
    · rintro (⟨rfl, ht⟩ | ⟨hy, hyt⟩)
      · exact Or.inl ⟨rfl, hc.1, ht⟩
      · exact Or.inr ⟨hy, fun hh => hyt hh.1⟩
    · rintro (⟨rfl, _, ht⟩ | ⟨hy, hn⟩)
      · exact Or.inl ⟨rfl, ht⟩
      · exact Or.inr ⟨hy, fun hh => hn ⟨hh, hc.1⟩⟩
  · simp only [hc, Bool.false_eq_true, if_false]
    simp only [Bool.and_eq_true, beq_iff_eq, List.contains_iff_mem, not_and] at hc
    constructor
    · intro hy
      refine Or.inr ⟨hy, ?_⟩
      rintro ⟨rfl, hk⟩
      exact hc hk (h.truthful q _ hy)
    · rintro (⟨rfl, hk, ht⟩ | ⟨hy, _⟩)
      · exact absurd (h.truthful q t ht) (hc hk)
      · exact hy

theorem toNpu_mem_cons (s : St) (sg : Nat → Nat) (k t q y : Nat) (htn : t ≠ s.n) :
    some q ∈ (s.toNpu sg k t).cons y ↔
      (y = s.n ∧ some q ∈ s.cons t ∧ sg q = k) ∨ (y = t ∧ some q ∈ s.cons t ∧ sg q ≠ k) ∨
      (y ≠ s.n ∧ y ≠ t ∧ some q ∈ s.cons y) := by
  rw [toNpu_cons]
  by_cases h1 : y = s.n
  · subst h1
    simp [List.mem_filter, inSg_some, Ne.symm htn]
  · by_cases h2 : y = t
    · subst h2
      simp only [h1, if_false, if_true, List.mem_filter, Bool.not_eq_true', false_and, ne_eq, not_true_eq_false,
        and_false, or_false, false_or, true_and]
      constructor
      · rintro ⟨hm, hf⟩
        refine ⟨hm, fun hk => ?_⟩
        rw [(inSg_some sg k q).mpr hk] at hf
        exact Bool.noConfusion hf
      · rintro ⟨hm, hk⟩
        refine ⟨hm, ?_⟩
        cases hb : inSg sg k (some q) with
        | false => rfl
        | true => exact absurd ((inSg_some sg k q).mp hb) hk
    · simp [h1, h2]

/-- what `visitIn` has checked when it calls `toNpu` on `t` -/
structure CpuSide (g : Graph) (s : St) (t : Nat) : Prop where
  ne : s.ops t ≠ []
  cpu : ∀ r ∈ s.ops t, sgOfRef g.sg r = 0

theorem CpuSide.lt {g : Graph} {K m : Nat} {s : St} {t : Nat} (h : Inv g K m s) (c : CpuSide g s t) : t < s.n := by
  by_cases hlt : t < s.n
  · exact hlt
  · exact absurd (h.ops_fresh t (by omega)) c.ne

theorem CpuSide.cases {g : Graph} {K m : Nat} {s : St} {t : Nat} (h : Inv g K m s) (c : CpuSide g s t) :
    (t < g.tens.length ∧ g.cpuProduced t) ∨ (g.tens.length ≤ t ∧ s.wp t = true) := by
  by_cases hlt : t < g.tens.length
  · refine Or.inl ⟨hlt, ?_⟩
    intro r hr
    rw [← h.ops_orig t hlt] at hr
    exact c.cpu r hr
  · refine Or.inr ⟨by omega, ?_⟩
    rcases h.clone_kind t (by omega) (c.lt h) with ⟨k, hk, hops⟩ | ⟨k, _, hwp⟩
    · have := c.cpu (OpRef.startup k) (by rw [hops]; simp)
      simp only [sgOfRef] at this
      exact absurd this hk
    · exact hwp

/-- a tensor whose producers all run on the CPU is an output of no NPU pass -/
theorem CpuSide.not_out {g : Graph} {K m : Nat} {s : St} {t : Nat} (hwf : g.WF) (h : Inv g K m s) (c : CpuSide g s t)
    {p : Nat} (hp : g.sg p ≠ 0) : t ∉ g.O0 p := by
  intro ht
  obtain ⟨hlt, hmem⟩ := hwf.outputs_prod p t ht
  rw [← h.ops_orig t hlt] at hmem
  have := c.cpu _ hmem
  simp only [sgOfRef] at this
  exact hp this

theorem CpuSide.not_island {g : Graph} {K m : Nat} {s : St} {t : Nat} (hwf : g.WF) (h : Inv g K m s) (c : CpuSide g s t)
    (k : Nat) : t ∉ (s.island k).outputs := by
  intro ht
  obtain ⟨hk, _, p, hp, hO⟩ := h.island_out k t ht
  exact c.not_out hwf h (by omega) hO


theorem Inv.toNpu {g : Graph} {k m : Nat} {s : St} {t : Nat} (hwf : g.WF) (h : Inv g k m s) (hk : k ≠ 0)
    (c : CpuSide g s t) : Inv g k m (s.toNpu g.sg k t) := by
  have htlt : t < s.n := c.lt h
  have htn : t ≠ s.n := by omega
  have hn0 := h.n_ge
  have hR := fun q y => toNpu_mem_reads h k t q y
  have hC := fun q y => toNpu_mem_cons s g.sg k t q y htn
  have hisl : ∀ j, ((s.toNpu g.sg k t).island j).outputs = (s.island j).outputs := by
    intro j
    rw [toNpu_island]
    by_cases hj : j = k
    · subst hj
      simp only [if_true]
      exact map_sub_of_not_mem (c.not_island hwf h j)
    · simp [hj]
  refine
    { n_ge := by simp only [toNpu_n]; omega
      ops_orig := ?_, ops_fresh := ?_, clone_kind := ?_, reads_lt := ?_, cpuOut_lt := ?_, truthful := ?_, truthful' := ?_,
      reads_inputs := ?_, prov := ?_, ifm_reads := ?_, outputs_eq := ?_, lower := ?_, allOrNothing := ?_, outs_kept := ?_,
      island_out := ?_, unprot := ?_, keepReaders := ?_, visited := ?_, src_orig := ?_ }
  · -- ops_orig
    intro x hx
    rw [toNpu_ops, if_neg (by omega)]
    exact h.ops_orig x hx
  · -- ops_fresh
    intro y hy
    simp only [toNpu_n] at hy
    rw [toNpu_ops, if_neg (by omega)]
    exact h.ops_fresh y (by omega)
  · -- clone_kind
    intro x hx1 hx2
    simp only [toNpu_n] at hx2
    rw [toNpu_ops, toNpu_wp]
    by_cases hxn : x = s.n
    · simp only [hxn, if_true]
      exact Or.inl ⟨k, hk, rfl⟩
    · simp only [hxn, if_false]
      exact h.clone_kind x hx1 (by omega)
  · -- reads_lt
    intro q y hy
    simp only [toNpu_n]
    rcases (hR q y).mp hy with ⟨rfl, _⟩ | ⟨hy, _⟩
    · omega
    · have := h.reads_lt q y hy; omega
  · -- cpuOut_lt
    intro y hy
    simp only [toNpu_n]
    have := h.cpuOut_lt y hy
    omega
  · -- truthful
    intro q y hy
    rw [hC]
    rcases (hR q y).mp hy with ⟨rfl, hsg, ht⟩ | ⟨hy', hn⟩
    · exact Or.inl ⟨rfl, h.truthful q t ht, hsg⟩
    · have hyn : y ≠ s.n := by have := h.reads_lt q y hy'; omega
      by_cases hyt : y = t
      · exact Or.inr (Or.inl ⟨hyt, hyt ▸ h.truthful q y hy', fun hh => hn ⟨hyt, hh⟩⟩)
      · exact Or.inr (Or.inr ⟨hyn, hyt, h.truthful q y hy'⟩)
  · -- truthful'
    intro q y hy
    rw [hR]
    rcases (hC q y).mp hy with ⟨rfl, hm, hsg⟩ | ⟨rfl, hm, hsg⟩ | ⟨_, hyt, hm⟩
    · exact Or.inl ⟨rfl, hsg, h.truthful' q t hm⟩
    · exact Or.inr ⟨h.truthful' q y hm, fun hh => hsg hh.2⟩
    · exact Or.inr ⟨h.truthful' q y hm, fun hh => hyt hh.1⟩
  · -- reads_inputs
    intro q y hy
    rw [toNpu_pass] at hy ⊢
    split at hy
    · rename_i hc
      simp only [hc, if_true, Pass.subst, List.mem_map] at hy ⊢
      obtain ⟨z, hz, rfl⟩ := hy
      exact ⟨z, h.reads_inputs q z hz, rfl⟩
    · rename_i hc
      simp only [hc]
      exact h.reads_inputs q y hy
  · -- prov
    intro q y hy
    rw [toNpu_wp, toNpu_src, toNpu_ops]
    rcases (hR q y).mp hy with ⟨rfl, hsg, ht⟩ | ⟨hy, _⟩
    · refine Or.inr ⟨hn0, ?_⟩
      simp only [if_true]
      rcases c.cases h with ⟨hlt, _⟩ | ⟨_, hwp⟩
      · refine Or.inr ⟨t, hlt, rfl, ?_, by rw [hsg]⟩
        rcases h.prov q t ht with ⟨_, h0⟩ | ⟨hge, _⟩
        · exact h0
        · omega
      · exact Or.inl (by simp [hwp])
    · have hyn : y ≠ s.n := by have := h.reads_lt q y hy; omega
      simp only [hyn, if_false]
      exact h.prov q y hy
  · -- ifm_reads
    intro q y hy
    rw [toNpu_pass] at hy ⊢
    split at hy
    · rename_i hc
      simp only [hc, if_true, Pass.subst, List.mem_map, Option.map_eq_some_iff] at hy ⊢
      rcases hy with ⟨z, hz, rfl⟩ | ⟨z, hz, rfl⟩
      · exact ⟨z, h.ifm_reads q z (Or.inl hz), rfl⟩
      · exact ⟨z, h.ifm_reads q z (Or.inr hz), rfl⟩
    · rename_i hc
      simp only [hc]
      exact h.ifm_reads q y hy
  · -- outputs_eq
    intro q
    rw [toNpu_pass]
    split
    · rename_i hc
      simp only [Bool.and_eq_true, beq_iff_eq] at hc
      simp only [Pass.subst]
      rw [h.outputs_eq q]
      exact map_sub_of_not_mem (c.not_out hwf h (by omega))
    · exact h.outputs_eq q
  · -- lower
    intro a ha hcp q hq hs
    rw [hC]
    have hm := h.lower a ha hcp q hq hs
    by_cases hat : a = t
    · subst hat
      exact Or.inr (Or.inl ⟨rfl, hm, by omega⟩)
    · exact Or.inr (Or.inr ⟨by omega, hat, hm⟩)
  · -- allOrNothing
    intro a ha hcp q q' hq hs hr
    rw [hR] at hr ⊢
    rcases hr with ⟨rfl, _⟩ | ⟨hr, hn⟩
    · omega
    · exact Or.inr ⟨h.allOrNothing a ha hcp q q' hq hs hr, fun hh => hn ⟨hh.1, by omega⟩⟩
  · -- outs_kept
    intro a ha
    rcases h.outs_kept a ha with h1 | ⟨j, hj⟩
    · exact Or.inl h1
    · exact Or.inr ⟨j, by rw [hisl]; exact hj⟩
  · -- island_out
    intro j x hx
    rw [hisl] at hx
    exact h.island_out j x hx
  · -- unprot
    intro x hx1 hx2 hwp a k' hsrc hops
    simp only [toNpu_n] at hx2
    rw [toNpu_wp] at hwp
    rw [toNpu_src] at hsrc
    rw [toNpu_ops] at hops
    by_cases hxn : x = s.n
    · subst hxn
      simp only [if_true, Option.some.injEq, List.cons.injEq, OpRef.startup.injEq, and_true] at hwp hsrc hops
      subst hsrc hops
      simp only [Bool.or_eq_false_iff, decide_eq_false_iff_not] at hwp
      obtain ⟨⟨hwpt, hlen⟩, hnout⟩ := hwp
      rcases c.cases h with ⟨hlt, hcp⟩ | ⟨_, hw⟩
      · refine ⟨hlt, ?_, ?_⟩
        · intro hg
          rcases h.outs_kept t hg with h1 | ⟨j, hj⟩
          · have := List.contains_iff_mem.mpr h1
            rw [this] at hnout
            exact Bool.noConfusion hnout
          · exact c.not_island hwf h j hj
        · intro q q' hx hq hs
          have hq' : g.sg q' = k ∧ t ∈ (s.pass q').reads := by
            rcases (hR q' s.n).mp hx with ⟨_, h1, h2⟩ | ⟨h1, _⟩
            · exact ⟨h1, h2⟩
            · exact absurd (h.reads_lt q' _ h1) (Nat.lt_irrefl _)
          have hc' := h.truthful q' t hq'.2
          have hcq : some q ∈ s.cons t := by
            by_cases hsk : g.sg q = k
            · exact h.truthful q t (h.allOrNothing t hlt hcp q q' hq (by omega) hq'.2)
            · exact h.lower t hlt hcp q hq (by omega)
          by_cases hqq : q = q'
          · exact hqq
          · have := two_le_length_of_mem_ne (a := some q) (b := some q') (by simpa using hqq) hcq hc'
            omega
      · rw [hw] at hwpt
        exact Bool.noConfusion hwpt
    · simp only [hxn, if_false] at hwp hsrc hops
      obtain ⟨h1, h2, h3⟩ := h.unprot x hx1 (by omega) hwp a k' hsrc hops
      refine ⟨h1, h2, ?_⟩
      intro q q' hx hq hs
      rcases (hR q' x).mp hx with ⟨hh, _⟩ | ⟨hh, _⟩
      · exact absurd hh hxn
      · exact h3 q q' hh hq hs
  · -- keepReaders
    intro x hx hncp hni q hq
    rw [hR]
    have hold := h.keepReaders x hx hncp (fun j => by rw [← hisl]; exact hni j) q hq
    refine Or.inr ⟨hold, ?_⟩
    rintro ⟨rfl, _⟩
    rcases c.cases h with ⟨_, hcp⟩ | ⟨hge, _⟩
    · exact hncp hcp
    · omega
  · -- visited
    intro p hp hsg x hx hxl
    rcases (hR p x).mp hx with ⟨rfl, _⟩ | ⟨hx, _⟩
    · omega
    · exact h.visited p hp hsg x hx hxl
  · -- src_orig
    intro x hx
    rw [toNpu_src, if_neg (by omega)]
    exact h.src_orig x hx


/-! ## `toCpu` (one NPU subgraph per CPU output) preserves the invariant -/

theorem toCpuPlain_mem_reads {g : Graph} {K m : Nat} {s : St} (h : Inv g K m s) (k t q y : Nat) :
    y ∈ ((s.toCpuPlain g.sg k t).pass q).reads ↔
      (y = s.n ∧ g.sg q ≠ k ∧ t ∈ (s.pass q).reads) ∨ (y ∈ (s.pass q).reads ∧ ¬ (y = t ∧ g.sg q ≠ k)) := by
  have hx : s.n ∉ (s.pass q).reads := fun hm => Nat.lt_irrefl _ (h.reads_lt q _ hm)
  rw [toCpuPlain_pass]
  by_cases hc : (g.sg q != k && (s.cons t).contains (some q)) = true
  · simp only [hc, if_true, Pass.subst, mem_map_sub hx]
    simp only [Bool.and_eq_true, bne_iff_ne, ne_eq, List.contains_iff_mem] at hc
    constructor
    · rintro (⟨rfl, ht⟩ | ⟨hy, hyt⟩)
      · exact Or.inl ⟨rfl, hc.1, ht⟩
      · exact Or.inr ⟨hy, fun hh => hyt hh.1⟩
    · rintro (⟨rfl, _, ht⟩ | ⟨hy, hn⟩)
      · exact Or.inl ⟨rfl, ht⟩
      · exact Or.inr ⟨hy, fun hh => hn ⟨hh, hc.1⟩⟩
  · simp only [hc, Bool.false_eq_true, if_false]
    simp only [Bool.and_eq_true, bne_iff_ne, ne_eq, List.contains_iff_mem, not_and] at hc
    constructor
    · intro hy
      refine Or.inr ⟨hy, ?_⟩
      rintro ⟨rfl, hk⟩
      exact hc hk (h.truthful q _ hy)
    · rintro (⟨rfl, hk, ht⟩ | ⟨hy, _⟩)
      · exact absurd (h.truthful q t ht) (hc hk)
      · exact hy

theorem toCpuPlain_mem_cons (s : St) (sg : Nat → Nat) (k t q y : Nat) (htn : t ≠ s.n) :
    some q ∈ (s.toCpuPlain sg k t).cons y ↔
      (y = s.n ∧ some q ∈ s.cons t ∧ sg q ≠ k) ∨ (y = t ∧ some q ∈ s.cons t ∧ sg q = k) ∨
      (y ≠ s.n ∧ y ≠ t ∧ some q ∈ s.cons y) := by
  rw [toCpuPlain_cons]
  by_cases h1 : y = s.n
  · subst h1
    simp [List.mem_filter, outSg_some, Ne.symm htn]
  · by_cases h2 : y = t
    · subst h2
      simp only [h1, if_false, if_true, List.mem_filter, Bool.not_eq_true', false_and, ne_eq, not_true_eq_false,
        and_false, or_false, false_or, true_and]
      constructor
      · rintro ⟨hm, hf⟩
        refine ⟨hm, ?_⟩
        by_cases hk : sg q = k
        · exact hk
        · rw [(outSg_some sg k q).mpr hk] at hf
          exact Bool.noConfusion hf
      · rintro ⟨hm, hk⟩
        refine ⟨hm, ?_⟩
        cases hb : outSg sg k (some q) with
        | false => rfl
        | true => exact absurd hk ((outSg_some sg k q).mp hb)
    · simp [h1, h2]

theorem Inv.toCpuPlain {g : Graph} {k m : Nat} {s : St} {t p : Nat} (hwf : g.WF) (h : Inv g k m s) (hk : k ≠ 0)
    (hp : g.sg p = k) (ht : t ∈ g.O0 p) : Inv g k m (s.toCpuPlain g.sg k t) := by
  obtain ⟨htl, hprod⟩ := hwf.outputs_prod p t ht
  have hn0 := h.n_ge
  have htn : t ≠ s.n := by omega
  have hncp : ¬ g.cpuProduced t := by
    intro hc
    have := hc _ hprod
    simp only [sgOfRef] at this
    omega
  have hR := fun q y => toCpuPlain_mem_reads h k t q y
  have hC := fun q y => toCpuPlain_mem_cons s g.sg k t q y htn
  have hxc : s.n ∉ s.cpuOut := fun hm => Nat.lt_irrefl _ (h.cpuOut_lt _ hm)
  have hisl : ∀ j y, y ∈ ((s.toCpuPlain g.sg k t).island j).outputs ↔
      y ∈ (s.island j).outputs ∨ (j = k ∧ y = t) := by
    intro j y
    rw [toCpuPlain_island]
    by_cases hj : j = k
    · subst hj
      simp
    · simp [hj]
  refine
    { n_ge := by simp only [toCpuPlain_n]; omega
      ops_orig := ?_, ops_fresh := ?_, clone_kind := ?_, reads_lt := ?_, cpuOut_lt := ?_, truthful := ?_, truthful' := ?_,
      reads_inputs := ?_, prov := ?_, ifm_reads := ?_, outputs_eq := ?_, lower := ?_, allOrNothing := ?_, outs_kept := ?_,
      island_out := ?_, unprot := ?_, keepReaders := ?_, visited := ?_, src_orig := ?_ }
  · intro x hx
    rw [toCpuPlain_ops, if_neg (by omega)]
    exact h.ops_orig x hx
  · intro y hy
    simp only [toCpuPlain_n] at hy
    rw [toCpuPlain_ops, if_neg (by omega)]
    exact h.ops_fresh y (by omega)
  · intro x hx1 hx2
    simp only [toCpuPlain_n] at hx2
    rw [toCpuPlain_ops, toCpuPlain_wp]
    by_cases hxn : x = s.n
    · subst hxn
      exact Or.inr ⟨k, by simp, by simp⟩
    · simp only [hxn, if_false]
      exact h.clone_kind x hx1 (by omega)
  · intro q y hy
    simp only [toCpuPlain_n]
    rcases (hR q y).mp hy with ⟨rfl, _⟩ | ⟨hy, _⟩
    · omega
    · have := h.reads_lt q y hy; omega
  · intro y hy
    simp only [toCpuPlain_n]
    rw [toCpuPlain_cpuOut, mem_map_sub hxc] at hy
    rcases hy with ⟨rfl, _⟩ | ⟨hy, _⟩
    · omega
    · have := h.cpuOut_lt y hy; omega
  · intro q y hy
    rw [hC]
    rcases (hR q y).mp hy with ⟨rfl, hsg, ht'⟩ | ⟨hy', hn⟩
    · exact Or.inl ⟨rfl, h.truthful q t ht', hsg⟩
    · have hyn : y ≠ s.n := by have := h.reads_lt q y hy'; omega
      by_cases hyt : y = t
      · refine Or.inr (Or.inl ⟨hyt, hyt ▸ h.truthful q y hy', ?_⟩)
        by_cases hsk : g.sg q = k
        · exact hsk
        · exact absurd ⟨hyt, hsk⟩ hn
      · exact Or.inr (Or.inr ⟨hyn, hyt, h.truthful q y hy'⟩)
  · intro q y hy
    rw [hR]
    rcases (hC q y).mp hy with ⟨rfl, hm, hsg⟩ | ⟨rfl, hm, hsg⟩ | ⟨_, hyt, hm⟩
    · exact Or.inl ⟨rfl, hsg, h.truthful' q t hm⟩
    · exact Or.inr ⟨h.truthful' q y hm, fun hh => hh.2 hsg⟩
    · exact Or.inr ⟨h.truthful' q y hm, fun hh => hyt hh.1⟩
  · intro q y hy
    rw [toCpuPlain_pass] at hy ⊢
    split at hy
    · rename_i hc
      simp only [hc, if_true, Pass.subst, List.mem_map] at hy ⊢
      obtain ⟨z, hz, rfl⟩ := hy
      exact ⟨z, h.reads_inputs q z hz, rfl⟩
    · rename_i hc
      simp only [hc]
      exact h.reads_inputs q y hy
  · intro q y hy
    rw [toCpuPlain_wp, toCpuPlain_src, toCpuPlain_ops]
    rcases (hR q y).mp hy with ⟨rfl, _, _⟩ | ⟨hy, _⟩
    · exact Or.inr ⟨hn0, Or.inl (by simp)⟩
    · have hyn : y ≠ s.n := by have := h.reads_lt q y hy; omega
      simp only [hyn, if_false]
      exact h.prov q y hy
  · intro q y hy
    rw [toCpuPlain_pass] at hy ⊢
    split at hy
    · rename_i hc
      simp only [hc, if_true, Pass.subst, List.mem_map, Option.map_eq_some_iff] at hy ⊢
      rcases hy with ⟨z, hz, rfl⟩ | ⟨z, hz, rfl⟩
      · exact ⟨z, h.ifm_reads q z (Or.inl hz), rfl⟩
      · exact ⟨z, h.ifm_reads q z (Or.inr hz), rfl⟩
    · rename_i hc
      simp only [hc]
      exact h.ifm_reads q y hy
  · intro q
    rw [toCpuPlain_pass]
    split
    · rename_i hc
      simp only [Bool.and_eq_true, List.contains_iff_mem] at hc
      simp only [Pass.subst]
      rw [h.outputs_eq q]
      apply map_sub_of_not_mem
      intro hO
      -- a pass does not read what it produces
      have hr := h.truthful' q t hc.2
      rcases h.prov q t hr with ⟨_, h0⟩ | ⟨hge, _⟩
      · obtain ⟨_, hall⟩ := hwf.reads_prod q t h0
        obtain ⟨_, hmem⟩ := hwf.outputs_prod q t hO
        obtain ⟨i, hi, hlt, _⟩ := hall _ hmem
        cases hi
        omega
      · omega
    · exact h.outputs_eq q
  · intro a ha hcp q hq hs
    rw [hC]
    have hat : a ≠ t := fun e => hncp (e ▸ hcp)
    exact Or.inr (Or.inr ⟨by omega, hat, h.lower a ha hcp q hq hs⟩)
  · intro a ha hcp q q' hq hs hr
    have hat : a ≠ t := fun e => hncp (e ▸ hcp)
    rw [hR] at hr ⊢
    rcases hr with ⟨rfl, _⟩ | ⟨hr, _⟩
    · omega
    · exact Or.inr ⟨h.allOrNothing a ha hcp q q' hq hs hr, fun hh => hat hh.1⟩
  · intro a ha
    by_cases hat : a = t
    · exact Or.inr ⟨k, (hisl k a).mpr (Or.inr ⟨rfl, hat⟩)⟩
    · rcases h.outs_kept a ha with h1 | ⟨j, hj⟩
      · refine Or.inl ?_
        rw [toCpuPlain_cpuOut, mem_map_sub hxc]
        exact Or.inr ⟨h1, hat⟩
      · exact Or.inr ⟨j, (hisl j a).mpr (Or.inl hj)⟩
  · intro j x hx
    rcases (hisl j x).mp hx with hx | ⟨rfl, rfl⟩
    · exact h.island_out j x hx
    · exact ⟨hk, htl, p, hp, ht⟩
  · intro x hx1 hx2 hwp a k' hsrc hops
    simp only [toCpuPlain_n] at hx2
    rw [toCpuPlain_wp] at hwp
    rw [toCpuPlain_src] at hsrc
    rw [toCpuPlain_ops] at hops
    by_cases hxn : x = s.n
    · simp [hxn] at hwp
    · simp only [hxn, if_false] at hwp hsrc hops
      obtain ⟨h1, h2, h3⟩ := h.unprot x hx1 (by omega) hwp a k' hsrc hops
      refine ⟨h1, h2, ?_⟩
      intro q q' hx hq hs
      rcases (hR q' x).mp hx with ⟨hh, _⟩ | ⟨hh, _⟩
      · exact absurd hh hxn
      · exact h3 q q' hh hq hs
  · intro x hx hnc hni q hq
    rw [hR]
    have hxt : x ≠ t := fun e => hni k ((hisl k x).mpr (Or.inr ⟨rfl, e⟩))
    have hold := h.keepReaders x hx hnc (fun j hj => hni j ((hisl j x).mpr (Or.inl hj))) q hq
    exact Or.inr ⟨hold, fun hh => hxt hh.1⟩
  · intro p' hp' hsg x hx hxl
    rcases (hR p' x).mp hx with ⟨rfl, _⟩ | ⟨hx, _⟩
    · omega
    · exact h.visited p' hp' hsg x hx hxl
  · intro x hx
    rw [toCpuPlain_src, if_neg (by omega)]
    exact h.src_orig x hx


/-! ## The loops -/

theorem visitIn_step {g : Graph} {k m : Nat} {s s' : St} {t p : Nat} (hwf : g.WF) (h : Inv g k m s) (hk : k ≠ 0)
    (hp : g.sg p = k) (hv : visitIn g.sg k s t = .ok s') :
    Inv g k m s' ∧ s'.usedMultiple = s.usedMultiple ∧
    ∀ x, x ∈ (s'.pass p).reads → x < g.tens.length → g.cpuProduced x → x ∈ (s.pass p).reads ∧ x ≠ t := by
  unfold visitIn at hv
  cases hops : s.ops t with
  | nil => simp [hops] at hv
  | cons r rest =>
    simp only [hops] at hv
    split at hv
    · simp at hv
    · rename_i hall
      simp only [Bool.not_eq_true, Bool.not_eq_false', List.all_eq_true, beq_iff_eq] at hall
      split at hv
      · rename_i hne
        split at hv
        · simp at hv
        · rename_i h0
          simp only [bne_iff_ne, ne_eq, Decidable.not_not] at h0
          cases hv
          have c : CpuSide g s t := by
            refine ⟨by simp [hops], ?_⟩
            intro r' hr'
            rw [hops] at hr'
            simp only [List.mem_cons] at hr'
            rcases hr' with rfl | hr'
            · exact h0
            · rw [hall r' hr']; exact h0
          refine ⟨h.toNpu hwf hk c, rfl, ?_⟩
          intro x hx hxl _
          rcases (toNpu_mem_reads h k t p x).mp hx with ⟨rfl, _⟩ | ⟨hx, hn⟩
          · have := h.n_ge; omega
          · exact ⟨hx, fun e => hn ⟨e, hp⟩⟩
      · rename_i heq
        simp only [bne_iff_ne, ne_eq, Decidable.not_not] at heq
        cases hv
        refine ⟨h, rfl, ?_⟩
        intro x hx hxl hcp
        refine ⟨hx, ?_⟩
        rintro rfl
        have hr : r ∈ g.init.ops x := by rw [← h.ops_orig x hxl, hops]; simp
        have := hcp r hr
        omega

theorem foldIn_inv {g : Graph} {k m : Nat} {p : Nat} (hwf : g.WF) (hk : k ≠ 0) (hp : g.sg p = k) :
    ∀ (L : List Nat) (s s' : St), Inv g k m s →
      (∀ x, x ∈ (s.pass p).reads → x < g.tens.length → g.cpuProduced x → x ∈ L) →
      foldE (visitIn g.sg k) s L = .ok s' →
      Inv g k m s' ∧ s'.usedMultiple = s.usedMultiple ∧
      ∀ x, x ∈ (s'.pass p).reads → x < g.tens.length → ¬ g.cpuProduced x := by
  intro L
  induction L with
  | nil =>
    intro s s' h hL hf
    simp only [foldE] at hf
    cases hf
    exact ⟨h, rfl, fun x hx hxl hcp => by simpa using hL x hx hxl hcp⟩
  | cons t L ih =>
    intro s s' h hL hf
    simp only [foldE] at hf
    cases hv : visitIn g.sg k s t with
    | error e => simp [hv] at hf
    | ok s1 =>
      simp only [hv] at hf
      obtain ⟨h1, hm1, hr1⟩ := visitIn_step hwf h hk hp hv
      have := ih s1 s' h1 (by
        intro x hx hxl hcp
        obtain ⟨hx0, hxt⟩ := hr1 x hx hxl hcp
        have := hL x hx0 hxl hcp
        simp only [List.mem_cons] at this
        rcases this with e | e
        · exact absurd e hxt
        · exact e) hf
      exact ⟨this.1, by rw [this.2.1, hm1], this.2.2⟩

theorem needRewrite_outT (sg : Nat → Nat) (k : Nat) (s : St) (t : Nat) :
    (needRewrite sg k s t).2.1 = false → (needRewrite sg k s t).2.2 = t := by
  unfold needRewrite
  have : ∀ (l : List Nat) (acc : Bool × Bool × Nat), (acc.2.1 = false → acc.2.2 = t) →
      ((l.foldl (fun (acc : Bool × Bool × Nat) o =>
        if !(s.island k).outputs.contains t then
          if t = o then (true, acc.2.1, acc.2.2)
          else if s.eq t = s.eq o then (true, true, o)
          else acc
        else acc) acc).2.1 = false →
       (l.foldl (fun (acc : Bool × Bool × Nat) o =>
        if !(s.island k).outputs.contains t then
          if t = o then (true, acc.2.1, acc.2.2)
          else if s.eq t = s.eq o then (true, true, o)
          else acc
        else acc) acc).2.2 = t) := by
    intro l
    induction l with
    | nil => intro acc h; exact h
    | cons o l ih =>
      intro acc h
      simp only [List.foldl_cons]
      apply ih
      split
      · split
        · exact h
        · split
          · intro hh; exact Bool.noConfusion hh
          · exact h
      · exact h
  exact this s.cpuOut _ (fun _ => rfl)


theorem visitOut_flag {sg : Nat → Nat} {k : Nat} {s s' : St} {t : Nat} (hv : visitOut sg k s t = .ok s')
    (hflag : s'.usedMultiple = false) :
    s.usedMultiple = false ∧ ((needRewrite sg k s t).1 = true → (needRewrite sg k s t).2.1 = false) := by
  unfold visitOut at hv
  simp only at hv
  split at hv
  · have hu := toCpu_usedMultiple hv
    rw [hflag] at hu
    cases h1 : s.usedMultiple <;> cases h2 : (needRewrite sg k s t).2.1 <;> simp [h1, h2] at hu ⊢
  · rename_i hn
    cases hv
    exact ⟨hflag, fun h => absurd h hn⟩

theorem visitOut_step {g : Graph} {k m : Nat} {s s' : St} {t p : Nat} (hwf : g.WF) (hk : k ≠ 0) (hp : g.sg p = k)
    (ht : t ∈ g.O0 p) (hv : visitOut g.sg k s t = .ok s') (hflag : s'.usedMultiple = false) (h : Inv g k m s) :
    Inv g k m s' := by
  have hfl := (visitOut_flag hv hflag).2
  unfold visitOut at hv
  simp only at hv
  split at hv
  · rename_i hn
    have hm := hfl hn
    rw [hm, needRewrite_outT g.sg k s t hm] at hv
    have htl : t < s.n := by
      have := (hwf.outputs_prod p t ht).1
      have := h.n_ge
      omega
    rw [toCpu_false hv htl]
    exact h.toCpuPlain hwf hk hp ht
  · cases hv
    exact h

theorem foldOut_flag {sg : Nat → Nat} {k : Nat} :
    ∀ (L : List Nat) (s s' : St), foldE (visitOut sg k) s L = .ok s' → s'.usedMultiple = false → s.usedMultiple = false := by
  intro L
  induction L with
  | nil =>
    intro s s' hf hflag
    simp only [foldE] at hf
    cases hf
    exact hflag
  | cons t L ih =>
    intro s s' hf hflag
    simp only [foldE] at hf
    cases hv : visitOut sg k s t with
    | error e => simp [hv] at hf
    | ok s1 =>
      simp only [hv] at hf
      exact (visitOut_flag hv (ih s1 s' hf hflag)).1

theorem foldOut_inv {g : Graph} {k m : Nat} {p : Nat} (hwf : g.WF) (hk : k ≠ 0) (hp : g.sg p = k) :
    ∀ (L : List Nat) (s s' : St), (∀ t ∈ L, t ∈ g.O0 p) → foldE (visitOut g.sg k) s L = .ok s' →
      s'.usedMultiple = false → Inv g k m s → Inv g k m s' := by
  intro L
  induction L with
  | nil =>
    intro s s' _ hf _ h
    simp only [foldE] at hf
    cases hf
    exact h
  | cons t L ih =>
    intro s s' hL hf hflag h
    simp only [foldE] at hf
    cases hv : visitOut g.sg k s t with
    | error e => simp [hv] at hf
    | ok s1 =>
      simp only [hv] at hf
      have hf1 := foldOut_flag L s1 s' hf hflag
      exact ih s1 s' (fun t' ht' => hL t' (List.mem_cons_of_mem _ ht')) hf hflag
        (visitOut_step hwf hk hp (hL t (List.mem_cons_self)) hv hf1 h)

/-! ## Numbering of the NPU subgraphs -/

theorem numberIslands_ge : ∀ (l : List Bool) (prev : Bool) (n a : Nat), a ∈ numberIslands prev n l → a = 0 ∨ n ≤ a := by
  intro l
  induction l with
  | nil => intro prev n a h; simp [numberIslands] at h
  | cons x rest ih =>
    intro prev n a h
    cases x with
    | true =>
      simp only [numberIslands, List.mem_cons] at h
      rcases h with rfl | h
      · right; split <;> omega
      · rcases ih _ _ _ h with h0 | h1
        · exact Or.inl h0
        · right
          split at h1 <;> omega
    | false =>
      simp only [numberIslands, List.mem_cons] at h
      rcases h with rfl | h
      · exact Or.inl rfl
      · exact ih _ _ _ h

theorem numberIslands_mono : ∀ (l : List Bool) (prev : Bool) (n i j a b : Nat), i < j →
    (numberIslands prev n l)[i]? = some a → (numberIslands prev n l)[j]? = some b → a ≠ 0 → b ≠ 0 → a ≤ b := by
  intro l
  induction l with
  | nil => intro prev n i j a b _ h; simp [numberIslands] at h
  | cons x rest ih =>
    intro prev n i j a b hij ha hb ha0 hb0
    cases j with
    | zero => omega
    | succ j' =>
      cases i with
      | zero =>
        cases x with
        | true =>
          simp only [numberIslands, List.getElem?_cons_zero, List.getElem?_cons_succ, Option.some.injEq] at ha hb
          have hmem := List.mem_of_getElem? hb
          rcases numberIslands_ge _ _ _ _ hmem with h0 | h1
          · exact absurd h0 hb0
          · omega
        | false =>
          simp only [numberIslands, List.getElem?_cons_zero, Option.some.injEq] at ha
          omega
      | succ i' =>
        cases x with
        | true =>
          simp only [numberIslands, List.getElem?_cons_succ] at ha hb
          exact ih _ _ _ _ _ _ (by omega) ha hb ha0 hb0
        | false =>
          simp only [numberIslands, List.getElem?_cons_succ] at ha hb
          exact ih _ _ _ _ _ _ (by omega) ha hb ha0 hb0

theorem Graph.sg_eq_some (g : Graph) {q : Nat} (h : g.sg q ≠ 0) : g.sgList[q]? = some (g.sg q) := by
  unfold Graph.sg at h ⊢
  cases hq : g.sgList[q]? with
  | none => simp [hq] at h
  | some k => rfl

theorem Graph.sg_mono (g : Graph) {i j : Nat} (hij : i < j) (hi : g.sg i ≠ 0) (hj : g.sg j ≠ 0) : g.sg i ≤ g.sg j :=
  numberIslands_mono _ _ _ i j _ _ hij (g.sg_eq_some hi) (g.sg_eq_some hj) hi hj

theorem numberIslands_length : ∀ (l : List Bool) (prev : Bool) (n : Nat), (numberIslands prev n l).length = l.length := by
  intro l
  induction l with
  | nil => intro prev n; rfl
  | cons x rest ih =>
    intro prev n
    cases x <;> simp [numberIslands, ih]

theorem scanPlaces_length : ∀ (l : List Place) (b : Bool), (scanPlaces b l).length = l.length := by
  intro l
  induction l with
  | nil => intro b; rfl
  | cons x rest ih => intro b; simp [scanPlaces, ih]

theorem Graph.sgList_length (g : Graph) : g.sgList.length = g.passes.length := by
  simp [Graph.sgList, numberIslands_length, resolvePlaces, scanPlaces_length]

theorem Graph.lt_of_sg_ne (g : Graph) {q : Nat} (h : g.sg q ≠ 0) : q < g.passes.length := by
  have := g.sg_eq_some h
  have := (List.getElem?_eq_some_iff.mp this).1
  rw [g.sgList_length] at this
  exact this

theorem le_foldl_max : ∀ (l : List Nat) (b a : Nat), (a ∈ l ∨ a ≤ b) → a ≤ l.foldl max b := by
  intro l
  induction l with
  | nil => intro b a h; simpa using h
  | cons x rest ih =>
    intro b a h
    simp only [List.foldl_cons]
    apply ih
    simp only [List.mem_cons] at h
    rcases h with (rfl | h) | h
    · right; omega
    · left; exact h
    · right; omega

theorem Graph.sg_le_nIslands (g : Graph) (q : Nat) : g.sg q ≤ g.nIslands := by
  by_cases h : g.sg q = 0
  · omega
  · exact le_foldl_max _ _ _ (Or.inl (List.mem_of_getElem? (g.sg_eq_some h)))


/-! ## The whole rewriting -/

theorem Inv.extend {g : Graph} {K m : Nat} {s : St} (h : Inv g K m s)
    (hv : g.sg m ≠ 0 → ∀ x, x ∈ (s.pass m).reads → x < g.tens.length → ¬ g.cpuProduced x) : Inv g K (m + 1) s :=
  { h with
    visited := by
      intro p hp hsg x hx hxl
      by_cases hpm : p = m
      · subst hpm; exact hv hsg x hx hxl
      · exact h.visited p (by omega) hsg x hx hxl }

theorem visitIn_flag {sg : Nat → Nat} {k : Nat} {s s' : St} {t : Nat} (hv : visitIn sg k s t = .ok s') :
    s'.usedMultiple = s.usedMultiple := by
  unfold visitIn at hv
  split at hv
  · simp at hv
  · simp only at hv
    split at hv
    · simp at hv
    · split at hv
      · split at hv
        · simp at hv
        · cases hv; rfl
      · cases hv; rfl

theorem foldIn_flag {sg : Nat → Nat} {k : Nat} :
    ∀ (L : List Nat) (s s' : St), foldE (visitIn sg k) s L = .ok s' → s'.usedMultiple = s.usedMultiple := by
  intro L
  induction L with
  | nil =>
    intro s s' hf
    simp only [foldE] at hf
    cases hf
    rfl
  | cons t L ih =>
    intro s s' hf
    simp only [foldE] at hf
    cases hv : visitIn sg k s t with
    | error e => simp [hv] at hf
    | ok s1 =>
      simp only [hv] at hf
      rw [ih s1 s' hf, visitIn_flag hv]

theorem stepPass_inv {g : Graph} {K p : Nat} {s s' : St} (hwf : g.WF) (hK : g.sg p ≠ 0 → K ≤ g.sg p)
    (hs : stepPass g.sg s p = .ok s') (hflag : s'.usedMultiple = false) :
    s.usedMultiple = false ∧ (Inv g K p s → Inv g (max K (g.sg p)) (p + 1) s') := by
  unfold stepPass at hs
  split at hs
  · rename_i h0
    cases hs
    refine ⟨hflag, fun h => ?_⟩
    rw [h0, Nat.max_zero]
    exact h.extend (fun hne => absurd h0 hne)
  · rename_i hne
    cases h1 : foldE (visitIn g.sg (g.sg p)) s (s.pass p).inputs with
    | error e => simp [h1] at hs
    | ok s1 =>
      simp only [h1] at hs
      have hmax : max K (g.sg p) = g.sg p := Nat.max_eq_right (hK hne)
      have hflag1 : s1.usedMultiple = false := foldOut_flag _ s1 s' hs hflag
      refine ⟨by rw [← foldIn_flag _ s s1 h1]; exact hflag1, ?_⟩
      rw [hmax]
      have key : Inv g K p s → Inv g (g.sg p) (p + 1) s' := by
        intro h
        have hk := h.mono (hK hne)
        obtain ⟨hi1, hm1, hv1⟩ := foldIn_inv hwf hne rfl (s.pass p).inputs s s1 hk
          (fun x hx _ _ => hk.reads_inputs p x hx) h1
        have hi1' := hi1.extend (fun _ => hv1)
        refine foldOut_inv hwf hne rfl (s1.pass p).outputs s1 s' ?_ hs hflag hi1'
        intro t ht
        rw [hi1.outputs_eq p] at ht
        exact ht
      exact key

theorem foldE_append (f : St → Nat → Except Err St) : ∀ (l1 l2 : List Nat) (s : St),
    foldE f s (l1 ++ l2) = match foldE f s l1 with | .ok s1 => foldE f s1 l2 | .error e => .error e := by
  intro l1
  induction l1 with
  | nil => intro l2 s; rfl
  | cons x xs ih =>
    intro l2 s
    simp only [List.cons_append, foldE]
    cases f s x with
    | error e => rfl
    | ok s1 => exact ih l2 s1

/-- the invariant after the first `n` passes -/
theorem range_inv {g : Graph} (hwf : g.WF) : ∀ (n : Nat) (s' : St),
    foldE (stepPass g.sg) g.init (List.range n) = .ok s' → s'.usedMultiple = false →
    ∃ K, (∀ q, n ≤ q → g.sg q ≠ 0 → K ≤ g.sg q) ∧ Inv g K n s' := by
  intro n
  induction n with
  | zero =>
    intro s' hf _
    simp only [List.range_zero, foldE] at hf
    cases hf
    exact ⟨0, fun _ _ _ => Nat.zero_le _, Inv.init g hwf⟩
  | succ n ih =>
    intro s' hf hflag
    rw [List.range_succ, foldE_append] at hf
    cases h1 : foldE (stepPass g.sg) g.init (List.range n) with
    | error e => simp [h1] at hf
    | ok s1 =>
      simp only [h1, foldE] at hf
      cases h2 : stepPass g.sg s1 n with
      | error e => simp [h2] at hf
      | ok s2 =>
        simp only [h2] at hf
        cases hf
        have hfl1 : s1.usedMultiple = false := (stepPass_inv (K := 0) hwf (fun _ => Nat.zero_le _) h2 hflag).1
        obtain ⟨K, hK, hi⟩ := ih s1 h1 hfl1
        obtain ⟨_, hstep⟩ := stepPass_inv (K := K) hwf (fun hne => hK n (Nat.le_refl _) hne) h2 hflag
        refine ⟨max K (g.sg n), ?_, hstep hi⟩
        intro q hq hne
        have := hK q (by omega) hne
        by_cases hn0 : g.sg n = 0
        · rw [hn0]; simpa using this
        · have := g.sg_mono (i := n) (j := q) (by omega) hn0 hne
          omega

theorem extract_inv {g : Graph} (hwf : g.WF) {s : St} (hs : extract g = .ok s) (hflag : s.usedMultiple = false) :
    ∃ K, Inv g K g.passes.length s := by
  obtain ⟨K, _, h⟩ := range_inv hwf g.passes.length s hs hflag
  exact ⟨K, h⟩


/-! ## Reading the result off the final state -/

theorem mem_finalCons_pass {g : Graph} {s : St} {x q : Nat} (hq : q < g.passes.length) (hx : x ∈ (s.pass q).reads) :
    some (OpRef.pass q) ∈ finalCons g s x := by
  unfold finalCons
  simp only [List.mem_append, List.mem_flatMap, List.mem_range, List.mem_map, List.mem_filter, beq_iff_eq]
  exact Or.inl (Or.inl (Or.inl ⟨q, hq, x, ⟨hx, rfl⟩, rfl⟩))

theorem mem_finalCons_cpuOut {g : Graph} {s : St} {x : Nat} (hx : x ∈ s.cpuOut) : none ∈ finalCons g s x := by
  unfold finalCons
  simp only [List.mem_append, List.mem_map, List.mem_filter, beq_iff_eq]
  exact Or.inl (Or.inr ⟨x, ⟨hx, rfl⟩, trivial⟩)

theorem mem_finalCons_island {g : Graph} {s : St} {x k : Nat} (hk : k ≤ g.nIslands) (hx : x ∈ (s.island k).outputs) :
    none ∈ finalCons g s x := by
  unfold finalCons
  simp only [List.mem_append, List.mem_flatMap, List.mem_range, List.mem_map, List.mem_filter, beq_iff_eq]
  exact Or.inr ⟨k, by omega, x, ⟨hx, rfl⟩, trivial⟩

/-- The core of `fuse_safe`: a tensor object that an NPU pass reads after the rewriting, that is not write protected and
    has at most one entry in its final consumer list, is (the clone of) a tensor of the description that no later pass
    reads and that is no output of the graph. -/
theorem safe_core {g : Graph} {s : St} {K : Nat} (h : Inv g K g.passes.length s) {o x : Nat}
    (hsg : g.sg o ≠ 0) (hx : x ∈ (s.pass o).reads) (hwp : s.wp x = false) (hlen : (finalCons g s x).length ≤ 1) :
    ∃ a, a < g.tens.length ∧ (x = a ∨ s.src x = some a) ∧ a ∈ g.R0 o ∧ (∀ q, o < q → a ∉ g.R0 q) ∧ a ∉ g.outputs := by
  have ho : o < g.passes.length := g.lt_of_sg_ne hsg
  have hmo := mem_finalCons_pass ho hx
  have hnone : none ∉ finalCons g s x := by
    intro hn
    have := two_le_length_of_mem_ne (a := some (OpRef.pass o)) (b := none) (by simp) hmo hn
    omega
  -- the only pass that reads `x`
  have F1 : ∀ q, x ∈ (s.pass q).reads → q = o := by
    intro q hq
    have hql : q < g.passes.length := by
      rcases h.prov q x hq with ⟨_, h0⟩ | ⟨_, hw | ⟨a, _, _, h0, _⟩⟩
      · exact g.lt_of_mem_R0 h0
      · rw [hw] at hwp; exact Bool.noConfusion hwp
      · exact g.lt_of_mem_R0 h0
    by_cases hqo : q = o
    · exact hqo
    · have := two_le_length_of_mem_ne (a := some (OpRef.pass q)) (b := some (OpRef.pass o)) (by simpa using hqo)
        (mem_finalCons_pass hql hq) hmo
      omega
  have F2 : x ∉ s.cpuOut := fun hc => hnone (mem_finalCons_cpuOut hc)
  have F3 : ∀ k, x ∉ (s.island k).outputs := by
    intro k hk
    obtain ⟨_, _, p, hp, _⟩ := h.island_out k x hk
    exact hnone (mem_finalCons_island (by rw [← hp]; exact g.sg_le_nIslands p) hk)
  rcases h.prov o x hx with ⟨hxl, hx0⟩ | ⟨hxge, hw | ⟨a, hal, hsrc, ha0, hops⟩⟩
  · -- a tensor of the description, produced inside the NPU subgraph
    have hncp : ¬ g.cpuProduced x := h.visited o ho hsg x hx hxl
    refine ⟨x, hxl, Or.inl rfl, hx0, ?_, ?_⟩
    · intro q hq hr
      have := F1 q (h.keepReaders x hxl hncp F3 q hr)
      omega
    · intro hout
      rcases h.outs_kept x hout with h1 | ⟨k, hk⟩
      · exact F2 h1
      · exact F3 k hk
  · rw [hw] at hwp; exact Bool.noConfusion hwp
  · -- the NPU-side clone of a CPU-produced tensor
    obtain ⟨_, hnout, huniq⟩ := h.unprot x hxge (h.reads_lt o x hx) hwp a (g.sg o) hsrc hops
    refine ⟨a, hal, Or.inr hsrc, ha0, ?_, hnout⟩
    intro q hq hr
    have : g.sg q = 0 ∨ g.sg o ≤ g.sg q := by
      by_cases hq0 : g.sg q = 0
      · exact Or.inl hq0
      · exact Or.inr (g.sg_mono hq hsg hq0)
    have := huniq q o hx hr this
    omega


open VelaVerif.LiveRange in
/-- what a positive answer of `_get_ifm_to_fuse` implies about the chosen tensor -/
theorem ifmToFuseP_facts (ru : FuseRules) (fi : FuseInfo) (t : Tensor) (h : ifmToFuseP ru fi = some (some t)) :
    (fi.ifm = some t ∨ fi.ifm2 = some t) ∧ t.consumers ≤ 1 ∧
    ((ru.memcpyWp = true ∨ (fi.elementwise = true ∧ fi.varWrite = false)) → t.writeProtected = false) ∧
    ((ru.elementwiseVar = true ∧ ru.memcpyVar = true) → t.isVariable = false) := by
  unfold ifmToFuseP at h
  split at h
  · rename_i hew
    simp only [Bool.and_eq_true, Bool.not_eq_true'] at hew
    split at h
    · simp only [Option.some.injEq, Option.map_eq_some_iff] at h
      obtain ⟨p, hp, rfl⟩ := h
      have hc := List.find?_some hp
      have hm := List.mem_of_find?_eq_some hp
      simp only [candidateOkP, Bool.and_eq_true, beq_iff_eq, Bool.not_eq_true', Bool.and_eq_false_iff] at hc
      refine ⟨?_, by omega, fun _ => hc.1.1.1.1.1.1.2, ?_⟩
      · simp only [FuseInfo.inps, List.mem_append] at hm
        rcases hm with hm | hm
        · cases hi : fi.ifm with
          | none => simp [hi] at hm
          | some u =>
            simp only [hi, List.mem_singleton] at hm
            subst hm
            exact Or.inl rfl
        · cases hi : fi.ifm2 with
          | none => simp [hi] at hm
          | some u =>
            simp only [hi, List.mem_singleton] at hm
            subst hm
            exact Or.inr rfl
      · rintro ⟨hv, _⟩
        rcases hc.2 with h1 | h1
        · rw [hv] at h1; exact Bool.noConfusion h1
        · exact h1
    · simp at h
  · rename_i hnew
    split at h
    · split at h
      · simp at h
      · rename_i ifm hifm
        split at h
        · rename_i hcond
          simp only [Option.some.injEq] at h
          subst h
          simp only [Bool.not_eq_true', Bool.or_eq_false_iff, decide_eq_false_iff_not, Bool.and_eq_false_iff] at hcond
          refine ⟨Or.inl hifm, by omega, ?_, ?_⟩
          · rintro (hm | ⟨he, hv⟩)
            · rcases hcond.1.2 with h1 | h1
              · rw [hm] at h1; exact Bool.noConfusion h1
              · exact h1
            · simp [he, hv] at hnew
          · rintro ⟨_, hv⟩
            rcases hcond.2 with h1 | h1
            · rw [hv] at h1; exact Bool.noConfusion h1
            · exact h1
        · simp at h
    · simp at h


open VelaVerif.LiveRange (FuseRules ifmToFuseP) in
/-- `fused … = some x`: `x` is an operand of the pass, unprotected, with at most one consumer -/
theorem fused_facts {ru : FuseRules} {g : Graph} {s : St} {d : FuseDesc} {o x : Nat} (hf : fused ru g s d o = some x) :
    ((s.pass o).ifm = some x ∨ (s.pass o).ifm2 = some x) ∧ (finalCons g s x).length ≤ 1 ∧
    ((ru.memcpyWp = true ∨ (d.elementwise = true ∧ d.varWrite = false)) → s.wp x = false) ∧
    ((ru.elementwiseVar = true ∧ ru.memcpyVar = true) →
      (((s.pass o).ifm = some x ∧ d.ifmAttr.isVariable = false) ∨ ((s.pass o).ifm2 = some x ∧ d.ifm2Attr.isVariable = false))) := by
  unfold fused at hf
  cases hfi : fuseInfo g s d o with
  | none => simp [hfi] at hf
  | some fi =>
    simp only [hfi] at hf
    cases hfu : ifmToFuseP ru fi with
    | none => simp [hfu] at hf
    | some r =>
      cases r with
      | none => simp [hfu] at hf
      | some t =>
        simp only [hfu, Option.some.injEq] at hf
        obtain ⟨hop, hc, hw, hv⟩ := ifmToFuseP_facts ru fi t hfu
        unfold fuseInfo at hfi
        cases hofm : (s.pass o).ofm with
        | none => simp [hofm] at hfi
        | some ofm =>
          simp only [hofm, Option.some.injEq] at hfi
          subst hfi
          simp only [Option.map_eq_some_iff] at hop
          have key : ∀ (at_ : TAttr) (y : Nat), tensorRec g s at_ y = t → y = x ∧ t.consumers = (finalCons g s x).length ∧
              t.writeProtected = s.wp x ∧ t.isVariable = at_.isVariable := by
            intro at_ y hy
            subst hy
            simp only [tensorRec] at hf
            subst hf
            exact ⟨rfl, rfl, rfl, rfl⟩
          rcases hop with ⟨y, hy, hrec⟩ | ⟨y, hy, hrec⟩
          · obtain ⟨rfl, h1, h2, h3⟩ := key _ y hrec
            exact ⟨Or.inl hy, by omega, fun hh => by rw [← h2]; exact hw hh,
              fun hh => Or.inl ⟨hy, by rw [← h3]; exact hv hh⟩⟩
          · obtain ⟨rfl, h1, h2, h3⟩ := key _ y hrec
            exact ⟨Or.inr hy, by omega, fun hh => by rw [← h2]; exact hw hh,
              fun hh => Or.inr ⟨hy, by rw [← h3]; exact hv hh⟩⟩


/-- the operator sequence of a graph description, as the Spec reads it -/
def progOf (g : Graph) (persistent : List Nat) : InPlaceSpec.Prog :=
  { nodes := g.passes.map fun p => { reads := p.pass.reads, writes := p.pass.outputs },
    outputs := g.outputs, persistent := persistent }

theorem readsAt_progOf (g : Graph) (pers : List Nat) (q a : Nat) :
    InPlaceSpec.readsAt (progOf g pers) q a = g.readsAt q a := by
  unfold InPlaceSpec.readsAt progOf Graph.readsAt Graph.passAt
  simp only [List.getElem?_map]
  cases g.passes[q]? with
  | none => simp [Pass.empty]
  | some p => rfl

theorem writesAt_progOf (g : Graph) (pers : List Nat) (q a : Nat) :
    InPlaceSpec.writesAt (progOf g pers) q a = (g.O0 q).contains a := by
  unfold InPlaceSpec.writesAt progOf Graph.O0 Graph.passAt
  simp only [List.getElem?_map]
  cases g.passes[q]? with
  | none => simp [Pass.empty]
  | some p => rfl


/-! ## The operator order of `Spec/Arena.lean` -/

section arena
open VelaVerif.Arena

/-- the graph description as an arena plan (`Spec/Arena.lean`): one operator per pass, in pass order; sizes and offsets
    play no role for `born` / `dies` -/
def planOf (g : Graph) : Plan :=
  { tensors := g.tens.map fun _ => { size := 0, offset := none, isVariable := false },
    ops := g.passes.map fun p => { ethosu := false, builtin := 0, inputs := p.pass.reads, outputs := p.pass.outputs },
    inputs := [], outputs := g.outputs, scratch := none, fast := none, align := 16 }

private def diesStep (t : Nat) (acc : Nat) (x : AOp × Nat) : Nat :=
  if x.1.inputs.contains t || x.1.outputs.contains t then max acc (x.2 + 1) else acc

theorem foldl_dies_ge (t : Nat) : ∀ (l : List (AOp × Nat)) (b : Nat), b ≤ l.foldl (diesStep t) b := by
  intro l
  induction l with
  | nil => intro b; exact Nat.le_refl _
  | cons x xs ih =>
    intro b
    simp only [List.foldl_cons]
    refine Nat.le_trans ?_ (ih _)
    unfold diesStep
    split <;> omega

theorem foldl_dies_reader (t : Nat) : ∀ (l : List (AOp × Nat)) (b : Nat) (x : AOp × Nat), x ∈ l →
    (x.1.inputs.contains t || x.1.outputs.contains t) = true → x.2 + 1 ≤ l.foldl (diesStep t) b := by
  intro l
  induction l with
  | nil => intro b x hx; simp at hx
  | cons y ys ih =>
    intro b x hx hr
    simp only [List.foldl_cons]
    simp only [List.mem_cons] at hx
    rcases hx with rfl | hx
    · refine Nat.le_trans ?_ (foldl_dies_ge t ys _)
      unfold diesStep
      rw [if_pos hr]
      omega
    · exact ih _ x hx hr

theorem foldl_dies_le (t B : Nat) : ∀ (l : List (AOp × Nat)) (b : Nat), b ≤ B →
    (∀ x ∈ l, (x.1.inputs.contains t || x.1.outputs.contains t) = true → x.2 + 1 ≤ B) → l.foldl (diesStep t) b ≤ B := by
  intro l
  induction l with
  | nil => intro b hb _; exact hb
  | cons y ys ih =>
    intro b hb hall
    simp only [List.foldl_cons]
    apply ih
    · unfold diesStep
      split
      · rename_i hr
        have := hall y (List.mem_cons_self) hr
        omega
      · exact hb
    · intro x hx hr
      exact hall x (List.mem_cons_of_mem _ hx) hr


theorem planOf_ops_getElem? (g : Graph) (k : Nat) (x : AOp) (h : (planOf g).ops[k]? = some x) :
    x.inputs = g.R0 k ∧ x.outputs = g.O0 k := by
  simp only [planOf, List.getElem?_map, Option.map_eq_some_iff] at h
  obtain ⟨p, hp, rfl⟩ := h
  simp [Graph.R0, Graph.O0, Graph.passAt, hp]

/-- `Arena.dies` of the plan of a graph description, for a tensor that is no output: `o + 1` when pass `o` is the last
    reader and every producer comes before `o` -/
theorem dies_planOf {g : Graph} {a o : Nat} (hout : a ∉ g.outputs) (hr : a ∈ g.R0 o) (hlater : ∀ q, o < q → a ∉ g.R0 q)
    (hprod : ∀ k, a ∈ g.O0 k → k < o) : dies (planOf g) a = o + 1 := by
  unfold dies
  have h1 : ¬ ((planOf g).outputs.contains a = true ∨
      (((planOf g).tensors[a]?.map (·.isVariable)).getD false) = true) := by
    rintro (h | h)
    · exact hout (List.contains_iff_mem.mp h)
    · simp only [planOf, List.getElem?_map] at h
      cases hg : g.tens[a]? <;> simp [hg] at h
  rw [if_neg h1]
  have hfold : ∀ b, (planOf g).ops.zipIdx.foldl
      (fun acc (x : AOp × Nat) => if x.1.inputs.contains a || x.1.outputs.contains a then max acc (x.2 + 1) else acc) b =
      (planOf g).ops.zipIdx.foldl (diesStep a) b := fun b => rfl
  have hdef : ((planOf g).ops.zipIdx.foldl (fun acc (x : AOp × Nat) =>
      match x with | (o, k) => if o.inputs.contains a || o.outputs.contains a then max acc (k + 1) else acc) (born (planOf g) a)) =
      (planOf g).ops.zipIdx.foldl (diesStep a) (born (planOf g) a) := rfl
  rw [hdef]
  apply Nat.le_antisymm
  · apply foldl_dies_le
    · -- born ≤ o + 1
      unfold born
      split
      · rename_i x k hf
        have hp := List.find?_some hf
        have hm := List.mem_zipIdx_iff_getElem?.mp (List.mem_of_find?_eq_some hf)
        obtain ⟨_, ho⟩ := planOf_ops_getElem? g k x hm
        simp only at hp
        rw [ho] at hp
        have := hprod k (List.contains_iff_mem.mp hp)
        omega
      · omega
    · intro x hx hrd
      have hm := List.mem_zipIdx_iff_getElem?.mp hx
      obtain ⟨hi, hou⟩ := planOf_ops_getElem? g x.2 x.1 hm
      rw [hi, hou, Bool.or_eq_true] at hrd
      rcases hrd with hrd | hwr
      · have := List.contains_iff_mem.mp hrd
        by_cases hq : o < x.2
        · exact absurd this (hlater x.2 hq)
        · omega
      · -- a writer: every producer comes before `o`
        have := hprod x.2 (List.contains_iff_mem.mp hwr)
        omega
  · -- the reader `o`
    have ho : o < g.passes.length := g.lt_of_mem_R0 hr
    have hget : (planOf g).ops[o]? = some ((planOf g).ops[o]'(by simp [planOf]; exact ho)) := List.getElem?_eq_getElem _
    have hmem : ((planOf g).ops[o]'(by simp [planOf]; exact ho), o) ∈ (planOf g).ops.zipIdx :=
      List.mem_zipIdx_iff_getElem?.mpr hget
    have := foldl_dies_reader a _ (born (planOf g) a) _ hmem (by
      obtain ⟨hi, _⟩ := planOf_ops_getElem? g o _ hget
      simp only [hi, Bool.or_eq_true]
      exact Or.inl (List.contains_iff_mem.mpr hr))
    exact this


end arena

end VelaVerif.InPlace
