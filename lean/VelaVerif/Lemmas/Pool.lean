import VelaVerif.Lemmas.Sem
/-! Helper lemmas for the pooling theorems of `Props/C01.lean`: the pooling kernels of the reference and the window of the
executor as folds over one list of window values. -/
namespace VelaVerif.Lemmas.Pool
open VelaVerif.Requant VelaVerif.TfliteRef VelaVerif.Lemmas.Sem

theorem foldl_cond_eq_filterMap {γ : Type} (l : List Nat) (p : Nat → Prop) [∀ k, Decidable (p k)] (v : Nat → Int) (f : γ → Int → γ) :
    ∀ acc : γ, l.foldl (fun acc k => if p k then f acc (v k) else acc) acc =
      (l.filterMap fun k => if p k then some (v k) else none).foldl f acc := by
  induction l with
  | nil => intro acc; rfl
  | cons k ks ih =>
    intro acc
    simp only [List.foldl, List.filterMap_cons]
    by_cases h : p k
    · simp only [h, if_true, List.foldl]; exact ih _
    · simp only [h, if_false]; exact ih _

theorem filterMap_congr_mem {β : Type} (l : List Nat) (f g : Nat → Option β) (h : ∀ k, k ∈ l → f k = g k) :
    l.filterMap f = l.filterMap g := by
  induction l with
  | nil => rfl
  | cons k ks ih =>
    simp only [List.filterMap_cons]
    rw [h k List.mem_cons_self, ih (fun j hj => h j (List.mem_cons_of_mem k hj))]

theorem flatMap_congr_mem {β : Type} (l : List Nat) (f g : Nat → List β) (h : ∀ k, k ∈ l → f k = g k) :
    l.flatMap f = l.flatMap g := by
  induction l with
  | nil => rfl
  | cons k ks ih =>
    simp only [List.flatMap_cons]
    rw [h k List.mem_cons_self, ih (fun j hj => h j (List.mem_cons_of_mem k hj))]

/-- the window of the reference pooling kernels as a list (row-major), positions outside the tensor skipped -/
def refWindow (H W : Nat) (ifm : Nat → Nat → Int) (fh fw sh sw pt pl oy ox : Nat) : List Int :=
  (List.range fh).flatMap fun ky => (List.range fw).filterMap fun kx =>
    if 0 ≤ ((oy * sh + ky : Nat) : Int) - (pt : Int) ∧ ((oy * sh + ky : Nat) : Int) - (pt : Int) < (H : Int) ∧
       0 ≤ ((ox * sw + kx : Nat) : Int) - (pl : Int) ∧ ((ox * sw + kx : Nat) : Int) - (pl : Int) < (W : Int)
    then some (ifm (((oy * sh + ky : Nat) : Int) - (pt : Int)).toNat (((ox * sw + kx : Nat) : Int) - (pl : Int)).toNat) else none

theorem poolMax_eq_foldl (H W : Nat) (ifm : Nat → Nat → Int) (fh fw sh sw pt pl oy ox : Nat) (lowest : Int) :
    poolMax H W ifm fh fw sh sw pt pl oy ox lowest = (refWindow H W ifm fh fw sh sw pt pl oy ox).foldl max lowest := by
  unfold poolMax refWindow
  rw [List.foldl_flatMap]
  simp only []
  congr 1
  funext acc ky
  exact foldl_cond_eq_filterMap (List.range fw) _ _ max acc

theorem poolSumCount_eq_foldl (H W : Nat) (ifm : Nat → Nat → Int) (fh fw sh sw pt pl oy ox : Nat) :
    poolSumCount H W ifm fh fw sh sw pt pl oy ox =
      (refWindow H W ifm fh fw sh sw pt pl oy ox).foldl (fun (acc : Int × Nat) v => (acc.1 + v, acc.2 + 1)) (0, 0) := by
  unfold poolSumCount refWindow
  rw [List.foldl_flatMap]
  simp only []
  congr 1
  funext acc ky
  exact foldl_cond_eq_filterMap (List.range fw) _ _ (fun (acc : Int × Nat) v => (acc.1 + v, acc.2 + 1)) acc

/-- the executor's window over the whole tensor is the reference window -/
theorem windowVals_eq_refWindow (H W : Nat) (ifm : Nat → Nat → Int) (kh kw sy sx pt pl oy ox : Nat) :
    NpuSem.windowVals H W ifm kh kw sy sx pt pl oy ox = refWindow H W ifm kh kw sy sx pt pl oy ox := by
  unfold NpuSem.windowVals refWindow
  apply flatMap_congr_mem
  intro ky _
  apply filterMap_congr_mem
  intro kx _
  simp only []
  by_cases hn : pt ≤ oy * sy + ky ∧ oy * sy + ky - pt < H ∧ pl ≤ ox * sx + kx ∧ ox * sx + kx - pl < W
  · have c2 : 0 ≤ ((oy * sy + ky : Nat) : Int) - (pt : Int) ∧ ((oy * sy + ky : Nat) : Int) - (pt : Int) < (H : Int) ∧
        0 ≤ ((ox * sx + kx : Nat) : Int) - (pl : Int) ∧ ((ox * sx + kx : Nat) : Int) - (pl : Int) < (W : Int) := by omega
    rw [if_pos hn, if_pos c2]
    have e3 : (((oy * sy + ky : Nat) : Int) - (pt : Int)).toNat = oy * sy + ky - pt := by omega
    have e4 : (((ox * sx + kx : Nat) : Int) - (pl : Int)).toNat = ox * sx + kx - pl := by omega
    rw [e3, e4]
  · have c2 : ¬ (0 ≤ ((oy * sy + ky : Nat) : Int) - (pt : Int) ∧ ((oy * sy + ky : Nat) : Int) - (pt : Int) < (H : Int) ∧
        0 ≤ ((ox * sx + kx : Nat) : Int) - (pl : Int) ∧ ((ox * sx + kx : Nat) : Int) - (pl : Int) < (W : Int)) := by
      intro c; apply hn; omega
    rw [if_neg hn, if_neg c2]

/-- the executor's window on a stripe is its window on the whole tensor (same hypotheses as `conv_stripe_eq`) -/
theorem windowVals_stripe (H W h a oy0 pt pt' pl kh kw sy sx : Nat) (ifm : Nat → Nat → Int) (oy ox : Nat)
    (hfield : (a : Int) - pt' = (oy0 : Int) * sy - pt)
    (hrow : ∀ ky, ky < kh →
      ((pt' ≤ oy * sy + ky ∧ oy * sy + ky - pt' < h) ↔
       (0 ≤ (((oy0 + oy) * sy + ky : Nat) : Int) - pt ∧ (((oy0 + oy) * sy + ky : Nat) : Int) - pt < H))) :
    NpuSem.windowVals h W (fun y x => ifm (a + y) x) kh kw sy sx pt' pl oy ox =
    NpuSem.windowVals H W ifm kh kw sy sx pt pl (oy0 + oy) ox := by
  unfold NpuSem.windowVals
  apply flatMap_congr_mem
  intro ky hky
  have hky' : ky < kh := List.mem_range.mp hky
  apply filterMap_congr_mem
  intro kx _
  have hr := hrow ky hky'
  have hmul : (oy0 + oy) * sy = oy0 * sy + oy * sy := Nat.add_mul oy0 oy sy
  simp only []
  by_cases hn : pt' ≤ oy * sy + ky ∧ oy * sy + ky - pt' < h
  · have hi := hr.mp hn
    by_cases hx : pl ≤ ox * sx + kx ∧ ox * sx + kx - pl < W
    · have c1 : pt' ≤ oy * sy + ky ∧ oy * sy + ky - pt' < h ∧ pl ≤ ox * sx + kx ∧ ox * sx + kx - pl < W := ⟨hn.1, hn.2, hx.1, hx.2⟩
      have c2 : pt ≤ (oy0 + oy) * sy + ky ∧ (oy0 + oy) * sy + ky - pt < H ∧ pl ≤ ox * sx + kx ∧ ox * sx + kx - pl < W := by
        refine ⟨?_, ?_, hx.1, hx.2⟩ <;> omega
      rw [if_pos c1, if_pos c2]
      have e1 : a + (oy * sy + ky - pt') = (oy0 + oy) * sy + ky - pt := by omega
      rw [e1]
    · have c1 : ¬ (pt' ≤ oy * sy + ky ∧ oy * sy + ky - pt' < h ∧ pl ≤ ox * sx + kx ∧ ox * sx + kx - pl < W) := fun c => hx ⟨c.2.2.1, c.2.2.2⟩
      have c2 : ¬ (pt ≤ (oy0 + oy) * sy + ky ∧ (oy0 + oy) * sy + ky - pt < H ∧ pl ≤ ox * sx + kx ∧ ox * sx + kx - pl < W) := fun c => hx ⟨c.2.2.1, c.2.2.2⟩
      rw [if_neg c1, if_neg c2]
  · have hi : ¬ (0 ≤ (((oy0 + oy) * sy + ky : Nat) : Int) - pt ∧ (((oy0 + oy) * sy + ky : Nat) : Int) - pt < H) := fun c => hn (hr.mpr c)
    have c1 : ¬ (pt' ≤ oy * sy + ky ∧ oy * sy + ky - pt' < h ∧ pl ≤ ox * sx + kx ∧ ox * sx + kx - pl < W) := fun c => hn ⟨c.1, c.2.1⟩
    have c2 : ¬ (pt ≤ (oy0 + oy) * sy + ky ∧ (oy0 + oy) * sy + ky - pt < H ∧ pl ≤ ox * sx + kx ∧ ox * sx + kx - pl < W) := by
      intro c; apply hi; omega
    rw [if_neg c1, if_neg c2]


theorem foldl_pair_list (l : List Int) : ∀ (acc : Int × Nat),
    l.foldl (fun (acc : Int × Nat) v => (acc.1 + v, acc.2 + 1)) acc = (acc.1 + l.foldl (· + ·) 0, acc.2 + l.length) := by
  induction l with
  | nil => intro acc; simp
  | cons v vs ih =>
    intro acc
    simp only [List.foldl, List.length_cons]
    rw [ih]
    have h : ∀ (l : List Int) (a : Int), l.foldl (· + ·) a = a + l.foldl (· + ·) 0 := by
      intro l
      induction l with
      | nil => intro a; simp
      | cons x xs ihx => intro a; simp only [List.foldl]; rw [ihx (a + x), ihx (0 + x)]; omega
    rw [h vs (0 + v)]
    ext <;> simp <;> omega

theorem foldl_sub_zp (l : List Int) (zp : Int) : ∀ acc : Int,
    l.foldl (fun acc x => acc + (x - zp)) acc = acc + l.foldl (· + ·) 0 - zp * l.length := by
  induction l with
  | nil => intro acc; simp
  | cons v vs ih =>
    intro acc
    simp only [List.foldl, List.length_cons]
    rw [ih]
    have h : ∀ (l : List Int) (a : Int), l.foldl (· + ·) a = a + l.foldl (· + ·) 0 := by
      intro l
      induction l with
      | nil => intro a; simp
      | cons x xs ihx => intro a; simp only [List.foldl]; rw [ihx (a + x), ihx (0 + x)]; omega
    rw [h vs (0 + v)]
    have : zp * ((vs.length + 1 : Nat) : Int) = zp * (vs.length : Int) + zp := by
      rw [Int.natCast_succ, Int.mul_add, Int.mul_one]
    omega

theorem foldl_max_lowest (l : List Int) : ∀ (v0 lowest : Int), lowest ≤ v0 → l.foldl max (max lowest v0) = l.foldl max v0 := by
  intro v0 lowest h
  rw [Int.max_eq_right h]



theorem windowVals_congr_inrange (H W : Nat) (f g : Nat → Nat → Int) (hfg : ∀ y x, y < H → x < W → f y x = g y x)
    (kh kw sy sx pt pl oy ox : Nat) :
    VelaVerif.NpuSem.windowVals H W f kh kw sy sx pt pl oy ox = VelaVerif.NpuSem.windowVals H W g kh kw sy sx pt pl oy ox := by
  unfold VelaVerif.NpuSem.windowVals
  apply flatMap_congr_mem
  intro ky _
  apply filterMap_congr_mem
  intro kx _
  simp only []
  split
  · rename_i h
    rw [hfg _ _ h.2.1 h.2.2.2]
  · rfl


end VelaVerif.Lemmas.Pool
