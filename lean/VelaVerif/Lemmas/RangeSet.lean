import VelaVerif.Model.RangeSet
import VelaVerif.Spec.RangeOverlap
/-!
# Lemmas for `Model/RangeSet.lean`: the sweep in `intersects` is correct on what `RangeSet` maintains

`RangeSet.ranges` is "always in ascending order sorted by start" (the comment in the class) because the
only constructors used are `RangeSet(start, end)` (zero or one range) and `|` / `|=` (which call `sorted`);
every stored range is non-empty because `__init__` drops `start == end` and asserts `start < end`.
-/
namespace VelaVerif.Lemmas.RangeSet
open VelaVerif.RangeSet

/-- what the class maintains: ascending starts, no empty range -/
def WF (l : List Range) : Prop := l.Pairwise (fun r s => r.1 ≤ s.1) ∧ ∀ r ∈ l, r.1 < r.2

/-- the quadratic specification of "some range of `a` overlaps some range of `b`" (`Spec/RangeOverlap.lean`) -/
def overlapsAny (a b : List Range) : Bool := a.any fun r => b.any fun s => overlapB r s

theorem overlapsAny_eq_spec (a b : List Range) : overlapsAny a b = RangeOverlap.overlapsAny a b := rfl

theorem overlapsAny_iff (a b : List Range) :
    overlapsAny a b = true ↔ ∃ r ∈ a, ∃ s ∈ b, max r.1 s.1 < min r.2 s.2 := by
  simp [overlapsAny, overlapB, List.any_eq_true]

theorem overlapsAny_nil_right (a : List Range) : overlapsAny a [] = false := by
  simp [overlapsAny]

theorem overlapsAny_cons_left (r : Range) (a b : List Range) :
    overlapsAny (r :: a) b = (b.any (fun s => overlapB r s) || overlapsAny a b) := by
  simp [overlapsAny]

theorem overlapsAny_cons_right (s : Range) (a b : List Range) :
    overlapsAny a (s :: b) = (a.any (fun r => overlapB r s) || overlapsAny a b) := by
  induction a with
  | nil => simp [overlapsAny]
  | cons r a ih =>
    rw [overlapsAny_cons_left, overlapsAny_cons_left, ih]
    simp only [List.any_cons]
    cases overlapB r s <;> cases b.any (fun s => overlapB r s) <;> simp

theorem WF.tail {r : Range} {l : List Range} (h : WF (r :: l)) : WF l :=
  ⟨(List.pairwise_cons.mp h.1).2, fun x hx => h.2 x (List.mem_cons_of_mem _ hx)⟩

theorem WF.head_le {r : Range} {l : List Range} (h : WF (r :: l)) : ∀ s ∈ r :: l, r.1 ≤ s.1 := by
  intro s hs
  rcases List.mem_cons.mp hs with rfl | hs
  · exact Int.le_refl _
  · exact (List.pairwise_cons.mp h.1).1 s hs

/-- `intersects` returns the quadratic specification and never hits its assertion. -/
theorem intersects_eq (a b : List Range) (ha : WF a) (hb : WF b) :
    intersects a b = some (overlapsAny a b) := by
  fun_induction intersects a b with
  | case1 b => simp [overlapsAny]
  | case2 r as => rw [overlapsAny_nil_right]
  | case3 ar as br bs hov =>
    have : overlapsAny (ar :: as) (br :: bs) = true := by
      simp only [overlapsAny, List.any_cons, hov, Bool.true_or]
    rw [this]
  | case4 ar as br bs hov hlt ih =>
    rw [ih ha.tail hb, overlapsAny_cons_left]
    have hne : (br :: bs).any (fun s => overlapB ar s) = false := by
      rw [List.any_eq_false]
      intro s hs
      have h1 := hb.head_le s hs
      have h2 := hb.2 br (List.mem_cons_self ..)
      simp only [overlapB, decide_eq_true_eq] at hov ⊢
      omega
    rw [hne, Bool.false_or]
  | case5 ar as br bs hov hlt heq =>
    exfalso
    have h1 := ha.2 ar (List.mem_cons_self ..)
    have h2 := hb.2 br (List.mem_cons_self ..)
    simp only [overlapB, decide_eq_true_eq] at hov
    omega
  | case6 ar as br bs hov hlt hne ih =>
    rw [ih ha hb.tail, overlapsAny_cons_right]
    have hn : (ar :: as).any (fun r => overlapB r br) = false := by
      rw [List.any_eq_false]
      intro r hr
      have h1 := ha.head_le r hr
      have h2 := ha.2 ar (List.mem_cons_self ..)
      simp only [overlapB, decide_eq_true_eq] at hov ⊢
      omega
    rw [hn, Bool.false_or]

/-! ## the constructors keep `WF` -/

theorem mem_insertSorted {r x : Range} {l : List Range} : x ∈ insertSorted r l ↔ x = r ∨ x ∈ l := by
  induction l with
  | nil => simp [insertSorted]
  | cons y ys ih =>
    simp only [insertSorted]
    split
    · simp
    · simp only [List.mem_cons, ih]
      constructor
      · rintro (h | h | h) <;> simp [h]
      · rintro (h | h | h) <;> simp [h]

theorem mem_sortRanges {x : Range} {l : List Range} : x ∈ sortRanges l ↔ x ∈ l := by
  induction l with
  | nil => simp [sortRanges]
  | cons y ys ih =>
    have : sortRanges (y :: ys) = insertSorted y (sortRanges ys) := rfl
    rw [this, mem_insertSorted, ih]
    simp

theorem insertSorted_pairwise {r : Range} {l : List Range} (h : l.Pairwise (fun r s => r.1 ≤ s.1)) :
    (insertSorted r l).Pairwise (fun r s => r.1 ≤ s.1) := by
  induction l with
  | nil => simp [insertSorted]
  | cons y ys ih =>
    simp only [insertSorted]
    obtain ⟨hy, hys⟩ := List.pairwise_cons.mp h
    split
    · rename_i hlt
      refine List.pairwise_cons.mpr ⟨?_, h⟩
      intro s hs
      have hry : r.1 ≤ y.1 := by
        simp only [tupleLt, Bool.or_eq_true, Bool.and_eq_true, decide_eq_true_eq] at hlt
        omega
      rcases List.mem_cons.mp hs with rfl | hs
      · exact hry
      · exact Int.le_trans hry (hy s hs)
    · rename_i hnlt
      refine List.pairwise_cons.mpr ⟨?_, ih hys⟩
      intro s hs
      rcases mem_insertSorted.mp hs with rfl | hs
      · simp only [tupleLt, Bool.or_eq_true, Bool.and_eq_true, decide_eq_true_eq, not_or, not_and] at hnlt
        omega
      · exact hy s hs

theorem sortRanges_pairwise (l : List Range) : (sortRanges l).Pairwise (fun r s => r.1 ≤ s.1) := by
  induction l with
  | nil => simp [sortRanges]
  | cons y ys ih => exact insertSorted_pairwise ih

theorem wf_nil : WF [] := ⟨List.Pairwise.nil, by simp⟩

theorem wf_mk {s e : Int} {l : List Range} (h : mk s e = some l) : WF l := by
  unfold mk at h
  split at h
  · simp only [Option.some.injEq] at h; subst h; exact wf_nil
  · split at h
    · rename_i hlt
      simp only [Option.some.injEq] at h; subst h
      exact ⟨by simp, by simpa using hlt⟩
    · simp at h

theorem wf_union {a b : List Range} (ha : WF a) (hb : WF b) : WF (union a b) := by
  refine ⟨sortRanges_pairwise _, ?_⟩
  intro r hr
  rcases List.mem_append.mp (mem_sortRanges.mp hr) with h | h
  · exact ha.2 r h
  · exact hb.2 r h

theorem mem_union {a b : List Range} {r : Range} : r ∈ union a b ↔ r ∈ a ∨ r ∈ b := by
  simp [union, mem_sortRanges]

/-! ## MemoryRangeSet / MemoryAccessSet -/

/-- every region's range list is what `RangeSet` maintains -/
def MWF (m : MemRanges) : Prop := ∀ k, WF (m.get k)

/-- region-wise quadratic specification -/
def mOverlaps (a b : MemRanges) : Prop := ∃ k, overlapsAny (a.get k) (b.get k) = true

theorem get_ne_nil_mem_keys {m : MemRanges} {k : Nat} (h : m.get k ≠ []) : k ∈ m.keys := by
  unfold MemRanges.get at h
  cases hf : m.find? (·.1 = k) with
  | none => simp [hf] at h
  | some p =>
    have h1 := List.find?_some hf
    have h2 := List.mem_of_find?_eq_some hf
    simp only [decide_eq_true_eq] at h1
    exact List.mem_map.mpr ⟨p, h2, h1⟩

theorem get_map_mk (ks : List Nat) (f : Nat → List Range) (k : Nat) :
    MemRanges.get (ks.map fun k' => (k', f k')) k = if k ∈ ks then f k else [] := by
  induction ks with
  | nil => simp [MemRanges.get]
  | cons k' ks ih =>
    unfold MemRanges.get at ih ⊢
    simp only [List.map_cons, List.find?_cons]
    by_cases h : k' = k
    · subst h; simp
    · have h' : ¬ k = k' := fun e => h e.symm
      simp only [h, decide_false, List.mem_cons, h', false_or]
      exact ih

theorem get_union (a b : MemRanges) (k : Nat) :
    (a.union b).get k = union (a.get k) (b.get k) := by
  unfold MemRanges.union
  simp only
  rw [get_map_mk]
  split
  · rfl
  · rename_i hk
    have ha : a.get k = [] := by
      false_or_by_contra
      rename_i hne
      exact hk (List.mem_append_left _ (get_ne_nil_mem_keys hne))
    have hb : b.get k = [] := by
      false_or_by_contra
      rename_i hne
      apply hk
      have hkb := get_ne_nil_mem_keys hne
      by_cases hka : k ∈ a.keys
      · exact List.mem_append_left _ hka
      · exact List.mem_append_right _ (List.mem_filter.mpr ⟨hkb, by simpa using hka⟩)
    rw [ha, hb]; rfl

theorem mwf_nil : MWF [] := fun _ => wf_nil

theorem mwf_single {region : Nat} {s e : Int} {m : MemRanges} (h : MemRanges.single region s e = some m) : MWF m := by
  unfold MemRanges.single at h
  cases hm : mk s e with
  | none => simp [hm] at h
  | some rs =>
    simp only [hm, Option.map_some, Option.some.injEq] at h
    subst h
    intro k
    unfold MemRanges.get
    by_cases hk : region = k
    · simp only [List.find?_cons, hk, decide_true]; exact wf_mk hm
    · simp only [List.find?_cons, hk, decide_false, List.find?_nil]; exact wf_nil

theorem mwf_union {a b : MemRanges} (ha : MWF a) (hb : MWF b) : MWF (a.union b) := by
  intro k; rw [get_union]; exact wf_union (ha k) (hb k)

theorem intersectsOn_eq (a b : MemRanges) (ha : MWF a) (hb : MWF b) (ks : List Nat) :
    MemRanges.intersectsOn a b ks = some (ks.any fun k => overlapsAny (a.get k) (b.get k)) := by
  induction ks with
  | nil => rfl
  | cons k ks ih =>
    simp only [MemRanges.intersectsOn, intersects_eq _ _ (ha k) (hb k), List.any_cons]
    cases overlapsAny (a.get k) (b.get k) <;> simp [ih]

/-- `MemoryRangeSet.intersects` decides "some region has overlapping ranges" and never asserts. -/
theorem mem_intersects_correct (a b : MemRanges) (ha : MWF a) (hb : MWF b) :
    (a.intersects b = some true ↔ mOverlaps a b) ∧ a.intersects b ≠ none := by
  unfold MemRanges.intersects
  rw [intersectsOn_eq a b ha hb]
  refine ⟨?_, by simp⟩
  simp only [Option.some.injEq, List.any_eq_true, List.mem_filter]
  constructor
  · rintro ⟨k, _, hk⟩; exact ⟨k, hk⟩
  · rintro ⟨k, hk⟩
    refine ⟨k, ⟨?_, ?_⟩, hk⟩
    · apply get_ne_nil_mem_keys
      intro h; rw [h] at hk; simp [overlapsAny] at hk
    · simp only [List.contains_iff_mem]
      apply get_ne_nil_mem_keys
      intro h; rw [h, overlapsAny_nil_right] at hk; simp at hk

def AWF (s : AccessSet) : Prop := MWF s.read ∧ MWF s.write

theorem awf_empty : AWF AccessSet.empty := ⟨mwf_nil, mwf_nil⟩

theorem awf_add {s : AccessSet} {m : MemRanges} (hs : AWF s) (hm : MWF m) (w : Bool) : AWF (s.add m w) := by
  unfold AccessSet.add
  split
  · exact ⟨hs.1, mwf_union hs.2 hm⟩
  · exact ⟨mwf_union hs.1 hm, hs.2⟩

/-- `MemoryAccessSet.conflicts` = RAW ∨ WAR ∨ WAW on range level, and never asserts. -/
theorem conflicts_correct (s o : AccessSet) (hs : AWF s) (ho : AWF o) :
    (s.conflicts o = some true ↔
      (mOverlaps s.write o.read ∨ mOverlaps s.read o.write ∨ mOverlaps s.write o.write)) ∧
    s.conflicts o ≠ none := by
  obtain ⟨h1, n1⟩ := mem_intersects_correct s.write o.read hs.2 ho.1
  obtain ⟨h2, n2⟩ := mem_intersects_correct s.read o.write hs.1 ho.2
  obtain ⟨h3, n3⟩ := mem_intersects_correct s.write o.write hs.2 ho.2
  unfold AccessSet.conflicts
  rw [← h1, ← h2, ← h3]
  cases hA : s.write.intersects o.read with
  | none => exact absurd hA n1
  | some x =>
    cases x with
    | true => simp
    | false =>
      cases hB : s.read.intersects o.write with
      | none => exact absurd hB n2
      | some y =>
        cases y with
        | true => simp
        | false => simp [n3]

end VelaVerif.Lemmas.RangeSet
