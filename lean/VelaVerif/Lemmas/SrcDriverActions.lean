import VelaVerif.Lemmas.PyRt
import VelaVerif.Model.Payload
import VelaVerif.Gen.SrcDriverActions
/-!
# The translated `driver_actions.py` helpers in closed form (property C17)
-/
namespace VelaVerif.SrcDriverActions
open VelaVerif VelaVerif.PyRt VelaVerif.Payload
open VelaVerif.Gen.SrcDriverActions

/-- natural numbers as Python ints -/
def pyNat (n : Nat) : Num := .py (n : Int)

theorem make_da_tag_nat (id r p : Nat) :
    make_da_tag (pyNat id) (pyNat r) (pyNat p) = .ok (pyNat (makeDaTag id r p)) := by
  unfold pyNat
  py_exec [make_da_tag]
  have h1 : (r : Int) * (256 : Int) = ((r <<< 8 : Nat) : Int) := by rw [Nat.shiftLeft_eq]; omega
  have h2 : (p : Int) * (65536 : Int) = ((p <<< 16 : Nat) : Int) := by rw [Nat.shiftLeft_eq]; omega
  rw [h1, h2, ior_natCast, ior_natCast]
  rfl

/-- a `for _ in range(n): data.append(t)` loop appends `n` copies of `t` -/
theorem forM_append_const (t : Num) (f : List Num → Num → M (List Num))
    (hf : ∀ d x, f d x = .ok (d ++ [t])) (xs : List Num) (data : List Num) :
    pyFor xs data f = .ok (data ++ List.replicate xs.length t) := by
  induction xs generalizing data with
  | nil => simp [pyFor]
  | cons x rest ih =>
    simp only [pyFor, hf, List.length_cons, List.replicate_succ]
    rw [ih]
    simp

theorem rangeUp_length (lo step : Int) (n : Nat) : (rangeUp lo step n).length = n := by
  induction n generalizing lo with
  | zero => rfl
  | succ k ih => simp [rangeUp, ih]

theorem pyRange_up (n : Int) : pyRange (.py 0) (.py n) (.py 1) = .ok (rangeUp 0 1 n.toNat) := by
  unfold pyRange rangeLen
  simp only [Int.reduceEq, if_false]
  by_cases h : 0 < n
  · simp [h]
  · have : n.toNat = 0 := by omega
    simp [h, this]

theorem nop_tag : make_da_tag (.py 5) (.py 0) (.py 0) = .ok (pyNat (makeDaTag Gen.daNOP 0 0)) := by
  py_exec [make_da_tag]
  rfl

/-- `emit_cmd_stream_header(data, length)` appends exactly the model's header words -/
theorem emit_cmd_stream_header_nat (data : List Num) (length : Nat) :
    emit_cmd_stream_header data (pyNat length) =
      .ok (data ++ (cmdStreamHeader data.length length).map pyNat) := by
  unfold pyNat cmdStreamHeader numNops cmdStreamTag
  have hmod : (0:Int) ≤ ((data.length : Int) + 1) % 4 ∧ ((data.length : Int) + 1) % 4 < 4 := by omega
  py_exec [emit_cmd_stream_header, pyRange_up]
  rw [forM_append_const (pyNat (makeDaTag Gen.daNOP 0 0))]
  · have hn : (4 - ((data.length : Int) + 1) % 4).toNat = 4 - (data.length + 1) % 4 := by omega
    have ha1 : iand (length : Int) 16711680 = ((length &&& 16711680 : Nat) : Int) := iand_natCast length 16711680
    have ha2 : iand (length : Int) 65535 = ((length &&& 65535 : Nat) : Int) := iand_natCast length 65535
    have hs : ((length &&& 16711680 : Nat) : Int) / (65536 : Int) = (((length &&& 16711680) >>> 16 : Nat) : Int) := by
      rw [Nat.shiftRight_eq_div_pow]; omega
    py_exec [rangeUp_length, hn, ha1, ha2, hs]
    have := make_da_tag_nat 2 ((length &&& 16711680) >>> 16) (length &&& 65535)
    unfold pyNat at this
    rw [show (Num.py 2) = Num.py ((2 : Nat) : Int) from rfl, this]
    py_exec [List.map_append, List.map_replicate, List.map_cons, List.map_nil, List.append_assoc, pyNat]
    rfl
  · intro d x
    py_exec [nop_tag]

end VelaVerif.SrcDriverActions
