import VelaVerif.Lemmas.SoftmaxArith
import VelaVerif.Spec.SoftmaxExec
/-!
# Symbolic execution of the lowered SOFTMAX program (`Spec/SoftmaxExec.lean`)

`prog8` is the lowered program written out (`lower_graph8`: it IS `lower P (graph8 P)`, by `rfl`); `eval_*` evaluate `evalStep` on the
shapes of step the program has, for all operand values; `recip_chain` runs passes 10 – 28.
-/
namespace VelaVerif.Lemmas.SoftmaxExecL
open VelaVerif VelaVerif.Requant VelaVerif.SoftmaxGraph VelaVerif.SoftmaxExec VelaVerif.Lemmas.SoftmaxArith

/-- int32 → int32 elementwise step of the lowered program -/
def w32 (kind : OpKind) (a b : Operand) (r : NRound) (mult shift : Nat) (ozp : Int) : NStep :=
  { kind := kind, a := a, b := some b, rounding := r, mult := mult, shift := shift, aZp := 0, bZp := 0, in32 := true,
    ofm32 := true, ozp := ozp, lut := none, actMin := -32768, actMax := 32767 }

def nrProg (P : Params) (x p : Nat) : List NStep :=
  [ w32 .mul (.pass x) (.pass 10) .tfl 1073741824 31 0,
    w32 .sub (.const (2 ^ 29) ⟨.none, P.zpIn⟩) (.pass p) .tfl 1 0 0,
    w32 .mul (.pass x) (.pass (p + 1)) .tfl 1073741824 31 0,
    w32 .mul (.pass (p + 2)) (.const 4 ⟨.none, P.zpIn⟩) .tfl 1 0 P.zpIn,
    w32 .add (.pass x) (.pass (p + 3)) .tfl 1 0 0 ]

/-- passes 0 – 9: maximum, exponentials, their sum, headroom, normalised sum -/
def headProg (P : Params) : List NStep :=
  let c (v : Int) : Operand := .const v ⟨.none, P.zpIn⟩
  [ { kind := .maxpool, a := .input, b := none, rounding := .tfl, mult := 1, shift := 0, aZp := P.zpIn, bZp := 0, in32 := false,
      ofm32 := false, ozp := P.zpIn, lut := none, actMin := max P.qmin (-32768), actMax := min P.qmax 32767 },
    { kind := .sub, a := .input, b := some (.pass 0), rounding := .tfl, mult := 1, shift := 0, aZp := P.zpIn, bZp := P.zpIn,
      in32 := false, ofm32 := true, ozp := 127, lut := some (-128, 8), actMin := -128, actMax := 127 },
    w32 .shr (.pass 1) (c 12) .natural 1 0 P.zpIn,
    { kind := .reduceSum, a := .pass 2, b := none, rounding := .tfl, mult := 1, shift := 0, aZp := 0, bZp := 0, in32 := true,
      ofm32 := true, ozp := P.zpIn, lut := none, actMin := -32768, actMax := 32767 },
    { kind := .clz, a := .pass 3, b := none, rounding := .tfl, mult := 1, shift := 0, aZp := 0, bZp := 0, in32 := true,
      ofm32 := true, ozp := P.zpIn, lut := none, actMin := -32768, actMax := 32767 },
    w32 .sub (c (12 + 31 - 8)) (.pass 4) .tfl 1 0 P.zpIn,
    w32 .sub (.pass 4) (c 1) .tfl 1 0 P.zpIn,
    w32 .shl (.pass 3) (.pass 6) .tfl 1 0 P.zpIn,
    w32 .sub (.pass 7) (c (2 ^ 30)) .tfl 1 0 P.zpIn,
    w32 .shl (.pass 8) (c 1) .tfl 1 0 P.zpIn ]

/-- passes 10 – 28: the reciprocal of the normalised sum (Newton–Raphson) -/
def recipProg (P : Params) : List NStep :=
  let c (v : Int) : Operand := .const v ⟨.none, P.zpIn⟩
  [ w32 .add (.pass 9) (c (2 ^ 31 - 1)) .tfl 1 1 0,
    w32 .mul (.pass 10) (.const (-1010580540) ⟨.one, 0⟩) .tfl 1073741824 31 0,
    w32 .add (.pass 11) (c 1515870810) .tfl 1 0 0 ]
  ++ nrProg P 12 13 ++ nrProg P 17 18 ++ nrProg P 22 23 ++
  [ w32 .mul (.pass 27) (c 2) .tfl 1 0 0 ]

/-- passes 29 – 30: exponential × reciprocal, final shift into the 8-bit OFM -/
def tailProg (P : Params) : List NStep :=
  [ w32 .mul (.pass 1) (.pass 28) .tfl 1073741824 31 0,
    { kind := .shr, a := .pass 29, b := some (.pass 5), rounding := .natural, mult := 1, shift := 0, aZp := 0, bZp := 0,
      in32 := true, ofm32 := false, ozp := P.zpOut, lut := none, actMin := max P.qmin (-32768), actMax := min P.qmax 32767 } ]

/-- the lowered program, written out -/
def prog8 (P : Params) : List NStep := headProg P ++ recipProg P ++ tailProg P

theorem lower_graph8 (P : Params) : lower P (graph8 P) = some (prog8 P) := by rfl



theorem mapE_ok (f : Int → Except String Int) (g : Int → Int) (l : List Int) (h : ∀ x ∈ l, f x = .ok (g x)) :
    mapE f l = .ok (l.map g) := by
  induction l with
  | nil => rfl
  | cons x r ih =>
    have h1 := h x (List.mem_cons_self)
    have h2 := ih (fun y hy => h y (List.mem_cons_of_mem x hy))
    simp only [mapE, h1, h2, List.map]
    rfl

/-! ## values of the wide elementwise operations (`NpuWide.ewWideValue`) for the register settings of the program -/

theorem ew_mul (r : Rounding) (ofs shift : Nat) (a b : Int) (h : NpuSem.hi6 ofs = shift) :
    NpuWide.ewWideValue 0 true true false r 0 1 1 ofs a b = .ok (npuScale r (a * b) 1 shift) := by
  have h' : NpuWide.ewWideValue 0 true true false r 0 1 1 ofs a b = .ok (npuScale r (a * b) 1 (NpuSem.hi6 ofs)) := rfl
  rw [h', h]

theorem ew_add (r : Rounding) (ofs shift : Nat) (a b : Int) (h1 : NpuSem.hi6 ofs = shift) (h2 : NpuSem.lo32 ofs = 1) :
    NpuWide.ewWideValue 1 true true false r 0 1 1 ofs a b = .ok (npuScale r (a + b) 1 shift) := by
  unfold NpuWide.ewWideValue
  simp only [Bool.not_true, Bool.false_eq_true, if_false, if_true, h1, h2]
  have c : ¬ ((0 : Nat) ≠ 0 ∨ NpuSem.lo32 1 % 65536 ≠ 1 ∨ NpuSem.lo32 1 % 65536 ≠ 1 ∨ (1 : Nat) ≠ 1) := by decide
  simp only [c, if_false]
  rfl

theorem ew_sub (r : Rounding) (ofs shift : Nat) (a b : Int) (h1 : NpuSem.hi6 ofs = shift) (h2 : NpuSem.lo32 ofs = 1) :
    NpuWide.ewWideValue 2 true true false r 0 1 1 ofs a b = .ok (npuScale r (a - b) 1 shift) := by
  unfold NpuWide.ewWideValue
  simp only [Bool.not_true, Bool.false_eq_true, if_false, if_true, h1, h2]
  have c : ¬ ((0 : Nat) ≠ 0 ∨ NpuSem.lo32 1 % 65536 ≠ 1 ∨ NpuSem.lo32 1 % 65536 ≠ 1 ∨ (1 : Nat) ≠ 1) := by decide
  simp only [c, if_false]
  rfl

theorem ew_shl (r : Rounding) (ofs : Nat) (a b : Int) (h0 : 0 ≤ b) (h1 : b ≤ 31)
    (h2 : -2147483648 ≤ a * 2 ^ b.toNat) (h3 : a * 2 ^ b.toNat ≤ 2147483647) :
    NpuWide.ewWideValue 9 true true false r 0 1 1 ofs a b = .ok (a * 2 ^ b.toNat) := by
  have c1 : ¬ (b < 0 ∨ b > 31) := by omega
  have c2 : ¬ (a * 2 ^ b.toNat < NpuWide.INT32_LO ∨ a * 2 ^ b.toNat > NpuWide.INT32_HI) := by
    unfold NpuWide.INT32_LO NpuWide.INT32_HI; omega
  unfold NpuWide.ewWideValue
  simp only [c1, if_false, NpuWide.fits32, c2]
  rfl

theorem ew_shr (r : Rounding) (ofs : Nat) (a b : Int) (h0 : 0 ≤ b) (h1 : b ≤ 63) :
    NpuWide.ewWideValue 8 true true false r 0 1 1 ofs a b = .ok (npuScale r a 1 b.toNat) := by
  have c1 : ¬ (b < 0 ∨ b > 63) := by omega
  unfold NpuWide.ewWideValue
  simp only [c1, if_false]
  rfl

theorem ew_clz (r : Rounding) (ofs : Nat) (a b : Int) :
    NpuWide.ewWideValue 7 true true false r 0 1 1 ofs a b = .ok (NpuWide.clz32 a) := rfl

/-! ## `evalStep` on the shapes of step the program has -/

theorem eval_bin (table xs : List Int) (env : List Val) (s : NStep) (mode : Nat) (bop : Operand) (va vb : Val)
    (hmode : ewMode s.kind = some mode) (hnc : s.kind ≠ .clz) (hb : s.b = some bop)
    (ha : operandVal xs env s.a = .ok va) (hb' : operandVal xs env bop = .ok vb) :
    evalStep table xs env s = binop (ewElem s table mode) va vb := by
  unfold evalStep
  cases hk : s.kind <;> simp only [hk, ewMode] at hmode hnc ⊢ <;> first | cases hmode | skip
  all_goals simp only [hb, ha, hb']
  all_goals first | rfl | (exact absurd rfl hnc)

/-- an element of a step with 32-bit operands without zero points, no table: the wide value through the plain output stage -/
theorem ewElem_plain (table : List Int) (s : NStep) (mode : Nat) (x y v : Int)
    (hin : s.in32 = true) (hza : s.aZp = 0) (hzb : s.bZp = 0) (hl : s.lut = none)
    (hv : NpuWide.ewWideValue mode true true false (rounding s.rounding) 0 1 1 (ofsReg s) x y = .ok v) :
    ewElem s table mode x y = .ok (NpuWide.outPlain s.ofm32 s.ozp s.actMin s.actMax v) := by
  unfold ewElem
  rw [hin, hza, hzb, Int.sub_zero, Int.sub_zero, hv]
  simp only [outStage, hl]
  rfl

theorem outPlain32 (ozp amin amax v : Int) : NpuWide.outPlain true ozp amin amax v = clamp v NpuWide.INT32_LO NpuWide.INT32_HI := rfl

/-- a step with 32-bit operands (zero points forced to 0), 32-bit OFM, no table -/
structure IsW32 (s : NStep) : Prop where
  in32 : s.in32 = true
  za : s.aZp = 0
  zb : s.bZp = 0
  lut : s.lut = none
  ofm32 : s.ofm32 = true

theorem ewElem_w32 (table : List Int) (s : NStep) (mode : Nat) (x y v : Int) (hw : IsW32 s)
    (hv : NpuWide.ewWideValue mode true true false (rounding s.rounding) 0 1 1 (ofsReg s) x y = .ok v) :
    ewElem s table mode x y = .ok (clamp v NpuWide.INT32_LO NpuWide.INT32_HI) := by
  rw [ewElem_plain table s mode x y v hw.in32 hw.za hw.zb hw.lut hv, hw.ofm32, outPlain32]

theorem eval_mul_ss (table xs : List Int) (env : List Val) (s : NStep) (b : Operand) (shift : Nat) (va vb : Int)
    (hk : s.kind = .mul) (hsb : s.b = some b) (hw : IsW32 s) (hr : s.rounding = .tfl) (hh : NpuSem.hi6 (ofsReg s) = shift)
    (ha : operandVal xs env s.a = .ok (.scal va)) (hb : operandVal xs env b = .ok (.scal vb)) :
    evalStep table xs env s = .ok (.scal (nMul shift va vb)) := by
  rw [eval_bin table xs env s 0 b (.scal va) (.scal vb) (by rw [hk]; rfl) (by rw [hk]; decide) hsb ha hb]
  simp only [binop]
  rw [ewElem_w32 table s 0 va vb _ hw (ew_mul _ _ _ _ _ hh), hr]
  rfl

theorem eval_add_ss (table xs : List Int) (env : List Val) (s : NStep) (b : Operand) (shift : Nat) (va vb : Int)
    (hk : s.kind = .add) (hsb : s.b = some b) (hw : IsW32 s) (hr : s.rounding = .tfl) (hh : NpuSem.hi6 (ofsReg s) = shift)
    (hl : NpuSem.lo32 (ofsReg s) = 1)
    (ha : operandVal xs env s.a = .ok (.scal va)) (hb : operandVal xs env b = .ok (.scal vb)) :
    evalStep table xs env s = .ok (.scal (nAdd shift va vb)) := by
  rw [eval_bin table xs env s 1 b (.scal va) (.scal vb) (by rw [hk]; rfl) (by rw [hk]; decide) hsb ha hb]
  simp only [binop]
  rw [ewElem_w32 table s 1 va vb _ hw (ew_add _ _ _ _ _ hh hl), hr]
  rfl

theorem eval_sub_ss (table xs : List Int) (env : List Val) (s : NStep) (b : Operand) (shift : Nat) (va vb : Int)
    (hk : s.kind = .sub) (hsb : s.b = some b) (hw : IsW32 s) (hr : s.rounding = .tfl) (hh : NpuSem.hi6 (ofsReg s) = shift)
    (hl : NpuSem.lo32 (ofsReg s) = 1)
    (ha : operandVal xs env s.a = .ok (.scal va)) (hb : operandVal xs env b = .ok (.scal vb)) :
    evalStep table xs env s = .ok (.scal (nSub shift va vb)) := by
  rw [eval_bin table xs env s 2 b (.scal va) (.scal vb) (by rw [hk]; rfl) (by rw [hk]; decide) hsb ha hb]
  simp only [binop]
  rw [ewElem_w32 table s 2 va vb _ hw (ew_sub _ _ _ _ _ hh hl), hr]
  rfl

theorem eval_shl_ss (table xs : List Int) (env : List Val) (s : NStep) (b : Operand) (va vb : Int)
    (hk : s.kind = .shl) (hsb : s.b = some b) (hw : IsW32 s)
    (ha : operandVal xs env s.a = .ok (.scal va)) (hb : operandVal xs env b = .ok (.scal vb))
    (h0 : 0 ≤ vb) (h1 : vb ≤ 31) (h2 : -2147483648 ≤ va * 2 ^ vb.toNat) (h3 : va * 2 ^ vb.toNat ≤ 2147483647) :
    evalStep table xs env s = .ok (.scal (va * 2 ^ vb.toNat)) := by
  rw [eval_bin table xs env s 9 b (.scal va) (.scal vb) (by rw [hk]; rfl) (by rw [hk]; decide) hsb ha hb]
  simp only [binop]
  rw [ewElem_w32 table s 9 va vb _ hw (ew_shl _ _ _ _ h0 h1 h2 h3), clamp_id _ h2 h3]
  rfl

/-- SHR of a vector by a per-position amount, 32-bit OFM (pass 2) -/
theorem eval_shr_vs (table xs : List Int) (env : List Val) (s : NStep) (b : Operand) (l : List Int) (vb : Int)
    (hk : s.kind = .shr) (hsb : s.b = some b) (hw : IsW32 s) (hr : s.rounding = .natural)
    (ha : operandVal xs env s.a = .ok (.vec l)) (hb : operandVal xs env b = .ok (.scal vb)) (h0 : 0 ≤ vb) (h1 : vb ≤ 63) :
    evalStep table xs env s =
      .ok (.vec (l.map fun e => clamp (npuScale .natural e 1 vb.toNat) NpuWide.INT32_LO NpuWide.INT32_HI)) := by
  rw [eval_bin table xs env s 8 b (.vec l) (.scal vb) (by rw [hk]; rfl) (by rw [hk]; decide) hsb ha hb]
  simp only [binop]
  rw [mapE_ok _ (fun e => clamp (npuScale .natural e 1 vb.toNat) NpuWide.INT32_LO NpuWide.INT32_HI)]
  · rfl
  · intro x _
    rw [ewElem_w32 table s 8 x vb _ hw (ew_shr _ _ _ _ h0 h1), hr]
    rfl

/-- MUL of a vector by a per-position value (pass 29) -/
theorem eval_mul_vs (table xs : List Int) (env : List Val) (s : NStep) (b : Operand) (shift : Nat) (l : List Int) (vb : Int)
    (hk : s.kind = .mul) (hsb : s.b = some b) (hw : IsW32 s) (hr : s.rounding = .tfl) (hh : NpuSem.hi6 (ofsReg s) = shift)
    (ha : operandVal xs env s.a = .ok (.vec l)) (hb : operandVal xs env b = .ok (.scal vb)) :
    evalStep table xs env s = .ok (.vec (l.map fun e => nMul shift e vb)) := by
  rw [eval_bin table xs env s 0 b (.vec l) (.scal vb) (by rw [hk]; rfl) (by rw [hk]; decide) hsb ha hb]
  simp only [binop]
  rw [mapE_ok _ (fun e => nMul shift e vb)]
  · rfl
  · intro x _
    rw [ewElem_w32 table s 0 x vb _ hw (ew_mul _ _ _ _ _ hh), hr]
    rfl


theorem ofs_1_0 (k : OpKind) (a b : Operand) (r : NRound) (ozp : Int) :
    NpuSem.hi6 (ofsReg (w32 k a b r 1 0 ozp)) = 0 ∧ NpuSem.lo32 (ofsReg (w32 k a b r 1 0 ozp)) = 1 := by
  show NpuSem.hi6 (1 + 0 * 4294967296) = 0 ∧ NpuSem.lo32 (1 + 0 * 4294967296) = 1
  decide +kernel

theorem ofs_1_1 (k : OpKind) (a b : Operand) (r : NRound) (ozp : Int) :
    NpuSem.hi6 (ofsReg (w32 k a b r 1 1 ozp)) = 1 ∧ NpuSem.lo32 (ofsReg (w32 k a b r 1 1 ozp)) = 1 := by
  show NpuSem.hi6 (1 + 1 * 4294967296) = 1 ∧ NpuSem.lo32 (1 + 1 * 4294967296) = 1
  decide +kernel

theorem ofs_31 (k : OpKind) (a b : Operand) (r : NRound) (ozp : Int) :
    NpuSem.hi6 (ofsReg (w32 k a b r 1073741824 31 ozp)) = 31 := by
  show NpuSem.hi6 (1073741824 + 31 * 4294967296) = 31
  decide +kernel

theorem runSteps_cons_ok (table xs : List Int) (s : NStep) (rest : List NStep) (env : List Val) (v : Val)
    (h : evalStep table xs env s = .ok v) : runSteps table xs (s :: rest) env = runSteps table xs rest (env ++ [v]) := by
  simp only [runSteps, h]

/-- **Passes 10 – 28 executed by the interpreter** on an environment whose entry 9 (the OFM of pass 9) is the per-position value
    `a`: the 19 steps succeed and leave `npuRecip a` as the OFM of pass 28 -/
theorem recip_chain (P : Params) (table xs : List Int) (v0 v1 v2 v3 v4 v5 v6 v7 v8 : Val) (a : Int) :
    ∃ vs : List Val, runSteps table xs (recipProg P) [v0, v1, v2, v3, v4, v5, v6, v7, v8, .scal a] =
        .ok ([v0, v1, v2, v3, v4, v5, v6, v7, v8, .scal a] ++ vs ++ [.scal (npuRecip a)]) ∧ vs.length = 18 := by
  have c : ∀ v : Int, (Operand.const v ⟨.none, P.zpIn⟩) = (Operand.const v ⟨.none, P.zpIn⟩) := fun _ => rfl
  let c (v : Int) : Operand := .const v ⟨.none, P.zpIn⟩
  obtain ⟨t10, e10⟩ : ∃ t, t = nAdd 1 a (2 ^ 31 - 1) := ⟨_, rfl⟩
  have h10 : evalStep table xs [v0, v1, v2, v3, v4, v5, v6, v7, v8, .scal a] (w32 .add (.pass 9) (c (2 ^ 31 - 1)) .tfl 1 1 0) = .ok (.scal t10) := by
    rw [e10]; exact eval_add_ss table xs _ _ (c (2 ^ 31 - 1)) 1 a (2 ^ 31 - 1) rfl rfl ⟨rfl, rfl, rfl, rfl, rfl⟩ rfl (ofs_1_1 _ _ _ _ _).1 (ofs_1_1 _ _ _ _ _).2 rfl rfl
  obtain ⟨t11, e11⟩ : ∃ t, t = nMul 31 t10 (-1010580540) := ⟨_, rfl⟩
  have h11 : evalStep table xs [v0, v1, v2, v3, v4, v5, v6, v7, v8, .scal a, .scal t10] (w32 .mul (.pass 10) (.const (-1010580540) ⟨.one, 0⟩) .tfl 1073741824 31 0) = .ok (.scal t11) := by
    rw [e11]; exact eval_mul_ss table xs _ _ (.const (-1010580540) ⟨.one, 0⟩) 31 t10 (-1010580540) rfl rfl ⟨rfl, rfl, rfl, rfl, rfl⟩ rfl (ofs_31 _ _ _ _ _) rfl rfl
  obtain ⟨t12, e12⟩ : ∃ t, t = nAdd 0 t11 1515870810 := ⟨_, rfl⟩
  have h12 : evalStep table xs [v0, v1, v2, v3, v4, v5, v6, v7, v8, .scal a, .scal t10, .scal t11] (w32 .add (.pass 11) (c 1515870810) .tfl 1 0 0) = .ok (.scal t12) := by
    rw [e12]; exact eval_add_ss table xs _ _ (c 1515870810) 0 t11 1515870810 rfl rfl ⟨rfl, rfl, rfl, rfl, rfl⟩ rfl (ofs_1_0 _ _ _ _ _).1 (ofs_1_0 _ _ _ _ _).2 rfl rfl
  obtain ⟨t13, e13⟩ : ∃ t, t = nMul 31 t12 t10 := ⟨_, rfl⟩
  have h13 : evalStep table xs [v0, v1, v2, v3, v4, v5, v6, v7, v8, .scal a, .scal t10, .scal t11, .scal t12] (w32 .mul (.pass 12) (.pass 10) .tfl 1073741824 31 0) = .ok (.scal t13) := by
    rw [e13]; exact eval_mul_ss table xs _ _ (.pass 10) 31 t12 t10 rfl rfl ⟨rfl, rfl, rfl, rfl, rfl⟩ rfl (ofs_31 _ _ _ _ _) rfl rfl
  obtain ⟨t14, e14⟩ : ∃ t, t = nSub 0 (2 ^ 29) t13 := ⟨_, rfl⟩
  have h14 : evalStep table xs [v0, v1, v2, v3, v4, v5, v6, v7, v8, .scal a, .scal t10, .scal t11, .scal t12, .scal t13] (w32 .sub (c (2 ^ 29)) (.pass 13) .tfl 1 0 0) = .ok (.scal t14) := by
    rw [e14]; exact eval_sub_ss table xs _ _ (.pass 13) 0 (2 ^ 29) t13 rfl rfl ⟨rfl, rfl, rfl, rfl, rfl⟩ rfl (ofs_1_0 _ _ _ _ _).1 (ofs_1_0 _ _ _ _ _).2 rfl rfl
  obtain ⟨t15, e15⟩ : ∃ t, t = nMul 31 t12 t14 := ⟨_, rfl⟩
  have h15 : evalStep table xs [v0, v1, v2, v3, v4, v5, v6, v7, v8, .scal a, .scal t10, .scal t11, .scal t12, .scal t13, .scal t14] (w32 .mul (.pass 12) (.pass 14) .tfl 1073741824 31 0) = .ok (.scal t15) := by
    rw [e15]; exact eval_mul_ss table xs _ _ (.pass 14) 31 t12 t14 rfl rfl ⟨rfl, rfl, rfl, rfl, rfl⟩ rfl (ofs_31 _ _ _ _ _) rfl rfl
  obtain ⟨t16, e16⟩ : ∃ t, t = nMul 0 t15 4 := ⟨_, rfl⟩
  have h16 : evalStep table xs [v0, v1, v2, v3, v4, v5, v6, v7, v8, .scal a, .scal t10, .scal t11, .scal t12, .scal t13, .scal t14, .scal t15] (w32 .mul (.pass 15) (c 4) .tfl 1 0 P.zpIn) = .ok (.scal t16) := by
    rw [e16]; exact eval_mul_ss table xs _ _ (c 4) 0 t15 4 rfl rfl ⟨rfl, rfl, rfl, rfl, rfl⟩ rfl (ofs_1_0 _ _ _ _ _).1 rfl rfl
  obtain ⟨t17, e17⟩ : ∃ t, t = nAdd 0 t12 t16 := ⟨_, rfl⟩
  have h17 : evalStep table xs [v0, v1, v2, v3, v4, v5, v6, v7, v8, .scal a, .scal t10, .scal t11, .scal t12, .scal t13, .scal t14, .scal t15, .scal t16] (w32 .add (.pass 12) (.pass 16) .tfl 1 0 0) = .ok (.scal t17) := by
    rw [e17]; exact eval_add_ss table xs _ _ (.pass 16) 0 t12 t16 rfl rfl ⟨rfl, rfl, rfl, rfl, rfl⟩ rfl (ofs_1_0 _ _ _ _ _).1 (ofs_1_0 _ _ _ _ _).2 rfl rfl
  obtain ⟨t18, e18⟩ : ∃ t, t = nMul 31 t17 t10 := ⟨_, rfl⟩
  have h18 : evalStep table xs [v0, v1, v2, v3, v4, v5, v6, v7, v8, .scal a, .scal t10, .scal t11, .scal t12, .scal t13, .scal t14, .scal t15, .scal t16, .scal t17] (w32 .mul (.pass 17) (.pass 10) .tfl 1073741824 31 0) = .ok (.scal t18) := by
    rw [e18]; exact eval_mul_ss table xs _ _ (.pass 10) 31 t17 t10 rfl rfl ⟨rfl, rfl, rfl, rfl, rfl⟩ rfl (ofs_31 _ _ _ _ _) rfl rfl
  obtain ⟨t19, e19⟩ : ∃ t, t = nSub 0 (2 ^ 29) t18 := ⟨_, rfl⟩
  have h19 : evalStep table xs [v0, v1, v2, v3, v4, v5, v6, v7, v8, .scal a, .scal t10, .scal t11, .scal t12, .scal t13, .scal t14, .scal t15, .scal t16, .scal t17, .scal t18] (w32 .sub (c (2 ^ 29)) (.pass 18) .tfl 1 0 0) = .ok (.scal t19) := by
    rw [e19]; exact eval_sub_ss table xs _ _ (.pass 18) 0 (2 ^ 29) t18 rfl rfl ⟨rfl, rfl, rfl, rfl, rfl⟩ rfl (ofs_1_0 _ _ _ _ _).1 (ofs_1_0 _ _ _ _ _).2 rfl rfl
  obtain ⟨t20, e20⟩ : ∃ t, t = nMul 31 t17 t19 := ⟨_, rfl⟩
  have h20 : evalStep table xs [v0, v1, v2, v3, v4, v5, v6, v7, v8, .scal a, .scal t10, .scal t11, .scal t12, .scal t13, .scal t14, .scal t15, .scal t16, .scal t17, .scal t18, .scal t19] (w32 .mul (.pass 17) (.pass 19) .tfl 1073741824 31 0) = .ok (.scal t20) := by
    rw [e20]; exact eval_mul_ss table xs _ _ (.pass 19) 31 t17 t19 rfl rfl ⟨rfl, rfl, rfl, rfl, rfl⟩ rfl (ofs_31 _ _ _ _ _) rfl rfl
  obtain ⟨t21, e21⟩ : ∃ t, t = nMul 0 t20 4 := ⟨_, rfl⟩
  have h21 : evalStep table xs [v0, v1, v2, v3, v4, v5, v6, v7, v8, .scal a, .scal t10, .scal t11, .scal t12, .scal t13, .scal t14, .scal t15, .scal t16, .scal t17, .scal t18, .scal t19, .scal t20] (w32 .mul (.pass 20) (c 4) .tfl 1 0 P.zpIn) = .ok (.scal t21) := by
    rw [e21]; exact eval_mul_ss table xs _ _ (c 4) 0 t20 4 rfl rfl ⟨rfl, rfl, rfl, rfl, rfl⟩ rfl (ofs_1_0 _ _ _ _ _).1 rfl rfl
  obtain ⟨t22, e22⟩ : ∃ t, t = nAdd 0 t17 t21 := ⟨_, rfl⟩
  have h22 : evalStep table xs [v0, v1, v2, v3, v4, v5, v6, v7, v8, .scal a, .scal t10, .scal t11, .scal t12, .scal t13, .scal t14, .scal t15, .scal t16, .scal t17, .scal t18, .scal t19, .scal t20, .scal t21] (w32 .add (.pass 17) (.pass 21) .tfl 1 0 0) = .ok (.scal t22) := by
    rw [e22]; exact eval_add_ss table xs _ _ (.pass 21) 0 t17 t21 rfl rfl ⟨rfl, rfl, rfl, rfl, rfl⟩ rfl (ofs_1_0 _ _ _ _ _).1 (ofs_1_0 _ _ _ _ _).2 rfl rfl
  obtain ⟨t23, e23⟩ : ∃ t, t = nMul 31 t22 t10 := ⟨_, rfl⟩
  have h23 : evalStep table xs [v0, v1, v2, v3, v4, v5, v6, v7, v8, .scal a, .scal t10, .scal t11, .scal t12, .scal t13, .scal t14, .scal t15, .scal t16, .scal t17, .scal t18, .scal t19, .scal t20, .scal t21, .scal t22] (w32 .mul (.pass 22) (.pass 10) .tfl 1073741824 31 0) = .ok (.scal t23) := by
    rw [e23]; exact eval_mul_ss table xs _ _ (.pass 10) 31 t22 t10 rfl rfl ⟨rfl, rfl, rfl, rfl, rfl⟩ rfl (ofs_31 _ _ _ _ _) rfl rfl
  obtain ⟨t24, e24⟩ : ∃ t, t = nSub 0 (2 ^ 29) t23 := ⟨_, rfl⟩
  have h24 : evalStep table xs [v0, v1, v2, v3, v4, v5, v6, v7, v8, .scal a, .scal t10, .scal t11, .scal t12, .scal t13, .scal t14, .scal t15, .scal t16, .scal t17, .scal t18, .scal t19, .scal t20, .scal t21, .scal t22, .scal t23] (w32 .sub (c (2 ^ 29)) (.pass 23) .tfl 1 0 0) = .ok (.scal t24) := by
    rw [e24]; exact eval_sub_ss table xs _ _ (.pass 23) 0 (2 ^ 29) t23 rfl rfl ⟨rfl, rfl, rfl, rfl, rfl⟩ rfl (ofs_1_0 _ _ _ _ _).1 (ofs_1_0 _ _ _ _ _).2 rfl rfl
  obtain ⟨t25, e25⟩ : ∃ t, t = nMul 31 t22 t24 := ⟨_, rfl⟩
  have h25 : evalStep table xs [v0, v1, v2, v3, v4, v5, v6, v7, v8, .scal a, .scal t10, .scal t11, .scal t12, .scal t13, .scal t14, .scal t15, .scal t16, .scal t17, .scal t18, .scal t19, .scal t20, .scal t21, .scal t22, .scal t23, .scal t24] (w32 .mul (.pass 22) (.pass 24) .tfl 1073741824 31 0) = .ok (.scal t25) := by
    rw [e25]; exact eval_mul_ss table xs _ _ (.pass 24) 31 t22 t24 rfl rfl ⟨rfl, rfl, rfl, rfl, rfl⟩ rfl (ofs_31 _ _ _ _ _) rfl rfl
  obtain ⟨t26, e26⟩ : ∃ t, t = nMul 0 t25 4 := ⟨_, rfl⟩
  have h26 : evalStep table xs [v0, v1, v2, v3, v4, v5, v6, v7, v8, .scal a, .scal t10, .scal t11, .scal t12, .scal t13, .scal t14, .scal t15, .scal t16, .scal t17, .scal t18, .scal t19, .scal t20, .scal t21, .scal t22, .scal t23, .scal t24, .scal t25] (w32 .mul (.pass 25) (c 4) .tfl 1 0 P.zpIn) = .ok (.scal t26) := by
    rw [e26]; exact eval_mul_ss table xs _ _ (c 4) 0 t25 4 rfl rfl ⟨rfl, rfl, rfl, rfl, rfl⟩ rfl (ofs_1_0 _ _ _ _ _).1 rfl rfl
  obtain ⟨t27, e27⟩ : ∃ t, t = nAdd 0 t22 t26 := ⟨_, rfl⟩
  have h27 : evalStep table xs [v0, v1, v2, v3, v4, v5, v6, v7, v8, .scal a, .scal t10, .scal t11, .scal t12, .scal t13, .scal t14, .scal t15, .scal t16, .scal t17, .scal t18, .scal t19, .scal t20, .scal t21, .scal t22, .scal t23, .scal t24, .scal t25, .scal t26] (w32 .add (.pass 22) (.pass 26) .tfl 1 0 0) = .ok (.scal t27) := by
    rw [e27]; exact eval_add_ss table xs _ _ (.pass 26) 0 t22 t26 rfl rfl ⟨rfl, rfl, rfl, rfl, rfl⟩ rfl (ofs_1_0 _ _ _ _ _).1 (ofs_1_0 _ _ _ _ _).2 rfl rfl
  obtain ⟨t28, e28⟩ : ∃ t, t = nMul 0 t27 2 := ⟨_, rfl⟩
  have h28 : evalStep table xs [v0, v1, v2, v3, v4, v5, v6, v7, v8, .scal a, .scal t10, .scal t11, .scal t12, .scal t13, .scal t14, .scal t15, .scal t16, .scal t17, .scal t18, .scal t19, .scal t20, .scal t21, .scal t22, .scal t23, .scal t24, .scal t25, .scal t26, .scal t27] (w32 .mul (.pass 27) (c 2) .tfl 1 0 0) = .ok (.scal t28) := by
    rw [e28]; exact eval_mul_ss table xs _ _ (c 2) 0 t27 2 rfl rfl ⟨rfl, rfl, rfl, rfl, rfl⟩ rfl (ofs_1_0 _ _ _ _ _).1 rfl rfl
  have e29 : (2 : Int) ^ 29 = 536870912 := by decide
  have e31 : (2 : Int) ^ 31 - 1 = 2147483647 := by decide
  have n1 : t17 = npuNr t10 t12 := by rw [e17, e16, e15, e14, e13, e29]; rfl
  have n2 : t22 = npuNr t10 t17 := by rw [e22, e21, e20, e19, e18, e29]; rfl
  have n3 : t27 = npuNr t10 t22 := by rw [e27, e26, e25, e24, e23, e29]; rfl
  have hr : t28 = npuRecip a := by
    rw [e28, n3, n2, n1, e12, e11, e10, e31]; rfl
  refine ⟨[.scal t10, .scal t11, .scal t12, .scal t13, .scal t14, .scal t15, .scal t16, .scal t17, .scal t18, .scal t19,
    .scal t20, .scal t21, .scal t22, .scal t23, .scal t24, .scal t25, .scal t26, .scal t27], ?_, rfl⟩
  rw [← hr]
  unfold recipProg nrProg
  simp only [List.cons_append, List.nil_append]
  rw [runSteps_cons_ok _ _ _ _ _ _ h10]; simp only [List.cons_append, List.nil_append]
  rw [runSteps_cons_ok _ _ _ _ _ _ h11]; simp only [List.cons_append, List.nil_append]
  rw [runSteps_cons_ok _ _ _ _ _ _ h12]; simp only [List.cons_append, List.nil_append]
  rw [runSteps_cons_ok _ _ _ _ _ _ h13]; simp only [List.cons_append, List.nil_append]
  rw [runSteps_cons_ok _ _ _ _ _ _ h14]; simp only [List.cons_append, List.nil_append]
  rw [runSteps_cons_ok _ _ _ _ _ _ h15]; simp only [List.cons_append, List.nil_append]
  rw [runSteps_cons_ok _ _ _ _ _ _ h16]; simp only [List.cons_append, List.nil_append]
  rw [runSteps_cons_ok _ _ _ _ _ _ h17]; simp only [List.cons_append, List.nil_append]
  rw [runSteps_cons_ok _ _ _ _ _ _ h18]; simp only [List.cons_append, List.nil_append]
  rw [runSteps_cons_ok _ _ _ _ _ _ h19]; simp only [List.cons_append, List.nil_append]
  rw [runSteps_cons_ok _ _ _ _ _ _ h20]; simp only [List.cons_append, List.nil_append]
  rw [runSteps_cons_ok _ _ _ _ _ _ h21]; simp only [List.cons_append, List.nil_append]
  rw [runSteps_cons_ok _ _ _ _ _ _ h22]; simp only [List.cons_append, List.nil_append]
  rw [runSteps_cons_ok _ _ _ _ _ _ h23]; simp only [List.cons_append, List.nil_append]
  rw [runSteps_cons_ok _ _ _ _ _ _ h24]; simp only [List.cons_append, List.nil_append]
  rw [runSteps_cons_ok _ _ _ _ _ _ h25]; simp only [List.cons_append, List.nil_append]
  rw [runSteps_cons_ok _ _ _ _ _ _ h26]; simp only [List.cons_append, List.nil_append]
  rw [runSteps_cons_ok _ _ _ _ _ _ h27]; simp only [List.cons_append, List.nil_append]
  rw [runSteps_cons_ok _ _ _ _ _ _ h28]; simp only [List.cons_append, List.nil_append]
  rfl

end VelaVerif.Lemmas.SoftmaxExecL
