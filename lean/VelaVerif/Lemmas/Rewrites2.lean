import VelaVerif.Lemmas.Rewrites
import VelaVerif.Lemmas.StridedConv
import VelaVerif.Spec.RewriteSem2
/-!
Helper lemmas for `Props/C01Rewrites2.lean`.
-/
namespace VelaVerif.Lemmas.Rewrites2
open VelaVerif.Requant VelaVerif.TfliteRef VelaVerif.RewriteSem VelaVerif.RewriteSem2 VelaVerif.Rewrites VelaVerif.Rewrites2 VelaVerif.Lemmas.Rewrites VelaVerif.Lemmas.Sem VelaVerif.Lemmas.StridedConv

theorem sumRange_reverse (n : Nat) (f : Nat → Int) : sumRange n f = sumRange n (fun i => f (n - 1 - i)) := by
  induction n generalizing f with
  | zero => rfl
  | succ k ih =>
    -- sumRange (k+1) f = sumRange k f + f k ; RHS = sumRange k (fun i => f (k - i)) + f 0
    have h1 : sumRange (k + 1) (fun i => f (k + 1 - 1 - i)) = sumRange (1 + k) (fun i => f (k - i)) := by
      rw [Nat.add_comm 1 k]; apply sumRange_congr; intro i _; simp
    rw [h1, sumRange_split 1 k]
    simp only [sumRange]
    rw [ih (fun j => f (k - (1 + j)))]
    have h2 : sumRange k (fun i => f (k - (1 + (k - 1 - i)))) = sumRange k f := by
      apply sumRange_congr; intro i hi; congr 1; omega
    rw [h2]; simp; omega

/-- a multiple of `s` lies below the upscaled extent iff its quotient is a row of the IFM -/
theorem up_extent_iff (s H U n : Nat) (_hs : 0 < s) (hH : 0 < H) (hlo : (H - 1) * s < U) (hhi : U ≤ H * s) (hn : n % s = 0) :
    n < U ↔ n / s < H := by
  have hdiv : s * (n / s) = n := by
    have := Nat.div_add_mod n s; omega
  constructor
  · intro h
    by_contra hc
    have : H ≤ n / s := by omega
    have : H * s ≤ (n / s) * s := Nat.mul_le_mul_right s this
    rw [Nat.mul_comm (n / s) s] at this
    omega
  · intro h
    have : n / s ≤ H - 1 := by omega
    have : (n / s) * s ≤ (H - 1) * s := Nat.mul_le_mul_right s this
    rw [Nat.mul_comm (n / s) s] at this
    omega


end VelaVerif.Lemmas.Rewrites2
