import VelaVerif.Lemmas.Rewrites
import VelaVerif.Lemmas.StridedConv
import VelaVerif.Spec.RewriteSem2
/-!
Helper lemmas for `Props/C01Rewrites2.lean`.
-/
namespace VelaVerif.Lemmas.Rewrites2
open VelaVerif.Requant VelaVerif.TfliteRef VelaVerif.RewriteSem VelaVerif.RewriteSem2 VelaVerif.Rewrites VelaVerif.Rewrites2 VelaVerif.Lemmas.Rewrites VelaVerif.Lemmas.Sem VelaVerif.Lemmas.StridedConv

theorem sumRange_reverse (n : Nat) (f : Nat → Int) : sumRange n f = sumRange n (fun i => f (n - 1 - i)) := by
  induction n generalizing f with
  | zero => rfl
  | succ k ih =>
    -- sumRange (k+1) f = sumRange k f + f k ; RHS = sumRange k (fun i => f (k - i)) + f 0
    have h1 : sumRange (k + 1) (fun i => f (k + 1 - 1 - i)) = sumRange (1 + k) (fun i => f (k - i)) := by
      rw [Nat.add_comm 1 k]; apply sumRange_congr; intro i _; simp
    rw [h1, sumRange_split 1 k]
    simp only [sumRange]
    rw [ih (fun j => f (k - (1 + j)))]
    have h2 : sumRange k (fun i => f (k - (1 + (k - 1 - i)))) = sumRange k f := by
      apply sumRange_congr; intro i hi; congr 1; omega
    rw [h2]; simp; omega

/-- a multiple of `s` lies below the upscaled extent iff its quotient is a row of the IFM -/
theorem up_extent_iff (s H U n : Nat) (_hs : 0 < s) (hH : 0 < H) (hlo : (H - 1) * s < U) (hhi : U ≤ H * s) (hn : n % s = 0) :
    n < U ↔ n / s < H := by
  have hdiv : s * (n / s) = n := by
    have := Nat.div_add_mod n s; omega
  constructor
  · intro h
    by_contra hc
    have : H ≤ n / s := by omega
    have : H * s ≤ (n / s) * s := Nat.mul_le_mul_right s this
    rw [Nat.mul_comm (n / s) s] at this
    omega
  · intro h
    have : n / s ≤ H - 1 := by omega
    have : (n / s) * s ≤ (H - 1) * s := Nat.mul_le_mul_right s this
    rw [Nat.mul_comm (n / s) s] at this
    omega


theorem locate_replicate (G Og oc : Nat) (hOg : 0 < Og) (h : oc < G * Og) :
    locate (List.replicate G Og) oc = some (oc / Og, oc % Og) := by
  induction G generalizing oc with
  | zero => simp at h
  | succ k ih =>
    simp only [List.replicate_succ, locate]
    by_cases hlt : oc < Og
    · rw [if_pos hlt, Nat.div_eq_of_lt hlt, Nat.mod_eq_of_lt hlt]
    · rw [if_neg hlt]
      have hk : oc - Og < k * Og := by
        rw [Nat.succ_mul] at h; omega
      rw [ih (oc - Og) hk]
      have e1 : oc / Og = (oc - Og) / Og + 1 := by
        have : oc = (oc - Og) + Og := by omega
        conv => lhs; rw [this]
        exact Nat.add_div_right _ hOg
      have e2 : oc % Og = (oc - Og) % Og := by
        have : oc = (oc - Og) + Og := by omega
        conv => lhs; rw [this]
        exact Nat.add_mod_right _ _
      simp [e1, e2]


theorem splitSum_append (ifm : Nat → Nat → Int) (zp : Int) (w : Nat) (l1 l2 : List (Nat × Nat)) :
    splitSum ifm zp w (l1 ++ l2) = splitSum ifm zp w l1 + splitSum ifm zp w l2 := by
  induction l1 with
  | nil => simp [splitSum]
  | cons x xs ih => obtain ⟨a, b⟩ := x; simp only [List.cons_append, splitSum, ih]; omega

theorem windowSum_split (ifm : Nat → Nat → Int) (zp : Int) (y0 a b w : Nat) :
    windowSum ifm zp y0 (a + b) w = windowSum ifm zp y0 a w + windowSum ifm zp (y0 + a) b w := by
  unfold windowSum
  rw [sumRange_split]
  congr 1
  apply sumRange_congr; intro j _
  apply sumRange_congr; intro c _
  rw [Nat.add_assoc]

theorem splitSum_full (ifm : Nat → Nat → Int) (zp : Int) (w hpc : Nat) (n : Nat) :
    splitSum ifm zp w ((List.range n).map fun i => (i * hpc, hpc)) = windowSum ifm zp 0 (n * hpc) w := by
  induction n with
  | zero => simp [splitSum, windowSum, sumRange]
  | succ k ih =>
    rw [List.range_succ, List.map_append, splitSum_append, ih, Nat.succ_mul, windowSum_split]
    simp [splitSum]

theorem meanChunks_eq (h hpc : Nat) (hh : 0 < h) (hp : 0 < hpc) :
    meanChunks h hpc = ((List.range ((h + hpc - 1) / hpc - 1)).map fun i => (i * hpc, hpc)) ++
      [(((h + hpc - 1) / hpc - 1) * hpc, h - ((h + hpc - 1) / hpc - 1) * hpc)] := by
  unfold meanChunks
  have hnum : 0 < (h + hpc - 1) / hpc := Nat.div_pos (by omega) hp
  generalize hn : (h + hpc - 1) / hpc = num at *
  obtain ⟨k, rfl⟩ : ∃ k, num = k + 1 := ⟨num - 1, by omega⟩
  simp only [Nat.add_sub_cancel]
  rw [List.range_succ, List.map_append]
  congr 1
  · apply List.map_congr_left
    intro i hi
    have : i < k := List.mem_range.mp hi
    have : (i + 1 == k + 1) = false := by simp; omega
    simp [this]
  · simp only [List.map_cons, List.map_nil, BEq.rfl, Bool.true_and]
    -- k = (h + hpc - 1) / hpc - 1
    have hk1 : k * hpc < h := by
      have : (k + 1) * hpc ≤ h + hpc - 1 := by rw [← hn]; exact Nat.div_mul_le_self _ _
      rw [Nat.succ_mul] at this; omega
    have hk2 : h ≤ k * hpc + hpc := by
      have h2 : h + hpc - 1 < hpc * ((h + hpc - 1) / hpc + 1) := Nat.lt_mul_div_succ (h + hpc - 1) hp
      rw [hn, Nat.mul_comm, Nat.add_mul, Nat.add_mul, Nat.one_mul] at h2
      omega
    -- h = k*hpc + r with 0 < r ≤ hpc
    have hmod : h % hpc = (h - k * hpc) % hpc := by
      have : h = (h - k * hpc) + k * hpc := by omega
      conv => lhs; rw [this]
      exact Nat.add_mul_mod_self_right _ _ _
    by_cases hr : h - k * hpc = hpc
    · have : h % hpc = 0 := by rw [hmod, hr]; exact Nat.mod_self hpc
      simp [this, hr]
    · have hlt : h - k * hpc < hpc := by omega
      have : h % hpc = h - k * hpc := by rw [hmod]; exact Nat.mod_eq_of_lt hlt
      have hne : h % hpc ≠ 0 := by omega
      simp [this, hne]
      omega


/-- invariant of the loop: `pre` are the finished dimensions, `ds` the ones not yet visited (still holding their initial values) -/
theorem sliceOffsetsGo_eq (clampV : Bool) (mask newAxis : Nat) (isBegin : Bool) :
    ∀ (vals : List Int) (pre : List Int) (preD ds : List Nat) (spec : Nat), pre.length = preD.length →
      sliceOffsetsGo clampV (preD ++ ds) mask newAxis vals spec pre.length
        (pre ++ ds.map (fun (d : Nat) => if isBegin then (0 : Int) else ((d : Nat) : Int))) =
      pre ++ specOffsets clampV mask newAxis isBegin ds vals spec := by
  intro vals
  induction vals with
  | nil => intro pre preD ds spec _; simp [sliceOffsetsGo, specOffsets]
  | cons v vs ih =>
    intro pre preD ds spec hlen
    cases ds with
    | nil =>
      simp only [sliceOffsetsGo, specOffsets, List.map_nil, List.append_nil]
      split
      · have := ih pre preD [] (spec + 1) hlen
        simp only [List.map_nil, List.append_nil] at this
        rw [this]
        cases vs <;> simp [specOffsets]
      · rw [if_pos (by simp [hlen])]
    | cons d ds' =>
      simp only [sliceOffsetsGo, specOffsets]
      split
      · exact ih pre preD (d :: ds') (spec + 1) hlen
      · rw [if_neg (by simp [hlen])]
        have hget : (preD ++ d :: ds').getD pre.length 0 = d := by
          rw [hlen]; simp
        have hset : ∀ (x : Int), (pre ++ (if isBegin then (0 : Int) else (d : Int)) :: ds'.map (fun (d : Nat) => if isBegin then (0 : Int) else ((d : Nat) : Int))).set pre.length x =
            (pre ++ [x]) ++ ds'.map (fun (d : Nat) => if isBegin then (0 : Int) else ((d : Nat) : Int)) := by
          intro x; simp
        have step := ih (pre ++ [if bit mask spec then (if isBegin then (0 : Int) else (d : Int)) else sliceVal clampV d v]) (preD ++ [d]) ds' (spec + 1) (by simp [hlen])
        simp only [List.length_append, List.length_cons, List.length_nil, Nat.zero_add, List.append_assoc, List.cons_append, List.nil_append] at step
        simp only [List.map_cons]
        cases hb : bit mask spec
        · simp only [Bool.not_false, if_true, hget, hset, Bool.false_eq_true, if_false] at step ⊢
          simp only [List.append_assoc, List.cons_append, List.nil_append]
          rw [hb] at step
          simpa using step
        · simp only [Bool.not_true, Bool.false_eq_true, if_false, if_true] at step ⊢
          rw [hb] at step
          simpa using step


theorem mbqm_sign_nonneg (x m s : Int) (hx : 0 ≤ x) (hm0 : 0 ≤ m) (hm : m < 2147483648) : 0 ≤ mbqm x m s := by
  unfold mbqm
  have hp := two_pow_pos (if s > 0 then s.toNat else 0)
  have a := srdhm_contract_nonneg (x * (2 : Int) ^ (if s > 0 then s.toNat else 0)) m (Int.mul_nonneg hx (by omega)) hm0 hm
  exact (rdivpot_contract_nonneg _ _ a.1).1

theorem mbqm_sign_nonpos (x m s : Int) (hx : x ≤ 0) (hm0 : 0 ≤ m) (hm : m < 2147483648) : mbqm x m s ≤ 0 := by
  unfold mbqm
  have hp := two_pow_pos (if s > 0 then s.toNat else 0)
  have a := srdhm_contract_neg (x * (2 : Int) ^ (if s > 0 then s.toNat else 0)) m (Int.mul_nonpos_of_nonpos_of_nonneg hx (by omega)) hm0 hm
  exact (rdivpot_contract_neg _ _ a.2).2


end VelaVerif.Lemmas.Rewrites2
