import VelaVerif.Lemmas.Rewrites
import Mathlib.Tactic.Ring
import Mathlib.Tactic.Linarith
import Mathlib.Tactic.LinearCombination
/-! Helper lemmas for `Props/C01Rewrites.strided_conv_fold_eq`: re-indexing of sums, the column arithmetic of width folding. -/
namespace VelaVerif.Lemmas.StridedConv
open VelaVerif.Requant VelaVerif.TfliteRef VelaVerif.Lemmas.Sem VelaVerif.Lemmas.Rewrites VelaVerif.RewriteSem

/-- `Σ_{i < a*b} f i = Σ_{q < a} Σ_{j < b} f (q*b + j)` -/
theorem sumRange_mul (a b : Nat) (f : Nat → Int) :
    sumRange (a * b) f = sumRange a fun q => sumRange b fun j => f (q * b + j) := by
  induction a with
  | zero => simp [sumRange]
  | succ k ih =>
    rw [Nat.succ_mul]
    have split : ∀ (n m : Nat) (g : Nat → Int), sumRange (n + m) g = sumRange n g + sumRange m (fun j => g (n + j)) := by
      intro n m g
      induction m with
      | zero => simp [sumRange]
      | succ t iht =>
        have : n + (t + 1) = (n + t) + 1 := by omega
        rw [this]
        simp only [sumRange, iht]
        omega
    rw [split, ih]
    simp only [sumRange]

/-- a sum whose terms vanish outside the window `[L, L + n)` -/
theorem sumRange_window (L n R : Nat) (h : Nat → Int) (hz : ∀ k, k < L + n + R → (k < L ∨ L + n ≤ k) → h k = 0) :
    sumRange (L + n + R) h = sumRange n fun k => h (L + k) := by
  have split : ∀ (n m : Nat) (g : Nat → Int), sumRange (n + m) g = sumRange n g + sumRange m (fun j => g (n + j)) := by
    intro n m g
    induction m with
    | zero => simp [sumRange]
    | succ t iht =>
      have : n + (t + 1) = (n + t) + 1 := by omega
      rw [this]
      simp only [sumRange, iht]
      omega
  have zero : ∀ (m : Nat) (g : Nat → Int), (∀ k, k < m → g k = 0) → sumRange m g = 0 := by
    intro m g hg
    induction m with
    | zero => rfl
    | succ t iht =>
      simp only [sumRange]
      rw [iht (fun k hk => hg k (by omega)), hg t (by omega)]
      rfl
  rw [split (L + n) R, split L n]
  rw [zero L h (fun k hk => hz k (by omega) (Or.inl hk))]
  rw [zero R (fun j => h (L + n + j)) (fun k hk => hz (L + n + k) (by omega) (Or.inr (by omega)))]
  omega


/-- the arithmetic core: column `ix` of the original, folded column `ix'` with sub-column `j` (`L + kx = r * q + j`) -/
theorem fold_index (r W' f ox kx L pl pl' q j : Nat) (hr : 0 < r) (hal : L + pl = r * pl') (hdm : r * q + j = L + kx) (hj : j < r) :
    let ix : Int := ((ox * (r * f) + kx * 1 : Nat) : Int) - (pl : Int)
    let ix' : Int := ((ox * f + q * 1 : Nat) : Int) - (pl' : Int)
    ((0 ≤ ix ∧ ix < ((r * W' : Nat) : Int)) ↔ (0 ≤ ix' ∧ ix' < (W' : Int))) ∧
    (0 ≤ ix' → ix.toNat = r * ix'.toNat + j) := by
  intro ix ix'
  have halZ : ((L : Int) + pl) = (r : Int) * pl' := by exact_mod_cast hal
  have hdmZ : (r : Int) * (q : Int) + (j : Int) = (L : Int) + kx := by exact_mod_cast hdm
  have key : ix = (r : Int) * ix' + (j : Int) := by
    simp only [ix, ix']
    push_cast
    linear_combination -hdmZ - halZ
  have hrZ : (0 : Int) < r := by exact_mod_cast hr
  have hjZ : (j : Int) < r := by exact_mod_cast hj
  have hj0 : (0 : Int) ≤ (j : Int) := Int.natCast_nonneg _
  refine ⟨⟨?_, ?_⟩, ?_⟩
  · rintro ⟨h0, h1⟩
    push_cast at h1
    constructor
    · by_contra hneg
      have : ix' ≤ -1 := by omega
      nlinarith
    · by_contra hge
      have : (W' : Int) ≤ ix' := by omega
      nlinarith
  · rintro ⟨h0, h1⟩
    push_cast
    constructor
    · nlinarith
    · have : ix' ≤ (W' : Int) - 1 := by omega
      nlinarith
  · intro h0
    have hix0 : 0 ≤ ix := by nlinarith
    have e1 : ((ix.toNat : Nat) : Int) = ix := Int.toNat_of_nonneg hix0
    have e2 : ((ix'.toNat : Nat) : Int) = ix' := Int.toNat_of_nonneg h0
    have : ((ix.toNat : Nat) : Int) = ((r * ix'.toNat + j : Nat) : Int) := by
      push_cast
      rw [e1, e2]
      exact key
    exact_mod_cast this


theorem sumRange_zero_fn (n : Nat) : sumRange n (fun _ => (0 : Int)) = 0 := by
  induction n with
  | zero => rfl
  | succ k ih => simp only [sumRange, ih]; rfl


theorem sumRange_split (n m : Nat) (g : Nat → Int) : sumRange (n + m) g = sumRange n g + sumRange m (fun j => g (n + j)) := by
  induction m with
  | zero => simp [sumRange]
  | succ t iht =>
    have : n + (t + 1) = (n + t) + 1 := by omega
    rw [this]
    simp only [sumRange, iht]
    omega

theorem sumRange_zero_of (m : Nat) (g : Nat → Int) (hg : ∀ k, k < m → g k = 0) : sumRange m g = 0 := by
  induction m with
  | zero => rfl
  | succ t iht =>
    simp only [sumRange]
    rw [iht (fun k hk => hg k (by omega)), hg t (by omega)]
    rfl

/-- a sum over `(n - 1) * sc + 1` indices whose terms vanish off the multiples of `sc` -/
theorem sumRange_sparse (n sc : Nat) (hn : 0 < n) (hsc : 0 < sc) (g : Nat → Int) (hz : ∀ k, k % sc ≠ 0 → g k = 0) :
    sumRange ((n - 1) * sc + 1) g = sumRange n fun k => g (k * sc) := by
  induction n with
  | zero => omega
  | succ m ih =>
    cases m with
    | zero => simp [sumRange]
    | succ t =>
      have e : (t + 1 + 1 - 1) * sc + 1 = ((t + 1 - 1) * sc + 1) + sc := by
        simp only [Nat.add_sub_cancel]
        rw [Nat.add_mul, Nat.one_mul]; omega
      rw [e, sumRange_split, ih (by omega)]
      have hlast : sumRange sc (fun j => g ((t + 1 - 1) * sc + 1 + j)) = g ((t + 1) * sc) := by
        obtain ⟨p, hp⟩ : ∃ p, sc = p + 1 := ⟨sc - 1, by omega⟩
        subst hp
        simp only [sumRange]
        rw [sumRange_zero_of p _ (by
          intro k hk
          apply hz
          simp only [Nat.add_sub_cancel]
          have : (t * (p + 1) + 1 + k) % (p + 1) = (1 + k) % (p + 1) := by
            rw [Nat.add_assoc, Nat.add_comm, Nat.add_mul_mod_self_right]
          rw [this, Nat.mod_eq_of_lt (by omega)]
          omega)]
        simp only [Nat.add_sub_cancel]
        have : t * (p + 1) + 1 + p = (t + 1) * (p + 1) := by rw [Nat.add_mul, Nat.one_mul]; omega
        rw [this]; omega
      rw [hlast]
      simp only [sumRange]


end VelaVerif.Lemmas.StridedConv
