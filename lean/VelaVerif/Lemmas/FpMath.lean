import Mathlib.Tactic.IntervalCases
import Mathlib.Tactic.Linarith
import VelaVerif.Model.FpMath
import VelaVerif.Spec.Gemmlowp
/-! Helper lemmas for C19: Python floor-division-with-compensation = C truncation, casts are the identity
in range, `BitAnd` with a low mask is `% 2^e`, closed form of `RoundingDivideByPOT`, model = reference for
each primitive of `fp_math.py`. -/
namespace VelaVerif.FpMath
open VelaVerif

theorem tdiv_neg (n d : Int) (hd : 0 < d) (h : n < 0) : n.tdiv d = (if (n / d) * d < n then n / d + 1 else n / d) := by
  rw [Int.tdiv_eq_ediv, Int.sign_eq_one_of_pos hd]
  have hm := Int.emod_add_mul_ediv n d
  have h0 := Int.emod_nonneg n (Int.ne_of_gt hd)
  by_cases hdv : d ∣ n
  · have : n % d = 0 := Int.emod_eq_zero_of_dvd hdv
    have e : n / d * d = n := by rw [Int.mul_comm]; omega
    simp [hdv, e]
  · have : n % d ≠ 0 := fun h => hdv (Int.dvd_of_emod_eq_zero h)
    have e : n / d * d < n := by rw [Int.mul_comm]; omega
    have hn : ¬ (0 ≤ n) := by omega
    simp [hdv, e, hn]

theorem inI32_iff (x : Int) : inI32 x = true ↔ -2147483648 ≤ x ∧ x ≤ 2147483647 := by
  unfold inI32 i32min i32max
  rw [Bool.and_eq_true, decide_eq_true_eq, decide_eq_true_eq]
theorem inI16_iff (x : Int) : inI16 x = true ↔ -32768 ≤ x ∧ x ≤ 32767 := by
  unfold inI16 i16min i16max
  rw [Bool.and_eq_true, decide_eq_true_eq, decide_eq_true_eq]

theorem cast32_id (x : Int) (h1 : -2147483648 ≤ x) (h2 : x ≤ 2147483647) : Gemmlowp.cast32 x = x := by
  unfold Gemmlowp.cast32
  simp only []
  split <;> omega
theorem cast16_id (x : Int) (h1 : -32768 ≤ x) (h2 : x ≤ 32767) : Gemmlowp.cast16 x = x := by
  unfold Gemmlowp.cast16
  simp only []
  split <;> omega

theorem mul_bounds (M N a b : Int) (ha1 : -M ≤ a) (ha2 : a ≤ M) (hb1 : -N ≤ b) (hb2 : b ≤ N) :
    -(M * N) ≤ a * b ∧ a * b ≤ M * N := by
  constructor <;> nlinarith [mul_nonneg (sub_nonneg.2 ha2) (sub_nonneg.2 hb2), mul_nonneg (sub_nonneg.2 ha2) (by linarith : (0:Int) ≤ N + b), mul_nonneg (by linarith : (0:Int) ≤ M + a) (sub_nonneg.2 hb2), mul_nonneg (by linarith : (0:Int) ≤ M + a) (by linarith : (0:Int) ≤ N + b)]

theorem prod32_bounds (a b : Int) (ha1 : -2147483648 ≤ a) (ha2 : a ≤ 2147483647) (hb1 : -2147483648 ≤ b) (hb2 : b ≤ 2147483647)
    (hne : ¬ (a = -2147483648 ∧ b = -2147483648)) :
    -4611686016279904256 ≤ a * b ∧ a * b ≤ 4611686016279904256 := by
  by_cases h : a = -2147483648
  · have hb : -2147483647 ≤ b := by omega
    have := mul_bounds 2147483648 2147483647 a b (by omega) (by omega) hb hb2
    omega
  · have := mul_bounds 2147483647 2147483648 a b (by omega) (by omega) (by omega) (by omega)
    omega

theorem prod16_bounds (a b : Int) (ha1 : -32768 ≤ a) (ha2 : a ≤ 32767) (hb1 : -32768 ≤ b) (hb2 : b ≤ 32767)
    (hne : ¬ (a = -32768 ∧ b = -32768)) :
    -1073709056 ≤ a * b ∧ a * b ≤ 1073709056 := by
  by_cases h : a = -32768
  · have hb : -32767 ≤ b := by omega
    have := mul_bounds 32768 32767 a b (by omega) (by omega) hb hb2
    omega
  · have := mul_bounds 32767 32768 a b (by omega) (by omega) (by omega) (by omega)
    omega

/-- the Python body (floor division + compensation) is C truncating division, k = 31 -/
theorem roundingMulBody31 (ab : Int) :
    roundingMulBody ab 31 = Int.tdiv (ab + (if ab ≥ 0 then 2 ^ 30 else 1 - 2 ^ 30)) (2 ^ 31) := by
  unfold roundingMulBody
  by_cases h : ab ≥ 0
  · simp only [h, if_true]
    rw [Int.tdiv_eq_ediv_of_nonneg (by omega)]
  · simp only [h, if_false]
    rw [tdiv_neg _ _ (by decide) (by omega)]

theorem roundingMulBody15 (ab : Int) :
    roundingMulBody ab 15 = Int.tdiv (ab + (if ab ≥ 0 then 2 ^ 14 else 1 - 2 ^ 14)) (2 ^ 15) := by
  unfold roundingMulBody
  by_cases h : ab ≥ 0
  · simp only [h, if_true]
    rw [Int.tdiv_eq_ediv_of_nonneg (by omega)]
  · simp only [h, if_false]
    rw [tdiv_neg _ _ (by decide) (by omega)]

theorem tdiv31_range (n : Int) (h1 : -4611686017353646080 ≤ n) (h2 : n ≤ 4611686017353646080) :
    -2147483648 ≤ n.tdiv (2 ^ 31) ∧ n.tdiv (2 ^ 31) ≤ 2147483647 := by
  by_cases h : 0 ≤ n
  · rw [Int.tdiv_eq_ediv_of_nonneg h]; omega
  · rw [tdiv_neg _ _ (by decide) (by omega)]; split <;> omega

theorem tdiv15_range (n : Int) (h1 : -1073725440 ≤ n) (h2 : n ≤ 1073725440) :
    -32768 ≤ n.tdiv (2 ^ 15) ∧ n.tdiv (2 ^ 15) ≤ 32767 := by
  by_cases h : 0 ≤ n
  · rw [Int.tdiv_eq_ediv_of_nonneg h]; omega
  · rw [tdiv_neg _ _ (by decide) (by omega)]; split <;> omega

theorem int32Min_eq : Gemmlowp.int32Min = i32min := by decide
theorem int32Max_eq : Gemmlowp.int32Max = i32max := by decide
theorem int16Min_eq : Gemmlowp.int16Min = i16min := by decide
theorem int16Max_eq : Gemmlowp.int16Max = i16max := by decide

theorem srdhm32_eq (a b : Int) (ha : inI32 a = true) (hb : inI32 b = true) :
    saturatingRoundingMul32 a b = .ok (Gemmlowp.srdhm32 a b) := by
  have ha' := (inI32_iff a).1 ha
  have hb' := (inI32_iff b).1 hb
  unfold saturatingRoundingMul32 Gemmlowp.srdhm32
  rw [int32Min_eq, int32Max_eq]
  simp only [chk32, ha, hb, if_true]
  by_cases hov : (a == b && a == i32min) = true
  · simp [hov]
    rfl
  · have hne : ¬ (a = -2147483648 ∧ b = -2147483648) := by
      intro ⟨h1, h2⟩
      apply hov
      subst h1; subst h2; decide
    have hp := prod32_bounds a b ha'.1 ha'.2 hb'.1 hb'.2 hne
    simp only [hov]
    rw [roundingMulBody31]
    generalize a * b = ab at hp ⊢
    show Except.ok _ = Except.ok _
    congr 1
    simp only [Bool.false_eq_true, if_false]
    have hr := tdiv31_range (ab + if ab ≥ 0 then 2 ^ 30 else 1 - 2 ^ 30) (by split <;> omega) (by split <;> omega)
    rw [cast32_id _ hr.1 hr.2]

theorem two_pow_le_31 (e : Nat) (he : e ≤ 31) : (2:Int) ^ e ≤ 2147483648 := by
  have h : (2:Nat) ^ e ≤ 2 ^ 31 := Nat.pow_le_pow_right (by decide) he
  have : ((2 ^ e : Nat) : Int) ≤ ((2 ^ 31 : Nat) : Int) := Int.ofNat_le.2 h
  simpa using this

theorem two_pow_pos (e : Nat) : (0:Int) < 2 ^ e := Int.pow_pos (by decide)

theorem bitAnd32_mask (x : Int) (e : Nat) (he : e ≤ 31) :
    Gemmlowp.bitAnd32 x (2 ^ e - 1) = x % 2 ^ e := by
  have hp := two_pow_pos e
  have hle := two_pow_le_31 e he
  unfold Gemmlowp.bitAnd32 Gemmlowp.toU32
  have hm : ((2:Int) ^ e - 1) % 2 ^ 32 = 2 ^ e - 1 := Int.emod_eq_of_lt (by omega) (by omega)
  rw [hm]
  have hn : ((2:Int) ^ e - 1).toNat = 2 ^ e - 1 := by
    have : ((2:Int) ^ e - 1) = ((2 ^ e - 1 : Nat) : Int) := by
      have h1 : 1 ≤ 2 ^ e := Nat.one_le_two_pow
      rw [Int.ofNat_sub h1]; simp
    rw [this, Int.toNat_natCast]
  rw [hn]
  show Gemmlowp.cast32 (Int.ofNat ((x % 2 ^ 32).toNat &&& (2 ^ e - 1))) = _
  rw [Nat.and_two_pow_sub_one_eq_mod]
  have h0 : 0 ≤ x % 2 ^ 32 := Int.emod_nonneg _ (by decide)
  have : Int.ofNat ((x % 2 ^ 32).toNat % 2 ^ e) = x % 2 ^ e := by
    show (((x % 2 ^ 32).toNat % 2 ^ e : Nat) : Int) = _
    rw [Int.natCast_mod, Int.toNat_of_nonneg h0, Int.natCast_pow]
    exact Int.emod_emod_of_dvd x (pow_dvd_pow 2 (by omega))
  rw [this]
  have h1 := Int.emod_nonneg x (Int.ne_of_gt hp)
  have h2 := Int.emod_lt_of_pos x hp
  exact cast32_id _ (by omega) (by omega)

/-- closed form of the C `RoundingDivideByPOT` on int32 for 0 ≤ e ≤ 31 -/
theorem rdbp_formula (x : Int) (e : Nat) (he : e ≤ 31) :
    Gemmlowp.roundingDivideByPOT x e =
      x / 2 ^ e + (if x % 2 ^ e > (2 ^ e - 1) / 2 + (if x < 0 then 1 else 0) then 1 else 0) := by
  have hp := two_pow_pos e
  have hle := two_pow_le_31 e he
  unfold Gemmlowp.roundingDivideByPOT
  simp only []
  rw [cast32_id _ (by omega) (by omega), bitAnd32_mask x e he, Int.shiftRight_eq_div_pow, Int.shiftRight_eq_div_pow]
  simp

theorem rdbp_eq (x : Int) (e : Nat) (hx : inI32 x = true) (he : e ≤ 31) :
    roundingDivideByPot x e = .ok (Gemmlowp.roundingDivideByPOT x e) := by
  rw [rdbp_formula x e he]
  have hp := two_pow_pos e
  have hle := two_pow_le_31 e he
  have hin : inI32 (e : Int) = true := by rw [inI32_iff]; omega
  unfold roundingDivideByPot
  simp only [chk32, hx, hin, if_true, pow2]
  have hneg : ¬ ((e : Int) < 0) := by omega
  simp only [hneg, if_false, Int.toNat_natCast]
  generalize (2:Int) ^ e = p at hp hle ⊢
  show (if _ then _ else _) = _
  by_cases hx0 : x < 0 <;> simp only [hx0, if_true, if_false] <;> split <;> rename_i h <;>
    simp only [gt_iff_lt] at h <;> simp [h, pure, Except.pure]

theorem rdbp_is_round_half_away (x : Int) (e : Nat) (he : e ≤ 31) :
    Gemmlowp.roundingDivideByPOT x e = Gemmlowp.roundHalfAwayDiv x e := by
  rw [rdbp_formula x e he]
  unfold Gemmlowp.roundHalfAwayDiv
  simp only []
  interval_cases e <;> simp only [Int.reducePow, Nat.reduceAdd] <;>
    (by_cases hx : x < 0 <;> simp only [hx, if_true, if_false] <;> split <;> omega)

theorem srdhm16_eq (a b : Int) (ha : inI16 a = true) (hb : inI16 b = true) :
    saturatingRoundingMul16 a b = .ok (Gemmlowp.srdhm16 a b) := by
  have ha' := (inI16_iff a).1 ha
  have hb' := (inI16_iff b).1 hb
  unfold saturatingRoundingMul16 Gemmlowp.srdhm16
  rw [int16Min_eq, int16Max_eq]
  simp only [chk16, ha, hb, if_true]
  by_cases hov : (a == b && a == i16min) = true
  · simp [hov]
    rfl
  · have hne : ¬ (a = -32768 ∧ b = -32768) := by
      intro ⟨h1, h2⟩
      apply hov
      subst h1; subst h2; decide
    have hp := prod16_bounds a b ha'.1 ha'.2 hb'.1 hb'.2 hne
    simp only [hov]
    rw [roundingMulBody15]
    generalize a * b = ab at hp ⊢
    show Except.ok _ = Except.ok _
    congr 1
    simp only [Bool.false_eq_true, if_false]
    have hr := tdiv15_range (ab + if ab ≥ 0 then 2 ^ 14 else 1 - 2 ^ 14) (by split <;> omega) (by split <;> omega)
    rw [cast16_id _ hr.1 hr.2]

theorem sat_mul16_eq (a b : Int) (ha : inI16 a = true) (hb : inI16 b = true) :
    saturatingMul16 a b = .ok (Gemmlowp.sdhm16 a b) := by
  have ha' := (inI16_iff a).1 ha
  have hb' := (inI16_iff b).1 hb
  unfold saturatingMul16 Gemmlowp.sdhm16
  rw [int16Min_eq, int16Max_eq]
  simp only [chk16, ha, hb, if_true]
  by_cases hov : (a == b && a == i16min) = true
  · simp [hov]
    rfl
  · have hne : ¬ (a = -32768 ∧ b = -32768) := by
      intro ⟨h1, h2⟩
      apply hov
      subst h1; subst h2; decide
    have hp := prod16_bounds a b ha'.1 ha'.2 hb'.1 hb'.2 hne
    simp only [hov]
    generalize a * b = ab at hp ⊢
    simp only [Bool.false_eq_true, if_false]
    have hr := tdiv15_range ab (by omega) (by omega)
    rw [cast16_id _ hr.1 hr.2]
    by_cases h : ab ≥ 0
    · simp only [h, if_true]
      rw [Int.tdiv_eq_ediv_of_nonneg (by omega)]
      rfl
    · simp only [h, if_false]
      rw [tdiv_neg _ _ (by decide) (by omega)]
      split <;> rfl

theorem cast32_range (v : Int) : inI32 (Gemmlowp.cast32 v) = true := by
  rw [inI32_iff]; unfold Gemmlowp.cast32; simp only []; split <;> omega
theorem cast16_range (v : Int) : inI16 (Gemmlowp.cast16 v) = true := by
  rw [inI16_iff]; unfold Gemmlowp.cast16; simp only []; split <;> omega

theorem srdhm32_range (a b : Int) : inI32 (Gemmlowp.srdhm32 a b) = true := by
  unfold Gemmlowp.srdhm32; simp only []
  split
  · decide
  · exact cast32_range _
theorem srdhm16_range (a b : Int) : inI16 (Gemmlowp.srdhm16 a b) = true := by
  unfold Gemmlowp.srdhm16; simp only []
  split
  · decide
  · exact cast16_range _
theorem sdhm16_range (a b : Int) : inI16 (Gemmlowp.sdhm16 a b) = true := by
  unfold Gemmlowp.sdhm16; simp only []
  split
  · decide
  · exact cast16_range _

theorem shift_left32_eq (a : Int) (o : Nat) (ha : inI32 a = true) :
    shiftLeft32 a o = .ok (Gemmlowp.shiftLeft32 a o) := by
  unfold shiftLeft32 Gemmlowp.shiftLeft32
  rw [int32Min_eq, int32Max_eq]
  have h0 : ¬ ¬ ((o : Int) ≥ 0) := by omega
  simp only [h0, if_false, chk32, ha, if_true, Int.toNat_natCast]
  generalize a * 2 ^ o = w
  show (if _ then _ else _) = _
  by_cases h1 : w < i32min
  · simp [h1]; rfl
  · by_cases h2 : w > i32max
    · simp [h1, h2]; rfl
    · simp only [h1, h2, if_false]
      unfold i32min at h1; unfold i32max at h2
      rw [cast32_id w (by omega) (by omega)]; rfl

theorem shift_left16_eq (a : Int) (o : Nat) (ha : inI16 a = true) :
    shiftLeft16 a o = .ok (Gemmlowp.shiftLeft16 a o) := by
  unfold shiftLeft16 Gemmlowp.shiftLeft16
  rw [int16Min_eq, int16Max_eq]
  have h0 : ¬ ¬ ((o : Int) ≥ 0) := by omega
  simp only [h0, if_false, chk16, ha, if_true, Int.toNat_natCast]
  generalize a * 2 ^ o = w
  show (if _ then _ else _) = _
  by_cases h1 : w < i16min
  · simp [h1]; rfl
  · by_cases h2 : w > i16max
    · simp [h1, h2]; rfl
    · simp only [h1, h2, if_false]
      unfold i16min at h1; unfold i16max at h2
      rw [cast16_id w (by omega) (by omega)]; rfl

theorem shift_left32_sat (a : Int) (o : Nat) : inI32 (Gemmlowp.shiftLeft32 a o) = true := by
  unfold Gemmlowp.shiftLeft32; simp only []
  split
  · decide
  · split
    · decide
    · exact cast32_range _

/-- `shift_left32` rejects a negative offset -/
theorem shift_left32_neg (a o : Int) (h : o < 0) : shiftLeft32 a o = .error .assert_ := by
  unfold shiftLeft32
  have : ¬ (o ≥ 0) := by omega
  simp [this]; rfl

theorem srmbp_eq (x : Int) (e : Nat) (hx : inI32 x = true) (he : e ≤ 31) :
    saturatingRoundingMultiplyByPot x e =
      .ok (if e = 0 then x else Gemmlowp.srmbpPos x e) := by
  have hx' := (inI32_iff x).1 hx
  have hin : inI32 (e : Int) = true := by rw [inI32_iff]; omega
  unfold saturatingRoundingMultiplyByPot
  have hneg : ¬ ((32 - 1 - (e : Int)) < 0) := by omega
  have hto : (32 - 1 - (e : Int)).toNat = 32 - 1 - e := by omega
  simp only [chk32, hx, hin, if_true, pow2, hneg, if_false, hto]
  have hp := two_pow_pos (32 - 1 - e)
  have hle := two_pow_le_31 (32 - 1 - e) (by omega)
  show (if _ then _ else _) = _
  by_cases h0 : e = 0
  · subst h0
    simp only [if_true]
    have : (2:Int) ^ (32 - 1 - 0) = 2147483648 := by decide
    rw [this]
    have h1 : ¬ (x > 2147483648 - 1) := by omega
    simp only [h1, if_false]
    by_cases h2 : x < -(2147483648 - 1)
    · simp only [h2, if_true]
      have : x = i32min := by unfold i32min; omega
      rw [this]; rfl
    · simp only [h2, if_false]
      rw [shift_left32_eq x 0 hx]
      unfold Gemmlowp.shiftLeft32 Gemmlowp.int32Min Gemmlowp.int32Max
      have h3 : ¬ (x * 2 ^ 0 < -(2 ^ 31)) := by omega
      have h4 : ¬ (x * 2 ^ 0 > 2 ^ 31 - 1) := by omega
      simp only [h3, h4, if_false]
      rw [cast32_id _ (by omega) (by omega)]
      simp
  · simp only [h0, if_false]
    unfold Gemmlowp.srmbpPos
    rw [int32Min_eq, int32Max_eq]
    simp only []
    generalize (2:Int) ^ (32 - 1 - e) = p at hp hle ⊢
    by_cases h1 : x > p - 1
    · have h2 : ¬ (x < -(p - 1)) := by omega
      simp only [h1, h2, if_true, if_false]; rfl
    · by_cases h2 : x < -(p - 1)
      · simp only [h1, h2, if_true, if_false]; rfl
      · simp only [h1, h2, if_false]
        exact shift_left32_eq x e hx

theorem rescale_eq (src dst x : Int) (hs : inI32 src = true) (hd : inI32 dst = true) (hx : inI32 x = true)
    (h1 : -31 ≤ src - dst) (h2 : src - dst ≤ 31) :
    rescale src dst x = .ok (Gemmlowp.rescale src dst x) := by
  unfold rescale Gemmlowp.rescale Gemmlowp.saturatingRoundingMultiplyByPOT
  simp only [chk32, hs, hd, hx, if_true]
  show (if _ then _ else _) = _
  by_cases hneg : src - dst < 0
  · have hpos : ¬ (src - dst > 0) := by omega
    simp only [hneg, hpos, if_true, if_false]
    obtain ⟨n, hn⟩ := Int.eq_ofNat_of_zero_le (a := -(src - dst)) (by omega)
    rw [hn, rdbp_eq _ _ hx (by omega), Int.toNat_natCast]
  · simp only [hneg, if_false]
    obtain ⟨n, hn⟩ := Int.eq_ofNat_of_zero_le (a := src - dst) (by omega)
    rw [hn, srmbp_eq _ _ hx (by omega), Int.toNat_natCast]
    by_cases h0 : n = 0
    · have hpos : ¬ ((n : Int) > 0) := by omega
      simp only [h0, if_true]
      simp
    · have hpos : ((n : Int) > 0) := by omega
      simp only [h0, hpos, if_true, if_false]

theorem downscale_ok (a : Int) (ha : inI32 a = true) :
    ∃ v, downscaleMultiplierInt32ToInt16 a = .ok v ∧ inI16 v = true ∧
      v = (if a ≥ 2147450879 then 32767 else (a + 32768) / 65536) := by
  have ha' := (inI32_iff a).1 ha
  unfold downscaleMultiplierInt32ToInt16
  simp only [chk32, ha, if_true]
  have e1 : i32max - (2:Int) ^ 15 = 2147450879 := by decide
  have e2 : ((2:Int) ^ 16) = 65536 := by decide
  have e3 : ((2:Int) ^ 15) = 32768 := by decide
  by_cases h : a ≥ 2147450879
  · refine ⟨32767, ?_, by decide, by simp only [h, if_true]⟩
    show (if a ≥ i32max - 2 ^ 15 then _ else _) = _
    rw [e1]; simp only [h, if_true]; rfl
  · have hin : inI16 ((a + 32768) / 65536) = true := by rw [inI16_iff]; omega
    refine ⟨(a + 32768) / 65536, ?_, hin, by simp only [h, if_false]⟩
    show (if a ≥ i32max - 2 ^ 15 then _ else _) = _
    rw [e1, e2, e3]; simp only [h, if_false]
    show (if inI16 ((a + 32768) / 65536) = true then _ else _) = _
    simp only [hin, if_true]; rfl

/-- `multiply_by_quantized_multiplier` = TFLite `MultiplyByQuantizedMultiplier` -/
theorem mbqm_eq (x scale shift : Int) (hs : inI32 scale = true)
    (hsh1 : 0 ≤ shift) (hsh2 : shift ≤ 62)
    (hfit : inI32 (x * 2 ^ (if 31 - shift > 0 then (31 - shift).toNat else 0)) = true) :
    multiplyByQuantizedMultiplier x scale shift =
      .ok (Gemmlowp.multiplyByQuantizedMultiplier x scale (31 - shift)) := by
  unfold multiplyByQuantizedMultiplier Gemmlowp.multiplyByQuantizedMultiplier
  simp only []
  have hfit' := (inI32_iff _).1 hfit
  by_cases hpos : 31 - shift > 0
  · have hneg : ¬ (31 - shift < 0) := by omega
    simp only [hpos, hneg, if_true, if_false] at hfit hfit' ⊢
    rw [cast32_id _ hfit'.1 hfit'.2, srdhm32_eq _ _ hfit hs]
    show roundingDivideByPot _ ((0:Nat):Int) = _
    rw [rdbp_eq _ 0 (srdhm32_range _ _) (by omega)]
  · simp only [hpos, if_false] at hfit hfit' ⊢
    have e0 : (x * 2 ^ (0:Int).toNat) = x * 2 ^ 0 := rfl
    rw [e0, cast32_id _ hfit'.1 hfit'.2, srdhm32_eq _ _ hfit hs]
    show roundingDivideByPot _ (if 31 - shift < 0 then -(31 - shift) else 0) = _
    have : (if 31 - shift < 0 then -(31 - shift) else 0) = (((-(31 - shift)).toNat : Nat) : Int) := by
      split <;> omega
    rw [this, rdbp_eq _ _ (srdhm32_range _ _) (by omega)]

end VelaVerif.FpMath
