import VelaVerif.Lemmas.MlwEncSlice
/-!
Slices of a section, sections of a stream, the end-of-stream frame (C07).
-/
namespace VelaVerif.MlwEnc
open VelaVerif.Mlw List

/-! ### the slices of a section -/

theorem sliceOut_nil (useZ : Bool) (zs : List Nat) : sliceOut useZ false [] zs = [] := by
  unfold sliceOut; cases useZ <;> simp [interleave]

/-- the output of a section's slices is the output of one slice over everything -/
theorem sliceOut_split (useZ newPal : Bool) (ws : List Int) (zs : List Nat) (k : Nat) (hk : k ≤ ws.length)
    (hz : useZ = true → zs.length = ws.length + (if newPal = true then 1 else 0)) :
    sliceOut useZ newPal (ws.take k) (if useZ = true then zs.take (k + (if newPal = true then 1 else 0)) else []) ++
      sliceOut useZ false (ws.drop k) (zs.drop (k + (if newPal = true then 1 else 0))) =
    sliceOut useZ newPal ws zs := by
  cases useZ
  · simp [sliceOut]
  · have hz := hz rfl
    simp only [sliceOut, if_true, Bool.false_eq_true, if_false]
    cases newPal
    · simp only [Bool.false_eq_true, if_false, Nat.add_zero] at hz ⊢
      rw [← interleave_append _ _ _ _ (by simp; omega), take_append_drop, take_append_drop]
    · simp only [if_true] at hz ⊢
      cases zs with
      | nil => simp at hz
      | cons z0 zt =>
        simp only [take_succ_cons, drop_succ_cons, append_assoc]
        rw [← interleave_append _ _ _ _ (by simp at hz ⊢; omega), take_append_drop, take_append_drop]

/-- the slices of a section fit its values and each is well-formed -/
def SlicesOk (p : PalPlan) (ubits : Nat) : List SlicePlan → List Nat → List Nat → Bool → Prop
  | [], wrest, _, newPal => wrest = [] ∧ newPal = false
  | sl :: more, wrest, zrest, newPal =>
    sl.len ≤ wrest.length ∧
    (∃ g, grcCfg ubits sl.wCfg (if p.useZeroRuns = true then sl.zCfg else 0) = some g ∧
      SliceOk p newPal (wrest.take sl.len)
        (if p.useZeroRuns = true then zrest.take (sl.len + (if newPal = true then 1 else 0)) else []) g) ∧
    SlicesOk p ubits more (wrest.drop sl.len) (zrest.drop (sl.len + (if newPal = true then 1 else 0))) false

theorem sliceLoop_slices {p : PalPlan} {ubits : Nat} (hp : PalOk p) :
    ∀ (slices : List SlicePlan) (wrest zrest : List Nat) (newPal : Bool) (ws : List Int),
      Dec (palOf p) wrest ws →
      (p.useZeroRuns = true → zrest.length = wrest.length + (if newPal = true then 1 else 0)) →
      SlicesOk p ubits slices wrest zrest newPal →
      ∃ bits, encodeSlices p ubits slices wrest zrest newPal = .ok bits ∧
        ∀ (f : Nat) (o : Outer) (rest : List Bool) (pos : Nat),
          (newPal = false → o.first = false ∧ o.pal = palOf p ∧ (o.zPrevDiv != zdivDisable) = p.useZeroRuns) →
          ∃ o', sliceLoop (f + slices.length) o ⟨bits ++ rest, pos⟩ = sliceLoop f o' ⟨rest, pos + bits.length⟩ ∧
            o'.out = (sliceOut p.useZeroRuns newPal ws zrest).reverse ++ o.out ∧ o'.eos = o.eos ∧
            (slices = [] → o' = o) ∧
            (slices ≠ [] → o'.first = false ∧ o'.sliceEnd = pos + bits.length)
  | [], wrest, zrest, newPal, ws, hd, hz, hs => by
    obtain ⟨rfl, rfl⟩ := hs
    have : ws = [] := by have := hd.length; simpa using this.symm
    subst this
    refine ⟨[], by simp [encodeSlices], ?_⟩
    intro f o rest pos _
    exact ⟨o, by simp, by simp [sliceOut_nil], rfl, fun _ => rfl, fun h => absurd rfl h⟩
  | sl :: more, wrest, zrest, newPal, ws, hd, hz, hs => by
    obtain ⟨hlen, ⟨g, hg, hsl⟩, hmore⟩ := hs
    obtain ⟨b1, he1, hl1⟩ := sliceLoop_slice (ws := ws.take sl.len) hp hg hsl (hd.take sl.len)
    have hz2 : p.useZeroRuns = true →
        (zrest.drop (sl.len + (if newPal = true then 1 else 0))).length = (wrest.drop sl.len).length + (if false = true then 1 else 0) := by
      intro hu; have := hz hu; simp only [length_drop]; simp; omega
    obtain ⟨b2, he2, hl2⟩ := sliceLoop_slices hp more (wrest.drop sl.len)
      (zrest.drop (sl.len + (if newPal = true then 1 else 0))) false (ws.drop sl.len) (hd.drop sl.len) hz2 hmore
    have hne : (wrest.isEmpty && !newPal) = false := by
      have := hsl.len.1
      cases wrest with
      | nil => simp at this
      | cons _ _ => simp
    refine ⟨b1 ++ b2, ?_, ?_⟩
    · rw [encodeSlices]
      simp only [hne, Bool.false_eq_true, if_false, show ¬ wrest.length < sl.len by omega]
      cases hu : p.useZeroRuns
      · simp only [hu, Bool.false_eq_true, if_false] at he1 ⊢
        rw [he1]; simp only []; rw [he2]
      · simp only [hu, if_true] at he1 ⊢
        rw [he1]; simp only []; rw [he2]
    · intro f o rest pos ho
      obtain ⟨o1, g1, g2, g3, g4, g5, g6, g7⟩ := hl1 (f + more.length) o (b2 ++ rest) pos ho
      obtain ⟨o2, k1, k2, k3, k4, k5⟩ := hl2 f o1 rest (pos + b1.length) (fun _ => ⟨g2, g3, g4⟩)
      refine ⟨o2, ?_, ?_, (by rw [k3, g6]), (fun h => by cases h), fun _ => ?_⟩
      · rw [show f + (sl :: more).length = f + more.length + 1 by simp; omega, append_assoc, g1, k1,
          length_append, Nat.add_assoc]
      · rw [k2, g5, ← append_assoc, ← reverse_append]
        have hlen' : sl.len ≤ ws.length := by rw [← hd.length]; exact hlen
        rw [sliceOut_split p.useZeroRuns newPal ws zrest sl.len hlen' (by rw [← hd.length]; exact hz)]
      · by_cases hm : more = []
        · have := k4 hm; subst this
          subst hm
          simp only [encodeSlices] at he2
          have hb2 : b2 = [] := by
            split at he2
            · cases he2; rfl
            · cases he2
          subst hb2
          exact ⟨g2, by simpa using g7⟩
        · obtain ⟨k5a, k5b⟩ := k5 hm
          exact ⟨k5a, by rw [k5b, length_append]; omega⟩

/-! ### a section -/

theorem replicate_succ_zero (n : Nat) (l : List Int) : replicate (n + 1) (0 : Int) ++ l = replicate n 0 ++ 0 :: l := by
  rw [replicate_succ', append_assoc]; rfl

/-- the zero runs and the weights between them are the section -/
theorem extractZ_spec (oz : Bool) : ∀ (l : List Int) (atStart : Bool) (zcnt : Nat),
    ∃ z0 zt, (extractZ oz atStart zcnt l).2 = z0 :: zt ∧ zt.length = (extractZ oz atStart zcnt l).1.length ∧
      replicate z0 0 ++ interleave (extractZ oz atStart zcnt l).1 zt = replicate zcnt 0 ++ l
  | [], _, zcnt => ⟨zcnt, [], by simp [extractZ], by simp [extractZ], by simp [extractZ, interleave]⟩
  | v :: l, atStart, zcnt => by
    rw [extractZ]
    split
    · rename_i hv
      obtain ⟨z0, zt, h1, h2, h3⟩ := extractZ_spec oz l false (zcnt + 1)
      have hv0 : v = 0 := by simp at hv; exact hv.1
      exact ⟨z0, zt, h1, h2, by rw [h3, hv0, replicate_succ_zero]⟩
    · obtain ⟨z0, zt, h1, h2, h3⟩ := extractZ_spec oz l false 0
      refine ⟨zcnt, z0 :: zt, by simp [h1], by simp [h2], ?_⟩
      simp only [interleave, h3]
      simp

structure SectionOk (sp : SectionPlan) (inbuf : List Int) : Prop where
  pal : PalOk sp.pal
  idx : ∀ w ∈ (extract sp.pal inbuf).1, IdxOk sp.pal w
  slices : ∀ wv, lookup sp.pal (extract sp.pal inbuf).1 = .ok wv →
    SlicesOk sp.pal (uncompressedBits sp.pal) sp.slices wv (extract sp.pal inbuf).2 true

theorem extract_out (p : PalPlan) (inbuf : List Int) :
    sliceOut p.useZeroRuns true (extract p inbuf).1 (extract p inbuf).2 = inbuf ∧
    (p.useZeroRuns = true → (extract p inbuf).2.length = (extract p inbuf).1.length + 1) := by
  unfold extract sliceOut
  cases hu : p.useZeroRuns
  · simp
  · obtain ⟨z0, zt, h1, h2, h3⟩ := extractZ_spec p.onlyZeros inbuf true 0
    simp only [if_true, h1]
    exact ⟨by simpa using h3, fun _ => by simp [h2]⟩

theorem sliceLoop_section {sp : SectionPlan} {inbuf : List Int} (hs : SectionOk sp inbuf) :
    ∃ bits, encodeSection sp inbuf = .ok bits ∧
      ∀ (f : Nat) (o : Outer) (rest : List Bool) (pos : Nat),
        ∃ o', sliceLoop (f + sp.slices.length) o ⟨bits ++ rest, pos⟩ = sliceLoop f o' ⟨rest, pos + bits.length⟩ ∧
          o'.out = inbuf.reverse ++ o.out ∧ o'.eos = o.eos ∧ o'.first = false ∧ o'.sliceEnd = pos + bits.length := by
  have hp32 : sp.pal.lut.length ≤ 32 := by rcases hs.pal.size with h | h <;> omega
  obtain ⟨wv, hl, _, hd⟩ := lookup_spec hp32 _ hs.idx
  obtain ⟨hout, hzl⟩ := extract_out sp.pal inbuf
  have hsl := hs.slices wv hl
  obtain ⟨bits, he, hloop⟩ := sliceLoop_slices hs.pal sp.slices wv (extract sp.pal inbuf).2 true _ hd
    (fun hu => by rw [hzl hu, hd.length]; simp) hsl
  refine ⟨bits, by unfold encodeSection; simp only [hl, he], ?_⟩
  intro f o rest pos
  obtain ⟨o', h1, h2, h3, _, h5⟩ := hloop f o rest pos (fun h => by cases h)
  have hne : sp.slices ≠ [] := by
    intro h; rw [h] at hsl; exact absurd hsl.2 (by simp)
  exact ⟨o', h1, by rw [h2, hout], h3, (h5 hne).1, (h5 hne).2⟩

/-! ### the sections of a stream -/

def SectionsOk : Plan → List Int → Prop
  | [], ws => ws = []
  | sp :: more, ws => 0 < sp.size ∧ sp.size ≤ ws.length ∧ SectionOk sp (ws.take sp.size) ∧
      SectionsOk more (ws.drop sp.size)

theorem sliceLoop_sections : ∀ (plan : Plan) (ws : List Int), SectionsOk plan ws →
    ∃ bits n, encodeSections plan ws = .ok bits ∧
      ∀ (f : Nat) (o : Outer) (rest : List Bool) (pos : Nat),
        ∃ o', sliceLoop (f + n) o ⟨bits ++ rest, pos⟩ = sliceLoop f o' ⟨rest, pos + bits.length⟩ ∧
          o'.out = ws.reverse ++ o.out ∧ o'.eos = o.eos ∧
          (plan = [] → o' = o ∧ bits = []) ∧ (plan ≠ [] → o'.sliceEnd = pos + bits.length)
  | [], ws, h => by
    have : ws = [] := h
    subst this
    exact ⟨[], 0, by simp [encodeSections], fun f o rest pos => ⟨o, by simp, by simp, rfl, fun _ => ⟨rfl, rfl⟩,
      fun h => absurd rfl h⟩⟩
  | sp :: more, ws, h => by
    obtain ⟨h0, hle, hsec, hmore⟩ := h
    obtain ⟨b1, he1, hl1⟩ := sliceLoop_section hsec
    obtain ⟨b2, n2, he2, hl2⟩ := sliceLoop_sections more (ws.drop sp.size) hmore
    refine ⟨b1 ++ b2, n2 + sp.slices.length, ?_, ?_⟩
    · rw [encodeSections]
      simp only [show ¬ (sp.size = 0 ∨ ws.length < sp.size) by omega, if_false, he1, he2]
    · intro f o rest pos
      obtain ⟨o1, g1, g2, g3, _, g5⟩ := hl1 (f + n2) o (b2 ++ rest) pos
      obtain ⟨o2, k1, k2, k3, k4, k5⟩ := hl2 f o1 rest (pos + b1.length)
      refine ⟨o2, ?_, ?_, (by rw [k3, g3]), (fun h => by cases h), fun _ => ?_⟩
      · rw [← Nat.add_assoc, append_assoc, g1, k1, length_append, Nat.add_assoc]
      · rw [k2, g2, ← append_assoc, ← reverse_append, take_append_drop]
      · by_cases hm : more = []
        · obtain ⟨rfl, rfl⟩ := k4 hm
          simpa using g5
        · rw [k5 hm, length_append]; omega

/-! ### fuel of the slice loop -/

theorem sliceLoop_mono : ∀ (f : Nat) (o : Outer) (b : Bits) (k : Nat) (x : Except DecErr (Outer × Bits)),
    sliceLoop f o b = x → x ≠ .error .fuel → sliceLoop (f + k) o b = x
  | 0, o, b, k, x, h, hx => by
    simp [sliceLoop, Rd.fail] at h; exact absurd h.symm hx
  | f + 1, o, b, k, x, h, hx => by
    rw [show f + 1 + k = (f + k) + 1 by omega]
    rw [sliceLoop] at h ⊢
    simp only [bind_eq, pure_eq, Rd.bind] at h ⊢
    cases hg : Mlw.get 3 b with
    | error e => rw [hg] at h; exact h
    | ok r =>
      obtain ⟨zdiv, b1⟩ := r
      rw [hg] at h
      simp only [] at h ⊢
      split
      · rename_i hz
        rw [if_pos hz] at h
        simp only [Rd.bind, bitPos] at h ⊢
        cases hg2 : Mlw.get ((8 - b1.pos % 8) % 8) b1 with
        | error e => rw [hg2] at h; exact h
        | ok r2 =>
          obtain ⟨_, b2⟩ := r2
          rw [hg2] at h
          simp only [atEnd] at h ⊢
          split
          · rename_i he; rw [if_pos he] at h; exact h
          · rename_i he; rw [if_neg he] at h; exact sliceLoop_mono f _ _ k x h hx
      · rename_i hz
        rw [if_neg hz] at h
        simp only [Rd.bind, atEnd] at h ⊢
        split
        · rename_i he; rw [if_pos he] at h; exact h
        · rename_i he
          rw [if_neg he] at h
          simp only [Rd.bind] at h ⊢
          cases hb : sliceBody zdiv o b1 with
          | error e => rw [hb] at h; exact h
          | ok r3 =>
            obtain ⟨o3, b3⟩ := r3
            rw [hb] at h
            simp only [bitPos] at h ⊢
            exact sliceLoop_mono f _ _ k x h hx

/-- a successful run with some fuel is the run with the decoder's own fuel -/
theorem sliceLoop_fuel {f1 f2 : Nat} {o : Outer} {b : Bits} {r : Outer × Bits}
    (h : sliceLoop f1 o b = .ok r) (hf : b.rest.length < f2) : sliceLoop f2 o b = .ok r := by
  have h1 := sliceLoop_mono f1 o b f2 _ h (by simp)
  cases h2 : sliceLoop f2 o b with
  | ok r' =>
    have := sliceLoop_mono f2 o b f1 _ h2 (by simp)
    rw [Nat.add_comm, h1] at this
    exact this.symm
  | error e =>
    have he := sliceLoop_err f2 o b e hf h2
    have := sliceLoop_mono f2 o b f1 _ h2 (by simpa using he)
    rw [Nat.add_comm, h1] at this
    cases this

/-! ### the end-of-stream frame: all ones up to the next 128-bit boundary -/

theorem takeBits_ones : ∀ (k n : Nat), k ≤ n →
    takeBits k (replicate n true) = some (2 ^ k - 1, replicate (n - k) true)
  | 0, n, _ => by simp [takeBits]
  | k + 1, 0, h => by omega
  | k + 1, n + 1, h => by
    rw [replicate_succ, takeBits, takeBits_ones k n (by omega)]
    simp only [if_true, Option.some.injEq, Prod.mk.injEq]
    refine ⟨?_, by congr 1; omega⟩
    have := Nat.two_pow_pos k
    rw [Nat.pow_succ]; omega

theorem get_ones (k n pos : Nat) (h : k ≤ n) :
    Mlw.get k ⟨replicate n true, pos⟩ = .ok (2 ^ k - 1, ⟨replicate (n - k) true, pos + k⟩) := by
  unfold Mlw.get; simp only [takeBits_ones k n h]

/-- the decoder runs over a frame of ones that ends on a byte boundary to its end and only counts markers -/
theorem sliceLoop_ones : ∀ (n f : Nat) (o : Outer) (pos : Nat), 3 ≤ n → (pos + n) % 8 = 0 → n < f →
    ∃ k, sliceLoop f o ⟨replicate n true, pos⟩ =
      .ok ({ o with first := true, eos := o.eos + k }, ⟨[], pos + n⟩) := by
  intro n
  induction n using Nat.strongRecOn with
  | _ n ih =>
    intro f o pos h3 h8 hf
    cases f with
    | zero => omega
    | succ f =>
      rw [sliceLoop]
      simp only [bind_eq, pure_eq, Rd.bind]
      rw [get_ones 3 n pos h3]
      simp only [show (2 ^ 3 - 1 == zdivEos) = true by decide, if_true, Rd.bind, bitPos]
      have ha : (8 - (pos + 3) % 8) % 8 ≤ n - 3 := by omega
      rw [get_ones _ _ _ ha]
      simp only [atEnd]
      by_cases hend : n - 3 - (8 - (pos + 3) % 8) % 8 = 0
      · refine ⟨1, ?_⟩
        simp only [hend, replicate_zero, isEmpty_nil, if_true, Rd.pure]
        congr 3; omega
      · have hne : (replicate (n - 3 - (8 - (pos + 3) % 8) % 8) true).isEmpty = false := by
          cases hm : n - 3 - (8 - (pos + 3) % 8) % 8 with
          | zero => exact absurd hm hend
          | succ m => simp [replicate_succ]
        simp only [hne, Bool.false_eq_true, if_false]
        obtain ⟨k, hk⟩ := ih (n - 3 - (8 - (pos + 3) % 8) % 8) (by omega) f
          { o with first := true, eos := o.eos + 1 } (pos + 3 + (8 - (pos + 3) % 8) % 8) (by omega) (by omega) (by omega)
        refine ⟨1 + k, ?_⟩
        rw [hk]
        simp only [Nat.add_assoc]
        congr 3; omega

/-! ### bits ↔ bytes -/

theorem byteOf_bits : ∀ b0 b1 b2 b3 b4 b5 b6 b7 : Bool,
    [(byteOf b0 b1 b2 b3 b4 b5 b6 b7).testBit 0, (byteOf b0 b1 b2 b3 b4 b5 b6 b7).testBit 1,
     (byteOf b0 b1 b2 b3 b4 b5 b6 b7).testBit 2, (byteOf b0 b1 b2 b3 b4 b5 b6 b7).testBit 3,
     (byteOf b0 b1 b2 b3 b4 b5 b6 b7).testBit 4, (byteOf b0 b1 b2 b3 b4 b5 b6 b7).testBit 5,
     (byteOf b0 b1 b2 b3 b4 b5 b6 b7).testBit 6, (byteOf b0 b1 b2 b3 b4 b5 b6 b7).testBit 7] =
    [b0, b1, b2, b3, b4, b5, b6, b7] := by decide

theorem bytesToBits_bitsToBytes : ∀ (n : Nat) (bits : List Bool), bits.length = 8 * n →
    bytesToBits (bitsToBytes bits) = bits
  | 0, bits, h => by
    have : bits = [] := length_eq_zero_iff.mp (by omega)
    subst this; rfl
  | n + 1, bits, h => by
    match bits, h with
    | b0 :: b1 :: b2 :: b3 :: b4 :: b5 :: b6 :: b7 :: rest, h =>
      have hr : rest.length = 8 * n := by simp at h; omega
      rw [bitsToBytes]
      simp only [bytesToBits, flatMap_cons]
      have := bytesToBits_bitsToBytes n rest hr
      simp only [bytesToBits] at this
      rw [this, byteOf_bits]
      rfl

theorem bitsToBytes_length : ∀ (n : Nat) (bits : List Bool), bits.length = 8 * n → (bitsToBytes bits).length = n
  | 0, bits, h => by
    have : bits = [] := length_eq_zero_iff.mp (by omega)
    subst this; rfl
  | n + 1, bits, h => by
    match bits, h with
    | b0 :: b1 :: b2 :: b3 :: b4 :: b5 :: b6 :: b7 :: rest, h =>
      have hr : rest.length = 8 * n := by simp at h; omega
      rw [bitsToBytes, length_cons, bitsToBytes_length n rest hr]

/-! ### the whole stream -/

/-- **losslessness of the writer on bits**: for a well-formed plan the decoder returns exactly the weights, the last
    slice ends where the frame begins, the stream is a whole number of 128-bit words -/
theorem decodeBits_encodeBits (plan : Plan) (ws : List Int) (hr : ∀ w ∈ ws, -255 ≤ w ∧ w ≤ 255)
    (h : SectionsOk plan ws) :
    ∃ bits d, encodeBits plan ws = .ok bits ∧ decodeBits bits = .ok d ∧ d.weights = ws ∧
      bits.drop d.sliceEnd = frameBits d.sliceEnd ∧ bits.length % 128 = 0 := by
  obtain ⟨sb, n, he, hl⟩ := sliceLoop_sections plan ws h
  obtain ⟨hf128, _, hf3, hft⟩ := frameBits_spec sb.length
  have hfb : frameBits sb.length = replicate (frameBits sb.length).length true := eq_replicate_iff.mpr ⟨rfl, hft⟩
  generalize hm : (frameBits sb.length).length = m at hfb hf128 hf3
  obtain ⟨o', h1, h2, h3, h4, h5⟩ := hl (m + 1) {} (frameBits sb.length) 0
  obtain ⟨k, hk⟩ := sliceLoop_ones m (m + 1) o' (0 + sb.length) hf3 (by omega) (by omega)
  rw [← hfb] at hk
  rw [hk] at h1
  have hrun := sliceLoop_fuel h1 (f2 := (sb ++ frameBits sb.length).length + 1) (by simp)
  have hend : o'.sliceEnd = sb.length := by
    by_cases hp : plan = []
    · obtain ⟨rfl, rfl⟩ := h4 hp; rfl
    · rw [h5 hp]; omega
  have hdec : ∃ d, decodeBits (sb ++ frameBits sb.length) = .ok d ∧ d.weights = o'.out.reverse ∧
      d.sliceEnd = o'.sliceEnd := by
    unfold decodeBits; rw [hrun]; exact ⟨_, rfl, rfl, rfl⟩
  obtain ⟨d, hd1, hd2, hd3⟩ := hdec
  refine ⟨sb ++ frameBits sb.length, d, ?_, hd1, ?_, ?_, ?_⟩
  · unfold encodeBits
    have : (ws.all fun w => decide (-255 ≤ w) && decide (w ≤ 255)) = true := by
      rw [all_eq_true]; intro w hw; simpa using hr w hw
    simp only [this, Bool.not_true, Bool.false_eq_true, if_false, he]
  · rw [hd2, h2]; simp
  · rw [hd3, hend]; simp
  · rw [length_append, hm]; exact hf128

end VelaVerif.MlwEnc
