import VelaVerif.Lemmas.FpMath
import VelaVerif.Model.Lut
/-! Helper lemmas for the LUT theorems of C19. -/
namespace VelaVerif.Lut
open VelaVerif VelaVerif.FpMath

theorem mapM_ok {α β : Type} (f : α → Except Err β) (g : α → β) (l : List α)
    (h : ∀ x ∈ l, f x = .ok (g x)) : l.mapM f = .ok (l.map g) := by
  induction l with
  | nil => rfl
  | cons a t ih =>
    have ha := h a (by simp)
    have ht := ih (fun x hx => h x (by simp [hx]))
    simp only [List.mapM_cons, ha, ht, List.map_cons]
    rfl

theorem qmin_le_qmax (s : Bool) : qmin s ≤ qmax s := by cases s <;> decide

theorem clamp_range (lo hi v : Int) (h : lo ≤ hi) : lo ≤ clamp lo hi v ∧ clamp lo hi v ≤ hi := by
  unfold clamp; omega

/-- exponent of the left shift `multiply_by_quantized_multiplier` applies for a Vela shift -/
def leftOf (shift : Int) : Nat := if 31 - shift > 0 then (31 - shift).toNat else 0

theorem lrelu_entry_eq (signed : Bool) (zpIn zpOut idScale idShift aScale aShift x : Int)
    (h1 : inI32 idScale = true) (h2 : inI32 aScale = true)
    (hi : 0 ≤ idShift ∧ idShift ≤ 62) (ha : 0 ≤ aShift ∧ aShift ≤ 62)
    (hfit : inI32 ((x - zpIn) * 2 ^ leftOf (if x < zpIn then aShift else idShift)) = true) :
    lreluEntry signed zpIn zpOut idScale idShift 1 aScale aShift x =
      .ok (Gemmlowp.leakyReluRef (qmin signed) (qmax signed) zpIn zpOut idScale (31 - idShift) aScale (31 - aShift) x) := by
  unfold lreluEntry Gemmlowp.leakyReluRef
  by_cases hx : x < zpIn
  · have hge : ¬ (x - zpIn ≥ 0) := by omega
    simp only [hx, if_true, hge, if_false] at hfit ⊢
    rw [Int.one_mul, mbqm_eq _ _ _ h2 ha.1 ha.2 hfit]
    rfl
  · have hge : (x - zpIn ≥ 0) := by omega
    simp only [hx, if_false, hge, if_true] at hfit ⊢
    rw [mbqm_eq _ _ _ h1 hi.1 hi.2 hfit]
    rfl

theorem quantize_entry_eq (quantMin quantMax zpIn zpOut mult shift val : Int)
    (h1 : inI32 mult = true) (hs : 0 ≤ shift ∧ shift ≤ 62)
    (hfit : inI32 ((val - zpIn) * 2 ^ leftOf shift) = true) :
    quantizeFoldEntry quantMin quantMax zpIn zpOut mult shift val =
      .ok (Gemmlowp.requantizeRef quantMin quantMax zpIn zpOut mult (31 - shift) val) := by
  unfold quantizeFoldEntry Gemmlowp.requantizeRef
  simp only []
  rw [mbqm_eq _ _ _ h1 hs.1 hs.2 hfit]
  rfl

/-- |v| ≤ 255·… : a difference of two 8-bit codes shifted left by at most 22 fits int32 -/
theorem fit_of_small (d : Int) (l : Nat) (hd : -255 ≤ d ∧ d ≤ 255) (hl : l ≤ 22) : inI32 (d * 2 ^ l) = true := by
  rw [inI32_iff]
  have hp := two_pow_pos l
  have h : (2:Nat) ^ l ≤ 2 ^ 22 := Nat.pow_le_pow_right (by decide) hl
  have h' : ((2 ^ l : Nat) : Int) ≤ ((2 ^ 22 : Nat) : Int) := Int.ofNat_le.2 h
  have hle : (2:Int) ^ l ≤ 4194304 := by simpa using h'
  have := mul_bounds 255 4194304 d (2 ^ l) (by omega) (by omega) (by omega) hle
  omega

theorem codes_mem (signed : Bool) (x : Int) (h : x ∈ codes signed) : qmin signed ≤ x ∧ x ≤ qmax signed := by
  unfold codes at h
  simp only [List.mem_map, List.mem_range] at h
  obtain ⟨i, hi, rfl⟩ := h
  cases signed <;> simp [qmin, qmax] <;> omega

theorem codes_length (signed : Bool) : (codes signed).length = 256 := by simp [codes]

theorem codes_pairwise (signed : Bool) : (codes signed).Pairwise (· < ·) := by
  unfold codes
  rw [List.pairwise_map]
  refine List.Pairwise.imp ?_ List.pairwise_lt_range
  intro a b hab
  cases signed <;> simp <;> omega

end VelaVerif.Lut
