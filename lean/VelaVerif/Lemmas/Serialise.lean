import VelaVerif.Model.Serialise
import VelaVerif.Model.Reported
import VelaVerif.Spec.Serialise
/-! Helper lemmas for `Props/C12Serial.lean`: NumPy slice assignment as a pointwise write, sequences of copies, element bytes,
    the allocation books. -/
namespace VelaVerif.Serialise

def write (mem : List Nat) (a : Nat) (bs : List Nat) : List Nat := mem.take a ++ bs ++ mem.drop (a + bs.length)

theorem setSlice_inbounds (mem : List Nat) (a : Nat) (bs : List Nat) (h : a + bs.length ≤ mem.length) :
    setSlice mem a (a + bs.length) bs = .ok (write mem a bs) := by
  unfold setSlice write
  have h1 : min a mem.length = a := by omega
  have h2 : min (a + bs.length) mem.length = a + bs.length := by omega
  simp only [h1, h2]
  have h3 : max a (a + bs.length) = a + bs.length := by omega
  simp only [h3]
  have h4 : a + bs.length - a = bs.length := by omega
  simp [h4]

theorem write_length (mem : List Nat) (a : Nat) (bs : List Nat) (h : a + bs.length ≤ mem.length) :
    (write mem a bs).length = mem.length := by
  simp [write]; omega

theorem write_get (mem : List Nat) (a : Nat) (bs : List Nat) (h : a + bs.length ≤ mem.length) (i : Nat) :
    (write mem a bs)[i]? = if a ≤ i ∧ i < a + bs.length then bs[i - a]? else mem[i]? := by
  unfold write
  by_cases h1 : i < a
  · have : ¬ (a ≤ i ∧ i < a + bs.length) := by omega
    rw [if_neg this]
    rw [List.append_assoc, List.getElem?_append_left (by simp; omega)]
    simp [h1]
  · by_cases h2 : i < a + bs.length
    · have : (a ≤ i ∧ i < a + bs.length) := by omega
      rw [if_pos this]
      rw [List.append_assoc, List.getElem?_append_right (by simp; omega)]
      have hl : (List.take a mem).length = a := by simp; omega
      rw [hl, List.getElem?_append_left (by omega)]
    · have : ¬ (a ≤ i ∧ i < a + bs.length) := by omega
      rw [if_neg this]
      rw [List.getElem?_append_right (by simp; omega)]
      simp only [List.length_append, List.length_take, List.getElem?_drop]
      congr 1
      omega

/-- a copy: where and which bytes -/
abbrev Copy := Nat × List Nat

def writes (mem : List Nat) (cs : List Copy) : List Nat := cs.foldl (fun m c => write m c.1 c.2) mem

theorem writes_length (cs : List Copy) (mem : List Nat) (hin : ∀ c ∈ cs, c.1 + c.2.length ≤ mem.length) :
    (writes mem cs).length = mem.length := by
  induction cs generalizing mem with
  | nil => rfl
  | cons d rest ih =>
    have hd := hin d (by simp)
    have hl := write_length mem d.1 d.2 hd
    show (writes (write mem d.1 d.2) rest).length = _
    rw [ih _ (fun c hc => by rw [hl]; exact hin c (by simp [hc])), hl]

def Outside (c : Copy) (i : Nat) : Prop := i < c.1 ∨ c.1 + c.2.length ≤ i

theorem writes_keep (cs : List Copy) (mem : List Nat) (i v : Nat) (hin : ∀ c ∈ cs, c.1 + c.2.length ≤ mem.length)
    (hv : mem[i]? = some v)
    (h : ∀ c ∈ cs, Outside c i ∨ (c.1 ≤ i ∧ i < c.1 + c.2.length ∧ c.2[i - c.1]? = some v)) :
    (writes mem cs)[i]? = some v := by
  induction cs generalizing mem with
  | nil => exact hv
  | cons d rest ih =>
    have hd := hin d (by simp)
    have hl := write_length mem d.1 d.2 hd
    show (writes (write mem d.1 d.2) rest)[i]? = _
    apply ih
    · intro c hc; rw [hl]; exact hin c (by simp [hc])
    · rw [write_get mem d.1 d.2 hd i]
      rcases h d (by simp) with ho | ⟨h1, h2, h3⟩
      · have : ¬ (d.1 ≤ i ∧ i < d.1 + d.2.length) := by unfold Outside at ho; omega
        rw [if_neg this]; exact hv
      · rw [if_pos ⟨h1, h2⟩]; exact h3
    · intro c hc; exact h c (by simp [hc])

def Compatible (x y : Copy) : Prop := x.1 + x.2.length ≤ y.1 ∨ y.1 + y.2.length ≤ x.1 ∨ x = y

theorem writes_hold (cs : List Copy) (mem : List Nat) (hin : ∀ c ∈ cs, c.1 + c.2.length ≤ mem.length)
    (hdis : cs.Pairwise Compatible) :
    ∀ c ∈ cs, ∀ j, j < c.2.length → (writes mem cs)[c.1 + j]? = c.2[j]? := by
  induction cs generalizing mem with
  | nil => intro c hc; simp at hc
  | cons d rest ih =>
    have hd := hin d (by simp)
    have hl := write_length mem d.1 d.2 hd
    have hin' : ∀ c ∈ rest, c.1 + c.2.length ≤ (write mem d.1 d.2).length := fun c hc => by rw [hl]; exact hin c (by simp [hc])
    rw [List.pairwise_cons] at hdis
    intro c hc j hj
    show (writes (write mem d.1 d.2) rest)[c.1 + j]? = _
    rcases List.mem_cons.1 hc with rfl | hc
    · have hjv : c.2[j]? = some c.2[j] := List.getElem?_eq_getElem hj
      rw [hjv]
      apply writes_keep rest _ _ _ hin'
      · rw [write_get mem c.1 c.2 hd, if_pos (by omega)]
        have : c.1 + j - c.1 = j := by omega
        rw [this, hjv]
      · intro e he
        rcases hdis.1 e he with h1 | h1 | h1
        · left; left; omega
        · left; right; omega
        · subst h1; right
          refine ⟨by omega, by omega, ?_⟩
          have : c.1 + j - c.1 = j := by omega
          rw [this, hjv]
    · exact ih _ hin' hdis.2 c hc j hj

theorem writes_zero (cs : List Copy) (n : Nat) (hin : ∀ c ∈ cs, c.1 + c.2.length ≤ n) (i : Nat) (hi : i < n)
    (hout : ∀ c ∈ cs, Outside c i) : (writes (List.replicate n 0) cs)[i]? = some 0 := by
  apply writes_keep
  · simpa using hin
  · simp [hi]
  · intro c hc; exact Or.inl (hout c hc)

/-- the bytes an item puts into the constants tensor when its tensor is in place: the address is known, the values exist, and
    (encoded streams) the stream is as long as the storage size the slice is taken with -/
def Item.copy? : Item → Option Copy
  | .comp t => match t.address with
    | some a => if t.buffer.length = t.storageSize then some (a, t.buffer) else none
    | none => none
  | .fm t => match t.address, t.values with
    | some a, some v => some (a, fmBytes t v)
    | _, _ => none
  | .missingLut => none

theorem applyItem_copy (mem : List Nat) (it : Item) (c : Copy) (hc : it.copy? = some c) (hin : c.1 + c.2.length ≤ mem.length) :
    applyItem mem it = .ok (write mem c.1 c.2) := by
  cases it with
  | comp t =>
    simp only [Item.copy?] at hc
    cases ha : t.address with
    | none => simp [ha] at hc
    | some a =>
      rw [ha] at hc
      by_cases hl : t.buffer.length = t.storageSize
      · simp only [hl, if_true, Option.some.injEq] at hc
        subst hc
        simp only [applyItem, copyCompressed, ha]
        rw [← hl]
        exact setSlice_inbounds mem a t.buffer hin
      · simp [hl] at hc
  | fm t =>
    simp only [Item.copy?] at hc
    cases ha : t.address with
    | none => simp [ha] at hc
    | some a =>
      cases hv : t.values with
      | none => simp [ha, hv] at hc
      | some v =>
        simp only [ha, hv, Option.some.injEq] at hc
        subst hc
        simp only [applyItem, copyIfm, ha, hv]
        exact setSlice_inbounds mem a _ hin
  | missingLut => simp [Item.copy?] at hc

def copies (items : List Item) : List Copy := items.filterMap Item.copy?

theorem applyItems_writes (items : List Item) (mem : List Nat)
    (h : ∀ it ∈ items, ∃ c, it.copy? = some c ∧ c.1 + c.2.length ≤ mem.length) :
    applyItems items mem = .ok (writes mem (copies items)) := by
  induction items generalizing mem with
  | nil => rfl
  | cons it rest ih =>
    obtain ⟨c, hc, hin⟩ := h it (by simp)
    simp only [applyItems, applyItem_copy mem it c hc hin]
    have hl := write_length mem c.1 c.2 hin
    rw [ih (write mem c.1 c.2) (fun it' h' => by rw [hl]; exact h it' (by simp [h']))]
    simp [copies, hc, writes]



/-! ## element bytes -/

theorem leNat_length (n u : Nat) : (leNat n u).length = n := by
  induction n generalizing u with
  | zero => rfl
  | succ n ih => simp [leNat, ih]

theorem leNat_lt (n u : Nat) : ∀ b ∈ leNat n u, b < 256 := by
  induction n generalizing u with
  | zero => intro b hb; simp [leNat] at hb
  | succ n ih =>
    intro b hb
    simp only [leNat, List.mem_cons] at hb
    rcases hb with rfl | hb
    · omega
    · exact ih _ b hb

/-- value of a little-endian byte string -/
def ofLE : List Nat → Nat
  | [] => 0
  | b :: bs => b + 256 * ofLE bs

theorem ofLE_leNat (n u : Nat) : ofLE (leNat n u) = u % 256 ^ n := by
  induction n generalizing u with
  | zero => simp [leNat, ofLE, Nat.mod_one]
  | succ n ih =>
    simp only [leNat, ofLE, ih]
    rw [Nat.pow_succ, Nat.mul_comm (256 ^ n) 256, Nat.mod_mul]

theorem leBytes_length (n : Nat) (v : Int) : (leBytes n v).length = n := leNat_length _ _

theorem flatMap_const_length {α : Type} (l : List α) (f : α → List Nat) (n : Nat) (h : ∀ x, (f x).length = n) :
    (l.flatMap f).length = n * l.length := by
  induction l with
  | nil => simp
  | cons x xs ih => simp [List.flatMap_cons, h, ih, Nat.mul_succ, Nat.add_comm]

theorem fmBytes_length (t : Fm) (vals : List Int) :
    (fmBytes t vals).length = (if t.dtypeSize > 1 then t.itemSize else 1) * vals.length := by
  unfold fmBytes
  split
  · exact flatMap_const_length vals _ _ (leBytes_length _)
  · simp

end VelaVerif.Serialise

namespace VelaVerif.Reported
open VelaVerif.Serialise

theorem lookup_bump {κ : Type} [BEq κ] [LawfulBEq κ] (d : List (κ × Nat)) (k k' : κ) (n : Nat) :
    lookup (bump d k n) k' = lookup d k' + (if k == k' then n else 0) := by
  induction d with
  | nil =>
    simp only [bump, lookup]
    by_cases h : (k == k') = true <;> simp [h]
  | cons p rest ih =>
    simp only [bump]
    by_cases hp : (p.1 == k) = true
    · have hpk : p.1 = k := by simpa using hp
      rw [if_pos hp]
      simp only [lookup]
      by_cases h : (k == k') = true
      · have : k = k' := by simpa using h
        subst this; simp [hpk]
      · have hne : k ≠ k' := by simpa using h
        have : (p.1 == k') = false := by simp [hpk, hne]
        simp [this, h]
    · rw [if_neg hp]
      simp only [lookup]
      by_cases h2 : (p.1 == k') = true
      · have hpk' : p.1 = k' := by simpa using h2
        have : (k == k') = false := by
          cases hk : (k == k') with
          | false => rfl
          | true =>
            have : k = k' := by simpa using hk
            subst this; exact absurd (by simp [hpk']) hp
        simp [h2, this]
      · simp only [h2, ih]
        simp

theorem lookup_types {κ : Type} [BEq κ] [LawfulBEq κ] (types : List κ) (d : List (κ × Nat)) (total : Nat) (k : κ) :
    lookup (types.foldl (fun d t => bump d t total) d) k = lookup d k + types.count k * total := by
  induction types generalizing d with
  | nil => simp
  | cons t ts ih =>
    simp only [List.foldl_cons, ih, lookup_bump, List.count_cons]
    by_cases h : (t == k) = true
    · simp only [h, if_true, Nat.add_mul, Nat.one_mul]; omega
    · simp [h]

theorem perType_ge_call (calls : List AllocCall) (b0 : Books) (c : AllocCall) (hc : c ∈ calls) (hrec : c.recorded = true)
    (mt : MemType) (hmt : mt ∈ c.types) :
    c.total ≤ lookup (calls.foldl recordCall b0).perType mt := by
  have mono : ∀ (cs : List AllocCall) (b : Books), lookup b.perType mt ≤ lookup (cs.foldl recordCall b).perType mt := by
    intro cs
    induction cs with
    | nil => intro b; exact Nat.le_refl _
    | cons d rest ih =>
      intro b
      refine Nat.le_trans ?_ (ih (recordCall b d))
      unfold recordCall
      split
      · simp only [lookup_types]; omega
      · exact Nat.le_refl _
  induction calls generalizing b0 with
  | nil => simp at hc
  | cons d rest ih =>
    rcases List.mem_cons.1 hc with rfl | hc
    · refine Nat.le_trans ?_ (mono rest (recordCall b0 c))
      unfold recordCall
      simp only [hrec, if_true, lookup_types]
      have : 1 ≤ c.types.count mt := List.count_pos_iff.2 hmt
      calc c.total = 1 * c.total := by omega
        _ ≤ c.types.count mt * c.total := Nat.mul_le_mul_right _ this
        _ ≤ _ := by omega
    · exact ih (recordCall b0 d) hc

theorem used_ge_call (calls : List AllocCall) (b0 : Books) (c : AllocCall) (hc : c ∈ calls) (hrec : c.recorded = true) :
    c.total ≤ lookup (calls.foldl recordCall b0).used c.area := by
  have mono : ∀ (cs : List AllocCall) (b : Books) (A : MemArea), lookup b.used A ≤ lookup (cs.foldl recordCall b).used A := by
    intro cs
    induction cs with
    | nil => intro b A; exact Nat.le_refl _
    | cons d rest ih =>
      intro b A
      refine Nat.le_trans ?_ (ih (recordCall b d) A)
      unfold recordCall
      split
      · simp only [lookup_bump]; omega
      · exact Nat.le_refl _
  induction calls generalizing b0 with
  | nil => simp at hc
  | cons d rest ih =>
    rcases List.mem_cons.1 hc with rfl | hc
    · refine Nat.le_trans ?_ (mono rest (recordCall b0 c) c.area)
      unfold recordCall
      simp only [hrec, if_true, lookup_bump, beq_self_eq_true]
      omega
    · exact ih (recordCall b0 d) hc

theorem perType_le_used (calls : List AllocCall) (mt : MemType) (A : MemArea)
    (hnodup : ∀ c ∈ calls, c.types.Nodup)
    (harea : ∀ c ∈ calls, c.recorded = true → mt ∈ c.types → c.area = A) (b0 : Books)
    (h0 : lookup b0.perType mt ≤ lookup b0.used A) :
    lookup (calls.foldl recordCall b0).perType mt ≤ lookup (calls.foldl recordCall b0).used A := by
  induction calls generalizing b0 with
  | nil => exact h0
  | cons d rest ih =>
    apply ih (fun c hc => hnodup c (by simp [hc])) (fun c hc => harea c (by simp [hc]))
    unfold recordCall
    by_cases hrec : d.recorded = true
    · simp only [hrec, if_true, lookup_types, lookup_bump]
      by_cases hmt : mt ∈ d.types
      · have ha := harea d (by simp) hrec hmt
        have hc1 : d.types.count mt = 1 := by
          have h1 := (List.nodup_iff_count.1 (hnodup d (by simp))) mt
          have h2 : 0 < d.types.count mt := List.count_pos_iff.2 hmt
          omega
        simp only [hc1, ha, beq_self_eq_true, if_true]
        omega
      · have hc0 : d.types.count mt = 0 := List.count_eq_zero_of_not_mem hmt
        simp only [hc0]
        omega
    · simp only [hrec, Bool.false_eq_true, if_false]
      exact h0

end VelaVerif.Reported

namespace VelaVerif.Serialise
open VelaVerif.Spec.Serialise

theorem leNat_get (n u k : Nat) (hk : k < n) : (leNat n u)[k]? = some (u / 256 ^ k % 256) := by
  induction n generalizing u k with
  | zero => omega
  | succ n ih =>
    cases k with
    | zero => simp [leNat]
    | succ k =>
      simp only [leNat, List.getElem?_cons_succ]
      rw [ih (u / 256) k (by omega), Nat.div_div_eq_div_mul, Nat.pow_succ, Nat.mul_comm]

theorem elemByte_eq (sz : Nat) (v : Int) (k : Nat) :
    elemByte sz v k = (v % (256 : Int) ^ sz).toNat / 256 ^ k % 256 := by
  unfold elemByte
  have hnn : 0 ≤ v % (256 : Int) ^ sz := Int.emod_nonneg _ (Int.ne_of_gt (Int.pow_pos (by decide)))
  obtain ⟨u, hu⟩ := Int.eq_ofNat_of_zero_le hnn
  rw [hu]
  simp only [Int.toNat_natCast]
  have : ((u : Int) / (256 : Int) ^ k % 256) = ((u / 256 ^ k % 256 : Nat) : Int) := by
    simp [Int.natCast_ediv, Int.natCast_emod, Int.natCast_pow]
  rw [this, Int.toNat_natCast]

end VelaVerif.Serialise
