import VelaVerif.Model.MlwFrame
/-! Lemmas about the end-of-stream frame (`Model/MlwFrame.lean`). -/
namespace VelaVerif.Mlw

theorem putBits_length (n v : Nat) : (putBits n v).length = n := by simp [putBits]

theorem putBits_ff_true {n : Nat} (hn : n ≤ 8) : ∀ x ∈ putBits n 0xff, x = true := by
  have : n = 0 ∨ n = 1 ∨ n = 2 ∨ n = 3 ∨ n = 4 ∨ n = 5 ∨ n = 6 ∨ n = 7 ∨ n = 8 := by omega
  rcases this with rfl | rfl | rfl | rfl | rfl | rfl | rfl | rfl | rfl <;> decide

theorem padLoop_spec : ∀ (f pos : Nat), pos % 8 = 0 → (128 - pos % 128) % 128 ≤ 8 * f →
    (padLoop f pos).length = (128 - pos % 128) % 128 ∧ ∀ x ∈ padLoop f pos, x = true
  | 0, pos, h8, hf => by
    simp only [padLoop, List.length_nil]
    exact ⟨by omega, by simp⟩
  | f + 1, pos, h8, hf => by
    unfold padLoop
    split
    · rename_i h0
      exact ⟨by simp; omega, by simp⟩
    · rename_i h0
      obtain ⟨ih1, ih2⟩ := padLoop_spec f (pos + 8) (by omega) (by omega)
      refine ⟨?_, ?_⟩
      · simp only [List.length_append, putBits_length, ih1]; omega
      · intro x hx
        rcases List.mem_append.mp hx with h | h
        · exact putBits_ff_true (by omega) x h
        · exact ih2 x h

theorem frameBits_spec (pos : Nat) :
    (pos + (frameBits pos).length) % 128 = 0 ∧ (frameBits pos).length ≤ 130 ∧ 3 ≤ (frameBits pos).length ∧
    ∀ x ∈ frameBits pos, x = true := by
  unfold frameBits
  have hp := padLoop_spec 16 (pos + 3 + (8 - (pos + 3) % 8) % 8) (by omega) (by omega)
  simp only [List.length_append, putBits_length, hp.1]
  refine ⟨by omega, by omega, by omega, ?_⟩
  intro x hx
  rcases List.mem_append.mp hx with h | h
  · rcases List.mem_append.mp h with h | h
    · have h3 : ∀ y ∈ putBits 3 zdivEos, y = true := by decide
      exact h3 x h
    · exact putBits_ff_true (by omega) x h
  · exact hp.2 x h

end VelaVerif.Mlw
