import VelaVerif.Model.MlwFrame
import VelaVerif.Lemmas.MlwDecode
/-! Lemmas about the end-of-stream frame (`Model/MlwFrame.lean`). -/
namespace VelaVerif.Mlw
open List

theorem putBits_length (n v : Nat) : (putBits n v).length = n := by simp [putBits]

theorem putBits_ff_true {n : Nat} (hn : n ≤ 8) : ∀ x ∈ putBits n 0xff, x = true := by
  have : n = 0 ∨ n = 1 ∨ n = 2 ∨ n = 3 ∨ n = 4 ∨ n = 5 ∨ n = 6 ∨ n = 7 ∨ n = 8 := by omega
  rcases this with rfl | rfl | rfl | rfl | rfl | rfl | rfl | rfl | rfl <;> decide

theorem padLoop_spec : ∀ (f pos : Nat), pos % 8 = 0 → (128 - pos % 128) % 128 ≤ 8 * f →
    (padLoop f pos).length = (128 - pos % 128) % 128 ∧ ∀ x ∈ padLoop f pos, x = true
  | 0, pos, h8, hf => by
    simp only [padLoop, List.length_nil]
    exact ⟨by omega, by simp⟩
  | f + 1, pos, h8, hf => by
    unfold padLoop
    split
    · rename_i h0
      exact ⟨by simp; omega, by simp⟩
    · rename_i h0
      obtain ⟨ih1, ih2⟩ := padLoop_spec f (pos + 8) (by omega) (by omega)
      refine ⟨?_, ?_⟩
      · simp only [List.length_append, putBits_length, ih1]; omega
      · intro x hx
        rcases List.mem_append.mp hx with h | h
        · exact putBits_ff_true (by omega) x h
        · exact ih2 x h

theorem frameBits_spec (pos : Nat) :
    (pos + (frameBits pos).length) % 128 = 0 ∧ (frameBits pos).length ≤ 130 ∧ 3 ≤ (frameBits pos).length ∧
    ∀ x ∈ frameBits pos, x = true := by
  unfold frameBits
  have hp := padLoop_spec 16 (pos + 3 + (8 - (pos + 3) % 8) % 8) (by omega) (by omega)
  simp only [List.length_append, putBits_length, hp.1]
  refine ⟨by omega, by omega, by omega, ?_⟩
  intro x hx
  rcases List.mem_append.mp hx with h | h
  · rcases List.mem_append.mp h with h | h
    · have h3 : ∀ y ∈ putBits 3 zdivEos, y = true := by decide
      exact h3 x h
    · exact putBits_ff_true (by omega) x h
  · exact hp.2 x h

/-! ### header fields: what `bitbuf_put` writes, `bitbuf_get` reads back -/

theorem putBits_succ (n v : Nat) : putBits (n + 1) v = v.testBit 0 :: putBits n (v / 2) := by
  unfold putBits
  rw [range_succ_eq_map, map_cons, map_map]
  congr 1
  apply map_congr_left
  intro i _
  simp [Nat.testBit_succ]

/-- `bitbuf_get(n)` after `bitbuf_put(n, v)` returns the low `n` bits of `v` and leaves the rest -/
theorem takeBits_putBits : ∀ (n v : Nat) (rest : List Bool),
    takeBits n (putBits n v ++ rest) = some (v % 2 ^ n, rest)
  | 0, v, rest => by simp [putBits, takeBits, Nat.mod_one]
  | n + 1, v, rest => by
    rw [putBits_succ, cons_append, takeBits, takeBits_putBits n (v / 2) rest]
    simp only [Option.some.injEq, Prod.mk.injEq, and_true]
    have h1 : v % 2 ^ (n + 1) = v % 2 + 2 * (v / 2 % 2 ^ n) := by
      rw [Nat.pow_succ, Nat.mul_comm, Nat.mod_mul]
    rw [h1]
    cases hb : v.testBit 0 <;> simp [Nat.testBit_zero] at hb <;> simp [hb]

theorem get_putBits (n v : Nat) (rest : List Bool) (pos : Nat) (hv : v < 2 ^ n) :
    get n ⟨putBits n v ++ rest, pos⟩ = .ok (v, ⟨rest, pos + n⟩) := by
  unfold get
  simp only [takeBits_putBits, Nat.mod_eq_of_lt hv]


theorem header_roundtrip' (nvalues wdiv : Nat) (trunc newPal : Bool) (rest : List Bool) (pos : Nat)
    (hn1 : 1 ≤ nvalues) (hn2 : nvalues ≤ 32768) (hw : wdiv < 8) :
    readSliceHeader ⟨putSliceHeader nvalues wdiv trunc newPal ++ rest, pos⟩ =
      .ok ((nvalues, wdiv, trunc, newPal), ⟨rest, pos + 20⟩) := by
  unfold readSliceHeader putSliceHeader
  simp only [bind_eq, pure_eq, append_assoc]
  simp only [Rd.bind]
  rw [get_putBits 15 _ _ _ (by omega)]
  simp only []
  rw [get_putBits 3 _ _ _ (by omega)]
  simp only []
  rw [get_putBits 1 _ _ _ (by split <;> omega)]
  simp only []
  rw [get_putBits 1 _ _ _ (by split <;> omega)]
  simp only [Rd.pure]
  have : nvalues - 1 + 1 = nvalues := by omega
  cases trunc <;> cases newPal <;> simp [this] <;> omega

theorem getPalette_putEntries (palbits : Nat) : ∀ (lut : List Nat) (rest : List Bool) (pos : Nat),
    (∀ v ∈ lut, v < 2 ^ palbits) →
    getPalette palbits lut.length ⟨putPaletteEntries palbits lut ++ rest, pos⟩ =
      .ok (lut, ⟨rest, pos + lut.length * palbits⟩)
  | [], rest, pos, _ => by simp [getPalette, putPaletteEntries, pure_eq, Rd.pure]
  | v :: vs, rest, pos, h => by
    simp only [length_cons, getPalette, putPaletteEntries, bind_eq, pure_eq, append_assoc]
    simp only [Rd.bind]
    rw [get_putBits palbits v _ _ (h v mem_cons_self)]
    simp only []
    rw [getPalette_putEntries palbits vs rest _ (fun x hx => h x (mem_cons_of_mem _ hx))]
    simp only [Rd.pure]
    congr 3
    rw [Nat.add_mul, Nat.one_mul]; omega

theorem palette_roundtrip' (dirofs palbits : Nat) (lut : List Nat) (rest : List Bool) (pos : Nat)
    (hd : dirofs < 32) (hl : lut.length = 0 ∨ (2 ≤ lut.length ∧ lut.length ≤ 32))
    (hb1 : 2 ≤ palbits) (hb2 : palbits ≤ 9) (hv : ∀ v ∈ lut, v < 2 ^ palbits) :
    readPalette ⟨putPaletteHeader dirofs palbits lut ++ rest, pos⟩ =
      .ok ({ directOffset := dirofs, palsize := lut.length, palbits := palbits, palette := lut },
           ⟨rest, pos + 13 + lut.length * palbits⟩) := by
  unfold readPalette putPaletteHeader
  simp only [bind_eq, pure_eq, append_assoc]
  simp only [Rd.bind]
  rw [get_putBits 5 _ _ _ (by omega)]
  simp only []
  rw [get_putBits 5 _ _ _ (by omega)]
  simp only []
  rw [get_putBits 3 _ _ _ (by omega)]
  simp only []
  have hps : (if lut.length - 1 > 0 then lut.length - 1 + 1 else 0) = lut.length := by
    rcases hl with h | h
    · simp [h]
    · have : lut.length - 1 > 0 := by omega
      simp only [this, if_true]; omega
  have hpb : palbits - 2 + 2 = palbits := by omega
  rw [hps, hpb, getPalette_putEntries palbits lut rest _ hv]
  simp only [Rd.pure]

end VelaVerif.Mlw
