import VelaVerif.Model.NpuOpBuild
import VelaVerif.Lemmas.WeightLayout
/-! Helper lemmas for the scheduled-operation → `NpuOperation` model (`Model/NpuOpBuild.lean`). -/
namespace VelaVerif.NpuOpBuild
open VelaVerif.NpuOp

/-! ### quantisation selection does not look at the operands of the command -/

theorem useZeroPoint0_congr (c c' : StripeD) (hop : c'.op = c.op) (hps : c'.psOps = c.psOps) (dt : DT) (isIfm : Bool) :
    useZeroPoint0 c' dt isIfm = useZeroPoint0 c dt isIfm := by
  simp only [useZeroPoint0, hop, hps]

theorem getIfmQuant_congr (c c' : StripeD) (hop : c'.op = c.op) (hps : c'.psOps = c.psOps) (t : TensD) :
    getIfmQuant c' t = getIfmQuant c t := by
  simp only [getIfmQuant, hop, useZeroPoint0_congr c c' hop hps]

theorem swapOperands_spec (c0 c : StripeD) (h : swapOperands c0 = .ok c) :
    ∃ t2 b2 s1, c0.ifm2 = some t2 ∧ c0.ifm2Box = some b2 ∧ c0.ifmShape1 = some s1 ∧
      c = { c0 with ifm := t2, ifm2 := some c0.ifm, ifmBox := b2, ifm2Box := some c0.ifmBox, ifmShape0 := s1,
                    ifmShape1 := some c0.ifmShape0 } := by
  unfold swapOperands at h
  split at h
  · rename_i t2 b2 s1 h1 h2 h3
    injection h with h
    exact ⟨t2, b2, s1, h1, h2, h3, h.symm⟩
  · cases h

theorem withQuant_shape (fm : FM) (q : Option NpuQuant) (s : Shape3) :
    (let f := withQuant fm q; ({ f with fm := { f.fm with shape := s } } : FmB)) = withQuant { fm with shape := s } q := by
  cases q <;> rfl

/-! ### `ewOrder` -/

theorem ewOrder_spec (c0 c : StripeD) (rev : Bool) (h : ewOrder c0 = .ok (c, rev)) :
    ∃ t2 sh2, c0.ifm2 = some t2 ∧ ewIfm2Shape c0 t2 = .ok sh2 ∧
      ((c = c0 ∧ rev = c0.reversedOperands ∧ correctOrder (ewIfmShape c0) sh2 = true) ∨
       (c0.reversedOperands = false ∧ rev = true ∧ correctOrder (ewIfmShape c0) sh2 = false ∧ swapOperands c0 = .ok c)) := by
  unfold ewOrder at h
  split at h
  · cases h
  · rename_i t2 ht2
    split at h
    · cases h
    · rename_i sh2 hsh
      refine ⟨t2, sh2, ht2, hsh, ?_⟩
      by_cases hr : c0.reversedOperands = true
      · simp only [hr, ↓reduceIte] at h
        by_cases hc : correctOrder (ewIfmShape c0) sh2 = true
        · simp only [hc, ↓reduceIte] at h
          injection h with h; injection h with h1 h2
          exact Or.inl ⟨h1.symm, by rw [← h2, hr], hc⟩
        · have hc' : correctOrder (ewIfmShape c0) sh2 = false := by simpa using hc
          simp only [hc', Bool.false_eq_true, ↓reduceIte] at h; cases h
      · have hr' : c0.reversedOperands = false := by simpa using hr
        simp only [hr', Bool.false_eq_true, ↓reduceIte] at h
        by_cases hc : correctOrder (ewIfmShape c0) sh2 = true
        · simp only [hc, ↓reduceIte] at h
          injection h with h; injection h with h1 h2
          exact Or.inl ⟨h1.symm, by rw [← h2, hr'], hc⟩
        · have hc' : correctOrder (ewIfmShape c0) sh2 = false := by simpa using hc
          simp only [hc', Bool.false_eq_true, ↓reduceIte] at h
          split at h
          · rename_i c' hsw
            injection h with h; injection h with h1 h2
            subst h1
            exact Or.inr ⟨hr', h2.symm, hc', hsw⟩
          · cases h

/-! ### `ewIfm2` -/

theorem ewIfm2_spec (c : StripeD) (arch : ArchD) (f2 : FmB) (sc : Option Fl) (h : ewIfm2 c arch = .ok (f2, sc)) :
    ∃ t2 b2 s1 fm2, c.ifm2 = some t2 ∧ c.ifm2Box = some b2 ∧ c.ifmShape1 = some s1 ∧
      createFm t2 b2 arch s1 c.op.tileOffsIfm1 none false = .ok fm2 ∧
      f2 = withQuant { fm2 with shape := if t2.isScalar then ⟨0, 0, 0⟩ else blockOf b2 } (getIfmQuant c t2) ∧
      sc = (if t2.isScalar then t2.scalar else none) ∧ (t2.isScalar = true → sc.isSome = true) := by
  unfold ewIfm2 at h
  split at h
  · rename_i t2 b2 s1 h1 h2 h3
    split at h
    · cases h
    · rename_i fm2 hfm
      refine ⟨t2, b2, s1, fm2, h1, h2, h3, hfm, ?_⟩
      by_cases hs : t2.isScalar = true
      · simp only [hs, if_true] at h ⊢
        split at h
        · rename_i v hv
          injection h with h; injection h with h1 h2
          refine ⟨?_, ?_, ?_⟩
          · rw [← h1]; exact withQuant_shape fm2 _ _
          · rw [← h2, hv]
          · intro _; rw [← h2]; rfl
        · cases h
      · have hs' : t2.isScalar = false := by simpa using hs
        simp only [hs'] at h ⊢
        injection h with h; injection h with h1 h2
        refine ⟨?_, ?_, ?_⟩
        · rw [← h1]; exact withQuant_shape fm2 _ _
        · simp [← h2]
        · intro hh; cases hh
  · cases h
  · cases h
  · cases h

/-! ### `setCommon` for an elementwise operation -/

theorem elementwiseOpMap_blockType (t : OpT) (sub : Nat) (h : elementwiseOpMap t = some sub) :
    t.blockType = .elementWise := by
  cases t <;> simp [elementwiseOpMap] at h <;> rfl

theorem setCommon_ew (fo : FloatOps) (c : StripeD) (arch : ArchD) (b : BlockB)
    (hbt : c.op.type.blockType = .elementWise) (h : setCommon fo c arch .elementwise = .ok b) :
    commonIfm c arch = .ok b.ifm ∧ commonOfm c arch = .ok b.ofm ∧ b.ifm2 = none ∧ b.scalar = none ∧ b.reversed = false ∧
    b.padding = none ∧ b.kernel = none := by
  unfold setCommon at h
  split at h
  · cases h
  · rename_i ifmB hifm
    split at h
    · cases h
    · rename_i ofmB hofm
      split at h
      · cases h
      · rename_i ws bs hw
        split at h
        · cases h
        · rename_i act hact
          have hew : c.op.type.isElementwise = true := by simp [OpT.isElementwise, hbt]
          simp only [commonPadding, hew, if_true] at h
          split at h
          · cases h
          · injection h with h
            subst h
            exact ⟨hifm, hofm, rfl, rfl, rfl, rfl, rfl⟩

theorem commonIfm_spec (c : StripeD) (arch : ArchD) (f : FmB) (h : commonIfm c arch = .ok f) :
    ∃ fm0, createFm c.ifm c.ifmBox arch c.ifmShape0 c.op.tileOffsIfm0 none false = .ok fm0 ∧
      f = withQuant { fm0 with shape := ⟨(blockOf c.ifmBox).height, (blockOf c.ifmBox).width,
                                          getIfmDepth c.op.type.blockType c.ifmBox c.ofmBox⟩ } (getIfmQuant c c.ifm) := by
  unfold commonIfm at h
  split at h
  · cases h
  · rename_i fm0 hfm
    injection h with h
    exact ⟨fm0, hfm, h.symm⟩

/-! ### `create_weights` with a stand-alone scale tensor -/

open VelaVerif.WeightLayout (Range RangeNum findRange findRange_mem createWeightsLoop roundUp16 roundUp16_mod roundUp16_ge)

/-- the weight ranges do not depend on where the scales come from -/
theorem createWeightsLoop_forget_scale (rs : List Range) (srcAddr depth : Nat) (buffered : Option Nat)
    (st : Nat × List Range) : ∀ (cores : List Nat) (off0 : Nat) (ws bs : List WeightLayout.AddrRange),
    createWeightsLoop rs srcAddr buffered (some st) depth cores off0 = some (ws, bs) →
    ∃ bs', createWeightsLoop rs srcAddr buffered none depth cores off0 = some (ws, bs') ∧ bs'.length = bs.length := by
  intro cores
  induction cores with
  | nil =>
    intro off0 ws bs h
    simp only [createWeightsLoop] at h ⊢
    injection h with h; injection h with h1 h2; subst h1; subst h2
    exact ⟨[], rfl, rfl⟩
  | cons k ks ih =>
    intro off0 ws bs h
    simp only [createWeightsLoop] at h ⊢
    cases hf : findRange rs k depth with
    | none => rw [hf] at h; simp only; exact ih off0 ws bs h
    | some r =>
      rw [hf] at h
      simp only at h ⊢
      split at h
      · rename_i b ws' bs' hb hrest
        injection h with h; injection h with h1 h2; subst h1; subst h2
        obtain ⟨bs'', hrest', hlen⟩ := ih _ ws' bs' hrest
        rw [hrest']
        exact ⟨_, rfl, by simp [hlen]⟩
      · cases h

/-- **Stand-alone scale tensor**: every scale range is the recorded scale section of the *scale tensor's own* range with
    the requested key, at the scale tensor's address, inside the scale tensor, 16-byte aligned -/
theorem createWeightsLoop_scaleTensor (rs srs : List Range) (Ls srcAddr depth sa : Nat) (buffered : Option Nat)
    (hnum : ∀ r ∈ srs, RangeNum Ls r) (hsa : sa % 16 = 0) (hLs : Ls % 16 = 0) :
    ∀ (cores : List Nat) (off0 : Nat) (ws bs : List WeightLayout.AddrRange),
    createWeightsLoop rs srcAddr buffered (some (sa, srs)) depth cores off0 = some (ws, bs) →
    ∀ a ∈ bs, a.address % 16 = 0 ∧ a.length % 16 = 0 ∧ sa ≤ a.address ∧ a.address + a.length ≤ sa + Ls ∧
      ∃ sr ∈ srs, sr.depth = depth ∧ a = ⟨sa + sr.offset, roundUp16 sr.scaleBytes⟩ := by
  intro cores
  induction cores with
  | nil =>
    intro off0 ws bs h
    simp only [createWeightsLoop] at h
    injection h with h; injection h with h1 h2; subst h1; subst h2
    simp
  | cons k ks ih =>
    intro off0 ws bs h
    simp only [createWeightsLoop] at h
    cases hf : findRange rs k depth with
    | none => rw [hf] at h; exact ih off0 ws bs h
    | some r =>
      rw [hf] at h
      simp only at h
      split at h
      · rename_i b ws' bs' hb hrest
        injection h with h; injection h with h1 h2; subst h1; subst h2
        intro a ha
        simp only [List.mem_cons] at ha
        rcases ha with rfl | ha
        · cases hfs : findRange srs k depth with
          | none => rw [hfs] at hb; simp at hb
          | some sr =>
            rw [hfs] at hb
            simp only [Option.map_some, Option.some.injEq] at hb
            subst hb
            obtain ⟨hsr, _, hd⟩ := findRange_mem srs k depth sr hfs
            have hn := hnum sr hsr
            have hstop := hn.inside
            unfold Range.stop at hstop
            have h1 := roundUp16_mod sr.scaleBytes
            have h2 := roundUp16_ge sr.scaleBytes
            have h3 := hn.offAligned
            refine ⟨by simp only; omega, h1, by simp only; omega, ?_, sr, hsr, hd, rfl⟩
            simp only
            rcases hn.wo with hw | ⟨hw, hw2⟩
            · omega
            · unfold roundUp16 at *; omega
        · exact ih _ ws' bs' hrest a ha
      · cases h

/-! ### `createWeights` / `createDmaOp` of this model in terms of `Model/WeightLayout.lean` -/

theorem createWeights_spec (w : WTensD) (depth : Nat) (sc : Option STensD) (arch : ArchD) (ws bs : List AddrRange)
    (h : createWeights w depth sc arch = .ok (ws, bs)) :
    ∃ shared sreg ws' bs', getRegion w.memType arch = .ok shared ∧ scaleRegionOf sc arch = .ok sreg ∧
      WeightLayout.createWeights arch.ncores w.ranges w.address (if w.buffered then some w.address else none)
        (sc.map fun s => (s.address, s.ranges)) depth = some (ws', bs') ∧
      ws = ws'.map (toRange shared) ∧ bs = bs'.map (toRange (if sc.isSome then sreg else shared)) := by
  unfold createWeights at h
  split at h
  · cases h
  · rename_i shared hsh
    split at h
    · cases h
    · rename_i sreg hsr
      split at h
      · cases h
      · split at h
        · cases h
        · rename_i ws' bs' hw
          injection h with h; injection h with h1 h2
          exact ⟨shared, sreg, ws', bs', hsh, hsr, hw, h1.symm, h2.symm⟩

theorem createDmaOp_weights_spec (d : DmaD) (arch : ArchD) (s t : AddrRange) (hp : d.src.purpose = .weights)
    (h : createDmaOp d arch = .ok (s, t)) :
    ∃ srcRegion dstRegion depth s' t', getRegion d.src.memType arch = .ok srcRegion ∧ dmaDstRegion d arch = .ok dstRegion ∧
      d.box.start.getLast? = some depth ∧
      WeightLayout.createDmaOp arch.ncores d.src.ranges d.src.address d.dst.address depth = some (s', t') ∧
      s = toRange srcRegion s' ∧ t = toRange dstRegion t' := by
  unfold createDmaOp at h
  split at h
  · cases h
  · rename_i srcRegion hs
    split at h
    · cases h
    · rename_i dstRegion hd
      simp only [hp, beq_self_eq_true, ↓reduceIte] at h
      split at h
      · cases h
      · rename_i depth hdep
        split at h
        · cases h
        · rename_i s' t' hdma
          injection h with h; injection h with h1 h2
          exact ⟨srcRegion, dstRegion, depth, s', t', hs, hd, hdep, hdma, h1.symm, h2.symm⟩

/-! ### clamp bounds -/

/-- the real-valued bound `v` in the quantisation (scale `s`, zero point `z`): `z + round_away(float32(v) / float32(s))`
    — TensorFlow Lite's `CalculateActivationRangeQuantized` applies exactly this to each bound -/
def specBound (fo : FloatOps) (s : Option Fl) (z : Int) (v : Fl) : Option Int := (fo.qdiv v (s.getD fo.one)).map (z + ·)

/-- multiplying the integer `q` by the scale and quantising with the same scale returns `q` -/
def RoundTrip (fo : FloatOps) (s : Fl) (ik : Nat) (q : Int) : Prop := fo.qdiv (fo.mulInt s ik q) s = some q

theorem quantiseOpt_eq (fo : FloatOps) (v : Option Fl) (s : Option Fl) (zp : Int) (r : Option Int)
    (h : quantiseOpt fo v true s zp = .ok r) : r = v.bind (specBound fo s zp) := by
  unfold quantiseOpt at h
  cases v with
  | none => injection h with h; simp [← h]
  | some x =>
    simp only [quantise, ↓reduceIte, quantiseF32] at h
    simp only [Option.bind_some, specBound]
    cases hq : fo.qdiv x (s.getD fo.one) with
    | none => simp [hq] at h
    | some k => simp only [hq] at h; injection h with h; simp [← h]

theorem quantiseOpt_ok_of (fo : FloatOps) (v : Option Fl) (s : Option Fl) (zp : Int)
    (h : ∀ x, v = some x → ∃ k, fo.qdiv x (s.getD fo.one) = some k) :
    quantiseOpt fo v true s zp = .ok (v.bind (specBound fo s zp)) := by
  unfold quantiseOpt
  cases v with
  | none => rfl
  | some x =>
    obtain ⟨k, hk⟩ := h x rfl
    simp [quantise, quantiseF32, hk, specBound]

/-- `preAddBound` followed by quantisation with zero point 0 gives the bound of the tensor's own quantisation -/
theorem preAdd_quantise (fo : FloatOps) (s : Option Fl) (zk : Nat) (z : Int) (v w : Option Fl) (r : Option Int)
    (hpre : preAddBound fo (s.getD fo.one) zk z v = .ok w)
    (hrt : ∀ x k, v = some x → fo.qdiv x (s.getD fo.one) = some k → RoundTrip fo (s.getD fo.one) zk (z + k))
    (h : quantiseOpt fo w true s 0 = .ok r) : r = v.bind (specBound fo s z) := by
  unfold preAddBound at hpre
  cases v with
  | none => injection hpre with hpre; subst hpre; simpa using quantiseOpt_eq fo none s 0 r h
  | some x =>
    simp only [quantiseF32] at hpre
    cases hq : fo.qdiv x (s.getD fo.one) with
    | none => simp [hq] at hpre
    | some k =>
      simp only [hq] at hpre
      injection hpre with hpre; subst hpre
      have := quantiseOpt_eq fo _ s 0 r h
      rw [this]
      simp only [Option.bind_some, specBound, hq, Option.map_some]
      have hr := hrt x k rfl hq
      unfold RoundTrip at hr
      simp [hr]

/-! ### `setCommon`: activation and OFM -/

theorem commonOfm_spec (c : StripeD) (arch : ArchD) (f : FmB) (h : commonOfm c arch = .ok f) :
    ∃ fm0 : FM, f = withQuant { fm0 with shape := blockOf c.ofmBox } (getOfmQuant c c.ofm) := by
  unfold commonOfm at h
  split at h
  · cases h
  · rename_i fm0 _
    injection h with h
    exact ⟨fm0, h.symm⟩

theorem setCommon_act_ofm (fo : FloatOps) (c : StripeD) (arch : ArchD) (kind : Kind) (b : BlockB)
    (h : setCommon fo c arch kind = .ok b) :
    commonOfm c arch = .ok b.ofm ∧ createNpuActivation fo c.op (useZeroPoint0 c c.ofm.dtype false) = .ok b.act := by
  unfold setCommon at h
  split at h
  · cases h
  · split at h
    · cases h
    · rename_i ofmB hofm
      split at h
      · cases h
      · split at h
        · cases h
        · rename_i act hact
          split at h
          · cases h
          · split at h
            · cases h
            · injection h with h
              subst h
              exact ⟨hofm, hact⟩

/-! ### vocabulary of the property statements (`Props/C06Build.lean`) -/

/-- an operand as the command carries it: tensor, box, operator-level 4-D shape -/
structure Operand where
  t : TensD
  box : BoxD
  shape : TensorAddr.S4

/-- `None` for a scalar tensor (what `ifm_ifm2_correct_order` is called with) -/
def Operand.opShape (o : Operand) : Option TensorAddr.S4 := if o.t.isScalar then none else some o.shape

/-- first and second operand (A, B) of the *source operator*: the scheduler hands them to the command exchanged exactly
    when it sets `reversed_operands` -/
def sourceOperands (c0 : StripeD) : Option (Operand × Operand) :=
  match c0.ifm2, c0.ifm2Box, c0.ifmShape1 with
  | some t2, some b2, some s1 =>
    let p : Operand := ⟨c0.ifm, c0.ifmBox, c0.ifmShape0⟩
    let q : Operand := ⟨t2, b2, s1⟩
    some (if c0.reversedOperands then (q, p) else (p, q))
  | _, _, _ => none

/-- `f` is the feature map `create_feature_map` builds for operand `o` (with the tile offsets `offs` of the role), given
    the extent `shape`, carrying `o`'s own quantisation — scale *and* zero point as `get_ifm_or_ifm2_quantization`
    selects them for `o`'s tensor -/
def Carries (c0 : StripeD) (arch : ArchD) (offs : List Nat) (o : Operand) (shape : Shape3) (f : FmB) : Prop :=
  ∃ fm0, createFm o.t o.box arch o.shape offs none false = .ok fm0 ∧
    f = withQuant { fm0 with shape := shape } (getIfmQuant c0 o.t)

open VelaVerif.WeightLayout (RangeNum) in
/-- a range of the operation is the section `(off, len)` at `base`, in region `region`, aligned, inside `[base, base + L)` -/
def IsSection (a : AddrRange) (region : Int) (base L off len : Nat) : Prop :=
  a = ⟨region, ((base + off : Nat) : Int), (len : Nat)⟩ ∧ (base + off) % 16 = 0 ∧ len % 16 = 0 ∧ off + len ≤ L


end VelaVerif.NpuOpBuild
