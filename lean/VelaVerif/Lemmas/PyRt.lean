import Lean
import VelaVerif.Model.PyRt
/-!
# Rewrite rules for symbolic execution of translated definitions (`Gen/Src*.lean`)

Every operator of `Model/PyRt.lean` applied to operands in constructor form `⟨tag, value⟩` rewrites to
its result in constructor form (possibly under an `if` on a range condition).  Together with the
monad laws and `bind_ite` they let `simp` *run* a translated function on symbolic values of known
tags; what remains are `if`s over linear integer conditions, which `split` / `omega` finish.

The tactic `py_exec [defs]` packages the rule set; `py_side` is its side-condition discharger.
-/
namespace VelaVerif.PyRt

/-! ### agreement of a translated function's outcome with a hand model's outcome -/

/-- `s` (translated source, tagged result) and `m` (hand model over `Int` with its own error type) have
    the same outcome: equal values, or both fail with error kinds related by `rel`. -/
def Agrees {ε : Type} (rel : Err → ε → Prop) (s : M Num) (m : Except ε Int) : Prop :=
  match s, m with
  | .ok n, .ok v => n.v = v
  | .error e, .error f => rel e f
  | _, _ => False

theorem agrees_ok {ε : Type} (rel : Err → ε → Prop) (t : Ty) (x y : Int) :
    Agrees rel (.ok ⟨t, x⟩) (.ok y) = (x = y) := rfl
theorem agrees_err {ε : Type} (rel : Err → ε → Prop) (e : Err) (f : ε) :
    Agrees rel (.error e) (.error f) = rel e f := rfl
theorem agrees_ok_err {ε : Type} (rel : Err → ε → Prop) (n : Num) (f : ε) :
    Agrees rel (.ok n) (.error f) = False := rfl
theorem agrees_err_ok {ε : Type} (rel : Err → ε → Prop) (e : Err) (y : Int) :
    Agrees rel (.error e) (.ok y) = False := rfl

/-- the tags that values take in code whose entry arguments are Python ints and that uses `np.int32` /
    `np.int64` internally (`fp_math.py`) -/
@[reducible] def T3 (t : Ty) : Prop := t = .py ∨ t = .i32 ∨ t = .i64

/-- error of `assert np.intN(a) == a` for an operand that does not fit: NumPy raises `OverflowError`
    for a Python int; for a wider NumPy scalar the cast wraps, the comparison fails: `AssertionError` -/
def castErr (t : Ty) : Err := if t = .py then .overflow else .assert_
theorem castErr_py : castErr .py = .overflow := rfl
theorem castErr_i32 : castErr .i32 = .assert_ := rfl
theorem castErr_i64 : castErr .i64 = .assert_ := rfl

/-- `Agrees` plus the tag of the result: what callers of a translated function need to continue the
    symbolic execution with the callee's result -/
def SimT {ε : Type} (rel : Err → ε → Prop) (tag : Ty) (s : M Num) (m : Except ε Int) : Prop :=
  match s, m with
  | .ok n, .ok v => n = ⟨tag, v⟩
  | .error e, .error f => rel e f
  | _, _ => False

theorem simT_ok {ε : Type} (rel : Err → ε → Prop) (tag t : Ty) (x y : Int) :
    SimT rel tag (.ok ⟨t, x⟩) (.ok y) = (t = tag ∧ x = y) := by
  simp only [SimT, Num.mk.injEq]
theorem simT_err {ε : Type} (rel : Err → ε → Prop) (tag : Ty) (e : Err) (f : ε) :
    SimT rel tag (.error e) (.error f) = rel e f := rfl
theorem simT_ok_err {ε : Type} (rel : Err → ε → Prop) (tag : Ty) (n : Num) (f : ε) :
    SimT rel tag (.ok n) (.error f) = False := rfl
theorem simT_err_ok {ε : Type} (rel : Err → ε → Prop) (tag : Ty) (e : Err) (y : Int) :
    SimT rel tag (.error e) (.ok y) = False := rfl

theorem SimT.agrees {ε : Type} {rel : Err → ε → Prop} {tag : Ty} {s : M Num} {m : Except ε Int}
    (h : SimT rel tag s m) : Agrees rel s m := by
  cases s <;> cases m <;> simp only [SimT, Agrees] at h ⊢
  · exact h
  · rw [h]

/-- case analysis on a callee's model outcome: either both fail (related errors) or both succeed -/
theorem SimT.cases {ε : Type} {rel : Err → ε → Prop} {tag : Ty} {s : M Num} {m : Except ε Int}
    (h : SimT rel tag s m) :
    (∃ e f, s = .error e ∧ m = .error f ∧ rel e f) ∨ (∃ v, s = .ok ⟨tag, v⟩ ∧ m = .ok v) := by
  cases s <;> cases m <;> simp only [SimT] at h
  · exact Or.inl ⟨_, _, rfl, rfl, h⟩
  · exact Or.inr ⟨_, by rw [h], rfl⟩

/-- a hand-model outcome as an outcome of the translated source: the value gets the tag `tag`, any
    model error becomes `err` -/
def Lift {ε : Type} (tag : Ty) (err : Err) (m : Except ε Int) : M Num :=
  match m with
  | .ok v => .ok ⟨tag, v⟩
  | .error _ => .error err
theorem lift_ok {ε : Type} (tag : Ty) (err : Err) (v : Int) : Lift tag err (.ok v : Except ε Int) = .ok ⟨tag, v⟩ := rfl
theorem lift_err {ε : Type} (tag : Ty) (err : Err) (f : ε) : Lift tag err (.error f : Except ε Int) = .error err := rfl
/-- `s = Lift tag err m` as a relation (so that `py_exec` evaluates `s` and `m` side by side and
    `py_finish` splits their common conditions, instead of pushing `Lift` through the tree of `m`) -/
def LiftRel {ε : Type} (tag : Ty) (err : Err) (s : M Num) (m : Except ε Int) : Prop := s = Lift tag err m
theorem liftRel_ok {ε : Type} (tag : Ty) (err : Err) (s : M Num) (v : Int) :
    LiftRel tag err s (.ok v : Except ε Int) = (s = .ok ⟨tag, v⟩) := rfl
theorem liftRel_err {ε : Type} (tag : Ty) (err : Err) (s : M Num) (f : ε) :
    LiftRel tag err s (.error f : Except ε Int) = (s = .error err) := rfl
theorem lift_ite {ε : Type} (tag : Ty) (err : Err) (c : Prop) [Decidable c] (x y : Except ε Int) :
    Lift tag err (if c then x else y) = if c then Lift tag err x else Lift tag err y := by split <;> rfl

/-! ### monad -/
theorem ebind_ok {ε α β} (a : α) (f : α → Except ε β) : (Except.ok a >>= f) = f a := rfl
theorem ebind_err {ε α β} (e : ε) (f : α → Except ε β) : ((Except.error e : Except ε α) >>= f) = Except.error e := rfl
theorem epure_eq {ε α} (a : α) : (pure a : Except ε α) = Except.ok a := rfl
theorem ebind_ite {ε α β} (c : Prop) [Decidable c] (x y : Except ε α) (f : α → Except ε β) :
    ((if c then x else y) >>= f) = if c then x >>= f else y >>= f := by split <;> rfl
theorem ethrow_eq {ε α} (e : ε) : (throw e : Except ε α) = Except.error e := rfl

theorem ebind_congr {ε α β} {x x' : Except ε α} (f : α → Except ε β) (h : x = x') : (x >>= f) = (x' >>= f) := by rw [h]

theorem ebind_ite_congr {ε α β} (c : Prop) [Decidable c] (A B : Except ε α) (f : α → Except ε β)
    (eA eB : Except ε β) (hA : c → (A >>= f) = eA) (hB : ¬ c → (B >>= f) = eB) :
    ((if c then A else B) >>= f) = if c then eA else eB := by
  by_cases h : c
  · rw [if_pos h, if_pos h]; exact hA h
  · rw [if_neg h, if_neg h]; exact hB h

open Lean Meta Simp in
/-- `x >>= f` for an `x` that is already simplified: substitute the value and simplify the
    continuation (`ok`), stop (`error`), or do both branches of an `if` separately (under the
    hypothesis of the branch, each branch of `x` is *not* traversed again).  Returns the result and a
    proof of `x >>= f = result`. -/
partial def bindGo (x f : Expr) : SimpM (Expr × Expr) := do
  if x.isAppOfArity ``Except.ok 3 then
    let v := x.appArg!
    let pf ← mkAppM ``ebind_ok #[v, f]
    let r ← Simp.simp (mkApp f v).headBeta
    match r.proof? with
    | none => return (r.expr, pf)
    | some p => return (r.expr, ← mkEqTrans pf p)
  if x.isAppOfArity ``Except.error 3 then
    let pf ← mkAppM ``ebind_err #[x.appArg!, f]
    let some (_, _, rhs) := (← inferType pf).eq? | throwError "bindGo: unexpected type"
    return (rhs, pf)
  if x.isAppOfArity ``ite 5 then
    let args := x.getAppArgs
    let c := args[1]!
    let (eA, pA) ← withLocalDeclD `h c fun h => Simp.withFreshCache do
      let (e, p) ← bindGo args[3]! f
      return (e, ← mkLambdaFVars #[h] p)
    let (eB, pB) ← withLocalDeclD `h (mkNot c) fun h => Simp.withFreshCache do
      let (e, p) ← bindGo args[4]! f
      return (e, ← mkLambdaFVars #[h] p)
    let pf ← withDefault <| mkAppOptM ``ebind_ite_congr
      #[none, none, none, c, args[2]!, args[3]!, args[4]!, f, eA, eB, pA, pB]
    let some (_, _, rhs) := (← inferType pf).eq? | throwError "bindGo: unexpected type"
    return (rhs, pf)
  -- stuck: the value is not known, keep the continuation unevaluated
  let e ← mkAppM ``Bind.bind #[x, f]
  return (e, ← mkEqRefl e)

open Lean Meta Simp in
/-- Pre-simproc for `x >>= f` in `Except`: evaluate `x` first and only then enter the continuation
    (with the value substituted).  Keeps `simp` out of continuations whose argument is not known yet,
    so that symbolic execution runs front to back and visits every statement once per path. -/
simproc_decl bindStep (Bind.bind _ _) := fun e => do
  let_expr Bind.bind m _ _ _ x f := e | return .continue
  let m ← whnfR m
  unless m.isAppOfArity ``Except 1 do return .continue
  let r ← Simp.simp x
  let (rhs, pf) ← bindGo r.expr f
  match r.proof? with
  | none => return .done { expr := rhs, proof? := some pf }
  | some h =>
    let c ← mkAppM ``ebind_congr #[f, h]
    return .done { expr := rhs, proof? := some (← mkEqTrans c pf) }

theorem bind_ok {α β} (a : α) (f : α → M β) : (Except.ok a >>= f) = f a := rfl
theorem bind_err {α β} (e : Err) (f : α → M β) : ((Except.error e : M α) >>= f) = Except.error e := rfl
theorem pure_eq {α} (a : α) : (pure a : M α) = Except.ok a := rfl
theorem bind_ite {α β} (c : Prop) [Decidable c] (x y : M α) (f : α → M β) :
    ((if c then x else y) >>= f) = if c then x >>= f else y >>= f := by split <;> rfl

theorem bool_eq_false (b : Bool) : (b = false) = ¬ (b = true) := by cases b <;> simp

theorem pyAssert_true : pyAssert true = .ok () := rfl
theorem pyAssert_false : pyAssert false = .error .assert_ := rfl
theorem pyAssert_eq (b : Bool) : pyAssert b = if b = true then .ok () else .error .assert_ := by
  cases b <;> rfl
theorem pyAssert_decide (p : Prop) [Decidable p] :
    pyAssert (decide p) = if p then .ok () else .error .assert_ := by
  by_cases h : p <;> simp [pyAssert, h]

/-! ### tags -/

/-- the int32 wrap as a function of its own: used by specification lemmas to *annotate* a value with
    its range (`W32 v = v` for a `v` that fits, proved once in the lemma) in a form that `omega`
    understands after unfolding and that no rewrite rule of `py_exec` touches -/
def W32 (v : Int) : Int := (v + 2147483648) % 4294967296 - 2147483648
theorem W32_id (v : Int) (h : Ty.fits .i32 v) : W32 v = v := by
  simp only [Ty.fits] at h; unfold W32; omega
theorem W32_eq_wrap (v : Int) : W32 v = wrap .i32 v := rfl

theorem wrap_py (v : Int) : wrap .py v = v := rfl

theorem wrap_id (t : Ty) (v : Int) (h : t.fits v) : wrap t v = v := by
  cases t <;> simp only [Ty.fits] at h <;> simp only [wrap] <;> omega

theorem wrap_i8 (v : Int) (h : -128 ≤ v ∧ v ≤ 127) : wrap .i8 v = v := wrap_id .i8 v h
theorem wrap_i16 (v : Int) (h : -32768 ≤ v ∧ v ≤ 32767) : wrap .i16 v = v := wrap_id .i16 v h
theorem wrap_i32 (v : Int) (h : -2147483648 ≤ v ∧ v ≤ 2147483647) : wrap .i32 v = v := wrap_id .i32 v h
theorem wrap_i64 (v : Int) (h : -9223372036854775808 ≤ v ∧ v ≤ 9223372036854775807) : wrap .i64 v = v :=
  wrap_id .i64 v h
theorem wrap_u8 (v : Int) (h : 0 ≤ v ∧ v ≤ 255) : wrap .u8 v = v := wrap_id .u8 v h
theorem wrap_u16 (v : Int) (h : 0 ≤ v ∧ v ≤ 65535) : wrap .u16 v = v := wrap_id .u16 v h
theorem wrap_u32 (v : Int) (h : 0 ≤ v ∧ v ≤ 4294967295) : wrap .u32 v = v := wrap_id .u32 v h

theorem fits_eq_true (t : Ty) (v : Int) (h : t.fits v) : t.fits v = True := eq_true h
theorem fits_eq_false (t : Ty) (v : Int) (h : ¬ t.fits v) : t.fits v = False := eq_false h

theorem wrap_ne_self (t : Ty) (v : Int) (ht : t ≠ .py) (h : ¬ t.fits v) : wrap t v ≠ v := by
  cases t <;> first | exact absurd rfl ht | (simp only [Ty.fits] at h; simp only [wrap]; omega)

theorem wrap_eq_self (t : Ty) (v : Int) (ht : t ≠ .py) : (wrap t v = v) = t.fits v := by
  apply propext
  constructor
  · intro h
    by_cases hf : t.fits v
    · exact hf
    · exact absurd h (wrap_ne_self t v ht hf)
  · exact wrap_id t v

theorem wrap_fits (t : Ty) (v : Int) : t.fits (wrap t v) := by
  cases t <;> simp only [Ty.fits, wrap] <;> omega

theorem coerce2_py_py (x y : Int) : coerce2 ⟨.py, x⟩ ⟨.py, y⟩ = .ok (.py, x, y) := rfl
theorem coerce2_py_np (t : Ty) (x y : Int) (ht : t ≠ .py) :
    coerce2 ⟨.py, x⟩ ⟨t, y⟩ = if t.fits x then .ok (t, x, y) else .error .overflow := by
  cases t <;> first | exact absurd rfl ht | rfl
theorem coerce2_np_py (t : Ty) (x y : Int) (ht : t ≠ .py) :
    coerce2 ⟨t, x⟩ ⟨.py, y⟩ = if t.fits y then .ok (t, x, y) else .error .overflow := by
  cases t <;> first | exact absurd rfl ht | rfl
theorem coerce2_np_np (s t : Ty) (x y : Int) (hs : s ≠ .py) (ht : t ≠ .py) :
    coerce2 ⟨s, x⟩ ⟨t, y⟩ = .ok (promote s t, x, y) := by
  cases s <;> cases t <;> first | exact absurd rfl hs | exact absurd rfl ht | rfl

/-! ### operators on constructor-form operands -/
theorem add_mk (s t : Ty) (x y : Int) : Num.add ⟨s, x⟩ ⟨t, y⟩ = coerce2 ⟨s, x⟩ ⟨t, y⟩ >>= fun r => .ok ⟨r.1, wrap r.1 (r.2.1 + r.2.2)⟩ := rfl
theorem sub_mk (s t : Ty) (x y : Int) : Num.sub ⟨s, x⟩ ⟨t, y⟩ = coerce2 ⟨s, x⟩ ⟨t, y⟩ >>= fun r => .ok ⟨r.1, wrap r.1 (r.2.1 - r.2.2)⟩ := rfl
theorem mul_mk (s t : Ty) (x y : Int) : Num.mul ⟨s, x⟩ ⟨t, y⟩ = coerce2 ⟨s, x⟩ ⟨t, y⟩ >>= fun r => .ok ⟨r.1, wrap r.1 (r.2.1 * r.2.2)⟩ := rfl
theorem and_mk (s t : Ty) (x y : Int) : Num.and ⟨s, x⟩ ⟨t, y⟩ = coerce2 ⟨s, x⟩ ⟨t, y⟩ >>= fun r => .ok ⟨r.1, wrap r.1 (iand r.2.1 r.2.2)⟩ := rfl
theorem or_mk (s t : Ty) (x y : Int) : Num.or ⟨s, x⟩ ⟨t, y⟩ = coerce2 ⟨s, x⟩ ⟨t, y⟩ >>= fun r => .ok ⟨r.1, wrap r.1 (ior r.2.1 r.2.2)⟩ := rfl
theorem xor_mk (s t : Ty) (x y : Int) : Num.xor ⟨s, x⟩ ⟨t, y⟩ = coerce2 ⟨s, x⟩ ⟨t, y⟩ >>= fun r => .ok ⟨r.1, wrap r.1 (ixor r.2.1 r.2.2)⟩ := rfl
theorem floordiv_mk (s t : Ty) (x y : Int) : Num.floordiv ⟨s, x⟩ ⟨t, y⟩ = coerce2 ⟨s, x⟩ ⟨t, y⟩ >>= fun r =>
    if r.2.2 = 0 then (if r.1 = .py then .error .zerodiv else .ok ⟨r.1, 0⟩)
    else .ok ⟨r.1, wrap r.1 (Int.fdiv r.2.1 r.2.2)⟩ := rfl
theorem mod_mk (s t : Ty) (x y : Int) : Num.mod ⟨s, x⟩ ⟨t, y⟩ = coerce2 ⟨s, x⟩ ⟨t, y⟩ >>= fun r =>
    if r.2.2 = 0 then (if r.1 = .py then .error .zerodiv else .ok ⟨r.1, 0⟩)
    else .ok ⟨r.1, wrap r.1 (Int.fmod r.2.1 r.2.2)⟩ := rfl
theorem shl_mk (s t : Ty) (x y : Int) : Num.shl ⟨s, x⟩ ⟨t, y⟩ = coerce2 ⟨s, x⟩ ⟨t, y⟩ >>= fun r =>
    if r.1 = .py then (if r.2.2 < 0 then .error .value else .ok ⟨r.1, r.2.1 * 2 ^ r.2.2.toNat⟩)
    else if 0 ≤ r.2.2 ∧ r.2.2 < r.1.bits then .ok ⟨r.1, wrap r.1 (r.2.1 * 2 ^ r.2.2.toNat)⟩
    else .ok ⟨r.1, 0⟩ := rfl
theorem shr_mk (s t : Ty) (x y : Int) : Num.shr ⟨s, x⟩ ⟨t, y⟩ = coerce2 ⟨s, x⟩ ⟨t, y⟩ >>= fun r =>
    if r.1 = .py then (if r.2.2 < 0 then .error .value else .ok ⟨r.1, r.2.1 / 2 ^ r.2.2.toNat⟩)
    else if 0 ≤ r.2.2 ∧ r.2.2 < r.1.bits then .ok ⟨r.1, r.2.1 / 2 ^ r.2.2.toNat⟩
    else .ok ⟨r.1, if r.2.1 < 0 then -1 else 0⟩ := by
  simp only [Num.shr, Int.shiftRight_eq_div_pow]
  rfl
theorem pow_mk (s t : Ty) (x y : Int) : Num.pow ⟨s, x⟩ ⟨t, y⟩ = coerce2 ⟨s, x⟩ ⟨t, y⟩ >>= fun r =>
    if r.2.2 < 0 then (if r.1 = .py then .error .unsupported else .error .value)
    else .ok ⟨r.1, wrap r.1 (r.2.1 ^ r.2.2.toNat)⟩ := rfl

theorem neg_mk (t : Ty) (x : Int) : Num.neg ⟨t, x⟩ = .ok ⟨t, wrap t (-x)⟩ := rfl
theorem pos_mk (t : Ty) (x : Int) : Num.pos ⟨t, x⟩ = .ok ⟨t, x⟩ := rfl
theorem invert_mk (t : Ty) (x : Int) : Num.invert ⟨t, x⟩ = .ok ⟨t, wrap t (-x - 1)⟩ := rfl
theorem abs_mk (t : Ty) (x : Int) : Num.abs ⟨t, x⟩ = .ok ⟨t, wrap t (if x < 0 then -x else x)⟩ := rfl
theorem int_mk (t : Ty) (x : Int) : Num.int ⟨t, x⟩ = .ok ⟨.py, x⟩ := rfl

theorem lt_mk (s t : Ty) (x y : Int) : Num.lt ⟨s, x⟩ ⟨t, y⟩ = decide (x < y) := rfl
theorem le_mk (s t : Ty) (x y : Int) : Num.le ⟨s, x⟩ ⟨t, y⟩ = decide (x ≤ y) := rfl
theorem gt_mk (s t : Ty) (x y : Int) : Num.gt ⟨s, x⟩ ⟨t, y⟩ = decide (x > y) := rfl
theorem ge_mk (s t : Ty) (x y : Int) : Num.ge ⟨s, x⟩ ⟨t, y⟩ = decide (x ≥ y) := rfl
theorem eq_mk (s t : Ty) (x y : Int) : Num.eq ⟨s, x⟩ ⟨t, y⟩ = decide (x = y) := rfl
theorem ne_mk (s t : Ty) (x y : Int) : Num.ne ⟨s, x⟩ ⟨t, y⟩ = decide (x ≠ y) := rfl
theorem truthy_mk (t : Ty) (x : Int) : Num.truthy ⟨t, x⟩ = decide (x ≠ 0) := rfl
theorem min_mk (s t : Ty) (x y : Int) : Num.min ⟨s, x⟩ ⟨t, y⟩ = if y < x then .ok ⟨t, y⟩ else .ok ⟨s, x⟩ := rfl
theorem max_mk (s t : Ty) (x y : Int) : Num.max ⟨s, x⟩ ⟨t, y⟩ = if y > x then .ok ⟨t, y⟩ else .ok ⟨s, x⟩ := rfl

/-- operands of the same tag: no case split needed -/
theorem min_same (t : Ty) (x y : Int) : Num.min ⟨t, x⟩ ⟨t, y⟩ = .ok ⟨t, min x y⟩ := by
  unfold Num.min; simp only; split <;> (congr 2; omega)
theorem max_same (t : Ty) (x y : Int) : Num.max ⟨t, x⟩ ⟨t, y⟩ = .ok ⟨t, max x y⟩ := by
  unfold Num.max; simp only; split <;> (congr 2; omega)

theorem pyLen_eq {α : Type} (l : List α) : pyLen l = ⟨.py, (l.length : Int)⟩ := rfl

theorem cast_py (t : Ty) (x : Int) :
    Num.cast t ⟨.py, x⟩ = if t.fits x then .ok ⟨t, x⟩ else .error .overflow := rfl
theorem cast_np (t s : Ty) (x : Int) (hs : s ≠ .py) : Num.cast t ⟨s, x⟩ = .ok ⟨t, wrap t x⟩ := by
  cases s <;> first | exact absurd rfl hs | rfl

/-! ### Python floor division / modulo in terms of `Int` `/` and `%` (which `omega` understands) -/
theorem fdiv_pos (x y : Int) (hy : 0 < y) : Int.fdiv x y = x / y :=
  Int.fdiv_eq_ediv_of_nonneg x (Int.le_of_lt hy)
theorem fmod_pos (x y : Int) (hy : 0 < y) : Int.fmod x y = x % y :=
  Int.fmod_eq_emod_of_nonneg x (Int.le_of_lt hy)

/-! ### bitwise operations on two's-complement integers -/


theorem natLdiff_testBit (m n i : Nat) : (natLdiff m n).testBit i = (m.testBit i && !n.testBit i) := by
  unfold natLdiff; rw [Nat.testBit_bitwise (by rfl)]

theorem natLdiff_mask (n m : Nat) : natLdiff (2 ^ n - 1) m = 2 ^ n - 1 - m % 2 ^ n := by
  apply Nat.eq_of_testBit_eq
  intro i
  have hlt : m % 2 ^ n < 2 ^ n := Nat.mod_lt _ (Nat.two_pow_pos n)
  have : 2 ^ n - 1 - m % 2 ^ n = 2 ^ n - (m % 2 ^ n + 1) := by omega
  rw [this, Nat.testBit_two_pow_sub_succ hlt, natLdiff_testBit, Nat.testBit_two_pow_sub_one, Nat.testBit_mod_two_pow]
  cases decide (i < n) <;> simp

theorem cast_two_pow (n : Nat) : ((2 ^ n : Nat) : Int) = (2 : Int) ^ n := by push_cast; rfl

/-- `x & (2^n - 1) = x mod 2^n` for every (also negative) integer -/
theorem iand_mask (x : Int) (n : Nat) : iand x (2 ^ n - 1) = x % 2 ^ n := by
  have h2 := cast_two_pow n
  have hpos := Nat.two_pow_pos n
  have hp : (2 : Int) ^ n - 1 = ((2 ^ n - 1 : Nat) : Int) := by omega
  rw [hp]
  cases x with
  | ofNat m =>
    show ((m &&& (2 ^ n - 1) : Nat) : Int) = _
    rw [Nat.and_two_pow_sub_one_eq_mod, ← h2]; simp
  | negSucc m =>
    show ((natLdiff (2 ^ n - 1) m : Nat) : Int) = _
    rw [natLdiff_mask, Int.negSucc_emod m (Int.pow_pos (by decide)), ← h2]
    have hlt : m % 2 ^ n < 2 ^ n := Nat.mod_lt _ (Nat.two_pow_pos n)
    have : ((m % 2 ^ n : Nat) : Int) = (m : Int) % ((2 ^ n : Nat) : Int) := by simp
    omega



theorem nat_and_two_pow (n k : Nat) : n &&& 2 ^ k = if n.testBit k then 2 ^ k else 0 := by
  apply Nat.eq_of_testBit_eq
  intro i
  rw [Nat.testBit_and, Nat.testBit_two_pow]
  by_cases h : k = i
  · subst h; cases hb : n.testBit k <;> simp
  · cases hb : n.testBit k <;> simp [h]

theorem natLdiff_two_pow (k m : Nat) : natLdiff (2 ^ k) m = if m.testBit k then 0 else 2 ^ k := by
  apply Nat.eq_of_testBit_eq
  intro i
  rw [natLdiff_testBit, Nat.testBit_two_pow]
  by_cases h : k = i
  · subst h; cases hb : m.testBit k <;> simp
  · cases hb : m.testBit k <;> simp [h]

/-- `x & 2^k` is `2^k` when bit `k` of the two's-complement pattern of `x` is set, else `0` -/
theorem iand_two_pow (x : Int) (k : Nat) : iand x (2 ^ k) = if (x / 2 ^ k) % 2 = 1 then 2 ^ k else 0 := by
  have hp : (2 : Int) ^ k = ((2 ^ k : Nat) : Int) := by push_cast; rfl
  have hpos := Nat.two_pow_pos k
  rw [hp]
  cases x with
  | ofNat m =>
    show ((m &&& 2 ^ k : Nat) : Int) = _
    rw [nat_and_two_pow, Nat.testBit_eq_decide_div_mod_eq]
    have : ((m / 2 ^ k % 2 : Nat) : Int) = (Int.ofNat m) / ((2 ^ k : Nat) : Int) % 2 := by simp
    by_cases h : m / 2 ^ k % 2 = 1
    · have h' : (Int.ofNat m) / ((2 ^ k : Nat) : Int) % 2 = 1 := by omega
      rw [if_pos h']; simp only [h, decide_true, if_true]
    · have h' : ¬ (Int.ofNat m) / ((2 ^ k : Nat) : Int) % 2 = 1 := by omega
      rw [if_neg h']; simp only [h, decide_false, Bool.false_eq_true, if_false]; rfl
  | negSucc m =>
    show ((natLdiff (2 ^ k) m : Nat) : Int) = _
    rw [natLdiff_two_pow, Nat.testBit_eq_decide_div_mod_eq, Int.negSucc_ediv m (by omega)]
    have : ((m / 2 ^ k % 2 : Nat) : Int) = (m : Int) / ((2 ^ k : Nat) : Int) % 2 := by simp
    have e : (m : Int).ediv ((2 ^ k : Nat) : Int) = (m : Int) / ((2 ^ k : Nat) : Int) := rfl
    rw [e]
    by_cases h : m / 2 ^ k % 2 = 1
    · have h' : ¬ (-((m : Int) / ((2 ^ k : Nat) : Int) + 1)) % 2 = 1 := by omega
      rw [if_neg h']; simp only [h, decide_true, if_true]; rfl
    · have h' : (-((m : Int) / ((2 ^ k : Nat) : Int) + 1)) % 2 = 1 := by omega
      rw [if_pos h']; simp only [h, decide_false, Bool.false_eq_true, if_false]

theorem iand_natCast (m n : Nat) : iand (m : Int) (n : Int) = ((m &&& n : Nat) : Int) := rfl
theorem ior_natCast (m n : Nat) : ior (m : Int) (n : Int) = ((m ||| n : Nat) : Int) := rfl
theorem ixor_natCast (m n : Nat) : ixor (m : Int) (n : Int) = ((m ^^^ n : Nat) : Int) := rfl

theorem two_pow_toNat_pos (n : Int) : (0 : Int) < 2 ^ n.toNat := Int.pow_pos (by decide)

end VelaVerif.PyRt

open VelaVerif.PyRt in
/-- side conditions of the rewrite rules: tag disequalities, range facts -/
macro "py_side" : tactic =>
  `(tactic| first
    | exact Or.inl rfl
    | exact trivial
    | (simp only [ne_eq, reduceCtorEq, not_false_eq_true, Ty.fits, Ty.bits, T3, or_true, true_or, or_self, false_or, or_false, wrap] <;> omega)
    | (simp only [ne_eq, reduceCtorEq, not_false_eq_true, Ty.fits, Ty.bits, T3, or_true, true_or, or_self, false_or, or_false, wrap, W32] <;> omega)
    | omega)

open VelaVerif.PyRt in
/-- symbolic execution of translated definitions; the argument lists the definitions to unfold -/
macro "py_exec" "[" defs:Lean.Parser.Tactic.simpLemma,* "]" : tactic =>
  `(tactic| set_option linter.unusedSimpArgs false in simp (maxSteps := 4000000) (disch := py_side) only [$defs,*, ↓bindStep,
      bind_ok, bind_err, pure_eq, bind_ite, ebind_ok, ebind_err, epure_eq, ebind_ite, ethrow_eq, pyAssert_true, pyAssert_false, pyAssert_eq,
      lift_ok, lift_err, castErr_py, castErr_i32, castErr_i64, wrap_eq_self, wrap_py, wrap_i8, wrap_i16, wrap_i32, wrap_i64, wrap_u8, wrap_u16, wrap_u32, coerce2_py_py, coerce2_py_np, coerce2_np_py, coerce2_np_np, promote,
      add_mk, sub_mk, mul_mk, and_mk, or_mk, xor_mk, floordiv_mk, mod_mk, shl_mk, shr_mk, pow_mk,
      neg_mk, pos_mk, invert_mk, abs_mk, int_mk, lt_mk, le_mk, gt_mk, ge_mk, eq_mk, ne_mk, truthy_mk,
      min_same, max_same, min_mk, max_mk, pyLen_eq, cast_py, cast_np, fdiv_pos, fmod_pos, Ty.bits, iand_mask, iand_two_pow,
      ite_true, ite_false, if_true, if_false, fits_eq_true, fits_eq_false, true_and, and_true, and_self, not_true_eq_false, not_false_eq_true,
      Bool.and_eq_true, Bool.or_eq_true, Bool.not_eq_true', bool_eq_false, decide_eq_true_eq, beq_iff_eq, bne_iff_ne,
      Bool.true_and, Bool.and_true, Bool.false_or, Bool.or_false, Bool.not_true, Bool.not_false,
      decide_true, decide_false, reduceCtorEq, ne_eq, not_false_eq_true, not_true_eq_false,
      Int.reduceNeg, Int.reducePow, Int.reduceMul, Int.reduceAdd, Int.reduceSub, Int.reduceToNat,
      Nat.reduceSub, Nat.reduceAdd, Nat.reduceMul, Nat.reducePow,
      Int.reduceLT, Int.reduceLE, Int.reduceGT, Int.reduceGE, Int.reduceEq, Int.reduceNe, Int.reduceDiv, Int.reduceMod,
      Int.one_mul, Int.mul_one, Int.zero_add, Int.add_zero, Int.sub_zero])

/-- close `f a₁ … = f b₁ …` whose arguments are equal by linear arithmetic (e.g. a reassociated sum
    under a division by a variable, which `omega` cannot see through) -/
macro "py_congr" : tactic =>
  `(tactic| first
    | rfl
    | omega
    | (congr 1 <;> first | rfl | omega | (congr 1 <;> first | rfl | omega | (congr 1 <;> first | rfl | omega |
        (congr 1 <;> first | rfl | omega | (congr 1 <;> first | rfl | omega))))))

open Lean Elab Tactic Meta in
/-- case split on the condition of the outermost-leftmost `if` of the goal and rewrite *every* `if`
    on that condition (the translated source and the model branch on the same conditions, so both
    sides follow the same path) -/
elab "py_split1" : tactic => withMainContext do
  let g ← getMainGoal
  let t ← instantiateMVars (← g.getType)
  let some e := t.find? (fun e => e.isAppOfArity ``ite 5 && !(e.getArg! 1).hasLooseBVars)
    | throwError "py_split1: no if-then-else in the goal"
  let cs ← Term.exprToSyntax (e.getArg! 1)
  evalTactic (← `(tactic| by_cases hsplit : $cs))
  let gs ← getGoals
  match gs with
  | g1 :: g2 :: rest =>
    setGoals [g1]
    evalTactic (← `(tactic| try simp only [eq_true hsplit, if_true, ite_true, not_true_eq_false, if_false, ite_false,
      Int.reduceToNat, Int.reducePow, Int.reduceNeg, Int.mul_one, Int.one_mul, Int.reduceSub, Int.reduceAdd, Int.reduceMul,
      Int.reduceLT, Int.reduceLE, Int.reduceGT, Int.reduceGE, Int.reduceEq, Int.reduceNe]))
    let r1 ← getGoals
    setGoals [g2]
    evalTactic (← `(tactic| try simp only [eq_false hsplit, if_false, ite_false, not_false_eq_true, if_true, ite_true,
      Int.reduceToNat, Int.reducePow, Int.reduceNeg, Int.mul_one, Int.one_mul, Int.reduceSub, Int.reduceAdd, Int.reduceMul,
      Int.reduceLT, Int.reduceLE, Int.reduceGT, Int.reduceGE, Int.reduceEq, Int.reduceNe]))
    let r2 ← getGoals
    setGoals (r1 ++ r2 ++ rest)
  | _ => throwError "py_split1: unexpected goals"

open VelaVerif.PyRt in
/-- finish after `py_exec`: case split on the remaining `if`s, then linear integer arithmetic -/
macro "py_finish" : tactic =>
  `(tactic| (
    repeat' py_split1
    all_goals first
      | rfl
      | contradiction
      | omega
      | trivial
      | (simp only [wrap, W32] at * <;> omega)
      | (simp only [Except.ok.injEq, Except.error.injEq, Num.mk.injEq, true_and, and_true, reduceCtorEq,
          agrees_ok, agrees_err, agrees_ok_err, agrees_err_ok, liftRel_ok, liftRel_err,
          simT_ok, simT_err, simT_ok_err, simT_err_ok] <;> first | trivial | omega)
      | (simp only [Except.ok.injEq, Except.error.injEq, Num.mk.injEq, true_and, and_true, reduceCtorEq,
          agrees_ok, agrees_err, agrees_ok_err, agrees_err_ok, liftRel_ok, liftRel_err,
          simT_ok, simT_err, simT_ok_err, simT_err_ok, wrap, W32] at * <;> first | trivial | omega)))
