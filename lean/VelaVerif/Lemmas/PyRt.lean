import VelaVerif.Model.PyRt
/-!
# Rewrite rules for symbolic execution of translated definitions (`Gen/Src*.lean`)

Every operator of `Model/PyRt.lean` applied to operands in constructor form `⟨tag, value⟩` rewrites to
its result in constructor form (possibly under an `if` on a range condition).  Together with the
monad laws and `bind_ite` they let `simp` *run* a translated function on symbolic values of known
tags; what remains are `if`s over linear integer conditions, which `split` / `omega` finish.

The tactic `py_exec [defs]` packages the rule set; `py_side` is its side-condition discharger.
-/
namespace VelaVerif.PyRt

/-! ### monad -/
theorem bind_ok {α β} (a : α) (f : α → M β) : (Except.ok a >>= f) = f a := rfl
theorem bind_err {α β} (e : Err) (f : α → M β) : ((Except.error e : M α) >>= f) = Except.error e := rfl
theorem pure_eq {α} (a : α) : (pure a : M α) = Except.ok a := rfl
theorem bind_ite {α β} (c : Prop) [Decidable c] (x y : M α) (f : α → M β) :
    ((if c then x else y) >>= f) = if c then x >>= f else y >>= f := by split <;> rfl
theorem bind_assoc' {α β γ} (x : M α) (f : α → M β) (g : β → M γ) :
    ((x >>= f) >>= g) = x >>= fun a => f a >>= g := by cases x <;> rfl

theorem pyAssert_true : pyAssert true = .ok () := rfl
theorem pyAssert_false : pyAssert false = .error .assert_ := rfl
theorem pyAssert_decide (p : Prop) [Decidable p] :
    pyAssert (decide p) = if p then .ok () else .error .assert_ := by
  by_cases h : p <;> simp [pyAssert, h]

/-! ### tags -/
theorem wrap_py (v : Int) : wrap .py v = v := rfl

theorem wrap_id (t : Ty) (v : Int) (h : t.fits v) : wrap t v = v := by
  cases t <;> simp only [Ty.fits] at h <;> simp only [wrap] <;> omega

theorem wrap_fits (t : Ty) (v : Int) : t.fits (wrap t v) := by
  cases t <;> simp only [Ty.fits, wrap] <;> omega

theorem coerce2_py_py (x y : Int) : coerce2 ⟨.py, x⟩ ⟨.py, y⟩ = .ok (.py, x, y) := rfl
theorem coerce2_py_np (t : Ty) (x y : Int) (ht : t ≠ .py) :
    coerce2 ⟨.py, x⟩ ⟨t, y⟩ = if t.fits x then .ok (t, x, y) else .error .overflow := by
  cases t <;> first | exact absurd rfl ht | rfl
theorem coerce2_np_py (t : Ty) (x y : Int) (ht : t ≠ .py) :
    coerce2 ⟨t, x⟩ ⟨.py, y⟩ = if t.fits y then .ok (t, x, y) else .error .overflow := by
  cases t <;> first | exact absurd rfl ht | rfl
theorem coerce2_np_np (s t : Ty) (x y : Int) (hs : s ≠ .py) (ht : t ≠ .py) :
    coerce2 ⟨s, x⟩ ⟨t, y⟩ = .ok (promote s t, x, y) := by
  cases s <;> cases t <;> first | exact absurd rfl hs | exact absurd rfl ht | rfl

/-! ### operators on constructor-form operands -/
theorem add_mk (a b : Num) : Num.add a b = coerce2 a b >>= fun r => .ok ⟨r.1, wrap r.1 (r.2.1 + r.2.2)⟩ := rfl
theorem sub_mk (a b : Num) : Num.sub a b = coerce2 a b >>= fun r => .ok ⟨r.1, wrap r.1 (r.2.1 - r.2.2)⟩ := rfl
theorem mul_mk (a b : Num) : Num.mul a b = coerce2 a b >>= fun r => .ok ⟨r.1, wrap r.1 (r.2.1 * r.2.2)⟩ := rfl
theorem and_mk (a b : Num) : Num.and a b = coerce2 a b >>= fun r => .ok ⟨r.1, wrap r.1 (iand r.2.1 r.2.2)⟩ := rfl
theorem or_mk (a b : Num) : Num.or a b = coerce2 a b >>= fun r => .ok ⟨r.1, wrap r.1 (ior r.2.1 r.2.2)⟩ := rfl
theorem xor_mk (a b : Num) : Num.xor a b = coerce2 a b >>= fun r => .ok ⟨r.1, wrap r.1 (ixor r.2.1 r.2.2)⟩ := rfl
theorem floordiv_mk (a b : Num) : Num.floordiv a b = coerce2 a b >>= fun r =>
    if r.2.2 = 0 then (if r.1 = .py then .error .zerodiv else .ok ⟨r.1, 0⟩)
    else .ok ⟨r.1, wrap r.1 (Int.fdiv r.2.1 r.2.2)⟩ := rfl
theorem mod_mk (a b : Num) : Num.mod a b = coerce2 a b >>= fun r =>
    if r.2.2 = 0 then (if r.1 = .py then .error .zerodiv else .ok ⟨r.1, 0⟩)
    else .ok ⟨r.1, wrap r.1 (Int.fmod r.2.1 r.2.2)⟩ := rfl
theorem shl_mk (a b : Num) : Num.shl a b = coerce2 a b >>= fun r =>
    if r.1 = .py then (if r.2.2 < 0 then .error .value else .ok ⟨r.1, r.2.1 * 2 ^ r.2.2.toNat⟩)
    else if 0 ≤ r.2.2 ∧ r.2.2 < r.1.bits then .ok ⟨r.1, wrap r.1 (r.2.1 * 2 ^ r.2.2.toNat)⟩
    else .ok ⟨r.1, 0⟩ := rfl
theorem shr_mk (a b : Num) : Num.shr a b = coerce2 a b >>= fun r =>
    if r.1 = .py then (if r.2.2 < 0 then .error .value else .ok ⟨r.1, r.2.1 / 2 ^ r.2.2.toNat⟩)
    else if 0 ≤ r.2.2 ∧ r.2.2 < r.1.bits then .ok ⟨r.1, r.2.1 / 2 ^ r.2.2.toNat⟩
    else .ok ⟨r.1, if r.2.1 < 0 then -1 else 0⟩ := rfl
theorem pow_mk (a b : Num) : Num.pow a b = coerce2 a b >>= fun r =>
    if r.2.2 < 0 then (if r.1 = .py then .error .unsupported else .error .value)
    else .ok ⟨r.1, wrap r.1 (r.2.1 ^ r.2.2.toNat)⟩ := rfl

theorem neg_mk (t : Ty) (x : Int) : Num.neg ⟨t, x⟩ = .ok ⟨t, wrap t (-x)⟩ := rfl
theorem pos_mk (a : Num) : Num.pos a = .ok a := rfl
theorem invert_mk (t : Ty) (x : Int) : Num.invert ⟨t, x⟩ = .ok ⟨t, wrap t (-x - 1)⟩ := rfl
theorem abs_mk (t : Ty) (x : Int) : Num.abs ⟨t, x⟩ = .ok ⟨t, wrap t (if x < 0 then -x else x)⟩ := rfl
theorem int_mk (t : Ty) (x : Int) : Num.int ⟨t, x⟩ = .ok ⟨.py, x⟩ := rfl

theorem lt_mk (s t : Ty) (x y : Int) : Num.lt ⟨s, x⟩ ⟨t, y⟩ = decide (x < y) := rfl
theorem le_mk (s t : Ty) (x y : Int) : Num.le ⟨s, x⟩ ⟨t, y⟩ = decide (x ≤ y) := rfl
theorem gt_mk (s t : Ty) (x y : Int) : Num.gt ⟨s, x⟩ ⟨t, y⟩ = decide (x > y) := rfl
theorem ge_mk (s t : Ty) (x y : Int) : Num.ge ⟨s, x⟩ ⟨t, y⟩ = decide (x ≥ y) := rfl
theorem eq_mk (s t : Ty) (x y : Int) : Num.eq ⟨s, x⟩ ⟨t, y⟩ = decide (x = y) := rfl
theorem ne_mk (s t : Ty) (x y : Int) : Num.ne ⟨s, x⟩ ⟨t, y⟩ = decide (x ≠ y) := rfl
theorem truthy_mk (t : Ty) (x : Int) : Num.truthy ⟨t, x⟩ = decide (x ≠ 0) := rfl
theorem min_mk (s t : Ty) (x y : Int) : Num.min ⟨s, x⟩ ⟨t, y⟩ = if y < x then ⟨t, y⟩ else ⟨s, x⟩ := rfl
theorem max_mk (s t : Ty) (x y : Int) : Num.max ⟨s, x⟩ ⟨t, y⟩ = if y > x then ⟨t, y⟩ else ⟨s, x⟩ := rfl

theorem cast_py (t : Ty) (x : Int) :
    Num.cast t ⟨.py, x⟩ = if t.fits x then .ok ⟨t, x⟩ else .error .overflow := rfl
theorem cast_np (t s : Ty) (x : Int) (hs : s ≠ .py) : Num.cast t ⟨s, x⟩ = .ok ⟨t, wrap t x⟩ := by
  cases s <;> first | exact absurd rfl hs | rfl

/-! ### Python floor division / modulo in terms of `Int` `/` and `%` (which `omega` understands) -/
theorem fdiv_pos (x y : Int) (hy : 0 < y) : Int.fdiv x y = x / y :=
  Int.fdiv_eq_ediv_of_nonneg x (Int.le_of_lt hy)
theorem fmod_pos (x y : Int) (hy : 0 < y) : Int.fmod x y = x % y :=
  Int.fmod_eq_emod_of_nonneg x (Int.le_of_lt hy)

theorem two_pow_toNat_pos (n : Int) : (0 : Int) < 2 ^ n.toNat := Int.pow_pos (by decide)

end VelaVerif.PyRt

open VelaVerif.PyRt in
/-- side conditions of the rewrite rules: tag disequalities, range facts -/
macro "py_side" : tactic =>
  `(tactic| first
    | (simp only [ne_eq, reduceCtorEq, not_false_eq_true, Ty.fits, Ty.bits] <;> omega)
    | omega)

open VelaVerif.PyRt in
/-- symbolic execution of translated definitions; the argument lists the definitions to unfold -/
macro "py_exec" "[" defs:Lean.Parser.Tactic.simpLemma,* "]" : tactic =>
  `(tactic| simp (disch := py_side) only [$defs,*,
      bind_ok, bind_err, pure_eq, bind_ite, pyAssert_true, pyAssert_false, pyAssert_decide,
      wrap_py, wrap_id, coerce2_py_py, coerce2_py_np, coerce2_np_py, coerce2_np_np, promote,
      add_mk, sub_mk, mul_mk, and_mk, or_mk, xor_mk, floordiv_mk, mod_mk, shl_mk, shr_mk, pow_mk,
      neg_mk, pos_mk, invert_mk, abs_mk, int_mk, lt_mk, le_mk, gt_mk, ge_mk, eq_mk, ne_mk, truthy_mk,
      min_mk, max_mk, cast_py, cast_np, fdiv_pos, fmod_pos,
      if_pos, if_neg, ite_true, ite_false, if_true, if_false,
      Bool.and_eq_true, Bool.or_eq_true, Bool.not_eq_true', decide_eq_true_eq, decide_eq_false_iff_not,
      Bool.true_and, Bool.and_true, Bool.false_or, Bool.or_false, Bool.not_true, Bool.not_false,
      decide_true, decide_false, reduceCtorEq, ne_eq, not_false_eq_true, not_true_eq_false,
      Int.reduceNeg, Int.reducePow, Int.reduceMul, Int.reduceAdd, Int.reduceSub, Int.reduceToNat,
      Nat.reduceSub, Nat.reduceAdd, Nat.reduceMul, Nat.reducePow,
      Int.reduceLT, Int.reduceLE, Int.reduceGT, Int.reduceGE, Int.reduceEq, Int.reduceNe, Int.reduceDiv, Int.reduceMod,
      Int.one_mul, Int.mul_one, Int.zero_add, Int.add_zero, Int.sub_zero])

open VelaVerif.PyRt in
/-- finish after `py_exec`: case split on the remaining `if`s, then linear integer arithmetic -/
macro "py_finish" : tactic =>
  `(tactic| (
    repeat' split
    all_goals first
      | rfl
      | contradiction
      | omega
      | (simp only [Except.ok.injEq, Except.error.injEq, Num.mk.injEq, true_and, and_true, reduceCtorEq] <;> omega)))
