import VelaVerif.Lemmas.PassPackingFinal
/-!
# The regrouping of the CPU passes (`reorderIdx`) is a permutation; what `passLinks` guarantees
-/
namespace VelaVerif.Lemmas.PassPackingDfs
open VelaVerif.PassPacking VelaVerif.Gen.PassPacking VelaVerif.PassPackingSpec VelaVerif.Lemmas.PassPackingWalk

variable {G : Graph}

/-! ## the regrouping of the CPU passes is a permutation -/

theorem insertByKey_perm (key : Nat → Int) (x : Nat) (l : List Nat) : (insertByKey key x l).Perm (x :: l) := by
  induction l with
  | nil => exact List.Perm.refl _
  | cons y ys ih =>
    simp only [insertByKey]
    split
    · exact List.Perm.refl _
    · exact (List.Perm.cons y ih).trans (List.Perm.swap x y ys)

theorem sortByKey_perm (key : Nat → Int) (l : List Nat) : (sortByKey key l).Perm l := by
  unfold sortByKey
  have : ∀ (acc : List Nat), (l.foldl (fun acc x => insertByKey key x acc) acc).Perm (acc ++ l) := by
    induction l with
    | nil => intro acc; simp
    | cons x rest ih =>
      intro acc
      simp only [List.foldl_cons]
      refine (ih (insertByKey key x acc)).trans ?_
      have h1 := insertByKey_perm key x acc
      have h2 : (insertByKey key x acc ++ rest).Perm ((x :: acc) ++ rest) := List.Perm.append_right rest h1
      refine h2.trans ?_
      simp only [List.cons_append]
      exact (List.perm_middle).symm
  simpa using this []

theorem perm_reinsert (l : List Nat) (cpu : Nat) (k : Nat) (h : cpu ∈ l) :
    ((l.erase cpu).take k ++ [cpu] ++ (l.erase cpu).drop k).Perm l := by
  have h1 : ((l.erase cpu).take k ++ [cpu] ++ (l.erase cpu).drop k).Perm (cpu :: ((l.erase cpu).take k ++ (l.erase cpu).drop k)) := by
    simp only [List.append_assoc, List.singleton_append]
    exact List.perm_middle
  rw [List.take_append_drop] at h1
  exact h1.trans (List.perm_cons_erase h).symm

theorem perm_move_end (l : List Nat) (cpu : Nat) (h : cpu ∈ l) : (l.erase cpu ++ [cpu]).Perm l := by
  have := perm_reinsert l cpu (l.erase cpu).length h
  simpa using this

theorem pure_ok {α : Type} {a b : α} (h : (pure a : Except String α) = Except.ok b) : a = b := by
  simpa [pure, Except.pure] using h

theorem moveScan_perm (ps : List Pass) (lst : List Nat) (cpu : Nat) (out : Option (List Nat)) (hm : cpu ∈ lst) :
    ∀ (rest : List Nat) (r : List Nat), moveScan G ps lst cpu out rest = .ok r → r.Perm lst
  | [], r, h => by
    simp only [moveScan] at h
    rw [← pure_ok h]
  | nx :: rest', r, h => by
    unfold moveScan at h
    generalize ps.getD nx default = np at h
    simp only [] at h
    split at h
    · rw [← pure_ok h]; exact perm_reinsert lst cpu _ hm
    · cases hop : np.op0 G with
      | error e => rw [hop] at h; cases h
      | ok o =>
        rw [hop] at h
        cases out with
        | none =>
          simp only [] at h
          split at h
          · rw [← pure_ok h]
          · split at h
            · rw [← pure_ok h]; exact perm_move_end lst cpu hm
            · exact moveScan_perm ps lst cpu none hm rest' r h
        | some outs =>
          simp only [] at h
          split at h
          · rw [← pure_ok h]
          · split at h
            · rw [← pure_ok h]; exact perm_move_end lst cpu hm
            · exact moveScan_perm ps lst cpu (some outs) hm rest' r h

theorem moveCpu_perm (ps : List Pass) (lst : List Nat) (i : Nat) (r : List Nat) (h : moveCpu G ps lst i = .ok r) : r.Perm lst := by
  unfold moveCpu at h
  split at h
  · cases h
  · rename_i cpu hcpu
    have hm : cpu ∈ lst := List.mem_of_getElem? hcpu
    generalize ps.getD cpu default = cp at h
    simp only [] at h
    split at h
    · rw [← pure_ok h]
    · split at h
      · cases h
      · exact moveScan_perm ps lst cpu _ hm _ r h

theorem moveAll_perm (ps : List Pass) : ∀ (n : Nat) (lst r : List Nat), moveAll G ps n lst = .ok r → r.Perm lst
  | 0, lst, r, h => by
    simp only [moveAll] at h
    rw [← pure_ok h]
  | n + 1, lst, r, h => by
    simp only [moveAll] at h
    cases h1 : moveCpu G ps lst n with
    | error e => simp [h1] at h
    | ok lst' =>
      simp only [h1] at h
      exact (moveAll_perm ps n lst' r h).trans (moveCpu_perm ps lst n lst' h1)

theorem erase_eq_filter : ∀ (l : List Nat) (s : Nat), l.Nodup → l.erase s = l.filter (· != s)
  | [], _, _ => rfl
  | x :: rest, s, hn => by
    have hn' := List.nodup_cons.mp hn
    by_cases hx : x = s
    · subst hx
      have : rest.filter (· != x) = rest := by
        rw [List.filter_eq_self]
        intro y hy
        simp only [bne_iff_ne, ne_eq]
        intro h; subst h; exact hn'.1 hy
      simp [this]
    · have hb : (x == s) = false := by simpa using hx
      simp [List.erase_cons, hb, List.filter_cons, bne, erase_eq_filter rest s hn'.2]

theorem findIdx?_lt {α : Type} (p : α → Bool) : ∀ (l : List α) (i : Nat), l.findIdx? p = some i → i < l.length := by
  intro l i h
  have := List.findIdx?_eq_some_iff_getElem.mp h
  exact this.1

theorem reorder_perm (G : Graph) (ps : List Pass) (order : List Nat) (h : reorderIdx G ps = .ok order) :
    order.Perm (List.range ps.length) := by
  unfold reorderIdx at h
  split at h
  · rename_i hemp
    simp only [Except.ok.injEq] at h
    rw [← h, List.isEmpty_iff.mp hemp]; simp
  · split at h
    · cases h
    · rename_i s hs
      have hslt : s < ps.length := findIdx?_lt _ ps s hs
      split at h
      · cases h
      · cases h
      · rename_i tops keys _ _
        simp only [] at h
        split at h
        · cases h
        · rename_i rest hrest
          simp only [Except.ok.injEq] at h
          rw [← h]
          have h1 := sortByKey_perm (fun i => keys.getD i (-1))
            (s :: ((List.range ps.length).filter (· != s)).filter fun i => tops.getD i false)
          have h2 := moveAll_perm (G := G) ps _ _ rest hrest
          refine (List.Perm.append h1 h2).trans ?_
          simp only [List.cons_append]
          have h3 : ((((List.range ps.length).filter (· != s)).filter fun i => tops.getD i false) ++
              (((List.range ps.length).filter (· != s)).filter fun i => !tops.getD i false)).Perm ((List.range ps.length).filter (· != s)) :=
            List.filter_append_perm _ _
          refine (List.Perm.cons s h3).trans ?_
          rw [← erase_eq_filter _ s List.nodup_range]
          exact (List.perm_cons_erase (List.mem_range.mpr hslt)).symm

theorem map_getD_range (ps : List Pass) : (List.range ps.length).map (fun i => ps.getD i default) = ps := by
  apply List.ext_getElem
  · simp
  · intro i h1 h2
    simp only [List.length_map, List.length_range] at h1
    simp [List.getD_eq_getElem?_getD, List.getElem?_eq_getElem h1]

theorem final_flat_perm (ps : List Pass) (order : List Nat) (h : order.Perm (List.range ps.length)) :
    ((order.map fun i => ps.getD i default).flatMap (·.ops)).Perm (ps.flatMap (·.ops)) := by
  have h1 : (order.map fun i => ps.getD i default).Perm ((List.range ps.length).map fun i => ps.getD i default) := h.map _
  rw [map_getD_range] at h1
  exact h1.flatMap_right _

theorem partition_of_perm (G : Graph) (ps qs : List Pass) (hp : (qs.flatMap (·.ops)).Perm (ps.flatMap (·.ops)))
    (h : Partition G (ps.map toSpec)) : Partition G (qs.map toSpec) := by
  unfold Partition at *
  rw [flat_map_toSpec] at *
  exact ⟨fun o ho => by rw [hp.count_eq]; exact h.1 o ho, fun o ho => h.2 o (hp.mem_iff.mp ho)⟩

theorem linkProblems_nil (G : Graph) (ps : List Pass) (order : List Nat) (h : linkProblems G ps order = []) :
    ∀ pi ∈ order, ∀ t ∈ (ps.getD pi default).inputs, ∀ o ∈ (G.tensor t).ops,
      ∃ pj, ps.findIdx? (fun p => p.ops.contains o) = some pj ∧ order.idxOf pj < order.idxOf pi ∧
        (ps.getD pj default).outputs.contains t = true := by
  intro pi hpi t ht o ho
  unfold linkProblems at h
  rw [List.flatMap_eq_nil_iff] at h
  have h1 := h pi hpi
  rw [List.flatMap_eq_nil_iff] at h1
  have h2 := h1 t ht
  rw [List.flatMap_eq_nil_iff] at h2
  have h3 := h2 o ho
  split at h3
  · simp at h3
  · rename_i pj hpj
    refine ⟨pj, hpj, ?_, ?_⟩
    · rcases Nat.lt_or_ge (order.idxOf pj) (order.idxOf pi) with hlt | hge
      · exact hlt
      · have : ¬ (order.idxOf pj < order.idxOf pi) := by omega
        simp [this] at h3
    · cases hc : (ps.getD pj default).outputs.contains t with
      | true => rfl
      | false =>
        exfalso
        simp only [List.append_eq_nil_iff] at h3
        have := h3.2
        rw [hc] at this
        simp at this

end VelaVerif.Lemmas.PassPackingDfs

namespace VelaVerif.Lemmas.PassPackingDfs
open VelaVerif.PassPacking VelaVerif.Gen.PassPacking VelaVerif.PassPackingSpec VelaVerif.Lemmas.PassPackingWalk

/-- what a successful `packIntoPasses` is made of -/
theorem packIntoPasses_ok {G : Graph} {final : List Pass} (h : packIntoPasses Rules.current G = .ok final) :
    ∃ ps order, packDfs Rules.current G = .ok ps ∧ reorderIdx G ps = .ok order ∧ linkProblems G ps order = [] ∧
      final = order.map fun i => ps.getD i default := by
  unfold packIntoPasses at h
  split at h
  · cases h
  · rename_i ps hps
    split at h
    · cases h
    · rename_i order hord
      split at h
      · cases h
      · rename_i hl
        simp only [Except.ok.injEq] at h
        refine ⟨ps, order, hps, hord, ?_, h.symm⟩
        unfold passLinks at hl
        split at hl
        · assumption
        · cases hl

end VelaVerif.Lemmas.PassPackingDfs
