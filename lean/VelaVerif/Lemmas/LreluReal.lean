import Mathlib.Algebra.Order.Field.Basic
/-! LeakyReLU over an ordered field (the real-valued statement of `Props/C01Rewrites.lean`, section 1). -/
namespace VelaVerif.Lemmas.LreluReal

/-- LeakyReLU over an ordered field -/
def lrelu {α : Type} [Field α] [LinearOrder α] [IsStrictOrderedRing α] (a x : α) : α := if 0 ≤ x then x else a * x

end VelaVerif.Lemmas.LreluReal
