import VelaVerif.Lemmas.AllocHcErr
/-! Lemmas for C05: HillClimb on valid input always returns addresses (given enough oracle draws) —
    termination of the predecessor walk (ghost run numbers), permutation invariant of `indices`,
    completeness of every stored allocation. -/
namespace VelaVerif.Alloc
open VelaVerif.Gen.AllocConst

/-- what a sweep can do to (address, predecessor): nothing, or jump to the rounded end of an
    allocated neighbour which becomes the predecessor -/
def FromNbr (dyn : Array Dyn) (align : Nat) (nbrs : List Nat) (a : Nat) (p : Option Nat) : Prop :=
  ∃ j ∈ nbrs, (getDyn dyn j).addr.isSome ∧ a = roundUp (getDyn dyn j).endAddr align ∧ p = some j

theorem pass_result (dyn : Array Dyn) (size align : Nat) (nbrs : List Nat) (s : Nat × Option Nat × Bool) :
    ((nbrs.foldl (passStep dyn size align) s).1 = s.1 ∧ (nbrs.foldl (passStep dyn size align) s).2.1 = s.2.1) ∨
    FromNbr dyn align nbrs (nbrs.foldl (passStep dyn size align) s).1 (nbrs.foldl (passStep dyn size align) s).2.1 := by
  induction nbrs generalizing s with
  | nil => left; exact ⟨rfl, rfl⟩
  | cons j js ih =>
    rw [List.foldl_cons]
    rcases passStep_cases dyn size align s j with ⟨hs, _⟩ | ⟨a2, ha2, _, hs⟩
    · rw [hs]
      rcases ih s with h | ⟨k, hk, h⟩
      · exact Or.inl h
      · exact Or.inr ⟨k, List.mem_cons_of_mem _ hk, h⟩
    · rw [hs]
      rcases ih (roundUp (getDyn dyn j).endAddr align, some j, false) with h | ⟨k, hk, h⟩
      · right
        exact ⟨j, by simp, by simp [ha2], h.1, h.2⟩
      · exact Or.inr ⟨k, List.mem_cons_of_mem _ hk, h⟩

theorem lrLoop_result (dyn : Array Dyn) (size align : Nat) (nbrs : List Nat) :
    ∀ (fuel address : Nat) (pred : Option Nat) (a : Nat) (p : Option Nat),
      ((address = 0 ∧ pred = none) ∨ FromNbr dyn align nbrs address pred) →
      lrLoop dyn size align nbrs fuel address pred = .ok (a, p) →
      (a = 0 ∧ p = none) ∨ FromNbr dyn align nbrs a p := by
  intro fuel
  induction fuel with
  | zero =>
    intro address pred a p hstart h
    unfold lrLoop at h
    rw [lrPass_eq] at h
    simp only at h
    split at h
    · rename_i hfit
      obtain ⟨h1, _⟩ := pass_true dyn size align nbrs (address, pred, true) hfit
      rw [h1] at h
      injection h with h
      injection h with ha hp
      subst ha hp
      exact hstart
    · split at h <;> cases h
  | succ f ih =>
    intro address pred a p hstart h
    unfold lrLoop at h
    rw [lrPass_eq] at h
    simp only at h
    split at h
    · rename_i hfit
      obtain ⟨h1, _⟩ := pass_true dyn size align nbrs (address, pred, true) hfit
      rw [h1] at h
      injection h with h
      injection h with ha hp
      subst ha hp
      exact hstart
    · split at h
      · cases h
      · refine ih _ _ a p ?_ h
        rcases pass_result dyn size align nbrs (address, pred, true) with ⟨h1, h2⟩ | h1
        · simp only at h1 h2
          rw [h1, h2]; exact hstart
        · exact Or.inr h1

theorem nodup_length_le (l : List Nat) (n : Nat) (hnd : l.Nodup) (hlt : ∀ x ∈ l, x < n) : l.length ≤ n := by
  have hsub : l ⊆ List.range n := by
    intro x hx; exact List.mem_range.2 (hlt x hx)
  have := hnd.length_le_of_subset hsub
  simpa using this

/-- ghost order on ranges: `i` was (last) allocated before `p`: in an earlier run, or in the same
    run at a later turn -/
def KeyLt (run : Nat → Nat) (dyn : Array Dyn) (i p : Nat) : Prop :=
  run i < run p ∨ (run i = run p ∧ (getDyn dyn p).turn < (getDyn dyn i).turn)

structure ChainInv (n : Nat) (dyn : Array Dyn) (run : Nat → Nat) : Prop where
  pred_ok : ∀ i, i < n → 1 ≤ run i → ∀ p, (getDyn dyn i).pred = some p →
    p < n ∧ 1 ≤ run p ∧ KeyLt run dyn i p

theorem predChain_ok (n : Nat) (dyn : Array Dyn) (run : Nat → Nat) (inv : ChainInv n dyn run) :
    ∀ (fuel id : Nat) (tl : Array Nat) (visited : List Nat), id < n → 1 ≤ run id → visited.Nodup →
      (∀ v ∈ visited, v < n ∧ KeyLt run dyn v id) → n ≤ visited.length + 1 + fuel →
      ∃ tl', predChain dyn fuel id tl = .ok tl' ∧
        ∀ t ∈ tl'.toList, t ∈ tl.toList ∨ ∃ j, j < n ∧ t = (getDyn dyn j).turn := by
  intro fuel
  induction fuel with
  | zero =>
    intro id tl visited hid hrun hnd hvis hlen
    unfold predChain
    cases hp : (getDyn dyn id).pred with
    | none => exact ⟨tl, rfl, fun t ht => Or.inl ht⟩
    | some p =>
      exfalso
      obtain ⟨hpn, _, hkey⟩ := inv.pred_ok id hid hrun p hp
      -- p, id and the visited nodes are pairwise distinct and all below n
      have hnd' : (p :: id :: visited).Nodup := by
        refine List.nodup_cons.2 ⟨?_, List.nodup_cons.2 ⟨?_, hnd⟩⟩
        · intro hmem
          rcases List.mem_cons.1 hmem with h | h
          · subst h; unfold KeyLt at hkey; omega
          · have := (hvis p h).2; unfold KeyLt at this hkey; omega
        · intro hmem
          have := (hvis id hmem).2; unfold KeyLt at this; omega
      have := nodup_length_le _ n hnd' (by
        intro x hx
        rcases List.mem_cons.1 hx with rfl | hx
        · exact hpn
        · rcases List.mem_cons.1 hx with rfl | hx
          · exact hid
          · exact (hvis x hx).1)
      simp only [List.length_cons] at this
      omega
  | succ f ih =>
    intro id tl visited hid hrun hnd hvis hlen
    unfold predChain
    cases hp : (getDyn dyn id).pred with
    | none => exact ⟨tl, rfl, fun t ht => Or.inl ht⟩
    | some p =>
      obtain ⟨hpn, hprun, hkey⟩ := inv.pred_ok id hid hrun p hp
      simp only
      have hidnot : id ∉ visited := by
        intro hmem
        have := (hvis id hmem).2; unfold KeyLt at this; omega
      obtain ⟨tl', h1, h2⟩ := ih p (pushNew tl (getDyn dyn p).turn) (id :: visited) hpn hprun
        (List.nodup_cons.2 ⟨hidnot, hnd⟩)
        (by
          intro v hv
          rcases List.mem_cons.1 hv with rfl | hv
          · exact ⟨hid, hkey⟩
          · refine ⟨(hvis v hv).1, ?_⟩
            have := (hvis v hv).2
            unfold KeyLt at this hkey ⊢
            omega)
        (by simp only [List.length_cons]; omega)
      refine ⟨tl', h1, ?_⟩
      intro t ht
      rcases h2 t ht with h | h
      · unfold pushNew at h
        split at h
        · exact Or.inl h
        · simp only [Array.toList_push, List.mem_append, List.mem_singleton] at h
          rcases h with h | h
          · exact Or.inl h
          · exact Or.inr ⟨p, hpn, h⟩
      · exact Or.inr h

theorem nbrs_lt (lrs : List LR) (hw : WellIds lrs) (ix : Nat) (hix : ix < lrs.length) (j : Nat)
    (hj : j ∈ (getInfo (mkInfos lrs) ix).nbrs) : j < lrs.length ∧ j ≠ ix := by
  rw [(getInfo_mkInfos lrs ix hix).2, mem_neighboursOf] at hj
  obtain ⟨lr2, hmem, hid, hne, _⟩ := hj
  obtain ⟨m, hm, rfl⟩ := List.getElem_of_mem hmem
  rw [hw m hm] at hid hne
  rw [hw ix hix] at hne
  exact ⟨by omega, by omega⟩

theorem hcAllocateLr_pred (lrs : List LR) (hw : WellIds lrs) (dyn : Array Dyn) (ix : Nat)
    (hix : ix < lrs.length) (a : Nat) (p : Option Nat)
    (h : hcAllocateLr (mkInfos lrs) dyn ix = .ok (a, p)) :
    (a = 0 ∧ p = none) ∨ ∃ j, j < lrs.length ∧ j ≠ ix ∧ (getDyn dyn j).addr.isSome ∧
      a = roundUp (getDyn dyn j).endAddr lrs[ix].align ∧ p = some j := by
  unfold hcAllocateLr at h
  rcases lrLoop_result _ _ _ _ _ _ _ a p (Or.inl ⟨rfl, rfl⟩) h with h1 | ⟨j, hj, h2, h3, h4⟩
  · exact Or.inl h1
  · obtain ⟨hjn, hjne⟩ := nbrs_lt lrs hw ix hix j hj
    rw [(getInfo_mkInfos lrs ix hix).1] at h3
    exact Or.inr ⟨j, hjn, hjne, h2, h3, h4⟩

theorem go_chain (lrs : List LR) (hw : WellIds lrs) (best R : Nat) (hR : 1 ≤ R) :
    ∀ (ixs : List Nat) (k : Nat) (dyn : Array Dyn) (size : Nat) (run : Nat → Nat) (done : List Nat)
      (dyn' : Array Dyn) (s' : Nat),
      dyn.size = lrs.length → ChainInv lrs.length dyn run →
      (∀ i, i < lrs.length → (getDyn dyn i).addr.isSome → run i = R ∧ (getDyn dyn i).turn < k ∧ i ∈ done) →
      (∀ i, i < lrs.length → (getDyn dyn i).addr = none → run i < R) →
      (∀ ix ∈ ixs, ix ∉ done) → ixs.Nodup →
      hcAllocGo (mkInfos lrs) best ixs k dyn size = .ok (dyn', s') →
      ∃ run', ChainInv lrs.length dyn' run' ∧ (∀ i, i < lrs.length → run' i ≤ R) ∧
        (∀ i, i < lrs.length → run i ≤ run' i) ∧
        (∀ i, i < lrs.length → (getDyn dyn' i).addr.isSome → run' i = R) := by
  intro ixs
  induction ixs with
  | nil =>
    intro k dyn size run done dyn' s' hsz hchain halloc hunalloc _ _ h
    simp only [hcAllocGo] at h
    injection h with h
    injection h with h1 h2
    subst h1
    refine ⟨run, hchain, ?_, fun i _ => Nat.le_refl _, fun i hi hs => (halloc i hi hs).1⟩
    intro i hi
    cases hs : (getDyn dyn i).addr with
    | none => have := hunalloc i hi hs; omega
    | some a => have := (halloc i hi (by simp [hs])).1; omega
  | cons ix rest ih =>
    intro k dyn size run done dyn' s' hsz hchain halloc hunalloc hnotdone hnd h
    simp only [hcAllocGo] at h
    split at h
    · rename_i hlt
      rw [mkInfos_size] at hlt
      split at h
      · cases h
      · rename_i a p hlr
        have hixd : ix < dyn.size := by rw [hsz]; exact hlt
        have hix_none : (getDyn dyn ix).addr = none := by
          cases hs : (getDyn dyn ix).addr with
          | none => rfl
          | some a' =>
            exact absurd (halloc ix hlt (by simp [hs])).2.2 (hnotdone ix (by simp))
        have hrun_ix := hunalloc ix hlt hix_none
        have hpred := hcAllocateLr_pred lrs hw dyn ix hlt a p hlr
        -- the new state and the new ghost run function
        let v : Dyn := ⟨some a, a + (getInfo (mkInfos lrs) ix).lr.size, p, k⟩
        let run1 : Nat → Nat := fun i => if i = ix then R else run i
        have hget_ix : getDyn (dyn.setIfInBounds ix v) ix = v := getDyn_set_eq _ _ _ hixd
        have hget_ne : ∀ j, ix ≠ j → getDyn (dyn.setIfInBounds ix v) j = getDyn dyn j :=
          fun j hj => getDyn_set_ne _ _ _ _ hj
        have hrun1_ix : run1 ix = R := by simp [run1]
        have hrun1_ne : ∀ i, i ≠ ix → run1 i = run i := by intro i h; simp [run1, h]
        have hchain1 : ChainInv lrs.length (dyn.setIfInBounds ix v) run1 := by
          constructor
          intro i hi hruni q hq
          by_cases hi' : ix = i
          · subst hi'
            rw [hget_ix] at hq
            simp only [v] at hq
            rcases hpred with ⟨_, hp⟩ | ⟨j, hjn, hjne, hjs, _, hp⟩
            · rw [hp] at hq; cases hq
            · rw [hp] at hq
              injection hq with hq
              subst hq
              obtain ⟨hr, ht, _⟩ := halloc j hjn hjs
              refine ⟨hjn, ?_, ?_⟩
              · rw [hrun1_ne j hjne]; omega
              · right
                rw [hrun1_ix, hrun1_ne j hjne]
                refine ⟨hr.symm, ?_⟩
                rw [hget_ix, hget_ne j (fun h => hjne h.symm)]
                simp only [v]
                exact ht
          · have hi'' : i ≠ ix := fun h => hi' h.symm
            rw [hget_ne i hi'] at hq
            rw [hrun1_ne i hi''] at hruni
            obtain ⟨hqn, hqr, hkey⟩ := hchain.pred_ok i hi hruni q hq
            by_cases hq' : ix = q
            · subst hq'
              refine ⟨hqn, by rw [hrun1_ix]; omega, ?_⟩
              left
              rw [hrun1_ix, hrun1_ne i hi'']
              unfold KeyLt at hkey
              omega
            · have hq'' : q ≠ ix := fun h => hq' h.symm
              refine ⟨hqn, by rw [hrun1_ne q hq'']; exact hqr, ?_⟩
              unfold KeyLt at hkey ⊢
              rw [hrun1_ne i hi'', hrun1_ne q hq'', hget_ne i hi', hget_ne q hq']
              exact hkey
        have halloc1 : ∀ i, i < lrs.length → (getDyn (dyn.setIfInBounds ix v) i).addr.isSome →
            run1 i = R ∧ (getDyn (dyn.setIfInBounds ix v) i).turn < k + 1 ∧ i ∈ ix :: done := by
          intro i hi hs
          by_cases hi' : ix = i
          · subst hi'
            rw [hget_ix]
            exact ⟨hrun1_ix, by simp [v], by simp⟩
          · rw [hget_ne i hi'] at hs ⊢
            obtain ⟨h1, h2, h3⟩ := halloc i hi hs
            exact ⟨by rw [hrun1_ne i (fun h => hi' h.symm)]; exact h1, by omega,
              List.mem_cons_of_mem _ h3⟩
        have hunalloc1 : ∀ i, i < lrs.length → (getDyn (dyn.setIfInBounds ix v) i).addr = none →
            run1 i < R := by
          intro i hi hs
          by_cases hi' : ix = i
          · subst hi'
            rw [hget_ix] at hs
            simp [v] at hs
          · rw [hget_ne i hi'] at hs
            rw [hrun1_ne i (fun h => hi' h.symm)]
            exact hunalloc i hi hs
        have hrun_mono : ∀ i, i < lrs.length → run i ≤ run1 i := by
          intro i hi
          by_cases hi' : i = ix
          · subst hi'; rw [hrun1_ix]; omega
          · rw [hrun1_ne i hi']; exact Nat.le_refl _
        split at h
        · -- early break
          injection h with h
          injection h with h1 h2
          subst h1
          refine ⟨run1, hchain1, ?_, hrun_mono, fun i hi hs => (halloc1 i hi hs).1⟩
          intro i hi
          cases hs : (getDyn (dyn.setIfInBounds ix v) i).addr with
          | none => have := hunalloc1 i hi hs; omega
          | some a' => have := (halloc1 i hi (by simp [hs])).1; omega
        · obtain ⟨hnd1, hnd2⟩ := List.nodup_cons.1 hnd
          obtain ⟨run', h1, h2, h3, h4⟩ := ih (k + 1) _ _ run1 (ix :: done) dyn' s'
            (by rw [Array.size_setIfInBounds]; exact hsz) hchain1 halloc1 hunalloc1
            (by
              intro x hx hmem
              rcases List.mem_cons.1 hmem with rfl | hmem
              · exact hnd1 hx
              · exact hnotdone x (List.mem_cons_of_mem _ hx) hmem)
            hnd2 h
          exact ⟨run', h1, h2, fun i hi => Nat.le_trans (hrun_mono i hi) (h3 i hi), h4⟩
    · cases h

/-- Hoare-style: errors satisfy `S`, results satisfy `Q` -/
def Sat {α : Type} (S : Err → Prop) (Q : α → Prop) (x : Except Err α) : Prop :=
  match x with
  | .error e => S e
  | .ok a => Q a

theorem sat_ok {α : Type} {S : Err → Prop} {Q : α → Prop} {a : α} (h : Q a) : Sat S Q (Except.ok a) := h
theorem sat_pure {α : Type} {S : Err → Prop} {Q : α → Prop} {a : α} (h : Q a) :
    Sat S Q (pure a : Except Err α) := h
theorem sat_error {α : Type} {S : Err → Prop} {Q : α → Prop} {e : Err} (h : S e) :
    Sat S Q (Except.error e : Except Err α) := h

theorem sat_bind {α β : Type} {S : Err → Prop} {Q1 : α → Prop} {Q2 : β → Prop} {x : Except Err α}
    {f : α → Except Err β} (hx : Sat S Q1 x) (hf : ∀ a, Q1 a → Sat S Q2 (f a)) : Sat S Q2 (x >>= f) := by
  cases x with
  | error e => exact hx
  | ok a => exact hf a hx

theorem sat_ite {α : Type} {S : Err → Prop} {Q : α → Prop} {c : Prop} [Decidable c] {a b : Except Err α}
    (ha : c → Sat S Q a) (hb : ¬c → Sat S Q b) : Sat S Q (if c then a else b) := by
  split
  · exact ha ‹_›
  · exact hb ‹_›

theorem sat_mapM {α β : Type} {S : Err → Prop} {P : β → Prop} (f : α → Except Err β) (l : List α)
    (hf : ∀ a ∈ l, Sat S P (f a)) : Sat S (fun r => ∀ y ∈ r, P y) (l.mapM f) := by
  induction l with
  | nil => rw [List.mapM_nil]; exact sat_pure (by simp)
  | cons x xs ih =>
    rw [List.mapM_cons]
    refine sat_bind (hf x (by simp)) ?_
    intro b hb
    refine sat_bind (ih (fun a ha => hf a (by simp [ha]))) ?_
    intro bs hbs
    apply sat_pure
    intro y hy
    rcases List.mem_cons.1 hy with rfl | hy
    · exact hb
    · exact hbs y hy

theorem sat_of_eq {α : Type} {S : Err → Prop} {Q : α → Prop} {x : Except Err α} (h : Sat S Q x) :
    (∀ e, x = .error e → S e) ∧ (∀ a, x = .ok a → Q a) := by
  constructor
  · intro e he; subst he; exact h
  · intro a ha; subst ha; exact h

/-- the only error a valid HillClimb run may end with: the supplied oracle list is exhausted
    (not a Python outcome; `random.randint` never runs dry) -/
def PyErr (e : Err) : Prop := e = .draws

/-- `random.randint(0, n - k)` on a non-empty range never raises ValueError -/
theorem randint_sat (draws : List Nat) (n k : Nat) (h : k ≤ n) :
    Sat PyErr (fun _ => True) (randint draws n k) := by
  unfold randint
  have : ¬ n < k := by omega
  simp only [this, if_false]
  split
  · exact sat_error rfl
  · exact sat_ok trivial

theorem length_pos_of_not_isEmpty {α : Type} (l : List α) (h : (!l.isEmpty) = true) : 1 ≤ l.length := by
  cases l with
  | nil => simp at h
  | cons _ _ => simp

theorem pushNew_size_le (tl : Array Nat) (t : Nat) : tl.size ≤ (pushNew tl t).size := by
  unfold pushNew
  split
  · exact Nat.le_refl _
  · simp

theorem foldl_pushNew_size_le (l : List Nat) (tl : Array Nat) : tl.size ≤ (List.foldl pushNew tl l).size := by
  induction l generalizing tl with
  | nil => exact Nat.le_refl _
  | cons t ts ih =>
    rw [List.foldl_cons]
    exact Nat.le_trans (pushNew_size_le tl t) (ih _)

def IsPerm (n : Nat) (l : List Nat) : Prop := l.Perm (List.range n)

theorem IsPerm.length {n : Nat} {l : List Nat} (h : IsPerm n l) : l.length = n := by
  have := List.Perm.length_eq h; simpa using this

theorem IsPerm.lt {n : Nat} {l : List Nat} (h : IsPerm n l) {x : Nat} (hx : x ∈ l) : x < n :=
  List.mem_range.1 ((List.Perm.mem_iff h).1 hx)

theorem IsPerm.mem {n : Nat} {l : List Nat} (h : IsPerm n l) {x : Nat} (hx : x < n) : x ∈ l :=
  (List.Perm.mem_iff h).2 (List.mem_range.2 hx)

theorem IsPerm.nodup {n : Nat} {l : List Nat} (h : IsPerm n l) : l.Nodup :=
  (List.Perm.nodup_iff h).2 List.nodup_range

theorem set_perm_cons' : ∀ (xs : List Nat) (j b x : Nat), xs[j]? = some b → (b :: xs.set j x).Perm (x :: xs) := by
  intro xs
  induction xs with
  | nil => intro j b x h; simp at h
  | cons y ys ih =>
    intro j b x h
    cases j with
    | zero =>
      simp at h; subst h
      simp only [List.set_cons_zero]
      exact List.Perm.swap _ _ _
    | succ j' =>
      simp only [List.getElem?_cons_succ] at h
      simp only [List.set_cons_succ]
      exact ((List.Perm.swap y b _).trans (List.Perm.cons y (ih j' b x h))).trans (List.Perm.swap x y ys)

theorem swap_perm (l : List Nat) : ∀ (i j : Nat) (a b : Nat), l[i]? = some a → l[j]? = some b →
    ((l.set i b).set j a).Perm l := by
  induction l with
  | nil => intro i j a b ha; simp at ha
  | cons x xs ih =>
    intro i j a b ha hb
    cases i with
    | zero =>
      simp at ha; subst ha
      cases j with
      | zero => simp at hb; subst hb; simp
      | succ j' =>
        simp only [List.getElem?_cons_succ] at hb
        simp only [List.set_cons_zero, List.set_cons_succ]
        exact set_perm_cons' xs j' b x hb
    | succ i' =>
      simp only [List.getElem?_cons_succ] at ha
      cases j with
      | zero =>
        simp at hb; subst hb
        simp only [List.set_cons_succ, List.set_cons_zero]
        exact set_perm_cons' xs i' a x ha
      | succ j' =>
        simp only [List.getElem?_cons_succ] at hb
        simp only [List.set_cons_succ]
        exact List.Perm.cons x (ih i' j' a b ha hb)

theorem swapIdx_sat (n : Nat) (l : List Nat) (hl : IsPerm n l) (i j : Nat) (hi : i < n) (hj : j < n) :
    Sat PyErr (IsPerm n) (swapIdx l i j) := by
  unfold swapIdx
  have hlen := hl.length
  have h1 : l[i]? = some l[i] := List.getElem?_eq_getElem (by omega)
  have h2 : l[j]? = some l[j] := List.getElem?_eq_getElem (by omega)
  rw [h1, h2]
  exact sat_ok ((swap_perm l i j _ _ h1 h2).trans hl)

theorem bottleneck_lt (dyn : Array Dyn) (h : 0 < dyn.size) : bottleneck dyn < dyn.size := by
  unfold bottleneck
  have key : ∀ (l : List Nat) (m : Nat × Nat), m.1 < dyn.size → (∀ i ∈ l, i < dyn.size) →
      (l.foldl (fun (m : Nat × Nat) i =>
        if (getDyn dyn i).endAddr > m.2 then (i, (getDyn dyn i).endAddr) else m) m).1 < dyn.size := by
    intro l
    induction l with
    | nil => intro m hm _; exact hm
    | cons x xs ih =>
      intro m hm hl
      rw [List.foldl_cons]
      apply ih
      · split
        · exact hl x (by simp)
        · exact hm
      · intro i hi; exact hl i (by simp [hi])
  exact key _ _ h (fun i hi => List.mem_range.1 hi)

/-- every entry of `turn_list` is a valid turn -/
def TlOk (n : Nat) (tl : Array Nat) : Prop := ∀ t ∈ tl.toList, t < n

theorem pushNew_ok (n : Nat) (tl : Array Nat) (t : Nat) (h : TlOk n tl) (ht : t < n) : TlOk n (pushNew tl t) := by
  unfold pushNew
  split
  · exact h
  · intro x hx
    simp only [Array.toList_push, List.mem_append, List.mem_singleton] at hx
    rcases hx with hx | hx
    · exact h x hx
    · omega

/-- the state the search loop keeps between iterations (with the ghost run numbers) -/
structure FixPre (n : Nat) (dyn : Array Dyn) (run : Nat → Nat) : Prop where
  npos : 0 < n
  size_eq : dyn.size = n
  chain : ChainInv n dyn run
  init : ∀ i, i < n → 1 ≤ run i
  turn_lt : ∀ i, i < n → (getDyn dyn i).turn < n

theorem addPredTurns_sat (n : Nat) (dyn : Array Dyn) (run : Nat → Nat) (pre : FixPre n dyn run)
    (tl : Array Nat) (htl : TlOk n tl) (id : Nat) (hid : id < n) :
    Sat PyErr (TlOk n) (addPredTurns dyn tl id) := by
  unfold addPredTurns
  obtain ⟨tl', h1, h2⟩ := predChain_ok n dyn run pre.chain dyn.size id (pushNew tl (getDyn dyn id).turn) []
    hid (pre.init id hid) List.nodup_nil (by simp) (by simp [pre.size_eq])
  rw [h1]
  apply sat_ok
  intro t ht
  rcases h2 t ht with h | ⟨j, hj, rfl⟩
  · exact pushNew_ok n tl _ htl (pre.turn_lt id hid) t h
  · exact pre.turn_lt j hj

theorem foldAddPred_sat (n : Nat) (dyn : Array Dyn) (run : Nat → Nat) (pre : FixPre n dyn run) :
    ∀ (js : List Nat) (tl : Array Nat), TlOk n tl → (∀ j ∈ js, j < n) →
      Sat PyErr (TlOk n) (foldAddPred dyn js tl) := by
  intro js
  induction js with
  | nil => intro tl htl _; exact sat_ok htl
  | cons j js ih =>
    intro tl htl hjs
    unfold foldAddPred
    have h := addPredTurns_sat n dyn run pre tl htl j (hjs j (by simp))
    cases hr : addPredTurns dyn tl j with
    | error e => rw [hr] at h; exact sat_error h
    | ok tl' =>
      rw [hr] at h
      exact ih tl' h (fun x hx => hjs x (by simp [hx]))

theorem list_getD_lt (n : Nat) (hn : 0 < n) (l : List Nat) (h : ∀ x ∈ l, x < n) (k : Nat) : l.getD k 0 < n := by
  rw [List.getD_eq_getElem?_getD]
  cases hk : l[k]? with
  | none => simpa using hn
  | some v => simp only [Option.getD_some]; exact h v (List.mem_of_getElem? hk)

theorem array_getD_lt (n : Nat) (hn : 0 < n) (tl : Array Nat) (h : TlOk n tl) (k : Nat) : tl.getD k 0 < n := by
  rw [Array.getD_eq_getD_getElem?]
  cases hk : tl[k]? with
  | none => simpa using hn
  | some v =>
    simp only [Option.getD_some]
    apply h v
    have := Array.mem_of_getElem? hk
    exact Array.mem_def.1 this

theorem hcFix_sat (lrs : List LR) (hw : WellIds lrs) (dyn : Array Dyn) (run : Nat → Nat)
    (pre : FixPre lrs.length dyn run) (indices : List Nat) (hperm : IsPerm lrs.length indices)
    (stuck : Nat) (draws : List Nat) :
    Sat PyErr (fun r => IsPerm lrs.length r.1) (hcFix (mkInfos lrs) dyn indices stuck draws) := by
  have hn := pre.npos
  have hmx : bottleneck dyn < lrs.length := by
    have := bottleneck_lt dyn (by rw [pre.size_eq]; exact hn)
    rw [pre.size_eq] at this; exact this
  have hidx : ∀ (ind : List Nat), IsPerm lrs.length ind → ∀ turn, turn < lrs.length →
      ∃ ix, ind[turn]? = some ix ∧ ix < (mkInfos lrs).size := by
    intro ind hind turn hturn
    have hlen := hind.length
    refine ⟨ind[turn], List.getElem?_eq_getElem (by omega), ?_⟩
    rw [mkInfos_size]
    exact hind.lt (List.getElem_mem _)
  unfold hcFix
  refine sat_bind (addPredTurns_sat _ dyn run pre #[] (by intro t ht; simp at ht) _ hmx) ?_
  intro tl0 htl0
  refine sat_bind (foldAddPred_sat _ dyn run pre _ tl0 htl0 ?_) ?_
  · intro j hj; exact (nbrs_lt lrs hw _ hmx j hj).1
  intro tl htl
  refine sat_bind (Q1 := fun r => ∀ y ∈ r, y.1 < lrs.length) ?_ ?_
  · apply sat_mapM
    intro turn hturn
    obtain ⟨ix, h1, h2⟩ := hidx indices hperm turn (htl turn hturn)
    rw [h1]
    simp only [h2, if_true]
    exact sat_ok (htl turn hturn)
  intro lrAt hlrAt
  dsimp only
  have hnonNb : ∀ (f : Nat × Nat → Bool), ∀ x ∈ (lrAt.filter f).map (·.1), x < lrs.length := by
    intro f x hx
    obtain ⟨y, hy, rfl⟩ := List.mem_map.1 hx
    exact hlrAt y (List.mem_filter.1 hy).1
  refine sat_ite (fun _ => sat_pure hperm) ?_
  intro hsize
  refine sat_bind (randint_sat _ _ _ (by omega)) ?_; intro x0 _
  refine sat_ite ?_ ?_ <;> intro hc <;>
  ( refine sat_bind (randint_sat _ _ _ ?_) ?_
    · first
        | exact length_pos_of_not_isEmpty _ hc.2
        | omega
    intro x1 _
    refine sat_bind (Q1 := fun r => r.1 < lrs.length) ?_ ?_
    · apply sat_pure
      first
        | exact list_getD_lt _ hn _ (hnonNb _) _
        | exact array_getD_lt _ hn tl htl _
    intro x2 hx2
    refine sat_bind (randint_sat _ _ _ (by omega)) ?_; intro x3 _
    refine sat_bind (swapIdx_sat _ indices hperm _ _ hx2 ?_) ?_
    · split
      · exact array_getD_lt _ hn tl htl _
      · exact array_getD_lt _ hn tl htl _
    intro indices2 hperm2
    refine sat_ite ?_ ?_
    · intro _
      refine sat_bind (Q1 := fun r => ∀ y ∈ r, ∀ t ∈ y, t < lrs.length) ?_ ?_
      · apply sat_mapM
        intro turn hturn
        obtain ⟨ix, h1, h2⟩ := hidx indices2 hperm2 turn (hnonNb _ turn hturn)
        rw [h1]
        simp only [h2, if_true]
        apply sat_ok
        intro t ht
        obtain ⟨j, hj, rfl⟩ := List.mem_map.1 ht
        rw [mkInfos_size] at h2
        exact pre.turn_lt j (nbrs_lt lrs hw ix h2 j hj).1
      intro nbTurns hnb
      have htl2 : TlOk lrs.length (List.foldl pushNew tl nbTurns.flatten) := by
        have key : ∀ (l : List Nat) (acc : Array Nat), TlOk lrs.length acc → (∀ t ∈ l, t < lrs.length) →
            TlOk lrs.length (List.foldl pushNew acc l) := by
          intro l
          induction l with
          | nil => intro acc h _; exact h
          | cons t ts ih =>
            intro acc h hl
            rw [List.foldl_cons]
            exact ih _ (pushNew_ok _ acc t h (hl t (by simp))) (fun x hx => hl x (by simp [hx]))
        apply key _ _ htl
        intro t ht
        obtain ⟨y, hy, hty⟩ := List.mem_flatten.1 ht
        exact hnb y hy t hty
      have hsz2 := foldl_pushNew_size_le nbTurns.flatten tl
      refine sat_bind (randint_sat _ _ _ (by omega)) ?_; intro x4 _
      refine sat_bind (randint_sat _ _ _ (by omega)) ?_; intro x5 _
      refine sat_bind (swapIdx_sat _ indices2 hperm2 _ _ (array_getD_lt _ hn _ htl2 _)
        (array_getD_lt _ hn _ htl2 _)) ?_
      intro indices3 hperm3
      exact sat_pure hperm3
    · intro _
      exact sat_pure hperm2 )
theorem lrLoop_err_pos (dyn : Array Dyn) (size align : Nat) (hal : 0 < align) (nbrs : List Nat) :
    ∀ (fuel address : Nat) (pred : Option Nat),
      ErrIn (fun e => e = .lrfuel) (lrLoop dyn size align nbrs fuel address pred) := by
  have hne : (align == 0) = false := by simp; omega
  intro fuel
  induction fuel with
  | zero =>
    intro address pred
    unfold lrLoop
    simp only [hne]
    split
    · exact errIn_ok _
    · exact errIn_error rfl
  | succ f ih =>
    intro address pred
    unfold lrLoop
    simp only [hne]
    split
    · exact errIn_ok _
    · exact ih _ _

theorem hcAllocateLr_ok (lrs : List LR) (dyn : Array Dyn) (ix : Nat) (hix : ix < lrs.length)
    (hal : 0 < lrs[ix].align) : ∃ a p, hcAllocateLr (mkInfos lrs) dyn ix = .ok (a, p) := by
  cases h : hcAllocateLr (mkInfos lrs) dyn ix with
  | ok r => exact ⟨r.1, r.2, rfl⟩
  | error e =>
    exfalso
    have h1 := hcAllocateLr_no_fuel_error (mkInfos lrs) dyn ix
    have h2 : e = .lrfuel := by
      unfold hcAllocateLr at h
      simp only at h
      have hal' : 0 < (getInfo (mkInfos lrs) ix).lr.align := by
        rw [(getInfo_mkInfos lrs ix hix).1]; exact hal
      exact lrLoop_err_pos _ _ _ hal' _ _ _ _ e h
    rw [h2] at h
    exact h1 h

/-- no error, turns stay below `n`, sizes, and completeness when the size stays within `best` -/
theorem go_total (lrs : List LR) (best : Nat) (halign : ∀ lr ∈ lrs, 0 < lr.align) :
    ∀ (ixs : List Nat) (k : Nat) (dyn : Array Dyn) (size : Nat),
      dyn.size = lrs.length → (∀ ix ∈ ixs, ix < lrs.length) → k + ixs.length ≤ lrs.length →
      (∀ i, i < lrs.length → (getDyn dyn i).turn < lrs.length) →
      ∃ dyn' s', hcAllocGo (mkInfos lrs) best ixs k dyn size = .ok (dyn', s') ∧
        dyn'.size = lrs.length ∧ (∀ i, i < lrs.length → (getDyn dyn' i).turn < lrs.length) ∧
        (∀ i, (getDyn dyn i).addr.isSome → (getDyn dyn' i).addr.isSome) ∧
        (s' ≤ best → ∀ ix ∈ ixs, (getDyn dyn' ix).addr.isSome) := by
  intro ixs
  induction ixs with
  | nil =>
    intro k dyn size hsz _ _ hturn
    exact ⟨dyn, size, rfl, hsz, hturn, fun i h => h, fun _ ix hix => by cases hix⟩
  | cons ix rest ih =>
    intro k dyn size hsz hlt hk hturn
    have hix : ix < lrs.length := hlt ix (by simp)
    have hixd : ix < dyn.size := by rw [hsz]; exact hix
    obtain ⟨a, p, hlr⟩ := hcAllocateLr_ok lrs dyn ix hix (halign _ (List.getElem_mem hix))
    simp only [hcAllocGo, mkInfos_size, hix, if_true, hlr]
    simp only [List.length_cons] at hk
    have hturn1 : ∀ i, i < lrs.length →
        (getDyn (dyn.setIfInBounds ix ⟨some a, a + (getInfo (mkInfos lrs) ix).lr.size, p, k⟩) i).turn < lrs.length := by
      intro i hi
      by_cases hi' : ix = i
      · subst hi'; rw [getDyn_set_eq _ _ _ hixd]; simp only; omega
      · rw [getDyn_set_ne _ _ _ _ hi']; exact hturn i hi
    have hmono1 : ∀ i, (getDyn dyn i).addr.isSome →
        (getDyn (dyn.setIfInBounds ix ⟨some a, a + (getInfo (mkInfos lrs) ix).lr.size, p, k⟩) i).addr.isSome := by
      intro i hs
      by_cases hi' : ix = i
      · subst hi'; rw [getDyn_set_eq _ _ _ hixd]; rfl
      · rw [getDyn_set_ne _ _ _ _ hi']; exact hs
    split
    · rename_i hbreak
      refine ⟨_, _, rfl, by rw [Array.size_setIfInBounds]; exact hsz, hturn1, hmono1, ?_⟩
      intro hle; omega
    · obtain ⟨dyn', s', h1, h2, h3, h4, h5⟩ := ih (k + 1) _ (max size (a + (getInfo (mkInfos lrs) ix).lr.size))
        (by rw [Array.size_setIfInBounds]; exact hsz) (fun x hx => hlt x (by simp [hx])) (by omega) hturn1
      refine ⟨dyn', s', h1, h2, h3, fun i hs => h4 i (hmono1 i hs), ?_⟩
      intro hle x hx
      rcases List.mem_cons.1 hx with rfl | hx
      · apply h4
        rw [getDyn_set_eq _ _ _ hixd]; rfl
      · exact h5 hle x hx

theorem go_bound (lrs : List LR) (hw : WellIds lrs) (best C : Nat)
    (hC : ∀ lr ∈ lrs, lr.size + lr.align ≤ C ∧ 0 < lr.align) :
    ∀ (ixs : List Nat) (k : Nat) (dyn : Array Dyn) (size : Nat) (dyn' : Array Dyn) (s' : Nat),
      dyn.size = lrs.length →
      (∀ i, i < lrs.length → ∀ a, (getDyn dyn i).addr = some a → (getDyn dyn i).endAddr ≤ size) →
      size ≤ k * C → hcAllocGo (mkInfos lrs) best ixs k dyn size = .ok (dyn', s') →
      s' ≤ (k + ixs.length) * C := by
  intro ixs
  induction ixs with
  | nil =>
    intro k dyn size dyn' s' _ _ hs h
    simp only [hcAllocGo] at h
    injection h with h
    injection h with h1 h2
    subst h2
    simpa using hs
  | cons ix rest ih =>
    intro k dyn size dyn' s' hsz hends hs h
    simp only [hcAllocGo] at h
    split at h
    · rename_i hlt
      rw [mkInfos_size] at hlt
      split at h
      · cases h
      · rename_i a p hlr
        have hixd : ix < dyn.size := by rw [hsz]; exact hlt
        obtain ⟨hCix, halix⟩ := hC _ (List.getElem_mem hlt)
        have hlr_eq := (getInfo_mkInfos lrs ix hlt).1
        have ha : a ≤ size + lrs[ix].align := by
          rcases hcAllocateLr_pred lrs hw dyn ix hlt a p hlr with ⟨h0, _⟩ | ⟨j, hjn, _, hjs, hja, _⟩
          · omega
          · have := roundUp_lt (getDyn dyn j).endAddr lrs[ix].align halix
            cases hj : (getDyn dyn j).addr with
            | none => simp [hj] at hjs
            | some aj => have := hends j hjn aj hj; omega
        have hsize' : max size (a + (getInfo (mkInfos lrs) ix).lr.size) ≤ (k + 1) * C := by
          rw [hlr_eq, Nat.succ_mul]; omega
        have hlen : k + (ix :: rest).length = (k + 1) + rest.length := by
          simp only [List.length_cons]; omega
        split at h
        · injection h with h
          injection h with h1 h2
          subst h2
          rw [hlen]
          exact Nat.le_trans hsize' (Nat.mul_le_mul_right C (by omega))
        · rw [hlen]
          refine ih (k + 1) _ _ dyn' s' (by rw [Array.size_setIfInBounds]; exact hsz) ?_ hsize' h
          intro i hi a' ha'
          by_cases hi' : ix = i
          · subst hi'
            rw [getDyn_set_eq _ _ _ hixd] at ha' ⊢
            simp only at ha' ⊢
            omega
          · rw [getDyn_set_ne _ _ _ _ hi'] at ha' ⊢
            have := hends i hi a' ha'
            omega
    · cases h

theorem getDyn_reset_other (dyn : Array Dyn) (i : Nat) :
    (getDyn (dyn.map (fun d => { d with addr := none })) i).pred = (getDyn dyn i).pred ∧
    (getDyn (dyn.map (fun d => { d with addr := none })) i).turn = (getDyn dyn i).turn := by
  unfold getDyn
  simp only [Array.getD_eq_getD_getElem?, Array.getElem?_map]
  cases dyn[i]? <;> exact ⟨rfl, rfl⟩

def AllSome (alloc : Array (Option Nat)) : Prop := ∀ x ∈ alloc.toList, x.isSome

theorem mapM_id_allSome (xs : List (Option Nat)) (h : ∀ x ∈ xs, x.isSome) : ∃ l, xs.mapM id = some l := by
  induction xs with
  | nil => exact ⟨[], rfl⟩
  | cons x xs ih =>
    obtain ⟨l, hl⟩ := ih (fun y hy => h y (by simp [hy]))
    cases hx : x with
    | none => have := h x (by simp); simp [hx] at this
    | some a =>
      refine ⟨a :: l, ?_⟩
      rw [List.mapM_cons]
      simp [hl]

/-- what one `allocate_indices` does to the loop state (valid inputs, `indices` a permutation) -/
theorem allocIndices_step (lrs : List LR) (hw : WellIds lrs) (halign : ∀ lr ∈ lrs, 0 < lr.align)
    (dyn : Array Dyn) (run : Nat → Nat) (R : Nat)
    (hsz : dyn.size = lrs.length) (_hn : 0 < lrs.length) (hchain : ChainInv lrs.length dyn run)
    (hturn : ∀ i, i < lrs.length → (getDyn dyn i).turn < lrs.length)
    (hrunR : ∀ i, i < lrs.length → run i ≤ R)
    (indices : List Nat) (hperm : IsPerm lrs.length indices) (best : Nat) :
    ∃ dyn' s' run', hcAllocateIndices (mkInfos lrs) dyn indices best = .ok (dyn', s') ∧
      dyn'.size = lrs.length ∧ ChainInv lrs.length dyn' run' ∧
      (∀ i, i < lrs.length → (getDyn dyn' i).turn < lrs.length) ∧
      (∀ i, i < lrs.length → run' i ≤ R + 1) ∧ (∀ i, i < lrs.length → run i ≤ run' i) ∧
      (s' ≤ best → AllSome (snapshot dyn') ∧ ∀ i, i < lrs.length → run' i = R + 1) := by
  unfold hcAllocateIndices
  have hsz0 : (dyn.map (fun d => { d with addr := none })).size = lrs.length := by
    rw [Array.size_map]; exact hsz
  have hturn0 : ∀ i, i < lrs.length →
      (getDyn (dyn.map (fun d => { d with addr := none })) i).turn < lrs.length := by
    intro i hi; rw [(getDyn_reset_other dyn i).2]; exact hturn i hi
  have hchain0 : ChainInv lrs.length (dyn.map (fun d => { d with addr := none })) run := by
    constructor
    intro i hi hr p hp
    rw [(getDyn_reset_other dyn i).1] at hp
    obtain ⟨h1, h2, h3⟩ := hchain.pred_ok i hi hr p hp
    refine ⟨h1, h2, ?_⟩
    unfold KeyLt at h3 ⊢
    rw [(getDyn_reset_other dyn i).2, (getDyn_reset_other dyn p).2]
    exact h3
  obtain ⟨dyn', s', hgo, hsz', hturn', _, hcomplete⟩ := go_total lrs best halign indices 0 _ 0 hsz0
    (fun ix hix => hperm.lt hix) (by rw [hperm.length]; omega) hturn0
  obtain ⟨run', hc1, hc2, hc3, hc4⟩ := go_chain lrs hw best (R + 1) (by omega) indices 0 _ 0 run []
    dyn' s' hsz0 hchain0
    (by intro i _ hs; rw [getDyn_reset] at hs; cases hs)
    (by intro i hi _; have := hrunR i hi; omega)
    (by intro ix _ h; cases h) hperm.nodup hgo
  refine ⟨dyn', s', run', hgo, hsz', hc1, hturn', hc2, hc3, ?_⟩
  intro hle
  have hall : ∀ i, i < lrs.length → (getDyn dyn' i).addr.isSome :=
    fun i hi => hcomplete hle i (hperm.mem hi)
  refine ⟨?_, fun i hi => hc4 i hi (hall i hi)⟩
  intro x hx
  simp only [snapshot, Array.toList_map, List.mem_map] at hx
  obtain ⟨d, hd, rfl⟩ := hx
  obtain ⟨i, hi, rfl⟩ := List.getElem_of_mem hd
  have hi' : i < lrs.length := by rw [← hsz']; simpa using hi
  have := hall i hi'
  unfold getDyn at this
  rw [Array.getD_eq_getD_getElem?] at this
  simp only [Array.length_toList] at hi
  simpa [hi] using this

/-- the state of the `search` loop between iterations -/
structure SearchInv (lrs : List LR) (dyn : Array Dyn) (indices bestIndices : List Nat)
    (alloc : Array (Option Nat)) : Prop where
  pre : ∃ run R, FixPre lrs.length dyn run ∧ ∀ i, i < lrs.length → run i ≤ R
  perm : IsPerm lrs.length indices
  bperm : IsPerm lrs.length bestIndices
  allsome : AllSome alloc

theorem hcSearch_sat (lrs : List LR) (hw : WellIds lrs) (halign : ∀ lr ∈ lrs, 0 < lr.align)
    (minReq memLimit maxIter : Nat) :
    ∀ (fuel : Nat) (dyn : Array Dyn) (indices bestIndices : List Nat) (best last i : Nat)
      (alloc : Array (Option Nat)) (draws : List Nat),
      SearchInv lrs dyn indices bestIndices alloc →
      Sat PyErr (fun r => ∀ x, r = some x → AllSome x.alloc)
        (hcSearch (mkInfos lrs) minReq memLimit maxIter fuel dyn indices bestIndices best last i alloc draws) := by
  intro fuel
  induction fuel with
  | zero =>
    intro dyn indices bestIndices best last i alloc draws inv
    unfold hcSearch
    split
    · apply sat_ok; intro x hx; cases hx
    · apply sat_ok; intro x hx; injection hx with hx; subst hx; exact inv.allsome
  | succ f ih =>
    intro dyn indices bestIndices best last i alloc draws inv
    unfold hcSearch
    split
    · simp only
      obtain ⟨run, R, pre, hR⟩ := inv.pre
      have hfix := hcFix_sat lrs hw dyn run pre indices inv.perm (i - last) draws
      cases hf : hcFix (mkInfos lrs) dyn indices (i - last) draws with
      | error e => rw [hf] at hfix; exact sat_error hfix
      | ok r =>
        rw [hf] at hfix
        obtain ⟨indices', draws'⟩ := r
        have hperm' : IsPerm lrs.length indices' := hfix
        simp only
        obtain ⟨dyn', s', run', hai, hsz', hchain', hturn', hrun', hmono, hcomplete⟩ :=
          allocIndices_step lrs hw halign dyn run R pre.size_eq pre.npos pre.chain pre.turn_lt hR
            indices' hperm' best
        rw [hai]
        simp only
        have pre' : FixPre lrs.length dyn' run' :=
          ⟨pre.npos, hsz', hchain', fun j hj => Nat.le_trans (pre.init j hj) (hmono j hj), hturn'⟩
        split
        · rename_i hle
          have hsome := (hcomplete hle).1
          split
          · apply sat_ok; intro x hx; injection hx with hx; subst hx; exact hsome
          · exact ih _ _ _ _ _ _ _ _ ⟨⟨run', R + 1, pre', hrun'⟩, hperm', hperm', hsome⟩
        · exact ih _ _ _ _ _ _ _ _ ⟨⟨run', R + 1, pre', hrun'⟩, inv.bperm, inv.bperm, inv.allsome⟩
    · apply sat_ok; intro x hx; injection hx with hx; subst hx; exact inv.allsome

theorem isort_ids_perm (lrs : List LR) (hw : WellIds lrs) :
    IsPerm lrs.length ((isort infoLe (mkInfos lrs).toList).map (·.lr.id)) := by
  unfold IsPerm
  refine ((isort_perm infoLe _).map _).trans ?_
  have h1 : (mkInfos lrs).toList.map (·.lr.id) = lrs.map (·.id) := by
    simp [mkInfos, List.map_map, Function.comp_def]
  have h2 : lrs.map (·.id) = List.range lrs.length := by
    apply List.ext_getElem
    · simp
    · intro i hi1 hi2
      simp only [List.getElem_map, List.getElem_range]
      exact hw i (by simpa using hi1)
  have : (mkInfos lrs).toList.map (·.lr.id) = List.range lrs.length := h1.trans h2
  rw [this]

/-- **HillClimb on valid input returns addresses** unless the supplied oracle list is too short:
    no Python exception and no other model outcome is reachable. -/
theorem hcAllocate_outcomes (lrs : List LR) (hw : WellIds lrs) (hne : lrs ≠ []) (C : Nat)
    (hC : ∀ lr ∈ lrs, lr.size + lr.align ≤ C ∧ 0 < lr.align) (hbound : lrs.length * C ≤ 2 ^ 63)
    (maxIter : Option Nat) (memLimit : Nat) (draws : List Nat) :
    Sat PyErr (fun _ => True) (hcAllocate lrs maxIter memLimit draws) := by
  have hn : 0 < lrs.length := List.length_pos_iff.2 hne
  have halign : ∀ lr ∈ lrs, 0 < lr.align := fun lr h => (hC lr h).2
  unfold hcAllocate
  simp only
  -- the initial allocation from the freshly constructed LiveRangeInfo objects
  have hsz0 : ((lrs.map (fun _ => (⟨some 0, 0, some 0, 0⟩ : Dyn))).toArray).size = lrs.length := by simp
  have hget0 : ∀ i, getDyn ((lrs.map (fun _ => (⟨some 0, 0, some 0, 0⟩ : Dyn))).toArray) i =
      ⟨some 0, 0, some 0, 0⟩ ∨
      getDyn ((lrs.map (fun _ => (⟨some 0, 0, some 0, 0⟩ : Dyn))).toArray) i = default := by
    intro i
    unfold getDyn
    rw [Array.getD_eq_getD_getElem?]
    by_cases hi : i < lrs.length
    · left; simp [hi]
    · right; simp [hi]
  obtain ⟨dyn1, best, run1, hai, hsz1, hchain1, hturn1, hrun1, _, hcomplete⟩ :=
    allocIndices_step lrs hw halign _ (fun _ => 0) 0 hsz0 hn
      ⟨fun i _ h => by omega⟩
      (by intro i _; rcases hget0 i with h | h <;> rw [h] <;> exact hn)
      (fun _ _ => Nat.le_refl _) _ (isort_ids_perm lrs hw) (2 ^ 63)
  rw [hai]
  simp only
  -- the first allocation never hits the early `break`
  have hbest : best ≤ 2 ^ 63 := by
    have := go_bound lrs hw (2 ^ 63) C hC _ 0 _ 0 dyn1 best (by rw [Array.size_map]; exact hsz0)
      (by intro i _ a ha; rw [getDyn_reset] at ha; cases ha) (by omega) hai
    rw [(isort_ids_perm lrs hw).length, Nat.zero_add] at this
    omega
  obtain ⟨hsome1, hinit1⟩ := hcomplete hbest
  have hfin : ∀ (r : SearchResult), AllSome r.alloc → Sat PyErr (fun _ => True)
      (match r.alloc.toList.mapM id with
        | some addrs => (Except.ok ⟨addrs, r.iters, r.drawsLeft⟩ : Except Err HcResult)
        | none => .error .unalloc) := by
    intro r hr
    obtain ⟨l, hl⟩ := mapM_id_allSome r.alloc.toList hr
    rw [hl]
    exact sat_ok trivial
  split
  · have hs := hcSearch_sat lrs hw halign (minRequired lrs) memLimit (maxIter.getD hcMaxIterations)
      (searchFuel (maxIter.getD hcMaxIterations) best) dyn1 _ _ best 0 0 (snapshot dyn1) draws
      ⟨⟨run1, 1, ⟨hn, hsz1, hchain1, fun i hi => by rw [hinit1 i hi]; omega, hturn1⟩, hrun1⟩,
        isort_ids_perm lrs hw, isort_ids_perm lrs hw, hsome1⟩
    cases hr : hcSearch (mkInfos lrs) (minRequired lrs) memLimit (maxIter.getD hcMaxIterations)
        (searchFuel (maxIter.getD hcMaxIterations) best) dyn1 _ _ best 0 0 (snapshot dyn1) draws with
    | error e => rw [hr] at hs; exact sat_error hs
    | ok o =>
      rw [hr] at hs
      cases o with
      | none =>
        exfalso
        exact hcSearch_terminates _ _ _ _ _ _ _ _ _ _ _ _ _ (by
          unfold searchFuel
          simp only [hcMinIterationsImprove]
          omega) hr
      | some r => exact hfin r (hs r rfl)
  · exact hfin ⟨snapshot dyn1, 0, draws, best⟩ hsome1
end VelaVerif.Alloc
