import Mathlib.Data.List.Basic
import Mathlib.Data.List.Forall2
import Mathlib.Data.List.Sort
import VelaVerif.Model.TfliteWriter
import VelaVerif.Lemmas.TensorOrder
/-! Lemmas about the TFLite writer model (Model/TfliteWriter.lean): the order on operator codes, inversion of the monadic
steps, buffer numbering, tensor records, tensor indices. -/
set_option linter.unusedSimpArgs false
namespace VelaVerif.Tflite.Writer
open VelaVerif.Gen VelaVerif.OpIndices

/-! ## inversion helpers -/

theorem bind_ok {α β : Type} {x : Except String α} {f : α → Except String β} {b : β} (h : (x >>= f) = .ok b) :
    ∃ a, x = .ok a ∧ f a = .ok b := by
  cases x with
  | error e => simp [bind, Except.bind] at h
  | ok a => exact ⟨a, rfl, by simpa [bind, Except.bind] using h⟩

theorem check_ok {c : Bool} {e : String} {u : Unit} (h : check c e = .ok u) : c = true := by
  unfold check at h
  cases c <;> simp [throw, throwThe, MonadExceptOf.throw, pure, Except.pure] at h ⊢

/-! ## the order on operator codes -/

theorem bytesLe_total : ∀ a b : Bytes, bytesLe a b = true ∨ bytesLe b a = true
  | [], _ => Or.inl rfl
  | _ :: _, [] => Or.inr rfl
  | x :: xs, y :: ys => by
    simp only [bytesLe]
    rcases Nat.lt_trichotomy x y with h | h | h
    · simp [h]
    · subst h; simpa using bytesLe_total xs ys
    · right; simp [h]

theorem bytesLe_antisymm : ∀ a b : Bytes, bytesLe a b = true → bytesLe b a = true → a = b
  | [], [], _, _ => rfl
  | [], _ :: _, _, h => by simp [bytesLe] at h
  | _ :: _, [], h, _ => by simp [bytesLe] at h
  | x :: xs, y :: ys, h1, h2 => by
    simp only [bytesLe] at h1 h2
    rcases Nat.lt_trichotomy x y with h | h | h
    · have : ¬ y < x := by omega
      simp [h, this] at h2
    · subst h; simp at h1 h2; rw [bytesLe_antisymm xs ys h1 h2]
    · have : ¬ x < y := by omega
      simp [h, this] at h1

theorem bytesLe_trans : ∀ a b c : Bytes, bytesLe a b = true → bytesLe b c = true → bytesLe a c = true
  | [], _, _, _, _ => by simp [bytesLe]
  | _ :: _, [], _, h, _ => by simp [bytesLe] at h
  | _ :: _, _ :: _, [], _, h => by simp [bytesLe] at h
  | x :: xs, y :: ys, z :: zs, h1, h2 => by
    simp only [bytesLe] at h1 h2 ⊢
    by_cases hxy : x < y
    · by_cases hyz : y < z
      · have : x < z := by omega
        simp [this]
      · by_cases hzy : z < y
        · simp [hyz, hzy] at h2
        · have : y = z := by omega
          subst this; simp [hxy]
    · by_cases hyx : y < x
      · simp [hxy, hyx] at h1
      · have : x = y := by omega
        subst this
        simp at h1
        by_cases hyz : x < z
        · simp [hyz]
        · by_cases hzy : z < x
          · simp [hyz, hzy] at h2
          · have : x = z := by omega
            subst this; simp at h2 ⊢; exact bytesLe_trans xs ys zs h1 h2

theorem Code.le_total (a b : Code) : Code.le a b = true ∨ Code.le b a = true := by
  unfold Code.le
  by_cases h1 : a.opId = b.opId
  · by_cases h2 : a.custom = b.custom
    · simp [h1, h2]; try omega
    · have h2' : ¬ b.custom = a.custom := fun h => h2 h.symm
      simp [h1, h2, h2']; exact bytesLe_total _ _
  · have h1' : ¬ b.opId = a.opId := fun h => h1 h.symm
    simp [h1, h1']; try omega

theorem Code.le_antisymm (a b : Code) (hab : Code.le a b = true) (hba : Code.le b a = true) : a = b := by
  unfold Code.le at hab hba
  by_cases h1 : a.opId = b.opId
  · by_cases h2 : a.custom = b.custom
    · simp [h1, h2] at hab hba
      cases a; cases b; simp_all; omega
    · have h2' : ¬ b.custom = a.custom := fun h => h2 h.symm
      simp [h1, h2, h2'] at hab hba
      exact absurd (bytesLe_antisymm _ _ hab hba) h2
  · have h1' : ¬ b.opId = a.opId := fun h => h1 h.symm
    simp [h1, h1'] at hab hba; omega

theorem Code.le_trans (a b c : Code) (hab : Code.le a b = true) (hbc : Code.le b c = true) : Code.le a c = true := by
  unfold Code.le at hab hbc ⊢
  by_cases h1 : a.opId = b.opId <;> by_cases h2 : b.opId = c.opId
  · have h3 : a.opId = c.opId := h1.trans h2
    by_cases g1 : a.custom = b.custom <;> by_cases g2 : b.custom = c.custom
    · have g3 : a.custom = c.custom := g1.trans g2
      simp [h1, h2, h3, g1, g2, g3] at hab hbc ⊢; omega
    · have g3 : ¬ a.custom = c.custom := fun h => g2 (g1 ▸ h)
      simp [h1, h2, h3, g1, g2, g3] at hab hbc ⊢
      exact hbc
    · have g3 : ¬ a.custom = c.custom := fun h => g1 (h.trans g2.symm)
      simp [h1, h2, h3, g1, g2, g3] at hab hbc ⊢
      exact hab
    · simp [h1, h2, h3, g1, g2] at hab hbc
      have t := bytesLe_trans _ _ _ hab hbc
      by_cases g3 : a.custom = c.custom
      · exfalso
        rw [g3] at hab
        exact g2 (bytesLe_antisymm _ _ hbc hab)
      · simp [h3, g3]; exact t
  · have h3 : ¬ a.opId = c.opId := fun h => h2 (h1 ▸ h)
    simp [h1, h2, h3] at hab hbc ⊢; omega
  · have h3 : ¬ a.opId = c.opId := fun h => h1 (h.trans h2.symm)
    simp [h1, h2, h3] at hab hbc ⊢; omega
  · simp [h1, h2] at hab hbc
    have h3 : ¬ a.opId = c.opId := by omega
    simp [h3]; omega

/-- sorting with a total, transitive, antisymmetric order does not depend on the order of the input -/
theorem isort_perm {β : Type} (le : β → β → Bool) (total : ∀ a b, le a b = true ∨ le b a = true)
    (trans : ∀ a b c, le a b = true → le b c = true → le a c = true) (antisymm : ∀ a b, le a b = true → le b a = true → a = b)
    (l₁ l₂ : List β) (hp : l₁.Perm l₂) : isort le l₁ = isort le l₂ := by
  rw [isort_eq, isort_eq]
  let R : β → β → Prop := fun a b => le a b = true
  have : Std.Total R := ⟨fun a b => total a b⟩
  have : IsTrans _ R := ⟨fun a b c => trans a b c⟩
  have s1 := List.pairwise_insertionSort R l₁
  have s2 := List.pairwise_insertionSort R l₂
  have p := ((List.perm_insertionSort R l₁).trans hp).trans (List.perm_insertionSort R l₂).symm
  exact List.Perm.eq_of_pairwise (le := R) (fun a b _ _ h1 h2 => antisymm a b h1 h2) s1 s2 p

theorem sortCodes_perm (l₁ l₂ : List Code) (hp : l₁.Perm l₂) : sortCodes l₁ = sortCodes l₂ :=
  isort_perm Code.le Code.le_total Code.le_trans Code.le_antisymm l₁ l₂ hp

theorem sortCodes_perm_self (l : List Code) : (sortCodes l).Perm l := by
  unfold sortCodes
  rw [isort_eq]
  exact List.perm_insertionSort _ l

/-! ## `write` / `writeWith` -/

theorem writeWith_congr (d : Desc) (e1 e2 : List Code) (h : sortCodes e1 = sortCodes e2) : writeWith d e1 = writeWith d e2 := by
  unfold writeWith
  simp only [h]

theorem write_eq (d : Desc) (subs : List PSub) (h : (subgraphsToWrite d).mapM (prepSub d.tensors) = .ok subs) :
    write d = writeWith d (codeSet subs) := by
  unfold write codesOf
  simp only [h, bind, Except.bind, pure, Except.pure]

theorem write_err (d : Desc) (e : String) (h : (subgraphsToWrite d).mapM (prepSub d.tensors) = .error e) (enum : List Code) :
    write d = .error e ∧ writeWith d enum = .error e := by
  unfold write codesOf writeWith
  simp only [h, bind, Except.bind, and_self]

/-! ## first-occurrence de-duplication (`dict` keys, `set` elements) -/

theorem mem_addNew [BEq α] [LawfulBEq α] (l : List α) (x y : α) : y ∈ addNew l x ↔ y ∈ l ∨ y = x := by
  unfold addNew
  by_cases h : x ∈ l
  · simp only [List.contains_eq_mem, h, decide_true, if_true]
    constructor
    · exact Or.inl
    · rintro (h' | rfl)
      · exact h'
      · exact h
  · simp [h]

theorem nodup_addNew [BEq α] [LawfulBEq α] (l : List α) (x : α) (h : l.Nodup) : (addNew l x).Nodup := by
  unfold addNew
  by_cases hc : x ∈ l
  · simp [hc, h]
  · simp only [List.contains_eq_mem, hc, decide_false]
    simp [List.nodup_append, h]
    intro a ha hax
    exact hc (hax ▸ ha)

theorem foldl_addNew_spec [BEq α] [LawfulBEq α] (xs : List α) : ∀ (init : List α), init.Nodup →
    (xs.foldl addNew init).Nodup ∧ ∀ y, y ∈ xs.foldl addNew init ↔ y ∈ init ∨ y ∈ xs := by
  induction xs with
  | nil => intro init h; simp [h]
  | cons x xs ih =>
    intro init h
    obtain ⟨n, m⟩ := ih (addNew init x) (nodup_addNew init x h)
    refine ⟨n, fun y => ?_⟩
    rw [List.foldl_cons, m, mem_addNew]
    simp only [List.mem_cons]
    tauto

theorem dedup_nodup [BEq α] [LawfulBEq α] (xs : List α) : (dedup xs).Nodup := (foldl_addNew_spec xs [] List.nodup_nil).1
theorem mem_dedup [BEq α] [LawfulBEq α] (xs : List α) (y : α) : y ∈ dedup xs ↔ y ∈ xs := by
  have := (foldl_addNew_spec xs [] List.nodup_nil).2 y
  simpa [dedup] using this

theorem codeSet_nodup (subs : List PSub) : (codeSet subs).Nodup := dedup_nodup _

/-! ## buffer numbering, tensor records -/

theorem bufIdxZero_eq : WriterTbl.bufIdxZero = 0 := rfl
theorem bufIdxStart_pos : 0 < WriterTbl.bufIdxStart := by decide

theorem assignBuffers_length (area : Option Nat) : ∀ (tds : List TensorD) (b : Nat), (assignBuffers area tds b).1.length = tds.length
  | [], _ => rfl
  | t :: rest, b => by
    unfold assignBuffers
    split <;> simp [assignBuffers_length area rest]

theorem assignBuffers_le (area : Option Nat) : ∀ (tds : List TensorD) (b : Nat), b ≤ (assignBuffers area tds b).2
  | [], _ => Nat.le_refl _
  | t :: rest, b => by
    unfold assignBuffers
    split
    · exact assignBuffers_le area rest b
    · have := assignBuffers_le area rest (b + 1); simp only; omega

theorem assignBuffers_range (area : Option Nat) : ∀ (tds : List TensorD) (b : Nat) (x : Nat),
    x ∈ (assignBuffers area tds b).1 → x = 0 ∨ (b ≤ x ∧ x < (assignBuffers area tds b).2)
  | [], _, x, h => by simp [assignBuffers] at h
  | t :: rest, b, x, h => by
    unfold assignBuffers at h ⊢
    split at h
    · rename_i hc
      simp only [hc, if_true]
      simp only [List.mem_cons] at h
      rcases h with h | h
      · left; exact h
      · exact assignBuffers_range area rest b x h
    · rename_i hc
      simp only [hc]
      simp only [List.mem_cons] at h
      rcases h with h | h
      · right; subst h
        have := assignBuffers_le area rest (x + 1)
        simp; omega
      · rcases assignBuffers_range area rest (b + 1) x h with h0 | ⟨h1, h2⟩
        · left; exact h0
        · right; simp; omega

theorem assignBuffers_nodup (area : Option Nat) : ∀ (tds : List TensorD) (b : Nat), 0 < b →
    ((assignBuffers area tds b).1.filter (· ≠ 0)).Nodup
  | [], _, _ => by simp [assignBuffers]
  | t :: rest, b, hb => by
    unfold assignBuffers
    split
    · simpa [bufIdxZero_eq] using assignBuffers_nodup area rest b hb
    · have ih := assignBuffers_nodup area rest (b + 1) (by omega)
      have hb0 : b ≠ 0 := by omega
      simp only [List.filter_cons, hb0, ne_eq, not_false_eq_true, decide_true, if_true, List.nodup_cons]
      refine ⟨?_, by simpa using ih⟩
      intro hm
      have hm' := (List.mem_filter.mp hm).1
      rcases assignBuffers_range area rest (b + 1) b hm' with h0 | ⟨h1, _⟩
      · omega
      · omega

/-- the shape `serialise_tensor` writes -/
def writtenShape (t : TensorD) : List Int := if numElems t.originalShape ≠ numElems t.shape then t.shape else t.originalShape

theorem tensorT_ok (t : TensorD) (b : Nat) (tt : TensorT) (h : tensorT t b = .ok tt) :
    tt.name = some t.name ∧ tt.shape = some (writtenShape t) ∧ dtypeCode t.dtype = some tt.type ∧
    tt.quant = t.quant.map quantT ∧ tt.isVariable = t.isVariable ∧ tt.buffer = b ∧ tt.extra = [] := by
  unfold tensorT at h
  cases hd : dtypeCode t.dtype with
  | none => simp [hd, bind, Except.bind, throw, throwThe, MonadExceptOf.throw] at h
  | some c =>
    simp [hd, bind, Except.bind, pure, Except.pure] at h
    subst h
    simp [writtenShape]

theorem serialiseTensors_ok : ∀ (l : List (TensorD × Nat)) (bufs : List (Option Data)) (tts : List TensorT) (bufs' : List (Option Data)),
    serialiseTensors l bufs = .ok (tts, bufs') →
    bufs'.length = bufs.length ∧
    List.Forall₂ (fun (p : TensorD × Nat) tt => tensorT p.1 p.2 = .ok tt ∧ p.2 < bufs.length ∧ (p.2 = 0 → p.1.values = none)) l tts ∧
    (∀ j, (∀ p ∈ l, p.2 ≠ j) → bufs'[j]? = bufs[j]?) ∧
    (∀ j, (∃ p ∈ l, p.2 = j) → ∃ p ∈ l, p.2 = j ∧ bufs'[j]? = some p.1.values) ∧
    (∀ p ∈ l, p.2 = 0 → p.1.values = none)
  | [], bufs, tts, bufs', h => by
    simp [serialiseTensors, pure, Except.pure] at h
    obtain ⟨rfl, rfl⟩ := h
    simp
  | p :: rest, bufs, tts, bufs', h => by
    unfold serialiseTensors at h
    obtain ⟨_, c1, h⟩ := bind_ok h
    obtain ⟨_, c2, h⟩ := bind_ok h
    obtain ⟨tt, ht, h⟩ := bind_ok h
    obtain ⟨r, hr, h⟩ := bind_ok h
    simp only [pure, Except.pure, Except.ok.injEq, Prod.mk.injEq] at h
    obtain ⟨rfl, rfl⟩ := h
    have c1 := check_ok c1
    have hb : p.2 < bufs.length := by simpa using check_ok c2
    obtain ⟨ih1, ih2, ih3, ih4, ih5⟩ := serialiseTensors_ok rest _ _ _ hr
    have hv : p.2 = 0 → p.1.values = none := by
      intro hb0
      cases hvv : p.1.values with
      | none => rfl
      | some v => simp [hvv, hb0, WriterTbl.bufIdxZero] at c1
    refine ⟨by simpa using ih1, ?_, ?_, ?_, ?_⟩
    rotate_left 3
    · intro q hq
      rcases List.mem_cons.mp hq with rfl | hq'
      · exact hv
      · exact ih5 q hq'
    · refine List.Forall₂.cons ⟨ht, hb, hv⟩ (List.Forall₂.imp ?_ ih2)
      intro q tt' ⟨a1, a2, a3⟩
      exact ⟨a1, by simpa using a2, a3⟩
    · intro j hj
      have hjb : p.2 ≠ j := hj p (List.mem_cons_self ..)
      rw [ih3 j (fun q hq => hj q (List.mem_cons_of_mem _ hq))]
      simp [List.getElem?_set, hjb]
    · intro j hj
      by_cases hex : ∃ q ∈ rest, q.2 = j
      · obtain ⟨q, hq, hqj, hqv⟩ := ih4 j hex
        exact ⟨q, List.mem_cons_of_mem _ hq, hqj, hqv⟩
      · have hjb : p.2 = j := by
          obtain ⟨q, hq, hqj⟩ := hj
          rcases List.mem_cons.mp hq with rfl | hq'
          · exact hqj
          · exact absurd ⟨q, hq', hqj⟩ hex
        refine ⟨p, List.mem_cons_self .., hjb, ?_⟩
        rw [ih3 j (fun q hq hqj => hex ⟨q, hq, hqj⟩)]
        subst hjb
        simp [List.getElem?_set, hb]
/-! ## one subgraph -/

theorem filterMap_refs (ts : List TensorD) : ∀ (all : List Nat), (∀ g ∈ all, g < ts.length) →
    (all.filterMap (ts[·]?)).length = all.length ∧ ∀ (i g : Nat), all[i]? = some g → (all.filterMap (ts[·]?))[i]? = ts[g]?
  | [], _ => by simp
  | a :: rest, h => by
    have ha : a < ts.length := h a (List.mem_cons_self ..)
    obtain ⟨ih1, ih2⟩ := filterMap_refs ts rest (fun g hg => h g (List.mem_cons_of_mem _ hg))
    have hs : ts[a]? = some ts[a] := List.getElem?_eq_getElem ha
    simp only [List.filterMap_cons, hs, List.length_cons, ih1, true_and]
    intro i g hi
    cases i with
    | zero => simp at hi; subst hi; simp [hs]
    | succ i => simp at hi; simpa using ih2 i g hi

theorem refsOk_iff (ts : List TensorD) (l : List Nat) : refsOk ts l = true ↔ ∀ g ∈ l, g < ts.length := by
  simp [refsOk]

theorem sgAll_perm (ts : List TensorD) (ps : PSub) : (sgAll ts ps).Perm (sgSet ps) := by
  unfold sgAll allTensors
  exact emitOrder_perm _ _ _


theorem serialiseSubgraph_ok (ts : List TensorD) (codes : List Code) (st : St) (ps : PSub) (sg : SubGraphT) (st' : St)
    (h : serialiseSubgraph ts codes st ps = .ok (sg, st')) :
    ∃ area bufs outs2 operators,
      refsOk ts (sgSet ps) = true ∧
      scratchAreaOf (sgTds ts ps) = .ok area ∧
      serialiseTensors ((sgTds ts ps).zip (assignBuffers area (sgTds ts ps) st.bufIdx).1)
        (st.buffers ++ List.replicate (assignBuffers area (sgTds ts ps) st.bufIdx).2 none) = .ok (sg.tensors, bufs) ∧
      outputList ps.sg.originalOutputPositions (sgOuts ps) = .ok outs2 ∧
      ((sgOps ps).filter (!·.ignored)).mapM (serialiseOperator codes (sgAll ts ps)) = .ok operators ∧
      sg.operators = operators ∧
      sg.inputs = some (idxList (sgAll ts ps) ps.sg.originalInputs) ∧
      sg.outputs = some (idxList (sgAll ts ps) outs2) ∧
      sg.name = some ps.sg.name ∧ sg.extra = [] ∧
      st' = { bufIdx := (assignBuffers area (sgTds ts ps) st.bufIdx).2, buffers := bufs, maps := st.maps ++ [sgAll ts ps] } := by
  unfold serialiseSubgraph at h
  obtain ⟨_, h1, h⟩ := bind_ok h
  obtain ⟨area, h2, h⟩ := bind_ok h
  obtain ⟨tb, h3, h⟩ := bind_ok h
  obtain ⟨_, h4, h⟩ := bind_ok h
  obtain ⟨outs2, h5, h⟩ := bind_ok h
  obtain ⟨operators, h6, h⟩ := bind_ok h
  simp only [pure, Except.pure, Except.ok.injEq, Prod.mk.injEq] at h
  obtain ⟨rfl, rfl⟩ := h
  have r := check_ok h1
  simp only [Bool.and_eq_true] at r
  exact ⟨area, tb.2, outs2, operators, r.1.1, h2, by simpa using h3, h5, h6, rfl, rfl, rfl, rfl, rfl, rfl⟩

structure StInv (st : St) : Prop where
  pos : 0 < st.bufIdx
  bufs : st.buffers = [] ∨ (st.bufIdx ≤ st.buffers.length ∧ st.buffers[0]? = some none)

/-- what is known about the tensors of one written subgraph, relative to a buffer list `B`: position `i` of the file holds the
record of the `i`-th tensor of `all`, and the buffer it names holds that tensor's constant data -/
def TensorsOk (ts : List TensorD) (all : List Nat) (tensors : List TensorT) (B : List (Option Data)) : Prop :=
  tensors.length = all.length ∧
  ∀ (i g : Nat), all[i]? = some g → ∃ td tt, ts[g]? = some td ∧ tensors[i]? = some tt ∧ tensorT td tt.buffer = .ok tt ∧
    tt.buffer < B.length ∧ B[tt.buffer]? = some td.values

theorem nodup_filter_snd {α : Type} (l : List (α × Nat)) (hn : ((l.map (·.2)).filter (· ≠ 0)).Nodup)
    (p q : α × Nat) (hp : p ∈ l) (hq : q ∈ l) (he : p.2 = q.2) (h0 : p.2 ≠ 0) : p = q := by
  rw [List.filter_map] at hn
  have hp' : p ∈ l.filter ((fun x => decide (x ≠ 0)) ∘ fun x : α × Nat => x.2) := List.mem_filter.mpr ⟨hp, by simpa using h0⟩
  have hq' : q ∈ l.filter ((fun x => decide (x ≠ 0)) ∘ fun x : α × Nat => x.2) := List.mem_filter.mpr ⟨hq, by simpa [← he] using h0⟩
  exact List.inj_on_of_nodup_map hn hp' hq' he

theorem subgraph_step (ts : List TensorD) (codes : List Code) (st : St) (ps : PSub) (sg : SubGraphT) (st' : St)
    (hinv : StInv st) (h : serialiseSubgraph ts codes st ps = .ok (sg, st')) :
    StInv st' ∧ st'.buffers ≠ [] ∧ st.bufIdx ≤ st'.bufIdx ∧ st.buffers.length ≤ st'.buffers.length ∧
    (∀ j, j ≠ 0 → j < st.bufIdx → st'.buffers[j]? = (st.buffers ++ List.replicate st'.bufIdx none)[j]?) ∧
    st'.buffers[0]? = some none ∧
    TensorsOk ts (sgAll ts ps) sg.tensors st'.buffers ∧
    (∀ tt ∈ sg.tensors, tt.buffer = 0 ∨ (st.bufIdx ≤ tt.buffer ∧ tt.buffer < st'.bufIdx)) ∧
    ((sg.tensors.map (·.buffer)).filter (· ≠ 0)).Nodup ∧
    st'.maps = st.maps ++ [sgAll ts ps] := by
  obtain ⟨area, bufs, outs2, operators, hrefs, _, hser, _, _, _, _, _, _, _, rfl⟩ := serialiseSubgraph_ok ts codes st ps sg st' h
  set tds := sgTds ts ps with htds
  set ids := (assignBuffers area tds st.bufIdx).1 with hids
  set nxt := (assignBuffers area tds st.bufIdx).2 with hnxt
  set B0 := st.buffers ++ List.replicate nxt none with hB0
  obtain ⟨hlen, hF, hkeep, hwr, hzero⟩ := serialiseTensors_ok _ _ _ _ hser
  have hnxt_le : st.bufIdx ≤ nxt := assignBuffers_le area tds st.bufIdx
  have hidlen : ids.length = tds.length := assignBuffers_length area tds st.bufIdx
  have hB0len : B0.length = st.buffers.length + nxt := by simp [hB0]
  have hpos := hinv.pos
  -- buffer 0 of B0 is empty
  have hB00 : B0[0]? = some none := by
    rcases hinv.bufs with he | ⟨_, h0⟩
    · simp [hB0, he, List.getElem?_replicate]; omega
    · rw [hB0, List.getElem?_append_left (by omega)]; exact h0
  -- the buffer ids of the written tensors are `ids`
  have hF' := List.forall₂_iff_get.mp hF
  have hzlen : (tds.zip ids).length = tds.length := by simp [hidlen]
  have htlen : sg.tensors.length = tds.length := by rw [← hF'.1, hzlen]
  have hget : ∀ (i : Nat) (tt : TensorT), sg.tensors[i]? = some tt → ∃ td, tds[i]? = some td ∧ ids[i]? = some tt.buffer ∧
      tensorT td tt.buffer = .ok tt ∧ tt.buffer < B0.length ∧ (tt.buffer = 0 → td.values = none) := by
    intro i tt hi
    have hi' : i < sg.tensors.length := (List.getElem?_eq_some_iff.mp hi).1
    have hiz : i < (tds.zip ids).length := by omega
    have hp := hF'.2 i hiz hi'
    have htt : sg.tensors.get ⟨i, hi'⟩ = tt := by
      have := (List.getElem?_eq_some_iff.mp hi).2
      simpa using this
    rw [htt] at hp
    obtain ⟨p1, p2, p3⟩ := hp
    have hb := (tensorT_ok _ _ _ p1).2.2.2.2.2.1
    have hz : (tds.zip ids)[i]? = some ((tds.zip ids).get ⟨i, hiz⟩) := by
      rw [List.get_eq_getElem]; exact List.getElem?_eq_getElem hiz
    obtain ⟨z1, z2⟩ := List.getElem?_zip_eq_some.mp hz
    refine ⟨_, z1, ?_, ?_, ?_, ?_⟩
    · rw [z2, hb]
    · rw [hb]; exact p1
    · rw [hb]; exact p2
    · rw [hb]; exact p3
  have hbufmap : sg.tensors.map (·.buffer) = ids := by
    apply List.ext_getElem?
    intro i
    by_cases hi : i < sg.tensors.length
    · have h1 : sg.tensors[i]? = some sg.tensors[i] := List.getElem?_eq_getElem hi
      obtain ⟨td, _, h2, _⟩ := hget i _ h1
      simp [h1, h2]
    · have h1 : sg.tensors[i]? = none := List.getElem?_eq_none (by omega)
      have h2 : ids[i]? = none := List.getElem?_eq_none (by omega)
      simp [h1, h2]
  have hmem : ∀ tt ∈ sg.tensors, tt.buffer ∈ ids := by
    intro tt htt
    rw [← hbufmap]; exact List.mem_map.mpr ⟨tt, htt, rfl⟩
  have hzsnd : ∀ p ∈ tds.zip ids, p.2 ∈ ids := fun p hp => (List.of_mem_zip hp).2
  have hrange : ∀ x ∈ ids, x = 0 ∨ (st.bufIdx ≤ x ∧ x < nxt) := assignBuffers_range area tds st.bufIdx
  have hnd : (ids.filter (· ≠ 0)).Nodup := assignBuffers_nodup area tds st.bufIdx hpos
  have hbuf0 : bufs[0]? = some none := by
    by_cases hex : ∃ p ∈ tds.zip ids, p.2 = 0
    · obtain ⟨p, hp, hp0, hpv⟩ := hwr 0 hex
      rw [hpv, hzero p hp hp0]
    · rw [hkeep 0 (fun p hp hp0 => hex ⟨p, hp, hp0⟩)]; exact hB00
  have hall : ∀ g ∈ sgAll ts ps, g < ts.length := fun g hg =>
    (refsOk_iff ts (sgSet ps)).mp hrefs g ((sgAll_perm ts ps).subset hg)
  obtain ⟨hfl, hfg⟩ := filterMap_refs ts (sgAll ts ps) hall
  have hbl : bufs.length = st.buffers.length + nxt := by rw [hlen, hB0len]
  refine ⟨⟨show 0 < nxt by omega, Or.inr ⟨show nxt ≤ bufs.length by omega, hbuf0⟩⟩, ?_, hnxt_le,
    show st.buffers.length ≤ bufs.length by omega, ?_, hbuf0, ?_, ?_, ?_, rfl⟩
  · show bufs ≠ []
    intro hnil
    rw [hnil] at hbuf0; simp at hbuf0
  · intro j hj0 hjlt
    show bufs[j]? = B0[j]?
    apply hkeep j
    intro p hp hpj
    rcases hrange p.2 (hzsnd p hp) with h0 | ⟨h1, _⟩
    · exact hj0 (hpj ▸ h0)
    · omega
  · show TensorsOk ts (sgAll ts ps) sg.tensors bufs
    refine ⟨by rw [htlen, htds]; exact hfl, ?_⟩
    intro i g hig
    have hgl : g < ts.length := hall g (List.mem_of_getElem? hig)
    have htd : tds[i]? = some ts[g] := by rw [htds]; unfold sgTds; rw [hfg i g hig]; exact List.getElem?_eq_getElem hgl
    have hi : i < sg.tensors.length := by
      rw [htlen]; exact (List.getElem?_eq_some_iff.mp htd).1
    have htt : sg.tensors[i]? = some sg.tensors[i] := List.getElem?_eq_getElem hi
    obtain ⟨td, htd', hid, hok, hlt, hz⟩ := hget i _ htt
    have hsame : td = ts[g] := by rw [htd] at htd'; exact (Option.some.inj htd').symm
    subst hsame
    refine ⟨ts[g], sg.tensors[i], List.getElem?_eq_getElem hgl, htt, hok, by rw [hlen]; exact hlt, ?_⟩
    by_cases hb0 : sg.tensors[i].buffer = 0
    · rw [hb0, hbuf0, hz hb0]
    · have hpz : (ts[g], sg.tensors[i].buffer) ∈ tds.zip ids :=
        List.mem_of_getElem? (List.getElem?_zip_eq_some.mpr ⟨htd, hid⟩)
      obtain ⟨q, hq, hq2, hqv⟩ := hwr sg.tensors[i].buffer ⟨_, hpz, rfl⟩
      have hsnd : (tds.zip ids).map (·.2) = ids := List.map_snd_zip (by omega)
      have : q = (ts[g], sg.tensors[i].buffer) :=
        nodup_filter_snd (tds.zip ids) (by rw [hsnd]; exact hnd) q _ hq hpz hq2 (by rw [hq2]; exact hb0)
      rw [hqv, this]
  · intro tt htt
    show tt.buffer = 0 ∨ (st.bufIdx ≤ tt.buffer ∧ tt.buffer < nxt)
    exact hrange _ (hmem tt htt)
  · rw [hbufmap]; exact hnd

/-! ## all subgraphs -/

/-- facts about the subgraphs written so far (`maps[k]` = the tensor list of subgraph `k`), relative to the current state -/
structure Acc (ts : List TensorD) (maps : List (List Nat)) (sgs : List SubGraphT) (st : St) : Prop where
  len : maps.length = sgs.length
  tensors : ∀ (k : Nat) all sg, maps[k]? = some all → sgs[k]? = some sg → TensorsOk ts all sg.tensors st.buffers
  below : ∀ sg ∈ sgs, ∀ tt ∈ sg.tensors, tt.buffer < st.bufIdx
  nodup : (((sgs.flatMap (·.tensors)).map (·.buffer)).filter (· ≠ 0)).Nodup
  inv : StInv st
  nonempty : sgs ≠ [] → st.buffers[0]? = some none
  maps_eq : st.maps = maps

theorem acc_init (ts : List TensorD) : Acc ts [] [] st0 where
  len := rfl
  tensors := by intro k all sg h; simp at h
  below := by intro sg h; simp at h
  nodup := by simp
  inv := ⟨by decide, Or.inl rfl⟩
  nonempty := by intro h; exact absurd rfl h
  maps_eq := rfl

theorem tensorsOk_transfer (ts : List TensorD) (all : List Nat) (tensors : List TensorT) (B B' : List (Option Data)) (n : Nat)
    (h : TensorsOk ts all tensors B) (hlt : ∀ tt ∈ tensors, tt.buffer < n) (hn : n ≤ B.length) (hlen : B.length ≤ B'.length)
    (h0 : B[0]? = some none) (h0' : B'[0]? = some none) (hkeep : ∀ j, j ≠ 0 → j < n → B'[j]? = B[j]?) :
    TensorsOk ts all tensors B' := by
  refine ⟨h.1, fun i g hig => ?_⟩
  obtain ⟨td, tt, a1, a2, a3, a4, a5⟩ := h.2 i g hig
  refine ⟨td, tt, a1, a2, a3, by omega, ?_⟩
  by_cases hb : tt.buffer = 0
  · rw [hb] at a5 ⊢
    rw [h0'] ; rw [h0] at a5; exact a5
  · rw [hkeep _ hb (hlt tt (List.mem_of_getElem? a2))]; exact a5

theorem subgraphs_acc (ts : List TensorD) (codes : List Code) : ∀ (rest : List PSub) (st : St) (maps : List (List Nat)) (sgs : List SubGraphT),
    Acc ts maps sgs st → ∀ out stF, serialiseSubgraphs ts codes rest st = .ok (out, stF) →
    Acc ts (maps ++ rest.map (sgAll ts)) (sgs ++ out) stF ∧ out.length = rest.length
  | [], st, maps, sgs, hacc, out, stF, h => by
    simp [serialiseSubgraphs, pure, Except.pure] at h
    obtain ⟨rfl, rfl⟩ := h
    simpa using hacc
  | ps :: rest, st, maps, sgs, hacc, out, stF, h => by
    unfold serialiseSubgraphs at h
    obtain ⟨r, hr, h⟩ := bind_ok h
    obtain ⟨rs, hrs, h⟩ := bind_ok h
    simp only [pure, Except.pure, Except.ok.injEq, Prod.mk.injEq] at h
    obtain ⟨rfl, rfl⟩ := h
    obtain ⟨sg, st'⟩ := r
    obtain ⟨s1, s2, s3, s4, s5, s6, s7, s8, s9, s10⟩ := subgraph_step ts codes st ps sg st' hacc.inv hr
    have hacc' : Acc ts (maps ++ [sgAll ts ps]) (sgs ++ [sg]) st' := by
      refine ⟨by simp [hacc.len], ?_, ?_, ?_, s1, fun _ => s6, by rw [s10, hacc.maps_eq]⟩
      · intro k all sg' hk hs
        by_cases hk' : k < sgs.length
        · rw [List.getElem?_append_left (by rw [hacc.len]; exact hk')] at hk
          rw [List.getElem?_append_left hk'] at hs
          have hne : sgs ≠ [] := by intro hn; rw [hn] at hk'; simp at hk'
          have hb0 := hacc.nonempty hne
          have hB : st.bufIdx ≤ st.buffers.length := by
            rcases hacc.inv.bufs with he | ⟨hle, _⟩
            · rw [he] at hb0; simp at hb0
            · exact hle
          refine tensorsOk_transfer ts all sg'.tensors st.buffers st'.buffers st.bufIdx (hacc.tensors k all sg' hk hs)
            (hacc.below sg' (List.mem_of_getElem? hs)) hB s4 hb0 s6 ?_
          intro j hj0 hjlt
          rw [s5 j hj0 hjlt, List.getElem?_append_left (by omega)]
        · have hk2 : k = sgs.length := by
            have := (List.getElem?_eq_some_iff.mp hs).1
            simp at this; omega
          subst hk2
          rw [← hacc.len] at hk
          simp at hk hs
          subst hk; subst hs
          exact s7
      · intro sg' hsg' tt htt
        rcases List.mem_append.mp hsg' with hm | hm
        · have := hacc.below sg' hm tt htt; omega
        · simp at hm; subst hm
          rcases s8 tt htt with h0 | ⟨_, h2⟩
          · rw [h0]; exact s1.pos
          · exact h2
      · simp only [List.flatMap_append, List.flatMap_cons, List.flatMap_nil, List.append_nil, List.map_append, List.filter_append]
        refine List.Nodup.append hacc.nodup s9 ?_
        intro x hx1 hx2
        obtain ⟨hx1m, hx1n⟩ := List.mem_filter.mp hx1
        obtain ⟨hx2m, _⟩ := List.mem_filter.mp hx2
        obtain ⟨t1, ht1, rfl⟩ := List.mem_map.mp hx1m
        obtain ⟨t2, ht2, he⟩ := List.mem_map.mp hx2m
        obtain ⟨sg1, hsg1, ht1'⟩ := List.mem_flatMap.mp ht1
        have hlt := hacc.below sg1 hsg1 t1 ht1'
        rcases s8 t2 ht2 with h0 | ⟨h1, _⟩
        · simp [← he, h0] at hx1n
        · omega
    obtain ⟨ih, ihl⟩ := subgraphs_acc ts codes rest st' _ _ hacc' rs.1 rs.2 hrs
    refine ⟨?_, by simp [ihl]⟩
    simpa [List.append_assoc] using ih
/-! ## the whole file; indices -/

theorem writeWith_ok (d : Desc) (enum : List Code) (m : ModelT) (h : writeWith d enum = .ok m) :
    ∃ subs opcodes sgs st metas,
      (subgraphsToWrite d).mapM (prepSub d.tensors) = .ok subs ∧
      (sortCodes enum).mapM serialiseOpCode = .ok opcodes ∧
      serialiseSubgraphs d.tensors (sortCodes enum) subs st0 = .ok (sgs, st) ∧
      metadataToWrite d st.maps = .ok metas ∧
      m = assemble d opcodes sgs st metas := by
  unfold writeWith at h
  obtain ⟨subs, h1, h⟩ := bind_ok h
  obtain ⟨opcodes, h2, h⟩ := bind_ok h
  obtain ⟨r, h3, h⟩ := bind_ok h
  obtain ⟨metas, h4, h⟩ := bind_ok h
  simp only [pure, Except.pure, Except.ok.injEq] at h
  exact ⟨subs, opcodes, r.1, r.2, metas, h1, h2, by simpa using h3, h4, h.symm⟩

theorem assemble_buffers_get (d : Desc) (opcodes : List OpCodeT) (sgs : List SubGraphT) (st : St) (metas : List MetaW) (j : Nat) (v : Option Data)
    (h : st.buffers[j]? = some v) : (assemble d opcodes sgs st metas).buffers[j]? = some { data := v } := by
  have hj : j < st.buffers.length := (List.getElem?_eq_some_iff.mp h).1
  simp only [assemble, List.getElem?_map]
  rw [List.getElem?_append_left hj, h]
  rfl

theorem firstIdx_some {α : Type} (p : α → Bool) (l : List α) (i : Nat) (h : firstIdx p l = some i) :
    ∃ a, l[i]? = some a ∧ p a = true := by
  unfold firstIdx at h
  obtain ⟨x, hx, rfl⟩ := Option.map_eq_some_iff.mp h
  exact ⟨x.1, List.mem_zipIdx_iff_getElem?.mp (List.mem_of_find?_eq_some hx), List.find?_some (p := fun x : α × Nat => p x.1) hx⟩

theorem firstIdx_exists {α : Type} (p : α → Bool) (l : List α) (a : α) (ha : a ∈ l) (hp : p a = true) : ∃ i, firstIdx p l = some i := by
  unfold firstIdx
  cases hf : l.zipIdx.find? (fun x => p x.1) with
  | some x => exact ⟨x.2, rfl⟩
  | none =>
    exfalso
    obtain ⟨i, hi⟩ := List.getElem?_of_mem ha
    have hm : (a, i) ∈ l.zipIdx := List.mem_zipIdx_iff_getElem?.mpr hi
    exact (List.find?_eq_none.mp hf) (a, i) hm hp

theorem lastIdx_some {α : Type} (p : α → Bool) (l : List α) (i : Nat) (h : lastIdx p l = some i) :
    ∃ a, l[i]? = some a ∧ p a = true := by
  unfold lastIdx at h
  obtain ⟨x, hx, rfl⟩ := Option.map_eq_some_iff.mp h
  have hm := List.mem_of_getLast? hx
  obtain ⟨h1, h2⟩ := List.mem_filter.mp hm
  exact ⟨x.1, List.mem_zipIdx_iff_getElem?.mp h1, h2⟩

theorem indexIn_some (all : List Nat) (g i : Nat) (h : indexIn all g = some i) : all[i]? = some g := by
  obtain ⟨a, ha, hp⟩ := firstIdx_some _ _ _ h
  have : a = g := by simpa using hp
  rw [ha, this]

theorem indexIn_of_mem (all : List Nat) (g : Nat) (h : g ∈ all) : ∃ i, indexIn all g = some i ∧ all[i]? = some g := by
  obtain ⟨i, hi⟩ := firstIdx_exists (· == g) all g h (by simp)
  exact ⟨i, hi, indexIn_some all g i hi⟩

theorem indexIn_none (all : List Nat) (g : Nat) (h : g ∉ all) : indexIn all g = none := by
  cases hi : indexIn all g with
  | none => rfl
  | some i => exact absurd (List.mem_of_getElem? (indexIn_some all g i hi)) h

theorem mapM_ok {α β : Type} (f : α → Except String β) : ∀ (l : List α) (r : List β), l.mapM f = .ok r →
    r.length = l.length ∧ ∀ (j : Nat) (a : α), l[j]? = some a → ∃ b, r[j]? = some b ∧ f a = .ok b
  | [], r, h => by
    simp [pure, Except.pure] at h
    subst h; simp
  | x :: xs, r, h => by
    rw [List.mapM_cons] at h
    obtain ⟨b, hb, h⟩ := bind_ok h
    obtain ⟨bs, hbs, h⟩ := bind_ok h
    simp only [pure, Except.pure, Except.ok.injEq] at h
    subst h
    obtain ⟨ih1, ih2⟩ := mapM_ok f xs bs hbs
    refine ⟨by simp [ih1], ?_⟩
    intro j a hj
    cases j with
    | zero => simp at hj; subst hj; exact ⟨b, by simp, hb⟩
    | succ j => simp at hj; simpa using ih2 j a hj

def POp.operands (op : POp) : List (Option Nat) := op.inputs ++ op.outputs ++ op.intermediates

theorem foldl_addOpt_spec : ∀ (l : List (Option Nat)) (s : List Nat), s.Nodup →
    (l.foldl (fun s t => match t with | some t => addNew s t | none => s) s).Nodup ∧
    ∀ y, y ∈ l.foldl (fun s t => match t with | some t => addNew s t | none => s) s ↔ y ∈ s ∨ some y ∈ l
  | [], s, hs => by simp [hs]
  | none :: rest, s, hs => by
    obtain ⟨a, b⟩ := foldl_addOpt_spec rest s hs
    refine ⟨by simpa using a, fun y => ?_⟩
    simp only [List.foldl_cons, b, List.mem_cons]
    simp
  | some t :: rest, s, hs => by
    obtain ⟨a, b⟩ := foldl_addOpt_spec rest (addNew s t) (nodup_addNew s t hs)
    refine ⟨by simpa using a, fun y => ?_⟩
    simp only [List.foldl_cons, b, mem_addNew, List.mem_cons, Option.some.injEq]
    tauto

theorem addOperands_spec (op : POp) (s : List Nat) (hs : s.Nodup) :
    (addOperands s op).Nodup ∧ ∀ y, y ∈ addOperands s op ↔ y ∈ s ∨ some y ∈ op.operands :=
  foldl_addOpt_spec _ s hs

theorem foldl_addOperands_spec : ∀ (ops : List POp) (s : List Nat), s.Nodup →
    (ops.foldl addOperands s).Nodup ∧ ∀ y, y ∈ ops.foldl addOperands s ↔ y ∈ s ∨ ∃ op ∈ ops, some y ∈ op.operands
  | [], s, hs => by simp [hs]
  | op :: rest, s, hs => by
    obtain ⟨a, b⟩ := addOperands_spec op s hs
    obtain ⟨c, e⟩ := foldl_addOperands_spec rest (addOperands s op) a
    refine ⟨by simpa using c, fun y => ?_⟩
    simp only [List.foldl_cons, e, b, List.mem_cons, exists_eq_or_imp]
    tauto

theorem tensorSet_nodup (oi : List Nat) (ops : List POp) (outs : List Nat) : (tensorSet oi ops outs).Nodup :=
  (foldl_addNew_spec outs _ (foldl_addOperands_spec _ _ (dedup_nodup oi)).1).1

/-- a tensor is written iff it is an original input, an operand of a written operator or of a Placeholder, or (repair C11-60) a
subgraph output -/
theorem mem_tensorSet (oi : List Nat) (ops : List POp) (outs : List Nat) (y : Nat) :
    y ∈ tensorSet oi ops outs ↔
      (y ∈ oi ∨ ∃ op ∈ ops, (op.ignored = false ∨ op.placeholder = true) ∧ some y ∈ op.operands) ∨ y ∈ outs := by
  unfold tensorSet
  rw [(foldl_addNew_spec outs _ (foldl_addOperands_spec _ _ (dedup_nodup oi)).1).2,
    (foldl_addOperands_spec _ _ (dedup_nodup oi)).2, mem_dedup]
  simp only [List.mem_append, List.mem_filter, Bool.not_eq_true']
  constructor
  · rintro ((h | ⟨op, (⟨h1, h2⟩ | ⟨h1, h2⟩), h3⟩) | h)
    · exact Or.inl (Or.inl h)
    · exact Or.inl (Or.inr ⟨op, h1, Or.inl h2, h3⟩)
    · exact Or.inl (Or.inr ⟨op, h1, Or.inr h2, h3⟩)
    · exact Or.inr h
  · rintro ((h | ⟨op, h1, (h2 | h2), h3⟩) | h)
    · exact Or.inl (Or.inl h)
    · exact Or.inl (Or.inr ⟨op, Or.inl ⟨h1, h2⟩, h3⟩)
    · exact Or.inl (Or.inr ⟨op, Or.inr ⟨h1, h2⟩, h3⟩)
    · exact Or.inr h

theorem sgAll_nodup (ts : List TensorD) (ps : PSub) : (sgAll ts ps).Nodup :=
  (sgAll_perm ts ps).nodup_iff.mpr (tensorSet_nodup _ _ _)

theorem mem_sgAll (ts : List TensorD) (ps : PSub) (y : Nat) : y ∈ sgAll ts ps ↔ y ∈ sgSet ps := (sgAll_perm ts ps).mem_iff


theorem serialiseOperator_ok (codes : List Code) (all : List Nat) (p : POp) (o : OperatorT) (h : serialiseOperator codes all p = .ok o) :
    o.inputs = some (p.inputs.map fun t => match mapIdx all t with | some i => (i : Int) | none => -1) ∧
    o.outputs = some (p.outputs.filterMap fun t => (mapIdx all t).map Int.ofNat) ∧
    o.intermediates = some (p.intermediates.filterMap fun t => (mapIdx all t).map Int.ofNat) ∧
    opcodeIndex codes p = .ok o.opcodeIndex ∧ o.mutating = some [] ∧ o.extra = [] := by
  unfold serialiseOperator at h
  dsimp only at h
  obtain ⟨idx, hidx, h⟩ := bind_ok h
  simp only [pure, Except.pure, Except.ok.injEq] at h
  subst h
  exact ⟨rfl, rfl, rfl, hidx, rfl, rfl⟩

theorem opcodeIndex_ok (codes : List Code) (p : POp) (i : Nat) (h : opcodeIndex codes p = .ok i) :
    ∃ c, codes[i]? = some c ∧ c.opId = p.info.id ∧ c.version = p.version ∧ (p.info.name = "Custom" → c = p.code) := by
  unfold opcodeIndex at h
  dsimp only at h
  by_cases hc : p.info.name == "Custom"
  · simp only [hc, if_true] at h
    cases hl : lastIdx (fun c => c == p.code) codes with
    | none => simp [hl, throw, throwThe, MonadExceptOf.throw] at h
    | some j =>
      simp [hl, pure, Except.pure] at h
      subst h
      obtain ⟨c, hc1, hc2⟩ := lastIdx_some _ _ _ hl
      have : c = p.code := by simpa using hc2
      subst this
      exact ⟨_, hc1, rfl, rfl, fun _ => rfl⟩
  · simp only [hc] at h
    cases hl : lastIdx (fun c => c.opId == p.info.id && c.version == p.version) codes with
    | none => simp [hl, throw, throwThe, MonadExceptOf.throw] at h
    | some j =>
      simp [hl, pure, Except.pure] at h
      subst h
      obtain ⟨c, hc1, hc2⟩ := lastIdx_some _ _ _ hl
      simp only [Bool.and_eq_true, beq_iff_eq] at hc2
      refine ⟨c, hc1, hc2.1, hc2.2, fun hn => ?_⟩
      simp [hn] at hc


/-- the parts of a written subgraph that do not depend on the buffer state -/
def SgLocal (ts : List TensorD) (codes : List Code) (ps : PSub) (sg : SubGraphT) : Prop :=
  ∃ outs2 operators,
    outputList ps.sg.originalOutputPositions (sgOuts ps) = .ok outs2 ∧
    ((sgOps ps).filter (!·.ignored)).mapM (serialiseOperator codes (sgAll ts ps)) = .ok operators ∧
    sg.operators = operators ∧
    sg.inputs = some (idxList (sgAll ts ps) ps.sg.originalInputs) ∧
    sg.outputs = some (idxList (sgAll ts ps) outs2) ∧
    sg.name = some ps.sg.name ∧ sg.extra = []

theorem subgraphs_local (ts : List TensorD) (codes : List Code) : ∀ (rest : List PSub) (st : St) out stF,
    serialiseSubgraphs ts codes rest st = .ok (out, stF) → List.Forall₂ (SgLocal ts codes) rest out
  | [], st, out, stF, h => by
    simp [serialiseSubgraphs, pure, Except.pure] at h
    obtain ⟨rfl, rfl⟩ := h
    exact List.Forall₂.nil
  | ps :: rest, st, out, stF, h => by
    unfold serialiseSubgraphs at h
    obtain ⟨r, hr, h⟩ := bind_ok h
    obtain ⟨rs, hrs, h⟩ := bind_ok h
    simp only [pure, Except.pure, Except.ok.injEq, Prod.mk.injEq] at h
    obtain ⟨rfl, rfl⟩ := h
    obtain ⟨sg, st'⟩ := r
    obtain ⟨_, _, outs2, operators, _, _, _, a4, a5, a6, a7, a8, a9, a10, _⟩ := serialiseSubgraph_ok ts codes st ps sg st' hr
    exact List.Forall₂.cons ⟨outs2, operators, a4, a5, a6, a7, a8, a9, a10⟩ (subgraphs_local ts codes rest st' rs.1 rs.2 hrs)

theorem filterMap_mapIdx (all : List Nat) : ∀ (l : List (Option Nat)), (∀ g, some g ∈ l → g ∈ all) →
    List.Forall₂ (fun g (i : Int) => ∃ n : Nat, i = n ∧ all[n]? = some g) (l.filterMap id) (l.filterMap fun t => (mapIdx all t).map Int.ofNat)
  | [], _ => by simp
  | none :: rest, h => by
    have := filterMap_mapIdx all rest (fun g hg => h g (List.mem_cons_of_mem _ hg))
    simpa [mapIdx] using this
  | some g :: rest, h => by
    have ih := filterMap_mapIdx all rest (fun g hg => h g (List.mem_cons_of_mem _ hg))
    obtain ⟨i, hi, hg⟩ := indexIn_of_mem all g (h g (List.mem_cons_self ..))
    simp only [List.filterMap_cons, id, mapIdx, hi, Option.map_some]
    exact List.Forall₂.cons ⟨i, rfl, hg⟩ ih

theorem idxList_spec (all : List Nat) (l : List Nat) (h : ∀ g ∈ l, g ∈ all) :
    List.Forall₂ (fun g (i : Int) => ∃ n : Nat, i = n ∧ all[n]? = some g) l (idxList all l) := by
  induction l with
  | nil => simp [idxList]
  | cons g rest ih =>
    obtain ⟨i, hi, hg⟩ := indexIn_of_mem all g (h g (List.mem_cons_self ..))
    have := ih (fun g hg => h g (List.mem_cons_of_mem _ hg))
    simp only [idxList, List.filterMap_cons, hi, Option.map_some] at this ⊢
    exact List.Forall₂.cons ⟨i, rfl, hg⟩ this

/-- the index list of a tensor list some of whose members were not written: the written ones, in order -/
theorem idxList_filter (all : List Nat) (l : List Nat) :
    List.Forall₂ (fun g (i : Int) => ∃ n : Nat, i = n ∧ all[n]? = some g) (l.filter (· ∈ all)) (idxList all l) := by
  induction l with
  | nil => simp [idxList]
  | cons g rest ih =>
    by_cases hg : g ∈ all
    · obtain ⟨i, hi, hgi⟩ := indexIn_of_mem all g hg
      simp only [idxList, List.filterMap_cons, hi, Option.map_some, List.filter_cons, hg, decide_true, if_true] at ih ⊢
      exact List.Forall₂.cons ⟨i, rfl, hgi⟩ ih
    · have hn := indexIn_none all g hg
      simpa [idxList, List.filterMap_cons, hn, List.filter_cons, hg] using ih

/-- what `writeWith` goes through, with the facts accumulated over the subgraphs -/
theorem write_facts (d : Desc) (enum : List Code) (m : ModelT) (h : writeWith d enum = .ok m) :
    ∃ subs opcodes st metas,
      (subgraphsToWrite d).mapM (prepSub d.tensors) = .ok subs ∧
      (sortCodes enum).mapM serialiseOpCode = .ok opcodes ∧
      serialiseSubgraphs d.tensors (sortCodes enum) subs st0 = .ok (m.subgraphs, st) ∧
      metadataToWrite d st.maps = .ok metas ∧
      m = assemble d opcodes m.subgraphs st metas ∧
      Acc d.tensors (subs.map (sgAll d.tensors)) m.subgraphs st ∧ m.subgraphs.length = subs.length := by
  obtain ⟨subs, opcodes, sgs, st, metas, h1, h2, h3, h4, hm⟩ := writeWith_ok d enum m h
  obtain ⟨acc, hl⟩ := subgraphs_acc d.tensors (sortCodes enum) subs st0 [] [] (acc_init d.tensors) sgs st h3
  have hsg : m.subgraphs = sgs := by rw [hm]; rfl
  rw [hsg]
  exact ⟨subs, opcodes, st, metas, h1, h2, h3, h4, hm, by simpa using acc, hl⟩

/-- the operands of a written operator are in the tensor list of its subgraph -/
theorem operand_mem (ts : List TensorD) (ps : PSub) (p : POp) (hp : p ∈ (sgOps ps).filter (!·.ignored)) (g : Nat)
    (hg : some g ∈ p.operands) : g ∈ sgAll ts ps := by
  rw [mem_sgAll]
  unfold sgSet
  rw [mem_tensorSet]
  obtain ⟨h1, h2⟩ := List.mem_filter.mp hp
  exact Or.inl (Or.inr ⟨p, h1, Or.inl (by simpa using h2), hg⟩)

end VelaVerif.Tflite.Writer
