import Mathlib.Data.List.Basic
import Mathlib.Data.List.Forall2
import Mathlib.Data.List.Sort
import VelaVerif.Model.TfliteWriter
import VelaVerif.Lemmas.TensorOrder
/-! Lemmas about the TFLite writer model (Model/TfliteWriter.lean): the order on operator codes, inversion of the monadic
steps, buffer numbering, tensor records, tensor indices. -/
set_option linter.unusedSimpArgs false
namespace VelaVerif.Tflite.Writer
open VelaVerif.Gen VelaVerif.OpIndices

/-! ## inversion helpers -/

theorem bind_ok {α β : Type} {x : Except String α} {f : α → Except String β} {b : β} (h : (x >>= f) = .ok b) :
    ∃ a, x = .ok a ∧ f a = .ok b := by
  cases x with
  | error e => simp [bind, Except.bind] at h
  | ok a => exact ⟨a, rfl, by simpa [bind, Except.bind] using h⟩

theorem check_ok {c : Bool} {e : String} {u : Unit} (h : check c e = .ok u) : c = true := by
  unfold check at h
  cases c <;> simp [throw, throwThe, MonadExceptOf.throw, pure, Except.pure] at h ⊢

/-! ## the order on operator codes -/

theorem bytesLe_total : ∀ a b : Bytes, bytesLe a b = true ∨ bytesLe b a = true
  | [], _ => Or.inl rfl
  | _ :: _, [] => Or.inr rfl
  | x :: xs, y :: ys => by
    simp only [bytesLe]
    rcases Nat.lt_trichotomy x y with h | h | h
    · simp [h]
    · subst h; simpa using bytesLe_total xs ys
    · right; simp [h]

theorem bytesLe_antisymm : ∀ a b : Bytes, bytesLe a b = true → bytesLe b a = true → a = b
  | [], [], _, _ => rfl
  | [], _ :: _, _, h => by simp [bytesLe] at h
  | _ :: _, [], h, _ => by simp [bytesLe] at h
  | x :: xs, y :: ys, h1, h2 => by
    simp only [bytesLe] at h1 h2
    rcases Nat.lt_trichotomy x y with h | h | h
    · have : ¬ y < x := by omega
      simp [h, this] at h2
    · subst h; simp at h1 h2; rw [bytesLe_antisymm xs ys h1 h2]
    · have : ¬ x < y := by omega
      simp [h, this] at h1

theorem bytesLe_trans : ∀ a b c : Bytes, bytesLe a b = true → bytesLe b c = true → bytesLe a c = true
  | [], _, _, _, _ => by simp [bytesLe]
  | _ :: _, [], _, h, _ => by simp [bytesLe] at h
  | _ :: _, _ :: _, [], _, h => by simp [bytesLe] at h
  | x :: xs, y :: ys, z :: zs, h1, h2 => by
    simp only [bytesLe] at h1 h2 ⊢
    by_cases hxy : x < y
    · by_cases hyz : y < z
      · have : x < z := by omega
        simp [this]
      · by_cases hzy : z < y
        · simp [hyz, hzy] at h2
        · have : y = z := by omega
          subst this; simp [hxy]
    · by_cases hyx : y < x
      · simp [hxy, hyx] at h1
      · have : x = y := by omega
        subst this
        simp at h1
        by_cases hyz : x < z
        · simp [hyz]
        · by_cases hzy : z < x
          · simp [hyz, hzy] at h2
          · have : x = z := by omega
            subst this; simp at h2 ⊢; exact bytesLe_trans xs ys zs h1 h2

theorem Code.le_total (a b : Code) : Code.le a b = true ∨ Code.le b a = true := by
  unfold Code.le
  by_cases h1 : a.opId = b.opId
  · by_cases h2 : a.custom = b.custom
    · simp [h1, h2]; try omega
    · have h2' : ¬ b.custom = a.custom := fun h => h2 h.symm
      simp [h1, h2, h2']; exact bytesLe_total _ _
  · have h1' : ¬ b.opId = a.opId := fun h => h1 h.symm
    simp [h1, h1']; try omega

theorem Code.le_antisymm (a b : Code) (hab : Code.le a b = true) (hba : Code.le b a = true) : a = b := by
  unfold Code.le at hab hba
  by_cases h1 : a.opId = b.opId
  · by_cases h2 : a.custom = b.custom
    · simp [h1, h2] at hab hba
      cases a; cases b; simp_all; omega
    · have h2' : ¬ b.custom = a.custom := fun h => h2 h.symm
      simp [h1, h2, h2'] at hab hba
      exact absurd (bytesLe_antisymm _ _ hab hba) h2
  · have h1' : ¬ b.opId = a.opId := fun h => h1 h.symm
    simp [h1, h1'] at hab hba; omega

theorem Code.le_trans (a b c : Code) (hab : Code.le a b = true) (hbc : Code.le b c = true) : Code.le a c = true := by
  unfold Code.le at hab hbc ⊢
  by_cases h1 : a.opId = b.opId <;> by_cases h2 : b.opId = c.opId
  · have h3 : a.opId = c.opId := h1.trans h2
    by_cases g1 : a.custom = b.custom <;> by_cases g2 : b.custom = c.custom
    · have g3 : a.custom = c.custom := g1.trans g2
      simp [h1, h2, h3, g1, g2, g3] at hab hbc ⊢; omega
    · have g3 : ¬ a.custom = c.custom := fun h => g2 (g1 ▸ h)
      simp [h1, h2, h3, g1, g2, g3] at hab hbc ⊢
      exact hbc
    · have g3 : ¬ a.custom = c.custom := fun h => g1 (h.trans g2.symm)
      simp [h1, h2, h3, g1, g2, g3] at hab hbc ⊢
      exact hab
    · simp [h1, h2, h3, g1, g2] at hab hbc
      have t := bytesLe_trans _ _ _ hab hbc
      by_cases g3 : a.custom = c.custom
      · exfalso
        rw [g3] at hab
        exact g2 (bytesLe_antisymm _ _ hbc hab)
      · simp [h3, g3]; exact t
  · have h3 : ¬ a.opId = c.opId := fun h => h2 (h1 ▸ h)
    simp [h1, h2, h3] at hab hbc ⊢; omega
  · have h3 : ¬ a.opId = c.opId := fun h => h1 (h.trans h2.symm)
    simp [h1, h2, h3] at hab hbc ⊢; omega
  · simp [h1, h2] at hab hbc
    have h3 : ¬ a.opId = c.opId := by omega
    simp [h3]; omega

/-- sorting with a total, transitive, antisymmetric order does not depend on the order of the input -/
theorem isort_perm {β : Type} (le : β → β → Bool) (total : ∀ a b, le a b = true ∨ le b a = true)
    (trans : ∀ a b c, le a b = true → le b c = true → le a c = true) (antisymm : ∀ a b, le a b = true → le b a = true → a = b)
    (l₁ l₂ : List β) (hp : l₁.Perm l₂) : isort le l₁ = isort le l₂ := by
  rw [isort_eq, isort_eq]
  let R : β → β → Prop := fun a b => le a b = true
  have : Std.Total R := ⟨fun a b => total a b⟩
  have : IsTrans _ R := ⟨fun a b c => trans a b c⟩
  have s1 := List.pairwise_insertionSort R l₁
  have s2 := List.pairwise_insertionSort R l₂
  have p := ((List.perm_insertionSort R l₁).trans hp).trans (List.perm_insertionSort R l₂).symm
  exact List.Perm.eq_of_pairwise (le := R) (fun a b _ _ h1 h2 => antisymm a b h1 h2) s1 s2 p

theorem sortCodes_perm (l₁ l₂ : List Code) (hp : l₁.Perm l₂) : sortCodes l₁ = sortCodes l₂ :=
  isort_perm Code.le Code.le_total Code.le_trans Code.le_antisymm l₁ l₂ hp

theorem sortCodes_perm_self (l : List Code) : (sortCodes l).Perm l := by
  unfold sortCodes
  rw [isort_eq]
  exact List.perm_insertionSort _ l

/-! ## `write` / `writeWith` -/

theorem writeWith_congr (d : Desc) (e1 e2 : List Code) (h : sortCodes e1 = sortCodes e2) : writeWith d e1 = writeWith d e2 := by
  unfold writeWith
  simp only [h]

theorem write_eq (d : Desc) (subs : List PSub) (h : (subgraphsToWrite d).mapM (prepSub d.tensors) = .ok subs) :
    write d = writeWith d (codeSet subs) := by
  unfold write codesOf
  simp only [h, bind, Except.bind, pure, Except.pure]

theorem write_err (d : Desc) (e : String) (h : (subgraphsToWrite d).mapM (prepSub d.tensors) = .error e) (enum : List Code) :
    write d = .error e ∧ writeWith d enum = .error e := by
  unfold write codesOf writeWith
  simp only [h, bind, Except.bind, and_self]

/-! ## first-occurrence de-duplication (`dict` keys, `set` elements) -/

theorem mem_addNew [BEq α] [LawfulBEq α] (l : List α) (x y : α) : y ∈ addNew l x ↔ y ∈ l ∨ y = x := by
  unfold addNew
  by_cases h : x ∈ l
  · simp only [List.contains_eq_mem, h, decide_true, if_true]
    constructor
    · exact Or.inl
    · rintro (h' | rfl)
      · exact h'
      · exact h
  · simp [h]

theorem nodup_addNew [BEq α] [LawfulBEq α] (l : List α) (x : α) (h : l.Nodup) : (addNew l x).Nodup := by
  unfold addNew
  by_cases hc : x ∈ l
  · simp [hc, h]
  · simp only [List.contains_eq_mem, hc, decide_false]
    simp [List.nodup_append, h]
    intro a ha hax
    exact hc (hax ▸ ha)

theorem foldl_addNew_spec [BEq α] [LawfulBEq α] (xs : List α) : ∀ (init : List α), init.Nodup →
    (xs.foldl addNew init).Nodup ∧ ∀ y, y ∈ xs.foldl addNew init ↔ y ∈ init ∨ y ∈ xs := by
  induction xs with
  | nil => intro init h; simp [h]
  | cons x xs ih =>
    intro init h
    obtain ⟨n, m⟩ := ih (addNew init x) (nodup_addNew init x h)
    refine ⟨n, fun y => ?_⟩
    rw [List.foldl_cons, m, mem_addNew]
    simp only [List.mem_cons]
    tauto

theorem dedup_nodup [BEq α] [LawfulBEq α] (xs : List α) : (dedup xs).Nodup := (foldl_addNew_spec xs [] List.nodup_nil).1
theorem mem_dedup [BEq α] [LawfulBEq α] (xs : List α) (y : α) : y ∈ dedup xs ↔ y ∈ xs := by
  have := (foldl_addNew_spec xs [] List.nodup_nil).2 y
  simpa [dedup] using this

theorem codeSet_nodup (subs : List PSub) : (codeSet subs).Nodup := dedup_nodup _

end VelaVerif.Tflite.Writer
