import VelaVerif.Model.MlwEncode
import VelaVerif.Lemmas.MlwFrame
/-!
Symbol level of the GRC round trip (C07): one chunk of the zero-run stream (`zSyms`, plain unary) and of the
weight stream (`wSyms`, two-level unary with truncation) written by the encoder model is read back by the
decoder's `zUnaryLoop` / `wUnaryLoop`, for any position inside a value at which the previous chunk stopped.
-/
namespace VelaVerif.MlwEnc
open VelaVerif.Mlw List

/-! ### integer bit assembly -/

theorem or_bit {u j : Nat} (h : u < 2 ^ j) (b : Prop) [Decidable b] :
    u ||| (if b then 1 <<< j else 0) = u + (if b then 2 ^ j else 0) := by
  split
  · have := Nat.two_pow_add_eq_or_of_lt h 1
    rw [Nat.mul_one] at this
    rw [Nat.one_shiftLeft, Nat.or_comm, ← this]
    omega
  · simp

theorem testBit_top {u j : Nat} (h : u < 2 ^ j) (b : Prop) [Decidable b] :
    (u + (if b then 2 ^ j else 0)).testBit j = decide b := by
  split
  · rename_i hb
    rw [Nat.add_comm, Nat.testBit_two_pow_add_eq, Nat.testBit_lt_two_pow h]; simp [hb]
  · rename_i hb
    simp [Nat.testBit_lt_two_pow h, hb]

/-- the bit at `j` of `U` is the bit at `j` of `U mod 2^(j+1)` -/
theorem testBit_of_mod {U a j : Nat} (h : U % 2 ^ (j + 1) = a) : U.testBit j = a.testBit j := by
  rw [← h, Nat.testBit_mod_two_pow]; simp

theorem mod_mod_pow {U j : Nat} : U % 2 ^ (j + 1) % 2 ^ j = U % 2 ^ j := by
  rw [Nat.pow_succ, Nat.mod_mul_right_mod]

theorem split_value (v div : Nat) : ((v >>> div) <<< div) + (v &&& ((1 <<< div) - 1)) = v := by
  rw [Nat.one_shiftLeft, Nat.and_two_pow_sub_one_eq_mod, Nat.shiftRight_eq_div_pow, Nat.shiftLeft_eq]
  have := Nat.div_add_mod v (2 ^ div)
  rw [Nat.mul_comm]; exact this

theorem mask_lt (v div : Nat) : v &&& ((1 <<< div) - 1) < 2 ^ div := by
  rw [Nat.one_shiftLeft, Nat.and_two_pow_sub_one_eq_mod]
  exact Nat.mod_lt _ (Nat.two_pow_pos div)

/-! ### the relation between an encoder stream and the decoder's carry -/

/-- `cy` is what the decoder has counted of the value the encoder is in the middle of -/
def SR (div : Nat) (s : Strm) (cy : Nat) : Prop :=
  (s.q < 0 → cy = 0) ∧
  (0 ≤ s.q → ∃ v t, s.todo = v :: t ∧ s.r = ((v &&& ((1 <<< div) - 1) : Nat) : Int) ∧
    (cy : Int) + s.q = ((v >>> div : Nat) : Int))

/-- an upper bound of the number of symbols the values still need -/
def pot (div : Nat) : List Nat → Nat
  | [] => 0
  | v :: t => (v >>> div) + 1 + pot div t

/-- the value a quotient and a remainder stand for -/
def comb (div : Nat) (q r : Nat) : Nat := (q <<< div) + r

/-- what one chunk of a stream achieved, seen from both sides: `qs` the quotients the decoder found,
    `rs` the remainders the encoder queued, `s`→`s'` the encoder stream, `cy`→`cy'` the decoder carry -/
structure ChunkRel (div : Nat) (s s' : Strm) (cy cy' : Nat) (qs rs : List Nat) : Prop where
  sr : SR div s' cy'
  len : rs.length ≤ s.todo.length
  todo : s'.todo = s.todo.drop rs.length
  pos : s'.pos = s.pos + rs.length
  qlen : rs.length ≤ qs.length
  pad : rs.length < qs.length → s'.todo = []
  vals : zipWith (comb div) qs rs = s.todo.take rs.length
  small : ∀ x ∈ rs, x < 2 ^ div
  pot_le : pot div s'.todo + cy ≤ pot div s.todo + cy'

theorem ChunkRel.refl {div : Nat} {s : Strm} {cy : Nat} (h : SR div s cy) : ChunkRel div s s cy cy [] [] :=
  ⟨h, by simp, by simp, by simp, by simp, by simp, by simp, by simp, by omega⟩

theorem zipWith_append_short {f : Nat → Nat → Nat} : ∀ (qs1 qs2 rs1 : List Nat), rs1.length ≤ qs1.length →
    zipWith f (qs1 ++ qs2) rs1 = zipWith f qs1 rs1
  | _, _, [], _ => by simp
  | [], _, r :: rs, h => by simp at h
  | q :: qs, qs2, r :: rs, h => by
    simp only [cons_append, zipWith_cons_cons, cons.injEq, true_and]
    exact zipWith_append_short qs qs2 rs (by simpa using h)

theorem zipWith_append_pad {f : Nat → Nat → Nat} (qs1 qs2 rs1 rs2 : List Nat) (h1 : rs1.length ≤ qs1.length)
    (h2 : rs1.length < qs1.length → rs2 = []) :
    zipWith f (qs1 ++ qs2) (rs1 ++ rs2) = zipWith f qs1 rs1 ++ zipWith f qs2 rs2 := by
  by_cases h : rs1.length < qs1.length
  · rw [h2 h]; simp [zipWith_append_short _ _ _ h1]
  · exact zipWith_append (by omega)

theorem ChunkRel.trans {div : Nat} {s s1 s2 : Strm} {cy cy1 cy2 : Nat} {qs1 rs1 qs2 rs2 : List Nat}
    (h1 : ChunkRel div s s1 cy cy1 qs1 rs1) (h2 : ChunkRel div s1 s2 cy1 cy2 qs2 rs2) :
    ChunkRel div s s2 cy cy2 (qs1 ++ qs2) (rs1 ++ rs2) := by
  have hl2 : rs2.length ≤ s.todo.length - rs1.length := by
    have := h2.len; rw [h1.todo, length_drop] at this; exact this
  have hpad : rs1.length < qs1.length → rs2 = [] := by
    intro h
    have := h2.len
    rw [h1.pad h] at this
    exact length_eq_zero_iff.mp (by simpa using this)
  refine ⟨h2.sr, ?_, ?_, ?_, ?_, ?_, ?_, ?_, ?_⟩
  · have := h1.len; simp only [length_append]; omega
  · rw [h2.todo, h1.todo, drop_drop, length_append]
  · rw [h2.pos, h1.pos, length_append]; omega
  · have := h1.qlen; have := h2.qlen; simp only [length_append]; omega
  · intro h
    simp only [length_append] at h
    by_cases hp : rs1.length < qs1.length
    · rw [h2.todo, h1.pad hp]; simp
    · exact h2.pad (by have := h1.qlen; omega)
  · rw [zipWith_append_pad _ _ _ _ h1.qlen hpad, h1.vals, h2.vals, h1.todo, length_append, take_add]
  · intro x hx
    rcases mem_append.mp hx with h | h
    · exact h1.small x h
    · exact h2.small x h
  · have := h1.pot_le; have := h2.pot_le; omega

/-! ### zero runs -/

/-- the state after `load` -/
theorem load_cases {div : Nat} {s : Strm} {cy : Nat} (h : SR div s cy) :
    (∃ v t, (load div s).todo = v :: t ∧ s.todo = v :: t ∧ (load div s).r = ((v &&& ((1 <<< div) - 1) : Nat) : Int) ∧
      (cy : Int) + (load div s).q = ((v >>> div : Nat) : Int) ∧ 0 ≤ (load div s).q ∧ (load div s).pos = s.pos) ∨
    ((load div s).todo = [] ∧ s.todo = [] ∧ (load div s).r = -1 ∧ (load div s).q = 0 ∧ cy = 0 ∧ (load div s).pos = s.pos) := by
  unfold load
  by_cases hq : s.q < 0
  · rw [if_pos hq]
    have hc := h.1 hq
    cases ht : s.todo with
    | nil => right; simp [hc]
    | cons v t => left; exact ⟨v, t, by simp, rfl, by simp, by simp [hc], by simp; exact Int.natCast_nonneg _, by simp⟩
  · rw [if_neg hq]
    obtain ⟨v, t, h1, h2, h3⟩ := h.2 (by omega)
    left; exact ⟨v, t, h1, h1, h2, h3, by omega, rfl⟩

theorem finish_cont {s : Strm} {rem : List Nat} (h : 0 ≤ s.q) : finish s rem = (s, rem) := by
  unfold finish
  have : ¬ s.q < 0 := by omega
  simp [this]

theorem finish_pad {s : Strm} {rem : List Nat} (h : s.r < 0) : finish s rem = (s, rem) := by
  unfold finish
  have : ¬ s.r ≥ 0 := by omega
  simp [this]

theorem finish_done {s : Strm} {rem : List Nat} (hq : s.q < 0) (hr : 0 ≤ s.r) :
    finish s rem = ({ s with todo := s.todo.tail, pos := s.pos + 1 }, rem ++ [s.r.toNat]) := by
  unfold finish
  simp [hq, hr]

/-- one symbol of a zero-run chunk, seen from both sides -/
theorem zSym_spec {div j : Nat} {s : Strm} {a : ZAcc} {cy : Nat} (h : SR div s cy) (ha : a.unary < 2 ^ j) :
    ∃ (b : Bool) (qs rs : List Nat) (cy' : Nat),
      (zSym div j s a).2.unary = a.unary + (if b = true then 2 ^ j else 0) ∧
      (if b = true then cy' = cy + 1 ∧ qs = [] else cy' = 0 ∧ qs = [cy]) ∧
      (zSym div j s a).2.remain = a.remain ++ rs ∧
      ChunkRel div s (zSym div j s a).1 cy cy' qs rs ∧
      (s.todo ≠ [] → pot div (zSym div j s a).1.todo + cy < pot div s.todo + cy') := by
  simp only [zSym]
  rcases load_cases h with ⟨v, t, h1, h0, h2, h3, h4, h5⟩ | ⟨h1, h0, h2, h3, h4, h5⟩
  · by_cases hq : (load div s).q > 0
    · -- a one: the value goes on
      rw [finish_cont (by simp; omega)]
      refine ⟨true, [], [], cy + 1, ?_, by simp, by simp, ?_, ?_⟩
      · rw [or_bit ha]; simp [hq]
      · refine ⟨⟨by simp; omega, fun _ => ⟨v, t, h1, h2, by dsimp only; omega⟩⟩, by simp, by simp [h1, h0], by simp [h5], by simp, by simp, by simp, by simp, by simp [h1, h0]⟩
      · intro _; simp [h1, h0]
    · -- a zero: the value is complete
      have hq0 : (load div s).q = 0 := by omega
      have hcy : cy = v >>> div := by omega
      rw [finish_done (by simp; omega) (by simp [h2])]
      refine ⟨false, [cy], [v &&& ((1 <<< div) - 1)], 0, ?_, by simp, by simp [h2], ?_, ?_⟩
      · rw [or_bit ha]; simp [hq]
      · refine ⟨⟨by simp, by dsimp only; omega⟩, by simp [h0], by simp [h0, h1], by simp [h5], by simp, by simp, ?_, ?_, ?_⟩
        · simp [h0, comb, hcy, split_value]
        · simp [mask_lt]
        · simp [h0, h1, pot]; omega
      · intro _; simp [h0, h1, pot]; omega
  · -- padding behind the last value
    rw [finish_pad (by simp [h2])]
    refine ⟨false, [cy], [], 0, ?_, by simp, by simp, ?_, ?_⟩
    · rw [or_bit ha]; simp [h3]
    · exact ⟨⟨by simp, by simp [h3]⟩, by simp, by simp [h1, h0], by simp [h5], by simp, by simp [h1], by simp, by simp, by simp [h1, h0, h4]⟩
    · intro hne; exact absurd h0 hne

/-- a zero-run chunk of `n` symbols starting at bit `j`: the decoder's loop over the finished `unary` word finds the
    quotients `qs` and the carry that belong to the encoder's new state -/
theorem zSyms_spec (div : Nat) : ∀ (n j : Nat) (s : Strm) (a : ZAcc) (cy : Nat) (acc : List Nat),
    SR div s cy → a.unary < 2 ^ j →
    ∃ (qs rs : List Nat) (cy' : Nat),
      (zSyms div n j s a).2.unary < 2 ^ (j + n) ∧ (zSyms div n j s a).2.unary % 2 ^ j = a.unary ∧
      zUnaryLoop (zSyms div n j s a).2.unary n j cy acc = (acc.reverse ++ qs, cy') ∧
      (zSyms div n j s a).2.remain = a.remain ++ rs ∧
      ChunkRel div s (zSyms div n j s a).1 cy cy' qs rs ∧
      (0 < n → s.todo ≠ [] → pot div (zSyms div n j s a).1.todo + cy < pot div s.todo + cy')
  | 0, j, s, a, cy, acc, h, ha => by
    refine ⟨[], [], cy, ?_⟩
    simp only [zSyms, zUnaryLoop, Nat.add_zero, append_nil, true_and]
    exact ⟨ha, Nat.mod_eq_of_lt ha, ChunkRel.refl h, by omega⟩
  | n + 1, j, s, a, cy, acc, h, ha => by
    obtain ⟨b, qs1, rs1, cy1, hu, hb, hrem, hrel, hpot⟩ := zSym_spec (j := j) (a := a) h ha
    have ha1 : (zSym div j s a).2.unary < 2 ^ (j + 1) := by
      rw [hu, Nat.pow_succ]; split <;> omega
    obtain ⟨qs2, rs2, cy2, hlt, hmod, hdec, hrem2, hrel2, _⟩ :=
      zSyms_spec div n (j + 1) (zSym div j s a).1 (zSym div j s a).2 cy1
        (if b = true then acc else cy :: acc) hrel.sr ha1
    have hrw : zSyms div (n + 1) j s a = zSyms div n (j + 1) (zSym div j s a).1 (zSym div j s a).2 := rfl
    rw [hrw]
    have hbit : (zSyms div n (j + 1) (zSym div j s a).1 (zSym div j s a).2).2.unary.testBit j = b := by
      rw [testBit_of_mod hmod, hu, testBit_top ha]; simp
    refine ⟨qs1 ++ qs2, rs1 ++ rs2, cy2, by rw [show j + (n + 1) = j + 1 + n by omega]; exact hlt, ?_, ?_, ?_, hrel.trans hrel2, ?_⟩
    · rw [← mod_mod_pow, hmod, hu]
      split
      · rw [Nat.add_mod_right]; exact Nat.mod_eq_of_lt ha
      · exact Nat.mod_eq_of_lt ha
    · rw [zUnaryLoop, hbit]
      cases b
      · simp only [Bool.false_eq_true, if_false] at hb hdec ⊢
        rw [hb.1] at hdec
        rw [hdec, hb.2]; simp
      · simp only [if_true] at hb hdec ⊢
        rw [hb.1] at hdec
        rw [hdec, hb.2]; simp
    · rw [hrem2, hrem, append_assoc]
    · intro _ hne
      have := hpot hne
      have := hrel2.pot_le
      omega

/-! ### weights -/

/-- the symbols of a truncated stream are complete values: every quotient is at most 2 -/
def TruncOk (div : Nat) (trunc : Bool) (todo : List Nat) : Prop := trunc = true → ∀ v ∈ todo, v >>> div ≤ 2

theorem TruncOk.drop {div : Nat} {trunc : Bool} {todo : List Nat} (h : TruncOk div trunc todo) (k : Nat) :
    TruncOk div trunc (todo.drop k) := fun ht v hv => h ht v (mem_of_mem_drop hv)

/-- one symbol of a weight chunk, seen from both sides; `c` is the two-level unary code 0/1/2 -/
theorem wSym_spec {div j : Nat} {trunc : Bool} {s : Strm} {a : WAcc} {cy : Nat} (h : SR div s cy)
    (ha0 : a.unary0 < 2 ^ j) (ha1 : a.unary1 < 2 ^ a.unary1Len) (ht : TruncOk div trunc s.todo) :
    ∃ (c : Nat) (qs rs : List Nat) (cy' : Nat), c ≤ 2 ∧
      (wSym div trunc j s a).2.unary0 = a.unary0 + (if 0 < c then 2 ^ j else 0) ∧
      (wSym div trunc j s a).2.unary1 = a.unary1 + (if 1 < c then 2 ^ a.unary1Len else 0) ∧
      (wSym div trunc j s a).2.unary1Len = a.unary1Len + (if 0 < c then 1 else 0) ∧
      (if c < 2 ∨ trunc = true then cy' = 0 ∧ qs = [cy + c] else cy' = cy + c ∧ qs = []) ∧
      (wSym div trunc j s a).2.remain = a.remain ++ rs ∧
      ChunkRel div s (wSym div trunc j s a).1 cy cy' qs rs ∧
      (s.todo ≠ [] → pot div (wSym div trunc j s a).1.todo + cy < pot div s.todo + cy') := by
  simp only [wSym]
  rcases load_cases h with ⟨v, t, h1, h0, h2, h3, h4, h5⟩ | ⟨h1, h0, h2, h3, h4, h5⟩
  · have hv2 : trunc = true → (load div s).q ≤ 2 := by
      intro htr
      have := ht htr v (by simp [h0])
      omega
    by_cases hq2 : (load div s).q ≥ 2 ∧ trunc = false
    · -- code 2 of a value that goes on
      obtain ⟨hq2, htr⟩ := hq2
      rw [finish_cont (by simp [htr]; omega)]
      refine ⟨2, [], [], cy + 2, by omega, ?_, ?_, ?_, by simp [htr], by simp, ?_, ?_⟩
      · rw [or_bit ha0]; simp; omega
      · have : (load div s).q > 0 := by omega
        simp only [this, if_true]; rw [or_bit ha1]; simp; omega
      · have : (load div s).q > 0 := by omega
        simp [this]
      · refine ⟨⟨by simp [htr]; omega, fun _ => ⟨v, t, h1, h2, by subst htr; simp only [Bool.false_eq_true, if_false]; omega⟩⟩, by simp, by simp [h1, h0], by simp [h5], by simp, by simp, by simp, by simp, by simp [h1, h0]⟩
      · intro _; simp [h1, h0]
    · -- the last symbol of a value
      have hlast : (load div s).q - 2 - (if trunc = true then 1 else 0) < 0 := by
        cases trunc
        · simp at hq2 ⊢; omega
        · have := hv2 rfl; simp; omega
      obtain ⟨c, hc⟩ : ∃ c : Nat, (c : Int) = (load div s).q := ⟨(load div s).q.toNat, by omega⟩
      have hc2 : c ≤ 2 := by
        cases htr : trunc
        · simp [htr] at hq2; omega
        · have := hv2 htr; omega
      have hcy : cy + c = v >>> div := by omega
      rw [finish_done (by simpa using hlast) (by simp [h2])]
      refine ⟨c, [cy + c], [v &&& ((1 <<< div) - 1)], 0, hc2, ?_, ?_, ?_, ?_, by simp [h2], ?_, ?_⟩
      · rw [or_bit ha0]
        have : ((load div s).q > 0) = (0 < c) := by simp; omega
        simp only [this]
      · by_cases hpos : (load div s).q > 0
        · simp only [hpos, if_true]; rw [or_bit ha1]
          have : ((load div s).q > 1) = (1 < c) := by simp; omega
          simp only [this]
        · have : ¬ 1 < c := by omega
          simp [hpos, this]
      · have : ((load div s).q > 0) = (0 < c) := by simp; omega
        simp only [this]; split <;> rfl
      · have : c < 2 ∨ trunc = true := by
          cases htr : trunc
          · simp [htr] at hq2; omega
          · simp
        simp [this]
      · refine ⟨⟨by simp, by dsimp only; omega⟩, by simp [h0], by simp [h0, h1], by simp [h5], by simp, by simp, ?_, ?_, ?_⟩
        · simp [h0, comb, hcy, split_value]
        · simp [mask_lt]
        · simp [h0, h1, pot]; omega
      · intro _; simp [h0, h1, pot]; omega
  · -- padding behind the last value
    rw [finish_pad (by simp [h2])]
    refine ⟨0, [cy], [], 0, by omega, ?_, ?_, ?_, by simp, by simp, ?_, ?_⟩
    · rw [or_bit ha0]; simp [h3]
    · simp [h3]
    · simp [h3]
    · exact ⟨⟨by simp, by simp [h3]; split <;> omega⟩, by simp, by simp [h1, h0], by simp [h5], by simp, by simp [h1], by simp, by simp, by simp [h1, h0, h4]⟩
    · intro hne; exact absurd h0 hne

theorem div_pow_succ (U l : Nat) : U / 2 ^ l / 2 = U / 2 ^ (l + 1) := by
  rw [Nat.div_div_eq_div_mul, Nat.pow_succ]

theorem div_pow_mod_two (U l : Nat) : (U / 2 ^ l % 2 == 1) = U.testBit l := by
  rw [Nat.testBit_eq_decide_div_mod_eq]
  by_cases h : U / 2 ^ l % 2 = 1 <;> simp [h]

/-- a weight chunk of `n` symbols starting at symbol `j`: the decoder's loop over the finished `unary0`/`unary1`
    words finds the quotients `qs` and the carry that belong to the encoder's new state, and `WUNARY1` has as many
    bits as `WUNARY0` has ones -/
theorem wSyms_spec (div : Nat) (trunc : Bool) : ∀ (n j : Nat) (s : Strm) (a : WAcc) (cy : Nat) (acc : List Nat),
    SR div s cy → a.unary0 < 2 ^ j → a.unary1 < 2 ^ a.unary1Len → TruncOk div trunc s.todo →
    ∃ (qs rs : List Nat) (cy' : Nat),
      (wSyms div trunc n j s a).2.unary0 < 2 ^ (j + n) ∧ (wSyms div trunc n j s a).2.unary0 % 2 ^ j = a.unary0 ∧
      (wSyms div trunc n j s a).2.unary1 < 2 ^ (wSyms div trunc n j s a).2.unary1Len ∧
      (wSyms div trunc n j s a).2.unary1 % 2 ^ a.unary1Len = a.unary1 ∧
      popLow (wSyms div trunc n j s a).2.unary0 n j + a.unary1Len = (wSyms div trunc n j s a).2.unary1Len ∧
      wUnaryLoop (wSyms div trunc n j s a).2.unary0 trunc n j
        ((wSyms div trunc n j s a).2.unary1 / 2 ^ a.unary1Len) cy acc = (acc.reverse ++ qs, cy') ∧
      (wSyms div trunc n j s a).2.remain = a.remain ++ rs ∧
      ChunkRel div s (wSyms div trunc n j s a).1 cy cy' qs rs ∧
      (0 < n → s.todo ≠ [] → pot div (wSyms div trunc n j s a).1.todo + cy < pot div s.todo + cy')
  | 0, j, s, a, cy, acc, h, ha0, ha1, ht => by
    refine ⟨[], [], cy, ?_⟩
    simp only [wSyms, wUnaryLoop, popLow, Nat.add_zero, Nat.zero_add, append_nil, true_and]
    exact ⟨ha0, Nat.mod_eq_of_lt ha0, ha1, Nat.mod_eq_of_lt ha1, ChunkRel.refl h, by omega⟩
  | n + 1, j, s, a, cy, acc, h, ha0, ha1, ht => by
    obtain ⟨c, qs1, rs1, cy1, hc2, hu0, hu1, hl1, hb, hrem, hrel, hpot⟩ :=
      wSym_spec (j := j) (a := a) (trunc := trunc) h ha0 ha1 ht
    have hb0 : (wSym div trunc j s a).2.unary0 < 2 ^ (j + 1) := by
      rw [hu0, Nat.pow_succ]; split <;> omega
    have hb1 : (wSym div trunc j s a).2.unary1 < 2 ^ (wSym div trunc j s a).2.unary1Len := by
      rw [hu1, hl1]
      by_cases h0 : 0 < c
      · simp only [h0, if_true, Nat.pow_succ]; split <;> omega
      · have : ¬ 1 < c := by omega
        simp [h0, this, ha1]
    have ht1 : TruncOk div trunc (wSym div trunc j s a).1.todo := by rw [hrel.todo]; exact ht.drop _
    obtain ⟨qs2, rs2, cy2, hlt, hmod, hlt1, hmod1, hpop, hdec, hrem2, hrel2, _⟩ :=
      wSyms_spec div trunc n (j + 1) (wSym div trunc j s a).1 (wSym div trunc j s a).2 cy1
        (if c < 2 ∨ trunc = true then (cy + c) :: acc else acc) hrel.sr hb0 hb1 ht1
    have hrw : wSyms div trunc (n + 1) j s a = wSyms div trunc n (j + 1) (wSym div trunc j s a).1 (wSym div trunc j s a).2 := rfl
    rw [hrw]
    generalize hR : wSyms div trunc n (j + 1) (wSym div trunc j s a).1 (wSym div trunc j s a).2 = R at *
    have hbit0 : R.2.unary0.testBit j = decide (0 < c) := by
      rw [testBit_of_mod hmod, hu0, testBit_top ha0]
    -- the low `unary1Len` bits of the final word
    have hmod1' : R.2.unary1 % 2 ^ a.unary1Len = a.unary1 := by
      rw [hl1, hu1] at hmod1
      by_cases h0 : 0 < c
      · simp only [h0, if_true] at hmod1
        rw [← mod_mod_pow, hmod1]
        split
        · rw [Nat.add_mod_right]; exact Nat.mod_eq_of_lt ha1
        · exact Nat.mod_eq_of_lt ha1
      · have : ¬ 1 < c := by omega
        simpa [h0, this] using hmod1
    have hbit1 : 0 < c → R.2.unary1.testBit a.unary1Len = decide (1 < c) := by
      intro h0
      rw [hl1, hu1] at hmod1
      simp only [h0, if_true] at hmod1
      rw [testBit_of_mod hmod1, testBit_top ha1]
    refine ⟨qs1 ++ qs2, rs1 ++ rs2, cy2, by rw [show j + (n + 1) = j + 1 + n by omega]; exact hlt, ?_, hlt1, hmod1', ?_, ?_, ?_, hrel.trans hrel2, ?_⟩
    · rw [← mod_mod_pow, hmod, hu0]
      split
      · rw [Nat.add_mod_right]; exact Nat.mod_eq_of_lt ha0
      · exact Nat.mod_eq_of_lt ha0
    · rw [popLow, hbit0, ← hpop, hl1]
      by_cases h0 : 0 < c <;> simp [h0] <;> omega
    · rw [wUnaryLoop]
      simp only [hbit0, div_pow_mod_two, div_pow_succ]
      rw [hl1] at hdec
      by_cases h0 : 0 < c
      · simp only [h0, decide_true, if_true, hbit1 h0] at hdec ⊢
        by_cases h1 : 1 < c
        · have hc : c = 2 := by omega
          subst hc
          simp only [h1, decide_true, if_true] at hdec ⊢
          cases htr : trunc
          · simp only [htr, Nat.lt_irrefl, Bool.false_eq_true, or_self, if_false, decide_false, Bool.or_self] at hb hdec ⊢
            rw [hb.1] at hdec; rw [hdec, hb.2]; simp
          · simp only [htr, or_true, if_true, Bool.or_true] at hb hdec ⊢
            rw [hb.1] at hdec; rw [hdec, hb.2]; simp
        · have hc : c = 1 := by omega
          subst hc
          simp only [h1, decide_false, Bool.false_eq_true, if_false, Nat.lt_add_one, true_or, if_true, decide_true, Bool.true_or] at hb hdec ⊢
          rw [hb.1] at hdec; rw [hdec, hb.2]; simp
      · have hc : c = 0 := by omega
        subst hc
        simp only [Nat.lt_irrefl, decide_false, Bool.false_eq_true, if_false, Nat.zero_lt_two, true_or, if_true,
          Nat.add_zero, decide_true, Bool.true_or] at hb hdec ⊢
        rw [hb.1] at hdec; rw [hdec, hb.2]; simp
    · rw [hrem2, hrem, append_assoc]
    · intro _ hne
      have := hpot hne
      have := hrel2.pot_le
      omega

end VelaVerif.MlwEnc
