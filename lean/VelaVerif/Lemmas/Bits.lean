/-! Bit-twiddling lemmas over `Nat` (Python's unbounded ints). -/
namespace VelaVerif.Bits

theorem or_shift_eq_add (a b i : Nat) (h : a < 2 ^ i) : a ||| (b <<< i) = a + b * 2 ^ i := by
  rw [Nat.or_comm, ← Nat.shiftLeft_add_eq_or_of_lt h, Nat.shiftLeft_eq, Nat.add_comm]

theorem and_mask_shift16 (x : Nat) : (x &&& 0x00FF0000) >>> 16 = x / 65536 % 256 := by
  rw [Nat.shiftRight_and_distrib]
  show x >>> 16 &&& (2^8 - 1) = _
  rw [Nat.and_two_pow_sub_one_eq_mod, Nat.shiftRight_eq_div_pow]

theorem and_low16 (x : Nat) : x &&& 0x0000FFFF = x % 65536 := by
  show x &&& (2^16 - 1) = _
  rw [Nat.and_two_pow_sub_one_eq_mod]

end VelaVerif.Bits
