import VelaVerif.Spec.Preserve
/-! Helper lemmas for C11: membership characterisations of the Spec's scans. -/
namespace VelaVerif.Preserve

theorem mem_zipIdx' {l : List α} {x : α} {i : Nat} (h : l[i]? = some x) : (x, i) ∈ l.zipIdx :=
  List.mem_zipIdx_iff_getElem?.mpr h

theorem dups_nil_nodup [BEq α] [LawfulBEq α] : ∀ (l : List α), dups l = [] → l.Nodup
  | [], _ => List.nodup_nil
  | x :: xs, h => by
    simp only [dups, List.append_eq_nil_iff] at h
    have hx : x ∉ xs := by
      intro hm
      have : xs.contains x = true := List.contains_iff_mem.mpr hm
      simp [this] at h
      exact h.1 hm
    exact List.nodup_cons.mpr ⟨hx, dups_nil_nodup xs h.2⟩

theorem nodup_map_inj {β : Type _} (f : α → β) : ∀ (l : List α), (l.map f).Nodup → ∀ x y, x ∈ l → y ∈ l → f x = f y → x = y
  | [], _, _, _, hx, _, _ => by simp at hx
  | a :: as, h, x, y, hx, hy, he => by
    simp only [List.map_cons, List.nodup_cons, List.mem_map, not_exists, not_and] at h
    rcases List.mem_cons.mp hx with rfl | hx' <;> rcases List.mem_cons.mp hy with rfl | hy'
    · rfl
    · exact absurd he.symm (h.1 y hy')
    · exact absurd he (h.1 x hx')
    · exact nodup_map_inj f as h.2 x y hx' hy' he

theorem mem_candidates (src out : PGraph) (op : POp) (j : Nat) :
    j ∈ candidates src out op ↔ ∃ sop, src.ops[j]? = some sop ∧ outKey src sop = outKey out op := by
  unfold candidates
  simp only [List.mem_map, List.mem_filter, Prod.exists]
  constructor
  · rintro ⟨sop, j', ⟨hm, hk⟩, rfl⟩
    exact ⟨sop, List.mem_zipIdx_iff_getElem?.mp hm, by simpa using hk⟩
  · rintro ⟨sop, hj, hk⟩
    exact ⟨sop, j, ⟨mem_zipIdx' hj, by simpa using hk⟩, rfl⟩

theorem mem_sliceStep (g : PGraph) (start stop S : List Nat) (j : Nat) :
    j ∈ sliceStep g start stop S ↔ j < g.ops.length ∧
      (j ∈ S ∨ ∃ t ∈ opOutputs g j, t ∈ start ∨ ∃ j' ∈ S, t ∈ opInputs g j' ∧ t ∉ stop) := by
  unfold sliceStep
  simp only [List.mem_filter, List.mem_range, Bool.or_eq_true, List.contains_iff_mem, List.any_eq_true,
    List.mem_append, List.mem_flatMap, Bool.not_eq_true']
  constructor
  · rintro ⟨hj, h | ⟨t, ht, h | ⟨⟨j', hj', hin⟩, hs⟩⟩⟩
    · exact ⟨hj, Or.inl h⟩
    · exact ⟨hj, Or.inr ⟨t, ht, Or.inl h⟩⟩
    · exact ⟨hj, Or.inr ⟨t, ht, Or.inr ⟨j', hj', hin, by intro hc; rw [List.contains_iff_mem.mpr hc] at hs; exact Bool.noConfusion hs⟩⟩⟩
  · rintro ⟨hj, h | ⟨t, ht, h | ⟨j', hj', hin, hs⟩⟩⟩
    · exact ⟨hj, Or.inl h⟩
    · exact ⟨hj, Or.inr ⟨t, ht, Or.inl h⟩⟩
    · refine ⟨hj, Or.inr ⟨t, ht, Or.inr ⟨⟨j', hj', hin⟩, ?_⟩⟩⟩
      cases hc : stop.contains t with
      | false => rfl
      | true => exact absurd (List.contains_iff_mem.mp hc) hs

theorem mem_ethosuCandidates (src out : PGraph) (sop oop : POp) (k : Nat) :
    (oop, k) ∈ ethosuCandidates src out sop ↔
      out.ops[k]? = some oop ∧ isEthosU oop = true ∧ outKey out oop = outKey src sop := by
  unfold ethosuCandidates
  simp only [List.mem_filter, Bool.and_eq_true, beq_iff_eq]
  constructor
  · rintro ⟨hm, he, hk⟩
    exact ⟨List.mem_zipIdx_iff_getElem?.mp hm, he, hk⟩
  · rintro ⟨hm, he, hk⟩
    exact ⟨mem_zipIdx' hm, he, hk⟩

end VelaVerif.Preserve
