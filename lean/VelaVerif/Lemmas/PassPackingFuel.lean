import VelaVerif.Lemmas.PassPackingInputs
/-!
# The walk of `build_pass` never runs out of fuel (for ANY graph)
-/
namespace VelaVerif.Lemmas.PassPackingWalk
open VelaVerif.PassPacking VelaVerif.Gen.PassPacking VelaVerif.PassPackingSpec

section
variable (R : Rules) (G : Graph)

/-- what is still to do: the inputs of the operators not yet in the pass, and the queue -/
def todo (ops : List Nat) : Nat :=
  (((List.range G.ops.length).filter fun o => !ops.contains o).map fun o => (G.op o).inputs.length + 1).sum

def mu (w : Walk) : Nat := todo G w.ops + w.queue.length

theorem scanInputs_queue_len (cur : Nat) (l : List (Option Nat)) (w : Walk) :
    (scanInputs R G cur l w).queue.length ≤ w.queue.length + l.length := by
  induction l generalizing w with
  | nil => simp [scanInputs]
  | cons i rest ih =>
    cases i with
    | none => have := ih w; simp only [scanInputs, List.length_cons]; omega
    | some inp =>
      simp only [scanInputs, List.length_cons]
      split
      · simp
      · have := ih { w with queue := w.queue ++ [⟨(G.tensor inp).ops.headD 0, some inp, some cur⟩] }
        simp only [List.length_append, List.length_singleton] at this; omega
      · have := ih { w with inputSet := setInsert w.inputSet inp }
        simp only at this; omega

theorem todo_cons_le (ops : List Nat) (x : Nat) : todo G (x :: ops) ≤ todo G ops := by
  unfold todo
  generalize List.range G.ops.length = L
  induction L with
  | nil => simp
  | cons a rest ih =>
    simp only [List.filter_cons]
    by_cases h1 : (x :: ops).contains a = true
    · simp only [h1, Bool.not_true, Bool.false_eq_true, if_false]
      by_cases h2 : ops.contains a = true
      · simp only [h2, Bool.not_true, Bool.false_eq_true, if_false]; exact ih
      · simp only [h2, Bool.not_false, if_true, List.map_cons, List.sum_cons]; omega
    · have h2 : ops.contains a = false := by
        simp only [List.contains_cons, Bool.or_eq_true, not_or, Bool.not_eq_true] at h1
        exact h1.2
      simp only [h1, h2, Bool.not_false, if_true, List.map_cons, List.sum_cons]; omega

theorem todo_cons_lt (ops : List Nat) (x : Nat) (hx : x < G.ops.length) (hn : x ∉ ops) :
    todo G (x :: ops) + (G.op x).inputs.length + 1 ≤ todo G ops := by
  unfold todo
  have hmem : x ∈ List.range G.ops.length := List.mem_range.mpr hx
  generalize List.range G.ops.length = L at hmem
  induction L with
  | nil => simp at hmem
  | cons a rest ih =>
    simp only [List.filter_cons]
    by_cases hax : a = x
    · subst hax
      have h1 : (a :: ops).contains a = true := by simp
      have h2 : ops.contains a = false := by simpa using hn
      simp only [h1, h2, Bool.not_true, Bool.false_eq_true, if_false, Bool.not_false, if_true, List.map_cons, List.sum_cons]
      have := todo_cons_le G ops a
      unfold todo at this
      -- the rest of the list: only `≤`
      have hrest : (((rest.filter fun o => !(a :: ops).contains o).map fun o => (G.op o).inputs.length + 1).sum) ≤
          (((rest.filter fun o => !ops.contains o).map fun o => (G.op o).inputs.length + 1).sum) := by
        clear ih this hmem
        induction rest with
        | nil => simp
        | cons b r ihr =>
          simp only [List.filter_cons]
          by_cases hb1 : (a :: ops).contains b = true
          · simp only [hb1, Bool.not_true, Bool.false_eq_true, if_false]
            by_cases hb2 : ops.contains b = true
            · simp only [hb2, Bool.not_true, Bool.false_eq_true, if_false]; exact ihr
            · simp only [hb2, Bool.not_false, if_true, List.map_cons, List.sum_cons]; omega
          · have hb2 : ops.contains b = false := by
              simp only [List.contains_cons, Bool.or_eq_true, not_or, Bool.not_eq_true] at hb1
              exact hb1.2
            simp only [hb1, hb2, Bool.not_false, if_true, List.map_cons, List.sum_cons]; omega
      omega
    · have hmem' : x ∈ rest := by
        rcases List.mem_cons.mp hmem with h | h
        · exact absurd h.symm hax
        · exact h
      have ih' := ih hmem'
      by_cases h2 : ops.contains a = true
      · have h1 : (x :: ops).contains a = true := by
          simp only [List.contains_cons, Bool.or_eq_true]; exact Or.inr h2
        simp only [h1, h2, Bool.not_true, Bool.false_eq_true, if_false]; exact ih'
      · have h2' : ops.contains a = false := by simpa using h2
        have h1 : (x :: ops).contains a = false := by
          simp only [List.contains_cons, Bool.or_eq_false_iff, h2', and_true, beq_eq_false_iff_ne, ne_eq]
          exact hax
        simp only [h1, h2', Bool.not_false, if_true, List.map_cons, List.sum_cons]; omega


theorem acceptOp_queue_len (w : Walk) (q : QItem) (ri : Nat) (r : Row) :
    (acceptOp R G w q ri r).queue.length ≤ w.queue.length + (G.op q.op).inputs.length := by
  unfold acceptOp
  simp only []
  have hf := setIfm_frame G (acceptCore G w q ri r) (G.op q.op) r
  have hq : (setIfm G (acceptCore G w q ri r) (G.op q.op) r).queue.length ≤ w.queue.length := by
    rcases hf.2.2.2.2.2 with h | h
    · rw [h]; exact Nat.le_refl _
    · rw [h]; simp
  split
  · simp
  · split
    · omega
    · split
      · simp
      · have := scanInputs_queue_len R G q.op (G.op q.op).inputs.reverse (setIfm G (acceptCore G w q ri r) (G.op q.op) r)
        simp only [List.length_reverse] at this
        omega

theorem op_inputs_of_ge (o : Nat) (h : ¬ o < G.ops.length) : (G.op o).inputs = [] := by
  unfold Graph.op
  rw [List.getD_eq_getElem?_getD, List.getElem?_eq_none (Nat.le_of_not_lt h)]; rfl

/-- **every step of the walk makes the remaining work smaller** -/
theorem walkStep_mu (w : Walk) (hne : w.queue ≠ []) : mu G (walkStep R G w) < mu G w := by
  unfold walkStep mu
  split
  · rename_i h; exact absurd h hne
  · rename_i q rest hqr
    simp only []
    rw [hqr]
    simp only [List.length_cons]
    split
    · simp only [Walk.ops]; omega
    · rename_i hncont
      have hqnot : q.op ∉ w.ops := fun hm => hncont (List.contains_iff_mem.mpr hm)
      split
      · rename_i ri r _
        have hlen := acceptOp_queue_len R G { w with queue := rest } q ri r
        simp only at hlen
        rcases acceptOp_acc R G { w with queue := rest } q ri r with ⟨ha, _, hq0⟩ | ⟨ha, _⟩
        · have : (acceptOp R G { w with queue := rest } q ri r).ops = w.ops := by simp [Walk.ops, ha]
          rw [this, hq0]; simp
        · have hops : (acceptOp R G { w with queue := rest } q ri r).ops = q.op :: w.ops := by simp [Walk.ops, ha, newAcc]
          rw [hops]
          by_cases hr : q.op < G.ops.length
          · have := todo_cons_lt G w.ops q.op hr hqnot
            omega
          · have h0 := op_inputs_of_ge G q.op hr
            rw [h0] at hlen
            have := todo_cons_le G w.ops q.op
            simp only [List.length_nil] at hlen
            omega
      · split
        · simp [Walk.ops]
        · simp only [Walk.ops]; omega


@[simp] theorem fail_fuelOut (w : Walk) (m : String) : (w.fail m).fuelOut = w.fuelOut := rfl

theorem scanInputs_fuelOut (cur : Nat) (l : List (Option Nat)) (w : Walk) : (scanInputs R G cur l w).fuelOut = w.fuelOut := by
  induction l generalizing w with
  | nil => rfl
  | cons i rest ih =>
    cases i with
    | none => simpa [scanInputs] using ih w
    | some inp =>
      simp only [scanInputs]
      split
      · rfl
      · rw [ih]
      · rw [ih]

theorem setIfm_fuelOut (w : Walk) (o : POp) (r : Row) : (setIfm G w o r).fuelOut = w.fuelOut := by
  unfold setIfm
  split
  · split
    · rfl
    · split
      · rfl
      · split <;> rfl
  · rfl

theorem walkStep_fuelOut (w : Walk) : (walkStep R G w).fuelOut = w.fuelOut := by
  unfold walkStep
  split
  · rfl
  · simp only []
    split
    · rfl
    · split
      · unfold acceptOp
        simp only []
        split
        · rfl
        · split
          · rw [setIfm_fuelOut]; rfl
          · split
            · simp only [fail_fuelOut]; rw [setIfm_fuelOut]; rfl
            · rw [scanInputs_fuelOut, setIfm_fuelOut]; rfl
      · split <;> rfl

/-- with at least `mu` steps the walk ends without running out of fuel -/
theorem walkRun_fuel (n : Nat) (w : Walk) (hmu : mu G w ≤ n) (hf : w.fuelOut = false) : (walkRun R G n w).fuelOut = false := by
  induction n generalizing w with
  | zero =>
    simp only [walkRun]
    split
    · exact hf
    · rename_i hne
      exfalso
      unfold mu at hmu
      have : w.queue.length = 0 := by omega
      have : w.queue = [] := List.length_eq_zero_iff.mp this
      simp [this] at hne
  | succ n ih =>
    simp only [walkRun]
    split
    · exact hf
    · rename_i hne
      have hne' : w.queue ≠ [] := by intro h; simp [h] at hne
      have := walkStep_mu R G w hne'
      exact ih _ (by omega) (by rw [walkStep_fuelOut]; exact hf)

theorem todo_nil : todo G [] = (G.ops.map fun o => o.inputs.length + 1).sum := by
  unfold todo
  have h1 : ((List.range G.ops.length).filter fun o => !([] : List Nat).contains o) = List.range G.ops.length := by
    rw [List.filter_eq_self]; intro a _; rfl
  rw [h1]
  congr 1
  apply List.ext_getElem
  · simp
  · intro i h1 h2
    simp only [List.length_map, List.length_range] at h1
    simp [Graph.op, List.getD_eq_getElem?_getD, List.getElem?_eq_getElem h1]

/-- **the walk of `build_pass` never runs out of the fuel the model gives it** -/
theorem walk_fuel_ok (start : List Nat) : (walkRun R G (walkFuel G start.length) (walkStart start)).fuelOut = false := by
  apply walkRun_fuel
  · unfold mu walkFuel
    rw [show (walkStart start).ops = [] from rfl, todo_nil]
    simp [walkStart]
  · rfl

end
end VelaVerif.Lemmas.PassPackingWalk
