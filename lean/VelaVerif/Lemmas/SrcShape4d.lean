import VelaVerif.Lemmas.SrcNumericUtil
import VelaVerif.Model.Box
import VelaVerif.Gen.SrcShape4d
/-!
# The translated `shape4d.py` helpers on Python ints (C10 source tie)
-/
namespace VelaVerif.SrcShape4d
open VelaVerif VelaVerif.PyRt VelaVerif.Box
open VelaVerif.Gen.SrcShape4d

/-- a `Coord` as the translated `Shape4D` value: four Python ints -/
def nums (c : Coord) : Num × Num × Num × Num := (.py c.n, .py c.h, .py c.w, .py c.c)

theorem clip_len_py (pos len size : Int) :
    Shape4D___clip_len (.py pos) (.py len) (.py size) = .ok (.py (clipLen pos len size)) := by
  unfold clipLen
  py_exec [Shape4D___clip_len]
  py_finish
end VelaVerif.SrcShape4d
