import VelaVerif.Model.Alloc
import VelaVerif.Lemmas.AllocSpec
/-! Lemmas for C05: `round_up`, the stable insertion sort, and the invariant of the Greedy allocator. -/
namespace VelaVerif.Alloc
open VelaVerif.Spec.Alloc (Placed NoConflict NoOverlap Aligned)

/-! ### `round_up` -/

theorem dvd_roundUp (a b : Nat) : b ∣ roundUp a b := Nat.dvd_mul_left _ _

theorem le_roundUp (a b : Nat) (hb : 0 < b) : a ≤ roundUp a b := by
  unfold roundUp
  have h1 := Nat.div_add_mod (a + b - 1) b
  have h2 := Nat.mod_lt (a + b - 1) hb
  have h3 : (a + b - 1) / b * b = b * ((a + b - 1) / b) := Nat.mul_comm _ _
  omega

theorem roundUp_lt (a b : Nat) (hb : 0 < b) : roundUp a b < a + b := by
  unfold roundUp
  have h1 := Nat.div_add_mod (a + b - 1) b
  have h3 : (a + b - 1) / b * b = b * ((a + b - 1) / b) := Nat.mul_comm _ _
  omega

theorem roundUp_of_dvd (a b : Nat) (hb : 0 < b) (h : b ∣ a) : roundUp a b = a := by
  obtain ⟨k, rfl⟩ := h
  unfold roundUp
  rw [Nat.mul_comm b k]
  have : (k * b + b - 1) / b = k := by
    apply Nat.div_eq_of_lt_le
    · omega
    · rw [Nat.succ_mul]; omega
  rw [this]

theorem spec_roundUp_eq (a b : Nat) : Spec.Alloc.roundUp a b = roundUp a b := rfl

/-! ### insertion sort -/

theorem mem_insertBy {α : Type} (le : α → α → Bool) (x z : α) (l : List α) :
    z ∈ insertBy le x l ↔ z = x ∨ z ∈ l := by
  induction l with
  | nil => simp [insertBy]
  | cons y ys ih =>
    unfold insertBy
    split
    · simp
    · simp only [List.mem_cons, ih]
      constructor
      · rintro (h | h | h)
        · exact Or.inr (Or.inl h)
        · exact Or.inl h
        · exact Or.inr (Or.inr h)
      · rintro (h | h | h)
        · exact Or.inr (Or.inl h)
        · exact Or.inl h
        · exact Or.inr (Or.inr h)

theorem insertBy_perm {α : Type} (le : α → α → Bool) (x : α) (l : List α) :
    (insertBy le x l).Perm (x :: l) := by
  induction l with
  | nil => simp [insertBy]
  | cons y ys ih =>
    unfold insertBy
    split
    · exact List.Perm.refl _
    · exact (List.Perm.cons y ih).trans (List.Perm.swap x y ys)

theorem isort_perm {α : Type} (le : α → α → Bool) (l : List α) : (isort le l).Perm l := by
  induction l with
  | nil => exact List.Perm.refl _
  | cons x xs ih => exact (insertBy_perm le x _).trans (List.Perm.cons x ih)

theorem mem_isort {α : Type} (le : α → α → Bool) (z : α) (l : List α) : z ∈ isort le l ↔ z ∈ l :=
  (isort_perm le l).mem_iff

theorem insertBy_pairwise {α : Type} (le : α → α → Bool)
    (trans : ∀ a b c, le a b = true → le b c = true → le a c = true)
    (total : ∀ a b, le a b = true ∨ le b a = true) (x : α) (l : List α)
    (h : l.Pairwise (fun a b => le a b = true)) :
    (insertBy le x l).Pairwise (fun a b => le a b = true) := by
  induction l with
  | nil => simp [insertBy]
  | cons y ys ih =>
    obtain ⟨hy, hys⟩ := List.pairwise_cons.1 h
    unfold insertBy
    split
    · rename_i hxy
      refine List.pairwise_cons.2 ⟨?_, h⟩
      intro z hz
      rcases List.mem_cons.1 hz with rfl | hz
      · exact hxy
      · exact trans _ _ _ hxy (hy z hz)
    · rename_i hxy
      refine List.pairwise_cons.2 ⟨?_, ih hys⟩
      intro z hz
      rcases (mem_insertBy le x z ys).1 hz with rfl | hz
      · rcases total z y with h | h
        · exact absurd h hxy
        · exact h
      · exact hy z hz

theorem isort_pairwise {α : Type} (le : α → α → Bool)
    (trans : ∀ a b c, le a b = true → le b c = true → le a c = true)
    (total : ∀ a b, le a b = true ∨ le b a = true) (l : List α) :
    (isort le l).Pairwise (fun a b => le a b = true) := by
  induction l with
  | nil => exact List.Pairwise.nil
  | cons x xs ih => exact insertBy_pairwise le trans total x _ ih

/-! ### Greedy -/

theorem greedyLe_trans (a b c : LR) (h1 : greedyLe a b = true) (h2 : greedyLe b c = true) :
    greedyLe a c = true := by
  unfold greedyLe at *
  grind

theorem greedyLe_total (a b : LR) : greedyLe a b = true ∨ greedyLe b a = true := by
  unfold greedyLe
  grind

theorem greedyLe_start (a b : LR) (h : greedyLe a b = true) : a.start ≤ b.start := by
  unfold greedyLe at h
  grind

/-- the new interval `[o, o+sz)` is disjoint from every current allocation -/
def Fits (cur : List (Nat × LR)) (o sz : Nat) : Prop :=
  ∀ e ∈ cur, o + sz ≤ e.1 ∨ e.1 + e.2.size ≤ o

/-- `current_allocs` is address-ordered and pairwise disjoint: every earlier entry ends at or
    before the start of every later entry -/
def CurOK (cur : List (Nat × LR)) : Prop := cur.Pairwise (fun x y => x.1 + x.2.size ≤ y.1)

theorem le_foldl_max (l : List (Nat × LR)) (m : Nat) :
    m ≤ l.foldl (fun m e => max m (e.1 + e.2.size)) m ∧
    ∀ e ∈ l, e.1 + e.2.size ≤ l.foldl (fun m e => max m (e.1 + e.2.size)) m := by
  induction l generalizing m with
  | nil => simp
  | cons x xs ih =>
    simp only [List.foldl_cons, List.mem_cons]
    obtain ⟨h1, h2⟩ := ih (max m (x.1 + x.2.size))
    refine ⟨by omega, ?_⟩
    rintro e (rfl | he)
    · omega
    · exact h2 e he

theorem le_currentTop {cur : List (Nat × LR)} {e : Nat × LR} (h : e ∈ cur) :
    e.1 + e.2.size ≤ currentTop cur := (le_foldl_max cur 0).2 e h

theorem scan_fits (all : List (Nat × LR)) (hall : CurOK all) (al asz sz : Nat) (hal : 0 < al)
    (hsz : sz ≤ asz) :
    ∀ (suf pre : List (Nat × LR)) (s : Scan), all = pre ++ suf →
      (∀ e ∈ pre, e.1 + e.2.size ≤ s.cur) → Fits all s.best sz →
      Fits all (suf.foldl (greedyScanStep al asz) s).best sz := by
  intro suf
  induction suf with
  | nil => intro pre s _ _ h; exact h
  | cons e suf ih =>
    intro pre s hsplit hpre hfit
    rw [List.foldl_cons]
    have hpw : (pre ++ e :: suf).Pairwise (fun x y => x.1 + x.2.size ≤ y.1) := hsplit ▸ hall
    obtain ⟨_, hsufpw, hcross⟩ := List.pairwise_append.1 hpw
    obtain ⟨he_suf, _⟩ := List.pairwise_cons.1 hsufpw
    apply ih (pre ++ [e]) (greedyScanStep al asz s e)
    · rw [hsplit]; simp
    · intro x hx
      show x.1 + x.2.size ≤ e.1 + e.2.size
      rcases List.mem_append.1 hx with hx | hx
      · have := hcross x hx e (by simp); omega
      · simp only [List.mem_singleton] at hx; subst hx; omega
    · unfold greedyScanStep
      simp only
      split
      · rename_i hc
        intro x hx
        rw [hsplit] at hx
        have hle := le_roundUp s.cur al hal
        rcases List.mem_append.1 hx with hx | hx
        · right
          have := hpre x hx
          show x.1 + x.2.size ≤ roundUp s.cur al
          omega
        · left
          show roundUp s.cur al + sz ≤ x.1
          rcases List.mem_cons.1 hx with rfl | hx
          · omega
          · have := he_suf x hx; omega
      · exact hfit

theorem greedyAlloc_fits (cur : List (Nat × LR)) (mem : Nat) (lr : LR) (hcur : CurOK cur)
    (hal : 0 < lr.align) : Fits cur (greedyAlloc cur mem lr).1 lr.size := by
  unfold greedyAlloc
  simp only
  apply scan_fits cur hcur lr.align _ lr.size hal (le_roundUp _ _ hal) cur [] _ rfl
  · intro e he; cases he
  · intro e he
    right
    have := le_currentTop he
    have := le_roundUp (currentTop cur) lr.align hal
    show e.1 + e.2.size ≤ roundUp (currentTop cur) lr.align
    omega

theorem scan_aligned (al asz : Nat) (l : List (Nat × LR)) (s : Scan) (h : al ∣ s.best) :
    al ∣ (l.foldl (greedyScanStep al asz) s).best := by
  induction l generalizing s with
  | nil => exact h
  | cons e l ih =>
    rw [List.foldl_cons]
    apply ih
    unfold greedyScanStep
    simp only
    split
    · exact dvd_roundUp _ _
    · exact h

theorem greedyAlloc_aligned (cur : List (Nat × LR)) (mem : Nat) (lr : LR) :
    lr.align ∣ (greedyAlloc cur mem lr).1 := by
  unfold greedyAlloc
  exact scan_aligned _ _ _ _ (dvd_roundUp _ _)

theorem mem_insertAlloc (x z : Nat × LR) (l : List (Nat × LR)) :
    z ∈ insertAlloc x l ↔ z = x ∨ z ∈ l := by
  induction l with
  | nil => simp [insertAlloc]
  | cons y ys ih =>
    unfold insertAlloc
    split
    · simp
    · simp only [List.mem_cons, ih]
      constructor
      · rintro (h | h | h)
        · exact Or.inr (Or.inl h)
        · exact Or.inl h
        · exact Or.inr (Or.inr h)
      · rintro (h | h | h)
        · exact Or.inr (Or.inl h)
        · exact Or.inl h
        · exact Or.inr (Or.inr h)

theorem insertAlloc_ok (x : Nat × LR) (cur : List (Nat × LR)) (hcur : CurOK cur)
    (hpos : ∀ e ∈ cur, 0 < e.2.size) (hx : 0 < x.2.size) (hfit : Fits cur x.1 x.2.size) :
    CurOK (insertAlloc x cur) := by
  unfold CurOK at *
  induction cur with
  | nil => simp [insertAlloc]
  | cons y ys ih =>
    obtain ⟨hy, hys⟩ := List.pairwise_cons.1 hcur
    have hfy := hfit y (by simp)
    have hpy := hpos y (by simp)
    unfold insertAlloc
    split
    · rename_i hlt
      have hle : x.1 ≤ y.1 := by
        unfold allocLt at hlt
        simp only [Bool.or_eq_true, decide_eq_true_eq, Bool.and_eq_true, beq_iff_eq] at hlt
        omega
      refine List.pairwise_cons.2 ⟨?_, hcur⟩
      intro z hz
      rcases List.mem_cons.1 hz with rfl | hz
      · omega
      · have := hy z hz; omega
    · rename_i hlt
      have hle : y.1 ≤ x.1 := by
        unfold allocLt at hlt
        simp only [Bool.or_eq_true, decide_eq_true_eq, Bool.and_eq_true, beq_iff_eq, not_or] at hlt
        omega
      refine List.pairwise_cons.2 ⟨?_, ?_⟩
      · intro z hz
        rcases (mem_insertAlloc x z ys).1 hz with rfl | hz
        · omega
        · exact hy z hz
      · exact ih hys (fun e he => hpos e (by simp [he])) (fun e he => hfit e (by simp [he]))

theorem greedyLoop_map_fst (l : List LR) (cur : List (Nat × LR)) (mem : Nat) :
    (greedyLoop l cur mem).1.map Prod.fst = l := by
  induction l generalizing cur mem with
  | nil => rfl
  | cons lr rest ih => simp [greedyLoop, ih]

/-- address-disjointness of a placement and a current allocation -/
def DisjPE (p : LR × Nat) (e : Nat × LR) : Prop := p.2 + p.1.size ≤ e.1 ∨ e.1 + e.2.size ≤ p.2

/-- placement as a `Spec` record (no equivalence class: Greedy/HillClimb never share addresses
    between different live ranges) -/
def toPlaced (p : LR × Nat) : Placed := ⟨p.1.start, p.1.end_, p.1.size, p.1.align, p.2, 0⟩

/-- **Invariant of the Greedy allocation loop.**  For a list sorted by start time, starting from
    an ordered, disjoint `current_allocs`: every future placement is disjoint from every current
    allocation that is still alive when it starts, and the future placements are conflict free
    among themselves. -/
theorem greedyLoop_ok : ∀ (l : List LR) (cur : List (Nat × LR)) (mem : Nat),
    l.Pairwise (fun a b => a.start ≤ b.start) → (∀ lr ∈ l, 0 < lr.size ∧ 0 < lr.align) →
    CurOK cur → (∀ e ∈ cur, 0 < e.2.size) →
    (∀ p ∈ (greedyLoop l cur mem).1, ∀ e ∈ cur, p.1.start ≤ e.2.end_ → DisjPE p e) ∧
    ((greedyLoop l cur mem).1.map toPlaced).Pairwise NoConflict := by
  intro l
  induction l with
  | nil => intro cur mem _ _ _ _; simp [greedyLoop]
  | cons lr rest ih =>
    intro cur mem hsorted hpos hcur hcurpos
    obtain ⟨hlr_le, hrest_sorted⟩ := List.pairwise_cons.1 hsorted
    obtain ⟨hsz, hal⟩ := hpos lr (by simp)
    have hcur1 : CurOK (greedyExpire cur lr.start) := List.Pairwise.filter _ hcur
    have hcur1pos : ∀ e ∈ greedyExpire cur lr.start, 0 < e.2.size :=
      fun e he => hcurpos e (List.mem_filter.1 he).1
    have hfit := greedyAlloc_fits (greedyExpire cur lr.start) mem lr hcur1 hal
    have hcur2 : CurOK (greedyAlloc (greedyExpire cur lr.start) mem lr).2.1 :=
      insertAlloc_ok (_, lr) _ hcur1 hcur1pos hsz hfit
    have hcur2pos : ∀ e ∈ (greedyAlloc (greedyExpire cur lr.start) mem lr).2.1, 0 < e.2.size := by
      intro e he
      rcases (mem_insertAlloc _ _ _).1 he with rfl | he
      · exact hsz
      · exact hcur1pos e he
    obtain ⟨ih1, ih2⟩ := ih (greedyAlloc (greedyExpire cur lr.start) mem lr).2.1
      (greedyAlloc (greedyExpire cur lr.start) mem lr).2.2 hrest_sorted
      (fun x hx => hpos x (by simp [hx])) hcur2 hcur2pos
    have hfst := greedyLoop_map_fst rest (greedyAlloc (greedyExpire cur lr.start) mem lr).2.1
      (greedyAlloc (greedyExpire cur lr.start) mem lr).2.2
    have hmem_rest : ∀ p ∈ (greedyLoop rest (greedyAlloc (greedyExpire cur lr.start) mem lr).2.1
        (greedyAlloc (greedyExpire cur lr.start) mem lr).2.2).1, p.1 ∈ rest := by
      intro p hp
      rw [← hfst]
      exact List.mem_map_of_mem hp
    simp only [greedyLoop]
    constructor
    · intro p hp e he hlive
      rcases List.mem_cons.1 hp with rfl | hp
      · have he1 : e ∈ greedyExpire cur lr.start := by
          unfold greedyExpire
          rw [List.mem_filter]
          refine ⟨he, ?_⟩
          simp only [Bool.not_eq_true', decide_eq_false_iff_not]
          simp only at hlive
          omega
        have := hfit e he1
        simp only [DisjPE]
        exact this
      · have hstart := hlr_le p.1 (hmem_rest p hp)
        have he1 : e ∈ greedyExpire cur lr.start := by
          unfold greedyExpire
          rw [List.mem_filter]
          refine ⟨he, ?_⟩
          simp only [Bool.not_eq_true', decide_eq_false_iff_not]
          omega
        exact ih1 p hp e ((mem_insertAlloc _ _ _).2 (Or.inr he1)) hlive
    · rw [List.map_cons]
      refine List.pairwise_cons.2 ⟨?_, ih2⟩
      intro q hq
      obtain ⟨p, hp, rfl⟩ := List.mem_map.1 hq
      intro hlt
      left
      obtain ⟨t, ⟨h1, h2⟩, ⟨h3, h4⟩⟩ := hlt
      simp only [toPlaced] at h1 h2 h3 h4
      have := ih1 p hp ((greedyAlloc (greedyExpire cur lr.start) mem lr).1, lr)
        ((mem_insertAlloc _ _ _).2 (Or.inl rfl)) (by simp only; omega)
      simp only [DisjPE] at this
      simp only [Spec.Alloc.Disjoint, toPlaced]
      omega

theorem greedyLoop_aligned (l : List LR) (cur : List (Nat × LR)) (mem : Nat) :
    ∀ p ∈ (greedyLoop l cur mem).1, p.1.align ∣ p.2 := by
  induction l generalizing cur mem with
  | nil => intro p hp; cases hp
  | cons lr rest ih =>
    intro p hp
    simp only [greedyLoop] at hp
    rcases List.mem_cons.1 hp with rfl | hp
    · exact greedyAlloc_aligned _ mem lr
    · exact ih _ _ p hp

theorem greedyLoop_total (l : List LR) (cur : List (Nat × LR)) (mem : Nat) :
    (greedyLoop l cur mem).2 =
      max mem (Spec.Alloc.paddedEnd ((greedyLoop l cur mem).1.map toPlaced)) := by
  induction l generalizing cur mem with
  | nil => simp [greedyLoop, Spec.Alloc.paddedEnd]
  | cons lr rest ih =>
    simp only [greedyLoop, List.map_cons, Spec.Alloc.paddedEnd, List.foldr_cons]
    rw [ih]
    simp only [Spec.Alloc.paddedEnd, greedyAlloc, toPlaced, spec_roundUp_eq]
    omega

end VelaVerif.Alloc
