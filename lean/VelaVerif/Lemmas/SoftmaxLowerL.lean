import VelaVerif.Spec.SoftmaxLower
/-!
# `NStep.ofRow ∘ NStep.row` is the identity up to fields the interpreter does not read

`erase s` is `s` with the quantisation of constant operands replaced by the default one and — for a step whose output stage is the
plain one into a 32-bit OFM — OFM zero point and ACTIVATION_MIN / MAX replaced by 0.  `ofRow_row`: `ofRow (row s) = some (erase s)`;
`evalStep_erase`: the interpreter gives the same value on `erase s` as on `s`.
-/
namespace VelaVerif.Lemmas.SoftmaxLowerL
open VelaVerif VelaVerif.SoftmaxGraph VelaVerif.SoftmaxExec VelaVerif.SoftmaxLower VelaVerif.NpuWide

def eraseOp : Operand → Operand
  | .const v _ => .const v default
  | o => o

def erase (s : NStep) : NStep :=
  let p := plainWide s.kind.code s.ofm32 s.lut.isNone
  { s with a := eraseOp s.a, b := s.b.map eraseOp, ozp := if p then 0 else s.ozp, actMin := if p then 0 else s.actMin,
           actMax := if p then 0 else s.actMax }

theorem kindOfCode_code (k : SoftmaxGraph.OpKind) : kindOfCode k.code = k := by cases k <;> rfl

theorem roundOfCode_code (r : NRound) : roundOfCode (roundCode r) = r := by cases r <;> rfl

theorem boolCode_beq (b : Bool) : (boolCode b == 1) = b := by cases b <;> rfl

theorem operandOfRow_some (o : Operand) :
    ∃ t v, operandRow (some o) = [t, v] ∧ operandOfRow t v = some (eraseOp o) := by
  cases o with
  | input => exact ⟨0, 0, rfl, rfl⟩
  | pass n => exact ⟨1, n, rfl, by simp [operandOfRow, eraseOp]⟩
  | const v q => exact ⟨2, v, rfl, by simp [operandOfRow, eraseOp]⟩

theorem operandOfRow_opt (o : Option Operand) :
    ∃ t v, operandRow o = [t, v] ∧ operandOfRow t v = o.map eraseOp := by
  cases o with
  | none => exact ⟨3, 0, rfl, rfl⟩
  | some o =>
    obtain ⟨t, v, h1, h2⟩ := operandOfRow_some o
    exact ⟨t, v, h1, by simp [h2]⟩

theorem ofRow_row (s : NStep) : NStep.ofRow (NStep.row s) = some (erase s) := by
  obtain ⟨ta, va, ha1, ha2⟩ := operandOfRow_some s.a
  obtain ⟨tb, vb, hb1, hb2⟩ := operandOfRow_opt s.b
  cases hl : s.lut with
  | none =>
    simp only [NStep.row, ha1, hb1, hl, List.cons_append, List.nil_append, NStep.ofRow, ha2, hb2, kindOfCode_code, roundOfCode_code,
      boolCode_beq, Int.toNat_natCast, if_true, erase, Option.isNone_none]
  | some lb =>
    obtain ⟨lo, bits⟩ := lb
    simp only [NStep.row, ha1, hb1, hl, List.cons_append, List.nil_append, NStep.ofRow, ha2, hb2, kindOfCode_code, roundOfCode_code,
      boolCode_beq, Int.toNat_natCast, erase, Option.isNone_some]
    cases s; simp_all

theorem operandVal_eraseOp (xs : List Int) (env : List Val) (o : Operand) : operandVal xs env (eraseOp o) = operandVal xs env o := by
  cases o <;> rfl

@[simp] theorem erase_kind (s : NStep) : (erase s).kind = s.kind := rfl
@[simp] theorem erase_a (s : NStep) : (erase s).a = eraseOp s.a := rfl
@[simp] theorem erase_b (s : NStep) : (erase s).b = s.b.map eraseOp := rfl
@[simp] theorem erase_rounding (s : NStep) : (erase s).rounding = s.rounding := rfl
@[simp] theorem erase_mult (s : NStep) : (erase s).mult = s.mult := rfl
@[simp] theorem erase_shift (s : NStep) : (erase s).shift = s.shift := rfl
@[simp] theorem erase_aZp (s : NStep) : (erase s).aZp = s.aZp := rfl
@[simp] theorem erase_bZp (s : NStep) : (erase s).bZp = s.bZp := rfl
@[simp] theorem erase_in32 (s : NStep) : (erase s).in32 = s.in32 := rfl
@[simp] theorem erase_ofsReg (s : NStep) : ofsReg (erase s) = ofsReg s := rfl

theorem outStage_erase (s : NStep) (table : List Int) (v : Int) : outStage (erase s) table v = outStage s table v := by
  unfold outStage erase
  cases hl : s.lut with
  | some lb => simp [plainWide]
  | none =>
    cases h32 : s.ofm32 <;> simp [plainWide, outPlain]

theorem ewElem_erase (s : NStep) (table : List Int) (m : Nat) (a b : Int) : ewElem (erase s) table m a b = ewElem s table m a b := by
  unfold ewElem
  simp only [erase_in32, erase_rounding, erase_ofsReg, erase_aZp, erase_bZp, outStage_erase]

theorem evalStep_erase (table xs : List Int) (env : List Val) (s : NStep) :
    evalStep table xs env (erase s) = evalStep table xs env s := by
  have hew : ∀ m, ewElem (erase s) table m = ewElem s table m := fun m => by funext a b; exact ewElem_erase s table m a b
  unfold evalStep
  simp only [erase_kind, erase_a, operandVal_eraseOp, erase_rounding, erase_mult, erase_shift, erase_aZp, outStage_erase, hew]
  cases hk : s.kind
  case maxpool => simp [erase, plainWide, hk, SoftmaxGraph.OpKind.code]
  case reduceSum => rfl
  case clz => rfl
  all_goals
    cases hb : s.b with
    | none => simp [erase_b, hb]
    | some b => simp only [erase_b, hb, Option.map_some, ewMode, operandVal_eraseOp]

theorem runSteps_erase (table xs : List Int) (prog : List NStep) (env : List Val) :
    runSteps table xs (prog.map erase) env = runSteps table xs prog env := by
  induction prog generalizing env with
  | nil => rfl
  | cons s rest ih =>
    simp only [List.map_cons, runSteps, evalStep_erase]
    cases evalStep table xs env s with
    | error e => rfl
    | ok v => exact ih _

theorem runRow_erase (table xs : List Int) (prog : List NStep) : runRow (prog.map erase) table xs = runRow prog table xs := by
  unfold runRow
  rw [runSteps_erase]

theorem progOfRows_rows (prog : List NStep) : progOfRows (prog.map NStep.row) = some (prog.map erase) := by
  unfold progOfRows
  induction prog with
  | nil => rfl
  | cons s rest ih => simp [List.mapM_cons, ofRow_row, ih]

end VelaVerif.Lemmas.SoftmaxLowerL
