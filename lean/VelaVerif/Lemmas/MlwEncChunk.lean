import VelaVerif.Lemmas.MlwEncStrm
/-!
The chunk loop of a slice (C07): what `encLoop` writes, `chunkLoop` reads back — the interleaving of the weight
and the zero-run stream with its flow control (`balance`), the remainders delayed by one iteration, the final
iteration that only flushes.
-/
namespace VelaVerif.MlwEnc
open VelaVerif.Mlw List

/-- the decoder's view of the slice constants -/
def toDec (e : ECfg) : SliceCfg :=
  { useZ := e.useZ, uncompressed := e.wUnc, trunc := e.wTrunc, wDiv := e.wDiv, zDiv := e.zDiv,
    nvalues := e.nvalues, zNvalues := e.zNvalues }

theorem toDec_maxSymbols (e : ECfg) : (toDec e).maxSymbols = e.maxSymbols := rfl
theorem toDec_zUnaryLen (e : ECfg) : (toDec e).zUnaryLen = e.zUnaryLen := rfl
theorem toDec_unc (e : ECfg) : (toDec e).uncompressed = e.wUnc := rfl
theorem toDec_wDiv (e : ECfg) : (toDec e).wDiv = e.wDiv := rfl
theorem toDec_zDiv (e : ECfg) : (toDec e).zDiv = e.zDiv := rfl
theorem toDec_trunc (e : ECfg) : (toDec e).trunc = e.wTrunc := rfl

/-! ### the readers on what the writer wrote -/

theorem putRemains_length (div : Nat) : ∀ rs : List Nat, (putRemains div rs).length = div * rs.length
  | [] => by simp [putRemains]
  | r :: rs => by simp [putRemains, putBits_length, putRemains_length div rs, Nat.mul_add]; omega

theorem getRemains_putRemains (div : Nat) : ∀ (qs rs : List Nat) (rest : List Bool) (pos : Nat),
    qs.length = rs.length → (∀ x ∈ rs, x < 2 ^ div) →
    getRemains div qs ⟨putRemains div rs ++ rest, pos⟩ =
      .ok (zipWith (comb div) qs rs, ⟨rest, pos + (putRemains div rs).length⟩)
  | [], [], rest, pos, _, _ => by simp [getRemains, putRemains, pure_eq, Rd.pure]
  | [], _ :: _, _, _, h, _ => by simp at h
  | _ :: _, [], _, _, h, _ => by simp at h
  | q :: qs, r :: rs, rest, pos, h, hs => by
    simp only [getRemains, putRemains, bind_eq, pure_eq, append_assoc]
    simp only [Rd.bind]
    rw [get_putBits div r _ _ (hs r mem_cons_self)]
    simp only []
    rw [getRemains_putRemains div qs rs rest _ (by simpa using h) (fun x hx => hs x (mem_cons_of_mem _ hx))]
    simp only [Rd.pure, zipWith_cons_cons, comb, length_append, putBits_length]
    congr 3; omega

theorem get_zero (b : Bits) : Mlw.get 0 b = .ok (0, b) := by
  unfold Mlw.get; simp [takeBits]

theorem readW0_spec (c : SliceCfg) (wEn : Bool) (u0 : Nat) (R : List Bool) (pos : Nat) (h : u0 < 2 ^ 12) :
    readW0 c wEn ⟨(if (wEn && !c.uncompressed) = true then putBits 12 u0 else []) ++ R, pos⟩ =
      .ok ((if (wEn && !c.uncompressed) = true then u0 else 0),
           ⟨R, pos + (if (wEn && !c.uncompressed) = true then putBits 12 u0 else []).length⟩) := by
  unfold readW0
  split
  · rw [get_putBits 12 u0 R pos h, putBits_length]
  · simp [pure_eq, Rd.pure]

theorem readZ_spec (c : SliceCfg) (zEn : Bool) (s : Chunk) (zu : Nat) (R : List Bool) (pos : Nat)
    (h : zu < 2 ^ c.zUnaryLen) :
    readZ c zEn s ⟨(if zEn = true then putBits c.zUnaryLen zu else []) ++ R, pos⟩ =
      .ok ((if zEn = true then zUnaryLoop zu c.zUnaryLen 0 s.zCarry [] else ([], s.zCarry)),
           ⟨R, pos + (if zEn = true then putBits c.zUnaryLen zu else []).length⟩) := by
  unfold readZ
  split
  · simp only [Rd.bind]
    rw [get_putBits _ zu R pos h, putBits_length]
    simp [pure_eq, Rd.pure]
  · simp [pure_eq, Rd.pure]

theorem readW1_spec (c : SliceCfg) (wEn : Bool) (s : Chunk) (u0 u1 len : Nat) (R : List Bool) (pos : Nat)
    (hpop : wEn = true → popLow u0 c.maxSymbols 0 = len) (h1 : u1 < 2 ^ len)
    (hunc : wEn = true → c.uncompressed = true → len = 0) :
    readW1 c wEn s u0 ⟨(if (wEn && !c.uncompressed) = true then putBits len u1 else []) ++ R, pos⟩ =
      .ok ((if wEn = true then wUnaryLoop u0 c.trunc c.maxSymbols 0 u1 s.wCarry [] else ([], s.wCarry)),
           ⟨R, pos + (if (wEn && !c.uncompressed) = true then putBits len u1 else []).length⟩) := by
  unfold readW1
  by_cases hw : wEn = true
  · simp only [hw, if_true, Rd.bind, Bool.true_and]
    rw [hpop hw]
    by_cases hu : c.uncompressed = true
    · have hl := hunc hw hu
      subst hl
      have : u1 = 0 := by simpa using h1
      subst this
      simp [hu, get_zero, pure_eq, Rd.pure]
    · have hu' : c.uncompressed = false := by simpa using hu
      simp only [hu', Bool.not_false, if_true]
      rw [get_putBits _ u1 R pos h1, putBits_length]
      simp [pure_eq, Rd.pure]
  · have hw' : wEn = false := by simpa using hw
    simp [hw', pure_eq, Rd.pure]

theorem readWRemain_spec (c : SliceCfg) (s : Chunk) (rs : List Nat) (R : List Bool) (pos : Nat)
    (hlen : s.wPrevEn = true → (s.wPrevQ.take (c.nvalues - s.wPrevPos)).length = rs.length)
    (hs : s.wPrevEn = true → ∀ x ∈ rs, x < 2 ^ c.wDiv) :
    readWRemain c s ⟨(if s.wPrevEn = true then putRemains c.wDiv rs else []) ++ R, pos⟩ =
      .ok (flush c.wDiv c.nvalues s.wPrevEn s.wPrevQ rs s.wPrevPos,
           ⟨R, pos + (if s.wPrevEn = true then putRemains c.wDiv rs else []).length⟩) := by
  unfold readWRemain flush
  split
  · rename_i h
    rw [getRemains_putRemains _ _ _ _ _ (hlen h) (hs h)]
  · simp [pure_eq, Rd.pure]

theorem readZRemain_spec (c : SliceCfg) (s : Chunk) (rs : List Nat) (R : List Bool) (pos : Nat)
    (hlen : s.zPrevEn = true → (s.zPrevQ.take (c.zNvalues - s.zPrevPos)).length = rs.length)
    (hs : s.zPrevEn = true → ∀ x ∈ rs, x < 2 ^ c.zDiv) :
    readZRemain c s ⟨(if s.zPrevEn = true then putRemains c.zDiv rs else []) ++ R, pos⟩ =
      .ok (flush c.zDiv c.zNvalues s.zPrevEn s.zPrevQ rs s.zPrevPos,
           ⟨R, pos + (if s.zPrevEn = true then putRemains c.zDiv rs else []).length⟩) := by
  unfold readZRemain flush
  split
  · rename_i h
    rw [getRemains_putRemains _ _ _ _ _ (hlen h) (hs h)]
  · simp [pure_eq, Rd.pure]

theorem popLow_zero : ∀ n i : Nat, popLow 0 n i = 0
  | 0, _ => rfl
  | n + 1, i => by simp [popLow, popLow_zero n]

/-! ### uncompressed mode: every symbol is a zero, nothing is written into `WUNARY0` -/

theorem wSym_unc {div j : Nat} {trunc : Bool} {s : Strm} {a : WAcc} (hq : s.q ≤ 0)
    (hz : ∀ v ∈ s.todo, v >>> div = 0) :
    (wSym div trunc j s a).2.unary0 = a.unary0 ∧ (wSym div trunc j s a).1.q ≤ 0 ∧
    (∀ v ∈ (wSym div trunc j s a).1.todo, v >>> div = 0) := by
  have hl : (load div s).q = 0 ∧ (load div s).todo = s.todo := by
    unfold load
    by_cases h : s.q < 0
    · rw [if_pos h]
      cases ht : s.todo with
      | nil => simp
      | cons v t => simp [hz v (by simp [ht])]
    · rw [if_neg h]; exact ⟨by omega, rfl⟩
  simp only [wSym, hl.1]
  have hneg : (0 : Int) - 2 - (if trunc = true then 1 else 0) < 0 := by split <;> omega
  refine ⟨by simp, ?_⟩
  by_cases hr : 0 ≤ (load div s).r
  · rw [finish_done (by simpa using hneg) (by simpa using hr)]
    refine ⟨by simp only []; omega, ?_⟩
    intro v hv; simp only [hl.2] at hv; exact hz v (mem_of_mem_tail hv)
  · rw [finish_pad (by simp only []; omega)]
    refine ⟨by simp only []; omega, ?_⟩
    intro v hv; simp only [hl.2] at hv; exact hz v hv

theorem wSyms_unc (div : Nat) (trunc : Bool) : ∀ (n j : Nat) (s : Strm) (a : WAcc), s.q ≤ 0 →
    (∀ v ∈ s.todo, v >>> div = 0) → (wSyms div trunc n j s a).2.unary0 = a.unary0
  | 0, _, _, _, _, _ => rfl
  | n + 1, j, s, a, hq, hz => by
    obtain ⟨h1, h2, h3⟩ := wSym_unc (j := j) (trunc := trunc) (a := a) hq hz
    show (wSyms div trunc n (j + 1) (wSym div trunc j s a).1 (wSym div trunc j s a).2).2.unary0 = _
    rw [wSyms_unc div trunc n (j + 1) _ _ h2 h3, h1]

/-! ### one iteration, one stream at a time -/

/-- what the slice constants must satisfy (all of it follows from `PlanOk`) -/
structure CfgOk (e : ECfg) (wv zv : List Nat) : Prop where
  nv : e.nvalues = wv.length
  znv : e.useZ = true → e.zNvalues = zv.length ∧ wv.length ≤ zv.length ∧ zv.length ≤ wv.length + 1
  noz : e.useZ = false → zv = []
  trunc : TruncOk e.wDiv e.wTrunc wv
  unc : e.wUnc = true → ∀ v ∈ wv, v >>> e.wDiv = 0

theorem maxSymbols_le (e : ECfg) : 0 < e.maxSymbols ∧ e.maxSymbols ≤ 12 := by
  unfold ECfg.maxSymbols; split <;> omega
theorem zUnaryLen_pos (e : ECfg) : 0 < e.zUnaryLen := by
  unfold ECfg.zUnaryLen; split <;> omega

theorem pow_le_12 {n : Nat} (h : n ≤ 12) : 2 ^ n ≤ 2 ^ 12 := Nat.pow_le_pow_right (by omega) h

theorem w_side {e : ECfg} {wv zv : List Nat} {E : EState} {dPos dPrevPos dCarry : Nat} {dPrevQ dVals : List Nat}
    (hc : CfgOk e wv zv)
    (hw : StrmInv e.wDiv wv E.w E.wPrevEn E.wPrevRemain dPos dPrevPos dCarry dPrevQ dVals) :
    ∃ (qs : List Nat) (cy' : Nat),
      (wEnableE e E = true →
        (wChunk e E).2.unary0 < 2 ^ 12 ∧ (wChunk e E).2.unary1 < 2 ^ (wChunk e E).2.unary1Len ∧
        popLow (wChunk e E).2.unary0 e.maxSymbols 0 = (wChunk e E).2.unary1Len ∧
        (e.wUnc = true → (wChunk e E).2.unary0 = 0) ∧
        wUnaryLoop (wChunk e E).2.unary0 e.wTrunc e.maxSymbols 0 (wChunk e E).2.unary1 dCarry [] = (qs, cy')) ∧
      (wEnableE e E = false → qs = [] ∧ cy' = dCarry) ∧
      StrmInv e.wDiv wv (wChunk e E).1 (wEnableE e E) (wChunk e E).2.remain (dPos + qs.length)
        (dPrevPos + (flush e.wDiv wv.length E.wPrevEn dPrevQ E.wPrevRemain dPrevPos).length) cy' qs
        ((flush e.wDiv wv.length E.wPrevEn dPrevQ E.wPrevRemain dPrevPos).reverse ++ dVals) ∧
      pot e.wDiv (wChunk e E).1.todo + dCarry ≤ pot e.wDiv E.w.todo + cy' ∧
      (wEnableE e E = true → pot e.wDiv (wChunk e E).1.todo + dCarry < pot e.wDiv E.w.todo + cy') := by
  by_cases hen : wEnableE e E = true
  · have hlt : E.w.pos < wv.length := by
      have := hen; unfold wEnableE at this; simp only [Bool.and_eq_true, decide_eq_true_eq] at this
      rw [← hc.nv]; exact this.2
    have htr : TruncOk e.wDiv e.wTrunc E.w.todo := by rw [hw.todo]; exact hc.trunc.drop _
    have hne : E.w.todo ≠ [] := by
      rw [hw.todo]; intro h; have := drop_eq_nil_iff.mp h; omega
    obtain ⟨qs, rs, cy', h1, _, h3, _, h5, h6, h7, h8, h9⟩ :=
      wSyms_spec e.wDiv e.wTrunc e.maxSymbols 0 E.w {} dCarry [] hw.sr (by simp) (by simp) htr
    have hch : wChunk e E = wSyms e.wDiv e.wTrunc e.maxSymbols 0 E.w {} := by unfold wChunk; rw [if_pos hen]
    rw [hch]
    simp only [Nat.zero_add, Nat.pow_zero, Nat.div_one, Nat.add_zero, reverse_nil, nil_append] at h1 h5 h6 h7
    refine ⟨qs, cy', fun _ => ⟨Nat.lt_of_lt_of_le h1 (pow_le_12 (maxSymbols_le e).2), h3, h5, ?_, h6⟩,
      fun h => (by rw [hen] at h; cases h), ?_, h8.pot_le, fun _ => h9 (maxSymbols_le e).1 hne⟩
    · intro hu
      have hq : E.w.q ≤ 0 := by
        by_cases hq : E.w.q < 0
        · omega
        · obtain ⟨v, t, h1, _, h3⟩ := hw.sr.2 (by omega)
          have := hc.unc hu v (by have : v ∈ E.w.todo := by simp [h1]
                                  rw [hw.todo] at this; exact mem_of_mem_drop this)
          omega
      exact wSyms_unc e.wDiv e.wTrunc e.maxSymbols 0 E.w {} hq
        (fun v hv => hc.unc hu v (by rw [hw.todo] at hv; exact mem_of_mem_drop hv))
    · rw [hen, h7]; exact hw.step_en hlt h8
  · have hen' : wEnableE e E = false := by simpa using hen
    have hch : wChunk e E = (E.w, { remain := E.wPrevRemain }) := by unfold wChunk; rw [if_neg hen]
    rw [hch, hen']
    exact ⟨[], dCarry, fun h => (by cases h), fun _ => ⟨rfl, rfl⟩, (by simpa using hw.step_dis E.wPrevRemain),
      (by simp only []; omega), fun h => (by cases h)⟩

theorem z_side {e : ECfg} {zv : List Nat} {E : EState} {dPos dPrevPos dCarry : Nat} {dPrevQ dVals : List Nat}
    (hlt : zEnableE e E = true → E.z.pos < zv.length)
    (hz : StrmInv e.zDiv zv E.z E.zPrevEn E.zPrevRemain dPos dPrevPos dCarry dPrevQ dVals) :
    ∃ (qs : List Nat) (cy' : Nat),
      (zEnableE e E = true →
        (zChunk e E).2.unary < 2 ^ e.zUnaryLen ∧
        zUnaryLoop (zChunk e E).2.unary e.zUnaryLen 0 dCarry [] = (qs, cy')) ∧
      (zEnableE e E = false → qs = [] ∧ cy' = dCarry) ∧
      StrmInv e.zDiv zv (zChunk e E).1 (zEnableE e E) (zChunk e E).2.remain (dPos + qs.length)
        (dPrevPos + (flush e.zDiv zv.length E.zPrevEn dPrevQ E.zPrevRemain dPrevPos).length) cy' qs
        ((flush e.zDiv zv.length E.zPrevEn dPrevQ E.zPrevRemain dPrevPos).reverse ++ dVals) ∧
      pot e.zDiv (zChunk e E).1.todo + dCarry ≤ pot e.zDiv E.z.todo + cy' ∧
      (zEnableE e E = true → pot e.zDiv (zChunk e E).1.todo + dCarry < pot e.zDiv E.z.todo + cy') := by
  by_cases hen : zEnableE e E = true
  · have hlt := hlt hen
    have hne : E.z.todo ≠ [] := by
      rw [hz.todo]; intro h; have := drop_eq_nil_iff.mp h; omega
    obtain ⟨qs, rs, cy', h1, _, h6, h7, h8, h9⟩ :=
      zSyms_spec e.zDiv e.zUnaryLen 0 E.z {} dCarry [] hz.sr (by simp)
    have hch : zChunk e E = zSyms e.zDiv e.zUnaryLen 0 E.z {} := by unfold zChunk; rw [if_pos hen]
    rw [hch]
    simp only [Nat.zero_add, reverse_nil, nil_append] at h1 h6 h7
    refine ⟨qs, cy', fun _ => ⟨h1, h6⟩, fun h => (by rw [hen] at h; cases h), ?_, h8.pot_le,
      fun _ => h9 (zUnaryLen_pos e) hne⟩
    rw [hen, h7]; exact hz.step_en hlt h8
  · have hen' : zEnableE e E = false := by simpa using hen
    have hch : zChunk e E = (E.z, { remain := E.zPrevRemain }) := by unfold zChunk; rw [if_neg hen]
    rw [hch, hen']
    exact ⟨[], dCarry, fun h => (by cases h), fun _ => ⟨rfl, rfl⟩, (by simpa using hz.step_dis E.zPrevRemain),
      (by simp only []; omega), fun h => (by cases h)⟩

/-! ### the loop invariant -/

structure Inv (e : ECfg) (wv zv : List Nat) (E : EState) (D : Chunk) : Prop where
  w : StrmInv e.wDiv wv E.w E.wPrevEn E.wPrevRemain D.wPos D.wPrevPos D.wCarry D.wPrevQ D.wVals
  z : StrmInv e.zDiv zv E.z E.zPrevEn E.zPrevRemain D.zPos D.zPrevPos D.zCarry D.zPrevQ D.zVals
  wen : D.wPrevEn = E.wPrevEn
  zen : D.zPrevEn = E.zPrevEn
  noz : e.useZ = false → E.zPrevEn = false

/-- the flow control of the two sides agrees although the decoder counts padding symbols and the encoder does not -/
theorem enables_agree {e : ECfg} {wv zv : List Nat} {E : EState} {D : Chunk} (hc : CfgOk e wv zv)
    (hi : Inv e wv zv E D) :
    wEnable (toDec e) D = wEnableE e E ∧ zEnable (toDec e) D = zEnableE e E := by
  have hw := hi.w.pos; have hz := hi.z.pos; have hnv := hc.nv
  unfold wEnable zEnable wEnableE zEnableE toDec
  cases hu : e.useZ
  · have := hc.noz hu
    simp only [this, length_nil] at hz
    simp
    rw [hnv]; omega
  · obtain ⟨h1, h2, h3⟩ := hc.znv hu
    simp only [if_true, Bool.not_true, Bool.false_or, Bool.true_and, Bool.and_true]
    constructor
    · rw [Bool.eq_iff_iff]; simp only [Bool.and_eq_true, decide_eq_true_eq]; omega
    · rw [Bool.eq_iff_iff]; simp only [Bool.and_eq_true, decide_eq_true_eq]; omega

/-- when neither stream is enabled every value has been written -/
theorem done_of_disabled {e : ECfg} {wv zv : List Nat} {E : EState} {D : Chunk} (hc : CfgOk e wv zv)
    (hi : Inv e wv zv E D) (hw : wEnableE e E = false) (hz : zEnableE e E = false) :
    E.w.pos = wv.length ∧ E.z.pos = zv.length := by
  have h1 := hi.w.pos_le; have h2 := hi.z.pos_le; have hnv := hc.nv
  unfold wEnableE at hw; unfold zEnableE at hz
  cases hu : e.useZ
  · have := hc.noz hu
    simp only [this, length_nil] at h2 ⊢
    simp [hu] at hw
    omega
  · obtain ⟨h3, h4, h5⟩ := hc.znv hu
    simp only [hu, if_true, Bool.and_true, Bool.and_eq_false_iff, decide_eq_false_iff_not] at hw hz
    omega

theorem zEnableE_lt {e : ECfg} {wv zv : List Nat} {E : EState} (hc : CfgOk e wv zv) (h : zEnableE e E = true) :
    E.z.pos < zv.length ∧ e.useZ = true := by
  unfold zEnableE at h
  simp only [Bool.and_eq_true, decide_eq_true_eq] at h
  rw [← (hc.znv h.1.2).1]; exact ⟨h.2, h.1.2⟩

/-- the flush the decoder does with its own `z_nvalues` is the one of the invariant -/
theorem flush_z {e : ECfg} {wv zv : List Nat} {E : EState} {D : Chunk} (hc : CfgOk e wv zv) (hi : Inv e wv zv E D) :
    flush e.zDiv e.zNvalues D.zPrevEn D.zPrevQ E.zPrevRemain D.zPrevPos =
      flush e.zDiv zv.length E.zPrevEn D.zPrevQ E.zPrevRemain D.zPrevPos := by
  rw [hi.zen]
  cases hu : e.useZ
  · rw [hi.noz hu]; simp [flush]
  · rw [(hc.znv hu).1]

theorem chunkBits_dec (e : ECfg) (E : EState) : chunkBits e E =
    (if (wEnableE e E && !(toDec e).uncompressed) = true then putBits 12 (wChunk e E).2.unary0 else []) ++
    (if zEnableE e E = true then putBits (toDec e).zUnaryLen (zChunk e E).2.unary else []) ++
    (if (wEnableE e E && !(toDec e).uncompressed) = true then putBits (wChunk e E).2.unary1Len (wChunk e E).2.unary1 else []) ++
    (if E.wPrevEn = true then putRemains (toDec e).wDiv E.wPrevRemain else []) ++
    (if E.zPrevEn = true then putRemains (toDec e).zDiv E.zPrevRemain else []) := rfl

/-- one iteration of the chunk loop: the decoder's step reads exactly the bits the encoder's step wrote and the
    invariant holds again -/
theorem chunkStep_chunkBits {e : ECfg} {wv zv : List Nat} {E : EState} {D : Chunk} (hc : CfgOk e wv zv)
    (hi : Inv e wv zv E D) :
    ∃ D', (∀ (rest : List Bool) (pos : Nat),
        chunkStep (toDec e) (wEnableE e E) (zEnableE e E) D ⟨chunkBits e E ++ rest, pos⟩ =
        .ok (D', ⟨rest, pos + (chunkBits e E).length⟩)) ∧
      Inv e wv zv (nextState e E) D' ∧
      pot e.wDiv (nextState e E).w.todo + pot e.zDiv (nextState e E).z.todo + D.wCarry + D.zCarry ≤
        pot e.wDiv E.w.todo + pot e.zDiv E.z.todo + D'.wCarry + D'.zCarry ∧
      ((wEnableE e E || zEnableE e E) = true →
        pot e.wDiv (nextState e E).w.todo + pot e.zDiv (nextState e E).z.todo + D.wCarry + D.zCarry <
          pot e.wDiv E.w.todo + pot e.zDiv E.z.todo + D'.wCarry + D'.zCarry) := by
  obtain ⟨wq, wcy, hw1, hw2, hw3, hw4, hw5⟩ := w_side hc hi.w
  obtain ⟨zq, zcy, hz1, hz2, hz3, hz4, hz5⟩ := z_side (fun h => (zEnableE_lt hc h).1) hi.z
  -- what the five readers return
  have hnvw : (toDec e).nvalues = wv.length := hc.nv
  have hdis : wEnableE e E = false → (wChunk e E).2.unary0 = 0 ∧ (wChunk e E).2.unary1 = 0 ∧ (wChunk e E).2.unary1Len = 0 := by
    intro h; unfold wChunk; simp [h]
  have hzdis : zEnableE e E = false → (zChunk e E).2.unary = 0 := by
    intro h; unfold zChunk; simp [h]
  have hU0 : (wChunk e E).2.unary0 < 2 ^ 12 := by
    cases h : wEnableE e E
    · rw [(hdis h).1]; omega
    · exact (hw1 h).1
  have hU1 : (wChunk e E).2.unary1 < 2 ^ (wChunk e E).2.unary1Len := by
    cases h : wEnableE e E
    · rw [(hdis h).2.1, (hdis h).2.2]; omega
    · exact (hw1 h).2.1
  have hZU : (zChunk e E).2.unary < 2 ^ (toDec e).zUnaryLen := by
    cases h : zEnableE e E
    · rw [hzdis h]; exact Nat.two_pow_pos _
    · exact (hz1 h).1
  have hu0 : wEnableE e E = true →
      (if (wEnableE e E && !(toDec e).uncompressed) = true then (wChunk e E).2.unary0 else 0) = (wChunk e E).2.unary0 := by
    intro h
    cases hu : e.wUnc
    · simp [toDec, hu, h]
    · simp [toDec, hu, (hw1 h).2.2.2.1 hu]
  have r1 := readW0_spec (toDec e) (wEnableE e E) (wChunk e E).2.unary0
  have r2 := readZ_spec (toDec e) (zEnableE e E) D (zChunk e E).2.unary
  have r3 := readW1_spec (toDec e) (wEnableE e E) D
    (if (wEnableE e E && !(toDec e).uncompressed) = true then (wChunk e E).2.unary0 else 0)
    (wChunk e E).2.unary1 (wChunk e E).2.unary1Len
  have r4 := readWRemain_spec (toDec e) D E.wPrevRemain
  have r5 := readZRemain_spec (toDec e) D E.zPrevRemain
  have hpop : wEnableE e E = true → popLow (if (wEnableE e E && !(toDec e).uncompressed) = true then (wChunk e E).2.unary0 else 0)
      (toDec e).maxSymbols 0 = (wChunk e E).2.unary1Len := by
    intro h; rw [hu0 h]; exact (hw1 h).2.2.1
  have hunc : wEnableE e E = true → (toDec e).uncompressed = true → (wChunk e E).2.unary1Len = 0 := by
    intro h hu
    have h0 := (hw1 h).2.2.2.1 hu
    have := (hw1 h).2.2.1
    rw [h0] at this
    rw [← this, popLow_zero]
  have hwlen : D.wPrevEn = true → (D.wPrevQ.take ((toDec e).nvalues - D.wPrevPos)).length = E.wPrevRemain.length := by
    intro h; rw [hnvw]; exact hi.w.take_len (by rw [← hi.wen]; exact h)
  have hzlen : D.zPrevEn = true → (D.zPrevQ.take ((toDec e).zNvalues - D.zPrevPos)).length = E.zPrevRemain.length := by
    intro h
    have hen : E.zPrevEn = true := by rw [← hi.zen]; exact h
    have hu : e.useZ = true := by
      cases hu : e.useZ
      · rw [hi.noz hu] at hen; cases hen
      · rfl
    show (D.zPrevQ.take (e.zNvalues - D.zPrevPos)).length = _
    rw [(hc.znv hu).1]; exact hi.z.take_len hen
  have hres : (if wEnableE e E = true then
      wUnaryLoop (if (wEnableE e E && !(toDec e).uncompressed) = true then (wChunk e E).2.unary0 else 0)
        (toDec e).trunc (toDec e).maxSymbols 0 (wChunk e E).2.unary1 D.wCarry [] else ([], D.wCarry)) = (wq, wcy) := by
    cases h : wEnableE e E
    · obtain ⟨rfl, rfl⟩ := hw2 h; simp
    · simp only [if_true]
      have := hu0 h; rw [h] at this; rw [this]
      exact (hw1 h).2.2.2.2
  have hzres : (if zEnableE e E = true then zUnaryLoop (zChunk e E).2.unary (toDec e).zUnaryLen 0 D.zCarry [] else ([], D.zCarry)) = (zq, zcy) := by
    cases h : zEnableE e E
    · obtain ⟨rfl, rfl⟩ := hz2 h; simp
    · simp only [if_true]; exact (hz1 h).2
  have hflw : flush (toDec e).wDiv (toDec e).nvalues D.wPrevEn D.wPrevQ E.wPrevRemain D.wPrevPos =
      flush e.wDiv wv.length E.wPrevEn D.wPrevQ E.wPrevRemain D.wPrevPos := by
    rw [hnvw, hi.wen]; rfl
  have hflz : flush (toDec e).zDiv (toDec e).zNvalues D.zPrevEn D.zPrevQ E.zPrevRemain D.zPrevPos =
      flush e.zDiv zv.length E.zPrevEn D.zPrevQ E.zPrevRemain D.zPrevPos := flush_z hc hi
  refine ⟨{ wPos := D.wPos + wq.length, zPos := D.zPos + zq.length,
            wPrevPos := D.wPrevPos + (flush e.wDiv wv.length E.wPrevEn D.wPrevQ E.wPrevRemain D.wPrevPos).length,
            zPrevPos := D.zPrevPos + (flush e.zDiv zv.length E.zPrevEn D.zPrevQ E.zPrevRemain D.zPrevPos).length,
            wCarry := wcy, zCarry := zcy, wPrevEn := wEnableE e E, zPrevEn := zEnableE e E,
            wPrevQ := wq, zPrevQ := zq,
            wVals := (flush e.wDiv wv.length E.wPrevEn D.wPrevQ E.wPrevRemain D.wPrevPos).reverse ++ D.wVals,
            zVals := (flush e.zDiv zv.length E.zPrevEn D.zPrevQ E.zPrevRemain D.zPrevPos).reverse ++ D.zVals,
            nchunks := D.nchunks + 1 }, ?_, ?_, ?_, ?_⟩
  · intro rest pos
    rw [chunkBits_dec]
    unfold chunkStep
    simp only [bind_eq, pure_eq, Rd.bind, append_assoc]
    rw [r1 _ _ hU0]
    simp only []
    rw [r2 _ _ hZU]
    simp only []
    rw [r3 _ _ hpop hU1 hunc]
    simp only []
    rw [hi.wen.symm, r4 _ _ hwlen (fun h => hi.w.small (by rw [← hi.wen]; exact h))]
    simp only []
    rw [hi.zen.symm, r5 _ _ hzlen (fun h => hi.z.small (by rw [← hi.zen]; exact h))]
    rw [hi.wen] at hflw; rw [hi.zen] at hflz
    simp only [Rd.pure, hres, hzres, length_append, Nat.add_assoc, hi.wen, hi.zen, hflw, hflz]
  · exact ⟨hw3, hz3, rfl, rfl, fun hu => by
      show zEnableE e E = false
      cases h : zEnableE e E
      · rfl
      · have := (zEnableE_lt hc h).2; rw [hu] at this; cases this⟩
  · show pot e.wDiv (wChunk e E).1.todo + pot e.zDiv (zChunk e E).1.todo + D.wCarry + D.zCarry ≤
      pot e.wDiv E.w.todo + pot e.zDiv E.z.todo + wcy + zcy
    omega
  · intro h
    show pot e.wDiv (wChunk e E).1.todo + pot e.zDiv (zChunk e E).1.todo + D.wCarry + D.zCarry <
      pot e.wDiv E.w.todo + pot e.zDiv E.z.todo + wcy + zcy
    rcases Bool.or_eq_true _ _ |>.mp h with h | h
    · have := hw5 h; omega
    · have := hz5 h; omega

/-- **the chunk loop round trip**: whatever `encLoop` writes for the values `wv` (and zero runs `zv`), `chunkLoop`
    reads back, stops at the same bit, and has collected exactly `wv` and `zv` -/
theorem chunkLoop_encLoop {e : ECfg} {wv zv : List Nat} (hc : CfgOk e wv zv) :
    ∀ (fuel : Nat) (E : EState) (D : Chunk) (rest : List Bool) (pos : Nat), Inv e wv zv E D →
      pot e.wDiv E.w.todo + pot e.zDiv E.z.todo < fuel + D.wCarry + D.zCarry →
      ∃ bits D', encLoop e fuel E = .ok bits ∧
        chunkLoop (toDec e) fuel D ⟨bits ++ rest, pos⟩ = .ok (D', ⟨rest, pos + bits.length⟩) ∧
        D'.wVals.reverse = wv ∧ D'.zVals.reverse = zv
  | 0, E, D, rest, pos, hi, hf => by
    have := hi.w.sr.cy_le; have := hi.z.sr.cy_le; omega
  | fuel + 1, E, D, rest, pos, hi, hf => by
    obtain ⟨D1, hstep, hi1, hle, hlt⟩ := chunkStep_chunkBits hc hi
    obtain ⟨ew, ez⟩ := enables_agree hc hi
    by_cases hen : (wEnableE e E || zEnableE e E) = true
    · obtain ⟨bits, D', h1, h2, h3, h4⟩ := chunkLoop_encLoop hc fuel (nextState e E) D1 rest
        (pos + (chunkBits e E).length) hi1 (by have := hlt hen; omega)
      refine ⟨chunkBits e E ++ bits, D', ?_, ?_, h3, h4⟩
      · rw [encLoop, if_pos hen, h1]
      · rw [chunkLoop]
        simp only [bind_eq, Rd.bind, ew, ez, append_assoc, hstep _ _, hen, if_true, h2, length_append, Nat.add_assoc]
    · have hw : wEnableE e E = false := by cases h : wEnableE e E <;> simp_all
      have hz : zEnableE e E = false := by cases h : zEnableE e E <;> simp_all
      obtain ⟨d1, d2⟩ := done_of_disabled hc hi hw hz
      refine ⟨chunkBits e E, D1, ?_, ?_, ?_, ?_⟩
      · rw [encLoop, if_neg hen]
      · rw [chunkLoop]
        simp only [bind_eq, Rd.bind, ew, ez, hstep _ _, hen, pure_eq]
        simp [Rd.pure]
      · have h1 := hi1.w.done; have h2 := hi1.w.pend
        have h3 : (nextState e E).wPrevEn = false := hw
        have h4 : (nextState e E).w.pos = E.w.pos := by
          show (wChunk e E).1.pos = _; unfold wChunk; simp [hw]
        rw [h3, h4] at h2
        rw [h1]; apply take_of_length_le; simp at h2; omega
      · have h1 := hi1.z.done; have h2 := hi1.z.pend
        have h3 : (nextState e E).zPrevEn = false := hz
        have h4 : (nextState e E).z.pos = E.z.pos := by
          show (zChunk e E).1.pos = _; unfold zChunk; simp [hz]
        rw [h3, h4] at h2
        rw [h1]; apply take_of_length_le; simp at h2; omega

end VelaVerif.MlwEnc
