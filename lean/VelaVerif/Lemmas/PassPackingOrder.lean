import VelaVerif.Lemmas.PassPackingFresh
/-!
# The traversal of `pack_into_passes`: the second invariant (no operator twice, producers before consumers) is preserved
-/
namespace VelaVerif.Lemmas.PassPackingDfs
open VelaVerif.PassPacking VelaVerif.Gen.PassPacking VelaVerif.PassPackingSpec VelaVerif.Lemmas.PassPackingWalk

variable {G : Graph} {rk : Nat → Nat}

/-- all operators of the pass that is being built are in no pass yet -/
theorem new_pass_fresh (hW : WFU G rk) {d : Dfs} (hA : DInvA G d) (hnd : (placed d).Nodup) {o : Nat} {rest : List Task}
    (hs : d.stack = .vo o :: rest) (hle : d.doneO.count o + 1 + unusedOutputs G o ≤ (G.op o).outputs.length)
    {ops : List Nat} {refs : List (Nat × Nat)} {S : List Nat} (hF : PassFacts G o ops refs S) :
    ∀ x ∈ ops, x ∉ placed d := by
  have key : ∀ n, ∀ pre x post, ops = pre ++ x :: post → post.length = n → x ∉ placed d := by
    intro n
    induction n using Nat.strongRecOn with
    | _ n ih =>
      intro pre x post hsplit hlen
      by_cases hxo : x = o
      · subst hxo; exact popped_fresh hW hA hnd hs hle
      · obtain ⟨t, c, hc, hcp, hops, hin⟩ := hF.packed pre x post hsplit hxo
        obtain ⟨pre2, post2, hsplit2⟩ := List.append_of_mem hc
        have hc' : c ∉ placed d := by
          apply ih post2.length (by rw [← hlen, hsplit2]; simp; omega) (pre ++ x :: pre2) c post2
          · rw [hsplit, hsplit2]; simp
          · rfl
        exact fresh_of_fresh_consumer hW hA hcp hops hin hc'
  intro x hx
  obtain ⟨pre, post, hsplit⟩ := List.append_of_mem hx
  exact key post.length pre x post hsplit rfl

structure DInvB (G : Graph) (d : Dfs) : Prop where
  nodup : (placed d).Nodup
  /-- the producers of the inputs of an operator are not in an OLDER pass, and in its own pass they come before it -/
  ordered : ∀ pre p post, d.passes = pre ++ p :: post → ∀ c ∈ p.ops, ∀ pr ∈ producersOf G c,
    pr ∉ post.flatMap (·.ops) ∧ ∀ x y, p.ops = x ++ c :: y → pr ∉ y
  range : (∀ x ∈ placed d, x < G.ops.length) ∧ (∀ o, Task.vo o ∈ d.stack → o < G.ops.length)


theorem nodup_split_unique : ∀ (l x y x' y' : List Nat) (c : Nat), l.Nodup → l = x ++ c :: y → l = x' ++ c :: y' → x = x' ∧ y = y'
  | l, [], y, [], y', c, _, h1, h2 => by
    rw [h1] at h2; simp at h2; exact ⟨rfl, h2⟩
  | l, [], y, a :: x', y', c, hn, h1, h2 => by
    exfalso
    rw [h2] at h1; simp only [List.nil_append, List.cons_append, List.cons.injEq] at h1
    obtain ⟨rfl, h⟩ := h1
    rw [h2] at hn; simp at hn
  | l, a :: x, y, [], y', c, hn, h1, h2 => by
    exfalso
    rw [h1] at h2; simp only [List.nil_append, List.cons_append, List.cons.injEq] at h2
    obtain ⟨rfl, h⟩ := h2
    rw [h1] at hn; simp at hn
  | l, a :: x, y, b :: x', y', c, hn, h1, h2 => by
    have h12 := h1.symm.trans h2
    simp only [List.cons_append, List.cons.injEq] at h12
    obtain ⟨rfl, h⟩ := h12
    have hn' : (x ++ c :: y).Nodup := by rw [h1] at hn; exact (List.nodup_cons.mp hn).2
    have := nodup_split_unique (x ++ c :: y) x y x' y' c hn' rfl h
    exact ⟨by rw [this.1], this.2⟩

theorem filter_all_of_length {l : List Nat} {P Q : Nat → Bool} (himp : ∀ x ∈ l, P x = true → Q x = true)
    (hlen : (l.filter Q).length ≤ (l.filter P).length) : ∀ x ∈ l, Q x = true → P x = true := by
  induction l with
  | nil => simp
  | cons a rest ih =>
    have hle : (rest.filter P).length ≤ (rest.filter Q).length := by
      clear ih hlen
      induction rest with
      | nil => simp
      | cons b r ihr =>
        have := ihr (fun x hx => himp x (by simp at hx ⊢; rcases hx with h | h; exact Or.inl h; exact Or.inr (Or.inr h)))
        simp only [List.filter_cons]
        cases hp : P b
        · cases hqb : Q b <;> simp <;> omega
        · have := himp b (by simp) hp
          simp [this]; omega
    intro x hx hq
    simp only [List.filter_cons] at hlen
    cases hpa : P a
    · cases hqa : Q a
      · simp only [hpa, hqa, Bool.false_eq_true, if_false] at hlen
        rcases List.mem_cons.mp hx with rfl | hx
        · rw [hqa] at hq; exact Bool.noConfusion hq
        · exact ih (fun y hy => himp y (List.mem_cons_of_mem _ hy)) hlen x hx hq
      · simp only [hpa, hqa, Bool.false_eq_true, if_false, if_true, List.length_cons] at hlen
        omega
    · have hqa := himp a List.mem_cons_self hpa
      simp only [hpa, hqa, if_true, List.length_cons] at hlen
      rcases List.mem_cons.mp hx with rfl | hx
      · exact hpa
      · exact ih (fun y hy => himp y (List.mem_cons_of_mem _ hy)) (by omega) x hx hq

theorem unusedOutputs_eq (o : Nat) :
    unusedOutputs G o + ((G.op o).outputs.filter fun t => (G.tensor t).consumers.length != 0).length = (G.op o).outputs.length := by
  unfold unusedOutputs
  induction (G.op o).outputs with
  | nil => simp
  | cons a rest ih =>
    simp only [List.filter_cons, List.length_cons]
    cases h : (G.tensor a).consumers.length == 0
    · have : ((G.tensor a).consumers.length != 0) = true := by simp [bne, h]
      simp [this]; omega
    · have : ((G.tensor a).consumers.length != 0) = false := by simp [bne, h]
      simp [this]; omega

/-- an operator that has been started: every output that anybody reads has been visited by all its readers -/
theorem started_all_full {d : Dfs} (hA : DInvA G d) {x : Nat} (hst : x ∈ startsOf d.passes ∨ x ∈ d.startup) :
    ∀ u ∈ (G.op x).outputs, (G.tensor u).consumers ≠ [] → full G d u = true := by
  obtain ⟨hge, heq⟩ := (hA.started x).mp hst
  have hvo := hA.vo x
  have huse := unusedOutputs_eq (G := G) x
  intro u hu hne
  apply filter_all_of_length (l := (G.op x).outputs) (P := full G d) (Q := fun t => (G.tensor t).consumers.length != 0)
  · intro y _ hy; unfold full at hy; simp only [Bool.and_eq_true] at hy; exact hy.2
  · omega
  · exact hu
  · simp only [bne_iff_ne, ne_eq, List.length_eq_zero_iff]; exact hne


theorem occ_pos_of_mem {ops : List Nat} {c t : Nat} (hc : c ∈ ops) (hin : some t ∈ (G.op c).inputs) : occ G ops t ≥ 1 := by
  unfold occ
  induction ops with
  | nil => simp at hc
  | cons a rest ih =>
    simp only [List.map_cons, List.sum_cons]
    rcases List.mem_cons.mp hc with rfl | hc
    · have : cnt G c t ≥ 1 := List.count_pos_iff.mpr hin
      omega
    · have := ih hc; omega

theorem expandRefs_no_vo (refs : List (Nat × Nat)) (o : Nat) : Task.vo o ∉ expandRefs refs := by
  intro h
  have := List.count_pos_iff.mpr h
  rw [expandRefs_only_vt] at this; omega

/-- the new pass in front of the list keeps the order: none of the producers of its inputs is in an older pass -/
theorem new_pass_ordered (hW : WFU G rk) {d : Dfs} (hA : DInvA G d) (hB : DInvB G d) {o : Nat} {rest : List Task}
    (hs : d.stack = .vo o :: rest) (hle : d.doneO.count o + 1 + unusedOutputs G o ≤ (G.op o).outputs.length)
    {p : Pass} {S : List Nat} (hF : PassFacts G o p.ops p.inputRefs S)
    (hfresh : ∀ x ∈ p.ops, x ∉ placed d) (hnd' : ((p :: d.passes).flatMap (·.ops)).Nodup) :
    ∀ c ∈ p.ops, ∀ pr ∈ producersOf G c, pr ∉ d.passes.flatMap (·.ops) ∧ ∀ x y, p.ops = x ++ c :: y → pr ∉ y := by
  intro c hc pr hpr
  obtain ⟨t, hin, hprt⟩ := mem_producersOf.mp hpr
  have hcons_c : some c ∈ (G.tensor t).consumers := by
    have h1 : (G.op c).inputs.count (some t) ≥ 1 := List.count_pos_iff.mpr hin
    rw [← hW.consCount t c] at h1
    exact List.count_pos_iff.mp h1
  rcases hF.cover c hc t hin with hS | ⟨hcp, pr', hops', hpr'⟩
  · -- t is an input of the pass
    refine ⟨?_, fun x y _ hy => ?_⟩
    · intro hflat
      have hplaced : pr ∈ placed d := List.mem_append_left _ hflat
      rcases placed_cases hA hplaced with hst | ⟨p', hp', s', S', hF', hxp', hxs'⟩
      · -- started: t is full, but the new pass still has visits of t to make
        have ht_out : t ∈ (G.op pr).outputs := (hW.prodOut pr t).mp hprt
        have hfull := started_all_full hA hst t ht_out (by intro h0; rw [h0] at hcons_c; simp at hcons_c)
        unfold full at hfull
        simp only [Bool.and_eq_true, beq_iff_eq] at hfull
        have hvt := hA.vt t
        have hle' := emitted_le hW (p :: d.passes)
          (by
            intro q hq
            rcases List.mem_cons.mp hq with rfl | hq
            · exact ⟨o, S, hF⟩
            · obtain ⟨s, S', h', _⟩ := hA.facts q hq; exact ⟨s, S', h'⟩) hnd' t
        rw [emitted_cons, hF.count t] at hle'
        simp only [hS, if_true] at hle'
        have := occ_pos_of_mem (G := G) hc hin
        omega
      · obtain ⟨pre, post, hsplit⟩ := List.append_of_mem hxp'
        obtain ⟨t', c', hc', hcp', hops', _⟩ := hF'.packed pre pr post hsplit hxs'
        rcases canPack_outputs Rules.current hW hcp' hops' hprt with h0 | h0
        · rw [h0] at hcons_c; simp at hcons_c
        · rw [h0] at hcons_c
          simp only [List.mem_singleton, Option.some.injEq] at hcons_c
          subst hcons_c
          exact hfresh c hc (mem_placed_of_pass hp' (by rw [hsplit]; simp [hc']))
    · exact hF.excl t hS pr hprt (by
        have : pr ∈ p.ops := by
          rename_i hsplit; rw [hsplit]; simp [hy]
        exact this)
  · -- t is fused: its producer is in the new pass, before c
    have hpp : pr = pr' := by rw [hops'] at hprt; simpa using hprt
    subst hpp
    refine ⟨fun hflat => hfresh pr hpr' (List.mem_append_left _ hflat), ?_⟩
    intro x y hsplit hy
    by_cases hpo : pr = o
    · subst hpo; exact hF.noSelf c hc hpr
    · obtain ⟨pre', post', hsplit'⟩ := List.append_of_mem hpr'
      obtain ⟨t2, c2, hc2, hcp2, hops2, _⟩ := hF.packed pre' pr post' hsplit' hpo
      obtain ⟨hcc, _⟩ := canPack_only_consumer Rules.current hW hcp2 hops2 hprt hin
      subst hcc
      obtain ⟨b1, b2, hb⟩ := List.append_of_mem hc2
      have h1 : p.ops = (pre' ++ pr :: b1) ++ c :: b2 := by rw [hsplit', hb]; simp
      obtain ⟨hx, hy'⟩ := nodup_split_unique p.ops x y (pre' ++ pr :: b1) b2 c hF.nodup hsplit h1
      have hnd := hF.nodup
      rw [h1, ← hy'] at hnd
      have : pr ∈ pre' ++ pr :: b1 := by simp
      exact (List.nodup_append.mp hnd).2.2 pr this pr (List.mem_cons_of_mem _ hy) rfl


theorem stepCase_invB (hW : WFU G rk) (d d' : Dfs) (hA : DInvA G d) (hB : DInvB G d) (hc : StepCase G d d') : DInvB G d' := by
  cases hc with
  | idle _ => exact hB
  | vt t rest hs hle =>
    refine ⟨hB.nodup, hB.ordered, hB.range.1, ?_⟩
    intro o ho
    simp only [List.mem_append] at ho
    rcases ho with ho | ho
    · split at ho
      · simp only [List.mem_map, List.mem_reverse] at ho
        obtain ⟨x, hx, hxo⟩ := ho
        have : x = o := by injection hxo
        subst this
        exact hW.opsRange t x hx
      · simp at ho
    · exact hB.range.2 o (by rw [hs]; exact List.mem_cons_of_mem _ ho)
  | voPlain o rest hs hle hty =>
    have ho_range : o < G.ops.length := hB.range.2 o (by rw [hs]; simp)
    have hfresh := popped_fresh hW hA hB.nodup hs hle
    refine ⟨?_, hB.ordered, ?_, ?_⟩
    · show (d.passes.flatMap (·.ops) ++ (d.startup ++ _)).Nodup
      rw [← List.append_assoc]
      split
      · apply List.nodup_append.mpr
        refine ⟨hB.nodup, by simp, ?_⟩
        intro a ha b hb hab
        simp only [List.mem_singleton] at hb
        subst hb; subst hab; exact hfresh ha
      · simpa [placed] using hB.nodup
    · intro x hx
      have : x ∈ placed d ∨ x = o := by
        simp only [placed, List.mem_append] at hx ⊢
        rcases hx with hx | hx | hx
        · exact Or.inl (Or.inl hx)
        · exact Or.inl (Or.inr hx)
        · split at hx
          · simp at hx; exact Or.inr hx
          · simp at hx
      rcases this with h | rfl
      · exact hB.range.1 x h
      · exact ho_range
    · intro o' ho'
      exact hB.range.2 o' (by rw [hs]; exact List.mem_cons_of_mem _ ho')
  | voPass o rest p hs heq hty hp =>
    obtain ⟨S, hF⟩ := buildPass_facts hW hp
    have hle : d.doneO.count o + 1 + unusedOutputs G o ≤ (G.op o).outputs.length := by omega
    have ho_range : o < G.ops.length := hB.range.2 o (by rw [hs]; simp)
    have hfresh := new_pass_fresh hW hA hB.nodup hs hle hF
    have hnd_new : (p.ops ++ placed d).Nodup := by
      apply List.nodup_append.mpr
      refine ⟨hF.nodup, hB.nodup, ?_⟩
      intro a ha b hb hab
      subst hab; exact hfresh a ha hb
    have hplaced' : placed { d with stack := expandRefs p.inputRefs ++ rest, doneO := o :: d.doneO, passes := p :: d.passes } =
        p.ops ++ placed d := by
      simp [placed, List.flatMap_cons, List.append_assoc]
    have hflat' : ((p :: d.passes).flatMap (·.ops)).Nodup := by
      have : (p :: d.passes).flatMap (·.ops) ++ d.startup = p.ops ++ placed d := by
        simp [placed, List.flatMap_cons, List.append_assoc]
      have h2 := hnd_new
      rw [← this] at h2
      exact (List.nodup_append.mp h2).1
    refine ⟨by rw [hplaced']; exact hnd_new, ?_, ?_, ?_⟩
    · intro pre q post hsplit c hcq pr hpr
      cases pre with
      | nil =>
        simp only [List.nil_append, List.cons.injEq] at hsplit
        obtain ⟨rfl, rfl⟩ := hsplit
        exact new_pass_ordered hW hA hB hs hle hF hfresh hflat' c hcq pr hpr
      | cons a pre' =>
        simp only [List.cons_append, List.cons.injEq] at hsplit
        exact hB.ordered pre' q post hsplit.2 c hcq pr hpr
    · intro x hx
      rw [hplaced'] at hx
      rcases List.mem_append.mp hx with hx | hx
      · by_cases hxo : x = o
        · subst hxo; exact ho_range
        · obtain ⟨pre, post, hsplit⟩ := List.append_of_mem hx
          obtain ⟨t, c, _, _, hops, _⟩ := hF.packed pre x post hsplit hxo
          exact hW.opsRange t x (by rw [hops]; simp)
      · exact hB.range.1 x hx
    · intro o' ho'
      simp only [List.mem_append] at ho'
      rcases ho' with ho' | ho'
      · exact absurd ho' (expandRefs_no_vo _ _)
      · exact hB.range.2 o' (by rw [hs]; exact List.mem_cons_of_mem _ ho')

theorem dfsStep_inv (hW : WFU G rk) (d : Dfs) (hA : DInvA G d) (hB : DInvB G d) (herr : (dfsStep Rules.current G d).err = none) :
    DInvA G (dfsStep Rules.current G d) ∧ DInvB G (dfsStep Rules.current G d) :=
  ⟨dfsStep_invA hW d hA herr, stepCase_invB hW d _ hA hB (dfsStep_cases d herr)⟩

end VelaVerif.Lemmas.PassPackingDfs
