import VelaVerif.Lemmas.AllocGreedy
/-! Lemmas for C05: the invariant of `linear_allocate_live_ranges` (with shared addresses). -/
namespace VelaVerif.Alloc

/-- tensors whose ranges LinearAlloc may place at one address: equal (non-None) weight
    compression config, or equal equivalence id -/
def Match (x y : LTens) : Prop := (x.wcc ≠ 0 ∧ x.wcc = y.wcc) ∨ x.eqv = y.eqv

theorem linWccAddr_char (st : LinState) (t : LTens) (a1 : Nat) (h : linWccAddr st t = .ok a1) :
    a1 = st.total ∨ ∃ p ∈ st.allocated, p.2 = a1 ∧ Match p.1 t := by
  unfold linWccAddr at h
  split at h
  · rename_i hw
    split at h
    · rename_i p hp
      split at h
      · injection h with h
        right
        have hm := List.mem_of_find?_eq_some hp
        have hpred := List.find?_some hp
        simp only [beq_iff_eq] at hpred
        simp only [bne_iff_ne, ne_eq] at hw
        exact ⟨p, hm, h, Or.inl ⟨by omega, hpred⟩⟩
      · cases h
    · injection h with h; exact Or.inl h.symm
  · injection h with h; exact Or.inl h.symm

theorem linLutAddr_char (st : LinState) (t : LTens) (a1 : Nat) :
    linLutAddr st t a1 = a1 ∨ ∃ p ∈ st.allocated, p.2 = linLutAddr st t a1 ∧ Match p.1 t := by
  unfold linLutAddr
  split
  · split
    · rename_i p hp
      right
      have hm := List.mem_of_find?_eq_some hp
      have hpred := List.find?_some hp
      simp only [beq_iff_eq] at hpred
      exact ⟨p, hm, rfl, Or.inr hpred⟩
    · exact Or.inl rfl
  · exact Or.inl rfl

/-- what one successful step of the loop does -/
theorem linearStep_char (sizes : List Nat) (tensOf : Nat → List LTens) (gran : Nat)
    (st st' : LinState) (t : LTens) (h : linearStep sizes tensOf gran st t = .ok st') :
    st' = st ∨ ∃ size a2, sizes[t.lr]? = some size ∧ (∀ p ∈ st.addrs, p.1 ≠ t.lr) ∧
      st'.allocated = st.allocated ++ (tensOf t.lr).map (fun x => (x, a2)) ∧
      st'.addrs = st.addrs ++ [(t.lr, a2)] ∧
      ((a2 = st.total ∧ st'.total = st.total + roundUp size gran ∧ gran ≠ 0) ∨
       (a2 ≠ st.total ∧ st'.total = st.total)) ∧
      (a2 = st.total ∨ ∃ p ∈ st.allocated, p.2 = a2 ∧ Match p.1 t) := by
  unfold linearStep at h
  split at h
  · left; injection h with h; exact h.symm
  · rename_i hnot
    right
    have hnot' : ∀ p ∈ st.addrs, p.1 ≠ t.lr := by
      intro p hp heq
      apply hnot
      rw [List.any_eq_true]
      exact ⟨p, hp, by simp [heq]⟩
    split at h
    · cases h
    · rename_i size hsize
      split at h
      · cases h
      · rename_i a1 ha1
        have hsrc : linLutAddr st t a1 = st.total ∨
            ∃ p ∈ st.allocated, p.2 = linLutAddr st t a1 ∧ Match p.1 t := by
          rcases linLutAddr_char st t a1 with h2 | h2
          · rcases linWccAddr_char st t a1 ha1 with h1 | ⟨p, hp, hpa, hm⟩
            · left; rw [h2, h1]
            · right; exact ⟨p, hp, by rw [h2]; exact hpa, hm⟩
          · exact Or.inr h2
        refine ⟨size, linLutAddr st t a1, hsize, hnot', ?_⟩
        simp only at h
        split at h
        · rename_i heq
          simp only [beq_iff_eq] at heq
          split at h
          · cases h
          · rename_i hg
            injection h with h
            subst h
            simp only [beq_iff_eq] at hg
            exact ⟨rfl, rfl, Or.inl ⟨heq, rfl, hg⟩, hsrc⟩
        · rename_i hne
          simp only [beq_iff_eq] at hne
          injection h with h
          subst h
          exact ⟨rfl, rfl, Or.inr ⟨hne, rfl⟩, hsrc⟩

/-- hypotheses under which sharing is legitimate: a class assignment `cls` on range indices such
    that matching tensors of different ranges lie in one non-zero class of equal size -/
structure LinHyp (sizes : List Nat) (tens : List LTens) (cls : Nat → Nat) : Prop where
  classes : ∀ x ∈ tens, ∀ y ∈ tens, x.lr ≠ y.lr → Match x y →
    cls x.lr = cls y.lr ∧ cls y.lr ≠ 0 ∧ sizes[x.lr]? = sizes[y.lr]?

def szOf (sizes : List Nat) (i : Nat) : Nat := (sizes[i]?).getD 0

/-- the loop invariant; `fresh` is the ghost list of entries that received a new region -/
structure LinInv (sizes : List Nat) (tens : List LTens) (cls : Nat → Nat) (gran : Nat) (st : LinState)
    (fresh : List (Nat × Nat)) : Prop where
  f_sub : ∀ e ∈ fresh, e ∈ st.addrs
  f_ord : fresh.Pairwise (fun e f => e.2 + roundUp (szOf sizes e.1) gran ≤ f.2)
  f_top : ∀ e ∈ fresh, e.2 + roundUp (szOf sizes e.1) gran ≤ st.total
  root : ∀ e ∈ st.addrs, ∃ r ∈ fresh, r.2 = e.2 ∧
    (r.1 = e.1 ∨ (cls r.1 = cls e.1 ∧ cls e.1 ≠ 0 ∧ szOf sizes r.1 = szOf sizes e.1))
  alloc_mem : ∀ p ∈ st.allocated, p.1 ∈ tens ∧ (p.1.lr, p.2) ∈ st.addrs
  nodup : (st.addrs.map Prod.fst).Nodup
  gran_total : gran ∣ st.total
  gran_addr : ∀ e ∈ st.addrs, gran ∣ e.2
  empty_total : st.addrs = [] → st.total = 0
  attained : st.addrs ≠ [] → ∃ r ∈ fresh, r.2 + roundUp (szOf sizes r.1) gran = st.total

theorem linInv_init (sizes : List Nat) (tens : List LTens) (cls : Nat → Nat) (gran : Nat) :
    LinInv sizes tens cls gran ⟨0, [], []⟩ [] := by
  constructor <;> simp

theorem linInv_step (sizes : List Nat) (tens : List LTens) (cls : Nat → Nat) (gran : Nat)
    (hyp : LinHyp sizes tens cls) (st st' : LinState) (fresh : List (Nat × Nat)) (t : LTens)
    (ht : t ∈ tens) (inv : LinInv sizes tens cls gran st fresh)
    (h : linearStep sizes (fun i => tens.filter (fun t => t.lr == i)) gran st t = .ok st') :
    ∃ fresh', LinInv sizes tens cls gran st' fresh' := by
  rcases linearStep_char _ _ _ _ _ _ h with rfl | ⟨size, a2, hsize, hnew, hal, had, htot, hsrc⟩
  · exact ⟨fresh, inv⟩
  have hszt : szOf sizes t.lr = size := by simp [szOf, hsize]
  have halloc' : ∀ p ∈ st'.allocated, p.1 ∈ tens ∧ (p.1.lr, p.2) ∈ st'.addrs := by
    intro p hp
    rw [hal] at hp
    rw [had]
    rcases List.mem_append.1 hp with hp | hp
    · obtain ⟨h1, h2⟩ := inv.alloc_mem p hp
      exact ⟨h1, List.mem_append_left _ h2⟩
    · obtain ⟨x, hx, rfl⟩ := List.mem_map.1 hp
      rw [List.mem_filter] at hx
      simp only [beq_iff_eq] at hx
      refine ⟨hx.1, List.mem_append_right _ ?_⟩
      simp [hx.2]
  have hnodup' : (st'.addrs.map Prod.fst).Nodup := by
    rw [had, List.map_append, List.nodup_append]
    refine ⟨inv.nodup, by simp, ?_⟩
    intro a ha b hb
    simp only [List.map_cons, List.map_nil, List.mem_singleton] at hb
    obtain ⟨e, he, rfl⟩ := List.mem_map.1 ha
    rw [hb]
    exact hnew e he
  -- the root of a copied address
  have hcopy : ∀ p ∈ st.allocated, p.2 = a2 → Match p.1 t →
      ∃ r ∈ fresh, r.2 = a2 ∧
        (cls r.1 = cls t.lr ∧ cls t.lr ≠ 0 ∧ szOf sizes r.1 = szOf sizes t.lr) := by
    intro p hp hpa hm
    obtain ⟨hpt, hpaddr⟩ := inv.alloc_mem p hp
    have hne : p.1.lr ≠ t.lr := hnew _ hpaddr
    obtain ⟨hc1, hc2, hc3⟩ := hyp.classes p.1 hpt t ht hne hm
    obtain ⟨r, hr, hra, hrc⟩ := inv.root _ hpaddr
    simp only at hra hrc
    have hsz_p : szOf sizes p.1.lr = szOf sizes t.lr := by simp [szOf, hc3]
    refine ⟨r, hr, by omega, ?_, hc2, ?_⟩
    · rcases hrc with h | h
      · rw [h]; exact hc1
      · rw [h.1]; exact hc1
    · rcases hrc with h | h
      · rw [h]; exact hsz_p
      · rw [h.2.2]; exact hsz_p
  rcases htot with ⟨ha2, htot', hg⟩ | ⟨ha2, htot'⟩
  · -- a new region is reserved
    refine ⟨fresh ++ [(t.lr, a2)], ?_⟩
    constructor
    · intro e he
      rw [had]
      rcases List.mem_append.1 he with he | he
      · exact List.mem_append_left _ (inv.f_sub e he)
      · exact List.mem_append_right _ he
    · rw [List.pairwise_append]
      refine ⟨inv.f_ord, by simp, ?_⟩
      intro e he f hf
      simp only [List.mem_singleton] at hf
      subst hf
      have := inv.f_top e he
      simp only
      omega
    · intro e he
      rcases List.mem_append.1 he with he | he
      · have := inv.f_top e he; omega
      · simp only [List.mem_singleton] at he
        subst he
        simp only [hszt]
        omega
    · intro e he
      rw [had] at he
      rcases List.mem_append.1 he with he | he
      · obtain ⟨r, hr, h1, h2⟩ := inv.root e he
        exact ⟨r, List.mem_append_left _ hr, h1, h2⟩
      · simp only [List.mem_singleton] at he
        subst he
        exact ⟨_, List.mem_append_right _ (by simp), rfl, Or.inl rfl⟩
    · exact halloc'
    · exact hnodup'
    · rw [htot']
      exact Nat.dvd_add inv.gran_total (dvd_roundUp _ _)
    · intro e he
      rw [had] at he
      rcases List.mem_append.1 he with he | he
      · exact inv.gran_addr e he
      · simp only [List.mem_singleton] at he
        subst he
        simp only
        rw [ha2]
        exact inv.gran_total
    · intro hempty
      rw [had] at hempty
      simp at hempty
    · intro _
      refine ⟨(t.lr, a2), List.mem_append_right _ (by simp), ?_⟩
      simp only [hszt]
      omega
  · -- an existing address is copied
    rcases hsrc with hsrc | ⟨p, hp, hpa, hm⟩
    · exact absurd hsrc ha2
    obtain ⟨r, hr, hra, hrc⟩ := hcopy p hp hpa hm
    refine ⟨fresh, ?_⟩
    constructor
    · intro e he
      rw [had]
      exact List.mem_append_left _ (inv.f_sub e he)
    · exact inv.f_ord
    · intro e he
      rw [htot']
      exact inv.f_top e he
    · intro e he
      rw [had] at he
      rcases List.mem_append.1 he with he | he
      · exact inv.root e he
      · simp only [List.mem_singleton] at he
        subst he
        exact ⟨r, hr, hra, Or.inr hrc⟩
    · exact halloc'
    · exact hnodup'
    · rw [htot']; exact inv.gran_total
    · intro e he
      rw [had] at he
      rcases List.mem_append.1 he with he | he
      · exact inv.gran_addr e he
      · simp only [List.mem_singleton] at he
        subst he
        simp only
        rw [← hra]
        exact inv.gran_addr r (inv.f_sub r hr)
    · intro hempty
      rw [had] at hempty
      simp at hempty
    · intro _
      have hne : st.addrs ≠ [] := by
        intro hnil
        have := (inv.alloc_mem p hp).2
        rw [hnil] at this
        cases this
      obtain ⟨r', hr', hatt⟩ := inv.attained hne
      exact ⟨r', hr', by rw [htot']; exact hatt⟩

theorem linInv_loop (sizes : List Nat) (tens : List LTens) (cls : Nat → Nat) (gran : Nat)
    (hyp : LinHyp sizes tens cls) :
    ∀ (ts : List LTens) (st st' : LinState) (fresh : List (Nat × Nat)), (∀ t ∈ ts, t ∈ tens) →
      LinInv sizes tens cls gran st fresh →
      linearLoop sizes (fun i => tens.filter (fun t => t.lr == i)) gran ts st = .ok st' →
      ∃ fresh', LinInv sizes tens cls gran st' fresh' := by
  intro ts
  induction ts with
  | nil =>
    intro st st' fresh _ inv h
    simp only [linearLoop] at h
    injection h with h
    subst h
    exact ⟨fresh, inv⟩
  | cons t ts ih =>
    intro st st' fresh hts inv h
    simp only [linearLoop] at h
    split at h
    · cases h
    · rename_i st1 hst1
      obtain ⟨fresh1, inv1⟩ := linInv_step sizes tens cls gran hyp st st1 fresh t (hts t (by simp)) inv hst1
      exact ih st1 st' fresh1 (fun x hx => hts x (by simp [hx])) inv1 h

theorem pairwise_mem_ne {α : Type} {R : α → α → Prop} {l : List α} (h : l.Pairwise R) {a b : α}
    (ha : a ∈ l) (hb : b ∈ l) (hne : a ≠ b) : R a b ∨ R b a := by
  induction l with
  | nil => cases ha
  | cons x xs ih =>
    obtain ⟨hx, hxs⟩ := List.pairwise_cons.1 h
    rcases List.mem_cons.1 ha with ha1 | ha1
    · rcases List.mem_cons.1 hb with hb1 | hb1
      · exact absurd (ha1.trans hb1.symm) hne
      · subst ha1; exact Or.inl (hx b hb1)
    · rcases List.mem_cons.1 hb with hb1 | hb1
      · subst hb1; exact Or.inr (hx a ha1)
      · exact ih hxs ha1 hb1

/-- placement of range `e.1` at `e.2` as a `Spec` record: arbitrary live times, the granularity as
    the requested alignment, the class assignment as equivalence class -/
def linPlaced (sizes : List Nat) (times : Nat → Nat × Nat) (cls : Nat → Nat) (gran : Nat)
    (e : Nat × Nat) : Spec.Alloc.Placed :=
  ⟨(times e.1).1, (times e.1).2, szOf sizes e.1, gran, e.2, cls e.1⟩


theorem linear_inv (sizes : List Nat) (tens : List LTens) (cls : Nat → Nat) (gran : Nat)
    (hyp : LinHyp sizes tens cls) (addrs : List (Nat × Nat)) (total : Nat)
    (h : linear sizes tens gran = .ok (addrs, total)) :
    ∃ alloc fresh, LinInv sizes tens cls gran ⟨total, alloc, addrs⟩ fresh := by
  unfold linear at h
  split at h
  · cases h
  · rename_i st hst
    injection h with h
    injection h with h1 h2
    obtain ⟨fresh, inv⟩ := linInv_loop sizes tens cls gran hyp tens _ st [] (fun t ht => ht)
      (linInv_init sizes tens cls gran) hst
    refine ⟨st.allocated, fresh, ?_⟩
    subst h1 h2
    exact inv

open Spec.Alloc in
theorem linInv_noOverlap (sizes : List Nat) (tens : List LTens) (cls : Nat → Nat) (gran : Nat)
    (hg : 0 < gran) (st : LinState) (fresh : List (Nat × Nat)) (inv : LinInv sizes tens cls gran st fresh)
    (times : Nat → Nat × Nat) :
    (st.addrs.map (linPlaced sizes times cls gran)).Pairwise
      (fun a b => Spec.Alloc.Disjoint a b ∨ Shared a b) := by
  rw [List.pairwise_map]
  have hnd : st.addrs.Pairwise (fun a b => a.1 ≠ b.1) := by
    have := inv.nodup
    rw [List.Nodup, List.pairwise_map] at this
    exact this
  apply List.Pairwise.imp_of_mem _ hnd
  intro e1 e2 he1 he2 hne
  obtain ⟨r1, hr1, ha1, hc1⟩ := inv.root e1 he1
  obtain ⟨r2, hr2, ha2, hc2⟩ := inv.root e2 he2
  have hs1 : szOf sizes r1.1 = szOf sizes e1.1 := by
    rcases hc1 with h | h
    · rw [h]
    · exact h.2.2
  have hs2 : szOf sizes r2.1 = szOf sizes e2.1 := by
    rcases hc2 with h | h
    · rw [h]
    · exact h.2.2
  by_cases hr : r1 = r2
  · subst hr
    right
    refine ⟨?_, ?_, ?_⟩
    · show cls e1.1 ≠ 0
      rcases hc1 with h | h
      · rcases hc2 with h' | h'
        · exact absurd (h.symm.trans h') hne
        · rw [← h, h'.1]; exact h'.2.1
      · exact h.2.1
    · show cls e1.1 = cls e2.1
      rcases hc1 with h | h
      · rcases hc2 with h' | h'
        · exact absurd (h.symm.trans h') hne
        · rw [← h]; exact h'.1
      · rcases hc2 with h' | h'
        · rw [← h', h.1]
        · rw [← h.1, h'.1]
    · show e1.2 = e2.2
      omega
  · left
    have hle1 := le_roundUp (szOf sizes r1.1) gran hg
    have hle2 := le_roundUp (szOf sizes r2.1) gran hg
    rcases pairwise_mem_ne inv.f_ord hr1 hr2 hr with h | h
    · left
      show e1.2 + szOf sizes e1.1 ≤ e2.2
      omega
    · right
      show e2.2 + szOf sizes e2.1 ≤ e1.2
      omega

theorem linInv_total (sizes : List Nat) (tens : List LTens) (cls : Nat → Nat) (gran : Nat)
    (st : LinState) (fresh : List (Nat × Nat)) (inv : LinInv sizes tens cls gran st fresh)
    (times : Nat → Nat × Nat) :
    st.total = Spec.Alloc.paddedEnd (st.addrs.map (linPlaced sizes times cls gran)) := by
  rw [Spec.Alloc.paddedEnd_eq, Spec.Alloc.highestEnd_iff]
  refine ⟨?_, ?_, ?_⟩
  · intro p hp
    obtain ⟨q, hq, rfl⟩ := List.mem_map.1 hp
    obtain ⟨e, he, rfl⟩ := List.mem_map.1 hq
    obtain ⟨r, hr, ha, hc⟩ := inv.root e he
    have hs : szOf sizes r.1 = szOf sizes e.1 := by
      rcases hc with h | h
      · rw [h]
      · exact h.2.2
    have := inv.f_top r hr
    show e.2 + roundUp (szOf sizes e.1) gran ≤ st.total
    rw [← hs, ← ha]
    exact this
  · intro hnil
    simp only [List.map_eq_nil_iff] at hnil
    exact inv.empty_total hnil
  · intro hne
    simp only [ne_eq, List.map_eq_nil_iff] at hne
    obtain ⟨r, hr, hatt⟩ := inv.attained hne
    refine ⟨Spec.Alloc.pad (linPlaced sizes times cls gran r), ?_, hatt⟩
    exact List.mem_map_of_mem (List.mem_map_of_mem (inv.f_sub r hr))

end VelaVerif.Alloc
