import VelaVerif.Lemmas.ConfigRefine
/-!
C18: `vela.main`'s argument handling (model `mainArch`) against the documented command-line rules
(`Spec.specMain`): path shape, location of `Dir/file.ini`, reading several files, accelerator table.
-/
namespace VelaVerif.Config
open VelaVerif.Spec.Config

theorem splitOnChar_ne_nil (sep : Char) (cs : List Char) : splitOnChar sep cs ≠ [] := by
  cases cs with
  | nil => simp [splitOnChar]
  | cons c cs' =>
    simp only [splitOnChar]
    split
    · simp
    · split <;> simp

theorem splitOnChar_no_sep (sep : Char) : ∀ cs x, x ∈ splitOnChar sep cs → sep ∉ x := by
  intro cs
  induction cs with
  | nil => intro x hx; simp [splitOnChar] at hx; subst hx; simp
  | cons c cs' ih =>
    intro x hx
    simp only [splitOnChar] at hx
    split at hx
    · simp only [List.mem_cons] at hx
      rcases hx with rfl | hx
      · simp
      · exact ih x hx
    · rename_i hne
      have hne' : c ≠ sep := by simpa using hne
      split at hx
      · simp at hx; subst hx; simp [Ne.symm hne']
      · rename_i h t heq
        simp only [List.mem_cons] at hx
        rcases hx with rfl | hx
        · have := ih h (by rw [heq]; simp)
          simp [Ne.symm hne', this]
        · exact ih x (by rw [heq]; simp [hx])

theorem splitOnChar_head (sep : Char) (cs : List Char) (d : List Char) (rest : List (List Char))
    (h : splitOnChar sep cs = d :: rest) (hr : rest ≠ []) :
    cs.head? = if d.isEmpty then some sep else d.head? := by
  cases cs with
  | nil => simp [splitOnChar] at h; exact absurd h.2 hr
  | cons c cs' =>
    simp only [splitOnChar] at h
    split at h
    · rename_i heq
      have : c = sep := by simpa using heq
      cases h
      simp [this]
    · split at h
      · cases h; exact absurd rfl hr
      · cases h; simp

/-- the test `_parse_config` applies to the normalised path is the documented "Dir/file.ini" shape -/
theorem two_components_iff (cs : List Char) :
    twoComponents cs =
      (match splitOnChar '/' cs with
       | [d, _] => !d.isEmpty && d.head? != some '.' && d.head? != some '~'
       | _ => false) := by
  unfold twoComponents
  cases hs : splitOnChar '/' cs with
  | nil => exact absurd hs (splitOnChar_ne_nil _ _)
  | cons d rest =>
    cases rest with
    | nil => simp
    | cons f rest2 =>
      cases rest2 with
      | cons g r => simp
      | nil =>
        have hh := splitOnChar_head '/' cs d [f] hs (by simp)
        have hns := splitOnChar_no_sep '/' cs d (by rw [hs]; simp)
        simp only [List.length_cons, List.length_nil, hh]
        cases d with
        | nil => simp
        | cons x xs =>
          have : x ≠ '/' := by
            intro e; subst e; simp at hns
          have h1 : (some x != some '/') = true := by simp [this]
          simp only [List.isEmpty_cons, Bool.false_eq_true, if_false, List.head?_cons, h1]
          simp

theorem configTarget_locate (env : Env) (c : String) : absPath env.cwd (configTarget env c) = locate env c := by
  simp only [configTarget, locate, isBundledName, two_components_iff]
  rfl

/-- `_parse_config` finds the file exactly where the documentation says it is -/
theorem parseConfigPath_ok {env : Env} {c p : String} (h : parseConfigPath env c = .ok p) :
    absPath env.cwd p = locate env c ∧ hasIniExt c = true ∧
      (env.files.lookup (locate env c)).isSome = true := by
  simp only [parseConfigPath, configTarget_locate] at h
  split at h
  · rename_i hend
    split at h
    · rename_i hex
      cases h
      exact ⟨configTarget_locate env c, hend, hex⟩
    · cases h
  · cases h

theorem parseConfigPath_error {env : Env} {c : String} {e : Err} (h : parseConfigPath env c = .error e) :
    (hasIniExt c && (env.files.lookup (locate env c)).isSome) = false := by
  simp only [parseConfigPath, configTarget_locate] at h
  split at h
  · split at h
    · cases h
    · rename_i hex
      simp only [Bool.not_eq_true] at hex
      simp [hex]
  · rename_i hend
    simp only [Bool.not_eq_true] at hend
    simp [hend]

def allOk (env : Env) (cfgs : List String) : Bool :=
  cfgs.all hasIniExt &&
    (cfgs.map (locate env)).all (fun p => (env.files.lookup p).isSome)

theorem mapPaths_ok {env : Env} : ∀ {cfgs ps : List String}, mapPaths env cfgs = .ok ps →
    ps.map (absPath env.cwd) = cfgs.map (locate env) ∧ allOk env cfgs = true := by
  intro cfgs
  induction cfgs with
  | nil => intro ps h; simp [mapPaths] at h; subst h; simp [allOk]
  | cons c cs ih =>
    intro ps h
    simp only [mapPaths] at h
    cases hp : parseConfigPath env c with
    | error e => rw [hp] at h; cases h
    | ok p =>
      rw [hp] at h
      cases hm : mapPaths env cs with
      | error e => rw [hm] at h; cases h
      | ok ps' =>
        rw [hm] at h
        cases h
        obtain ⟨h1, h2, h3⟩ := parseConfigPath_ok hp
        obtain ⟨i1, i2⟩ := ih hm
        simp only [allOk, List.all_cons, List.map_cons, Bool.and_eq_true] at i2 ⊢
        refine ⟨by rw [h1, i1], ⟨h2, i2.1⟩, h3, i2.2⟩

theorem mapPaths_error {env : Env} : ∀ {cfgs : List String} {e : Err}, mapPaths env cfgs = .error e →
    allOk env cfgs = false := by
  intro cfgs
  induction cfgs with
  | nil => intro e h; simp [mapPaths] at h
  | cons c cs ih =>
    intro e h
    simp only [mapPaths] at h
    cases hp : parseConfigPath env c with
    | error e' =>
      have := parseConfigPath_error hp
      simp only [allOk, List.all_cons, List.map_cons]
      simp only [Bool.and_eq_false_iff] at this ⊢
      rcases this with h1 | h1
      · left; simp [h1]
      · right; simp [h1]
    | ok p =>
      rw [hp] at h
      cases hm : mapPaths env cs with
      | ok ps' => rw [hm] at h; cases h
      | error e' =>
        have := ih hm
        simp only [allOk, List.all_cons, List.map_cons] at this ⊢
        simp only [Bool.and_eq_false_iff] at this ⊢
        rcases this with h1 | h1
        · left; simp [h1]
        · right; simp [h1]

theorem loadFiles_readAll (env : Env) : ∀ (ps : List String) (acc : Ini),
    (loadFiles env ps acc).toOption = readAll env (ps.map (absPath env.cwd)) acc := by
  intro ps
  induction ps with
  | nil => intro acc; rfl
  | cons p ps ih =>
    intro acc
    simp only [loadFiles, readAll, List.map_cons]
    cases env.files.lookup (absPath env.cwd p) with
    | none => exact ih acc
    | some o =>
      cases o with
      | none => rfl
      | some ini => exact ih _

theorem beq_lit_false' {a s : String} (h : ¬ s = a) : (s == a) = false := by
  rw [beq_eq_false_iff_ne]; exact h

theorem acc_lookup_some {acc : String} {u : Bool} (h : docAccelerators.lookup acc = some u) :
    Gen.accelerators.any (fun r => r.name == acc) = true ∧
    ∃ row, Gen.accelerators.find? (fun r => r.name == lowerStr acc) = some row ∧ row.isU65 = u ∧
      row.maxAddressOffset = docMaxAddr u := by
  by_cases h1 : acc = "ethos-u55-32"
  · subst h1; cases (Option.some.inj h : false = u); decide
  by_cases h2 : acc = "ethos-u55-64"
  · subst h2; cases (Option.some.inj h : false = u); decide
  by_cases h3 : acc = "ethos-u55-128"
  · subst h3; cases (Option.some.inj h : false = u); decide
  by_cases h4 : acc = "ethos-u55-256"
  · subst h4; cases (Option.some.inj h : false = u); decide
  by_cases h5 : acc = "ethos-u65-256"
  · subst h5; cases (Option.some.inj h : true = u); decide
  by_cases h6 : acc = "ethos-u65-512"
  · subst h6; cases (Option.some.inj h : true = u); decide
  simp [docAccelerators, List.lookup, beq_lit_false' h1, beq_lit_false' h2, beq_lit_false' h3, beq_lit_false' h4,
    beq_lit_false' h5, beq_lit_false' h6] at h

theorem acc_lookup_none {acc : String} (h : docAccelerators.lookup acc = none) :
    Gen.accelerators.any (fun r => r.name == acc) = false := by
  by_cases h1 : acc = "ethos-u55-32"
  · subst h1; cases h
  by_cases h2 : acc = "ethos-u55-64"
  · subst h2; cases h
  by_cases h3 : acc = "ethos-u55-128"
  · subst h3; cases h
  by_cases h4 : acc = "ethos-u55-256"
  · subst h4; cases h
  by_cases h5 : acc = "ethos-u65-256"
  · subst h5; cases h
  by_cases h6 : acc = "ethos-u65-512"
  · subst h6; cases h
  have hn : (Gen.accelerators.map (·.name)) = ["ethos-u55-32", "ethos-u55-64", "ethos-u55-128", "ethos-u55-256", "ethos-u65-256", "ethos-u65-512"] := by decide
  rw [show Gen.accelerators.any (fun r => r.name == acc) = (Gen.accelerators.map (·.name)).any (· == acc) by simp [List.any_map]; rfl]
  rw [hn]
  simp [beq_lit_false h1, beq_lit_false h2, beq_lit_false h3, beq_lit_false h4, beq_lit_false h5, beq_lit_false h6]

theorem acc_find_some {x : String} {u : Bool} (h : docAccelerators.lookup x = some u) :
    lowerStr x = x ∧ Spec.Config.lowerStr x = x := by
  by_cases h1 : x = "ethos-u55-32"
  · subst h1; decide
  by_cases h2 : x = "ethos-u55-64"
  · subst h2; decide
  by_cases h3 : x = "ethos-u55-128"
  · subst h3; decide
  by_cases h4 : x = "ethos-u55-256"
  · subst h4; decide
  by_cases h5 : x = "ethos-u65-256"
  · subst h5; decide
  by_cases h6 : x = "ethos-u65-512"
  · subst h6; decide
  simp [docAccelerators, List.lookup, beq_lit_false' h1, beq_lit_false' h2, beq_lit_false' h3, beq_lit_false' h4,
    beq_lit_false' h5, beq_lit_false' h6] at h

theorem lowerStr_eq (s : String) : lowerStr s = Spec.Config.lowerStr s := rfl

theorem find_of_any_false {α : Type} (l : List α) (p : α → Bool) (h : l.any p = false) : l.find? p = none := by
  induction l with
  | nil => rfl
  | cons x xs ih =>
    simp only [List.any_cons, Bool.or_eq_false_iff] at h
    simp [List.find?, h.1, ih h.2]

/-- `ArchitectureFeatures(...)` (base class) against the documented rules, for every argument list -/
theorem archFeatures_refines (env : Env) (files : Option (List String)) (acc sys mem : String) (cli : Option Int) :
    Refines Eq (archFeatures env files 0 acc sys mem cli) (specArchFeatures env files acc sys mem cli) := by
  simp only [archFeatures, specArchFeatures, ← lowerStr_eq]
  cases hl : docAccelerators.lookup (lowerStr acc) with
  | none =>
    have := find_of_any_false _ _ (acc_lookup_none hl)
    simp only [this]
    exact ⟨_, rfl⟩
  | some u =>
    obtain ⟨_, row, hrow, hu, hmax⟩ := acc_lookup_some hl
    have hlo := (acc_find_some hl).1
    rw [hlo] at hrow
    simp only [hrow]
    cases files with
    | none =>
      simp only
      have := getVelaConfig_refines (Input.mk none row.isU65 row.maxAddressOffset sys mem cli false) rfl
      simp only [hu, hmax] at this
      simpa [hu, hmax] using this
    | some fs =>
      simp only
      have hr := loadFiles_readAll env fs []
      cases hload : loadFiles env fs [] with
      | error e =>
        rw [hload] at hr
        simp only [Except.toOption] at hr
        rw [← hr]
        exact ⟨e, rfl⟩
      | ok ini =>
        rw [hload] at hr
        simp only [Except.toOption] at hr
        rw [← hr]
        have := getVelaConfig_refines (Input.mk (some ini) row.isU65 row.maxAddressOffset sys mem cli false) rfl
        simp only [hu, hmax] at this
        simpa [hu, hmax, Except.map] using this

/-- the documented behaviour: resolved paths are handed on, no parser default for the size, the documented
    class and accelerator default -/
def Variant.documented : Variant := ⟨true, none, 0, docDefaultAccelerator⟩

theorem specArchFeatures_none {env : Env} {acc sys mem : String} {cli : Option Int}
    {u : Bool} (hl : docAccelerators.lookup acc = some u) :
    specArchFeatures env none acc sys mem cli = specArch none u (docMaxAddr u) sys mem cli := by
  simp only [specArchFeatures, (acc_find_some hl).2, hl]

theorem specArchFeatures_some {env : Env} {fs : List String} {acc sys mem : String} {cli : Option Int}
    {u : Bool} (hl : docAccelerators.lookup acc = some u) :
    specArchFeatures env (some fs) acc sys mem cli =
      (match readAll env (fs.map (absPath env.cwd)) [] with
       | none => .reject
       | some ini => specArch (some ini) u (docMaxAddr u) sys mem cli) := by
  simp only [specArchFeatures, (acc_find_some hl).2, hl]
  cases readAll env (fs.map (absPath env.cwd)) [] <;> rfl

theorem mainArch_refines (env : Env) (a : MainArgs) :
    Refines Eq (mainArch Variant.documented env a) (specMain env a) := by
  simp only [mainArch, specMain, Variant.documented]
  -- the size token
  have hcli : ∀ (k : Option Int → Except Err Arch) (g : Option Int → Verdict Arch),
      (∀ c, Refines Eq (k c) (g c)) →
      Refines Eq
        (match (match a.arenaCacheSize with
            | none => (Except.ok none : Except Err (Option Int))
            | some tok => match parseInt tok with
              | some n => .ok (some n)
              | none => .error .argparse) with
          | .error e => .error e
          | .ok cli => k cli)
        (match (match a.arenaCacheSize with
            | none => some none
            | some t => (parseInt t).map some) with
          | none => .reject
          | some cli => g cli) := by
    intro k g hkg
    cases a.arenaCacheSize with
    | none => exact hkg none
    | some tok =>
      cases hp : parseInt tok with
      | none => simp only [hp, Option.map]; exact ⟨_, rfl⟩
      | some n => simp only [hp, Option.map]; exact hkg (some n)
  apply hcli
  intro cli
  cases hl : docAccelerators.lookup (a.accelerator.getD docDefaultAccelerator) with
  | none =>
    simp only [acc_lookup_none hl]
    exact ⟨_, rfl⟩
  | some u =>
    simp only [(acc_lookup_some hl).1, Bool.not_true, Bool.false_eq_true, if_false]
    cases hm : mapPaths env a.configs with
    | error e =>
      have := mapPaths_error hm
      simp only [allOk] at this
      simp only [this]
      exact ⟨e, rfl⟩
    | ok resolved =>
      obtain ⟨hloc, hok⟩ := mapPaths_ok hm
      simp only [allOk] at hok
      simp only [hok, Bool.not_true, Bool.false_eq_true, if_false, if_true, defaultName_eq]
      by_cases hempty : a.configs.isEmpty = true
      · simp only [hempty, Bool.true_and, if_true]
        have hr := archFeatures_refines env none (a.accelerator.getD docDefaultAccelerator)
          (a.systemConfig.getD internalDefault) (a.memoryMode.getD internalDefault) cli
        rw [specArchFeatures_none hl] at hr
        have e1 : Gen.Cfg.cliSystemConfig = internalDefault := by decide
        have e2 : Gen.Cfg.cliMemoryMode = internalDefault := by decide
        simp only [e1, e2]
        split
        · rename_i hc
          simp only [Bool.and_eq_true, beq_iff_eq] at hc
          rw [hc.1, hc.2] at hr ⊢
          exact hr
        · exact hr
      · simp only [hempty, Bool.false_and, Bool.false_eq_true, if_false]
        have e1 : Gen.Cfg.cliSystemConfig = internalDefault := by decide
        have e2 : Gen.Cfg.cliMemoryMode = internalDefault := by decide
        simp only [e1, e2]
        have hr := archFeatures_refines env (some resolved) (a.accelerator.getD docDefaultAccelerator)
          (a.systemConfig.getD internalDefault) (a.memoryMode.getD internalDefault) cli
        rw [specArchFeatures_some hl] at hr
        simp only [hloc] at hr
        exact hr

def isAbs (p : String) : Prop := p.toList.head? = some '/'

theorem pathJoin_abs_right (a b : String) (hb : isAbs b) : pathJoin a b = b := by
  unfold isAbs at hb
  simp [pathJoin, hb]

theorem absPath_abs (cwd t : String) (h : isAbs t) : absPath cwd t = normpath t := by
  simp [absPath, pathJoin_abs_right cwd t h]

theorem head_append (a b : String) (h : isAbs a) : isAbs (a ++ b) := by
  unfold isAbs at *
  rw [String.toList_append]
  cases ha : a.toList with
  | nil => rw [ha] at h; cases h
  | cons x xs => rw [ha] at h; simpa using h

theorem pathJoin_abs_left (a b : String) (ha : isAbs a) : isAbs (pathJoin a b) := by
  unfold pathJoin
  split
  · rename_i h; unfold isAbs; simpa using h
  · split
    · exact head_append a b ha
    · exact head_append _ b (head_append a "/" ha)

theorem configTarget_abs (env : Env) (hb : isAbs env.bundled) (c : String)
    (h2 : twoComponents (normpath c).toList = true) : isAbs (configTarget env c) := by
  simp only [configTarget, h2, if_true]
  exact pathJoin_abs_left _ _ hb

theorem parseConfigPath_cwd (env : Env) (hb : isAbs env.bundled) (c1 c2 c : String)
    (h2 : twoComponents (normpath c).toList = true) :
    parseConfigPath { env with cwd := c1 } c = parseConfigPath { env with cwd := c2 } c ∧
    ∀ p, parseConfigPath { env with cwd := c1 } c = .ok p → isAbs p := by
  have e1 : configTarget { env with cwd := c1 } c = configTarget env c := rfl
  have e2 : configTarget { env with cwd := c2 } c = configTarget env c := rfl
  have habs := configTarget_abs env hb c h2
  simp only [parseConfigPath, e1, e2, absPath_abs _ _ habs]
  refine ⟨trivial, ?_⟩
  intro p hp
  split at hp
  · split at hp
    · cases hp; exact habs
    · cases hp
  · cases hp

theorem mapPaths_cwd (env : Env) (hb : isAbs env.bundled) (c1 c2 : String) :
    ∀ cfgs : List String, (∀ c ∈ cfgs, twoComponents (normpath c).toList = true) →
      mapPaths { env with cwd := c1 } cfgs = mapPaths { env with cwd := c2 } cfgs ∧
      ∀ ps, mapPaths { env with cwd := c1 } cfgs = .ok ps → ∀ p ∈ ps, isAbs p := by
  intro cfgs
  induction cfgs with
  | nil => intro _; refine ⟨rfl, ?_⟩; intro ps h; simp [mapPaths] at h; subst h; simp
  | cons c cs ih =>
    intro hall
    obtain ⟨h1, h1'⟩ := parseConfigPath_cwd env hb c1 c2 c (hall c (by simp))
    obtain ⟨h2, h2'⟩ := ih (fun x hx => hall x (by simp [hx]))
    simp only [mapPaths, ← h1, ← h2]
    refine ⟨trivial, ?_⟩
    intro ps hps
    cases hp : parseConfigPath { env with cwd := c1 } c with
    | error e => rw [hp] at hps; cases hps
    | ok p =>
      rw [hp] at hps
      cases hm : mapPaths { env with cwd := c1 } cs with
      | error e => rw [hm] at hps; cases hps
      | ok ps' =>
        rw [hm] at hps
        cases hps
        intro q hq
        simp only [List.mem_cons] at hq
        rcases hq with rfl | hq
        · exact h1' _ hp
        · exact h2' _ hm q hq

theorem loadFiles_cwd (env : Env) (c1 c2 : String) : ∀ (ps : List String) (acc : Ini), (∀ p ∈ ps, isAbs p) →
    loadFiles { env with cwd := c1 } ps acc = loadFiles { env with cwd := c2 } ps acc := by
  intro ps
  induction ps with
  | nil => intro acc _; rfl
  | cons p ps ih =>
    intro acc hall
    have hp := hall p (by simp)
    simp only [loadFiles, absPath_abs _ _ hp]
    cases env.files.lookup (normpath p) with
    | none => exact ih acc (fun x hx => hall x (by simp [hx]))
    | some o =>
      cases o with
      | none => rfl
      | some ini => exact ih _ (fun x hx => hall x (by simp [hx]))

theorem archFeatures_cwd (env : Env) (c1 c2 : String) (files : Option (List String)) (hf : ∀ fs, files = some fs → ∀ p ∈ fs, isAbs p)
    (m : Nat) (acc sys mem : String) (cli : Option Int) :
    archFeatures { env with cwd := c1 } files m acc sys mem cli = archFeatures { env with cwd := c2 } files m acc sys mem cli := by
  cases files with
  | none => rfl
  | some fs =>
    simp only [archFeatures, loadFiles_cwd env c1 c2 fs [] (hf fs rfl)]

/-- with the resolved paths handed on, a `vela` invocation whose configuration files are all named
    `Dir/file.ini` does not depend on the working directory -/
theorem mainArch_cwd_independent (v : Variant) (hv : v.passResolved = true) (env : Env) (hb : isAbs env.bundled)
    (c1 c2 : String) (a : MainArgs) (hall : ∀ c ∈ a.configs, twoComponents (normpath c).toList = true) :
    mainArch v { env with cwd := c1 } a = mainArch v { env with cwd := c2 } a := by
  obtain ⟨h1, h2⟩ := mapPaths_cwd env hb c1 c2 a.configs hall
  simp only [mainArch, ← h1, hv, if_true]
  cases hm : mapPaths { env with cwd := c1 } a.configs with
  | error e => rfl
  | ok resolved =>
    simp only
    have habs := h2 resolved hm
    have e1 := archFeatures_cwd env c1 c2 none (by intro fs h; cases h)
    have e2 := archFeatures_cwd env c1 c2 (if a.configs.isEmpty then none else some resolved)
      (by intro fs h; split at h <;> cases h; exact habs)
    simp only [e1, e2]

theorem archFeatures_ok_cli {env : Env} {files : Option (List String)} {m : Nat} {acc sys mem : String} {d : Int} {r : Arch}
    (h : archFeatures env files m acc sys mem (some d) = .ok r) : r.arenaCacheSize = d := by
  simp only [archFeatures] at h
  split at h
  · cases h
  · split at h
    · cases h
    · obtain ⟨s, mm, _, _, hf⟩ := getVelaConfig_ok h
      exact (finalize_ok hf).2.2.2.2.2.1

end VelaVerif.Config
