import VelaVerif.Model.Waits
import VelaVerif.Spec.AsyncHw
/-!
# Lemmas for C04: the wait model against the asynchronous machine

* `emit`: the command sequence `generate_command_stream` emits for an operation list, restricted to
  what the machine of `Spec/AsyncHw.lean` sees (`generate_cmd_waits` writes KERNEL_WAIT before
  DMA_WAIT, then `generate_operation_code` writes the operation).
* `lazy_sound` / `lazy_complete`: the closed-form checker `lazyCheck` is exactly hazard freedom.
* `lazy_emit`: the emitted sequence passes `lazyCheck` whenever the hardware queues are not deeper
  than the model assumes.
-/
namespace VelaVerif.Lemmas.Waits
open VelaVerif.AsyncHw VelaVerif.Waits

variable {Op : Type}

/-! ## the emitted command sequence -/

def emitOne (w : Watermark) (isDma : Bool) (op : Op) : List (Cmd Op) :=
  (match w.npu with | some n => [Cmd.kernWait n] | none => []) ++
  (match w.dma with | some n => [Cmd.dmaWait n] | none => []) ++
  [if isDma then Cmd.dma op else Cmd.kern op]

def emitFrom (maxDma maxKern : Nat) (conf : Op → Op → Bool) : Tracked Op → List (Bool × Op) → List (Cmd Op)
  | _, [] => []
  | t, (isDma, op) :: rest =>
    let r := getWaitDependency maxDma maxKern conf isDma op t
    emitOne r.1 isDma op ++ emitFrom maxDma maxKern conf r.2 rest

def emit (maxDma maxKern : Nat) (conf : Op → Op → Bool) (ops : List (Bool × Op)) : List (Cmd Op) :=
  emitFrom maxDma maxKern conf ⟨[], []⟩ ops

/-! ## suffix facts -/

theorem lastN_suffix (n : Nat) (l : List Op) : lastN n l <:+ l := List.drop_suffix _ _

theorem lastN_length_le (n : Nat) (l : List Op) : (lastN n l).length ≤ n := by
  simp only [lastN, List.length_drop]; omega

theorem suffix_lastN {a l : List Op} {n : Nat} (h : a <:+ l) (hn : a.length ≤ n) : a <:+ lastN n l := by
  have hl := h.length_le
  rw [List.suffix_iff_eq_drop] at h
  have : l.drop (l.length - a.length) = (lastN n l).drop ((l.length - a.length) - (l.length - n)) := by
    simp only [lastN, List.drop_drop]
    congr 1; omega
  rw [h, this]
  exact List.drop_suffix _ _

/-- two suffixes of the same list: the shorter is a suffix of the longer -/
theorem suffix_of_suffix_length_le {a b l : List Op} (ha : a <:+ l) (hb : b <:+ l) (hl : a.length ≤ b.length) :
    a <:+ b := List.suffix_of_suffix_length_le ha hb hl

theorem suffix_append_singleton {a l : List Op} (h : a <:+ l) (o : Op) : a ++ [o] <:+ l ++ [o] := by
  obtain ⟨t, rfl⟩ := h
  exact ⟨t, by simp⟩

theorem suffix_tail {x : Op} {a l : List Op} (h : x :: a <:+ l) : a <:+ l :=
  (List.suffix_cons x a).trans h

theorem any_false_of_suffix {a l : List Op} {p : Op → Bool} (h : a <:+ l) (hl : ∀ y ∈ l, p y = false) :
    a.any p = false := by
  rw [List.any_eq_false]
  intro y hy
  have := hl y (h.subset hy)
  simp [this]

/-! ## `lazyCheck` is sound -/

/-- invariant: the real queues are suffixes of bounds that still pass the closed-form check -/
def Inv (caps : Caps) (conf : Op → Op → Bool) (s : St Op) : Prop :=
  ∃ D K, s.dmaQ <:+ D ∧ s.kernQ <:+ K ∧ lazyCheck caps conf s.prog D K = true

theorem inv_step {caps : Caps} {conf : Op → Op → Bool} {s t : St Op}
    (hs : Inv caps conf s) (st : Step caps s t) : Inv caps conf t := by
  obtain ⟨D, K, hD, hK, hc⟩ := hs
  cases st with
  | dmaDone p x dq kq => exact ⟨D, K, suffix_tail hD, hK, hc⟩
  | kernDone p x dq kq => exact ⟨D, K, hD, suffix_tail hK, hc⟩
  | issueDma o p dq kq hlen =>
    simp only [lazyCheck] at hc
    have hne : caps.maxDma ≠ 0 := by omega
    simp only [hne, if_false, Bool.and_eq_true] at hc
    refine ⟨lastN (caps.maxDma - 1) D ++ [o], K, ?_, hK, hc.2⟩
    exact suffix_append_singleton (suffix_lastN hD (by simp only at hlen ⊢; omega)) o
  | issueKern o p dq kq hlen =>
    simp only [lazyCheck] at hc
    have hne : caps.maxKern ≠ 0 := by omega
    simp only [hne, if_false, Bool.and_eq_true] at hc
    refine ⟨D, lastN (caps.maxKern - 1) K ++ [o], hD, ?_, hc.2⟩
    exact suffix_append_singleton (suffix_lastN hK (by simp only at hlen ⊢; omega)) o
  | dmaWait n p dq kq hlen =>
    simp only [lazyCheck] at hc
    exact ⟨lastN n D, K, suffix_lastN hD hlen, hK, hc⟩
  | kernWait n p dq kq hlen =>
    simp only [lazyCheck] at hc
    exact ⟨D, lastN n K, hD, suffix_lastN hK hlen, hc⟩

theorem inv_reach {caps : Caps} {conf : Op → Op → Bool} {s t : St Op}
    (hs : Inv caps conf s) (r : Reach caps s t) : Inv caps conf t := by
  induction r with
  | refl => exact hs
  | tail _ st ih => exact inv_step ih st

theorem inv_no_hazard {caps : Caps} {conf : Op → Op → Bool} {s : St Op}
    (hs : Inv caps conf s) : ¬ Hazard caps conf s := by
  obtain ⟨D, K, hD, hK, hc⟩ := hs
  intro hz
  unfold Hazard at hz
  split at hz
  · rename_i o p hp
    obtain ⟨hlen, y, hy, hconf⟩ := hz
    rw [hp] at hc
    simp only [lazyCheck] at hc
    have hne : caps.maxDma ≠ 0 := by omega
    simp only [hne, if_false, Bool.and_eq_true, Bool.not_eq_true'] at hc
    have := List.any_eq_false.mp hc.1 y (hK.subset hy)
    simp [hconf] at this
  · rename_i o p hp
    obtain ⟨hlen, y, hy, hconf⟩ := hz
    rw [hp] at hc
    simp only [lazyCheck] at hc
    have hne : caps.maxKern ≠ 0 := by omega
    simp only [hne, if_false, Bool.and_eq_true, Bool.not_eq_true'] at hc
    have := List.any_eq_false.mp hc.1 y (hD.subset hy)
    simp [hconf] at this
  · exact hz

theorem lazy_sound_from {caps : Caps} {conf : Op → Op → Bool} {s : St Op}
    (h : lazyCheck caps conf s.prog s.dmaQ s.kernQ = true) :
    ∀ t, Reach caps s t → ¬ Hazard caps conf t :=
  fun _ r => inv_no_hazard (inv_reach ⟨s.dmaQ, s.kernQ, List.suffix_refl _, List.suffix_refl _, h⟩ r)

/-! ## `lazyCheck` is complete: the lazy schedule is a schedule -/

theorem reach_trans {caps : Caps} {s t u : St Op} (a : Reach caps s t) (b : Reach caps t u) : Reach caps s u := by
  induction b with
  | refl => exact a
  | tail _ st ih => exact Reach.tail ih st

/-- completing the oldest DMA operations until only the last `n` are left -/
theorem reach_drop_dma (caps : Caps) (p : List (Cmd Op)) (kq : List Op) :
    ∀ (k : Nat) (dq : List Op), Reach caps ⟨p, dq, kq⟩ ⟨p, dq.drop k, kq⟩
  | 0, dq => by simpa using Reach.refl _
  | k + 1, [] => by simpa using Reach.refl _
  | k + 1, x :: dq => by
    have h1 : Reach caps ⟨p, x :: dq, kq⟩ ⟨p, dq, kq⟩ := Reach.tail (Reach.refl _) (Step.dmaDone p x dq kq)
    simpa using reach_trans h1 (reach_drop_dma caps p kq k dq)

theorem reach_drop_kern (caps : Caps) (p : List (Cmd Op)) (dq : List Op) :
    ∀ (k : Nat) (kq : List Op), Reach caps ⟨p, dq, kq⟩ ⟨p, dq, kq.drop k⟩
  | 0, kq => by simpa using Reach.refl _
  | k + 1, [] => by simpa using Reach.refl _
  | k + 1, x :: kq => by
    have h1 : Reach caps ⟨p, dq, x :: kq⟩ ⟨p, dq, kq⟩ := Reach.tail (Reach.refl _) (Step.kernDone p x dq kq)
    simpa using reach_trans h1 (reach_drop_kern caps p dq k kq)

theorem lazy_complete_from {caps : Caps} {conf : Op → Op → Bool} :
    ∀ (p : List (Cmd Op)) (D K : List Op), lazyCheck caps conf p D K = false →
      ∃ t, Reach caps ⟨p, D, K⟩ t ∧ Hazard caps conf t
  | [], D, K, h => by simp [lazyCheck] at h
  | .dmaWait n :: p, D, K, h => by
    simp only [lazyCheck] at h
    obtain ⟨t, r, hz⟩ := lazy_complete_from p (lastN n D) K h
    refine ⟨t, reach_trans (reach_trans (reach_drop_dma caps _ K (D.length - n) D) ?_) r, hz⟩
    exact Reach.tail (Reach.refl _) (Step.dmaWait n p _ K (lastN_length_le n D))
  | .kernWait n :: p, D, K, h => by
    simp only [lazyCheck] at h
    obtain ⟨t, r, hz⟩ := lazy_complete_from p D (lastN n K) h
    refine ⟨t, reach_trans (reach_trans (reach_drop_kern caps _ D (K.length - n) K) ?_) r, hz⟩
    exact Reach.tail (Reach.refl _) (Step.kernWait n p D _ (lastN_length_le n K))
  | .dma o :: p, D, K, h => by
    simp only [lazyCheck] at h
    by_cases hz0 : caps.maxDma = 0
    · simp [hz0] at h
    · simp only [hz0, if_false, Bool.and_eq_false_iff, Bool.not_eq_false'] at h
      have hlen : (lastN (caps.maxDma - 1) D).length < caps.maxDma := by
        have := lastN_length_le (caps.maxDma - 1) D; omega
      have r0 : Reach caps ⟨.dma o :: p, D, K⟩ ⟨.dma o :: p, lastN (caps.maxDma - 1) D, K⟩ :=
        reach_drop_dma caps _ K _ D
      rcases h with h | h
      · refine ⟨_, r0, ?_⟩
        obtain ⟨y, hy, hc⟩ := List.any_eq_true.mp h
        exact ⟨hlen, y, hy, hc⟩
      · obtain ⟨t, r, hz⟩ := lazy_complete_from p _ K h
        exact ⟨t, reach_trans (Reach.tail r0 (Step.issueDma o p _ K hlen)) r, hz⟩
  | .kern o :: p, D, K, h => by
    simp only [lazyCheck] at h
    by_cases hz0 : caps.maxKern = 0
    · simp [hz0] at h
    · simp only [hz0, if_false, Bool.and_eq_false_iff, Bool.not_eq_false'] at h
      have hlen : (lastN (caps.maxKern - 1) K).length < caps.maxKern := by
        have := lastN_length_le (caps.maxKern - 1) K; omega
      have r0 : Reach caps ⟨.kern o :: p, D, K⟩ ⟨.kern o :: p, D, lastN (caps.maxKern - 1) K⟩ :=
        reach_drop_kern caps _ D _ K
      rcases h with h | h
      · refine ⟨_, r0, ?_⟩
        obtain ⟨y, hy, hc⟩ := List.any_eq_true.mp h
        exact ⟨hlen, y, hy, hc⟩
      · obtain ⟨t, r, hz⟩ := lazy_complete_from p D _ h
        exact ⟨t, reach_trans (Reach.tail r0 (Step.issueKern o p D _ hlen)) r, hz⟩

/-! ## the model's scan -/

theorem scan_some {conf : Op → Op → Bool} {op : Op} :
    ∀ {l r : List Op}, scan conf op l = some r → r <:+ l ∧ ∀ y ∈ r, conf y op = false
  | [], r, h => by simp [scan] at h
  | x :: rest, r, h => by
    simp only [scan] at h
    cases hs : scan conf op rest with
    | some r' =>
      rw [hs] at h
      simp only [Option.some.injEq] at h
      subst h
      have := scan_some hs
      exact ⟨this.1.trans (List.suffix_cons x rest), this.2⟩
    | none =>
      rw [hs] at h
      by_cases hc : conf x op = true
      · simp only [hc, if_true, Option.some.injEq] at h
        subst h
        refine ⟨List.suffix_cons x _, ?_⟩
        exact scan_none_aux hs
      · simp [hc] at h
where
  scan_none_aux {conf : Op → Op → Bool} {op : Op} : ∀ {l : List Op}, scan conf op l = none → ∀ y ∈ l, conf y op = false
    | [], _ => by simp
    | x :: rest, h => by
      simp only [scan] at h
      cases hs : scan conf op rest with
      | some r' => rw [hs] at h; simp at h
      | none =>
        rw [hs] at h
        by_cases hc : conf x op = true
        · simp [hc] at h
        · intro y hy
          rcases List.mem_cons.mp hy with rfl | hy
          · simpa using hc
          · exact scan_none_aux hs y hy

theorem scan_none {conf : Op → Op → Bool} {op : Op} {l : List Op} (h : scan conf op l = none) :
    ∀ y ∈ l, conf y op = false := scan_some.scan_none_aux h

/-- exactness of the transcription: what `scan` returns is the part of the list after the *last*
    conflicting operation -/
theorem scan_some_split {conf : Op → Op → Bool} {op : Op} :
    ∀ {l r : List Op}, scan conf op l = some r → ∃ pre x, l = pre ++ x :: r ∧ conf x op = true
  | [], r, h => by simp [scan] at h
  | x :: rest, r, h => by
    simp only [scan] at h
    cases hs : scan conf op rest with
    | some r' =>
      rw [hs] at h
      simp only [Option.some.injEq] at h
      subst h
      obtain ⟨pre, y, hl, hc⟩ := scan_some_split hs
      exact ⟨x :: pre, y, by simp [hl], hc⟩
    | none =>
      rw [hs] at h
      by_cases hc : conf x op = true
      · simp only [hc, if_true, Option.some.injEq] at h
        subst h
        exact ⟨[], x, rfl, hc⟩
      · simp [hc] at h

theorem pushTrim_suffix {D td : List Op} {hw m : Nat} (o : Op) (hD : D <:+ td) (hpos : hw ≠ 0) (hle : hw ≤ m) :
    lastN (hw - 1) D ++ [o] <:+ pushTrim m td o := by
  have h1 : lastN (hw - 1) D ++ [o] <:+ td ++ [o] :=
    suffix_append_singleton ((lastN_suffix _ D).trans hD) o
  have hl : (lastN (hw - 1) D ++ [o]).length ≤ m := by
    have := lastN_length_le (hw - 1) D
    simp only [List.length_append, List.length_singleton]; omega
  unfold pushTrim
  simp only
  split
  · rename_i hgt
    have : (td ++ [o]).drop 1 = lastN ((td ++ [o]).length - 1) (td ++ [o]) := by
      unfold lastN; congr 1; omega
    rw [this]
    exact suffix_lastN h1 (by omega)
  · exact h1

/-! ## the emitted sequence passes the closed-form check -/

theorem lazy_emit {hw : Caps} {maxDma maxKern : Nat} (conf : Op → Op → Bool)
    (hd : hw.maxDma ≤ maxDma) (hk : hw.maxKern ≤ maxKern) :
    ∀ (ops : List (Bool × Op)) (t : Tracked Op) (D K : List Op), D <:+ t.dma → K <:+ t.npu →
      lazyCheck hw conf (emitFrom maxDma maxKern conf t ops) D K = true
  | [], _, _, _, _, _ => by simp [emitFrom, lazyCheck]
  | (true, op) :: rest, t, D, K, hD, hK => by
    simp only [emitFrom, getWaitDependency, if_true]
    cases hs : scan conf op t.npu with
    | some r =>
      obtain ⟨hr, hnc⟩ := scan_some hs
      have hK' : lastN r.length K <:+ r :=
        suffix_of_suffix_length_le ((lastN_suffix _ K).trans hK) hr (lastN_length_le _ K)
      simp only [emitOne, if_true, List.cons_append, List.nil_append, lazyCheck]
      by_cases hz : hw.maxDma = 0
      · simp [hz]
      · simp only [hz, if_false, Bool.and_eq_true, Bool.not_eq_true']
        exact ⟨any_false_of_suffix hK' hnc,
          lazy_emit conf hd hk rest _ _ _ (pushTrim_suffix op hD hz hd) hK'⟩
    | none =>
      have hnc := scan_none hs
      simp only [emitOne, if_true, List.nil_append, List.cons_append, lazyCheck]
      by_cases hz : hw.maxDma = 0
      · simp [hz]
      · simp only [hz, if_false, Bool.and_eq_true, Bool.not_eq_true']
        exact ⟨any_false_of_suffix hK hnc,
          lazy_emit conf hd hk rest _ _ _ (pushTrim_suffix op hD hz hd) hK⟩
  | (false, op) :: rest, t, D, K, hD, hK => by
    simp only [emitFrom, getWaitDependency, Bool.false_eq_true, if_false]
    cases hs : scan conf op t.dma with
    | some r =>
      obtain ⟨hr, hnc⟩ := scan_some hs
      have hD' : lastN r.length D <:+ r :=
        suffix_of_suffix_length_le ((lastN_suffix _ D).trans hD) hr (lastN_length_le _ D)
      simp only [emitOne, Bool.false_eq_true, if_false, List.cons_append, List.nil_append, lazyCheck]
      by_cases hz : hw.maxKern = 0
      · simp [hz]
      · simp only [hz, if_false, Bool.and_eq_true, Bool.not_eq_true']
        exact ⟨any_false_of_suffix hD' hnc,
          lazy_emit conf hd hk rest _ _ _ hD' (pushTrim_suffix op hK hz hk)⟩
    | none =>
      have hnc := scan_none hs
      simp only [emitOne, Bool.false_eq_true, if_false, List.nil_append, List.cons_append, lazyCheck]
      by_cases hz : hw.maxKern = 0
      · simp [hz]
      · simp only [hz, if_false, Bool.and_eq_true, Bool.not_eq_true']
        exact ⟨any_false_of_suffix hD hnc,
          lazy_emit conf hd hk rest _ _ _ hD (pushTrim_suffix op hK hz hk)⟩

end VelaVerif.Lemmas.Waits
