import Mathlib.Tactic.Linarith
import VelaVerif.Spec.ScalingEqualView
import VelaVerif.Lemmas.ScalingRat
/-!
Helper lemmas for the "same quantisation" predicate (C09): the model's IEEE `==` on exact values is the
Spec's "denote the same number", elementwise and for the whole attribute.
-/
namespace VelaVerif.ScalingEqual
open VelaVerif.Scaling VelaVerif.Spec.Scaling VelaVerif.Spec.ScalingEqual

/-- a finite non-zero value has a non-zero significand (what the encoder of the harness and
    `Handlers.Scaling.parseDbl` guarantee) -/
def DblOk : Dbl → Prop
  | .fin _ m _ => 0 < m
  | _ => True

def QVal.Ok : QVal → Prop
  | .none => True
  | .arr a => a.WF ∧ ∀ x ∈ a.vals, DblOk x

def Quant.Ok (q : Quant) : Prop := QVal.Ok q.scale ∧ QVal.Ok q.zeroPoint

theorem magEq_iff (m1 m2 : Nat) (e1 e2 : Int) :
    magEq m1 e1 m2 e2 = true ↔ DyEq (m1 : Int) e1 (m2 : Int) e2 := by
  unfold magEq DyEq scaleTo
  simp only [beq_iff_eq]
  constructor
  · intro h; exact_mod_cast h
  · intro h; exact_mod_cast h

theorem dyEq_neg_neg (a b ea eb : Int) : DyEq (-a) ea (-b) eb ↔ DyEq a ea b eb := by
  unfold DyEq scaleTo
  constructor <;> intro h <;> linarith

theorem scaleTo_pos (m : Nat) (e c : Int) (h : 0 < m) : 0 < scaleTo (m : Int) e c := by
  unfold scaleTo
  have h1 : (0 : Int) < (m : Int) := by exact_mod_cast h
  have h2 : (0 : Int) < 2 ^ (e - c).toNat := by positivity
  exact Int.mul_pos h1 h2

theorem dyEq_neg_pos_false (m1 m2 : Nat) (e1 e2 : Int) (h1 : 0 < m1) (h2 : 0 < m2) :
    ¬ DyEq (-(m1 : Int)) e1 (m2 : Int) e2 := by
  intro h
  have p1 := scaleTo_pos m1 e1 (min e1 e2) h1
  have p2 := scaleTo_pos m2 e2 (min e1 e2) h2
  unfold DyEq at h
  unfold scaleTo at h p1 p2
  linarith

theorem dyEq_pos_neg_false (m1 m2 : Nat) (e1 e2 : Int) (h1 : 0 < m1) (h2 : 0 < m2) :
    ¬ DyEq (m1 : Int) e1 (-(m2 : Int)) e2 := by
  intro h
  have p1 := scaleTo_pos m1 e1 (min e1 e2) h1
  have p2 := scaleTo_pos m2 e2 (min e1 e2) h2
  unfold DyEq at h
  unfold scaleTo at h p1 p2
  linarith

theorem dyEq_zero_left (m : Nat) (e : Int) (neg : Bool) (h : 0 < m) :
    ¬ DyEq 0 0 (if neg then -(m : Int) else (m : Int)) e := by
  intro hd
  have p := scaleTo_pos m e (min 0 e) h
  unfold DyEq at hd
  unfold scaleTo at hd p
  cases neg <;> simp only [Bool.false_eq_true, if_false, if_true] at hd <;> linarith

theorem dyEq_zero_right (m : Nat) (e : Int) (neg : Bool) (h : 0 < m) :
    ¬ DyEq (if neg then -(m : Int) else (m : Int)) e 0 0 := by
  intro hd
  have p := scaleTo_pos m e (min e 0) h
  unfold DyEq at hd
  unfold scaleTo at hd p
  cases neg <;> simp only [Bool.false_eq_true, if_false, if_true] at hd <;> linarith

/-- the model's `==` is "denote the same number" -/
theorem dblEq_iff (x y : Dbl) (hx : DblOk x) (hy : DblOk y) :
    dblEq x y = true ↔ Val.Same (ofDbl x) (ofDbl y) := by
  cases x with
  | nan => cases y <;> simp [dblEq, ofDbl, Val.Same]
  | inf s =>
    cases y <;> simp [dblEq, ofDbl, Val.Same]
  | zero s =>
    cases y with
    | fin n m e =>
      simp only [dblEq, ofDbl, Val.Same]
      constructor
      · intro h; cases h
      · intro h; exact absurd h (dyEq_zero_left m e n hy)
    | zero t => simp [dblEq, ofDbl, Val.Same, DyEq]
    | nan => simp [dblEq, ofDbl, Val.Same]
    | inf t => simp [dblEq, ofDbl, Val.Same]
  | fin n1 m1 e1 =>
    cases y with
    | nan => simp [dblEq, ofDbl, Val.Same]
    | inf t => simp [dblEq, ofDbl, Val.Same]
    | zero t =>
      simp only [dblEq, ofDbl, Val.Same]
      constructor
      · intro h; cases h
      · intro h; exact absurd h (dyEq_zero_right m1 e1 n1 hx)
    | fin n2 m2 e2 =>
      simp only [dblEq, ofDbl, Val.Same, Bool.and_eq_true, beq_iff_eq]
      rw [magEq_iff]
      cases n1 <;> cases n2 <;> simp only [Bool.false_eq_true, if_false, if_true]
      · simp
      · constructor
        · intro h; cases h.1
        · intro h; exact absurd h (dyEq_pos_neg_false m1 m2 e1 e2 hx hy)
      · constructor
        · intro h; cases h.1
        · intro h; exact absurd h (dyEq_neg_pos_false m1 m2 e1 e2 hx hy)
      · rw [dyEq_neg_neg]; simp

theorem allEq_iff : (xs ys : List Dbl) → (∀ x ∈ xs, DblOk x) → (∀ y ∈ ys, DblOk y) →
    (allEq xs ys = true ↔ SameList (xs.map ofDbl) (ys.map ofDbl))
  | [], [], _, _ => by simp [allEq, SameList]
  | [], _ :: _, _, _ => by simp [allEq, SameList]
  | _ :: _, [], _, _ => by simp [allEq, SameList]
  | x :: xs, y :: ys, hx, hy => by
    simp only [allEq, List.map_cons, SameList, Bool.and_eq_true]
    rw [dblEq_iff x y (hx x (by simp)) (hy y (by simp)),
      allEq_iff xs ys (fun a ha => hx a (by simp [ha])) (fun a ha => hy a (by simp [ha]))]

/-- two normalised (`frexp` form) finite values are equal exactly when their three fields are -/
theorem dblEq_norm_iff (n1 n2 : Bool) (m1 m2 : Nat) (e1 e2 : Int)
    (h1 : 2 ^ 52 ≤ m1 ∧ m1 < 2 ^ 53) (h2 : 2 ^ 52 ≤ m2 ∧ m2 < 2 ^ 53) :
    dblEq (.fin n1 m1 e1) (.fin n2 m2 e2) = true ↔ n1 = n2 ∧ m1 = m2 ∧ e1 = e2 := by
  simp only [dblEq, Bool.and_eq_true, beq_iff_eq, magEq]
  constructor
  · rintro ⟨hn, hm⟩
    refine ⟨hn, ?_⟩
    rcases lt_trichotomy e1 e2 with hlt | heq | hgt
    · exfalso
      have hmin : min e1 e2 = e1 := min_eq_left (le_of_lt hlt)
      rw [hmin] at hm
      have k0 : (e1 - e1).toNat = 0 := by omega
      obtain ⟨k, hk⟩ : ∃ k, (e2 - e1).toNat = k + 1 := ⟨(e2 - e1).toNat - 1, by omega⟩
      rw [k0, hk, pow_zero, pow_succ] at hm
      have : 1 ≤ 2 ^ k := Nat.one_le_two_pow
      nlinarith [h1.1, h1.2, h2.1, h2.2]
    · subst heq
      have k0 : (e1 - min e1 e1).toNat = 0 := by simp
      rw [k0, pow_zero] at hm
      exact ⟨by omega, rfl⟩
    · exfalso
      have hmin : min e1 e2 = e2 := min_eq_right (le_of_lt hgt)
      rw [hmin] at hm
      have k0 : (e2 - e2).toNat = 0 := by omega
      obtain ⟨k, hk⟩ : ∃ k, (e1 - e2).toNat = k + 1 := ⟨(e1 - e2).toNat - 1, by omega⟩
      rw [k0, hk, pow_zero, pow_succ] at hm
      have : 1 ≤ 2 ^ k := Nat.one_le_two_pow
      nlinarith [h1.1, h1.2, h2.1, h2.2]
  · rintro ⟨hn, hm, he⟩
    subst hn; subst hm; subst he
    simp

theorem sameList_length : (xs ys : List Val) → SameList xs ys → xs.length = ys.length
  | [], [], _ => rfl
  | [], _ :: _, h => by cases h
  | _ :: _, [], h => by cases h
  | _ :: xs, _ :: ys, h => by simp [sameList_length xs ys h.2]

/-- the nested `equal(a, b)` of `is_scaling_equal` is the Spec's NumPy rule on what the values denote -/
theorem equalVal_iff (a b : QVal) (ha : QVal.Ok a) (hb : QVal.Ok b) :
    equalVal a b = true ↔ SameUpToUnitShape (ofQVal a) (ofQVal b) := by
  cases a with
  | none => cases b <;> simp [equalVal, ofQVal, SameUpToUnitShape]
  | arr a =>
    cases b with
    | none => simp [equalVal, ofQVal, SameUpToUnitShape]
    | arr b =>
      obtain ⟨wa, oka⟩ := ha
      obtain ⟨wb, okb⟩ := hb
      simp only [equalVal, ofQVal, SameUpToUnitShape, Attr.size]
      have sa : a.size = a.shape.foldl (· * ·) 1 := rfl
      have sb : b.size = b.shape.foldl (· * ·) 1 := rfl
      by_cases h1 : a.size = 1 ∧ b.size = 1
      · rw [if_pos h1]
        unfold NArr.WF at wa wb
        rw [h1.1] at wa
        rw [h1.2] at wb
        match hav : a.vals, hbv : b.vals, wa, wb with
        | [x], [y], _, _ =>
          simp only [List.map_cons, List.map_nil, SameList, and_true]
          rw [dblEq_iff x y (oka x (by simp [hav])) (okb y (by simp [hbv]))]
          constructor
          · intro h; exact ⟨Or.inl ⟨sa ▸ h1.1, sb ▸ h1.2⟩, h⟩
          · intro h; exact h.2
      · rw [if_neg h1]
        simp only [Bool.and_eq_true, beq_iff_eq]
        rw [allEq_iff a.vals b.vals oka okb]
        constructor
        · intro h; exact ⟨Or.inr h.1, h.2⟩
        · rintro ⟨h | h, h2⟩
          · exact absurd ⟨sa ▸ h.1, sb ▸ h.2⟩ h1
          · exact ⟨h, h2⟩

end VelaVerif.ScalingEqual
