import VelaVerif.Model.LiveRange
/-!
# Lemmas about the live-range extraction model (used by `Props/C12LiveRange.lean`)

The graph only grows: an entry of `ranges` is never removed or re-pointed (`Graph.Le.lookup`), a range only
widens (`Graph.Le.lrs`).  Hence whatever one `mark_usage` establishes survives to the end of the walk.
-/
namespace VelaVerif.LiveRange

theorem markUsage_mono (r : LR) (a b : Int) :
    (r.markUsage a b).start ≤ r.start ∧ r.end_ ≤ (r.markUsage a b).end_ := by
  unfold LR.markUsage
  simp only
  split
  · exact ⟨Int.le_refl _, Int.le_refl _⟩
  · exact ⟨by simp only; omega, by simp only; omega⟩

theorem markUsage_covers (r : LR) (a b : Int) (h : max a 0 ≤ a + b) :
    (r.markUsage a b).start ≤ max a 0 ∧ a + b ≤ (r.markUsage a b).end_ := by
  unfold LR.markUsage
  simp only
  split
  · omega
  · exact ⟨by simp only; omega, by simp only; omega⟩

theorem Graph.WF_empty : Graph.empty.WF := by
  intro p hp
  simp [Graph.empty] at hp

/-- `g'` extends `g`: same answers of `get_or_create_range` for the tensors `g` knows, wider ranges -/
structure Graph.Le (g g' : Graph) : Prop where
  lookup : ∀ t i, g.lookup t = some i → g'.lookup t = some i
  lrs : ∀ (i : Nat) (r : LR), g.lrs[i]? = some r →
    ∃ r' : LR, g'.lrs[i]? = some r' ∧ r'.start ≤ r.start ∧ r.end_ ≤ r'.end_
  mem : ∀ p ∈ g.ranges, p ∈ g'.ranges

theorem Graph.Le.refl (g : Graph) : g.Le g :=
  ⟨fun _ _ h => h, fun _ r h => ⟨r, h, Int.le_refl _, Int.le_refl _⟩, fun _ h => h⟩

theorem Graph.Le.trans {a b c : Graph} (h1 : a.Le b) (h2 : b.Le c) : a.Le c :=
  ⟨fun t i h => h2.lookup t i (h1.lookup t i h), fun i r h => by
    obtain ⟨r1, h3, h4, h5⟩ := h1.lrs i r h
    obtain ⟨r2, h6, h7, h8⟩ := h2.lrs i r1 h3
    exact ⟨r2, h6, by omega, by omega⟩, fun p h => h2.mem p (h1.mem p h)⟩

theorem lookup_lt {g : Graph} (hw : g.WF) {t : Tensor} {i : Nat} (h : g.lookup t = some i) :
    i < g.lrs.length := by
  unfold Graph.lookup at h
  cases hf : g.ranges.find? (fun p => p.1.eqId == t.eqId) with
  | none => simp [hf] at h
  | some p =>
    simp [hf] at h
    have := List.mem_of_find?_eq_some hf
    have := hw p this
    omega

/-- appending an entry does not change the answer for a tensor that already has one -/
theorem lookup_append {g : Graph} {t : Tensor} {i : Nat} (h : g.lookup t = some i) (lrs' : List LR) (x : Tensor × Nat) :
    ({ lrs := lrs', ranges := g.ranges ++ [x] } : Graph).lookup t = some i := by
  unfold Graph.lookup at h ⊢
  simp only [List.find?_append]
  cases hf : g.ranges.find? (fun p => p.1.eqId == t.eqId) with
  | none => simp [hf] at h
  | some p => simpa [hf] using h

theorem getOrCreate_spec {g : Graph} (hw : g.WF) (t : Tensor) :
    (g.getOrCreate t).1.WF ∧ g.Le (g.getOrCreate t).1 ∧ (g.getOrCreate t).1.lookup t = some (g.getOrCreate t).2 ∧
    (g.getOrCreate t).2 < (g.getOrCreate t).1.lrs.length := by
  unfold Graph.getOrCreate
  cases hl : g.lookup t with
  | some i =>
    exact ⟨hw, Graph.Le.refl g, hl, lookup_lt hw hl⟩
  | none =>
    simp only
    refine ⟨?_, ⟨?_, ?_, ?_⟩, ?_, ?_⟩
    · intro p hp
      simp only [List.mem_append, List.mem_singleton] at hp
      simp only [List.length_append, List.length_singleton]
      rcases hp with hp | hp
      · have := hw p hp; omega
      · subst hp; simp
    · intro u i hu
      exact lookup_append hu _ _
    · intro i r hr
      refine ⟨r, ?_, Int.le_refl _, Int.le_refl _⟩
      have hi : i < g.lrs.length := by
        rcases Nat.lt_or_ge i g.lrs.length with h | h
        · exact h
        · simp [List.getElem?_eq_none h] at hr
      simp only [List.getElem?_append_left hi]
      exact hr
    · intro p hp
      simp only [List.mem_append]
      exact Or.inl hp
    · unfold Graph.lookup at hl ⊢
      simp only [List.find?_append]
      cases hf : g.ranges.find? (fun p => p.1.eqId == t.eqId) with
      | some p => simp [hf] at hl
      | none => simp
    · simp


/-- a function on ranges that only widens -/
def Widens (f : LR → LR) : Prop := ∀ r : LR, (f r).start ≤ r.start ∧ r.end_ ≤ (f r).end_

theorem widens_markUsage (a b : Int) : Widens (fun r => r.markUsage a b) := fun r => markUsage_mono r a b

theorem widens_rolling (size : Nat) (a b : Int) : Widens (fun r => (r.setBufferSize size).markUsage a b) := by
  intro r
  have := markUsage_mono (r.setBufferSize size) a b
  simpa [LR.setBufferSize] using this

theorem modify_spec {g : Graph} (hw : g.WF) (i : Nat) {f : LR → LR} (hf : Widens f) :
    ({ lrs := g.lrs.modify i f, ranges := g.ranges } : Graph).WF ∧
    g.Le { lrs := g.lrs.modify i f, ranges := g.ranges } := by
  refine ⟨?_, ⟨fun _ _ h => h, ?_, fun _ h => h⟩⟩
  · intro p hp
    have := hw p hp
    simpa [List.length_modify] using this
  · intro j r hr
    simp only [List.getElem?_modify, hr, Option.map_eq_map, Option.map_some]
    by_cases hij : i = j
    · simp only [hij, if_true]
      exact ⟨f r, rfl, hf r⟩
    · simp only [hij, if_false]
      exact ⟨r, rfl, Int.le_refl _, Int.le_refl _⟩

/-- what the modified entry looks like -/
theorem modify_at {l : List LR} {i : Nat} (hi : i < l.length) (f : LR → LR) :
    ∃ r : LR, l[i]? = some r ∧ (l.modify i f)[i]? = some (f r) := by
  refine ⟨l[i], by simp [hi], ?_⟩
  simp [hi]

theorem foldl_modify_spec (f : LR → LR) (hf : Widens f) (ps : List (Tensor × Nat)) :
    ∀ lrs : List LR,
      (ps.foldl (fun lrs p => if p.1.isVariable then lrs.modify p.2 f else lrs) lrs).length = lrs.length ∧
      ∀ (i : Nat) (r : LR), lrs[i]? = some r →
        ∃ r' : LR, (ps.foldl (fun lrs p => if p.1.isVariable then lrs.modify p.2 f else lrs) lrs)[i]? = some r' ∧
          r'.start ≤ r.start ∧ r.end_ ≤ r'.end_ := by
  induction ps with
  | nil => intro lrs; exact ⟨rfl, fun i r h => ⟨r, h, Int.le_refl _, Int.le_refl _⟩⟩
  | cons p ps ih =>
    intro lrs
    simp only [List.foldl_cons]
    by_cases hv : p.1.isVariable = true
    · simp only [hv, if_true]
      have h := ih (lrs.modify p.2 f)
      refine ⟨by simpa [List.length_modify] using h.1, ?_⟩
      intro i r hr
      have h1 : ∃ r1 : LR, (lrs.modify p.2 f)[i]? = some r1 ∧ r1.start ≤ r.start ∧ r.end_ ≤ r1.end_ := by
        simp only [List.getElem?_modify, hr, Option.map_eq_map, Option.map_some]
        by_cases hij : p.2 = i
        · simp only [hij, if_true]; exact ⟨f r, rfl, hf r⟩
        · simp only [hij, if_false]; exact ⟨r, rfl, Int.le_refl _, Int.le_refl _⟩
      obtain ⟨r1, h2, h3, h4⟩ := h1
      obtain ⟨r2, h5, h6, h7⟩ := h.2 i r1 h2
      exact ⟨r2, h5, by omega, by omega⟩
    · simp only [hv]
      exact ih lrs

theorem apply_spec {g g' : Graph} (hw : g.WF) (e : Ev) (h : g.apply e = .ok g') : g'.WF ∧ g.Le g' := by
  cases e with
  | mark t a b =>
    simp only [Graph.apply, Except.ok.injEq] at h
    subst h
    have hg := getOrCreate_spec hw t
    have hm := modify_spec hg.1 (g.getOrCreate t).2 (widens_markUsage a b)
    exact ⟨hm.1, hg.2.1.trans hm.2⟩
  | rolling t size a =>
    simp only [Graph.apply, Except.ok.injEq] at h
    subst h
    have hg := getOrCreate_spec hw t
    have hm := modify_spec hg.1 (g.getOrCreate t).2 (widens_rolling size a 1)
    exact ⟨hm.1, hg.2.1.trans hm.2⟩
  | fuse inp out =>
    have hg := getOrCreate_spec hw inp
    simp only [Graph.apply] at h
    split at h
    · cases h
    · split at h
      · cases h
      · rename_i r hr
        split at h
        · cases h
        · rename_i r' hr'
          simp only [Except.ok.injEq] at h
          subst h
          have hse : r'.start = r.start ∧ r'.end_ = r.end_ := by
            unfold LR.addTensor at hr'
            split at hr'
            · cases hr'; exact ⟨rfl, rfl⟩
            · split at hr'
              · cases hr'
              · cases hr'; exact ⟨rfl, rfl⟩
          refine ⟨?_, hg.2.1.trans ⟨?_, ?_, fun p hp => by simp only [List.mem_append]; exact Or.inl hp⟩⟩
          · intro p hp
            simp only [List.mem_append, List.mem_singleton] at hp
            simp only [List.length_set]
            rcases hp with hp | hp
            · exact hg.1 p hp
            · subst hp; exact hg.2.2.2
          · intro u i hu
            exact lookup_append hu _ _
          · intro j q hq
            simp only [List.getElem?_set]
            by_cases hij : (g.getOrCreate inp).2 = j
            · subst hij
              simp only [if_true, hg.2.2.2]
              rw [hr] at hq
              cases hq
              exact ⟨r', rfl, by omega, by omega⟩
            · simp only [hij, if_false]
              exact ⟨q, hq, Int.le_refl _, Int.le_refl _⟩
  | markVars len =>
    simp only [Graph.apply, Except.ok.injEq] at h
    subst h
    have hf := foldl_modify_spec (fun r => r.markUsage 0 len) (widens_markUsage 0 len) g.ranges g.lrs
    refine ⟨?_, ⟨fun _ _ h => h, hf.2, fun _ h => h⟩⟩
    intro p hp
    have := hw p hp
    simpa [hf.1] using this
  | fail => simp [Graph.apply] at h

theorem run_spec {evs : List Ev} : ∀ {g g' : Graph}, g.WF → g.run evs = .ok g' → g'.WF ∧ g.Le g' := by
  induction evs with
  | nil =>
    intro g g' hw h
    simp only [Graph.run, Except.ok.injEq] at h
    subst h
    exact ⟨hw, Graph.Le.refl g⟩
  | cons e es ih =>
    intro g g' hw h
    simp only [Graph.run] at h
    split at h
    · rename_i g1 h1
      have a := apply_spec hw e h1
      have b := ih a.1 h
      exact ⟨b.1, a.2.trans b.2⟩
    · cases h


/-! ## Coverage -/

theorem covers_le {g g' : Graph} (h : g.Le g') {t : Tensor} {lo hi : Int} (hc : g.Covers t lo hi) :
    g'.Covers t lo hi := by
  obtain ⟨r, hr, h1, h2⟩ := hc
  unfold Graph.rangeOf at hr
  cases hl : g.lookup t with
  | none => simp [hl] at hr
  | some i =>
    simp only [hl] at hr
    obtain ⟨r', hr', h3, h4⟩ := h.lrs i r hr
    refine ⟨r', ?_, by omega, by omega⟩
    unfold Graph.rangeOf
    simp only [h.lookup t i hl]
    exact hr'

theorem covers_weaken {g : Graph} {t : Tensor} {lo hi lo' hi' : Int} (hc : g.Covers t lo hi)
    (h1 : lo ≤ lo') (h2 : hi' ≤ hi) : g.Covers t lo' hi' := by
  obtain ⟨r, hr, h3, h4⟩ := hc
  exact ⟨r, hr, by omega, by omega⟩

/-- `get_or_create_range(t)` followed by a widening update of that range -/
theorem getOrCreate_modify_covers {g : Graph} (hw : g.WF) (t : Tensor) (f : LR → LR) (lo hi : Int)
    (hf : ∀ r : LR, (f r).start ≤ lo ∧ hi ≤ (f r).end_) :
    ({ lrs := (g.getOrCreate t).1.lrs.modify (g.getOrCreate t).2 f, ranges := (g.getOrCreate t).1.ranges } : Graph).Covers t lo hi := by
  have hg := getOrCreate_spec hw t
  obtain ⟨r, _, hr⟩ := modify_at hg.2.2.2 f
  refine ⟨f r, ?_, hf r⟩
  unfold Graph.rangeOf
  have hl : ({ lrs := (g.getOrCreate t).1.lrs.modify (g.getOrCreate t).2 f, ranges := (g.getOrCreate t).1.ranges } : Graph).lookup t
      = some (g.getOrCreate t).2 := hg.2.2.1
  simp only [hl]
  exact hr

theorem apply_mark_covers {g g' : Graph} (hw : g.WF) (t : Tensor) (a b : Int) (hab : max a 0 ≤ a + b)
    (h : g.apply (.mark t a b) = .ok g') : g'.Covers t (max a 0) (a + b) := by
  simp only [Graph.apply, Except.ok.injEq] at h
  subst h
  exact getOrCreate_modify_covers hw t _ _ _ (fun r => markUsage_covers r a b hab)

theorem apply_rolling_covers {g g' : Graph} (hw : g.WF) (t : Tensor) (size : Nat) (a : Int) (ha : 0 ≤ a)
    (h : g.apply (.rolling t size a) = .ok g') : g'.Covers t a (a + 1) := by
  simp only [Graph.apply, Except.ok.injEq] at h
  subst h
  refine getOrCreate_modify_covers hw t _ _ _ (fun r => ?_)
  have := markUsage_covers (r.setBufferSize size) a 1 (by omega)
  have hm : max a 0 = a := by omega
  rw [hm] at this
  exact this

/-- whatever one event of the walk establishes holds at the end of the walk -/
theorem run_mark_covers {evs : List Ev} : ∀ {g g' : Graph}, g.WF → g.run evs = .ok g' →
    ∀ (t : Tensor) (a b : Int), Ev.mark t a b ∈ evs → max a 0 ≤ a + b → g'.Covers t (max a 0) (a + b) := by
  induction evs with
  | nil => intro g g' _ _ t a b hm; simp at hm
  | cons e es ih =>
    intro g g' hw h t a b hm hab
    simp only [Graph.run] at h
    split at h
    · rename_i g1 h1
      have ha := apply_spec hw e h1
      simp only [List.mem_cons] at hm
      rcases hm with hm | hm
      · subst hm
        exact covers_le (run_spec ha.1 h).2 (apply_mark_covers hw t a b hab h1)
      · exact ih ha.1 h t a b hm hab
    · cases h

theorem run_rolling_covers {evs : List Ev} : ∀ {g g' : Graph}, g.WF → g.run evs = .ok g' →
    ∀ (t : Tensor) (size : Nat) (a : Int), Ev.rolling t size a ∈ evs → 0 ≤ a → g'.Covers t a (a + 1) := by
  induction evs with
  | nil => intro g g' _ _ t size a hm; simp at hm
  | cons e es ih =>
    intro g g' hw h t size a hm ha0
    simp only [Graph.run] at h
    split at h
    · rename_i g1 h1
      have ha := apply_spec hw e h1
      simp only [List.mem_cons] at hm
      rcases hm with hm | hm
      · subst hm
        exact covers_le (run_spec ha.1 h).2 (apply_rolling_covers hw t size a ha0 h1)
      · exact ih ha.1 h t size a hm ha0
    · cases h

/-- the sweep over variable tensors -/
theorem foldl_modify_covers (len : Int) (hlen : 0 ≤ len) (ps : List (Tensor × Nat)) :
    ∀ lrs : List LR, ∀ p ∈ ps, p.1.isVariable = true → p.2 < lrs.length →
      ∃ r' : LR, (ps.foldl (fun lrs p => if p.1.isVariable then lrs.modify p.2 (fun r => r.markUsage 0 len) else lrs) lrs)[p.2]?
          = some r' ∧ r'.start ≤ 0 ∧ len ≤ r'.end_ := by
  induction ps with
  | nil => intro lrs p hp; simp at hp
  | cons q qs ih =>
    intro lrs p hp hv hlt
    simp only [List.foldl_cons]
    simp only [List.mem_cons] at hp
    rcases hp with hp | hp
    · subst hp
      simp only [hv, if_true]
      obtain ⟨r, _, hr⟩ := modify_at hlt (fun r => r.markUsage 0 len)
      obtain ⟨r', h1, h2, h3⟩ :=
        (foldl_modify_spec (fun r => r.markUsage 0 len) (widens_markUsage 0 len) qs (lrs.modify p.2 _)).2 p.2 _ hr
      have hc := markUsage_covers r 0 len (by omega)
      refine ⟨r', h1, ?_, ?_⟩
      · have : max (0 : Int) 0 = 0 := by omega
        omega
      · omega
    · by_cases hq : q.1.isVariable = true
      · simp only [hq, if_true]
        exact ih _ p hp hv (by simpa [List.length_modify] using hlt)
      · simp only [hq]
        exact ih _ p hp hv hlt

theorem apply_markVars_covers {g g' : Graph} (hw : g.WF) (len : Int) (hlen : 0 ≤ len)
    (h : g.apply (.markVars len) = .ok g') :
    g'.ranges = g.ranges ∧
    ∀ p ∈ g'.ranges, p.1.isVariable = true → ∃ r : LR, g'.lrs[p.2]? = some r ∧ r.start ≤ 0 ∧ len ≤ r.end_ := by
  simp only [Graph.apply, Except.ok.injEq] at h
  subst h
  refine ⟨rfl, ?_⟩
  intro p hp hv
  exact foldl_modify_covers len hlen g.ranges g.lrs p hp hv (hw p hp)


/-! ## The walk over the scheduled operations -/

theorem npuLoop_get (sram : Bool) : ∀ (ops : List SchedOp) (ts : TimeState) (k : Nat) (op : SchedOp),
    ops[k]? = some op → ∃ tk : Nat, (npuLoop sram ops ts).1[k]? = some (tk, opEvents sram op tk) := by
  intro ops
  induction ops with
  | nil => intro ts k op h; simp at h
  | cons o os ih =>
    intro ts k op h
    cases k with
    | zero =>
      simp only [List.getElem?_cons_zero, Option.some.injEq] at h
      subst h
      exact ⟨ts.timeFor o.cascade, by simp [npuLoop]⟩
    | succ k =>
      simp only [List.getElem?_cons_succ] at h
      obtain ⟨tk, htk⟩ := ih (ts.step o.cascade) k op h
      exact ⟨tk, by simpa [npuLoop] using htk⟩

/-- every graph operation of the iteration for `ops[k]` is performed by the walk, at the operation's time index -/
theorem npuWalk_op (s : Schedule) (ct k : Nat) (op : SchedOp) (h : s.ops[k]? = some op) :
    ∃ tk : Nat, (npuWalk s ct).times[k]? = some tk ∧ ∀ e ∈ opEvents s.sram op tk, e ∈ (npuWalk s ct).events := by
  obtain ⟨tk, htk⟩ := npuLoop_get s.sram s.ops { current := ct, cascades := [] } k op h
  refine ⟨tk, ?_, ?_⟩
  · simp [npuWalk, List.getElem?_map, htk]
  · intro e he
    simp only [npuWalk, List.mem_append, List.mem_flatMap]
    exact Or.inl ⟨(tk, opEvents s.sram op tk), List.mem_of_getElem? htk, he⟩

theorem npuWalk_output (s : Schedule) (ct : Nat) (x : Tensor) (hx : x ∈ s.outputs) (ht : x.inTarget = true) :
    Ev.mark x (npuWalk s ct).current 1 ∈ (npuWalk s ct).events := by
  simp only [npuWalk, outputEvents, List.mem_append, List.mem_map, List.mem_filter]
  exact Or.inr ⟨x, ⟨hx, ht⟩, rfl⟩

/-! ### Time bookkeeping -/

/-- no binding for cascade 0; every recorded time is at least two ticks in the past -/
def TimeState.Inv (ts : TimeState) : Prop := ∀ p ∈ ts.cascades, p.1 ≠ 0 ∧ p.2 + 2 ≤ ts.current

theorem timeFor_cases (ts : TimeState) (c : Nat) :
    (ts.cascades.find? (fun p => p.1 == c) = none ∧ ts.timeFor c = ts.current) ∨
    (∃ p, ts.cascades.find? (fun p => p.1 == c) = some p ∧ p ∈ ts.cascades ∧ p.1 = c ∧ ts.timeFor c = p.2) := by
  unfold TimeState.timeFor
  cases hf : ts.cascades.find? (fun p => p.1 == c) with
  | none => exact Or.inl ⟨rfl, rfl⟩
  | some p =>
    refine Or.inr ⟨p, rfl, List.mem_of_find?_eq_some hf, ?_, rfl⟩
    have := List.find?_some hf
    simpa using this

theorem step_spec {ts : TimeState} (hi : ts.Inv) (c : Nat) :
    (ts.step c).Inv ∧ ts.current ≤ (ts.step c).current ∧ ts.timeFor c + 2 ≤ (ts.step c).current ∧
    ts.timeFor c ≤ ts.current := by
  rcases timeFor_cases ts c with ⟨hn, ht⟩ | ⟨p, hf, hp, hpc, ht⟩
  · have hcur : (ts.step c).current = ts.current + 2 := by simp [TimeState.step, ht]
    refine ⟨?_, by omega, by omega, by omega⟩
    intro q hq
    rw [hcur]
    by_cases hc : c = 0
    · have : (ts.step c).cascades = ts.cascades := by simp [TimeState.step, hc]
      rw [this] at hq
      have := hi q hq
      exact ⟨this.1, by omega⟩
    · have : (ts.step c).cascades = (c, ts.timeFor c) :: ts.cascades := by simp [TimeState.step, hc]
      rw [this] at hq
      simp only [List.mem_cons] at hq
      rcases hq with hq | hq
      · subst hq; exact ⟨hc, by simp only; omega⟩
      · have := hi q hq
        exact ⟨this.1, by omega⟩
  · have hb := hi p hp
    have hne : ¬ (ts.timeFor c = ts.current) := by omega
    have hcur : (ts.step c).current = ts.current := by simp [TimeState.step, hne]
    refine ⟨?_, by omega, by omega, by omega⟩
    intro q hq
    rw [hcur]
    by_cases hc : c = 0
    · have : (ts.step c).cascades = ts.cascades := by simp [TimeState.step, hc]
      rw [this] at hq
      exact hi q hq
    · have : (ts.step c).cascades = (c, ts.timeFor c) :: ts.cascades := by simp [TimeState.step, hc]
      rw [this] at hq
      simp only [List.mem_cons] at hq
      rcases hq with hq | hq
      · subst hq; exact ⟨hc, by simp only; omega⟩
      · exact hi q hq

/-- all time indices handed out by the loop are at least two ticks before the final `current_time`,
    and not before the `current_time` minus … of the start only through a cascade binding -/
theorem npuLoop_times (sram : Bool) : ∀ (ops : List SchedOp) (ts : TimeState), ts.Inv →
    (npuLoop sram ops ts).2.Inv ∧ ts.current ≤ (npuLoop sram ops ts).2.current ∧
    ∀ (k : Nat) (x : Nat × List Ev), (npuLoop sram ops ts).1[k]? = some x → x.1 + 2 ≤ (npuLoop sram ops ts).2.current := by
  intro ops
  induction ops with
  | nil => intro ts hi; exact ⟨hi, Nat.le_refl _, fun k x h => by simp [npuLoop] at h⟩
  | cons o os ih =>
    intro ts hi
    have hs := step_spec hi o.cascade
    have h := ih (ts.step o.cascade) hs.1
    simp only [npuLoop]
    refine ⟨h.1, by omega, ?_⟩
    intro k x hx
    cases k with
    | zero =>
      simp only [List.getElem?_cons_zero, Option.some.injEq] at hx
      subst hx
      simp only
      omega
    | succ k =>
      simp only [List.getElem?_cons_succ] at hx
      exact h.2.2 k x hx

/-- a binding of `time_for_cascade` is never changed -/
theorem step_bound {ts : TimeState} {c t : Nat} (c2 : Nat)
    (h : ∃ p, ts.cascades.find? (fun p => p.1 == c) = some p ∧ p.2 = t) :
    ∃ p, (ts.step c2).cascades.find? (fun p => p.1 == c) = some p ∧ p.2 = t := by
  obtain ⟨p, hp, hpt⟩ := h
  by_cases hc : c2 = 0
  · exact ⟨p, by simpa [TimeState.step, hc] using hp, hpt⟩
  · have hcs : (ts.step c2).cascades = (c2, ts.timeFor c2) :: ts.cascades := by simp [TimeState.step, hc]
    rw [hcs]
    by_cases hcc : c2 = c
    · subst hcc
      refine ⟨(c2, ts.timeFor c2), by simp, ?_⟩
      simp only [TimeState.timeFor, hp]
      exact hpt
    · refine ⟨p, ?_, hpt⟩
      simp only [List.find?_cons]
      have : ((c2, ts.timeFor c2).1 == c) = false := by simp [hcc]
      simp only [this]
      exact hp

theorem npuLoop_bound (sram : Bool) : ∀ (ops : List SchedOp) (ts : TimeState) (c t : Nat),
    (∃ p, ts.cascades.find? (fun p => p.1 == c) = some p ∧ p.2 = t) →
    ∀ (k : Nat) (op : SchedOp) (x : Nat × List Ev), ops[k]? = some op → op.cascade = c →
      (npuLoop sram ops ts).1[k]? = some x → x.1 = t := by
  intro ops
  induction ops with
  | nil => intro ts c t _ k op x h; simp at h
  | cons o os ih =>
    intro ts c t hb k op x hk hc hx
    cases k with
    | zero =>
      simp only [List.getElem?_cons_zero, Option.some.injEq] at hk
      subst hk
      simp only [npuLoop, List.getElem?_cons_zero, Option.some.injEq] at hx
      subst hx
      obtain ⟨p, hp, hpt⟩ := hb
      simp only [TimeState.timeFor, hc, hp]
      exact hpt
    | succ k =>
      simp only [List.getElem?_cons_succ] at hk
      simp only [npuLoop, List.getElem?_cons_succ] at hx
      exact ih (ts.step o.cascade) c t (step_bound o.cascade hb) k op x hk hc hx

/-- operations of one cascade share the time index -/
theorem npuLoop_cascade (sram : Bool) : ∀ (ops : List SchedOp) (ts : TimeState) (i j : Nat) (a b : SchedOp)
    (x y : Nat × List Ev), i < j → ops[i]? = some a → ops[j]? = some b → a.cascade = b.cascade → a.cascade ≠ 0 →
    (npuLoop sram ops ts).1[i]? = some x → (npuLoop sram ops ts).1[j]? = some y → x.1 = y.1 := by
  intro ops
  induction ops with
  | nil => intro ts i j a b x y _ h; simp at h
  | cons o os ih =>
    intro ts i j a b x y hij hi hj hc hne hx hy
    cases j with
    | zero => omega
    | succ j =>
      simp only [List.getElem?_cons_succ] at hj
      simp only [npuLoop, List.getElem?_cons_succ] at hy
      cases i with
      | zero =>
        simp only [List.getElem?_cons_zero, Option.some.injEq] at hi
        subst hi
        simp only [npuLoop, List.getElem?_cons_zero, Option.some.injEq] at hx
        subst hx
        have hb : ∃ p, (ts.step o.cascade).cascades.find? (fun p => p.1 == o.cascade) = some p ∧ p.2 = ts.timeFor o.cascade := by
          refine ⟨(o.cascade, ts.timeFor o.cascade), ?_, rfl⟩
          simp [TimeState.step, hne]
        exact (npuLoop_bound sram os (ts.step o.cascade) o.cascade _ hb j b y hj hc.symm hy).symm
      | succ i =>
        simp only [List.getElem?_cons_succ] at hi
        simp only [npuLoop, List.getElem?_cons_succ] at hx
        exact ih (ts.step o.cascade) i j a b x y (by omega) hi hj hc hne hx hy

/-- an operation outside every cascade gets a fresh index, at least two ticks after every earlier operation -/
theorem npuLoop_fresh (sram : Bool) : ∀ (ops : List SchedOp) (ts : TimeState), ts.Inv →
    ∀ (i j : Nat) (b : SchedOp) (x y : Nat × List Ev), i < j → ops[j]? = some b → b.cascade = 0 →
    (npuLoop sram ops ts).1[i]? = some x → (npuLoop sram ops ts).1[j]? = some y →
    x.1 + 2 ≤ y.1 ∧ ts.current ≤ y.1 := by
  intro ops
  induction ops with
  | nil => intro ts _ i j b x y _ h; simp at h
  | cons o os ih =>
    intro ts hinv i j b x y hij hj hc hx hy
    have hs := step_spec hinv o.cascade
    cases j with
    | zero => omega
    | succ j =>
      simp only [List.getElem?_cons_succ] at hj
      simp only [npuLoop, List.getElem?_cons_succ] at hy
      -- time of a cascade-0 operation reached from any state is that state's current time or later
      have hge : ∀ (ops : List SchedOp) (ts : TimeState), ts.Inv → ∀ (j : Nat) (b : SchedOp) (y : Nat × List Ev),
          ops[j]? = some b → b.cascade = 0 → (npuLoop sram ops ts).1[j]? = some y → ts.current ≤ y.1 := by
        intro ops
        induction ops with
        | nil => intro ts _ j b y h; simp at h
        | cons o os ih2 =>
          intro ts hinv j b y hj hc hy
          have hs := step_spec hinv o.cascade
          cases j with
          | zero =>
            simp only [List.getElem?_cons_zero, Option.some.injEq] at hj
            subst hj
            simp only [npuLoop, List.getElem?_cons_zero, Option.some.injEq] at hy
            subst hy
            rcases timeFor_cases ts o.cascade with ⟨_, ht⟩ | ⟨p, _, hp, hpc, _⟩
            · simp only; omega
            · have := (hinv p hp).1
              omega
          | succ j =>
            simp only [List.getElem?_cons_succ] at hj
            simp only [npuLoop, List.getElem?_cons_succ] at hy
            have := ih2 (ts.step o.cascade) hs.1 j b y hj hc hy
            omega
      have hy2 := hge os (ts.step o.cascade) hs.1 j b y hj hc hy
      cases i with
      | zero =>
        simp only [npuLoop, List.getElem?_cons_zero, Option.some.injEq] at hx
        subst hx
        simp only
        omega
      | succ i =>
        simp only [npuLoop, List.getElem?_cons_succ] at hx
        have := ih (ts.step o.cascade) hs.1 i j b x y (by omega) hj hc hx hy
        omega


/-! ## Fusing -/

theorem apply_fuse_shares {g g' : Graph} (hw : g.WF) (inp out : Tensor) (h : g.apply (.fuse inp out) = .ok g') :
    ∃ i : Nat, g'.lookup inp = some i ∧ (out, i) ∈ g'.ranges := by
  have hg := getOrCreate_spec hw inp
  simp only [Graph.apply] at h
  split at h
  · cases h
  · split at h
    · cases h
    · split at h
      · cases h
      · simp only [Except.ok.injEq] at h
        subst h
        exact ⟨(g.getOrCreate inp).2, lookup_append hg.2.2.1 _ _, by simp⟩

/-- after `fuse_ranges(in, out)` the dict entry of `out` is the range `get_or_create_range(in)` returns, for good -/
theorem run_fuse_shares {evs : List Ev} : ∀ {g g' : Graph}, g.WF → g.run evs = .ok g' →
    ∀ (inp out : Tensor), Ev.fuse inp out ∈ evs → ∃ i : Nat, g'.lookup inp = some i ∧ (out, i) ∈ g'.ranges := by
  induction evs with
  | nil => intro g g' _ _ inp out hm; simp at hm
  | cons e es ih =>
    intro g g' hw h inp out hm
    simp only [Graph.run] at h
    split at h
    · rename_i g1 h1
      have ha := apply_spec hw e h1
      simp only [List.mem_cons] at hm
      rcases hm with hm | hm
      · subst hm
        obtain ⟨i, hi, hmem⟩ := apply_fuse_shares hw inp out h1
        have hle := (run_spec ha.1 h).2
        exact ⟨i, hle.lookup inp i hi, hle.mem _ hmem⟩
      · exact ih ha.1 h inp out hm
    · cases h

/-! ## The walk over the CPU passes -/

theorem npuWalk_current_ge (s : Schedule) (ct : Nat) : ct ≤ (npuWalk s ct).current := by
  have := (npuLoop_times s.sram s.ops { current := ct, cascades := [] } (by intro p hp; simp at hp)).2.1
  simpa [npuWalk] using this

theorem npuWalk_times_lt (s : Schedule) (ct k tk : Nat) (h : (npuWalk s ct).times[k]? = some tk) :
    tk + 2 ≤ (npuWalk s ct).current := by
  have h3 := (npuLoop_times s.sram s.ops { current := ct, cascades := [] } (by intro p hp; simp at hp)).2.2
  simp only [npuWalk, List.getElem?_map] at h
  cases hx : (npuLoop s.sram s.ops { current := ct, cascades := [] }).1[k]? with
  | none => simp [hx] at h
  | some x =>
    simp only [hx, Option.map_some, Option.some.injEq] at h
    subst h
    simpa [npuWalk] using h3 k x hx

theorem passWalk_spec (descend : Bool) (p : CpuPass) (ct : Nat) :
    (passWalk descend p ct).1.entry = ct ∧ ct ≤ (passWalk descend p ct).1.time ∧
    (passWalk descend p ct).1.time ≤ (passWalk descend p ct).2 := by
  unfold passWalk
  split
  · rename_i s _
    exact ⟨rfl, npuWalk_current_ge s ct, Nat.le_refl _⟩
  · exact ⟨rfl, Nat.le_refl _, by simp⟩

theorem cpuLoop_get (descend : Bool) : ∀ (ps : List CpuPass) (ct k : Nat) (p : CpuPass), ps[k]? = some p →
    ∃ ck : Nat, ct ≤ ck ∧ (cpuLoop descend ps ct).1[k]? = some (passWalk descend p ck).1 ∧
      (passWalk descend p ck).2 ≤ (cpuLoop descend ps ct).2 := by
  intro ps
  induction ps with
  | nil => intro ct k p h; simp at h
  | cons q qs ih =>
    intro ct k p h
    have hmono : ∀ (ps : List CpuPass) (ct : Nat), ct ≤ (cpuLoop descend ps ct).2 := by
      intro ps
      induction ps with
      | nil => intro ct; simp [cpuLoop]
      | cons q qs ih2 =>
        intro ct
        have h1 := passWalk_spec descend q ct
        have h2 := ih2 (passWalk descend q ct).2
        simp only [cpuLoop]
        omega
    cases k with
    | zero =>
      simp only [List.getElem?_cons_zero, Option.some.injEq] at h
      subst h
      refine ⟨ct, Nat.le_refl _, by simp [cpuLoop], ?_⟩
      simp only [cpuLoop]
      exact hmono qs _
    | succ k =>
      simp only [List.getElem?_cons_succ] at h
      obtain ⟨ck, h1, h2, h3⟩ := ih (passWalk descend q ct).2 k p h
      have h4 := passWalk_spec descend q ct
      refine ⟨ck, by omega, by simpa [cpuLoop] using h2, by simpa [cpuLoop] using h3⟩

theorem cpuMarks_mem (l : List Tensor) (t : Nat) (x : Tensor) (hx : x ∈ l) (hi : shouldIgnore x = false) :
    Ev.mark x t 1 ∈ cpuMarks l t := by
  simp only [cpuMarks, List.mem_map, List.mem_filter]
  exact ⟨x, ⟨hx, by simp [hi]⟩, rfl⟩

theorem cpuWalk_pass (c : CpuGraph) (ct k : Nat) (p : CpuPass) (h : c.passes[k]? = some p) :
    ∃ ck : Nat, ct ≤ ck ∧ (cpuWalk c ct).passes[k]? = some (passWalk c.descend p ck).1 ∧
      (passWalk c.descend p ck).2 ≤ (cpuWalk c ct).current ∧
      ∀ e ∈ (passWalk c.descend p ck).1.events, e ∈ (cpuWalk c ct).events := by
  obtain ⟨ck, h1, h2, h3⟩ := cpuLoop_get c.descend c.passes ct k p h
  refine ⟨ck, h1, by simpa [cpuWalk] using h2, by simpa [cpuWalk] using h3, ?_⟩
  intro e he
  simp only [cpuWalk, List.mem_append, List.mem_flatMap]
  exact Or.inl (Or.inl ⟨_, List.mem_of_getElem? h2, he⟩)


/-! ## What the graph operations of one scheduled operation establish -/

theorem natCast_max_zero (t : Nat) : max (t : Int) 0 = (t : Int) := by omega

/-- tensors of the pass that the tensor loop does not `continue` past are live during both ticks of the operation -/
theorem opEvents_cover_tensors {evs : List Ev} {g g' : Graph} (hw : g.WF) (hr : g.run evs = .ok g')
    (sram : Bool) (op : SchedOp) (tk : Nat) (hsub : ∀ e ∈ opEvents sram op tk, e ∈ evs)
    (x : Tensor) (hx : x ∈ op.inputs ++ op.outputs ++ op.intermediates)
    (ht : isRolling sram op x = true ∨ isSkipped x = false) : g'.Covers x tk (tk + 1) := by
  have hx' := hx
  simp only [List.mem_append] at hx'
  by_cases hroll : isRolling sram op x = true
  · -- rolling buffer: `set_buffer_size` + `mark_usage`
    have hsome : op.rolling.isSome = true := by
      unfold isRolling at hroll
      simp only [Bool.and_eq_true] at hroll
      exact hroll.2
    obtain ⟨sz, hsz⟩ := Option.isSome_iff_exists.mp hsome
    have he : Ev.rolling x sz tk ∈ opEvents sram op tk := by
      simp only [opEvents, SchedOp.tensors, List.mem_append, List.mem_filterMap]
      refine Or.inl (Or.inr ⟨x, hx', ?_⟩)
      simp [tensorEvent, hroll, hsz]
    exact run_rolling_covers hw hr x sz tk (hsub _ he) (by omega)
  · have hsk : isSkipped x = false := by
      rcases ht with ht | ht
      · exact absurd ht hroll
      · exact ht
    have he : Ev.mark x tk 1 ∈ opEvents sram op tk := by
      simp only [opEvents, SchedOp.tensors, List.mem_append, List.mem_filterMap]
      refine Or.inl (Or.inr ⟨x, hx', ?_⟩)
      simp [tensorEvent, hroll, hsk]
    have := run_mark_covers hw hr x tk 1 (hsub _ he) (by omega)
    rw [natCast_max_zero] at this
    exact this

/-- tick at which the DMA that fills a buffered weight tensor is accounted: the tail tick of the previous
    operation if the scheduler set `pre_buffer`, the operation's own body tick otherwise -/
def dmaTick (w : Tensor) (tk : Nat) : Int := if w.preBuffer then (tk : Int) - 1 else tk

/-- the buffer read by the last depth slice (`len(ofm_depth_slices) % len(buffered_weight_tensors)`) -/
def usedLast (op : SchedOp) (idx : Nat) : Prop :=
  op.buffered.length ≤ 1 ∨ op.nDepthSlices % op.buffered.length = idx

theorem opEvents_cover_buffered {evs : List Ev} {g g' : Graph} (hw : g.WF) (hr : g.run evs = .ok g')
    (sram : Bool) (op : SchedOp) (tk : Nat) (hsub : ∀ e ∈ opEvents sram op tk, e ∈ evs)
    (idx : Nat) (w : Tensor) (hidx : op.buffered[idx]? = some w) (ht : w.inTarget = true) :
    g'.Covers w (max (dmaTick w tk) 0) tk ∧ (usedLast op idx → g'.Covers w (max (dmaTick w tk) 0) (tk + 1)) := by
  have he : Ev.mark w (bufferedWindow op tk idx w).1 (bufferedWindow op tk idx w).2 ∈ opEvents sram op tk := by
    simp only [opEvents, List.mem_append, List.mem_filterMap]
    refine Or.inr ⟨(w, idx), ?_, ?_⟩
    · simp [List.mem_zipIdx_iff_getElem?, hidx]
    · simp [bufferedEvent, ht]
  have hstart : (bufferedWindow op tk idx w).1 = dmaTick w tk := by
    simp only [bufferedWindow, dmaTick]
  have hlen : (tk : Int) ≤ (bufferedWindow op tk idx w).1 + (bufferedWindow op tk idx w).2 ∧
      1 ≤ (bufferedWindow op tk idx w).1 + (bufferedWindow op tk idx w).2 - dmaTick w tk + (if w.preBuffer then 0 else 1) ∧
      (usedLast op idx → (tk : Int) + 1 ≤ (bufferedWindow op tk idx w).1 + (bufferedWindow op tk idx w).2) := by
    have hcontra : (decide (op.buffered.length > 1) && (op.nDepthSlices % op.buffered.length != idx)) = true →
        usedLast op idx → False := by
      intro hn hu
      simp only [Bool.and_eq_true, decide_eq_true_eq, bne_iff_ne, ne_eq] at hn
      rcases hu with hu | hu
      · have := hn.1; omega
      · exact hn.2 hu
    simp only [bufferedWindow, dmaTick]
    cases hpb : w.preBuffer <;>
      cases hn : (decide (op.buffered.length > 1) && (op.nDepthSlices % op.buffered.length != idx)) <;>
      simp only [Bool.false_eq_true, if_false, if_true] <;>
      refine ⟨by omega, by omega, ?_⟩ <;> intro hu
    · omega
    · exact (hcontra hn hu).elim
    · omega
    · exact (hcontra hn hu).elim
  have hnd : max (bufferedWindow op tk idx w).1 0 ≤ (bufferedWindow op tk idx w).1 + (bufferedWindow op tk idx w).2 := by
    rw [hstart]
    have := hlen.1
    rw [hstart] at this
    have h2 := hlen.2.1
    rw [hstart] at h2
    unfold dmaTick at *
    cases hpb : w.preBuffer <;> simp only [hpb, Bool.false_eq_true, if_false, if_true] at * <;> omega
  have hc := run_mark_covers hw hr w _ _ (hsub _ he) hnd
  rw [hstart] at hc
  refine ⟨covers_weaken hc (Int.le_refl _) (by have := hlen.1; rw [hstart] at this; exact this), ?_⟩
  intro hu
  exact covers_weaken hc (Int.le_refl _) (by have := hlen.2.2 hu; rw [hstart] at this; exact this)

/-! ## Counting readers -/

theorem filter_two {α : Type} (p : α → Bool) : ∀ (l : List α) (i j : Nat) (a b : α), i ≠ j →
    l[i]? = some a → l[j]? = some b → p a = true → p b = true → 2 ≤ (l.filter p).length := by
  intro l
  induction l with
  | nil => intro i j a b _ h; simp at h
  | cons x xs ih =>
    intro i j a b hij hi hj ha hb
    have one : ∀ (k : Nat) (c : α), xs[k]? = some c → p c = true → 1 ≤ (xs.filter p).length := by
      intro k c hk hc
      exact List.length_filter_pos_iff.mpr ⟨c, List.mem_of_getElem? hk, hc⟩
    cases i with
    | zero =>
      cases j with
      | zero => omega
      | succ j =>
        simp only [List.getElem?_cons_zero, Option.some.injEq] at hi
        simp only [List.getElem?_cons_succ] at hj
        subst hi
        have := one j b hj hb
        simp only [List.filter_cons, ha, if_true, List.length_cons]
        omega
    | succ i =>
      simp only [List.getElem?_cons_succ] at hi
      cases j with
      | zero =>
        simp only [List.getElem?_cons_zero, Option.some.injEq] at hj
        subst hj
        have := one i a hi ha
        simp only [List.filter_cons, hb, if_true, List.length_cons]
        omega
      | succ j =>
        simp only [List.getElem?_cons_succ] at hj
        have := ih i j a b (by omega) hi hj ha hb
        simp only [List.filter_cons]
        split
        · simp only [List.length_cons]; omega
        · exact this

/-! ## Appending the final sweep -/

theorem run_append (a b : List Ev) : ∀ g : Graph, g.run (a ++ b) =
    (match g.run a with | .ok g1 => g1.run b | .error e => .error e) := by
  induction a with
  | nil => intro g; simp [Graph.run]
  | cons e es ih =>
    intro g
    simp only [List.cons_append, Graph.run]
    cases g.apply e with
    | error err => rfl
    | ok g1 => exact ih g1

/-- every time index of a walk that starts with an empty `time_for_cascade` is at or after the start time -/
theorem npuLoop_ge (sram : Bool) (lo : Nat) : ∀ (ops : List SchedOp) (ts : TimeState),
    (∀ p ∈ ts.cascades, lo ≤ p.2) → lo ≤ ts.current → ts.Inv →
    ∀ (k : Nat) (x : Nat × List Ev), (npuLoop sram ops ts).1[k]? = some x → lo ≤ x.1 := by
  intro ops
  induction ops with
  | nil => intro ts _ _ _ k x h; simp [npuLoop] at h
  | cons o os ih =>
    intro ts hb hc hinv k x hx
    have htf : lo ≤ ts.timeFor o.cascade := by
      rcases timeFor_cases ts o.cascade with ⟨_, ht⟩ | ⟨p, _, hp, _, ht⟩
      · omega
      · have := hb p hp; omega
    cases k with
    | zero =>
      simp only [npuLoop, List.getElem?_cons_zero, Option.some.injEq] at hx
      subst hx
      exact htf
    | succ k =>
      simp only [npuLoop, List.getElem?_cons_succ] at hx
      have hs := step_spec hinv o.cascade
      refine ih (ts.step o.cascade) ?_ (by omega) hs.1 k x hx
      intro p hp
      by_cases hc0 : o.cascade = 0
      · have : (ts.step o.cascade).cascades = ts.cascades := by simp [TimeState.step, hc0]
        rw [this] at hp
        exact hb p hp
      · have : (ts.step o.cascade).cascades = (o.cascade, ts.timeFor o.cascade) :: ts.cascades := by
          simp [TimeState.step, hc0]
        rw [this] at hp
        simp only [List.mem_cons] at hp
        rcases hp with hp | hp
        · subst hp; exact htf
        · exact hb p hp

theorem npuWalk_times_ge (s : Schedule) (ct k tk : Nat) (h : (npuWalk s ct).times[k]? = some tk) : ct ≤ tk := by
  simp only [npuWalk, List.getElem?_map] at h
  cases hx : (npuLoop s.sram s.ops { current := ct, cascades := [] }).1[k]? with
  | none => simp [hx] at h
  | some x =>
    simp only [hx, Option.map_some, Option.some.injEq] at h
    subst h
    exact npuLoop_ge s.sram ct s.ops { current := ct, cascades := [] } (by intro p hp; simp at hp) (Nat.le_refl _)
      (by intro p hp; simp at hp) k x hx


/-! ## Unfolding the two entry points -/

theorem extractNpu_ok {s : Schedule} {g : Graph} {ct : Nat} {res : NpuResult} (h : extractNpu s g ct = .ok res) :
    ∃ g' : Graph, g.run (npuWalk s ct).events = .ok g' ∧
      res = { graph := g', current := (npuWalk s ct).current, times := (npuWalk s ct).times } := by
  simp only [extractNpu] at h
  split at h
  · rename_i g' hr
    simp only [Except.ok.injEq] at h
    exact ⟨g', hr, h.symm⟩
  · cases h

theorem extractCpu_ok {c : CpuGraph} {g : Graph} {ct : Nat} {res : CpuResult} (h : extractCpu c g ct = .ok res) :
    ∃ g' : Graph, g.run (cpuWalk c ct).events = .ok g' ∧
      res = { graph := g', current := (cpuWalk c ct).current, passes := (cpuWalk c ct).passes } := by
  simp only [extractCpu] at h
  split at h
  · rename_i g' hr
    simp only [Except.ok.injEq] at h
    exact ⟨g', hr, h.symm⟩
  · cases h


/-! ## Tightness: a range is no wider than the hull of the marks it received -/

theorem hits_le {g g' : Graph} (h : g.Le g') {e : Ev} {i : Nat} {lo hi : Int} (hh : e.Hits g i lo hi) :
    e.Hits g' i lo hi := by
  cases e with
  | mark t a b => exact ⟨h.lookup t i hh.1, hh.2⟩
  | rolling t sz a => exact ⟨h.lookup t i hh.1, hh.2⟩
  | markVars len =>
    obtain ⟨⟨t, ht, hv⟩, rest⟩ := hh
    exact ⟨⟨t, h.mem _ ht, hv⟩, rest⟩
  | fuse a b => exact hh
  | fail => exact hh

theorem markUsage_cases (r : LR) (a b : Int) :
    ((r.markUsage a b).start = r.start ∨ (max a 0 ≤ a + b ∧ (r.markUsage a b).start = max a 0)) ∧
    ((r.markUsage a b).end_ = r.end_ ∨ (max a 0 ≤ a + b ∧ (r.markUsage a b).end_ = a + b)) := by
  unfold LR.markUsage
  simp only
  split
  · exact ⟨Or.inl rfl, Or.inl rfl⟩
  · rename_i hnd
    have hnd' : max a 0 ≤ a + b := by omega
    refine ⟨?_, ?_⟩
    · simp only
      by_cases hm : r.start ≤ max a 0
      · exact Or.inl (by omega)
      · exact Or.inr ⟨hnd', by omega⟩
    · simp only
      by_cases hm : a + b ≤ r.end_
      · exact Or.inl (by omega)
      · exact Or.inr ⟨hnd', by omega⟩

theorem getOrCreate_lrs {g : Graph} (t : Tensor) (i : Nat) (r : LR) (h : (g.getOrCreate t).1.lrs[i]? = some r) :
    g.lrs[i]? = some r ∨ (g.lrs[i]? = none ∧ r.start = startInit ∧ r.end_ = endInit) := by
  unfold Graph.getOrCreate at h
  cases hl : g.lookup t with
  | some j => simp only [hl] at h; exact Or.inl h
  | none =>
    simp only [hl] at h
    rcases Nat.lt_or_ge i g.lrs.length with hi | hi
    · rw [List.getElem?_append_left hi] at h
      exact Or.inl h
    · rw [List.getElem?_append_right hi] at h
      refine Or.inr ⟨List.getElem?_eq_none hi, ?_⟩
      cases hk : i - g.lrs.length with
      | zero =>
        simp only [hk, List.getElem?_cons_zero, Option.some.injEq] at h
        subst h
        exact ⟨rfl, rfl⟩
      | succ k => simp [hk] at h


/-- where start and end of range `i` come from after one step: unchanged, a fresh range, or a hit of the step -/
def TightStep (g : Graph) (hit : Int → Int → Prop) (i : Nat) (r1 : LR) : Prop :=
  ((∃ r0 : LR, g.lrs[i]? = some r0 ∧ r0.start = r1.start) ∨ (g.lrs[i]? = none ∧ r1.start = startInit) ∨
     (∃ lo hi, hit lo hi ∧ lo = r1.start)) ∧
  ((∃ r0 : LR, g.lrs[i]? = some r0 ∧ r0.end_ = r1.end_) ∨ (g.lrs[i]? = none ∧ r1.end_ = endInit) ∨
     (∃ lo hi, hit lo hi ∧ hi = r1.end_))

theorem tight_of_unchanged {g : Graph} {hit : Int → Int → Prop} {i : Nat} {r r1 : LR}
    (h : g.lrs[i]? = some r ∨ (g.lrs[i]? = none ∧ r.start = startInit ∧ r.end_ = endInit))
    (hs : r1.start = r.start) (he : r1.end_ = r.end_) : TightStep g hit i r1 := by
  rcases h with h | ⟨h, h1, h2⟩
  · exact ⟨Or.inl ⟨r, h, hs.symm⟩, Or.inl ⟨r, h, he.symm⟩⟩
  · exact ⟨Or.inr (Or.inl ⟨h, by omega⟩), Or.inr (Or.inl ⟨h, by omega⟩)⟩

/-- `get_or_create_range(t)` followed by `mark_usage(a, b)` on that range (size possibly reset first) -/
theorem getOrCreate_mark_tight {g : Graph} (t : Tensor) (a b : Int) (pre : LR → LR)
    (hpre : ∀ r : LR, (pre r).start = r.start ∧ (pre r).end_ = r.end_) (i : Nat) (r1 : LR)
    (h : ((g.getOrCreate t).1.lrs.modify (g.getOrCreate t).2 (fun r => (pre r).markUsage a b))[i]? = some r1) :
    TightStep g (fun lo hi => (g.getOrCreate t).2 = i ∧ max a 0 ≤ a + b ∧ lo = max a 0 ∧ hi = a + b) i r1 := by
  simp only [List.getElem?_modify] at h
  cases h0 : (g.getOrCreate t).1.lrs[i]? with
  | none => simp [h0] at h
  | some r0 =>
    simp only [h0, Option.map_eq_map, Option.map_some, Option.some.injEq] at h
    have hg := getOrCreate_lrs t i r0 h0
    by_cases hji : (g.getOrCreate t).2 = i
    · simp only [hji, if_true] at h
      subst h
      have hc := markUsage_cases (pre r0) a b
      have hp := hpre r0
      refine ⟨?_, ?_⟩
      · rcases hc.1 with hc1 | ⟨hnd, hc1⟩
        · rcases hg with hg | ⟨hg, h1, h2⟩
          · exact Or.inl ⟨r0, hg, by omega⟩
          · exact Or.inr (Or.inl ⟨hg, by omega⟩)
        · exact Or.inr (Or.inr ⟨max a 0, a + b, ⟨hji, hnd, rfl, rfl⟩, hc1.symm⟩)
      · rcases hc.2 with hc1 | ⟨hnd, hc1⟩
        · rcases hg with hg | ⟨hg, h1, h2⟩
          · exact Or.inl ⟨r0, hg, by omega⟩
          · exact Or.inr (Or.inl ⟨hg, by omega⟩)
        · exact Or.inr (Or.inr ⟨max a 0, a + b, ⟨hji, hnd, rfl, rfl⟩, hc1.symm⟩)
    · simp only [hji, if_false] at h
      subst h
      exact tight_of_unchanged hg rfl rfl


theorem foldl_modify_tight (len : Int) (ps : List (Tensor × Nat)) : ∀ (lrs : List LR) (i : Nat) (r1 : LR),
    (ps.foldl (fun lrs p => if p.1.isVariable then lrs.modify p.2 (fun r => r.markUsage 0 len) else lrs) lrs)[i]? = some r1 →
    ∃ r0 : LR, lrs[i]? = some r0 ∧
      (r0.start = r1.start ∨ (0 ≤ len ∧ (∃ p ∈ ps, p.2 = i ∧ p.1.isVariable = true) ∧ r1.start = 0)) ∧
      (r0.end_ = r1.end_ ∨ (0 ≤ len ∧ (∃ p ∈ ps, p.2 = i ∧ p.1.isVariable = true) ∧ r1.end_ = len)) := by
  induction ps with
  | nil => intro lrs i r1 h; exact ⟨r1, by simpa using h, Or.inl rfl, Or.inl rfl⟩
  | cons p ps ih =>
    intro lrs i r1 h
    simp only [List.foldl_cons] at h
    obtain ⟨r0', h0', hs, he⟩ := ih _ i r1 h
    have lift : ∀ {P : Prop}, (0 ≤ len ∧ (∃ q ∈ ps, q.2 = i ∧ q.1.isVariable = true) ∧ P) →
        (0 ≤ len ∧ (∃ q ∈ p :: ps, q.2 = i ∧ q.1.isVariable = true) ∧ P) := by
      intro P ⟨h1, ⟨q, hq, hq2⟩, h3⟩
      exact ⟨h1, ⟨q, List.mem_cons_of_mem _ hq, hq2⟩, h3⟩
    by_cases hv : p.1.isVariable = true
    · simp only [hv, if_true, List.getElem?_modify] at h0'
      cases hl : lrs[i]? with
      | none => simp [hl] at h0'
      | some r0 =>
        simp only [hl, Option.map_eq_map, Option.map_some, Option.some.injEq] at h0'
        by_cases hpi : p.2 = i
        · simp only [hpi, if_true] at h0'
          subst h0'
          have hc := markUsage_cases r0 0 len
          have hm : max (0 : Int) 0 = 0 := by omega
          have hit : ∃ q ∈ p :: ps, q.2 = i ∧ q.1.isVariable = true := ⟨p, by simp, hpi, hv⟩
          refine ⟨r0, rfl, ?_, ?_⟩
          · rcases hs with hs | hs
            · rcases hc.1 with hc1 | ⟨hnd, hc1⟩
              · exact Or.inl (by omega)
              · exact Or.inr ⟨by omega, hit, by omega⟩
            · exact Or.inr (lift hs)
          · rcases he with he | he
            · rcases hc.2 with hc1 | ⟨hnd, hc1⟩
              · exact Or.inl (by omega)
              · exact Or.inr ⟨by omega, hit, by omega⟩
            · exact Or.inr (lift he)
        · simp only [hpi, if_false] at h0'
          subst h0'
          exact ⟨r0, rfl, hs.imp id lift, he.imp id lift⟩
    · simp only [hv] at h0'
      exact ⟨r0', h0', hs.imp id lift, he.imp id lift⟩

theorem apply_tight {g g1 : Graph} (hw : g.WF) (e : Ev) (h : g.apply e = .ok g1) (i : Nat) (r1 : LR)
    (hr1 : g1.lrs[i]? = some r1) : TightStep g (fun lo hi => e.Hits g1 i lo hi) i r1 := by
  cases e with
  | mark t a b =>
    simp only [Graph.apply, Except.ok.injEq] at h
    subst h
    have hg := getOrCreate_spec hw t
    have := getOrCreate_mark_tight t a b id (fun r => ⟨rfl, rfl⟩) i r1 hr1
    have hl : ({ lrs := (g.getOrCreate t).1.lrs.modify (g.getOrCreate t).2 (fun r => r.markUsage a b),
                 ranges := (g.getOrCreate t).1.ranges } : Graph).lookup t = some (g.getOrCreate t).2 := hg.2.2.1
    refine ⟨this.1.imp id (Or.imp id ?_), this.2.imp id (Or.imp id ?_)⟩ <;>
    · rintro ⟨lo, hi, ⟨hji, hnd, hlo, hhi⟩, heq⟩
      exact ⟨lo, hi, ⟨by rw [← hji]; exact hl, hnd, hlo, hhi⟩, heq⟩
  | rolling t size a =>
    simp only [Graph.apply, Except.ok.injEq] at h
    subst h
    have hg := getOrCreate_spec hw t
    have := getOrCreate_mark_tight t a 1 (fun r => r.setBufferSize size) (fun r => ⟨rfl, rfl⟩) i r1 hr1
    have hl : ({ lrs := (g.getOrCreate t).1.lrs.modify (g.getOrCreate t).2 (fun r => (r.setBufferSize size).markUsage a 1),
                 ranges := (g.getOrCreate t).1.ranges } : Graph).lookup t = some (g.getOrCreate t).2 := hg.2.2.1
    refine ⟨this.1.imp id (Or.imp id ?_), this.2.imp id (Or.imp id ?_)⟩ <;>
    · rintro ⟨lo, hi, ⟨hji, hnd, hlo, hhi⟩, heq⟩
      exact ⟨lo, hi, ⟨by rw [← hji]; exact hl, hnd, hlo, hhi⟩, heq⟩
  | fuse inp out =>
    simp only [Graph.apply] at h
    split at h
    · cases h
    · split at h
      · cases h
      · rename_i r hr
        split at h
        · cases h
        · rename_i r' hr'
          simp only [Except.ok.injEq] at h
          subst h
          have hse : r'.start = r.start ∧ r'.end_ = r.end_ := by
            unfold LR.addTensor at hr'
            split at hr'
            · cases hr'; exact ⟨rfl, rfl⟩
            · split at hr'
              · cases hr'
              · cases hr'; exact ⟨rfl, rfl⟩
          simp only [List.getElem?_set] at hr1
          by_cases hji : (g.getOrCreate inp).2 = i
          · subst hji
            have hlt : (g.getOrCreate inp).2 < (g.getOrCreate inp).1.lrs.length := (getOrCreate_spec hw inp).2.2.2
            simp only [if_true, hlt, Option.some.injEq] at hr1
            subst hr1
            exact tight_of_unchanged (getOrCreate_lrs inp _ r hr) hse.1 hse.2
          · simp only [hji, if_false] at hr1
            exact tight_of_unchanged (getOrCreate_lrs inp i r1 hr1) rfl rfl
  | markVars len =>
    simp only [Graph.apply, Except.ok.injEq] at h
    subst h
    obtain ⟨r0, h0, hs, he⟩ := foldl_modify_tight len g.ranges g.lrs i r1 hr1
    refine ⟨?_, ?_⟩
    · rcases hs with hs | ⟨hl, ⟨p, hp, hpi, hv⟩, h0s⟩
      · exact Or.inl ⟨r0, h0, hs⟩
      · refine Or.inr (Or.inr ⟨0, len, ⟨⟨p.1, ?_, hv⟩, hl, rfl, rfl⟩, h0s.symm⟩)
        rw [← hpi]; exact hp
    · rcases he with he | ⟨hl, ⟨p, hp, hpi, hv⟩, h0e⟩
      · exact Or.inl ⟨r0, h0, he⟩
      · refine Or.inr (Or.inr ⟨0, len, ⟨⟨p.1, ?_, hv⟩, hl, rfl, rfl⟩, h0e.symm⟩)
        rw [← hpi]; exact hp
  | fail => simp [Graph.apply] at h


theorem none_of_le_none {g g1 : Graph} (h : g.Le g1) {i : Nat} (h1 : g1.lrs[i]? = none) : g.lrs[i]? = none := by
  cases hg : g.lrs[i]? with
  | none => rfl
  | some r =>
    obtain ⟨r', hr', _⟩ := h.lrs i r hg
    rw [h1] at hr'
    cases hr'

/-- **Tightness of the walk.** Start and end of every range of the final graph are either what they were in the
    initial graph, or the sentinels of a range the walk created and never marked, or attained by one of the walk's
    `mark_usage` calls on that very range. -/
theorem run_tight {evs : List Ev} : ∀ {g g' : Graph}, g.WF → g.run evs = .ok g' →
    ∀ (i : Nat) (r' : LR), g'.lrs[i]? = some r' → TightStep g (fun lo hi => ∃ e ∈ evs, e.Hits g' i lo hi) i r' := by
  induction evs with
  | nil =>
    intro g g' _ h i r' hr'
    simp only [Graph.run, Except.ok.injEq] at h
    subst h
    exact ⟨Or.inl ⟨r', hr', rfl⟩, Or.inl ⟨r', hr', rfl⟩⟩
  | cons e es ih =>
    intro g g' hw h i r' hr'
    simp only [Graph.run] at h
    split at h
    · rename_i g1 h1
      have ha := apply_spec hw e h1
      have hle := (run_spec ha.1 h).2
      have hi := ih ha.1 h i r' hr'
      refine ⟨?_, ?_⟩
      · rcases hi.1 with ⟨r1, hr1, hs⟩ | ⟨hn, hs⟩ | ⟨lo, hi', ⟨e', he', hh⟩, hs⟩
        · rcases (apply_tight hw e h1 i r1 hr1).1 with ⟨r0, hr0, hs0⟩ | ⟨hn0, hs0⟩ | ⟨lo, hi', hh, hs0⟩
          · exact Or.inl ⟨r0, hr0, by omega⟩
          · exact Or.inr (Or.inl ⟨hn0, by omega⟩)
          · exact Or.inr (Or.inr ⟨lo, hi', ⟨e, by simp, hits_le hle hh⟩, by omega⟩)
        · exact Or.inr (Or.inl ⟨none_of_le_none ha.2 hn, hs⟩)
        · exact Or.inr (Or.inr ⟨lo, hi', ⟨e', List.mem_cons_of_mem _ he', hh⟩, hs⟩)
      · rcases hi.2 with ⟨r1, hr1, hs⟩ | ⟨hn, hs⟩ | ⟨lo, hi', ⟨e', he', hh⟩, hs⟩
        · rcases (apply_tight hw e h1 i r1 hr1).2 with ⟨r0, hr0, hs0⟩ | ⟨hn0, hs0⟩ | ⟨lo, hi', hh, hs0⟩
          · exact Or.inl ⟨r0, hr0, by omega⟩
          · exact Or.inr (Or.inl ⟨hn0, by omega⟩)
          · exact Or.inr (Or.inr ⟨lo, hi', ⟨e, by simp, hits_le hle hh⟩, by omega⟩)
        · exact Or.inr (Or.inl ⟨none_of_le_none ha.2 hn, hs⟩)
        · exact Or.inr (Or.inr ⟨lo, hi', ⟨e', List.mem_cons_of_mem _ he', hh⟩, hs⟩)
    · cases h


theorem npuLoop_origin (sram : Bool) : ∀ (ops : List SchedOp) (ts : TimeState) (k : Nat) (x : Nat × List Ev),
    (npuLoop sram ops ts).1[k]? = some x → ∃ op : SchedOp, ops[k]? = some op ∧ x.2 = opEvents sram op x.1 := by
  intro ops
  induction ops with
  | nil => intro ts k x h; simp [npuLoop] at h
  | cons o os ih =>
    intro ts k x h
    cases k with
    | zero =>
      simp only [npuLoop, List.getElem?_cons_zero, Option.some.injEq] at h
      subst h
      exact ⟨o, rfl, rfl⟩
    | succ k =>
      simp only [npuLoop, List.getElem?_cons_succ] at h
      obtain ⟨op, h1, h2⟩ := ih (ts.step o.cascade) k x h
      exact ⟨op, by simpa using h1, h2⟩

/-- every graph operation of the walk belongs to one scheduled operation (at its time index) or is the final mark
    of a subgraph output -/
theorem npuWalk_event_origin (s : Schedule) (ct : Nat) (e : Ev) (he : e ∈ (npuWalk s ct).events) :
    (∃ (k : Nat) (op : SchedOp) (tk : Nat), s.ops[k]? = some op ∧ (npuWalk s ct).times[k]? = some tk ∧
        e ∈ opEvents s.sram op tk) ∨
    e ∈ outputEvents s.outputs (npuWalk s ct).current := by
  simp only [npuWalk, List.mem_append, List.mem_flatMap] at he
  rcases he with ⟨x, hx, hex⟩ | he
  · obtain ⟨k, hk, hkx⟩ := List.getElem_of_mem hx
    have hk' : (npuLoop s.sram s.ops { current := ct, cascades := [] }).1[k]? = some x := by
      simp [List.getElem?_eq_getElem hk, hkx]
    obtain ⟨op, hop, hev⟩ := npuLoop_origin s.sram s.ops _ k x hk'
    refine Or.inl ⟨k, op, x.1, hop, ?_, by rw [← hev]; exact hex⟩
    simp [npuWalk, List.getElem?_map, hk']
  · exact Or.inr he


end VelaVerif.LiveRange
