import VelaVerif.Lemmas.PyRt
import VelaVerif.Lemmas.FpMath
import VelaVerif.Gen.SrcFpMath
/-!
# The translated `fp_math.py` (`Gen/SrcFpMath.lean`) computes what the hand model `Model/FpMath.lean` computes

For the primitives a pair of *specification lemmas* with the same right-hand side: one for the
translated function applied to operands of the tags that occur (Python `int`, `np.int32`, `np.int64`),
one for the hand model.  Both are total (`if` on the range conditions), so they are unconditional
rewrite rules up to the tag invariants; results carry their int32 range as `wrap .i32 _` (an identity
there), which is what lets `omega` see that later 64-bit sums do not wrap.  Callers are then proved by
running both sides (`py_exec`) and splitting the common `if`s (`py_finish`).
-/
namespace VelaVerif.SrcFpMath
open VelaVerif VelaVerif.PyRt VelaVerif.FpMath
open VelaVerif.Gen.SrcFpMath

/-- how an error of the translated source relates to an error of `Model/FpMath.lean`: the model maps an
    exception raised on an `assert` line (`OverflowError` of `np.int32(python int)`) to `assert_` -/
def errRel : PyRt.Err → FpMath.Err → Prop
  | .assert_, .assert_ => True
  | .overflow, .assert_ => True
  | .overflow, .overflow => True
  | .value, .value => True
  | _, _ => False

theorem prod32_i64 (a b : Int) (ha : Ty.fits .i32 a) (hb : Ty.fits .i32 b) :
    -4611686018427387904 ≤ a * b ∧ a * b ≤ 4611686018427387904 := by
  simp only [Ty.fits] at ha hb
  have := mul_bounds 2147483648 2147483648 a b ha.1 (by omega) hb.1 (by omega)
  omega

theorem prod16_i32 (a b : Int) (ha : Ty.fits .i16 a) (hb : Ty.fits .i16 b) :
    -1073741824 ≤ a * b ∧ a * b ≤ 1073741824 := by
  simp only [Ty.fits] at ha hb
  have := mul_bounds 32768 32768 a b ha.1 (by omega) hb.1 (by omega)
  omega

/-- the rounding multiplication of two int32 values that are not both `INT_MIN` fits int32 again -/
theorem rmb31_fits (a b : Int) (ha : Ty.fits .i32 a) (hb : Ty.fits .i32 b) (hne : ¬ (a = b ∧ a = -2147483648)) :
    Ty.fits .i32 (roundingMulBody (a * b) 31) := by
  simp only [Ty.fits] at ha hb ⊢
  have hp := prod32_bounds a b ha.1 ha.2 hb.1 hb.2 (by omega)
  generalize a * b = ab at hp
  simp only [roundingMulBody, Nat.reduceSub, Int.reducePow]
  split
  · omega
  · split <;> omega

/-! ## `saturating_rounding_mul32` -/

/-- common right-hand side of `srm32_spec` (translated source, error kinds `ea`, `eb`) and `msrm32_spec` (model) -/
def srm32Out {ε : Type} (ea eb : ε) (tag1 tag2 : Ty) (a b : Int) : Except ε Num :=
  if ¬ Ty.fits .i32 a then .error ea
  else if ¬ Ty.fits .i32 b then .error eb
  else if a = b ∧ a = -2147483648 then .ok ⟨tag1, 2147483647⟩
  else .ok ⟨tag2, W32 (roundingMulBody (a * b) 31)⟩

theorem srm32_spec (ta tb : Ty) (a b : Int) (hta : T3 ta) (htb : T3 tb) (ha : ta.fits a) (hb : tb.fits b) :
    saturating_rounding_mul32 ⟨ta, a⟩ ⟨tb, b⟩ =
      if ¬ Ty.fits .i32 a then .error (castErr ta)
      else if ¬ Ty.fits .i32 b then .error (castErr tb)
      else if a = b ∧ a = -2147483648 then .ok ⟨.i32, 2147483647⟩
      else .ok ⟨.i64, W32 (roundingMulBody (a * b) 31)⟩ := by
  by_cases h1 : Ty.fits .i32 a
  · by_cases h2 : Ty.fits .i32 b
    · have hp := prod32_i64 a b h1 h2
      rw [if_neg (not_not.2 h1), if_neg (not_not.2 h2)]
      by_cases hne : a = b ∧ a = -2147483648
      · rw [if_pos hne]
        rcases hta with rfl | rfl | rfl <;> rcases htb with rfl | rfl | rfl <;>
        · simp only [Ty.fits] at h1 h2
          py_exec [saturating_rounding_mul32]
          py_finish
      · rw [if_neg hne, W32_id _ (rmb31_fits a b h1 h2 hne)]
        rcases hta with rfl | rfl | rfl <;> rcases htb with rfl | rfl | rfl <;>
        · simp only [Ty.fits] at h1 h2
          py_exec [saturating_rounding_mul32, roundingMulBody]
          py_finish
    · rw [if_neg (not_not.2 h1), if_pos h2]
      rcases hta with rfl | rfl | rfl <;> rcases htb with rfl | rfl | rfl <;>
      · simp only [Ty.fits] at h1 h2 hb
        first
          | omega
          | (py_exec [saturating_rounding_mul32]
             try py_finish)
  · rw [if_pos h1]
    rcases hta with rfl | rfl | rfl <;>
    · simp only [Ty.fits] at h1 ha
      first
        | omega
        | (py_exec [saturating_rounding_mul32]
           try py_finish)

/-- `srm32_spec` as a rewrite rule: the tag invariants in a form the discharger proves for every tag -/
theorem srm32_rw (ta tb : Ty) (a b : Int) (hta : T3 ta) (htb : T3 tb)
    (ha : ta = .py ∨ ta.fits a) (hb : tb = .py ∨ tb.fits b) :
    saturating_rounding_mul32 ⟨ta, a⟩ ⟨tb, b⟩ =
      if ¬ Ty.fits .i32 a then .error (castErr ta)
      else if ¬ Ty.fits .i32 b then .error (castErr tb)
      else if a = b ∧ a = -2147483648 then .ok ⟨.i32, 2147483647⟩
      else .ok ⟨.i64, W32 (roundingMulBody (a * b) 31)⟩ := by
  apply srm32_spec _ _ _ _ hta htb
  · rcases ha with rfl | h
    · trivial
    · exact h
  · rcases hb with rfl | h
    · trivial
    · exact h

/-- the same when one operand is known not to be `INT_MIN` (a literal multiplier, ...): no case split -/
theorem srm32_rw_ne (ta tb : Ty) (a b : Int) (hta : T3 ta) (htb : T3 tb)
    (ha : ta = .py ∨ ta.fits a) (hb : tb = .py ∨ tb.fits b) (hne : a ≠ -2147483648 ∨ b ≠ -2147483648) :
    saturating_rounding_mul32 ⟨ta, a⟩ ⟨tb, b⟩ =
      if ¬ Ty.fits .i32 a then .error (castErr ta)
      else if ¬ Ty.fits .i32 b then .error (castErr tb)
      else .ok ⟨.i64, W32 (roundingMulBody (a * b) 31)⟩ := by
  rw [srm32_rw ta tb a b hta htb ha hb, if_neg (by omega : ¬ (a = b ∧ a = -2147483648))]

/-! ## `rounding_divide_by_pot` -/

/-- value of `rounding_divide_by_pot(x, e)` for `e ≥ 0` -/
def rdbpVal (x e : Int) : Int :=
  x / 2 ^ e.toNat + (if x % 2 ^ e.toNat > (2 ^ e.toNat - 1) / 2 + (if x < 0 then 1 else 0) then 1 else 0)

theorem ediv_two_pow_bounds (x : Int) (n : Nat) (hx : Ty.fits .i32 x) :
    -2147483648 ≤ x / 2 ^ n ∧ x / 2 ^ n ≤ 2147483647 ∧ (2 ≤ (2:Int) ^ n → x / 2 ^ n ≤ 1073741823) := by
  simp only [Ty.fits] at hx
  have hp : (0:Int) < 2 ^ n := Int.pow_pos (by decide)
  refine ⟨?_, ?_, ?_⟩
  · have : (-2147483648 : Int) ≤ x / 2 ^ n := by
      rw [Int.le_ediv_iff_mul_le hp]
      by_cases h : 0 ≤ x
      · nlinarith
      · nlinarith
    exact this
  · rw [← Int.lt_add_one_iff, Int.ediv_lt_iff_lt_mul hp]; nlinarith
  · intro h2
    rw [← Int.lt_add_one_iff, Int.ediv_lt_iff_lt_mul hp]; nlinarith

theorem rdbpVal_fits (x e : Int) (hx : Ty.fits .i32 x) : Ty.fits .i32 (rdbpVal x e) := by
  have hb := ediv_two_pow_bounds x e.toNat hx
  have hp : (0:Int) < 2 ^ e.toNat := Int.pow_pos (by decide)
  have hm := Int.emod_nonneg x (Int.ne_of_gt hp)
  have hm2 := Int.emod_lt_of_pos x hp
  simp only [Ty.fits] at hx ⊢
  unfold rdbpVal
  generalize (2:Int) ^ e.toNat = p at *
  split
  · split <;> omega
  · omega

theorem two_pow_le_of_le (e : Int) (k : Nat) (h : e ≤ k) : (2:Int) ^ e.toNat ≤ 2 ^ k := by
  have : e.toNat ≤ k := by omega
  have h2 : (2:Nat) ^ e.toNat ≤ 2 ^ k := Nat.pow_le_pow_right (by decide) this
  exact_mod_cast h2

theorem rdbp_spec (tx : Ty) (x e : Int) (htx : T3 tx) (hx : tx.fits x) :
    rounding_divide_by_pot ⟨tx, x⟩ ⟨.py, e⟩ =
      if ¬ Ty.fits .i32 x then .error (castErr tx)
      else if ¬ Ty.fits .i32 e then .error .overflow
      else if e < 0 then .error .value
      else .ok ⟨.py, W32 (rdbpVal x e)⟩ := by
  have hp : (0:Int) < 2 ^ e.toNat := Int.pow_pos (by decide)
  have hm := Int.emod_nonneg x (Int.ne_of_gt hp)
  have hm2 := Int.emod_lt_of_pos x hp
  by_cases h1 : Ty.fits .i32 x
  · have hv := rdbpVal_fits x e h1
    have hb := ediv_two_pow_bounds x e.toNat h1
    rw [if_neg (not_not.2 h1), W32_id _ hv]
    by_cases h2 : Ty.fits .i32 e
    · rw [if_neg (not_not.2 h2)]
      by_cases h3 : e < 0
      · rw [if_pos h3]
        rcases htx with rfl | rfl | rfl <;>
        · simp only [Ty.fits] at h1 h2
          py_exec [rounding_divide_by_pot]
          py_finish
      · rw [if_neg h3]
        unfold rdbpVal
        rcases htx with rfl | rfl | rfl <;>
        · simp only [Ty.fits] at h1 h2
          py_exec [rounding_divide_by_pot]
          py_finish
    · rw [if_pos h2]
      rcases htx with rfl | rfl | rfl <;>
      · simp only [Ty.fits] at h1 h2
        py_exec [rounding_divide_by_pot]
        try py_finish
  · rw [if_pos h1]
    rcases htx with rfl | rfl | rfl <;>
    · simp only [Ty.fits] at h1 hx
      first
        | omega
        | (py_exec [rounding_divide_by_pot]
           try py_finish)

theorem rdbp_rw (tx : Ty) (x e : Int) (htx : T3 tx) (hx : tx = .py ∨ tx.fits x) :
    rounding_divide_by_pot ⟨tx, x⟩ ⟨.py, e⟩ =
      if ¬ Ty.fits .i32 x then .error (castErr tx)
      else if ¬ Ty.fits .i32 e then .error .overflow
      else if e < 0 then .error .value
      else .ok ⟨.py, W32 (rdbpVal x e)⟩ := by
  apply rdbp_spec _ _ _ htx
  rcases hx with rfl | h
  · trivial
  · exact h

/-! ## the hand model's primitives in the same closed form -/

theorem fits32_iff (x : Int) : inI32 x = true ↔ Ty.fits .i32 x := by
  rw [inI32_iff]; rfl

theorem msrm32_spec (a b : Int) :
    saturatingRoundingMul32 a b =
      if ¬ Ty.fits .i32 a then .error .assert_
      else if ¬ Ty.fits .i32 b then .error .assert_
      else if a = b ∧ a = -2147483648 then .ok 2147483647
      else .ok (W32 (roundingMulBody (a * b) 31)) := by
  by_cases h1 : Ty.fits .i32 a
  · by_cases h2 : Ty.fits .i32 b
    · by_cases hne : a = b ∧ a = -2147483648
      · obtain ⟨rfl, rfl⟩ := hne
        py_exec [saturatingRoundingMul32, chk32, fits32_iff, i32min, i32max, h1]
      · rw [if_neg (not_not.2 h1), if_neg (not_not.2 h2), if_neg hne, W32_id _ (rmb31_fits a b h1 h2 hne)]
        py_exec [saturatingRoundingMul32, chk32, fits32_iff, i32min, i32max, h1, h2, hne]
    · py_exec [saturatingRoundingMul32, chk32, fits32_iff, i32min, i32max, h1, h2]
  · py_exec [saturatingRoundingMul32, chk32, fits32_iff, i32min, i32max, h1]

theorem msrm32_spec_ne (a b : Int) (hne : a ≠ -2147483648 ∨ b ≠ -2147483648) :
    saturatingRoundingMul32 a b =
      if ¬ Ty.fits .i32 a then .error .assert_
      else if ¬ Ty.fits .i32 b then .error .assert_
      else .ok (W32 (roundingMulBody (a * b) 31)) := by
  rw [msrm32_spec, if_neg (by omega : ¬ (a = b ∧ a = -2147483648))]

theorem mrdbp_spec (x e : Int) :
    roundingDivideByPot x e =
      if ¬ Ty.fits .i32 x then .error .assert_
      else if ¬ Ty.fits .i32 e then .error .assert_
      else if e < 0 then .error .value
      else .ok (W32 (rdbpVal x e)) := by
  by_cases h1 : Ty.fits .i32 x
  · by_cases h2 : Ty.fits .i32 e
    · by_cases h3 : e < 0
      · py_exec [roundingDivideByPot, chk32, pow2, fits32_iff, h1, h2, h3]
      · rw [if_neg (not_not.2 h1), if_neg (not_not.2 h2), if_neg h3, W32_id _ (rdbpVal_fits x e h1)]
        py_exec [roundingDivideByPot, chk32, pow2, fits32_iff, rdbpVal, h1, h2, h3]
        py_finish
    · py_exec [roundingDivideByPot, chk32, fits32_iff, h1, h2]
  · py_exec [roundingDivideByPot, chk32, fits32_iff, h1]

/-! ## `exp_on_interval_between_negative_one_quarter_and_0_excl` -/

/-- magnitude of a rounding multiplication: `|a| ≤ A`, `|b| ≤ B`, `A·B ≤ K·2^31` ⟹ `|result| ≤ K + 1` -/
theorem rmbW_bound (a b A B K : Int) (ha : -A ≤ a ∧ a ≤ A) (hb : -B ≤ b ∧ b ≤ B)
    (hK : A * B ≤ K * 2147483648) (_hK32 : K + 1 ≤ 2147483647) :
    -(K + 1) ≤ W32 (roundingMulBody (a * b) 31) ∧ W32 (roundingMulBody (a * b) 31) ≤ K + 1 := by
  have hp := mul_bounds A B a b ha.1 ha.2 hb.1 hb.2
  generalize a * b = ab at hp
  have h0 : -(K + 1) ≤ roundingMulBody ab 31 ∧ roundingMulBody ab 31 ≤ K + 1 := by
    simp only [roundingMulBody, Nat.reduceSub, Int.reducePow]
    split
    · omega
    · split <;> omega
  unfold W32
  omega

theorem rdbpW_bound2 (x X : Int) (hx : -X ≤ x ∧ x ≤ X) (hX : X ≤ 2147483647) :
    -(X / 4 + 1) ≤ W32 (rdbpVal x 2) ∧ W32 (rdbpVal x 2) ≤ X / 4 + 1 := by
  unfold W32 rdbpVal
  simp only [Int.reduceToNat, Int.reducePow, Int.reduceSub, Int.reduceDiv]
  split <;> split <;> omega

theorem rdbpW_bound1 (x X : Int) (hx : -X ≤ x ∧ x ≤ X) (hX : X ≤ 2147483647) :
    -(X / 2 + 1) ≤ W32 (rdbpVal x 1) ∧ W32 (rdbpVal x 1) ≤ X / 2 + 1 := by
  unfold W32 rdbpVal
  simp only [Int.reduceToNat, Int.reducePow, Int.reduceSub, Int.reduceDiv]
  split <;> split <;> omega
theorem add_bound (x y X Y : Int) (hx : -X ≤ x ∧ x ≤ X) (hy : -Y ≤ y ∧ y ≤ Y) :
    -(X + Y) ≤ x + y ∧ x + y ≤ X + Y := by omega

set_option maxHeartbeats 1000000 in
theorem expint_in (ta : Ty) (a : Int) (hta : ta = .py ∨ ta = .i32) (h1 : -536870912 ≤ a) (h2 : a < 0) :
    SimT errRel .i32 (exp_on_interval_between_negative_one_quarter_and_0_excl ⟨ta, a⟩)
      (expOnIntervalBetweenNegativeOneQuarterAnd0Excl a) := by
  -- magnitudes along the polynomial: with an `np.int32` argument `x + (…)` is an int32 sum, which must not wrap
  have hX : -268435456 ≤ a + 268435456 ∧ a + 268435456 ≤ 268435456 := by omega
  have hV2 := rmbW_bound _ _ 268435456 268435456 33554432 hX hX (by omega) (by omega)
  have hV3 := rmbW_bound _ _ (33554432 + 1) 268435456 4194305 hV2 hX (by omega) (by omega)
  have hV4 := rmbW_bound _ _ (33554432 + 1) (33554432 + 1) 524289 hV2 hV2 (by omega) (by omega)
  have hR4 := rdbpW_bound2 _ (524289 + 1) hV4 (by omega)
  have hS1 := add_bound _ _ _ _ hR4 hV3
  have hT9 := rmbW_bound _ 715827883 _ 715827883 1441794 hS1 ⟨by omega, by omega⟩ (by omega) (by omega)
  have hT10 := add_bound _ _ _ _ hT9 hV2
  have hP := rdbpW_bound1 _ _ hT10 (by omega)
  unfold expOnIntervalBetweenNegativeOneQuarterAnd0Excl chk32
  delta expConstantTerm expConstant1Over3
  rcases hta with rfl | rfl <;>
  · py_exec [exp_on_interval_between_negative_one_quarter_and_0_excl, fits32_iff, srm32_rw_ne, srm32_rw,
      msrm32_spec_ne, msrm32_spec, rdbp_rw, mrdbp_spec, wrap32, errRel]
    py_finish

theorem expint_out (ta : Ty) (a : Int) (hta : ta = .py ∨ ta = .i32) (ha : ta = .py ∨ ta.fits a)
    (h : ¬ (-536870912 ≤ a ∧ a < 0)) :
    SimT errRel .i32 (exp_on_interval_between_negative_one_quarter_and_0_excl ⟨ta, a⟩)
      (expOnIntervalBetweenNegativeOneQuarterAnd0Excl a) := by
  unfold expOnIntervalBetweenNegativeOneQuarterAnd0Excl chk32
  by_cases hf : Ty.fits .i32 a
  · simp only [Ty.fits] at hf
    rcases hta with rfl | rfl <;>
    · py_exec [exp_on_interval_between_negative_one_quarter_and_0_excl, fits32_iff, errRel]
      try py_finish
  · rcases hta with rfl | rfl
    · simp only [Ty.fits] at hf
      py_exec [exp_on_interval_between_negative_one_quarter_and_0_excl, fits32_iff, errRel]
      try py_finish
    · rcases ha with h | h
      · cases h
      · exact absurd h hf

/-- `exp_on_interval_between_negative_one_quarter_and_0_excl` on a Python-int or `np.int32` argument:
    same outcome as the hand model, result tagged `np.int32` -/
theorem expint_sim (ta : Ty) (a : Int) (hta : ta = .py ∨ ta = .i32) (ha : ta = .py ∨ ta.fits a) :
    SimT errRel .i32 (exp_on_interval_between_negative_one_quarter_and_0_excl ⟨ta, a⟩)
      (expOnIntervalBetweenNegativeOneQuarterAnd0Excl a) := by
  by_cases h : -536870912 ≤ a ∧ a < 0
  · exact expint_in ta a hta h.1 h.2
  · exact expint_out ta a hta ha h

/-- the model's result is the outcome of a final `np.int32(..)` cast, hence in range -/
theorem mexpint_fits (a v : Int) (h : expOnIntervalBetweenNegativeOneQuarterAnd0Excl a = .ok v) :
    Ty.fits .i32 v := by
  revert h
  unfold expOnIntervalBetweenNegativeOneQuarterAnd0Excl chk32
  delta expConstantTerm expConstant1Over3
  py_exec [fits32_iff, msrm32_spec_ne, msrm32_spec, mrdbp_spec, wrap32]
  repeat' py_split1
  all_goals
    intro h
    cases h <;> (simp only [Ty.fits]; omega)

/-! ## `exp_on_negative_values` -/

set_option maxHeartbeats 1000000 in
/-- one `exp_barrel_shifter` stage: same outcome as the model's stage; the result is tagged `np.int64`
    when the multiplication happened and keeps its tag otherwise, and fits int32 -/
theorem barrel_sim (tr : Ty) (rem r e m : Int) (htr : tr = .i32 ∨ tr = .i64)
    (hr : tr.fits r) (hst : (e, m) ∈ expBarrelStages) :
    ∃ tr', (tr' = .i32 ∨ tr' = .i64) ∧
      SimT errRel tr' (exp_on_negative_values__exp_barrel_shifter ⟨.i32, rem⟩ (.py e) (.py m) ⟨tr, r⟩)
        (expBarrelShifter rem (e, m) r) ∧
      (Ty.fits .i32 r → ∀ v, expBarrelShifter rem (e, m) r = .ok v → Ty.fits .i32 v) := by
  simp only [expBarrelStages, List.mem_cons, Prod.mk.injEq, List.mem_nil_iff, or_false] at hst
  have hi := iand_two_pow rem (26 + e).toNat
  by_cases hb : (rem / 2 ^ (26 + e).toNat) % 2 = 1
  · refine ⟨.i64, Or.inr rfl, ?_, ?_⟩
    · rcases hst with ⟨rfl, rfl⟩ | ⟨rfl, rfl⟩ | ⟨rfl, rfl⟩ | ⟨rfl, rfl⟩ | ⟨rfl, rfl⟩ | ⟨rfl, rfl⟩ | ⟨rfl, rfl⟩ <;>
      rcases htr with rfl | rfl <;>
      · simp only [Int.reduceAdd, Int.reduceToNat, Int.reducePow, Int.reduceNeg] at hb hi
        simp only [Ty.fits] at hr
        py_exec [exp_on_negative_values__exp_barrel_shifter, expBarrelShifter, srm32_rw_ne, msrm32_spec_ne, errRel, hi]
        py_finish
    · intro hr32 v
      rcases hst with ⟨rfl, rfl⟩ | ⟨rfl, rfl⟩ | ⟨rfl, rfl⟩ | ⟨rfl, rfl⟩ | ⟨rfl, rfl⟩ | ⟨rfl, rfl⟩ | ⟨rfl, rfl⟩ <;>
      · simp only [Int.reduceAdd, Int.reduceToNat, Int.reducePow, Int.reduceNeg] at hb
        simp only [Ty.fits] at hr32
        py_exec [expBarrelShifter, msrm32_spec_ne]
        repeat' py_split1
        all_goals
          intro h
          cases h
          all_goals (simp only [Ty.fits, W32]; omega)
  · refine ⟨tr, htr, ?_, ?_⟩
    · rcases hst with ⟨rfl, rfl⟩ | ⟨rfl, rfl⟩ | ⟨rfl, rfl⟩ | ⟨rfl, rfl⟩ | ⟨rfl, rfl⟩ | ⟨rfl, rfl⟩ | ⟨rfl, rfl⟩ <;>
      rcases htr with rfl | rfl <;>
      · simp only [Int.reduceAdd, Int.reduceToNat, Int.reducePow, Int.reduceNeg] at hb hi
        simp only [Ty.fits] at hr
        py_exec [exp_on_negative_values__exp_barrel_shifter, expBarrelShifter, srm32_rw_ne, msrm32_spec_ne, errRel, hi]
        py_finish
    · intro hr32 v
      rcases hst with ⟨rfl, rfl⟩ | ⟨rfl, rfl⟩ | ⟨rfl, rfl⟩ | ⟨rfl, rfl⟩ | ⟨rfl, rfl⟩ | ⟨rfl, rfl⟩ | ⟨rfl, rfl⟩ <;>
      · simp only [Int.reduceAdd, Int.reduceToNat, Int.reducePow, Int.reduceNeg] at hb
        simp only [Ty.fits] at hr32
        py_exec [expBarrelShifter, msrm32_spec_ne]
        repeat' py_split1
        all_goals
          intro h
          cases h
          all_goals (simp only [Ty.fits, W32]; omega)

theorem fits_of_fits32 (t : Ty) (v : Int) (ht : t = .i32 ∨ t = .i64) (h : Ty.fits .i32 v) : t.fits v := by
  rcases ht with rfl | rfl
  · exact h
  · simp only [Ty.fits] at h ⊢; omega

/-- `exp_on_negative_values` on an int32 argument `≤ 0` -/
theorem expneg_in (a : Int) (hf : -2147483648 ≤ a ∧ a ≤ 2147483647) (h0 : a ≤ 0) :
    Agrees errRel (exp_on_negative_values (.py a)) (expOnNegativeValues a) := by
  have hm := iand_mask a 24
  simp only [Int.reducePow, Int.reduceSub] at hm
  have hmod := Int.emod_nonneg a (by decide : (16777216:Int) ≠ 0)
  have hmod2 := Int.emod_lt_of_pos a (by decide : (0:Int) < 16777216)
  unfold expOnNegativeValues FpMath.rescale saturatingRoundingMultiplyByPot shiftLeft32 chk32 pow2
  delta i32min i32max
  -- the callee `exp_on_interval_…`: both fail, or both return `v0` (tagged np.int32, in range)
  have hsim := expint_sim .i32 ((a % 16777216 - 16777216) * 32) (Or.inr rfl)
    (Or.inr (by simp only [Ty.fits]; omega))
  rcases hsim.cases with ⟨e, f, hs, hmo, hrel⟩ | ⟨v0, hs, hmo⟩
  · py_exec [exp_on_negative_values, Gen.SrcFpMath.rescale, saturating_rounding_multiply_by_pot, shift_left32,
      fits32_iff, hm, if_pos, if_neg, hs, hmo, expBarrelStages, List.foldlM]
    exact hrel
  have hv0 := mexpint_fits _ _ hmo
  have ht0 : Ty.i32 = .i32 ∨ Ty.i32 = .i64 := Or.inl rfl
  -- the seven barrel-shifter stages, one after the other
  obtain ⟨t1, ht1, hsim1, hf1⟩ := barrel_sim Ty.i32 (a % 16777216 - 16777216 - a) v0 (-2) 1672461947 ht0
    (fits_of_fits32 _ _ ht0 hv0) (by decide)
  rcases hsim1.cases with ⟨e, f, hs1, hm1, hrel⟩ | ⟨v1, hs1, hm1⟩
  · py_exec [exp_on_negative_values, Gen.SrcFpMath.rescale, saturating_rounding_multiply_by_pot, shift_left32,
      fits32_iff, hm, if_pos, if_neg, hs, hmo, expBarrelStages, List.foldlM, hs1, hm1]
    exact hrel
  have hv1 := hf1 hv0 v1 hm1
  obtain ⟨t2, ht2, hsim2, hf2⟩ := barrel_sim t1 (a % 16777216 - 16777216 - a) v1 (-1) 1302514674 ht1
    (fits_of_fits32 _ _ ht1 hv1) (by decide)
  rcases hsim2.cases with ⟨e, f, hs2, hm2, hrel⟩ | ⟨v2, hs2, hm2⟩
  · py_exec [exp_on_negative_values, Gen.SrcFpMath.rescale, saturating_rounding_multiply_by_pot, shift_left32,
      fits32_iff, hm, if_pos, if_neg, hs, hmo, expBarrelStages, List.foldlM, hs1, hm1, hs2, hm2]
    exact hrel
  have hv2 := hf2 hv1 v2 hm2
  obtain ⟨t3, ht3, hsim3, hf3⟩ := barrel_sim t2 (a % 16777216 - 16777216 - a) v2 (0) 790015084 ht2
    (fits_of_fits32 _ _ ht2 hv2) (by decide)
  rcases hsim3.cases with ⟨e, f, hs3, hm3, hrel⟩ | ⟨v3, hs3, hm3⟩
  · py_exec [exp_on_negative_values, Gen.SrcFpMath.rescale, saturating_rounding_multiply_by_pot, shift_left32,
      fits32_iff, hm, if_pos, if_neg, hs, hmo, expBarrelStages, List.foldlM, hs1, hm1, hs2, hm2, hs3, hm3]
    exact hrel
  have hv3 := hf3 hv2 v3 hm3
  obtain ⟨t4, ht4, hsim4, hf4⟩ := barrel_sim t3 (a % 16777216 - 16777216 - a) v3 (1) 290630308 ht3
    (fits_of_fits32 _ _ ht3 hv3) (by decide)
  rcases hsim4.cases with ⟨e, f, hs4, hm4, hrel⟩ | ⟨v4, hs4, hm4⟩
  · py_exec [exp_on_negative_values, Gen.SrcFpMath.rescale, saturating_rounding_multiply_by_pot, shift_left32,
      fits32_iff, hm, if_pos, if_neg, hs, hmo, expBarrelStages, List.foldlM, hs1, hm1, hs2, hm2, hs3, hm3, hs4, hm4]
    exact hrel
  have hv4 := hf4 hv3 v4 hm4
  obtain ⟨t5, ht5, hsim5, hf5⟩ := barrel_sim t4 (a % 16777216 - 16777216 - a) v4 (2) 39332535 ht4
    (fits_of_fits32 _ _ ht4 hv4) (by decide)
  rcases hsim5.cases with ⟨e, f, hs5, hm5, hrel⟩ | ⟨v5, hs5, hm5⟩
  · py_exec [exp_on_negative_values, Gen.SrcFpMath.rescale, saturating_rounding_multiply_by_pot, shift_left32,
      fits32_iff, hm, if_pos, if_neg, hs, hmo, expBarrelStages, List.foldlM, hs1, hm1, hs2, hm2, hs3, hm3, hs4, hm4, hs5, hm5]
    exact hrel
  have hv5 := hf5 hv4 v5 hm5
  obtain ⟨t6, ht6, hsim6, hf6⟩ := barrel_sim t5 (a % 16777216 - 16777216 - a) v5 (3) 720401 ht5
    (fits_of_fits32 _ _ ht5 hv5) (by decide)
  rcases hsim6.cases with ⟨e, f, hs6, hm6, hrel⟩ | ⟨v6, hs6, hm6⟩
  · py_exec [exp_on_negative_values, Gen.SrcFpMath.rescale, saturating_rounding_multiply_by_pot, shift_left32,
      fits32_iff, hm, if_pos, if_neg, hs, hmo, expBarrelStages, List.foldlM, hs1, hm1, hs2, hm2, hs3, hm3, hs4, hm4, hs5, hm5, hs6, hm6]
    exact hrel
  have hv6 := hf6 hv5 v6 hm6
  obtain ⟨t7, ht7, hsim7, hf7⟩ := barrel_sim t6 (a % 16777216 - 16777216 - a) v6 (4) 242 ht6
    (fits_of_fits32 _ _ ht6 hv6) (by decide)
  rcases hsim7.cases with ⟨e, f, hs7, hm7, hrel⟩ | ⟨v7, hs7, hm7⟩
  · py_exec [exp_on_negative_values, Gen.SrcFpMath.rescale, saturating_rounding_multiply_by_pot, shift_left32,
      fits32_iff, hm, if_pos, if_neg, hs, hmo, expBarrelStages, List.foldlM, hs1, hm1, hs2, hm2, hs3, hm3, hs4, hm4, hs5, hm5, hs6, hm6, hs7, hm7]
    exact hrel
  have hv7 := hf7 hv6 v7 hm7
  py_exec [exp_on_negative_values, Gen.SrcFpMath.rescale, saturating_rounding_multiply_by_pot, shift_left32,
      fits32_iff, hm, if_pos, if_neg, hs, hmo, expBarrelStages, List.foldlM, hs1, hm1, hs2, hm2, hs3, hm3, hs4, hm4, hs5, hm5, hs6, hm6, hs7, hm7, errRel]
  py_finish

end VelaVerif.SrcFpMath
