import VelaVerif.Lemmas.PyRt
import VelaVerif.Lemmas.FpMath
import VelaVerif.Gen.SrcFpMath
/-!
# The translated `fp_math.py` (`Gen/SrcFpMath.lean`) computes what the hand model `Model/FpMath.lean` computes

For the primitives a pair of *specification lemmas* with the same right-hand side: one for the
translated function applied to operands of the tags that occur (Python `int`, `np.int32`, `np.int64`),
one for the hand model.  Both are total (`if` on the range conditions), so they are unconditional
rewrite rules up to the tag invariants; results carry their int32 range as `wrap .i32 _` (an identity
there), which is what lets `omega` see that later 64-bit sums do not wrap.  Callers are then proved by
running both sides (`py_exec`) and splitting the common `if`s (`py_finish`).
-/
namespace VelaVerif.SrcFpMath
open VelaVerif VelaVerif.PyRt VelaVerif.FpMath
open VelaVerif.Gen.SrcFpMath

/-- how an error of the translated source relates to an error of `Model/FpMath.lean`: the model maps an
    exception raised on an `assert` line (`OverflowError` of `np.int32(python int)`) to `assert_` -/
def errRel : PyRt.Err → FpMath.Err → Prop
  | .assert_, .assert_ => True
  | .overflow, .assert_ => True
  | .overflow, .overflow => True
  | .value, .value => True
  | _, _ => False

theorem prod32_i64 (a b : Int) (ha : Ty.fits .i32 a) (hb : Ty.fits .i32 b) :
    -4611686018427387904 ≤ a * b ∧ a * b ≤ 4611686018427387904 := by
  simp only [Ty.fits] at ha hb
  have := mul_bounds 2147483648 2147483648 a b ha.1 (by omega) hb.1 (by omega)
  omega

theorem prod16_i32 (a b : Int) (ha : Ty.fits .i16 a) (hb : Ty.fits .i16 b) :
    -1073741824 ≤ a * b ∧ a * b ≤ 1073741824 := by
  simp only [Ty.fits] at ha hb
  have := mul_bounds 32768 32768 a b ha.1 (by omega) hb.1 (by omega)
  omega

/-- the rounding multiplication of two int32 values that are not both `INT_MIN` fits int32 again -/
theorem rmb31_fits (a b : Int) (ha : Ty.fits .i32 a) (hb : Ty.fits .i32 b) (hne : ¬ (a = b ∧ a = -2147483648)) :
    Ty.fits .i32 (roundingMulBody (a * b) 31) := by
  simp only [Ty.fits] at ha hb ⊢
  have hp := prod32_bounds a b ha.1 ha.2 hb.1 hb.2 (by omega)
  generalize a * b = ab at hp
  simp only [roundingMulBody, Nat.reduceSub, Int.reducePow]
  split
  · omega
  · split <;> omega

/-! ## `saturating_rounding_mul32` -/

/-- common right-hand side of `srm32_spec` (translated source, error kinds `ea`, `eb`) and `msrm32_spec` (model) -/
def srm32Out {ε : Type} (ea eb : ε) (tag1 tag2 : Ty) (a b : Int) : Except ε Num :=
  if ¬ Ty.fits .i32 a then .error ea
  else if ¬ Ty.fits .i32 b then .error eb
  else if a = b ∧ a = -2147483648 then .ok ⟨tag1, 2147483647⟩
  else .ok ⟨tag2, wrap .i32 (roundingMulBody (a * b) 31)⟩

theorem srm32_spec (ta tb : Ty) (a b : Int) (hta : T3 ta) (htb : T3 tb) (ha : ta.fits a) (hb : tb.fits b) :
    saturating_rounding_mul32 ⟨ta, a⟩ ⟨tb, b⟩ =
      if ¬ Ty.fits .i32 a then .error (castErr ta)
      else if ¬ Ty.fits .i32 b then .error (castErr tb)
      else if a = b ∧ a = -2147483648 then .ok ⟨.i32, 2147483647⟩
      else .ok ⟨.i64, wrap .i32 (roundingMulBody (a * b) 31)⟩ := by
  by_cases h1 : Ty.fits .i32 a
  · by_cases h2 : Ty.fits .i32 b
    · have hp := prod32_i64 a b h1 h2
      rw [if_neg (not_not.2 h1), if_neg (not_not.2 h2)]
      by_cases hne : a = b ∧ a = -2147483648
      · rw [if_pos hne]
        rcases hta with rfl | rfl | rfl <;> rcases htb with rfl | rfl | rfl <;>
        · simp only [Ty.fits] at h1 h2
          py_exec [saturating_rounding_mul32]
          py_finish
      · rw [if_neg hne, wrap_id _ _ (rmb31_fits a b h1 h2 hne)]
        rcases hta with rfl | rfl | rfl <;> rcases htb with rfl | rfl | rfl <;>
        · simp only [Ty.fits] at h1 h2
          py_exec [saturating_rounding_mul32, roundingMulBody]
          py_finish
    · rw [if_neg (not_not.2 h1), if_pos h2]
      rcases hta with rfl | rfl | rfl <;> rcases htb with rfl | rfl | rfl <;>
      · simp only [Ty.fits] at h1 h2 hb
        first
          | omega
          | (py_exec [saturating_rounding_mul32]
             try py_finish)
  · rw [if_pos h1]
    rcases hta with rfl | rfl | rfl <;>
    · simp only [Ty.fits] at h1 ha
      first
        | omega
        | (py_exec [saturating_rounding_mul32]
           try py_finish)

/-- `srm32_spec` as a rewrite rule: the tag invariants in a form the discharger proves for every tag -/
theorem srm32_rw (ta tb : Ty) (a b : Int) (hta : T3 ta) (htb : T3 tb)
    (ha : ta = .py ∨ ta.fits a) (hb : tb = .py ∨ tb.fits b) :
    saturating_rounding_mul32 ⟨ta, a⟩ ⟨tb, b⟩ =
      if ¬ Ty.fits .i32 a then .error (castErr ta)
      else if ¬ Ty.fits .i32 b then .error (castErr tb)
      else if a = b ∧ a = -2147483648 then .ok ⟨.i32, 2147483647⟩
      else .ok ⟨.i64, wrap .i32 (roundingMulBody (a * b) 31)⟩ := by
  apply srm32_spec _ _ _ _ hta htb
  · rcases ha with rfl | h
    · trivial
    · exact h
  · rcases hb with rfl | h
    · trivial
    · exact h

/-! ## `rounding_divide_by_pot` -/

/-- value of `rounding_divide_by_pot(x, e)` for `e ≥ 0` -/
def rdbpVal (x e : Int) : Int :=
  x / 2 ^ e.toNat + (if x % 2 ^ e.toNat > (2 ^ e.toNat - 1) / 2 + (if x < 0 then 1 else 0) then 1 else 0)

theorem ediv_two_pow_bounds (x : Int) (n : Nat) (hx : Ty.fits .i32 x) :
    -2147483648 ≤ x / 2 ^ n ∧ x / 2 ^ n ≤ 2147483647 ∧ (2 ≤ (2:Int) ^ n → x / 2 ^ n ≤ 1073741823) := by
  simp only [Ty.fits] at hx
  have hp : (0:Int) < 2 ^ n := Int.pow_pos (by decide)
  refine ⟨?_, ?_, ?_⟩
  · have : (-2147483648 : Int) ≤ x / 2 ^ n := by
      rw [Int.le_ediv_iff_mul_le hp]
      by_cases h : 0 ≤ x
      · nlinarith
      · nlinarith
    exact this
  · rw [← Int.lt_add_one_iff, Int.ediv_lt_iff_lt_mul hp]; nlinarith
  · intro h2
    rw [← Int.lt_add_one_iff, Int.ediv_lt_iff_lt_mul hp]; nlinarith

theorem rdbpVal_fits (x e : Int) (hx : Ty.fits .i32 x) : Ty.fits .i32 (rdbpVal x e) := by
  have hb := ediv_two_pow_bounds x e.toNat hx
  have hp : (0:Int) < 2 ^ e.toNat := Int.pow_pos (by decide)
  have hm := Int.emod_nonneg x (Int.ne_of_gt hp)
  have hm2 := Int.emod_lt_of_pos x hp
  simp only [Ty.fits] at hx ⊢
  unfold rdbpVal
  generalize (2:Int) ^ e.toNat = p at *
  split
  · split <;> omega
  · omega

theorem two_pow_le_of_le (e : Int) (k : Nat) (h : e ≤ k) : (2:Int) ^ e.toNat ≤ 2 ^ k := by
  have : e.toNat ≤ k := by omega
  have h2 : (2:Nat) ^ e.toNat ≤ 2 ^ k := Nat.pow_le_pow_right (by decide) this
  exact_mod_cast h2

theorem rdbp_spec (tx : Ty) (x e : Int) (htx : T3 tx) (hx : tx.fits x) (he : tx = .py ∨ e ≤ 31) :
    rounding_divide_by_pot ⟨tx, x⟩ ⟨.py, e⟩ =
      if ¬ Ty.fits .i32 x then .error (castErr tx)
      else if ¬ Ty.fits .i32 e then .error .overflow
      else if e < 0 then .error .value
      else .ok ⟨tx, wrap .i32 (rdbpVal x e)⟩ := by
  have hp : (0:Int) < 2 ^ e.toNat := Int.pow_pos (by decide)
  have hm := Int.emod_nonneg x (Int.ne_of_gt hp)
  have hm2 := Int.emod_lt_of_pos x hp
  by_cases h1 : Ty.fits .i32 x
  · have hv := rdbpVal_fits x e h1
    have hb := ediv_two_pow_bounds x e.toNat h1
    rw [if_neg (not_not.2 h1), wrap_id _ _ hv]
    by_cases h2 : Ty.fits .i32 e
    · rw [if_neg (not_not.2 h2)]
      by_cases h3 : e < 0
      · rw [if_pos h3]
        rcases htx with rfl | rfl | rfl <;>
        · simp only [Ty.fits] at h1 h2
          py_exec [rounding_divide_by_pot]
          py_finish
      · rw [if_neg h3]
        unfold rdbpVal
        rcases htx with rfl | rfl | rfl
        · simp only [Ty.fits] at h1 h2
          py_exec [rounding_divide_by_pot]
          py_finish
        · have he' : e ≤ 31 := by rcases he with h | h <;> first | cases h | exact h
          have hle := two_pow_le_of_le e 31 he'
          simp only [Ty.fits] at h1 h2
          py_exec [rounding_divide_by_pot]
          py_finish
        · have he' : e ≤ 31 := by rcases he with h | h <;> first | cases h | exact h
          have hle := two_pow_le_of_le e 31 he'
          simp only [Ty.fits] at h1 h2
          py_exec [rounding_divide_by_pot]
          py_finish
    · rw [if_pos h2]
      rcases htx with rfl | rfl | rfl <;>
      · simp only [Ty.fits] at h1 h2
        py_exec [rounding_divide_by_pot]
        try py_finish
  · rw [if_pos h1]
    rcases htx with rfl | rfl | rfl <;>
    · simp only [Ty.fits] at h1 hx
      first
        | omega
        | (py_exec [rounding_divide_by_pot]
           try py_finish)

theorem rdbp_rw (tx : Ty) (x e : Int) (htx : T3 tx) (hx : tx = .py ∨ tx.fits x) (he : tx = .py ∨ e ≤ 31) :
    rounding_divide_by_pot ⟨tx, x⟩ ⟨.py, e⟩ =
      if ¬ Ty.fits .i32 x then .error (castErr tx)
      else if ¬ Ty.fits .i32 e then .error .overflow
      else if e < 0 then .error .value
      else .ok ⟨tx, wrap .i32 (rdbpVal x e)⟩ := by
  apply rdbp_spec _ _ _ htx _ he
  rcases hx with rfl | h
  · trivial
  · exact h

/-! ## the hand model's primitives in the same closed form -/

theorem fits32_iff (x : Int) : inI32 x = true ↔ Ty.fits .i32 x := by
  rw [inI32_iff]; rfl

theorem msrm32_spec (a b : Int) :
    saturatingRoundingMul32 a b =
      if ¬ Ty.fits .i32 a then .error .assert_
      else if ¬ Ty.fits .i32 b then .error .assert_
      else if a = b ∧ a = -2147483648 then .ok 2147483647
      else .ok (wrap .i32 (roundingMulBody (a * b) 31)) := by
  by_cases h1 : Ty.fits .i32 a
  · by_cases h2 : Ty.fits .i32 b
    · by_cases hne : a = b ∧ a = -2147483648
      · py_exec [saturatingRoundingMul32, chk32, fits32_iff, i32min, i32max, h1, h2, hne]
      · rw [if_neg (not_not.2 h1), if_neg (not_not.2 h2), if_neg hne, wrap_id _ _ (rmb31_fits a b h1 h2 hne)]
        py_exec [saturatingRoundingMul32, chk32, fits32_iff, i32min, i32max, h1, h2, hne]
    · py_exec [saturatingRoundingMul32, chk32, fits32_iff, i32min, i32max, h1, h2]
  · py_exec [saturatingRoundingMul32, chk32, fits32_iff, i32min, i32max, h1]

theorem mrdbp_spec (x e : Int) :
    roundingDivideByPot x e =
      if ¬ Ty.fits .i32 x then .error .assert_
      else if ¬ Ty.fits .i32 e then .error .assert_
      else if e < 0 then .error .value
      else .ok (wrap .i32 (rdbpVal x e)) := by
  by_cases h1 : Ty.fits .i32 x
  · by_cases h2 : Ty.fits .i32 e
    · by_cases h3 : e < 0
      · py_exec [roundingDivideByPot, chk32, pow2, fits32_iff, h1, h2, h3]
      · rw [if_neg (not_not.2 h1), if_neg (not_not.2 h2), if_neg h3, wrap_id _ _ (rdbpVal_fits x e h1)]
        py_exec [roundingDivideByPot, chk32, pow2, fits32_iff, rdbpVal, h1, h2, h3]
        py_finish
    · py_exec [roundingDivideByPot, chk32, fits32_iff, h1, h2]
  · py_exec [roundingDivideByPot, chk32, fits32_iff, h1]

end VelaVerif.SrcFpMath
