import VelaVerif.Lemmas.PyRt
import VelaVerif.Lemmas.FpMath
import VelaVerif.Gen.SrcFpMath
/-!
# The translated `fp_math.py` (`Gen/SrcFpMath.lean`) computes what the hand model `Model/FpMath.lean` computes

For every translated function a *specification lemma*: applied to operands of the tags that occur
(Python `int`, `np.int32`, `np.int64`) it returns — as a closed formula — the tagged result, written with
the hand model's value functions.  Proved by symbolic execution (`py_exec`) and `omega`; the lemmas of
callees are rewrite rules for the callers.  `Props/C19Src.lean` states the consequences for Python-int
arguments.
-/
namespace VelaVerif.SrcFpMath
open VelaVerif VelaVerif.PyRt VelaVerif.FpMath
open VelaVerif.Gen.SrcFpMath

/-- the tags that reach `fp_math` functions from Python-int entry arguments -/
def T3 (t : Ty) : Prop := t = .py ∨ t = .i32 ∨ t = .i64

/-- error of `assert np.intN(a) == a` for an operand that does not fit: NumPy raises `OverflowError`
    for a Python int, the comparison fails (`AssertionError`) for a wider NumPy scalar -/
def castErr (t : Ty) : PyRt.Err := if t = .py then .overflow else .assert_

theorem prod32_i64 (a b : Int) (ha : Ty.fits .i32 a) (hb : Ty.fits .i32 b) :
    -4611686018427387904 ≤ a * b ∧ a * b ≤ 4611686018427387904 := by
  simp only [Ty.fits] at ha hb
  have := mul_bounds 2147483648 2147483648 a b ha.1 (by omega) hb.1 (by omega)
  omega

theorem prod16_i32 (a b : Int) (ha : Ty.fits .i16 a) (hb : Ty.fits .i16 b) :
    -1073741824 ≤ a * b ∧ a * b ≤ 1073741824 := by
  simp only [Ty.fits] at ha hb
  have := mul_bounds 32768 32768 a b ha.1 (by omega) hb.1 (by omega)
  omega

/-- value and tag of `saturating_rounding_mul32` on operands that fit int32 -/
def srm32Res (a b : Int) : Num :=
  if a = b ∧ a = -2147483648 then ⟨.i32, 2147483647⟩ else ⟨.i64, roundingMulBody (a * b) 31⟩

theorem srm32_ok (ta tb : Ty) (hta : T3 ta) (htb : T3 tb) (a b : Int)
    (ha : Ty.fits .i32 a) (hb : Ty.fits .i32 b) :
    saturating_rounding_mul32 ⟨ta, a⟩ ⟨tb, b⟩ = .ok (srm32Res a b) := by
  have hp := prod32_i64 a b ha hb
  simp only [Ty.fits] at ha hb
  unfold srm32Res
  rcases hta with rfl | rfl | rfl <;> rcases htb with rfl | rfl | rfl <;>
  · py_exec [saturating_rounding_mul32, roundingMulBody]
    py_finish

end VelaVerif.SrcFpMath
