import VelaVerif.Spec.InPlace
/-!
# Lemmas about `Spec/InPlace.lean`: when every link is harmless, no buffer loses a value

`clobbers` judges whole buffers (all values connected by shares).  `clobbers_nil`: if for every share the operator reads
the value it overwrites and writes its result, the overwritten value is dead after the operator, the result has no other
writer, writers come before readers and no operator has two shares, then `clobbers = []`.  The buffers are then
directed chains `v₀ → v₁ → … → vₙ` with strictly increasing operators (`Chain.ordered`); a value downstream of the
written one is not defined yet, a value upstream is dead.
-/
namespace VelaVerif.InPlaceSpec

/-- what makes a set of shares harmless: every operator reads the value it overwrites and writes its result, the
    overwritten value is dead afterwards, the result has no other writer, writers come before readers, one share per
    operator -/
structure GoodShares (p : Prog) (shares : List Share) : Prop where
  reads : ∀ sh ∈ shares, readsAt p sh.op sh.ifm = true
  writes : ∀ sh ∈ shares, writesAt p sh.op sh.ofm = true
  dead : ∀ sh ∈ shares, DeadAfter p sh.op sh.ifm
  onlyWriter : ∀ sh ∈ shares, ∀ j, writesAt p j sh.ofm = true → j = sh.op
  order : ∀ i j v, writesAt p i v = true → readsAt p j v = true → i < j
  opInj : ∀ sh ∈ shares, ∀ sh' ∈ shares, sh.op = sh'.op → sh = sh'

/-- a non-empty directed chain of shares from `a` to `b` -/
inductive Chain (shares : List Share) : Nat → Nat → Prop where
  | single (sh : Share) : sh ∈ shares → Chain shares sh.ifm sh.ofm
  | snoc {a b : Nat} (sh : Share) : Chain shares a b → sh ∈ shares → sh.ifm = b → Chain shares a sh.ofm

variable {p : Prog} {shares : List Share}

theorem GoodShares.ifmInj (h : GoodShares p shares) {sh sh' : Share} (hs : sh ∈ shares) (hs' : sh' ∈ shares)
    (he : sh.ifm = sh'.ifm) : sh = sh' := by
  apply h.opInj sh hs sh' hs'
  have h1 := (h.dead sh hs).2.2
  have h2 := (h.dead sh' hs').2.2
  have r1 := h.reads sh hs
  have r2 := h.reads sh' hs'
  by_cases hlt : sh.op < sh'.op
  · have := h1 sh'.op hlt
    rw [he, r2] at this
    exact Bool.noConfusion this
  · by_cases hgt : sh'.op < sh.op
    · have := h2 sh.op hgt
      rw [← he, r1] at this
      exact Bool.noConfusion this
    · omega

theorem GoodShares.ofmInj (h : GoodShares p shares) {sh sh' : Share} (hs : sh ∈ shares) (hs' : sh' ∈ shares)
    (he : sh.ofm = sh'.ofm) : sh = sh' := by
  apply h.opInj sh hs sh' hs'
  have := h.onlyWriter sh' hs' sh.op (by rw [← he]; exact h.writes sh hs)
  exact this

theorem Chain.head {a b : Nat} (c : Chain shares a b) :
    ∃ sh, sh ∈ shares ∧ sh.ifm = a ∧ (sh.ofm = b ∨ Chain shares sh.ofm b) := by
  induction c with
  | single sh hs => exact ⟨sh, hs, rfl, Or.inl rfl⟩
  | snoc sh' _ hs' hi ih =>
    obtain ⟨sh0, h0, ha, hrest⟩ := ih
    refine ⟨sh0, h0, ha, Or.inr ?_⟩
    rcases hrest with he | hc
    · have := Chain.single (shares := shares) sh' hs'
      rw [hi, ← he] at this
      exact this
    · exact Chain.snoc sh' hc hs' hi

theorem Chain.last {a b : Nat} (c : Chain shares a b) :
    ∃ sh, sh ∈ shares ∧ sh.ofm = b ∧ (sh.ifm = a ∨ Chain shares a sh.ifm) := by
  cases c with
  | single sh hs => exact ⟨sh, hs, rfl, Or.inl rfl⟩
  | snoc sh' c' hs' hi => exact ⟨sh', hs', rfl, Or.inr (hi ▸ c')⟩

theorem Chain.cons {a b : Nat} (sh : Share) (hs : sh ∈ shares) (he : sh.ofm = a) (c : Chain shares a b) :
    Chain shares sh.ifm b := by
  induction c with
  | single sh2 hs2 => exact Chain.snoc sh2 (Chain.single sh hs) hs2 he.symm
  | snoc sh' _ hs' hi ih => exact Chain.snoc sh' (ih he) hs' hi

/-- along a chain the operators come in order: the first edge's operator is not behind the last edge's -/
theorem Chain.ordered (h : GoodShares p shares) {a b : Nat} (c : Chain shares a b) :
    ∃ sh1 shn, sh1 ∈ shares ∧ shn ∈ shares ∧ sh1.ifm = a ∧ shn.ofm = b ∧ sh1.op ≤ shn.op := by
  induction c with
  | single sh hs => exact ⟨sh, sh, hs, hs, rfl, rfl, Nat.le_refl _⟩
  | snoc sh' _ hs' hi ih =>
    obtain ⟨sh1, shn, h1, hn, ha, hb, hle⟩ := ih
    refine ⟨sh1, sh', h1, hs', ha, rfl, ?_⟩
    have hw := h.writes shn hn
    have hr := h.reads sh' hs'
    rw [hi, ← hb] at hr
    have := h.order _ _ _ hw hr
    omega

/-- `t` shares the buffer of `w` -/
def Conn (shares : List Share) (w t : Nat) : Prop := t = w ∨ Chain shares w t ∨ Chain shares t w

theorem Conn.fwd (h : GoodShares p shares) {w u : Nat} (c : Conn shares w u) (sh : Share) (hs : sh ∈ shares)
    (hi : sh.ifm = u) : Conn shares w sh.ofm := by
  rcases c with rfl | c | c
  · exact Or.inr (Or.inl (hi ▸ Chain.single sh hs))
  · exact Or.inr (Or.inl (Chain.snoc sh c hs hi))
  · obtain ⟨sh0, h0, ha, hrest⟩ := c.head
    have : sh0 = sh := h.ifmInj h0 hs (by rw [ha, hi])
    subst this
    rcases hrest with he | hc
    · exact Or.inl he
    · exact Or.inr (Or.inr hc)

theorem Conn.bwd (h : GoodShares p shares) {w u : Nat} (c : Conn shares w u) (sh : Share) (hs : sh ∈ shares)
    (ho : sh.ofm = u) : Conn shares w sh.ifm := by
  rcases c with rfl | c | c
  · exact Or.inr (Or.inr (ho ▸ Chain.single sh hs))
  · obtain ⟨sh0, h0, hb, hrest⟩ := c.last
    have : sh0 = sh := h.ofmInj h0 hs (by rw [hb, ho])
    subst this
    rcases hrest with he | hc
    · exact Or.inl he
    · exact Or.inr (Or.inl hc)
  · exact Or.inr (Or.inr (Chain.cons sh hs ho c))


/-- one share in `grow` -/
def growStep (acc : List Nat) (s : Share) : List Nat :=
  let acc := if acc.contains s.ifm && !acc.contains s.ofm then acc ++ [s.ofm] else acc
  if acc.contains s.ofm && !acc.contains s.ifm then acc ++ [s.ifm] else acc

theorem grow_eq (shares : List Share) (cls : List Nat) : grow shares cls = shares.foldl growStep cls := rfl

theorem growStep_conn (h : GoodShares p shares) (w : Nat) (cls : List Nat) (s : Share) (hs : s ∈ shares)
    (hc : ∀ t ∈ cls, Conn shares w t) : ∀ t ∈ growStep cls s, Conn shares w t := by
  have h1 : ∀ t ∈ (if cls.contains s.ifm && !cls.contains s.ofm then cls ++ [s.ofm] else cls), Conn shares w t := by
    intro t ht
    split at ht
    · rename_i hcond
      simp only [Bool.and_eq_true, List.contains_iff_mem] at hcond
      simp only [List.mem_append, List.mem_singleton] at ht
      rcases ht with ht | rfl
      · exact hc t ht
      · exact (hc _ hcond.1).fwd h s hs rfl
    · exact hc t ht
  unfold growStep
  generalize (if cls.contains s.ifm && !cls.contains s.ofm then cls ++ [s.ofm] else cls) = acc1 at h1
  intro t ht
  simp only at ht
  split at ht
  · rename_i hcond
    simp only [Bool.and_eq_true, List.contains_iff_mem] at hcond
    simp only [List.mem_append, List.mem_singleton] at ht
    rcases ht with ht | rfl
    · exact h1 t ht
    · exact (h1 _ hcond.1).bwd h s hs rfl
  · exact h1 t ht

theorem grow_conn (h : GoodShares p shares) (w : Nat) :
    ∀ (l : List Share) (cls : List Nat), (∀ sh ∈ l, sh ∈ shares) → (∀ t ∈ cls, Conn shares w t) →
      ∀ t ∈ l.foldl growStep cls, Conn shares w t := by
  intro l
  induction l with
  | nil => intro cls _ hc t ht; exact hc t ht
  | cons s rest ih =>
    intro cls hl hc
    simp only [List.foldl_cons]
    exact ih _ (fun sh hsh => hl sh (List.mem_cons_of_mem _ hsh))
      (growStep_conn h w cls s (hl s (List.mem_cons_self)) hc)

theorem growN_conn (h : GoodShares p shares) (w : Nat) : ∀ (n : Nat) (cls : List Nat),
    (∀ t ∈ cls, Conn shares w t) → ∀ t ∈ growN shares n cls, Conn shares w t := by
  intro n
  induction n with
  | zero => intro cls hc t ht; exact hc t ht
  | succ n ih =>
    intro cls hc
    simp only [growN]
    apply ih
    rw [grow_eq]
    exact grow_conn h w shares cls (fun _ hsh => hsh) hc

theorem bufferOf_conn (h : GoodShares p shares) (w t : Nat) (ht : t ∈ bufferOf shares w) : Conn shares w t :=
  growN_conn h w _ [w] (fun t ht => Or.inl (by simpa using ht)) t ht

theorem writesAt_lt {p : Prog} {j v : Nat} (h : writesAt p j v = true) : j < p.nodes.length := by
  unfold writesAt at h
  cases hn : p.nodes[j]? with
  | none => simp [hn] at h
  | some n => exact (List.getElem?_eq_some_iff.mp hn).1

/-- **No value is destroyed while it is still needed** when every link of every buffer is harmless. -/
theorem clobbers_nil (h : GoodShares p shares) : clobbers p shares = [] := by
  unfold clobbers
  rw [List.flatMap_eq_nil_iff]
  intro i _
  cases hn : p.nodes[i]? with
  | none => rfl
  | some n =>
    simp only
    rw [List.flatMap_eq_nil_iff]
    intro w hw
    split
    · rfl
    · rw [List.map_eq_nil_iff, List.filter_eq_nil_iff]
      intro t ht
      simp only [Bool.and_eq_true, bne_iff_ne, ne_eq, not_and, Bool.not_eq_true]
      rintro ⟨htw, hdef⟩
      have hwi : writesAt p i w = true := by
        unfold writesAt
        rw [hn]
        exact List.contains_iff_mem.mpr hw
      -- `t` needed after `i` is impossible
      cases hneed : neededAfter p i t with
      | false => rfl
      | true =>
        exfalso
        rcases bufferOf_conn h w t ht with rfl | c | c
        · exact htw rfl
        · -- `t` is downstream of `w`: its only writer comes after a reader of `w`, which comes after `i`
          obtain ⟨sh1, shn, h1, hnn, ha, hb, hle⟩ := c.ordered h
          have hwt := h.writes shn hnn
          rw [hb] at hwt
          have hlt := writesAt_lt hwt
          unfold definedBefore at hdef
          simp only [Bool.or_eq_true, Bool.not_eq_true', List.any_eq_false, List.mem_range, List.any_eq_true] at hdef
          rcases hdef with hnone | ⟨j, hj, hjw⟩
          · have := hnone shn.op hlt
            rw [hwt] at this
            exact absurd rfl this
          · have hjo := h.onlyWriter shn hnn j (by rw [hb]; exact hjw)
            have hr1 := h.reads sh1 h1
            rw [ha] at hr1
            have := h.order i sh1.op w hwi hr1
            omega
        · -- `t` is upstream of `w`: `i` is the last operator of the chain, `t` is dead after the first
          obtain ⟨sh1, shn, h1, hnn, ha, hb, hle⟩ := c.ordered h
          have hio := h.onlyWriter shn hnn i (by rw [hb]; exact hwi)
          obtain ⟨hno, hnp, hnr⟩ := h.dead sh1 h1
          rw [ha] at hno hnp hnr
          unfold neededAfter readLater at hneed
          simp only [Bool.or_eq_true, List.any_eq_true, List.mem_range, Bool.and_eq_true, decide_eq_true_eq] at hneed
          rcases hneed with (ho | hp) | ⟨j, _, hij, hjr⟩
          · exact hno (List.contains_iff_mem.mp ho)
          · exact hnp (List.contains_iff_mem.mp hp)
          · have := hnr j (by omega)
            rw [hjr] at this
            exact Bool.noConfusion this

end VelaVerif.InPlaceSpec
