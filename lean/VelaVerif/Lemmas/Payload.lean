import VelaVerif.Model.Payload
import VelaVerif.Lemmas.Bits
/-! Helper lemmas for C17. -/
namespace VelaVerif.Payload
open VelaVerif.Gen VelaVerif.Bits

theorem makeDaTag_eq (id r p : Nat) (hid : id < 256) (hr : r < 256) :
    makeDaTag id r p = id + r * 256 + p * 65536 := by
  unfold makeDaTag
  have h1 : id ||| r <<< 8 = id + r * 2 ^ 8 := or_shift_eq_add id r 8 (by omega)
  rw [h1]
  have h2 : id + r * 2 ^ 8 < 2 ^ 16 := by omega
  rw [or_shift_eq_add _ p 16 h2]

theorem cmdStreamTag_eq (len : Nat) :
    cmdStreamTag len = 2 + (len / 65536 % 256) * 256 + (len % 65536) * 65536 := by
  unfold cmdStreamTag
  simp only [and_mask_shift16, and_low16]
  rw [makeDaTag_eq _ _ _ (by decide) (by omega)]
  rfl

theorem nopTag_eq : makeDaTag daNOP 0 0 = 5 := by decide

theorem tagId_cmdStreamTag (len : Nat) : tagId (cmdStreamTag len) = 2 := by
  rw [cmdStreamTag_eq]; unfold tagId; omega

theorem skipNops_replicate (n : Nat) (t : Nat) (rest : List Nat) (ht : tagId t ≠ daNOP) :
    skipNops (List.replicate n (makeDaTag daNOP 0 0) ++ t :: rest) = (n, t :: rest) := by
  induction n with
  | zero => simp [skipNops, ht]
  | succ k ih =>
    rw [List.replicate_succ, List.cons_append, skipNops]
    have : tagId (makeDaTag daNOP 0 0) = daNOP := by decide
    simp [this, ih]

theorem le32_length (w : Nat) : (le32 w).length = 4 := rfl

theorem fromLE32_le32 (w : Nat) (h : w < 2 ^ 32) (rest : List Nat) :
    fromLE32 (le32 w ++ rest) = w :: fromLE32 rest := by
  simp only [le32, List.cons_append, List.nil_append, fromLE32]
  congr 1
  omega

theorem fromLE32_flatMap (ws : List Nat) (h : ∀ w ∈ ws, w < 2 ^ 32) :
    fromLE32 (ws.flatMap le32) = ws := by
  induction ws with
  | nil => simp [fromLE32]
  | cons w ws ih =>
    rw [List.flatMap_cons, fromLE32_le32 w (h w (by simp))]
    rw [ih (fun x hx => h x (by simp [hx]))]

theorem flatMap_le32_length (ws : List Nat) : (ws.flatMap le32).length = 4 * ws.length := by
  induction ws with
  | nil => rfl
  | cons w ws ih => simp [List.flatMap_cons, le32_length, ih]; omega

end VelaVerif.Payload
