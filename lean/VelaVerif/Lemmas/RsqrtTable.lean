import VelaVerif.Lemmas.Lut
import VelaVerif.Spec.RsqrtRef
/-! Helper lemma for the int8 RSQRT table theorem of C19: one loop iteration of `create_lut_rsqrt_int8_op` equals one
element of the TFLite reference `RsqrtEvalQuantized`, for any constant table that agrees with the reference's
`GetInvSqrtQuantizedMultiplierExp` values. -/
namespace VelaVerif.Lut
open VelaVerif VelaVerif.FpMath

/-- every input zero point of the int8 range and every code at or above it (`value = x − zp_in ∈ [0, 255]`): the loop
    body = the reference element.  `value = 0` gives 127 on both sides (in the code either through `x == -128`, which
    forces `zp_in = -128`, or through `x_real == 0`); `value ≥ 1` is the table lookup. -/
theorem rsqrt_entry_eq (tbl : List Int)
    (htbl : ∀ n : Nat, n < 256 → n ≠ 0 → tbl[n]? = some (RsqrtRef.rsqrtData (n : Int)))
    (hI : ∀ v ∈ tbl, inI32 v = true)
    (zpIn zpOut mult shift x : Int) (hm : inI32 mult = true) (hs : 11 ≤ shift ∧ shift ≤ 42)
    (hz : -128 ≤ zpIn ∧ zpIn ≤ 127) (hx : zpIn ≤ x ∧ x ≤ 127) :
    rsqrtEntry tbl zpIn zpOut mult shift x = .ok (RsqrtRef.rsqrtRef zpIn zpOut mult (31 - shift) x) := by
  unfold rsqrtEntry RsqrtRef.rsqrtRef
  by_cases h128 : x = -128
  · have hzp : zpIn = -128 := by omega
    subst h128
    subst hzp
    rfl
  · have hb : (x == -128) = false := by simpa using h128
    by_cases h0 : x - zpIn = 0
    · have hmax : max 0 (x - zpIn) = 0 := by omega
      have hv : ((x - zpIn) == 0) = true := by simpa using h0
      simp only [hb, hmax, hv, Bool.false_eq_true, if_false, if_true]
      rfl
    · have hv : ((x - zpIn) == 0) = false := by simpa using h0
      have hmax : max 0 (x - zpIn) = x - zpIn := by omega
      simp only [hb, hmax, hv, Bool.false_eq_true, if_false]
      have hn1 : (x - zpIn).toNat < 256 := by omega
      have hn2 : (x - zpIn).toNat ≠ 0 := by omega
      have hcast : (((x - zpIn).toNat : Nat) : Int) = x - zpIn := by omega
      have hget := htbl (x - zpIn).toNat hn1 hn2
      rw [hcast] at hget
      rw [hget]
      simp only []
      have hmem : RsqrtRef.rsqrtData (x - zpIn) ∈ tbl := List.mem_of_getElem? hget
      have hv32 := hI _ hmem
      have hsh : shift - -20 = shift + 20 := by omega
      rw [hsh]
      have hfit : inI32 (RsqrtRef.rsqrtData (x - zpIn) * 2 ^ (if 31 - (shift + 20) > 0 then (31 - (shift + 20)).toNat else 0)) = true := by
        have : ¬ (31 - (shift + 20) > 0) := by omega
        simp only [this, if_false, Int.pow_zero, Int.mul_one]
        exact hv32
      rw [mbqm_eq _ mult (shift + 20) hm (by omega) (by omega) hfit]
      have e : (31 : Int) - (shift + 20) = 31 - shift - 20 := by omega
      rw [e]
      rfl

/-- codes below the input zero point (real input < 0, where the reference kernel fails its "Rsqrt is only defined for
    positive values" check): the repaired code yields the maximum 127, for any table, multiplier and shift -/
theorem rsqrt_entry_below (tbl : List Int) (zpIn zpOut mult shift x : Int) (hx : x < zpIn) :
    rsqrtEntry tbl zpIn zpOut mult shift x = .ok 127 := by
  unfold rsqrtEntry
  by_cases h128 : x = -128
  · subst h128
    rfl
  · have hb : (x == -128) = false := by simpa using h128
    have hmax : max 0 (x - zpIn) = 0 := by omega
    simp only [hb, hmax, Bool.false_eq_true, if_false]
    rfl

end VelaVerif.Lut
