import VelaVerif.Lemmas.Lut
import VelaVerif.Spec.RsqrtRef
/-! Helper lemma for the int8 RSQRT table theorem of C19: one loop iteration of `create_lut_rsqrt_int8_op` equals one
element of the TFLite reference `RsqrtEvalQuantized`, for any constant table that agrees with the reference's
`GetInvSqrtQuantizedMultiplierExp` values. -/
namespace VelaVerif.Lut
open VelaVerif VelaVerif.FpMath

theorem rsqrt_entry_eq (tbl : List Int)
    (htbl : ∀ n : Nat, n < 256 → n ≠ 0 → tbl[n]? = some (RsqrtRef.rsqrtData (n : Int)))
    (hI : ∀ v ∈ tbl, inI32 v = true)
    (zpOut mult shift x : Int) (hm : inI32 mult = true) (hs : 11 ≤ shift ∧ shift ≤ 42) (hx : -128 ≤ x ∧ x ≤ 127) :
    rsqrtEntry tbl (-128) zpOut mult shift x = .ok (RsqrtRef.rsqrtRef (-128) zpOut mult (31 - shift) x) := by
  unfold rsqrtEntry RsqrtRef.rsqrtRef
  by_cases h128 : x = -128
  · subst h128
    rfl
  · have hb : (x == -128) = false := by simpa using h128
    have hv : ((x - -128) == 0) = false := by
      have : x - -128 ≠ 0 := by omega
      simpa using this
    simp only [hb, hv, Bool.false_eq_true, if_false]
    have hmax : max 0 (x - -128) = x - -128 := by omega
    rw [hmax]
    have hn1 : (x - -128).toNat < 256 := by omega
    have hn2 : (x - -128).toNat ≠ 0 := by omega
    have hcast : (((x - -128).toNat : Nat) : Int) = x - -128 := by omega
    have hget := htbl (x - -128).toNat hn1 hn2
    rw [hcast] at hget
    rw [hget]
    simp only []
    have hmem : RsqrtRef.rsqrtData (x - -128) ∈ tbl := List.mem_of_getElem? hget
    have hv32 := hI _ hmem
    have hsh : shift - -20 = shift + 20 := by omega
    rw [hsh]
    have hfit : inI32 (RsqrtRef.rsqrtData (x - -128) * 2 ^ (if 31 - (shift + 20) > 0 then (31 - (shift + 20)).toNat else 0)) = true := by
      have : ¬ (31 - (shift + 20) > 0) := by omega
      simp only [this, if_false, Int.pow_zero, Int.mul_one]
      exact hv32
    rw [mbqm_eq _ mult (shift + 20) hm (by omega) (by omega) hfit]
    have e : (31 : Int) - (shift + 20) = 31 - shift - 20 := by omega
    rw [e]
    rfl

end VelaVerif.Lut
