import VelaVerif.Lemmas.FpMath
/-! Lemmas for `exp_on_interval_between_negative_one_quarter_and_0_excl` / `exp_on_negative_values` (C19):
magnitude bounds through the polynomial (so that no assert fires and no C addition wraps), the
barrel-shifter bit test, the fold over the seven stages. -/
namespace VelaVerif.FpMath
open VelaVerif

theorem nat_and_two_pow (n k : Nat) : n &&& 2 ^ k = if n.testBit k then 2 ^ k else 0 := by
  apply Nat.eq_of_testBit_eq
  intro i
  rw [Nat.testBit_and, Nat.testBit_two_pow]
  by_cases h : k = i
  · subst h; cases hb : n.testBit k <;> simp
  · cases hb : n.testBit k <;> simp [h]

/-- C `remainder & (1 << k)` is non-zero iff bit `k` of the two's-complement pattern is set, which for a
    floor-dividing `Int` is `(r / 2^k) % 2 ≠ 0` -/
theorem bit_test (r : Int) (k : Nat) (hk : k ≤ 30) :
    (Gemmlowp.bitAnd32 r (2 ^ k) ≠ 0) ↔ ((r / 2 ^ k) % 2 ≠ 0) := by
  have hp := two_pow_pos k
  have hle : (2:Int) ^ k ≤ 1073741824 := by
    have h : (2:Nat) ^ k ≤ 2 ^ 30 := Nat.pow_le_pow_right (by decide) hk
    have : ((2 ^ k : Nat) : Int) ≤ ((2 ^ 30 : Nat) : Int) := Int.ofNat_le.2 h
    simpa using this
  unfold Gemmlowp.bitAnd32 Gemmlowp.toU32
  have hm : ((2:Int) ^ k) % 2 ^ 32 = 2 ^ k := Int.emod_eq_of_lt (by omega) (by omega)
  rw [hm]
  have hn : ((2:Int) ^ k).toNat = 2 ^ k := by
    have : ((2:Int) ^ k) = ((2 ^ k : Nat) : Int) := by simp
    rw [this, Int.toNat_natCast]
  rw [hn]
  show Gemmlowp.cast32 (Int.ofNat ((r % 2 ^ 32).toNat &&& 2 ^ k)) ≠ 0 ↔ _
  rw [nat_and_two_pow, Nat.testBit_eq_decide_div_mod_eq]
  have h0 : 0 ≤ r % 2 ^ 32 := Int.emod_nonneg _ (by decide)
  have key : ((r % 2 ^ 32).toNat / 2 ^ k % 2 = 1) ↔ ((r / 2 ^ k) % 2 ≠ 0) := by
    have : (((r % 2 ^ 32).toNat / 2 ^ k % 2 : Nat) : Int) = (r % 2 ^ 32) / 2 ^ k % 2 := by
      rw [Int.natCast_mod, Int.natCast_ediv, Int.toNat_of_nonneg h0, Int.natCast_pow]; rfl
    have e32 : (2:Int) ^ 32 = 4294967296 := by decide
    rw [e32] at this
    have hk' : k ≤ 30 := hk
    clear hn hm hle hp h0
    interval_cases k <;> simp only [Int.reducePow, Nat.reducePow] at this ⊢ <;> omega
  by_cases hb : (r % 2 ^ 32).toNat / 2 ^ k % 2 = 1
  · have hnz := key.1 hb
    simp only [hb, decide_true, if_true]
    have : Gemmlowp.cast32 (Int.ofNat (2 ^ k)) = 2 ^ k := by
      have : Int.ofNat (2 ^ k) = (2:Int) ^ k := by simp
      rw [this]; exact cast32_id _ (by omega) (by omega)
    rw [this]
    constructor
    · intro _; exact hnz
    · intro _; omega
  · have hz : ¬ ((r / 2 ^ k) % 2 ≠ 0) := fun h => hb (key.2 h)
    simp only [hb, decide_false, Bool.false_eq_true, if_false]
    constructor
    · intro h; exact absurd (by decide : Gemmlowp.cast32 (Int.ofNat 0) = 0) h
    · intro h; exact absurd h hz

theorem srdhm32_bound (a b K : Int) (ha : inI32 a = true) (hb : inI32 b = true)
    (hK : K ≤ 4611686016279904256) (h : -K ≤ a * b ∧ a * b ≤ K) :
    -((K + 1073741824) / 2147483648) ≤ Gemmlowp.srdhm32 a b ∧ Gemmlowp.srdhm32 a b ≤ (K + 1073741824) / 2147483648 := by
  have ha' := (inI32_iff a).1 ha
  have hb' := (inI32_iff b).1 hb
  unfold Gemmlowp.srdhm32
  rw [int32Min_eq, int32Max_eq]
  simp only []
  by_cases hov : (a == b && a == i32min) = true
  · exfalso
    simp only [Bool.and_eq_true, beq_iff_eq] at hov
    obtain ⟨h1, h2⟩ := hov
    rw [← h1, h2] at h
    unfold i32min at h
    omega
  · simp only [hov, Bool.false_eq_true, if_false]
    generalize a * b = ab at h ⊢
    have hr := tdiv31_range (ab + if ab ≥ 0 then 2 ^ 30 else 1 - 2 ^ 30) (by split <;> omega) (by split <;> omega)
    rw [cast32_id _ hr.1 hr.2]
    by_cases hp : ab ≥ 0
    · simp only [hp, if_true]
      rw [Int.tdiv_eq_ediv_of_nonneg (by omega)]
      omega
    · simp only [hp, if_false]
      rw [tdiv_neg _ _ (by decide) (by omega)]
      split <;> omega

theorem ok_bind {α β : Type} (v : α) (f : α → Except Err β) : (Except.ok v >>= f) = f v := rfl

theorem inI32_of (x : Int) (h1 : -2147483648 ≤ x) (h2 : x ≤ 2147483647) : inI32 x = true := (inI32_iff x).2 ⟨h1, h2⟩

theorem add32_id (a b : Int) (h1 : -2147483648 ≤ a + b) (h2 : a + b ≤ 2147483647) : Gemmlowp.add32 a b = a + b :=
  cast32_id _ h1 h2

/-- bounds of `RoundingDivideByPOT` by 4 and by 2 -/
theorem rdbp2_bound (x : Int) : x / 4 ≤ Gemmlowp.roundingDivideByPOT x 2 ∧ Gemmlowp.roundingDivideByPOT x 2 ≤ x / 4 + 1 := by
  rw [rdbp_formula x 2 (by decide)]; split <;> omega
theorem rdbp1_bound (x : Int) : x / 2 ≤ Gemmlowp.roundingDivideByPOT x 1 ∧ Gemmlowp.roundingDivideByPOT x 1 ≤ x / 2 + 1 := by
  rw [rdbp_formula x 1 (by decide)]; split <;> omega

theorem expint_eq (a : Int) (h1 : -536870912 ≤ a) (h2 : a < 0) :
    expOnIntervalBetweenNegativeOneQuarterAnd0Excl a = .ok (Gemmlowp.expOnInterval a) := by
  have ha : inI32 a = true := inI32_of a (by omega) (by omega)
  unfold expOnIntervalBetweenNegativeOneQuarterAnd0Excl Gemmlowp.expOnInterval
  have hassert : ¬ ¬ (-(2:Int) ^ 29 ≤ a ∧ a < 0) := by
    have : (2:Int) ^ 29 = 536870912 := by decide
    rw [this]; omega
  simp only [chk32, ha, if_true, hassert, if_false]
  have e28 : (2:Int) ^ 28 = 268435456 := by decide
  rw [e28]
  -- x
  have hxr : -268435456 ≤ a + 268435456 ∧ a + 268435456 ≤ 268435455 := by omega
  rw [add32_id a 268435456 (by omega) (by omega)]
  generalize a + 268435456 = x at hxr
  have hx : inI32 x = true := inI32_of x (by omega) (by omega)
  -- x2
  have b2 := srdhm32_bound x x 72057594037927936 hx hx (by decide)
    (mul_bounds 268435456 268435456 x x (by omega) (by omega) (by omega) (by omega))
  rw [srdhm32_eq x x hx hx]
  generalize Gemmlowp.srdhm32 x x = x2 at b2
  have hx2 : inI32 x2 = true := inI32_of x2 (by omega) (by omega)
  have hx2r : -33554432 ≤ x2 ∧ x2 ≤ 33554432 := by omega
  -- x3
  have b3 := srdhm32_bound x2 x 9007199254740992 hx2 hx (by decide)
    (mul_bounds 33554432 268435456 x2 x (by omega) (by omega) (by omega) (by omega))
  -- x4
  have b4 := srdhm32_bound x2 x2 1125899906842624 hx2 hx2 (by decide)
    (mul_bounds 33554432 33554432 x2 x2 (by omega) (by omega) (by omega) (by omega))
  show (do let x3 ← saturatingRoundingMul32 x2 x; _) = _
  rw [srdhm32_eq x2 x hx2 hx]
  show (do let x4 ← saturatingRoundingMul32 x2 x2; _) = _
  rw [srdhm32_eq x2 x2 hx2 hx2]
  generalize Gemmlowp.srdhm32 x2 x = x3 at b3
  generalize Gemmlowp.srdhm32 x2 x2 = x4 at b4
  have hx3r : -4194304 ≤ x3 ∧ x3 ≤ 4194304 := by omega
  have hx4r : -524288 ≤ x4 ∧ x4 ≤ 524288 := by omega
  have hx4 : inI32 x4 = true := inI32_of x4 (by omega) (by omega)
  -- x4/4
  show (do let x4Over4 ← roundingDivideByPot x4 ((2:Nat):Int); _) = _
  rw [rdbp_eq x4 2 hx4 (by decide)]
  simp only [ok_bind]
  have e2 : Gemmlowp.saturatingRoundingMultiplyByPOT x4 (-2) = Gemmlowp.roundingDivideByPOT x4 2 := by
    unfold Gemmlowp.saturatingRoundingMultiplyByPOT; simp
  rw [e2]
  have b5 := rdbp2_bound x4
  generalize Gemmlowp.roundingDivideByPOT x4 2 = q4 at b5
  have hq4r : -131072 ≤ q4 ∧ q4 ≤ 131073 := by omega
  -- t
  have hs1r : -4325376 ≤ q4 + x3 ∧ q4 + x3 ≤ 4325377 := by omega
  rw [add32_id q4 x3 (by omega) (by omega)]
  generalize q4 + x3 = s1 at hs1r
  have hs1 : inI32 s1 = true := inI32_of s1 (by omega) (by omega)
  have hc13 : inI32 expConstant1Over3 = true := by decide
  show (do let t ← saturatingRoundingMul32 s1 expConstant1Over3; _) = _
  rw [srdhm32_eq s1 expConstant1Over3 hs1 hc13]
  simp only [ok_bind]
  have b6 := srdhm32_bound s1 expConstant1Over3 3096225597333891 hs1 hc13 (by decide)
    (by unfold expConstant1Over3; omega)
  have ec13 : expConstant1Over3 = 715827883 := rfl
  rw [ec13] at b6 ⊢
  generalize Gemmlowp.srdhm32 s1 715827883 = t at b6
  have htr : -1441793 ≤ t ∧ t ≤ 1441793 := by omega
  rw [add32_id t x2 (by omega) (by omega)]
  have hs2r : -34996225 ≤ t + x2 ∧ t + x2 ≤ 34996225 := by omega
  generalize t + x2 = s2 at hs2r
  have hs2 : inI32 s2 = true := inI32_of s2 (by omega) (by omega)
  show (do let poly ← roundingDivideByPot s2 ((1:Nat):Int); _) = _
  rw [rdbp_eq s2 1 hs2 (by decide)]
  simp only [ok_bind]
  have e3 : Gemmlowp.saturatingRoundingMultiplyByPOT s2 (-1) = Gemmlowp.roundingDivideByPOT s2 1 := by
    unfold Gemmlowp.saturatingRoundingMultiplyByPOT; simp
  rw [e3]
  have b7 := rdbp1_bound s2
  generalize Gemmlowp.roundingDivideByPOT s2 1 = poly at b7
  have hpr : -17498113 ≤ poly ∧ poly ≤ 17498113 := by omega
  rw [add32_id x poly (by omega) (by omega)]
  have hyr : -285933569 ≤ x + poly ∧ x + poly ≤ 285933568 := by omega
  generalize x + poly = y at hyr
  have hy : inI32 y = true := inI32_of y (by omega) (by omega)
  have hct : inI32 expConstantTerm = true := by decide
  show (do let m ← saturatingRoundingMul32 expConstantTerm y; _) = _
  rw [srdhm32_eq expConstantTerm y hct hy]
  simp only [ok_bind]
  have b8 := srdhm32_bound expConstantTerm y 541886336493267092 hct hy (by decide)
    (by unfold expConstantTerm; omega)
  have ect : expConstantTerm = 1895147668 := rfl
  rw [ect] at b8 ⊢
  generalize Gemmlowp.srdhm32 1895147668 y = m at b8
  have hmr : -252335489 ≤ m ∧ m ≤ 252335489 := by omega
  show Except.ok (wrap32 (1895147668 + m)) = _
  rw [add32_id 1895147668 m (by omega) (by omega)]
  congr 1
  unfold wrap32; omega


/-- the body of one `GEMMLOWP_EXP_BARREL_SHIFTER` step as it appears in `Gemmlowp.expOnNegativeValues` -/
def specStage (remainder : Int) (res : Int) (st : Int × Int) : Int :=
  if (5:Int) > st.1 then
    let kShiftAmount := ((26:Int) + st.1).toNat
    if Gemmlowp.bitAnd32 remainder (2 ^ kShiftAmount) ≠ 0 then Gemmlowp.srdhm32 res st.2 else res
  else res

theorem specStage_range (remainder res : Int) (st : Int × Int) (hr : inI32 res = true) :
    inI32 (specStage remainder res st) = true := by
  unfold specStage
  split
  · simp only []
    split
    · exact srdhm32_range _ _
    · exact hr
  · exact hr

theorem stage_eq (remainder res : Int) (st : Int × Int) (hr : inI32 res = true)
    (hs : -26 ≤ st.1 ∧ st.1 ≤ 4) (hm : inI32 st.2 = true) :
    expBarrelShifter remainder st res = .ok (specStage remainder res st) := by
  unfold expBarrelShifter specStage
  have h5 : (5:Int) > st.1 := by omega
  simp only [h5, if_true]
  have hk : ((26:Int) + st.1).toNat ≤ 30 := by omega
  have hb := bit_test remainder ((26:Int) + st.1).toNat hk
  by_cases hbit : (remainder / 2 ^ ((26:Int) + st.1).toNat) % 2 ≠ 0
  · have := hb.2 hbit
    simp only [hbit, this, if_true, ne_eq, not_false_eq_true]
    exact srdhm32_eq _ _ hr hm
  · have : ¬ (Gemmlowp.bitAnd32 remainder (2 ^ ((26:Int) + st.1).toNat) ≠ 0) := fun h => hbit (hb.1 h)
    simp only [hbit, this, if_false]
    rfl

theorem fold_eq (remainder : Int) (stages : List (Int × Int))
    (hst : ∀ st ∈ stages, (-26 ≤ st.1 ∧ st.1 ≤ 4) ∧ inI32 st.2 = true) :
    ∀ res, inI32 res = true →
      stages.foldlM (fun r st => expBarrelShifter remainder st r) res = .ok (stages.foldl (specStage remainder) res) ∧
      inI32 (stages.foldl (specStage remainder) res) = true := by
  induction stages with
  | nil => intro res hr; exact ⟨rfl, hr⟩
  | cons st t ih =>
    intro res hr
    have h1 := hst st (by simp)
    have ht := ih (fun s hs => hst s (by simp [hs]))
    have hnext := specStage_range remainder res st hr
    have := ht (specStage remainder res st) hnext
    rw [List.foldlM_cons, stage_eq remainder res st hr h1.1 h1.2, List.foldl_cons]
    exact this

theorem rescale5_val (x : Int) (h1 : -16777216 ≤ x) (h2 : x ≤ -1) : Gemmlowp.rescale 5 0 x = x * 32 := by
  unfold Gemmlowp.rescale Gemmlowp.saturatingRoundingMultiplyByPOT Gemmlowp.srmbpPos Gemmlowp.shiftLeft32
    Gemmlowp.int32Min Gemmlowp.int32Max
  have e : ((5:Int) - 0).toNat = 5 := by decide
  simp only [e]
  have e1 : ((5:Int) - 0 > 0) := by decide
  simp only [e1, if_true]
  have e2 : (2:Int) ^ (32 - 1 - 5) = 67108864 := by decide
  have e3 : (2:Int) ^ 5 = 32 := by decide
  have e4 : (2:Int) ^ 31 = 2147483648 := by decide
  rw [e2, e3, e4]
  have c1 : ¬ (x * 32 < -2147483648) := by omega
  have c2 : ¬ (x * 32 > 2147483648 - 1) := by omega
  have c3 : ¬ (x > 67108864 - 1) := by omega
  have c4 : ¬ (x < -(67108864 - 1)) := by omega
  simp only [c1, c2, c3, c4, if_false]
  exact cast32_id _ (by omega) (by omega)

theorem expneg_eq (a : Int) (ha : inI32 a = true) (h0 : a ≤ 0) :
    expOnNegativeValues a = .ok (Gemmlowp.expOnNegativeValues a) := by
  have ha' := (inI32_iff a).1 ha
  unfold expOnNegativeValues Gemmlowp.expOnNegativeValues
  have hassert : ¬ ¬ (a ≤ 0) := by omega
  simp only [chk32, ha, if_true, hassert, if_false]
  have em : Gemmlowp.sub32 (2 ^ 24) 1 = 2 ^ 24 - 1 := by decide
  rw [em, bitAnd32_mask a 24 (by decide)]
  have e24 : (2:Int) ^ 24 = 16777216 := by decide
  rw [e24]
  have hamq : -16777216 ≤ a % 16777216 - 16777216 ∧ a % 16777216 - 16777216 ≤ -1 := by omega
  have es : Gemmlowp.sub32 (a % 16777216) 16777216 = a % 16777216 - 16777216 := cast32_id _ (by omega) (by omega)
  rw [es]
  have hrem : Gemmlowp.sub32 (a % 16777216 - 16777216) a = a % 16777216 - 16777216 - a := cast32_id _ (by omega) (by omega)
  rw [hrem]
  generalize a % 16777216 - 16777216 = amq at hamq
  have hamqI : inI32 amq = true := inI32_of amq (by omega) (by omega)
  rw [rescale_eq 5 0 amq (by decide) (by decide) hamqI (by decide) (by decide)]
  simp only [ok_bind]
  rw [rescale5_val amq hamq.1 hamq.2]
  rw [expint_eq (amq * 32) (by omega) (by omega)]
  simp only [ok_bind]
  have hres : inI32 (Gemmlowp.expOnInterval (amq * 32)) = true := by
    unfold Gemmlowp.expOnInterval Gemmlowp.add32; exact cast32_range _
  generalize Gemmlowp.expOnInterval (amq * 32) = res0 at hres
  have hf := fold_eq (amq - a) expBarrelStages (by decide) res0 hres
  rw [hf.1]
  simp only [ok_bind]
  have : expBarrelStages = Gemmlowp.expBarrel := rfl
  rw [this]
  have efold : List.foldl (specStage (amq - a)) res0 Gemmlowp.expBarrel =
      List.foldl (fun (res : Int) (st : Int × Int) =>
        if (5:Int) > st.1 then
          let kShiftAmount := ((26:Int) + st.1).toNat
          if Gemmlowp.bitAnd32 (amq - a) (2 ^ kShiftAmount) ≠ 0 then Gemmlowp.srdhm32 res st.2 else res
        else res) res0 Gemmlowp.expBarrel := rfl
  rw [efold, int32Max_eq]
  by_cases hz : (a == 0) = true
  · simp only [hz, if_true]; rfl
  · simp only [hz]; rfl

end VelaVerif.FpMath
