import VelaVerif.Model.PassPacking
/-!
# Lemmas about the walk of `build_pass` (`Model/PassPacking.lean`: `walkStep`, `walkRun`)

Frame lemmas of the small steps, the specification of `findRow`, and the invariants of the walk:
* `Trace`   every accepted operator was accepted by the row recorded for it, at the flags accumulated from the earlier ones;
* `AccOk`   every accepted operator is a start operator or was reached over a tensor through which `can_pack` allowed it, from an
            operator accepted before; no operator is accepted twice.
-/
namespace VelaVerif.Lemmas.PassPackingWalk
open VelaVerif.PassPacking VelaVerif.Gen.PassPacking

variable (R : Rules) (G : Graph)

@[simp] theorem fail_acc (w : Walk) (m : String) : (w.fail m).acc = w.acc := rfl
@[simp] theorem fail_flags (w : Walk) (m : String) : (w.fail m).flags = w.flags := rfl
@[simp] theorem fail_queue (w : Walk) (m : String) : (w.fail m).queue = [] := rfl
@[simp] theorem fail_inputSet (w : Walk) (m : String) : (w.fail m).inputSet = w.inputSet := rfl
@[simp] theorem fail_ops (w : Walk) (m : String) : (w.fail m).ops = w.ops := rfl
@[simp] theorem fail_err (w : Walk) (m : String) : (w.fail m).err = some m := rfl
@[simp] theorem fail_blockType (w : Walk) (m : String) : (w.fail m).blockType = w.blockType := rfl
@[simp] theorem fail_primary (w : Walk) (m : String) : (w.fail m).primary = w.primary := rfl
@[simp] theorem fail_ifm (w : Walk) (m : String) : (w.fail m).ifm = w.ifm := rfl
@[simp] theorem fail_ifmShapes (w : Walk) (m : String) : (w.fail m).ifmShapes = w.ifmShapes := rfl

theorem canPack_true_iff (R : Rules) (G : Graph) (inp cur : Nat) :
    canPack R G inp cur = some true ↔ ∃ nx, (G.tensor inp).ops = [nx] ∧ cpActOk R (G.op cur) (G.op nx) = true ∧
      cpTransposeOk R (G.op nx) = true ∧ cpConsumersOk G (G.op nx) cur = true ∧ cpShape inp (G.op cur) (G.op nx) = some true ∧
      cpReadOk R inp (G.op cur) = true := by
  unfold canPack
  split
  · rename_i nx hnx
    constructor
    · intro h
      refine ⟨nx, hnx, ?_⟩
      revert h
      generalize cpActOk R (G.op cur) (G.op nx) = a1
      generalize cpTransposeOk R (G.op nx) = a2
      generalize cpConsumersOk G (G.op nx) cur = a3
      generalize cpShape inp (G.op cur) (G.op nx) = a4
      generalize cpReadOk R inp (G.op cur) = a5
      cases a1 <;> cases a2 <;> cases a3 <;> cases a4 with
        | none => simp
        | some b => cases b <;> simp
    · rintro ⟨nx', hnx', h1, h2, h3, h4, h5⟩
      have : nx' = nx := by rw [hnx] at hnx'; simpa using hnx'.symm
      subst this
      simp [h1, h2, h3, h4, h5]
  · rename_i hne
    constructor
    · intro h; simp at h
    · rintro ⟨nx, hnx, _⟩; exact absurd hnx (hne nx)



/-- `scanInputs` only touches the queue, the input set and the error -/
theorem scanInputs_frame (cur : Nat) (l : List (Option Nat)) (w : Walk) :
    (scanInputs R G cur l w).acc = w.acc ∧ (scanInputs R G cur l w).flags = w.flags ∧
    (scanInputs R G cur l w).blockType = w.blockType ∧ (scanInputs R G cur l w).primary = w.primary ∧
    (scanInputs R G cur l w).ifm = w.ifm ∧ (scanInputs R G cur l w).ifmShapes = w.ifmShapes := by
  induction l generalizing w with
  | nil => simp [scanInputs]
  | cons i rest ih =>
    cases i with
    | none => simpa [scanInputs] using ih w
    | some inp =>
      simp only [scanInputs]
      split
      · simp
      · have := ih { w with queue := w.queue ++ [⟨(G.tensor inp).ops.headD 0, some inp, some cur⟩] }
        simpa using this
      · have := ih { w with inputSet := setInsert w.inputSet inp }
        simpa using this

theorem setIfm_frame (w : Walk) (o : POp) (r : Row) :
    (setIfm G w o r).acc = w.acc ∧ (setIfm G w o r).flags = w.flags ∧ (setIfm G w o r).blockType = w.blockType ∧
    (setIfm G w o r).primary = w.primary ∧ (setIfm G w o r).inputSet = w.inputSet ∧
    ((setIfm G w o r).queue = w.queue ∨ (setIfm G w o r).queue = []) := by
  unfold setIfm
  split
  · split
    · simp
    · split
      · simp
      · split <;> simp
  · simp

/-- `acceptOp` either leaves `acc` and `flags` alone (the block type assertion) or adds the new entry and steps the flags -/
theorem acceptOp_acc (w : Walk) (q : QItem) (ri : Nat) (r : Row) :
    ((acceptOp R G w q ri r).acc = w.acc ∧ (acceptOp R G w q ri r).flags = w.flags ∧ (acceptOp R G w q ri r).queue = []) ∨
    ((acceptOp R G w q ri r).acc = newAcc q ri :: w.acc ∧ (acceptOp R G w q ri r).flags = flagStep w.flags r) := by
  unfold acceptOp
  simp only []
  have hf := setIfm_frame G (acceptCore G w q ri r) (G.op q.op) r
  split
  · left; simp
  · right
    split
    · exact ⟨hf.1, hf.2.1⟩
    · split
      · simp only [fail_acc, fail_flags]; exact ⟨hf.1, hf.2.1⟩
      · have hs := scanInputs_frame R G q.op (G.op q.op).inputs.reverse (setIfm G (acceptCore G w q ri r) (G.op q.op) r)
        exact ⟨hs.1.trans hf.1, hs.2.1.trans hf.2.1⟩

theorem findRowFrom_spec (ty : Nat) (npu : Bool) (f : Nat) (k : Nat) (rs : List Row) (i : Nat) (r : Row)
    (h : findRowFrom ty npu f k rs = some (i, r)) :
    k ≤ i ∧ rs[i - k]? = some r ∧ rowAccepts r ty npu f = true := by
  induction rs generalizing k with
  | nil => simp [findRowFrom] at h
  | cons r0 rest ih =>
    simp only [findRowFrom] at h
    split at h
    · rename_i hacc
      simp only [Option.some.injEq, Prod.mk.injEq] at h
      obtain ⟨rfl, rfl⟩ := h
      simp [hacc]
    · have := ih (k + 1) h
      obtain ⟨h1, h2, h3⟩ := this
      refine ⟨by omega, ?_, h3⟩
      have : i - k = (i - (k + 1)) + 1 := by omega
      rw [this]; simpa using h2

theorem findRow_spec (ty : Nat) (npu : Bool) (f : Nat) (i : Nat) (r : Row) (h : findRow R ty npu f = some (i, r)) :
    R.rows[i]? = some r ∧ rowAccepts r ty npu f = true := by
  have := findRowFrom_spec ty npu f 0 R.rows i r h
  simpa using this.2


/-- the accepted operators (newest first) with the flags they leave behind -/
inductive Trace : List Acc → Nat → Prop
  | nil : Trace [] 0
  | cons (a : Acc) (rest : List Acc) (f : Nat) (r : Row) : Trace rest f → R.rows[a.row]? = some r →
      rowAccepts r (G.op a.op).type (G.op a.op).runOnNpu f = true → Trace (a :: rest) (flagStep f r)

/-- how an accepted operator got there -/
def AccOk (start : List Nat) : List Acc → Prop
  | [] => True
  | a :: rest => AccOk start rest ∧ a.op ∉ rest.map (·.op) ∧
      (match a.via with
       | none => a.op ∈ start
       | some (t, c) => c ∈ rest.map (·.op) ∧ canPack R G t c = some true ∧ (G.tensor t).ops = [a.op] ∧ some t ∈ (G.op c).inputs)

/-- a queue item is a start operator or the producer of an input of an accepted operator that `can_pack` lets through -/
def QOk (ops : List Nat) (start : List Nat) (q : QItem) : Prop :=
  match q.tens, q.cons with
  | none, none => q.op ∈ start
  | some t, some c => c ∈ ops ∧ canPack R G t c = some true ∧ (G.tensor t).ops = [q.op] ∧ some t ∈ (G.op c).inputs
  | _, _ => False

structure WInv (start : List Nat) (w : Walk) : Prop where
  trace : Trace R G w.acc w.flags
  acc : AccOk R G start w.acc
  queue : ∀ q ∈ w.queue, QOk R G w.ops start q

theorem QOk_mono {ops ops' : List Nat} {start : List Nat} {q : QItem} (h : QOk R G ops start q) (hs : ∀ x ∈ ops, x ∈ ops') :
    QOk R G ops' start q := by
  unfold QOk at *
  split <;> simp_all

theorem canPack_true_ops {inp cur : Nat} (h : canPack R G inp cur = some true) :
    (G.tensor inp).ops = [(G.tensor inp).ops.headD 0] := by
  obtain ⟨nx, hnx, _⟩ := (canPack_true_iff R G inp cur).mp h
  simp [hnx]

/-- the queue items `scanInputs` adds are fine, the old ones stay -/
theorem scanInputs_queue (cur : Nat) (l : List (Option Nat)) (w : Walk) (ops start : List Nat)
    (hq : ∀ q ∈ w.queue, QOk R G ops start q) (hc : cur ∈ ops) (hl : ∀ i ∈ l, i ∈ (G.op cur).inputs) :
    ∀ q ∈ (scanInputs R G cur l w).queue, QOk R G ops start q := by
  induction l generalizing w with
  | nil => simpa [scanInputs] using hq
  | cons i rest ih =>
    have hl' : ∀ i ∈ rest, i ∈ (G.op cur).inputs := fun i hi => hl i (List.mem_cons_of_mem _ hi)
    cases i with
    | none => simpa [scanInputs] using ih w hq hl'
    | some inp =>
      simp only [scanInputs]
      split
      · simp
      · rename_i hcp
        apply ih _ _ hl'
        intro q hq'
        simp only [List.mem_append, List.mem_singleton] at hq'
        rcases hq' with hq' | rfl
        · exact hq q hq'
        · simp only [QOk]
          refine ⟨hc, hcp, ?_, hl _ (List.mem_cons_self)⟩
          exact canPack_true_ops R G hcp
      · apply ih _ _ hl'
        simpa using hq


theorem acceptOp_queue (w : Walk) (q : QItem) (ri : Nat) (r : Row) (start : List Nat)
    (hq : ∀ x ∈ w.queue, QOk R G (q.op :: w.ops) start x) :
    ∀ x ∈ (acceptOp R G w q ri r).queue, QOk R G (q.op :: w.ops) start x := by
  unfold acceptOp
  simp only []
  have hf := setIfm_frame G (acceptCore G w q ri r) (G.op q.op) r
  split
  · simp
  · split
    · rcases hf.2.2.2.2.2 with h | h
      · rw [h]; exact hq
      · rw [h]; simp
    · split
      · simp
      · apply scanInputs_queue R G q.op _ _ (q.op :: w.ops) start
        · rcases hf.2.2.2.2.2 with h | h
          · rw [h]; exact hq
          · rw [h]; simp
        · simp
        · intro i hi; simpa using hi

theorem Walk.ops_cons (w : Walk) (a : Acc) : ({ w with acc := a :: w.acc } : Walk).ops = a.op :: w.ops := rfl

theorem walkStep_inv (start : List Nat) (w : Walk) (h : WInv R G start w) : WInv R G start (walkStep R G w) := by
  unfold walkStep
  split
  · exact h
  · rename_i q rest hqr
    have hq : QOk R G w.ops start q := h.queue q (by simp [hqr])
    have hrest : ∀ x ∈ rest, QOk R G w.ops start x := fun x hx => h.queue x (by simp [hqr, hx])
    simp only []
    split
    · exact ⟨h.trace, h.acc, hrest⟩
    · rename_i hnc
      split
      · rename_i ri r hfr
        have hrow := findRow_spec R _ _ _ _ _ hfr
        have hcases := acceptOp_acc R G { w with queue := rest } q ri r
        have hqueue := acceptOp_queue R G { w with queue := rest } q ri r start
          (fun x hx => QOk_mono R G (hrest x hx) (fun y hy => List.mem_cons_of_mem _ hy))
        rcases hcases with ⟨ha, hf, hq0⟩ | ⟨ha, hf⟩
        · refine ⟨?_, ?_, ?_⟩
          · rw [ha, hf]; exact h.trace
          · rw [ha]; exact h.acc
          · rw [hq0]; simp
        · refine ⟨?_, ?_, ?_⟩
          · rw [ha, hf]
            exact Trace.cons _ _ _ r h.trace (by simpa [newAcc] using hrow.1) (by simpa [newAcc] using hrow.2)
          · rw [ha]
            refine ⟨h.acc, ?_, ?_⟩
            · simpa [newAcc, Walk.ops] using hnc
            · unfold QOk at hq
              simp only [newAcc]
              split at hq
              · rename_i h1 h2; simp only [h1, h2]; exact hq
              · rename_i t c h1 h2; simp only [h1, h2]; simpa [Walk.ops] using hq
              · exact hq.elim
          · intro x hx
            have : (acceptOp R G { w with queue := rest } q ri r).ops = q.op :: w.ops := by
              simp [Walk.ops, ha, newAcc]
            rw [this]; exact hqueue x hx
      · split
        · exact ⟨h.trace, h.acc, by simp⟩
        · exact ⟨h.trace, h.acc, hrest⟩

theorem walkRun_inv (start : List Nat) (n : Nat) (w : Walk) (h : WInv R G start w) : WInv R G start (walkRun R G n w) := by
  induction n generalizing w with
  | zero =>
    simp only [walkRun]; split
    · exact h
    · exact ⟨h.trace, h.acc, by simp⟩
  | succ n ih =>
    simp only [walkRun]; split
    · exact h
    · exact ih _ (walkStep_inv R G start w h)

theorem walkStart_inv (start : List Nat) : WInv R G start (walkStart start) := by
  refine ⟨Trace.nil, trivial, ?_⟩
  intro q hq
  simp only [walkStart, List.mem_map] at hq
  obtain ⟨o, ho, rfl⟩ := hq
  simpa [QOk] using ho

end VelaVerif.Lemmas.PassPackingWalk
