import VelaVerif.Model.SchedMem
import VelaVerif.Spec.SchedMem
/-!
# Lemmas about the model of the scheduler's memory bookkeeping (`Model/SchedMem.lean`)
-/
namespace VelaVerif.SchedMem
open VelaVerif.Cascade VelaVerif.Spec.SchedMem

def BufferMap.Consistent (bm : BufferMap) (ops : List SOp) (cost : CostMap) : Prop :=
  ∀ p ∈ ops, ∀ c ∈ ops, ∀ v, bm.lookup (some p.index, some c.index) = some v → computeBuffer (some p) (some c) cost = .ok v

def UniqueIdx (ops : List SOp) : Prop := ∀ a ∈ ops, ∀ b ∈ ops, a.index = b.index → a = b

theorem getBuffer_spec {bm : BufferMap} {ops : List SOp} {cost : CostMap} {p c : SOp} {bm' : BufferMap} {v : Shape4 × Nat}
    (hc : bm.Consistent ops cost) (hu : UniqueIdx ops) (hp : p ∈ ops) (hcm : c ∈ ops)
    (h : getBuffer bm (some p) (some c) cost = .ok (bm', v)) :
    bm'.Consistent ops cost ∧ computeBuffer (some p) (some c) cost = .ok v := by
  unfold getBuffer at h
  simp only [Option.isNone_some, Bool.and_self, Bool.false_eq_true, ↓reduceIte, bufKey, Option.map_some] at h
  split at h
  · next v' hl =>
    simp only [Except.ok.injEq, Prod.mk.injEq] at h
    obtain ⟨rfl, rfl⟩ := h
    exact ⟨hc, hc p hp c hcm _ hl⟩
  · next hl =>
    cases hcb : computeBuffer (some p) (some c) cost with
    | error e => simp [hcb, bind, Except.bind] at h
    | ok w =>
      simp only [hcb, bind, Except.bind, Except.ok.injEq, Prod.mk.injEq] at h
      obtain ⟨rfl, rfl⟩ := h
      refine ⟨?_, rfl⟩
      intro p' hp' c' hc' v' hl'
      rw [List.lookup_append] at hl'
      cases hl2 : List.lookup (some p'.index, some c'.index) bm with
      | some x => simp [hl2] at hl'; subst hl'; exact hc p' hp' c' hc' _ hl2
      | none =>
        simp [hl2, List.lookup] at hl'
        split at hl'
        · next heq =>
          simp at heq hl'
          have := hu p' hp' p hp heq.1
          have := hu c' hc' c hcm heq.2
          subst_vars; exact hcb
        · simp at hl'
/-- consecutive operations of `ops` joined by rolling buffers: indices `i, i+1, …`, no side of a pair needs its
    feature map in full -/
def RChain (ops : List SOp) : List SOp → Prop
  | [] => True
  | [a] => a ∈ ops
  | a :: b :: rest => a ∈ ops ∧ a.index + 1 = b.index ∧ a.reqFullOfm = false ∧ b.reqFullIfm = false ∧ RChain ops (b :: rest)

def pairSize (ref : CostMap) (p c : SOp) : Nat :=
  match computeBuffer (some p) (some c) ref with | .ok v => v.2 | .error _ => 0

def wbOf (ref : CostMap) (op : SOp) : Nat :=
  match ref.lookup op.index with | some rc => sumNat rc.weightBuffers | none => 0

/-- weight buffers of all operations of the chain + the buffers between consecutive operations -/
def chainBuffers (ref : CostMap) : List SOp → Nat
  | [] => 0
  | [a] => wbOf ref a
  | a :: b :: rest => wbOf ref a + pairSize ref a b + chainBuffers ref (b :: rest)

theorem RChain_mem {ops : List SOp} : ∀ {l : List SOp}, RChain ops l → ∀ x ∈ l, x ∈ ops
  | [], _, x, hx => by simp at hx
  | [a], h, x, hx => by simp at hx; subst hx; exact h
  | a :: b :: rest, h, x, hx => by
    simp only [List.mem_cons] at hx
    rcases hx with rfl | hx
    · exact h.1
    · exact RChain_mem (l := b :: rest) h.2.2.2.2 x (by simpa using hx)

theorem RChain_append {ops : List SOp} {c : SOp} (hc : c ∈ ops) :
    ∀ {l : List SOp} {p : SOp}, RChain ops l → l.getLast? = some p → p.index + 1 = c.index → p.reqFullOfm = false →
      c.reqFullIfm = false → RChain ops (l ++ [c])
  | [], p, _, hl, _, _, _ => by simp at hl
  | [a], p, h, hl, hi, h1, h2 => by
    simp at hl; subst hl
    exact ⟨h, hi, h1, h2, hc⟩
  | a :: b :: rest, p, h, hl, hi, h1, h2 => by
    have hl' : (b :: rest).getLast? = some p := by simpa [List.getLast?_cons_cons] using hl
    exact ⟨h.1, h.2.1, h.2.2.1, h.2.2.2.1, RChain_append hc (l := b :: rest) h.2.2.2.2 hl' hi h1 h2⟩

theorem chainBuffers_append (ref : CostMap) (c : SOp) :
    ∀ {l : List SOp} {p : SOp}, l.getLast? = some p →
      chainBuffers ref (l ++ [c]) = chainBuffers ref l + pairSize ref p c + wbOf ref c
  | [], p, hl => by simp at hl
  | [a], p, hl => by simp at hl; subst hl; simp [chainBuffers]
  | a :: b :: rest, p, hl => by
    have hl' : (b :: rest).getLast? = some p := by simpa [List.getLast?_cons_cons] using hl
    have := chainBuffers_append ref c (l := b :: rest) hl'
    simp only [List.cons_append, chainBuffers] at this ⊢
    omega

def lastOfm (l : List SOp) : Nat := match l.getLast? with | some o => o.ofm.sizeInBytes | none => 0

/-- what the builder attributes to the chain `l` proposed from `first` (including the non-local usage of `first` when
    the feature maps are in SRAM) -/
def cascadeSizeOf (b : Builder) (ref : CostMap) (first : SOp) (cascadeIfm : Nat) (l : List SOp) : Int :=
  if b.spilling then (chainBuffers ref l : Int)
  else ((cascadeIfm + chainBuffers ref l + lastOfm l : Nat) : Int) + b.nl first.index

structure InnerPost (b : Builder) (ref : CostMap) (first : SOp) (cascadeIfm : Nat) (peak : Int) (s : Inner) : Prop where
  bm : s.bm.Consistent b.ops ref
  chainBest : RChain b.ops s.best
  headBest : s.best.head? = some first
  size : s.best.length > 1 → s.bestSize = cascadeSizeOf b ref first cascadeIfm s.best
  hard : b.spilling = true → s.best.length > 1 → s.bestSize ≤ peak

structure InnerInv (b : Builder) (ref : CostMap) (first : SOp) (cascadeIfm : Nat) (peak : Int) (s : Inner) : Prop
    extends InnerPost b ref first cascadeIfm peak s where
  chainIn : RChain b.ops s.inCascade
  lastIn : s.inCascade.getLast? = some s.producer
  headIn : s.inCascade.head? = some first
  buffers : s.cascadeBuffers = chainBuffers ref s.inCascade

theorem findOp_mem {b : Builder} {i : Nat} {op : SOp} (h : b.findOp i = some op) : op ∈ b.ops ∧ op.index = i := by
  unfold Builder.findOp at h
  exact ⟨List.mem_of_find?_eq_some h, by simpa using List.find?_some h⟩

theorem innerLoop_post (b : Builder) (ref fb : CostMap) (assigned : List Nat) (first : SOp) (cascadeIfm : Nat) (peak : Int)
    (hu : UniqueIdx b.ops) :
    ∀ (fuel : Nat) (s s' : Inner), InnerInv b ref first cascadeIfm peak s →
      innerLoop b ref fb assigned first cascadeIfm peak fuel s = .ok s' → InnerPost b ref first cascadeIfm peak s' := by
  intro fuel
  induction fuel with
  | zero => intro s s' _ h; simp [innerLoop] at h
  | succ fuel ih =>
    intro s s' hinv h
    unfold innerLoop at h
    split at h
    · next d hd =>
      split at h
      · simp at h; subst h; exact hinv.toInnerPost
      · next cur hcur =>
        obtain ⟨hcurm, _⟩ := findOp_mem hcur
        split at h
        · simp at h; subst h; exact hinv.toInnerPost
        split at h
        · simp at h; subst h; exact hinv.toInnerPost
        next rc hrc =>
        split at h
        · simp at h; subst h; exact hinv.toInnerPost
        next hcond =>
        split at h
        · simp at h; subst h; exact hinv.toInnerPost
        next hidx =>
        have hprodm : s.producer ∈ b.ops := RChain_mem hinv.chainIn _ (List.mem_of_getLast? hinv.lastIn)
        cases hgb : getBuffer s.bm (some s.producer) (some cur) ref with
        | error e => simp [hgb, bind, Except.bind] at h
        | ok r =>
          obtain ⟨bm', buf⟩ := r
          obtain ⟨hbm', hcb⟩ := getBuffer_spec hinv.bm hu hprodm hcurm hgb
          simp only [hgb, bind, Except.bind] at h
          cases hfb : lookupCost fb cur.index with
          | error e => simp [hfb] at h
          | ok fbc =>
            simp only [hfb] at h
            have hps : pairSize ref s.producer cur = buf.2 := by simp [pairSize, hcb]
            have hwb : wbOf ref cur = sumNat rc.weightBuffers := by simp [wbOf, hrc]
            simp only [Bool.or_eq_true, not_or, Bool.not_eq_true] at hcond
            have hidx' : s.producer.index + 1 = cur.index := by simpa using hidx
            have hne : s.inCascade ≠ [] := by
              intro he; have := hinv.lastIn; simp [he] at this
            have hchain' : RChain b.ops (s.inCascade ++ [cur]) :=
              RChain_append hcurm hinv.chainIn hinv.lastIn hidx' hcond.2 hcond.1.2
            have hbuf' : s.cascadeBuffers + buf.2 + sumNat rc.weightBuffers = chainBuffers ref (s.inCascade ++ [cur]) := by
              rw [chainBuffers_append ref cur hinv.lastIn, hps, hwb, hinv.buffers]
            have hlast' : (s.inCascade ++ [cur]).getLast? = some cur := by simp
            have hhead' : (s.inCascade ++ [cur]).head? = some first := by
              have := hinv.headIn
              cases hl : s.inCascade with
              | nil => exact absurd hl hne
              | cons a t => simp [hl] at this ⊢; exact this
            have hlen' : (s.inCascade ++ [cur]).length > 1 := by
              cases hl : s.inCascade with
              | nil => exact absurd hl hne
              | cons a t => simp
            have hlofm : lastOfm (s.inCascade ++ [cur]) = cur.ofm.sizeInBytes := by simp [lastOfm]
            split at h
            · next hsp =>
              split at h
              · simp at h; subst h
                exact { hinv.toInnerPost with bm := hbm' }
              · next hnb =>
                refine ih _ _ ?_ h
                refine { bm := hbm', chainBest := hchain', headBest := hhead', size := ?_, hard := ?_, chainIn := hchain',
                         lastIn := hlast', headIn := hhead', buffers := hbuf' }
                · intro _; simp only [cascadeSizeOf, hsp, ↓reduceIte, hbuf']
                · intro _ _
                  simp only [Bool.or_eq_true, decide_eq_true_eq, not_or] at hnb
                  have := hnb.2
                  show ((s.cascadeBuffers + buf.2 + sumNat rc.weightBuffers : Nat) : Int) ≤ peak
                  omega
            · next hsp =>
              split at h
              · simp at h; subst h
                exact { hinv.toInnerPost with bm := hbm' }
              · split at h
                · refine ih _ _ ?_ h
                  refine { bm := hbm', chainBest := hchain', headBest := hhead', size := ?_, hard := ?_, chainIn := hchain',
                           lastIn := hlast', headIn := hhead', buffers := hbuf' }
                  · intro _; simp only [cascadeSizeOf, hsp, Bool.false_eq_true, ↓reduceIte, hlofm, ← hbuf']
                  · intro hs; simp [hs] at hsp
                · refine ih _ _ ?_ h
                  exact { hinv.toInnerPost with bm := hbm', chainIn := hchain', lastIn := hlast', headIn := hhead', buffers := hbuf' }
    · simp at h; subst h; exact hinv.toInnerPost
/-- every recorded buffer is the one `computeBuffer` gives, under the cost map `ref`, for a pair of consecutive
    operations that are joined by a rolling buffer -/
def BufsOf (ops : List SOp) (ref : CostMap) (bufs : List (Nat × Shape4)) : Prop :=
  ∀ e ∈ bufs, ∃ p c, p ∈ ops ∧ c ∈ ops ∧ p.index + 1 = c.index ∧ c.index = e.1 ∧ p.reqFullOfm = false ∧ c.reqFullIfm = false ∧
    ∃ sz, computeBuffer (some p) (some c) ref = .ok (e.2, sz)

theorem finishLoop_spec (ops : List SOp) (ref : CostMap) (cStart cEnd : Nat) (hu : UniqueIdx ops) :
    ∀ (l : List SOp) (prev : Option SOp) (bm : BufferMap) (cost : CostMap) (bufs : List (Nat × Shape4))
      (bm' : BufferMap) (cost' : CostMap) (bufs' : List (Nat × Shape4)),
      (match prev with | none => RChain ops l | some p => RChain ops (p :: l)) →
      bm.Consistent ops ref → BufsOf ops ref bufs →
      finishLoop ref cStart cEnd l prev bm cost bufs = .ok (bm', cost', bufs') →
      bm'.Consistent ops ref ∧ BufsOf ops ref bufs' := by
  intro l
  induction l with
  | nil => intro prev bm cost bufs bm' cost' bufs' _ hb hbu h; simp [finishLoop] at h; obtain ⟨rfl, _, rfl⟩ := h; exact ⟨hb, hbu⟩
  | cons op rest ih =>
    intro prev bm cost bufs bm' cost' bufs' hch hb hbu h
    unfold finishLoop at h
    split at h
    · simp at h
    cases hrc : lookupCost ref op.index with
    | error e => simp [hrc, bind, Except.bind] at h
    | ok rc =>
      simp only [hrc, bind, Except.bind] at h
      cases prev with
      | none =>
        simp only at h hch
        refine ih (some op) bm _ bufs bm' cost' bufs' ?_ hb hbu h
        exact hch
      | some p =>
        simp only at h hch
        have hpm : p ∈ ops := RChain_mem hch p (by simp)
        have hom : op ∈ ops := RChain_mem hch op (by simp)
        cases hgb : getBuffer bm (some p) (some op) ref with
        | error e => simp [hgb] at h
        | ok r =>
          obtain ⟨bm1, buf⟩ := r
          simp only [hgb] at h
          obtain ⟨hb1, hcb⟩ := getBuffer_spec hb hu hpm hom hgb
          have hch' : RChain ops (op :: rest) := by
            cases rest with
            | nil => exact hom
            | cons r rs => exact hch.2.2.2.2
          refine ih (some op) bm1 _ _ bm' cost' bufs' hch' hb1 ?_ h
          intro e he
          simp only [List.mem_append, List.mem_singleton] at he
          rcases he with he | rfl
          · exact hbu e he
          · have h1 : p.index + 1 = op.index ∧ p.reqFullOfm = false ∧ op.reqFullIfm = false := by
              cases rest with
              | nil => exact ⟨hch.2.1, hch.2.2.1, hch.2.2.2.1⟩
              | cons r rs => exact ⟨hch.2.1, hch.2.2.1, hch.2.2.2.1⟩
            exact ⟨p, op, hpm, hom, h1.1, rfl, h1.2.1, h1.2.2, buf.2, by simpa using hcb⟩

/-- what `build_cascades` guarantees about one entry of `cascade_map` -/
structure GoodCascade (b : Builder) (ref : CostMap) (limit : Int) (ci : CascadeInfo) : Prop where
  ex : ∃ (l : List SOp) (first : SOp), RChain b.ops l ∧ l.head? = some first ∧ l.length > 1 ∧ first.index = ci.start ∧
    ci.end_ = ci.start + (l.length - 1) ∧
    ci.memUsage + b.nl ci.start = cascadeSizeOf b ref first (if b.spilling then 0 else first.ifm.sizeInBytes) l ∧
    (b.spilling = true → ci.memUsage + b.nl ci.start ≤ limit)
  bufs : BufsOf b.ops ref ci.buffers

structure BInv (b : Builder) (ref : CostMap) (limit : Int) (st : BState) : Prop where
  bm : st.bm.Consistent b.ops ref
  peak : b.spilling = true → st.peak = limit
  good : ∀ ci ∈ st.cascades, GoodCascade b ref limit ci

theorem outerStep_inv (b : Builder) (ref fb : CostMap) (limit : Int) (hu : UniqueIdx b.ops) (st st' : BState) (op : SOp)
    (hop : op ∈ b.ops) (hinv : BInv b ref limit st) (h : outerStep b ref fb st op = .ok st') : BInv b ref limit st' := by
  unfold outerStep at h
  split at h
  · simp at h; subst h; exact hinv
  cases hrc : lookupCost ref op.index with
  | error e => simp [hrc, bind, Except.bind] at h
  | ok rc =>
    simp only [hrc, bind, Except.bind] at h
    split at h
    · cases hfb : lookupCost fb op.index with
      | error e => simp [hfb] at h
      | ok fbc =>
        simp only [hfb, Except.ok.injEq] at h
        subst h
        refine ⟨hinv.bm, ?_, hinv.good⟩
        intro hs; simp [hs, hinv.peak hs]
    · cases hfb : lookupCost fb op.index with
      | error e => simp [hfb] at h
      | ok fbc =>
        simp only [hfb] at h
        have hrc' : List.lookup op.index ref = some rc := by
          unfold lookupCost at hrc; split at hrc <;> simp_all
        cases hin : innerLoop b ref fb (st.cost.map (·.1)) op (if b.spilling then 0 else op.ifm.sizeInBytes) st.peak (b.ops.length + 1)
            { producer := op, inCascade := [op], best := [op], cascadeBuffers := sumNat rc.weightBuffers,
              bestSize := estimateSramUsage b op fbc, bm := st.bm } with
        | error e => simp [hin] at h
        | ok s =>
          simp only [hin] at h
          have hinit : InnerInv b ref op (if b.spilling then 0 else op.ifm.sizeInBytes) st.peak
              { producer := op, inCascade := [op], best := [op], cascadeBuffers := sumNat rc.weightBuffers,
                bestSize := estimateSramUsage b op fbc, bm := st.bm } :=
            { bm := hinv.bm, chainBest := (show RChain b.ops [op] from hop), headBest := rfl, size := by intro hl; simp at hl,
              hard := by intro _ hl; simp at hl, chainIn := (show RChain b.ops [op] from hop), lastIn := rfl, headIn := rfl,
              buffers := by simp [chainBuffers, wbOf, hrc'] }
          have hpost := innerLoop_post b ref fb _ op _ st.peak hu _ _ s hinit hin
          split at h
          · next hlen =>
            cases hfl : finishLoop ref op.index (op.index + (s.best.length - 1)) s.best none s.bm st.cost [] with
            | error e => simp [hfl] at h
            | ok r =>
              obtain ⟨bm', cost', bufs⟩ := r
              simp only [hfl, Except.ok.injEq] at h
              subst h
              obtain ⟨hbm', hbufs⟩ := finishLoop_spec b.ops ref _ _ hu s.best none s.bm st.cost [] bm' cost' bufs hpost.chainBest hpost.bm
                (by intro e he; simp at he) hfl
              refine ⟨hbm', ?_, ?_⟩
              · intro hs; simp [hs, hinv.peak hs]
              · intro ci hci
                simp only [List.mem_append, List.mem_singleton] at hci
                rcases hci with hci | rfl
                · exact hinv.good ci hci
                · refine ⟨⟨s.best, op, hpost.chainBest, hpost.headBest, hlen, rfl, rfl, ?_, ?_⟩, hbufs⟩
                  · have := hpost.size hlen
                    show s.bestSize - b.nl op.index + b.nl op.index = _
                    omega
                  · intro hs
                    have := hpost.hard hs hlen
                    rw [hinv.peak hs] at this
                    show s.bestSize - b.nl op.index + b.nl op.index ≤ limit
                    omega
          · simp only [Except.ok.injEq] at h
            subst h
            refine ⟨hpost.bm, ?_, hinv.good⟩
            intro hs; simp [hs, hinv.peak hs]

theorem foldM'_inv (b : Builder) (ref fb : CostMap) (limit : Int) (hu : UniqueIdx b.ops) :
    ∀ (l : List SOp) (st st' : BState), (∀ x ∈ l, x ∈ b.ops) → BInv b ref limit st →
      foldM' (outerStep b ref fb) l st = .ok st' → BInv b ref limit st' := by
  intro l
  induction l with
  | nil => intro st st' _ hinv h; simp [foldM'] at h; subst h; exact hinv
  | cons op rest ih =>
    intro st st' hm hinv h
    unfold foldM' at h
    split at h
    · next st1 h1 =>
      exact ih st1 st' (fun x hx => hm x (by simp [hx])) (outerStep_inv b ref fb limit hu st st1 op (hm op (by simp)) hinv h1) h
    · simp at h


theorem buildCascadesFrom_inv (bm0 : BufferMap) (b : Builder) (ref fb : CostMap) (limit : Int) (st : BState)
    (hu : UniqueIdx b.ops) (h0 : bm0.Consistent b.ops ref) (h : buildCascadesFrom bm0 b ref fb limit = .ok st) :
    BInv b ref limit st := by
  unfold buildCascadesFrom at h
  refine foldM'_inv b ref fb limit hu b.ops _ st (fun x hx => hx) ⟨h0, fun _ => rfl, ?_⟩ h
  intro ci hci; simp at hci

/-- `computeBuffer` for a pair joined by a rolling buffer is `rolling_buffer_shape` of the stripes in `ref` -/
theorem computeBuffer_rolling {p c : SOp} {ref : CostMap} {v : Shape4 × Nat} (h1 : p.reqFullOfm = false)
    (h2 : c.reqFullIfm = false) (h : computeBuffer (some p) (some c) ref = .ok v) :
    ∃ pc cc bh bw bd, ref.lookup p.index = some pc ∧ ref.lookup c.index = some cc ∧
      rollingBufferShape pc.stripe.h pc.stripe.w pc.stripe.c cc.stripeInput.h cc.stripeInput.w c.overread = .ok (bh, bw, bd) ∧
      v = (⟨1, bh, bw, bd⟩, (⟨1, bh, bw, bd⟩ : Shape4).elements * p.ofm.elemBytes) := by
  unfold computeBuffer at h
  simp only [h1, h2, Bool.or_self, Bool.false_eq_true, ↓reduceIte, lookupCost, bind, Except.bind] at h
  cases hp : List.lookup p.index ref with
  | none => simp [hp] at h
  | some pc =>
    cases hc : List.lookup c.index ref with
    | none => simp [hp, hc] at h
    | some cc =>
      simp only [hp, hc] at h
      split at h
      · simp at h
      · next bh bw bd hr =>
        simp only [Except.ok.injEq] at h
        exact ⟨pc, cc, bh, bw, bd, rfl, rfl, hr, h.symm⟩
/-- value of a usage array at tick `t` (0 outside the array) -/
def val (u : List Int) (t : Nat) : Int := u.getD t 0

theorem addRange_length (u : List Int) (a b : Nat) (v : Int) : (addRange u a b v).length = u.length := by
  simp [addRange]

theorem addRange_val (u : List Int) (a b : Nat) (v : Int) (t : Nat) :
    val (addRange u a b v) t = if t < u.length ∧ a ≤ t ∧ t < b then val u t + v else val u t := by
  unfold val addRange
  by_cases ht : t < u.length
  · simp [List.getD, ht]
  · simp [List.getD, ht]

theorem wrap32_id (x : Int) (h0 : 0 ≤ x) (h1 : x < 2147483648) : wrap32 x = x := by
  unfold wrap32; omega

/-- bytes of the ranges of the target area alive at tick `t` -/
def tlrUsage : List TLR → Nat → Nat
  | [], _ => 0
  | lr :: rest, t => (if lr.inArea ∧ lr.start ≤ t ∧ t < lr.stop then lr.size else 0) + tlrUsage rest t

theorem tlrUsage_append (l1 l2 : List TLR) (t : Nat) : tlrUsage (l1 ++ l2) t = tlrUsage l1 t + tlrUsage l2 t := by
  induction l1 with
  | nil => simp [tlrUsage]
  | cons a r ih => simp [tlrUsage, ih]; omega

theorem temporalUsage_fold (ct : Nat) :
    ∀ (rest pre : List TLR) (u u' : List Int),
      (∀ t, tlrUsage (pre ++ rest) t < 2147483648) →
      u.length = ct + 2 → (∀ t, t < ct + 2 → val u t = tlrUsage pre t) →
      rest.foldlM (fun u lr => if lr.inArea then (if lr.stop > ct + 3 then Except.error Err.assert_
          else Except.ok ((addRange u lr.start lr.stop lr.size).map wrap32)) else Except.ok u) u = Except.ok u' →
      u'.length = ct + 2 ∧ ∀ t, t < ct + 2 → val u' t = tlrUsage (pre ++ rest) t := by
  intro rest
  induction rest with
  | nil => intro pre u u' _ hl hv h; simp [List.foldlM, pure, Except.pure] at h; subst h; simpa using ⟨hl, hv⟩
  | cons lr rest ih =>
    intro pre u u' hb hl hv h
    rw [List.foldlM_cons] at h
    have happ : pre ++ lr :: rest = (pre ++ [lr]) ++ rest := by simp
    by_cases ha : lr.inArea
    · simp only [ha, ↓reduceIte] at h
      split at h
      · simp [bind, Except.bind] at h
      · simp only [bind, Except.bind] at h
        rw [happ] at hb ⊢
        refine ih (pre ++ [lr]) _ u' hb (by simp [addRange_length, hl]) ?_ h
        intro t ht
        have hbt := hb t
        rw [tlrUsage_append, tlrUsage_append] at hbt
        rw [tlrUsage_append]
        have hmap : val ((addRange u lr.start lr.stop ↑lr.size).map wrap32) t = wrap32 (val (addRange u lr.start lr.stop ↑lr.size) t) := by
          unfold val
          have : t < (addRange u lr.start lr.stop ↑lr.size).length := by rw [addRange_length]; omega
          simp [List.getD, this]
        rw [hmap, addRange_val, hv t ht]
        have hlt : t < u.length := by omega
        by_cases hlive : lr.start ≤ t ∧ t < lr.stop
        · simp only [tlrUsage, ha, hlive, hlt, and_self, ↓reduceIte, Nat.add_zero] at hbt ⊢
          rw [wrap32_id] <;> omega
        · simp only [tlrUsage, ha, hlive, hlt, and_false, ↓reduceIte, Nat.add_zero] at hbt ⊢
          rw [wrap32_id] <;> omega
    · simp only [ha, Bool.false_eq_true, ↓reduceIte] at h
      simp only [bind, Except.bind] at h
      rw [happ] at hb ⊢
      refine ih (pre ++ [lr]) u u' hb hl ?_ h
      intro t ht
      rw [tlrUsage_append, hv t ht]
      simp [tlrUsage, ha]


theorem temporalUsage_val (lrs : List TLR) (ct : Nat) (u : List Int) (hb : ∀ t, tlrUsage lrs t < 2147483648)
    (h : temporalUsage lrs ct = .ok u) : u.length = ct + 2 ∧ ∀ t, t < ct + 2 → val u t = tlrUsage lrs t := by
  unfold temporalUsage at h
  have := temporalUsage_fold ct lrs [] (List.replicate (ct + 2) 0) u (by simpa using hb) (by simp)
    (by intro t ht; simp [val, tlrUsage, List.getD, ht]) h
  simpa using this

/-- the range as the Spec reads it; a range that is not of the target area or was never marked is alive at no tick -/
def TLR.toRng (lr : TLR) : Option Rng :=
  if lr.inArea ∧ lr.start < lr.stop then some ⟨lr.start, lr.stop - 1, lr.size⟩ else none

theorem usageAt_cons (r : Rng) (rs : List Rng) (t : Nat) :
    usageAt (r :: rs) t = (if r.liveAt t then r.size else 0) + usageAt rs t := by
  unfold usageAt
  by_cases h : r.liveAt t <;> simp [List.filter, h, sumSizes]

theorem usageAt_toRng (lrs : List TLR) (t : Nat) : usageAt (lrs.filterMap TLR.toRng) t = tlrUsage lrs t := by
  induction lrs with
  | nil => simp [usageAt, tlrUsage, sumSizes]
  | cons lr rest ih =>
    unfold tlrUsage
    by_cases h : lr.inArea ∧ lr.start < lr.stop
    · have : TLR.toRng lr = some ⟨lr.start, lr.stop - 1, lr.size⟩ := by simp [TLR.toRng, h]
      rw [List.filterMap_cons_some this, usageAt_cons, ih]
      simp only [Rng.liveAt, Bool.and_eq_true, decide_eq_true_eq, h.1, true_and]
      congr 1
      by_cases h2 : lr.start ≤ t ∧ t < lr.stop
      · have : lr.start ≤ t ∧ t ≤ lr.stop - 1 := by omega
        simp [h2, this]
      · have : ¬ (lr.start ≤ t ∧ t ≤ lr.stop - 1) := by omega
        simp [h2, this]
    · have : TLR.toRng lr = none := by simp [TLR.toRng, h]
      rw [List.filterMap_cons_none this, ih]
      have : ¬ (lr.inArea = true ∧ lr.start ≤ t ∧ t < lr.stop) := by
        intro hh; exact h ⟨hh.1, by omega⟩
      simp [this]
theorem filter_length_lt {α : Type} (p q : α → Bool) (l : List α) (himp : ∀ x, p x = true → q x = true)
    (a : α) (ha : a ∈ l) (hq : q a = true) (hp : p a = false) : (l.filter p).length < (l.filter q).length := by
  induction l with
  | nil => simp at ha
  | cons x r ih =>
    have hle : ∀ (l : List α), (l.filter p).length ≤ (l.filter q).length := by
      intro l; induction l with
      | nil => simp
      | cons y s ih2 =>
        simp only [List.filter_cons]
        by_cases hpy : p y = true
        · simp [hpy, himp y hpy]; exact ih2
        · by_cases hqy : q y = true
          · simp [hpy, hqy]; omega
          · simp [hpy, hqy]; exact ih2
    simp only [List.mem_cons] at ha
    simp only [List.filter_cons]
    rcases ha with rfl | ha
    · simp [hq, hp]; have := hle r; omega
    · have := ih ha
      by_cases hpx : p x = true
      · simp [hpx, himp x hpx]; exact this
      · by_cases hqx : q x = true
        · simp [hpx, hqx]; omega
        · simp [hpx, hqx]; exact this

/-- operations of the builder after `p` -/
def later (b : Builder) (p : SOp) : Nat := (b.ops.filter (fun o => decide (o.index > p.index))).length

theorem lookupCost_err {m : CostMap} {i : Nat} {e : Err} (h : lookupCost m i = .error e) : e = .key := by
  unfold lookupCost at h; split at h <;> simp at h; exact h.symm

theorem computeBuffer_err {p c : Option SOp} {cost : CostMap} {e : Err} (h : computeBuffer p c cost = .error e) : e ≠ .fuel := by
  unfold computeBuffer at h
  split at h
  · simp at h; subst h; decide
  · simp at h
  · simp at h
  · split at h
    · simp at h
    · simp only [bind, Except.bind] at h
      split at h
      · next e1 h1 => simp at h; subst h; rw [lookupCost_err h1]; decide
      · split at h
        · next e1 h1 => simp at h; subst h; rw [lookupCost_err h1]; decide
        · split at h
          · simp at h; subst h; decide
          · simp at h

theorem getBuffer_err {bm : BufferMap} {p c : Option SOp} {cost : CostMap} {e : Err} (h : getBuffer bm p c cost = .error e) : e ≠ .fuel := by
  unfold getBuffer at h
  split at h
  · simp at h; subst h; decide
  · split at h
    · simp at h
    · simp only [bind, Except.bind] at h
      split at h
      · next e1 h1 => simp at h; subst h; exact computeBuffer_err h1
      · simp at h

theorem innerLoop_fuel (b : Builder) (ref fb : CostMap) (assigned : List Nat) (first : SOp) (cascadeIfm : Nat) (peak : Int) :
    ∀ (fuel : Nat) (s : Inner) (e : Err), later b s.producer < fuel →
      innerLoop b ref fb assigned first cascadeIfm peak fuel s = .error e → e ≠ .fuel := by
  intro fuel
  induction fuel with
  | zero => intro s e h; omega
  | succ fuel ih =>
    intro s e hlt h
    unfold innerLoop at h
    split at h
    · next d hd =>
      split at h
      · simp at h
      · next cur hcur =>
        split at h
        · simp at h
        split at h
        · simp at h
        split at h
        · simp at h
        split at h
        · simp at h
        next hidx =>
        have hcm : cur ∈ b.ops := by unfold Builder.findOp at hcur; exact List.mem_of_find?_eq_some hcur
        have hidx' : s.producer.index + 1 = cur.index := by simpa using hidx
        have hdec : later b cur < later b s.producer := by
          unfold later
          refine filter_length_lt _ _ b.ops ?_ cur hcm (by simp; omega) (by simp)
          intro x hx; simp at hx ⊢; omega
        simp only [bind, Except.bind] at h
        split at h
        · next e1 h1 => simp at h; subst h; exact getBuffer_err h1
        · split at h
          · next e1 h1 => simp at h; subst h; rw [lookupCost_err h1]; decide
          · split at h
            · split at h
              · simp at h
              · exact ih _ e (by simp only; omega) h
            · split at h
              · simp at h
              · split at h
                · exact ih _ e (by simp only; omega) h
                · exact ih _ e (by simp only; omega) h
    · simp at h


theorem finishLoop_err (ref : CostMap) (cStart cEnd : Nat) :
    ∀ (l : List SOp) (prev : Option SOp) (bm : BufferMap) (cost : CostMap) (bufs : List (Nat × Shape4)) (e : Err),
      finishLoop ref cStart cEnd l prev bm cost bufs = .error e → e ≠ .fuel := by
  intro l
  induction l with
  | nil => intro prev bm cost bufs e h; simp [finishLoop] at h
  | cons op rest ih =>
    intro prev bm cost bufs e h
    unfold finishLoop at h
    split at h
    · simp at h; subst h; decide
    simp only [bind, Except.bind] at h
    split at h
    · next e1 h1 => simp at h; subst h; rw [lookupCost_err h1]; decide
    · split at h
      · exact ih _ _ _ _ _ h
      · split at h
        · next e1 h1 => simp at h; subst h; exact getBuffer_err h1
        · exact ih _ _ _ _ _ h

theorem outerStep_err (b : Builder) (ref fb : CostMap) (st : BState) (op : SOp) (e : Err)
    (h : outerStep b ref fb st op = .error e) : e ≠ .fuel := by
  unfold outerStep at h
  split at h
  · simp at h
  simp only [bind, Except.bind] at h
  split at h
  · next e1 h1 => simp at h; subst h; rw [lookupCost_err h1]; decide
  · split at h
    · split at h
      · next e1 h1 => simp at h; subst h; rw [lookupCost_err h1]; decide
      · simp at h
    · split at h
      · next e1 h1 => simp at h; subst h; rw [lookupCost_err h1]; decide
      · split at h
        · next e1 h1 =>
          simp at h; subst h
          refine innerLoop_fuel b ref fb _ op _ st.peak _ _ _ ?_ h1
          unfold later
          exact Nat.lt_succ_of_le (List.length_filter_le _ _)
        · split at h
          · split at h
            · next e1 h1 => simp at h; subst h; exact finishLoop_err _ _ _ _ _ _ _ _ _ h1
            · simp at h
          · simp at h

theorem buildCascadesFrom_fuel (bm0 : BufferMap) (b : Builder) (ref fb : CostMap) (limit : Int) (e : Err)
    (h : buildCascadesFrom bm0 b ref fb limit = .error e) : e ≠ .fuel := by
  unfold buildCascadesFrom at h
  have gen : ∀ (l : List SOp) (st : BState), foldM' (outerStep b ref fb) l st = .error e → e ≠ .fuel := by
    intro l
    induction l with
    | nil => intro st h; simp [foldM'] at h
    | cons op rest ih =>
      intro st h
      unfold foldM' at h
      split at h
      · exact ih _ h
      · next e1 h1 => simp at h; subst h; exact outerStep_err b ref fb st op _ h1
  exact gen _ _ h

theorem optimizeLoop_within (b : Builder) (fb : CostMap) (limit : Int) :
    ∀ (props : List CostMap) (it mx : Nat) (best : Option Proposal) (seen : List Proposal) (r : Option Proposal × List Proposal),
      (∀ p, best = some p → p.usage ≤ limit) →
      optimizeLoop b fb limit props it mx best seen = .ok r → ∀ p, r.1 = some p → p.usage ≤ limit := by
  intro props
  induction props with
  | nil => intro it mx best seen r hb h; simp [optimizeLoop] at h; subst h; exact hb
  | cons ref rest ih =>
    intro it mx best seen r hb h
    unfold optimizeLoop at h
    simp only [bind, Except.bind] at h
    split at h
    · simp at h
    · split at h
      · simp at h
      · next st _ _ usage hu =>
        have fin : ∀ (mxn : Nat),
            (if (decide (usage ≤ limit) && decide (st.cascades.length ≤ mxn)) = true then
              if st.cascades.isEmpty = true then
                Except.ok (some { cost := st.cost, cascades := st.cascades, usage := usage },
                  seen ++ [{ cost := st.cost, cascades := st.cascades, usage := usage }])
              else optimizeLoop b fb limit rest (it + 1) mxn (some { cost := st.cost, cascades := st.cascades, usage := usage })
                (seen ++ [{ cost := st.cost, cascades := st.cascades, usage := usage }])
            else Except.ok (best, seen ++ [{ cost := st.cost, cascades := st.cascades, usage := usage }])) = Except.ok r →
            ∀ p, r.1 = some p → p.usage ≤ limit := by
          intro mxn h
          split at h
          · next hacc =>
            simp only [Bool.and_eq_true, decide_eq_true_eq] at hacc
            split at h
            · simp only [Except.ok.injEq] at h; subst h
              intro p hp; simp only [Option.some.injEq] at hp; subst hp; exact hacc.1
            · exact ih _ _ _ _ r (by intro p hp; simp only [Option.some.injEq] at hp; subst hp; exact hacc.1) h
          · simp only [Except.ok.injEq] at h; subst h; exact hb
        split at h
        · exact fin _ h
        · exact fin _ h
/-- what `estimate_schedule_memory_usage` attributes to one operation -/
def opEstimate (cost : CostMap) (cascades : List CascadeInfo) (nonLocal : List (Nat × Int)) (op : SOp) : Except Err (Option Int) :=
  match cost.lookup op.index with
  | none => .ok none
  | some c =>
    if c.cascade != 0 then do
      let ci ← findCascade cascades c.cascade
      .ok (some (ci.memUsage + nlOf nonLocal op.index))
    else .ok (some (((op.ifm.sizeInBytes + op.ofm.sizeInBytes + sumNat c.weightBuffers : Nat) : Int) + nlOf nonLocal op.index))

theorem bind_okE {α β : Type} {x : Except Err α} {f : α → Except Err β} {b : β} (h : (x >>= f) = .ok b) :
    ∃ a, x = .ok a ∧ f a = .ok b := by
  cases x with
  | error e => simp [bind, Except.bind] at h
  | ok a => exact ⟨a, rfl, by simpa [bind, Except.bind] using h⟩

theorem estimate_fold_ge (cost : CostMap) (cascades : List CascadeInfo) (nonLocal : List (Nat × Int)) :
    ∀ (ops : List SOp) (init u : Int),
      ops.foldlM (fun peak op =>
        match cost.lookup op.index with
        | none => (Except.ok peak : Except Err Int)
        | some c =>
          if c.cascade != 0 then do
            let ci ← findCascade cascades c.cascade
            .ok (max (ci.memUsage + nlOf nonLocal op.index) peak)
          else
            .ok (max (((op.ifm.sizeInBytes + op.ofm.sizeInBytes + sumNat c.weightBuffers : Nat) : Int) + nlOf nonLocal op.index) peak)) init = .ok u →
      init ≤ u ∧ ∀ op ∈ ops, ∀ v, opEstimate cost cascades nonLocal op = .ok (some v) → v ≤ u := by
  intro ops
  induction ops with
  | nil => intro init u h; simp [pure, Except.pure] at h; subst h; exact ⟨Int.le_refl _, by intro op hop; simp at hop⟩
  | cons op rest ih =>
    intro init u h
    simp only [List.foldlM_cons] at h
    obtain ⟨p1, h1, h⟩ := bind_okE h
    obtain ⟨hle, hall⟩ := ih p1 u h
    have hstep : init ≤ p1 ∧ ∀ v, opEstimate cost cascades nonLocal op = .ok (some v) → v ≤ p1 := by
      unfold opEstimate
      cases hl : List.lookup op.index cost with
      | none => simp only [hl, Except.ok.injEq] at h1; subst h1; simp
      | some c =>
        simp only [hl] at h1 ⊢
        split at h1
        · next hc =>
          simp only [hc, ↓reduceIte]
          cases hf : findCascade cascades c.cascade with
          | error e => simp [hf, bind, Except.bind] at h1
          | ok ci =>
            simp only [hf, bind, Except.bind, Except.ok.injEq] at h1 ⊢
            subst h1
            exact ⟨Int.le_max_right _ _, by intro v hv; simp only [Option.some.injEq] at hv; subst hv; exact Int.le_max_left _ _⟩
        · next hc =>
          simp only [Except.ok.injEq] at h1
          subst h1
          refine ⟨Int.le_max_right _ _, ?_⟩
          intro v hv
          simp only [hc, Bool.false_eq_true, ↓reduceIte, Except.ok.injEq, Option.some.injEq] at hv
          subst hv; exact Int.le_max_left _ _
    refine ⟨Int.le_trans hstep.1 hle, ?_⟩
    intro o ho v hv
    simp only [List.mem_cons] at ho
    rcases ho with rfl | ho
    · exact Int.le_trans (hstep.2 v hv) hle
    · exact hall o ho v hv
end VelaVerif.SchedMem
