import VelaVerif.Spec.LutRefine
/-! Helper lemmas for `Props/C03LutState.lean`: the lookup-table residency pass (`Model/LutState.lean`) against the byte-level
table window (`Spec/LutWindow.lean`, `Spec/LutRefine.lean`). -/
namespace VelaVerif.Lemmas.LutState
open VelaVerif.Model.LutState VelaVerif.Spec.LutWindow VelaVerif.Spec.LutRefine

theorem overlaps_false {s1 e1 s2 e2 : Nat} : overlaps s1 e1 s2 e2 = false ↔ (e2 ≤ s1 ∨ e1 ≤ s2) := by
  simp [overlaps]; omega

theorem overlaps_true {s1 e1 s2 e2 : Nat} : overlaps s1 e1 s2 e2 = true ↔ (s1 < e2 ∧ s2 < e1) := by
  simp [overlaps]

/-- byte-level disjointness of two entries -/
def ByteDisjoint (u v : Tab) : Prop := ∀ b, ¬ ((u.addr ≤ b ∧ b < u.stop) ∧ (v.addr ≤ b ∧ b < v.stop))

theorem byteDisjoint_of_not_overlaps {u v : Tab} (h : overlaps u.addr u.stop v.addr v.stop = false) : ByteDisjoint u v := by
  intro b; rw [overlaps_false] at h; omega

theorem mem_pyRange {start stop step a : Nat} (hs : 0 < step) :
    a ∈ pyRange start stop step ↔ ∃ k, a = start + k * step ∧ start + k * step < stop := by
  unfold pyRange
  simp only [List.mem_map, List.mem_range]
  constructor
  · rintro ⟨k, hk, rfl⟩
    refine ⟨k, rfl, ?_⟩
    have h1 : (k + 1) * step ≤ stop - start + step - 1 := (Nat.le_div_iff_mul_le hs).1 hk
    rw [Nat.add_mul] at h1; omega
  · rintro ⟨k, rfl, hk⟩
    refine ⟨k, ?_, rfl⟩
    have h1 : (k + 1) * step ≤ stop - start + step - 1 := by rw [Nat.add_mul]; omega
    exact (Nat.le_div_iff_mul_le hs).2 h1

theorem foldl_fba_fst (st : State) (step : Nat) (l : List Nat) (b : Nat × Nat) :
    (l.foldl (fbaStep st step) b).1 = b.1 ∨ (l.foldl (fbaStep st step) b).1 ∈ l := by
  induction l generalizing b with
  | nil => simp
  | cons a l ih =>
    simp only [List.foldl_cons, List.mem_cons]
    rcases ih (fbaStep st step b a) with h | h
    · by_cases hc : nrOverlaps st a step < b.2
      · have : fbaStep st step b a = (a, nrOverlaps st a step) := by simp [fbaStep, hc]
        rw [this] at h ⊢; right; left; exact h
      · have : fbaStep st step b a = b := by simp [fbaStep, hc]
        rw [this] at h ⊢; left; exact h
    · right; right; exact h


theorem findBestAddress_form {st : State} {start stop step a : Nat} (h : findBestAddress st start stop step = .ok a) :
    0 < step ∧ ∃ k, a = start + k * step ∧ (k = 0 ∨ start + k * step < stop) := by
  unfold findBestAddress at h
  split at h
  · cases h
  · rename_i hs
    have hs' : 0 < step := Nat.pos_of_ne_zero hs
    refine ⟨hs', ?_⟩
    injection h with h
    rcases foldl_fba_fst st step (pyRange start stop step) (start, stop) with h1 | h1
    · exact ⟨0, by rw [← h, h1]; simp, Or.inl rfl⟩
    · rw [h] at h1
      obtain ⟨k, hk, hlt⟩ := (mem_pyRange hs').1 h1
      exact ⟨k, hk, Or.inr hlt⟩

/-- the table sizes of the property: 256, 512, 1024, 2048 bytes in a 2 KiB window -/
def Sizes (c : Ctx) : Prop := c.lutSize = 2048 ∧ ∀ t, c.size t = 256 ∨ c.size t = 512 ∨ c.size t = 1024 ∨ c.size t = 2048

/-- a newly placed table lies in the window, on a multiple of its size, and its index is its offset / 256 -/
theorem placed_geometry {c : Ctx} (hsz : Sizes c) {st : State} {t a : Nat}
    (h : findBestAddress st c.lutStart (c.lutStart + c.lutSize) (c.size t) = .ok a) :
    c.lutStart ≤ a ∧ a + c.size t ≤ c.lutStart + c.lutSize ∧ (a - c.lutStart) % c.size t = 0 ∧
      (a - c.lutStart) % 256 = 0 ∧ (a - c.lutStart) / slotSize < 8 ∧ c.lutStart + 256 * ((a - c.lutStart) / slotSize) = a := by
  obtain ⟨_, k, rfl, hk⟩ := findBestAddress_form h
  obtain ⟨h2k, hs⟩ := hsz
  rw [h2k] at hk ⊢
  unfold slotSize
  rcases hs t with e | e | e | e <;> rw [e] at hk ⊢ <;> omega


theorem getEquivalent_some {st : State} {v : Nat} {e : Tab} (h : getEquivalent st v = some e) : e ∈ st ∧ e.vals = v := by
  unfold getEquivalent at h
  exact ⟨List.mem_of_find?_eq_some h, by simpa using List.find?_some h⟩

theorem getEquivalent_none {st : State} {v : Nat} (h : getEquivalent st v = none) : ∀ u ∈ st, u.vals ≠ v := by
  unfold getEquivalent at h
  intro u hu
  simpa using List.find?_eq_none.1 h u hu

theorem lookup_cons_self (l : List (Nat × Nat)) (k v : Nat) : lookup ((k, v) :: l) k = some v := by
  simp [lookup]

/-- the state describes the window, and the table load still standing for the reference reading is where its pass's
    operation will look -/
structure Inv (c : Ctx) (r : Refine) (s : PS) (w : Window) (cur : Option (Nat × Nat)) : Prop where
  fromCtx : ∀ u ∈ s.st, u.vals = c.vals u.tid ∧ u.size = c.size u.tid
  inWin : ∀ u ∈ s.st, c.lutStart ≤ u.addr ∧ u.addr + u.size ≤ c.lutStart + c.lutSize ∧ (u.addr - c.lutStart) % 256 = 0
  bytes : ∀ u ∈ s.st, ∀ k, k < u.size → w (u.addr + k) = some (r.content u.tid, k)
  curOk : ∀ p t, cur = some (p, t) → ∃ i, lookup s.env.idx p = some i ∧ Holds (geomOf c) w (r.content t) (c.size t) i

theorem inv_nil (c : Ctx) (r : Refine) (env : Env) (w : Window) : Inv c r { st := [], env := env } w none :=
  { fromCtx := fun _ hu => absurd hu List.not_mem_nil
    inWin := fun _ hu => absurd hu List.not_mem_nil
    bytes := fun _ hu => absurd hu List.not_mem_nil
    curOk := fun _ _ h => by cases h }

theorem load_in (w : Window) (c n a b : Nat) (h1 : a ≤ b) (h2 : b < a + n) : (w.load c n a) b = some (c, b - a) := by
  simp [Window.load, h1, h2]

theorem load_out (w : Window) (c n a b : Nat) (h : b < a ∨ a + n ≤ b) : (w.load c n a) b = w b := by
  simp only [Window.load]; rw [if_neg (by omega)]

@[simp] theorem geomOf_clobbers (c : Ctx) : (geomOf c).clobbers = (c.reserved == 0) := rfl
@[simp] theorem geomOf_lutStart (c : Ctx) : (geomOf c).lutStart = c.lutStart := rfl
@[simp] theorem geomOf_lutSize (c : Ctx) : (geomOf c).lutSize = c.lutSize := rfl

theorem eventsAt_ok {c : Ctx} {r : Refine} (hsz : Sizes c) (hcb : EqualValuesEqualBytes c r) (hpa : PassesAgree c r) :
    ∀ (cmds : List Cmd) (s : PS) (w : Window) (cur : Option (Nat × Nat)), Inv c r s w cur → OrigOk c r cur cmds →
      StreamOk (geomOf c) w (eventsAt c r s cmds) := by
  intro cmds
  induction cmds with
  | nil => intro s w cur _ _; simp [eventsAt, StreamOk]
  | cons cmd rest ih =>
    intro s w cur hinv horig
    cases cmd with
    | other =>
      simp only [eventsAt, step, StreamOk, EvOk, stepW, true_and]
      exact ih s w cur hinv horig
    | stripe p =>
      have hp := hpa p
      cases hpt : r.passTab p with
      | some t =>
        rw [hpt] at hp
        simp only [OrigOk, hpt] at horig
        obtain ⟨hcur, horig⟩ := horig
        obtain ⟨i, hi, hholds⟩ := hinv.curOk p t hcur
        simp only [eventsAt, step, hp, Option.isSome_some, Bool.not_true, Bool.false_and, Bool.false_eq_true, if_false,
          StreamOk, stripeEv, hpt, hi, Option.getD_some, EvOk, stepW]
        exact ⟨hholds, ih s w cur hinv horig⟩
      | none =>
        rw [hpt] at hp
        simp only [OrigOk, hpt] at horig
        by_cases hres : (c.reserved == 0) = true
        · simp only [eventsAt, step, hp, Option.isSome_none, Bool.not_false, Bool.true_and, hres, if_true, StreamOk,
            stripeEv, hpt, EvOk, stepW, geomOf_clobbers, true_and]
          simp only [hres, if_true] at horig
          exact ih _ _ none (inv_nil c r s.env _) horig
        · simp only [eventsAt, step, hp, Option.isSome_none, Bool.not_false, Bool.true_and, hres, if_false, StreamOk,
            stripeEv, hpt, EvOk, stepW, geomOf_clobbers, true_and, Bool.false_eq_true]
          simp only [hres, if_false, Bool.false_eq_true] at horig
          exact ih s w cur hinv horig
    | lutDma p t =>
      simp only [OrigOk] at horig
      cases heq : getEquivalent s.st (c.vals t) with
      | some e =>
        obtain ⟨hmem, hv⟩ := getEquivalent_some heq
        simp only [eventsAt, step, heq, StreamOk, EvOk, stepW, true_and]
        refine ih _ w (some (p, t)) ?_ horig
        obtain ⟨hfv, hfs⟩ := hinv.fromCtx e hmem
        obtain ⟨hs1, hs2⟩ := hcb e.tid t (by rw [← hfv, hv])
        obtain ⟨hw1, hw2, hw3⟩ := hinv.inWin e hmem
        have hb := hinv.bytes e hmem
        refine ⟨hinv.fromCtx, hinv.inWin, hinv.bytes, ?_⟩
        intro p' t' hpt
        injection hpt with hpt; injection hpt with hp1 ht1; subst hp1; subst ht1
        refine ⟨_, lookup_cons_self _ _ _, ?_⟩
        obtain ⟨h2k, hss⟩ := hsz
        have hsize := hss t
        have hua : useAddr (geomOf c) ((e.addr - c.lutStart) / slotSize) = e.addr := by
          simp only [useAddr, geomOf_lutStart, slotBytes, slotSize]; omega
        refine ⟨by simp only [slotSize]; omega, by rw [hua]; simp only [geomOf_lutStart, geomOf_lutSize]; omega, ?_⟩
        intro k hk
        rw [hua, ← hs2]
        exact hb k (by omega)
      | none =>
        cases hfba : findBestAddress s.st c.lutStart (c.lutStart + c.lutSize) (c.size t) with
        | error e => simp [eventsAt, step, heq, hfba, StreamOk]
        | ok a =>
          obtain ⟨g1, g2, _, g4, g5, g6⟩ := placed_geometry hsz hfba
          simp only [eventsAt, step, heq, hfba, StreamOk, EvOk, stepW, InWindow, geomOf_lutStart, geomOf_lutSize]
          refine ⟨⟨g1, g2⟩, ?_⟩
          refine ih _ _ (some (p, t)) ?_ horig
          refine ⟨?_, ?_, ?_, ?_⟩
          · intro u hu
            simp only [put, List.mem_cons, List.mem_filter] at hu
            rcases hu with rfl | ⟨hu, _⟩
            · simp [mkTab]
            · exact hinv.fromCtx u hu
          · intro u hu
            simp only [put, List.mem_cons, List.mem_filter] at hu
            rcases hu with rfl | ⟨hu, _⟩
            · simp only [mkTab]; exact ⟨g1, g2, g4⟩
            · exact hinv.inWin u hu
          · intro u hu k hk
            simp only [put, List.mem_cons, List.mem_filter] at hu
            rcases hu with rfl | ⟨hu, hno⟩
            · simp only [mkTab] at hk ⊢
              rw [load_in _ _ _ _ _ (by omega) (by omega)]; simp
            · simp only [Bool.not_eq_true'] at hno
              rw [overlaps_false] at hno
              simp only [mkTab, Tab.stop] at hno
              rw [load_out _ _ _ _ _ (by omega)]
              exact hinv.bytes u hu k hk
          · intro p' t' hpt
            injection hpt with hpt; injection hpt with hp1 ht1; subst hp1; subst ht1
            refine ⟨_, lookup_cons_self _ _ _, g5, ?_, ?_⟩
            · simp only [useAddr, geomOf_lutStart, geomOf_lutSize, slotBytes]; rw [g6]; exact g2
            · intro k hk
              simp only [useAddr, geomOf_lutStart, slotBytes]; rw [g6]
              rw [load_in _ _ _ _ _ (by omega) (by omega)]; simp

/-! ## invariants of the tracked state alone (no hypothesis on sizes) -/

structure StInv (c : Ctx) (st : State) : Prop where
  fromCtx : ∀ u ∈ st, u.vals = c.vals u.tid ∧ u.size = c.size u.tid
  disjoint : st.Pairwise ByteDisjoint
  distinct : st.Pairwise fun u v => u.vals ≠ v.vals

theorem stInv_nil (c : Ctx) : StInv c [] := ⟨fun _ h => absurd h List.not_mem_nil, List.Pairwise.nil, List.Pairwise.nil⟩

theorem byteDisjoint_symm {u v : Tab} (h : ByteDisjoint u v) : ByteDisjoint v u := fun b hb => h b ⟨hb.2, hb.1⟩

/-- states the pass can be in -/
inductive Reach (c : Ctx) : PS → Prop
  | init : Reach c {}
  | step {s s' : PS} {cmd : Cmd} {a : Act} : Reach c s → step c s cmd = .ok (s', a) → Reach c s'

theorem step_stInv {c : Ctx} {s s' : PS} {cmd : Cmd} {a : Act} (h : StInv c s.st) (hs : step c s cmd = .ok (s', a)) :
    StInv c s'.st := by
  cases cmd with
  | other => simp only [step] at hs; injection hs with hs; injection hs with h1 _; subst h1; exact h
  | stripe p =>
    simp only [step] at hs
    split at hs
    · injection hs with hs; injection hs with h1 _; subst h1; exact stInv_nil c
    · injection hs with hs; injection hs with h1 _; subst h1; exact h
  | lutDma p t =>
    simp only [step] at hs
    split at hs
    · injection hs with hs; injection hs with h1 _; subst h1; exact h
    · rename_i heq
      split at hs
      · cases hs
      · rename_i a' hfba
        injection hs with hs; injection hs with h1 _; subst h1
        refine ⟨?_, ?_, ?_⟩
        · intro u hu
          simp only [put, List.mem_cons, List.mem_filter] at hu
          rcases hu with rfl | ⟨hu, _⟩
          · simp [mkTab]
          · exact h.fromCtx u hu
        · simp only [put, List.pairwise_cons]
          refine ⟨?_, h.disjoint.sublist List.filter_sublist⟩
          intro u hu
          simp only [List.mem_filter, Bool.not_eq_true'] at hu
          exact byteDisjoint_of_not_overlaps hu.2
        · simp only [put, List.pairwise_cons]
          refine ⟨?_, h.distinct.sublist List.filter_sublist⟩
          intro u hu
          simp only [List.mem_filter] at hu
          have := getEquivalent_none heq u hu.1
          simp only [mkTab]; exact fun e => this e.symm

theorem reach_stInv {c : Ctx} {s : PS} (h : Reach c s) : StInv c s.st := by
  induction h with
  | init => exact stInv_nil c
  | step _ hs ih => exact step_stInv ih hs

theorem run_reach {c : Ctx} : ∀ (cmds : List Cmd) (s sf : PS) (acts : List Act), Reach c s → run c s cmds = .ok (acts, sf) →
    Reach c sf := by
  intro cmds
  induction cmds with
  | nil => intro s sf acts h hr; simp only [run] at hr; injection hr with hr; injection hr with _ h2; subst h2; exact h
  | cons cmd rest ih =>
    intro s sf acts h hr
    simp only [run] at hr
    split at hr
    · cases hr
    · rename_i s' a hs
      split at hr
      · cases hr
      · rename_i as sf' hrest
        injection hr with hr; injection hr with _ h2; subst h2
        exact ih s' _ as (Reach.step h hs) hrest


/-- an object that is in the list is found by `get_equivalent` as itself -/
theorem getEquivalent_self {c : Ctx} {st : State} (h : StInv c st) {u : Tab} (hu : u ∈ st) :
    getEquivalent st u.vals = some u := by
  cases heq : getEquivalent st u.vals with
  | none => exact absurd rfl (getEquivalent_none heq u hu)
  | some e =>
    obtain ⟨he, hv⟩ := getEquivalent_some heq
    by_cases hne : e = u
    · rw [hne]
    · exfalso
      rcases List.mem_iff_getElem.1 he with ⟨i, hi, rfl⟩
      rcases List.mem_iff_getElem.1 hu with ⟨j, hj, rfl⟩
      rcases Nat.lt_trichotomy i j with hij | hij | hij
      · exact (List.pairwise_iff_getElem.1 h.distinct i j hi hj hij) hv
      · subst hij; exact hne rfl
      · exact (List.pairwise_iff_getElem.1 h.distinct j i hj hi hij) hv.symm

/-- the copy of the address kept in the model's list cannot go stale: when the pass processes the DMA of a tensor object
    that is in the list, it finds that very entry and "assigns" the address the entry already has; nothing is placed -/
theorem assign_keeps_state {c : Ctx} {s : PS} (hr : Reach c s) {u : Tab} (hu : u ∈ s.st) (p : Nat) :
    ∃ s', step c s (.lutDma p u.tid) = .ok (s', .dropped u u.addr ((u.addr - c.lutStart) / slotSize)) ∧ s'.st = s.st ∧
      lookup s'.env.addr u.tid = some u.addr := by
  have hst := reach_stInv hr
  have hv := (hst.fromCtx u hu).1
  have := getEquivalent_self hst hu
  rw [hv] at this
  simp only [step, this]
  exact ⟨_, rfl, rfl, lookup_cons_self _ _ _⟩

/-! ## geometry of the tracked state and of every decision (sizes 256 … 2048) -/

def InWin (c : Ctx) (u : Tab) : Prop :=
  c.lutStart ≤ u.addr ∧ u.addr + u.size ≤ c.lutStart + c.lutSize ∧ (u.addr - c.lutStart) % u.size = 0 ∧ (u.addr - c.lutStart) % 256 = 0

theorem step_inWin {c : Ctx} (hsz : Sizes c) {s s' : PS} {cmd : Cmd} {a : Act} (h : ∀ u ∈ s.st, InWin c u)
    (hs : step c s cmd = .ok (s', a)) : ∀ u ∈ s'.st, InWin c u := by
  cases cmd with
  | other => simp only [step] at hs; injection hs with hs; injection hs with h1 _; subst h1; exact h
  | stripe p =>
    simp only [step] at hs
    split at hs
    · injection hs with hs; injection hs with h1 _; subst h1; exact fun _ hu => absurd hu List.not_mem_nil
    · injection hs with hs; injection hs with h1 _; subst h1; exact h
  | lutDma p t =>
    simp only [step] at hs
    split at hs
    · injection hs with hs; injection hs with h1 _; subst h1; exact h
    · split at hs
      · cases hs
      · rename_i a' hfba
        injection hs with hs; injection hs with h1 _; subst h1
        obtain ⟨g1, g2, g3, g4, _, _⟩ := placed_geometry hsz hfba
        intro u hu
        simp only [put, List.mem_cons, List.mem_filter] at hu
        rcases hu with rfl | ⟨hu, _⟩
        · exact ⟨g1, g2, g3, g4⟩
        · exact h u hu

theorem reach_inWin {c : Ctx} (hsz : Sizes c) {s : PS} (h : Reach c s) : ∀ u ∈ s.st, InWin c u := by
  induction h with
  | init => exact fun _ hu => absurd hu List.not_mem_nil
  | step _ hs ih => exact step_inWin hsz ih hs

/-- what a table DMA is given -/
theorem lutDma_decision {c : Ctx} (hsz : Sizes c) {s s' : PS} (hr : Reach c s) {p t : Nat} {act : Act}
    (hs : step c s (.lutDma p t) = .ok (s', act)) :
    ∃ a i, lookup s'.env.addr t = some a ∧ lookup s'.env.idx p = some i ∧ a = c.lutStart + 256 * i ∧ i < 8 ∧
      i = (a - c.lutStart) / 256 ∧
      ((act = .placed a i ∧ a + c.size t ≤ c.lutStart + c.lutSize ∧ (a - c.lutStart) % c.size t = 0 ∧
          s'.st = put s.st (mkTab c t a) ∧ getEquivalent s.st (c.vals t) = none) ∨
       (∃ e, act = .dropped e a i ∧ e ∈ s.st ∧ e.vals = c.vals t ∧ e.addr = a ∧ getEquivalent s.st (c.vals t) = some e ∧ s'.st = s.st)) := by
  simp only [step] at hs
  split at hs
  · rename_i e heq
    injection hs with hs; injection hs with h1 h2; subst h1; subst h2
    obtain ⟨hmem, hv⟩ := getEquivalent_some heq
    obtain ⟨w1, w2, _, w4⟩ := reach_inWin hsz hr e hmem
    have hsize := (reach_stInv hr).fromCtx e hmem
    obtain ⟨h2k, hss⟩ := hsz
    have := hss e.tid
    refine ⟨e.addr, _, lookup_cons_self _ _ _, lookup_cons_self _ _ _, ?_, ?_, rfl, Or.inr ⟨e, rfl, hmem, hv, rfl, heq, rfl⟩⟩
    · simp only [slotSize]; omega
    · simp only [slotSize]; omega
  · rename_i heq
    split at hs
    · cases hs
    · rename_i a hfba
      injection hs with hs; injection hs with h1 h2; subst h1; subst h2
      obtain ⟨g1, g2, g3, g4, g5, g6⟩ := placed_geometry hsz hfba
      exact ⟨a, _, lookup_cons_self _ _ _, lookup_cons_self _ _ _, g6.symm, g5, rfl, Or.inl ⟨rfl, g2, g3, rfl, heq⟩⟩

/-- the pass never raises on the sizes of the property -/
theorem step_total {c : Ctx} (hsz : Sizes c) (s : PS) (cmd : Cmd) : ∃ r, step c s cmd = .ok r := by
  cases cmd with
  | other => exact ⟨_, rfl⟩
  | stripe p => simp only [step]; split <;> exact ⟨_, rfl⟩
  | lutDma p t =>
    simp only [step]
    split
    · exact ⟨_, rfl⟩
    · have : c.size t ≠ 0 := by rcases hsz.2 t with e | e | e | e <;> omega
      simp only [findBestAddress, this, if_false]
      exact ⟨_, rfl⟩

theorem run_total {c : Ctx} (hsz : Sizes c) : ∀ (cmds : List Cmd) (s : PS), ∃ r, run c s cmds = .ok r := by
  intro cmds
  induction cmds with
  | nil => exact fun s => ⟨_, rfl⟩
  | cons cmd rest ih =>
    intro s
    obtain ⟨⟨s', a⟩, hs⟩ := step_total hsz s cmd
    obtain ⟨⟨as, sf⟩, hr⟩ := ih s'
    exact ⟨(a :: as, sf), by simp only [run, hs, hr]⟩


/-! ## values at decision time and values at the end -/

theorem lookup_some_mem {l : List (Nat × Nat)} {k v : Nat} (h : lookup l k = some v) : (k, v) ∈ l := by
  unfold lookup at h
  cases hf : l.find? (fun e => e.1 == k) with
  | none => rw [hf] at h; cases h
  | some e =>
    rw [hf] at h
    have h1 := List.mem_of_find?_eq_some hf
    have h2 : e.1 = k := by simpa using List.find?_some hf
    injection h with h
    have : e = (k, v) := by cases e; simp_all
    rw [← this]; exact h1

theorem step_env_mono {c : Ctx} {s s' : PS} {cmd : Cmd} {a : Act} (hs : step c s cmd = .ok (s', a)) :
    (∀ e ∈ s.env.addr, e ∈ s'.env.addr) ∧ (∀ e ∈ s.env.idx, e ∈ s'.env.idx) := by
  cases cmd with
  | other => simp only [step] at hs; injection hs with hs; injection hs with h1 _; subst h1; exact ⟨fun _ h => h, fun _ h => h⟩
  | stripe p =>
    simp only [step] at hs
    split at hs <;> (injection hs with hs; injection hs with h1 _; subst h1; exact ⟨fun _ h => h, fun _ h => h⟩)
  | lutDma p t =>
    simp only [step] at hs
    split at hs
    · injection hs with hs; injection hs with h1 _; subst h1
      exact ⟨fun _ h => List.mem_cons_of_mem _ h, fun _ h => List.mem_cons_of_mem _ h⟩
    · split at hs
      · cases hs
      · injection hs with hs; injection hs with h1 _; subst h1
        exact ⟨fun _ h => List.mem_cons_of_mem _ h, fun _ h => List.mem_cons_of_mem _ h⟩

theorem run_env_mono {c : Ctx} : ∀ (cmds : List Cmd) (s sf : PS) (acts : List Act), run c s cmds = .ok (acts, sf) →
    (∀ e ∈ s.env.addr, e ∈ sf.env.addr) ∧ (∀ e ∈ s.env.idx, e ∈ sf.env.idx) := by
  intro cmds
  induction cmds with
  | nil => intro s sf acts hr; simp only [run] at hr; injection hr with hr; injection hr with _ h2; subst h2; exact ⟨fun _ h => h, fun _ h => h⟩
  | cons cmd rest ih =>
    intro s sf acts hr
    simp only [run] at hr
    split at hr
    · cases hr
    · rename_i s' a hs
      split at hr
      · cases hr
      · rename_i as sf' hrest
        injection hr with hr; injection hr with _ h2; subst h2
        obtain ⟨m1, m2⟩ := step_env_mono hs
        obtain ⟨n1, n2⟩ := ih s' _ as hrest
        exact ⟨fun e h => n1 e (m1 e h), fun e h => n2 e (m2 e h)⟩

theorem stable_addr {env : Env} (h : stable env = true) {k v : Nat} (hm : (k, v) ∈ env.addr) : lookup env.addr k = some v := by
  simp only [stable, Bool.and_eq_true, List.all_eq_true] at h
  simpa using h.1 (k, v) hm

theorem stable_idx {env : Env} (h : stable env = true) {k v : Nat} (hm : (k, v) ∈ env.idx) : lookup env.idx k = some v := by
  simp only [stable, Bool.and_eq_true, List.all_eq_true] at h
  simpa using h.2 (k, v) hm

/-- when no assignment of the pass was overwritten later, the stream the later stages see is the stream with the values
    of decision time -/
theorem eventsFinal_eq_eventsAt {c : Ctx} {r : Refine} (hpa : PassesAgree c r) {E : Env} (hst : stable E = true) :
    ∀ (cmds : List Cmd) (s sf : PS) (acts : List Act) (cur : Option (Nat × Nat)), run c s cmds = .ok (acts, sf) →
      (∀ e ∈ sf.env.addr, e ∈ E.addr) → (∀ e ∈ sf.env.idx, e ∈ E.idx) →
      (∀ p t, cur = some (p, t) → ∃ i, lookup s.env.idx p = some i) → OrigOk c r cur cmds →
      eventsFinal c r E cmds acts = eventsAt c r s cmds := by
  intro cmds
  induction cmds with
  | nil => intro s sf acts cur hr _ _ _ _; simp only [run] at hr; injection hr with hr; injection hr with h1 _; subst h1; rfl
  | cons cmd rest ih =>
    intro s sf acts cur hr hE1 hE2 hcur horig
    simp only [run] at hr
    split at hr
    · cases hr
    · rename_i s' a hs
      split at hr
      · cases hr
      · rename_i as sf' hrest
        injection hr with hr; injection hr with h1 h2; subst h1; subst h2
        obtain ⟨n1, n2⟩ := run_env_mono rest s' _ as hrest
        cases cmd with
        | other =>
          simp only [eventsFinal, eventsAt, hs]
          have : s' = s := by simp only [step] at hs; injection hs with hs; injection hs with h1 _; exact h1.symm
          subst this
          simp only [OrigOk] at horig
          rw [ih s' _ as cur hrest hE1 hE2 hcur horig]
        | stripe p =>
          simp only [eventsFinal, eventsAt, hs]
          have hp := hpa p
          cases hpt : r.passTab p with
          | some t =>
            rw [hpt] at hp
            simp only [OrigOk, hpt] at horig
            obtain ⟨hc, horig⟩ := horig
            obtain ⟨i, hi⟩ := hcur p t hc
            have : s' = s := by
              simp only [step, hp, Option.isSome_some, Bool.not_true, Bool.false_and, Bool.false_eq_true, if_false] at hs
              injection hs with hs; injection hs with h1 _; exact h1.symm
            subst this
            have hfin : lookup E.idx p = some i := stable_idx hst (hE2 _ (n2 _ (lookup_some_mem hi)))
            rw [hfin, hi, ih s' _ as cur hrest hE1 hE2 hcur horig]
          | none =>
            rw [hpt] at hp
            simp only [OrigOk, hpt] at horig
            simp only [stripeEv, hpt]
            congr 1
            simp only [step, hp, Option.isSome_none, Bool.not_false, Bool.true_and] at hs
            split at hs
            · rename_i hres
              injection hs with hs; injection hs with h1 _; subst h1
              rw [if_pos hres] at horig
              exact ih _ _ as none hrest hE1 hE2 (fun _ _ h => nomatch h) horig
            · rename_i hres
              injection hs with hs; injection hs with h1 _; subst h1
              rw [if_neg hres] at horig
              exact ih _ _ as cur hrest hE1 hE2 hcur horig
        | lutDma p t =>
          simp only [OrigOk] at horig
          simp only [eventsFinal, eventsAt, hs]
          have hnext : ∃ i, lookup s'.env.idx p = some i := by
            simp only [step] at hs
            split at hs
            · injection hs with hs; injection hs with h1 _; subst h1; exact ⟨_, lookup_cons_self _ _ _⟩
            · split at hs
              · cases hs
              · injection hs with hs; injection hs with h1 _; subst h1; exact ⟨_, lookup_cons_self _ _ _⟩
          have hcur' : ∀ p' t', some (p, t) = some (p', t') → ∃ i, lookup s'.env.idx p' = some i := by
            intro p' t' h; injection h with h; injection h with h1 _; subst h1; exact hnext
          rw [ih s' _ as (some (p, t)) hrest hE1 hE2 hcur' horig]
          congr 1
          simp only [step] at hs
          split at hs
          · injection hs with hs; injection hs with _ h2; subst h2; simp [Act.kept]
          · split at hs
            · cases hs
            · rename_i a' _
              injection hs with hs; injection hs with h1 h2; subst h1; subst h2
              have : lookup E.addr t = some a' := stable_addr hst (hE1 _ (n1 _ List.mem_cons_self))
              simp [Act.kept, this]


/-! ## the executable checker decides the Spec -/

theorem holdsB_iff (g : Geom) (w : Window) (c n i : Nat) : holdsB g w c n i = true ↔ Holds g w c n i := by
  simp only [holdsB, Holds, Bool.and_eq_true, decide_eq_true_eq, List.all_eq_true, List.mem_range, beq_iff_eq]
  constructor
  · rintro ⟨⟨h1, h2⟩, h3⟩; exact ⟨h1, h2, h3⟩
  · rintro ⟨h1, h2, h3⟩; exact ⟨⟨h1, h2⟩, h3⟩

theorem evOkB_iff (g : Geom) (w : Window) (e : Ev) : evOkB g w e = true ↔ EvOk g w e := by
  cases e with
  | load c n a => simp [evOkB, EvOk, inWindowB, InWindow]
  | use c n i => simpa [evOkB, EvOk] using holdsB_iff g w c n i
  | kernel => simp [evOkB, EvOk]
  | nop => simp [evOkB, EvOk]

theorem streamOkB_iff (g : Geom) : ∀ (evs : List Ev) (w : Window), streamOkB g w evs = true ↔ StreamOk g w evs := by
  intro evs
  induction evs with
  | nil => intro w; simp [streamOkB, StreamOk]
  | cons e es ih => intro w; simp only [streamOkB, StreamOk, Bool.and_eq_true, evOkB_iff, ih]

theorem origOkB_iff (c : Ctx) (r : Refine) : ∀ (cmds : List Cmd) (cur : Option (Nat × Nat)),
    origOkB c r cur cmds = true ↔ OrigOk c r cur cmds := by
  intro cmds
  induction cmds with
  | nil => intro cur; simp [origOkB, OrigOk]
  | cons cmd rest ih =>
    intro cur
    cases cmd with
    | lutDma p t => simp only [origOkB, OrigOk, ih]
    | other => simp only [origOkB, OrigOk, ih]
    | stripe p =>
      simp only [origOkB, OrigOk]
      split <;> simp [ih]

/-- a kernel without table on a configuration where it may use the window leaves no table usable -/
theorem kernel_clobbers_every_table (g : Geom) (hc : g.clobbers = true) (w : Window) (c n i : Nat) (hn : 0 < n) :
    ¬ Holds g (stepW g w .kernel) c n i := by
  rintro ⟨_, _, h⟩
  have := h 0 hn
  simp [stepW, hc, Window.empty] at this

/-! ## `find_best_address` picks a place with the fewest overlaps -/

theorem nrOverlaps_le_length (st : State) (a step : Nat) : nrOverlaps st a step ≤ st.length := by
  unfold nrOverlaps; exact List.length_filter_le _ _

theorem foldl_fba_min (st : State) (step : Nat) (l : List Nat) (b : Nat × Nat) :
    (∀ a ∈ l, (l.foldl (fbaStep st step) b).2 ≤ nrOverlaps st a step) ∧ (l.foldl (fbaStep st step) b).2 ≤ b.2 ∧
      ((l.foldl (fbaStep st step) b) = b ∨
        (l.foldl (fbaStep st step) b).2 = nrOverlaps st (l.foldl (fbaStep st step) b).1 step) := by
  induction l generalizing b with
  | nil => simp
  | cons x l ih =>
    simp only [List.foldl_cons, List.mem_cons, forall_eq_or_imp]
    obtain ⟨i1, i2, i3⟩ := ih (fbaStep st step b x)
    by_cases hc : nrOverlaps st x step < b.2
    · have hx : fbaStep st step b x = (x, nrOverlaps st x step) := by simp [fbaStep, hc]
      rw [hx] at i1 i2 i3 ⊢
      refine ⟨⟨i2, i1⟩, by simp only at i2; omega, ?_⟩
      rcases i3 with h | h
      · right; rw [h]
      · right; exact h
    · have hx : fbaStep st step b x = b := by simp [fbaStep, hc]
      rw [hx] at i1 i2 i3 ⊢
      exact ⟨⟨by omega, i1⟩, i2, i3⟩

/-- `find_best_address` returns an address of the range with the minimal number of overlapping entries (as long as the
    list is shorter than `stop`, the value the loop starts from) -/
theorem findBestAddress_minimal {st : State} {start stop step a : Nat} (h : findBestAddress st start stop step = .ok a)
    (hlen : st.length < stop) (hne : start < stop) :
    a ∈ pyRange start stop step ∧ ∀ a' ∈ pyRange start stop step, nrOverlaps st a step ≤ nrOverlaps st a' step := by
  unfold findBestAddress at h
  split at h
  · cases h
  · rename_i hs
    have hs' : 0 < step := Nat.pos_of_ne_zero hs
    injection h with h
    obtain ⟨m1, _, m3⟩ := foldl_fba_min st step (pyRange start stop step) (start, stop)
    have hstart : start ∈ pyRange start stop step := (mem_pyRange hs').2 ⟨0, by simp, by simpa using hne⟩
    have hlt := m1 start hstart
    have hl := nrOverlaps_le_length st start step
    rcases m3 with e | e
    · rw [e] at hlt; simp only at hlt; omega
    · rw [h] at e
      refine ⟨?_, fun a' ha' => by rw [← e]; exact m1 a' ha'⟩
      rcases foldl_fba_fst st step (pyRange start stop step) (start, stop) with h1 | h1
      · rw [h] at h1; simp only at h1; rw [h1]; exact hstart
      · rw [h] at h1; exact h1

/-- placing a table where nothing overlaps evicts nothing -/
theorem put_of_no_overlap (st : State) (t : Tab) (h : nrOverlaps st t.addr t.size = 0) : put st t = t :: st := by
  unfold put
  congr 1
  rw [List.filter_eq_self]
  intro u hu
  unfold nrOverlaps at h
  have := List.length_eq_zero_iff.1 h
  rw [List.filter_eq_nil_iff] at this
  simpa [Tab.stop] using this u hu

/-! ## a syntactic sufficient condition for `stable` -/

def dmaTids : List Cmd → List Nat
  | [] => []
  | .lutDma _ t :: rest => t :: dmaTids rest
  | _ :: rest => dmaTids rest

def dmaPids : List Cmd → List Nat
  | [] => []
  | .lutDma p _ :: rest => p :: dmaPids rest
  | _ :: rest => dmaPids rest

theorem step_env_keys {c : Ctx} {s s' : PS} {cmd : Cmd} {a : Act} (hs : step c s cmd = .ok (s', a)) :
    s'.env.addr.map Prod.fst = (dmaTids [cmd]).reverse ++ s.env.addr.map Prod.fst ∧
    s'.env.idx.map Prod.fst = (dmaPids [cmd]).reverse ++ s.env.idx.map Prod.fst := by
  cases cmd with
  | other => simp only [step] at hs; injection hs with hs; injection hs with h1 _; subst h1; simp [dmaTids, dmaPids]
  | stripe p =>
    simp only [step] at hs
    split at hs <;> (injection hs with hs; injection hs with h1 _; subst h1; simp [dmaTids, dmaPids])
  | lutDma p t =>
    simp only [step] at hs
    split at hs
    · injection hs with hs; injection hs with h1 _; subst h1; simp [dmaTids, dmaPids]
    · split at hs
      · cases hs
      · injection hs with hs; injection hs with h1 _; subst h1; simp [dmaTids, dmaPids]

theorem dmaTids_cons (cmd : Cmd) (rest : List Cmd) : dmaTids (cmd :: rest) = dmaTids [cmd] ++ dmaTids rest := by
  cases cmd <;> simp [dmaTids]

theorem dmaPids_cons (cmd : Cmd) (rest : List Cmd) : dmaPids (cmd :: rest) = dmaPids [cmd] ++ dmaPids rest := by
  cases cmd <;> simp [dmaPids]

theorem run_env_keys {c : Ctx} : ∀ (cmds : List Cmd) (s sf : PS) (acts : List Act), run c s cmds = .ok (acts, sf) →
    sf.env.addr.map Prod.fst = (dmaTids cmds).reverse ++ s.env.addr.map Prod.fst ∧
    sf.env.idx.map Prod.fst = (dmaPids cmds).reverse ++ s.env.idx.map Prod.fst := by
  intro cmds
  induction cmds with
  | nil => intro s sf acts hr; simp only [run] at hr; injection hr with hr; injection hr with _ h2; subst h2; simp [dmaTids, dmaPids]
  | cons cmd rest ih =>
    intro s sf acts hr
    simp only [run] at hr
    split at hr
    · cases hr
    · rename_i s' a hs
      split at hr
      · cases hr
      · rename_i as sf' hrest
        injection hr with hr; injection hr with _ h2; subst h2
        obtain ⟨k1, k2⟩ := step_env_keys hs
        obtain ⟨j1, j2⟩ := ih s' _ as hrest
        rw [j1, j2, k1, k2, dmaTids_cons cmd rest, dmaPids_cons cmd rest]
        simp [List.reverse_append, List.append_assoc]

theorem lookup_of_nodup_keys : ∀ (l : List (Nat × Nat)), (l.map Prod.fst).Nodup → ∀ e ∈ l, lookup l e.1 = some e.2 := by
  intro l
  induction l with
  | nil => intro _ e he; cases he
  | cons x l ih =>
    intro hn e he
    simp only [List.map_cons, List.nodup_cons] at hn
    rcases List.mem_cons.1 he with rfl | he'
    · simp [lookup]
    · have hne : x.1 ≠ e.1 := fun h => hn.1 (by rw [h]; exact List.mem_map_of_mem he')
      have := ih hn.2 e he'
      simp only [lookup, List.find?_cons] at this ⊢
      rw [show (x.1 == e.1) = false by simpa using hne]
      exact this

theorem nodup_reverse' {l : List Nat} (h : l.Nodup) : l.reverse.Nodup := by
  unfold List.Nodup at *
  rw [List.pairwise_reverse]
  exact h.imp fun h => h.symm

/-- if no tensor object and no pass occurs in two table DMAs of the stream, nothing is reassigned -/
theorem stable_of_nodup {c : Ctx} {cmds : List Cmd} {acts : List Act} {sf : PS} (hr : optimize c cmds = .ok (acts, sf))
    (ht : (dmaTids cmds).Nodup) (hp : (dmaPids cmds).Nodup) : stable sf.env = true := by
  obtain ⟨k1, k2⟩ := run_env_keys cmds {} sf acts hr
  simp only [List.map_nil, List.append_nil] at k1 k2
  have h1 : (sf.env.addr.map Prod.fst).Nodup := by rw [k1]; exact nodup_reverse' ht
  have h2 : (sf.env.idx.map Prod.fst).Nodup := by rw [k2]; exact nodup_reverse' hp
  simp only [stable, Bool.and_eq_true, List.all_eq_true, beq_iff_eq]
  exact ⟨fun e he => lookup_of_nodup_keys _ h1 e he, fun e he => lookup_of_nodup_keys _ h2 e he⟩

/-! ## the list checker of the Spec -/

theorem shareByte_false {a b : Nat × Nat × Nat} (h : shareByte a b = false) :
    ∀ x, ¬ ((a.2.1 ≤ x ∧ x < a.2.1 + a.2.2) ∧ (b.2.1 ≤ x ∧ x < b.2.1 + b.2.2)) := by
  intro x
  simp only [shareByte, decide_eq_false_iff_not] at h
  omega

theorem tablesOverlap_none : ∀ (l : List (Nat × Nat × Nat)), tablesOverlap l = none →
    l.Pairwise fun a b => ∀ x, ¬ ((a.2.1 ≤ x ∧ x < a.2.1 + a.2.2) ∧ (b.2.1 ≤ x ∧ x < b.2.1 + b.2.2)) := by
  intro l
  induction l with
  | nil => intro _; exact List.Pairwise.nil
  | cons t rest ih =>
    intro h
    simp only [tablesOverlap] at h
    split at h
    · cases h
    · rename_i hf
      refine List.Pairwise.cons ?_ (ih h)
      intro u hu
      have := List.find?_eq_none.1 hf u hu
      exact shareByte_false (by simpa using this)

theorem problemsFrom_nil_iff (g : Geom) : ∀ (evs : List Ev) (i : Nat) (w : Window),
    problemsFrom g i w evs = [] ↔ streamOkB g w evs = true := by
  intro evs
  induction evs with
  | nil => intro i w; simp [problemsFrom, streamOkB]
  | cons e es ih =>
    intro i w
    simp only [problemsFrom, streamOkB, List.append_eq_nil_iff, Bool.and_eq_true, ih]
    constructor
    · rintro ⟨h1, h2⟩
      refine ⟨?_, h2⟩
      by_cases hb : evOkB g w e = true
      · exact hb
      · exfalso
        simp only [hb, Bool.false_eq_true, if_false] at h1
        cases e <;> simp_all [evOkB]
    · rintro ⟨h1, h2⟩
      exact ⟨by simp [h1], h2⟩

theorem problems_nil_iff (g : Geom) (evs : List Ev) : problems g evs = [] ↔ streamOkB g Window.empty evs = true :=
  problemsFrom_nil_iff g evs 0 Window.empty

end VelaVerif.Lemmas.LutState
