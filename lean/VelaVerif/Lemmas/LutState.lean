import VelaVerif.Spec.LutRefine
/-! Helper lemmas for `Props/C03LutState.lean`: the lookup-table residency pass (`Model/LutState.lean`) against the byte-level
table window (`Spec/LutWindow.lean`, `Spec/LutRefine.lean`). -/
namespace VelaVerif.Lemmas.LutState
open VelaVerif.Model.LutState VelaVerif.Spec.LutWindow VelaVerif.Spec.LutRefine

theorem overlaps_false {s1 e1 s2 e2 : Nat} : overlaps s1 e1 s2 e2 = false ↔ (e2 ≤ s1 ∨ e1 ≤ s2) := by
  simp [overlaps]; omega

theorem overlaps_true {s1 e1 s2 e2 : Nat} : overlaps s1 e1 s2 e2 = true ↔ (s1 < e2 ∧ s2 < e1) := by
  simp [overlaps]

/-- byte-level disjointness of two entries -/
def ByteDisjoint (u v : Tab) : Prop := ∀ b, ¬ ((u.addr ≤ b ∧ b < u.stop) ∧ (v.addr ≤ b ∧ b < v.stop))

theorem byteDisjoint_of_not_overlaps {u v : Tab} (h : overlaps u.addr u.stop v.addr v.stop = false) : ByteDisjoint u v := by
  intro b; rw [overlaps_false] at h; omega

theorem mem_pyRange {start stop step a : Nat} (hs : 0 < step) :
    a ∈ pyRange start stop step ↔ ∃ k, a = start + k * step ∧ start + k * step < stop := by
  unfold pyRange
  simp only [List.mem_map, List.mem_range]
  constructor
  · rintro ⟨k, hk, rfl⟩
    refine ⟨k, rfl, ?_⟩
    have h1 : (k + 1) * step ≤ stop - start + step - 1 := (Nat.le_div_iff_mul_le hs).1 hk
    rw [Nat.add_mul] at h1; omega
  · rintro ⟨k, rfl, hk⟩
    refine ⟨k, ?_, rfl⟩
    have h1 : (k + 1) * step ≤ stop - start + step - 1 := by rw [Nat.add_mul]; omega
    exact (Nat.le_div_iff_mul_le hs).2 h1

theorem foldl_fba_fst (st : State) (step : Nat) (l : List Nat) (b : Nat × Nat) :
    (l.foldl (fbaStep st step) b).1 = b.1 ∨ (l.foldl (fbaStep st step) b).1 ∈ l := by
  induction l generalizing b with
  | nil => simp
  | cons a l ih =>
    simp only [List.foldl_cons, List.mem_cons]
    rcases ih (fbaStep st step b a) with h | h
    · by_cases hc : nrOverlaps st a step < b.2
      · have : fbaStep st step b a = (a, nrOverlaps st a step) := by simp [fbaStep, hc]
        rw [this] at h ⊢; right; left; exact h
      · have : fbaStep st step b a = b := by simp [fbaStep, hc]
        rw [this] at h ⊢; left; exact h
    · right; right; exact h


theorem findBestAddress_form {st : State} {start stop step a : Nat} (h : findBestAddress st start stop step = .ok a) :
    0 < step ∧ ∃ k, a = start + k * step ∧ (k = 0 ∨ start + k * step < stop) := by
  unfold findBestAddress at h
  split at h
  · cases h
  · rename_i hs
    have hs' : 0 < step := Nat.pos_of_ne_zero hs
    refine ⟨hs', ?_⟩
    injection h with h
    rcases foldl_fba_fst st step (pyRange start stop step) (start, stop) with h1 | h1
    · exact ⟨0, by rw [← h, h1]; simp, Or.inl rfl⟩
    · rw [h] at h1
      obtain ⟨k, hk, hlt⟩ := (mem_pyRange hs').1 h1
      exact ⟨k, hk, Or.inr hlt⟩

/-- the table sizes of the property: 256, 512, 1024, 2048 bytes in a 2 KiB window -/
def Sizes (c : Ctx) : Prop := c.lutSize = 2048 ∧ ∀ t, c.size t = 256 ∨ c.size t = 512 ∨ c.size t = 1024 ∨ c.size t = 2048

/-- a newly placed table lies in the window, on a multiple of its size, and its index is its offset / 256 -/
theorem placed_geometry {c : Ctx} (hsz : Sizes c) {st : State} {t a : Nat}
    (h : findBestAddress st c.lutStart (c.lutStart + c.lutSize) (c.size t) = .ok a) :
    c.lutStart ≤ a ∧ a + c.size t ≤ c.lutStart + c.lutSize ∧ (a - c.lutStart) % c.size t = 0 ∧
      (a - c.lutStart) % 256 = 0 ∧ (a - c.lutStart) / slotSize < 8 ∧ c.lutStart + 256 * ((a - c.lutStart) / slotSize) = a := by
  obtain ⟨_, k, rfl, hk⟩ := findBestAddress_form h
  obtain ⟨h2k, hs⟩ := hsz
  rw [h2k] at hk ⊢
  unfold slotSize
  rcases hs t with e | e | e | e <;> rw [e] at hk ⊢ <;> omega


theorem getEquivalent_some {st : State} {v : Nat} {e : Tab} (h : getEquivalent st v = some e) : e ∈ st ∧ e.vals = v := by
  unfold getEquivalent at h
  exact ⟨List.mem_of_find?_eq_some h, by simpa using List.find?_some h⟩

theorem getEquivalent_none {st : State} {v : Nat} (h : getEquivalent st v = none) : ∀ u ∈ st, u.vals ≠ v := by
  unfold getEquivalent at h
  intro u hu
  simpa using List.find?_eq_none.1 h u hu

theorem lookup_cons_self (l : List (Nat × Nat)) (k v : Nat) : lookup ((k, v) :: l) k = some v := by
  simp [lookup]

/-- the state describes the window, and the table load still standing for the reference reading is where its pass's
    operation will look -/
structure Inv (c : Ctx) (r : Refine) (s : PS) (w : Window) (cur : Option (Nat × Nat)) : Prop where
  fromCtx : ∀ u ∈ s.st, u.vals = c.vals u.tid ∧ u.size = c.size u.tid
  inWin : ∀ u ∈ s.st, c.lutStart ≤ u.addr ∧ u.addr + u.size ≤ c.lutStart + c.lutSize ∧ (u.addr - c.lutStart) % 256 = 0
  bytes : ∀ u ∈ s.st, ∀ k, k < u.size → w (u.addr + k) = some (r.content u.tid, k)
  curOk : ∀ p t, cur = some (p, t) → ∃ i, lookup s.env.idx p = some i ∧ Holds (geomOf c) w (r.content t) (c.size t) i

theorem inv_nil (c : Ctx) (r : Refine) (env : Env) (w : Window) : Inv c r { st := [], env := env } w none :=
  { fromCtx := fun _ hu => absurd hu List.not_mem_nil
    inWin := fun _ hu => absurd hu List.not_mem_nil
    bytes := fun _ hu => absurd hu List.not_mem_nil
    curOk := fun _ _ h => by cases h }

theorem load_in (w : Window) (c n a b : Nat) (h1 : a ≤ b) (h2 : b < a + n) : (w.load c n a) b = some (c, b - a) := by
  simp [Window.load, h1, h2]

theorem load_out (w : Window) (c n a b : Nat) (h : b < a ∨ a + n ≤ b) : (w.load c n a) b = w b := by
  simp only [Window.load]; rw [if_neg (by omega)]

@[simp] theorem geomOf_clobbers (c : Ctx) : (geomOf c).clobbers = (c.reserved == 0) := rfl
@[simp] theorem geomOf_lutStart (c : Ctx) : (geomOf c).lutStart = c.lutStart := rfl
@[simp] theorem geomOf_lutSize (c : Ctx) : (geomOf c).lutSize = c.lutSize := rfl

theorem eventsAt_ok {c : Ctx} {r : Refine} (hsz : Sizes c) (hcb : EqualValuesEqualBytes c r) (hpa : PassesAgree c r) :
    ∀ (cmds : List Cmd) (s : PS) (w : Window) (cur : Option (Nat × Nat)), Inv c r s w cur → OrigOk c r cur cmds →
      StreamOk (geomOf c) w (eventsAt c r s cmds) := by
  intro cmds
  induction cmds with
  | nil => intro s w cur _ _; simp [eventsAt, StreamOk]
  | cons cmd rest ih =>
    intro s w cur hinv horig
    cases cmd with
    | other =>
      simp only [eventsAt, step, StreamOk, EvOk, stepW, true_and]
      exact ih s w cur hinv horig
    | stripe p =>
      have hp := hpa p
      cases hpt : r.passTab p with
      | some t =>
        rw [hpt] at hp
        simp only [OrigOk, hpt] at horig
        obtain ⟨hcur, horig⟩ := horig
        obtain ⟨i, hi, hholds⟩ := hinv.curOk p t hcur
        simp only [eventsAt, step, hp, Option.isSome_some, Bool.not_true, Bool.false_and, Bool.false_eq_true, if_false,
          StreamOk, stripeEv, hpt, hi, Option.getD_some, EvOk, stepW]
        exact ⟨hholds, ih s w cur hinv horig⟩
      | none =>
        rw [hpt] at hp
        simp only [OrigOk, hpt] at horig
        by_cases hres : (c.reserved == 0) = true
        · simp only [eventsAt, step, hp, Option.isSome_none, Bool.not_false, Bool.true_and, hres, if_true, StreamOk,
            stripeEv, hpt, EvOk, stepW, geomOf_clobbers, true_and]
          simp only [hres, if_true] at horig
          exact ih _ _ none (inv_nil c r s.env _) horig
        · simp only [eventsAt, step, hp, Option.isSome_none, Bool.not_false, Bool.true_and, hres, if_false, StreamOk,
            stripeEv, hpt, EvOk, stepW, geomOf_clobbers, true_and, Bool.false_eq_true]
          simp only [hres, if_false, Bool.false_eq_true] at horig
          exact ih s w cur hinv horig
    | lutDma p t =>
      simp only [OrigOk] at horig
      cases heq : getEquivalent s.st (c.vals t) with
      | some e =>
        obtain ⟨hmem, hv⟩ := getEquivalent_some heq
        simp only [eventsAt, step, heq, StreamOk, EvOk, stepW, true_and]
        refine ih _ w (some (p, t)) ?_ horig
        obtain ⟨hfv, hfs⟩ := hinv.fromCtx e hmem
        obtain ⟨hs1, hs2⟩ := hcb e.tid t (by rw [← hfv, hv])
        obtain ⟨hw1, hw2, hw3⟩ := hinv.inWin e hmem
        have hb := hinv.bytes e hmem
        refine ⟨hinv.fromCtx, hinv.inWin, hinv.bytes, ?_⟩
        intro p' t' hpt
        injection hpt with hpt; injection hpt with hp1 ht1; subst hp1; subst ht1
        refine ⟨_, lookup_cons_self _ _ _, ?_⟩
        obtain ⟨h2k, hss⟩ := hsz
        have hsize := hss t
        have hua : useAddr (geomOf c) ((e.addr - c.lutStart) / slotSize) = e.addr := by
          simp only [useAddr, geomOf_lutStart, slotBytes, slotSize]; omega
        refine ⟨by simp only [slotSize]; omega, by rw [hua]; simp only [geomOf_lutStart, geomOf_lutSize]; omega, ?_⟩
        intro k hk
        rw [hua, ← hs2]
        exact hb k (by omega)
      | none =>
        cases hfba : findBestAddress s.st c.lutStart (c.lutStart + c.lutSize) (c.size t) with
        | error e => simp [eventsAt, step, heq, hfba, StreamOk]
        | ok a =>
          obtain ⟨g1, g2, _, g4, g5, g6⟩ := placed_geometry hsz hfba
          simp only [eventsAt, step, heq, hfba, StreamOk, EvOk, stepW, InWindow, geomOf_lutStart, geomOf_lutSize]
          refine ⟨⟨g1, g2⟩, ?_⟩
          refine ih _ _ (some (p, t)) ?_ horig
          refine ⟨?_, ?_, ?_, ?_⟩
          · intro u hu
            simp only [put, List.mem_cons, List.mem_filter] at hu
            rcases hu with rfl | ⟨hu, _⟩
            · simp [mkTab]
            · exact hinv.fromCtx u hu
          · intro u hu
            simp only [put, List.mem_cons, List.mem_filter] at hu
            rcases hu with rfl | ⟨hu, _⟩
            · simp only [mkTab]; exact ⟨g1, g2, g4⟩
            · exact hinv.inWin u hu
          · intro u hu k hk
            simp only [put, List.mem_cons, List.mem_filter] at hu
            rcases hu with rfl | ⟨hu, hno⟩
            · simp only [mkTab] at hk ⊢
              rw [load_in _ _ _ _ _ (by omega) (by omega)]; simp
            · simp only [Bool.not_eq_true'] at hno
              rw [overlaps_false] at hno
              simp only [mkTab, Tab.stop] at hno
              rw [load_out _ _ _ _ _ (by omega)]
              exact hinv.bytes u hu k hk
          · intro p' t' hpt
            injection hpt with hpt; injection hpt with hp1 ht1; subst hp1; subst ht1
            refine ⟨_, lookup_cons_self _ _ _, g5, ?_, ?_⟩
            · simp only [useAddr, geomOf_lutStart, geomOf_lutSize, slotBytes]; rw [g6]; exact g2
            · intro k hk
              simp only [useAddr, geomOf_lutStart, slotBytes]; rw [g6]
              rw [load_in _ _ _ _ _ (by omega) (by omega)]; simp

end VelaVerif.Lemmas.LutState
